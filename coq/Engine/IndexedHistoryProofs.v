(* Per-index engine state, part 5: run() on ANY program value (C01).

   1. run() / run_timeout() depend on the ROWS of the program value only: whatever the index fields hold when the call
      starts - the indices of an earlier run, stale indices of relations the caller has overwritten since, the partly
      emptied indices an interrupted run_timeout left behind, anything of the right shape - the result is the same as on
      a fresh program value with the same rows (update_indices rebuilds every index field from the rows).
   2. Hence run() on any program value ends in the least model of the rows present (indexed_run_any_value).
   3. run_timeout with per-index state (IndexedHistory.run_timeout_idx: an interrupted call leaves the index fields its
      SCC had moved out EMPTY and the others intact) refines Engine/Timeout.v run_timeout: same flag, same rows; and
      run() after an interrupted run_timeout ends in the least model of the original input (indexed_timeout_then_run).
   4. _refuted: an update_indices that TRUSTS the stored indices of a relation whose row count equals the length of its
      full index (IndexedHistory.update_indices_trusting trust_full_len) breaks 2. after an overwrite with as many other
      rows, and after an interrupted run_timeout. *)
From Coq Require Import List ZArith Bool Arith Lia.
From AV Require Import Engine.Core Engine.Sem Engine.Eval Engine.Validate Engine.Naive Engine.Interface Engine.NaiveLemmas Engine.Rerun Engine.Main Engine.Vocab Engine.Examples.
From AV Require Import Engine.Strata Engine.Timeout Engine.InterfaceTimeout Engine.MainTimeout.
From AV Require Import Engine.IndexedEval Engine.IndexedBase Engine.IndexedSim Engine.IndexedRefine Engine.IndexedHistory.
Import ListNotations.
Open Scope Z_scope.

(* ---------- 1. only the rows matter ---------- *)
Lemma rebuild_ext : forall (R : list fact) (s1 s2 : list pidx), pshape s1 = pshape s2 ->
  map (fun p => {| p_rel := p_rel p; p_arity := p_arity p; p_cols := p_cols p;
                   p_ents := build_from (p_arity p) (p_cols p) (db_of R (p_rel p)) [] |}) s1
  = map (fun p => {| p_rel := p_rel p; p_arity := p_arity p; p_cols := p_cols p;
                     p_ents := build_from (p_arity p) (p_cols p) (db_of R (p_rel p)) [] |}) s2.
Proof.
  intros R. induction s1 as [|p s1 IH]; intros [|q s2] H; unfold pshape in H; cbn [map] in *; try discriminate; [reflexivity|].
  injection H as Hr Ha Hc Ht. rewrite Hr, Ha, Hc. f_equal. apply IH. exact Ht.
Qed.

Lemma update_indices_rows_only : forall c1 c2, pshape (istored c1) = pshape (istored c2) -> irows c1 = irows c2 ->
  update_indices_i no_faults c1 = update_indices_i no_faults c2.
Proof.
  intros c1 c2 Hs Hr. unfold update_indices_i. cbn [f_noclear no_faults]. rewrite Hr. f_equal. apply rebuild_ext. exact Hs.
Qed.

Theorem run_plan_idx_rows_only : forall I swap fuel pl c1 c2, pshape (istored c1) = pshape (istored c2) -> irows c1 = irows c2 ->
  run_plan_idx I swap fuel pl c1 = run_plan_idx I swap fuel pl c2.
Proof.
  intros I swap fuel pl c1 c2 Hs Hr. unfold run_plan_idx, run_plan_i. rewrite (update_indices_rows_only c1 c2 Hs Hr). reflexivity.
Qed.

Theorem run_timeout_idx_rows_only : forall I swap deadline fuel pl c1 c2, pshape (istored c1) = pshape (istored c2) -> irows c1 = irows c2 ->
  run_timeout_idx I swap deadline fuel pl c1 = run_timeout_idx I swap deadline fuel pl c2.
Proof.
  intros I swap deadline fuel pl c1 c2 Hs Hr. unfold run_timeout_idx. rewrite (update_indices_rows_only c1 c2 Hs Hr). reflexivity.
Qed.

(* ---------- 2. run() on any program value ---------- *)
Theorem indexed_run_any_value : forall (I : interp) swap decls pl, plan_idx_ok decls pl = true ->
  forall arities P, arities_functional arities -> no_agg P = true -> validate arities P pl = true ->
  forall fuel c c', pshape (istored c) = decls ->
  wf_facts arities (irows c) = true -> NoDup (irows c) -> (forall f, In f (irows c) -> fact_idx_ok decls f = true) ->
  run_plan_idx I swap fuel pl c = Some c' ->
  least_model I P (irows c) (irows c')
  /\ (exists added, irows c' = irows c ++ added /\ NoDup added /\ (forall f, In f added -> ~ In f (irows c)))
  /\ indices_agree (istored c').
Proof.
  intros I swap decls pl Hplan arities P Har Hna Hval fuel c c' Hsh Hwf Hnd Hok Hrun.
  rewrite (run_plan_idx_rows_only I swap fuel pl c (init_istate decls (irows c))) in Hrun; [|rewrite init_pshape; exact Hsh|reflexivity].
  exact (indexed_run_least_model I swap decls pl Hplan arities P Har Hna Hval fuel (irows c) c' Hwf Hnd Hok Hrun).
Qed.

(* ---------- 3. run_timeout with per-index state refines Engine/Timeout.v ---------- *)
Lemma pshape_drop_taken : forall sc st, pshape (drop_taken sc st) = pshape st.
Proof. intros sc st. unfold drop_taken, pshape. rewrite map_map. apply map_ext. intros p. destruct (taken sc p); reflexivity. Qed.

Section TSim.
Variable I : interp.
Variable swap : list tuple -> list tuple -> bool.
Variable deadline : nat -> bool.
Variable decls : list idecl.
Hypothesis Hdecls : forallb (decl_ok decls) decls = true.

Definition rok (R : list fact) : Prop := forall f, In f R -> fok decls f.

Definition loop_rel (dyn : list rel) (S0 : list fact) (x : (list fact * list fact * nat) + list fact)
           (y : (list lidx * list fact * nat) + list fact) : Prop :=
  match x, y with
  | inl (T, R, k), inl (store, R', k') =>
      R = R' /\ k = k' /\ sagree decls dyn S0 T [] [] store /\ Inv decls dyn S0 T [] /\ rok R
  | inr R, inr R' => R = R' /\ rok R
  | _, _ => False
  end.

Lemma loop_sim_t : forall fuel sc, (forall v, In v (s_vars sc) -> variant_idx_ok decls (s_dyn sc) v = true) ->
  forall S0 T D R store k, Inv decls (s_dyn sc) S0 T D -> sagree decls (s_dyn sc) S0 T D [] store -> rok R ->
  orel (loop_rel (s_dyn sc) S0) (scc_loop_t I swap deadline fuel sc S0 T D R k) (scc_loop_it I swap deadline fuel sc store R k).
Proof.
  induction fuel as [|n IH]; intros sc Hv S0 T D R store k HI Hag Hrok; [exact Logic.I|].
  cbn [scc_loop_t scc_loop_it]. pose proof (iteration_sim I swap decls Hdecls sc S0 T D R store Hv HI Hag) as H.
  destruct (scc_iteration I swap sc S0 T D R) as [N R'] eqn:Ea.
  destruct (scc_iteration_i I swap no_faults sc store R) as [[store1 R1] ch] eqn:Ec.
  destruct H as [Hag1 [HR [Hch [HndN [HokN [HdynN HdisN]]]]]]. cbn [fst snd] in *. subst R1 ch.
  destruct (scc_iteration_spec I swap sc S0 T D R N R' Ea) as [HR' _].
  assert (Hrok' : rok R').
  { subst R'. intros f Hf. apply in_app_or in Hf as [Hf|Hf]; [apply Hrok|apply HokN]; exact Hf. }
  destruct HI as [HndS [HndTD [HokS [HokTD [HstS HdynTD]]]]].
  pose proof (merge_sim decls Hdecls (s_dyn sc) S0 T D N store1 HndTD HokTD Hag1) as Hm.
  destruct N as [|f N]; cbn [nonnil].
  - cbn [orel loop_rel]. split; [reflexivity|]. split; [reflexivity|]. split; [exact Hm|]. split; [|exact Hrok'].
    unfold Inv. rewrite app_nil_r. repeat split; assumption.
  - destruct (deadline k).
    + cbn [orel loop_rel]. split; [reflexivity|exact Hrok'].
    + apply IH; [exact Hv| |exact Hm|exact Hrok']. unfold Inv. split; [exact HndS|]. split; [|split; [exact HokS|split; [|split; [exact HstS|]]]].
      * apply NoDup_app_intro; [exact HndTD|exact HndN|]. intros x Hx Hx'. exact (HdisN x Hx' Hx).
      * intros g Hg. apply in_app_or in Hg as [Hg|Hg]; [apply HokTD|apply HokN]; exact Hg.
      * intros g Hg. apply in_app_or in Hg as [Hg|Hg]; [apply HdynTD|apply HdynN]; exact Hg.
Qed.

Definition res_rel (x : tres) (y : ires) : Prop :=
  match x, y with
  | TDone a k, IDone c k' => k = k' /\ Sinv decls c a /\ rok (irows c)
  | TOut R, IOut c => irows c = R /\ pshape (istored c) = decls /\ rok R
  | TFuel, IFuel => True
  | _, _ => False
  end.

Lemma run_scc_sim_t : forall fuel sc c a k,
  (forall v, In v (s_vars sc) -> variant_idx_ok decls (s_dyn sc) v = true) -> Sinv decls c a -> rok (irows c) ->
  res_rel (run_scc_t I swap deadline fuel sc a k) (run_scc_it I swap deadline fuel sc c k).
Proof.
  intros fuel sc c a k Hv HS Hrok. destruct (enter_sim decls (s_dyn sc) c a HS) as [HI Hag]. destruct HS as [Hrows [Hsh _]].
  unfold run_scc_t, run_scc_it. rewrite Hrows in *. destruct (s_loop sc).
  - pose proof (loop_sim_t fuel sc Hv _ _ _ (rows a) _ k HI Hag Hrok) as H.
    destruct (scc_loop_t I swap deadline fuel sc _ [] _ (rows a) k) as [[[[Tf Rf] kf]|Rf]|];
      destruct (scc_loop_it I swap deadline fuel sc _ (rows a) k) as [[[[storef Rf'] kf']|Rf']|];
      cbn [orel loop_rel] in H; try contradiction; cbn [res_rel].
    + destruct H as [HR [Hk [Hag' [HI' Hr']]]]. subst Rf' kf'. split; [reflexivity|]. split; [|exact Hr'].
      apply (leave_sim decls (s_dyn sc)); assumption.
    + destruct H as [HR Hr']. subst Rf'. cbn [irows istored]. split; [reflexivity|]. split; [|exact Hr'].
      rewrite pshape_drop_taken. exact Hsh.
    + exact Logic.I.
  - pose proof (iteration_sim I swap decls Hdecls sc _ _ _ (rows a) _ Hv HI Hag) as H.
    destruct (scc_iteration I swap sc _ [] _ (rows a)) as [N R'] eqn:Ea.
    destruct (scc_iteration_i I swap no_faults sc _ (rows a)) as [[store1 R1] ch] eqn:Ec.
    destruct H as [Hag1 [HR [Hch [HndN [HokN [HdynN HdisN]]]]]]. cbn [fst snd] in *. subst R1.
    destruct (scc_iteration_spec I swap sc _ _ _ (rows a) N R' Ea) as [HR' _].
    assert (Hrok' : rok R').
    { subst R'. intros f Hf. apply in_app_or in Hf as [Hf|Hf]; [apply Hrok|apply HokN]; exact Hf. }
    destruct (deadline k); cbn [res_rel irows istored].
    + split; [reflexivity|]. split; [|exact Hrok']. rewrite pshape_drop_taken. exact Hsh.
    + split; [reflexivity|]. split; [|exact Hrok'].
      destruct HI as [HndS [HndTD [HokS [HokTD [HstS HdynTD]]]]]. cbn [app] in HndTD, HokTD, HdynTD, HdisN.
      pose proof (merge_sim decls Hdecls (s_dyn sc) _ [] _ N store1 HndTD HokTD Hag1) as Hm1. cbn [app] in Hm1.
      assert (HndDN : NoDup (filter (fact_dyn (s_dyn sc)) (stored a) ++ N)).
      { apply NoDup_app_intro; [exact HndTD|exact HndN|]. intros x Hx Hx'. exact (HdisN x Hx' Hx). }
      assert (HokDN : forall f, In f (filter (fact_dyn (s_dyn sc)) (stored a) ++ N) -> fok decls f).
      { intros g Hg. apply in_app_or in Hg as [Hg|Hg]; [apply HokTD|apply HokN]; exact Hg. }
      pose proof (merge_sim decls Hdecls (s_dyn sc) _ _ _ [] _ HndDN HokDN Hm1) as Hm2.
      apply (leave_sim decls (s_dyn sc) _ _ R' _ Hm2).
      unfold Inv. rewrite app_nil_r. repeat split; try assumption.
      intros g Hg. apply in_app_or in Hg as [Hg|Hg]; [apply HdynTD|apply HdynN]; exact Hg.
Qed.

(* same flag, same rows, the shape of the index fields kept; after `true` the index fields describe the rows *)
Definition fin_rel (x : bool * state) (y : bool * istate) : Prop :=
  fst x = fst y /\ irows (snd y) = rows (snd x) /\ pshape (istored (snd y)) = decls /\ rok (rows (snd x))
  /\ (fst x = true -> Sinv decls (snd y) (snd x)).

Lemma run_sccs_sim_t : forall fuel pl c a k,
  forallb (fun sc => forallb (variant_idx_ok decls (s_dyn sc)) (s_vars sc)) pl = true -> Sinv decls c a -> rok (irows c) ->
  orel fin_rel (run_sccs_t I swap deadline fuel pl a k) (run_sccs_it I swap deadline fuel pl c k).
Proof.
  intros fuel pl. induction pl as [|sc pl IH]; intros c a k Hok HS Hrok.
  - cbn [run_sccs_t run_sccs_it orel]. unfold fin_rel. cbn [fst snd]. destruct HS as [Hr [Hsh Hrest]].
    split; [reflexivity|]. split; [exact Hr|]. split; [exact Hsh|]. split; [rewrite <- Hr; exact Hrok|].
    intros _. split; [exact Hr|]. split; [exact Hsh|exact Hrest].
  - cbn [forallb] in Hok. apply andb_true_iff in Hok as [Hsc Hok]. rewrite forallb_forall in Hsc.
    cbn [run_sccs_t run_sccs_it]. pose proof (run_scc_sim_t fuel sc c a k Hsc HS Hrok) as H.
    destruct (run_scc_t I swap deadline fuel sc a k) as [a1 k1|R1|]; destruct (run_scc_it I swap deadline fuel sc c k) as [c1 k1'|c1|];
      cbn [res_rel] in H; try contradiction.
    + destruct H as [Hk [HS1 Hr1]]. subst k1'. apply IH; assumption.
    + destruct H as [Hr [Hsh Hr1]]. cbn [orel]. unfold fin_rel. cbn [fst snd rows].
      split; [reflexivity|]. split; [exact Hr|]. split; [exact Hsh|]. split; [exact Hr1|]. intros; discriminate.
    + exact Logic.I.
Qed.

Theorem run_timeout_idx_sim : forall fuel pl c a, plan_idx_ok decls pl = true ->
  irows c = rows a -> pshape (istored c) = decls -> NoDup (rows a) -> rok (rows a) ->
  orel fin_rel (run_timeout I swap deadline fuel pl a) (run_timeout_idx I swap deadline fuel pl c).
Proof.
  intros fuel pl c a Hp Hr Hsh Hnd Hok. unfold plan_idx_ok in Hp. apply andb_true_iff in Hp as [_ Hp].
  unfold run_timeout, run_timeout_idx. apply run_sccs_sim_t; [exact Hp|apply update_sim; assumption|].
  unfold update_indices_i. cbn [irows]. rewrite Hr. exact Hok.
Qed.
End TSim.

Section TCorollaries.
Variable I : interp.
Variable swap : list tuple -> list tuple -> bool.
Variable deadline : nat -> bool.
Variable decls : list idecl.
Variable pl : plan.
Hypothesis Hplan : plan_idx_ok decls pl = true.

(* run_timeout with per-index state returns the flag and the rows Engine/Timeout.v computes, from ANY pair of program
   values with equal rows (the interrupted call of the model with per-index state loses exactly the index fields the
   generated code loses; the abstract model forgets all of them) *)
Theorem indexed_timeout_rows_eq : forall fuel c a,
  irows c = rows a -> pshape (istored c) = decls -> NoDup (rows a) -> (forall f, In f (rows a) -> fact_idx_ok decls f = true) ->
  option_map (fun r => (fst r, irows (snd r))) (run_timeout_idx I swap deadline fuel pl c)
  = option_map (fun r => (fst r, rows (snd r))) (run_timeout I swap deadline fuel pl a).
Proof.
  intros fuel c a Hr Hsh Hnd Hok.
  pose proof (run_timeout_idx_sim I swap deadline decls (plan_ok_decls decls pl Hplan) fuel pl c a Hplan Hr Hsh Hnd Hok) as H.
  destruct (run_timeout I swap deadline fuel pl a) as [[b a']|]; destruct (run_timeout_idx I swap deadline fuel pl c) as [[b' c']|];
    cbn [orel] in H; try contradiction; [|reflexivity].
  destruct H as [Hb [Hrows _]]. cbn [fst snd] in *. subst b'. cbn [option_map fst snd]. rewrite Hrows. reflexivity.
Qed.

Variable arities : list (rel * nat).
Variable P : list rule.
Hypothesis Har : arities_functional arities.
Hypothesis Hna : no_agg P = true.
Hypothesis Hval : validate arities P pl = true.

(* whatever the clock did: the interrupted call leaves a program value whose index fields are partly empty, partly
   complete - and run() on it still ends in the least model of the ORIGINAL input, with all index fields in step again *)
Theorem indexed_timeout_then_run : forall fuel fuel' F0 b c1 c2,
  wf_facts arities F0 = true -> NoDup F0 -> (forall f, In f F0 -> fact_idx_ok decls f = true) ->
  run_timeout_idx I swap deadline fuel pl (init_istate decls F0) = Some (b, c1) ->
  run_plan_idx I swap fuel' pl c1 = Some c2 ->
  least_model I P F0 (irows c2) /\ indices_agree (istored c2) /\ pshape (istored c1) = decls.
Proof.
  intros fuel fuel' F0 b c1 c2 Hwf Hnd Hok Ht Hr.
  pose proof (run_timeout_idx_sim I swap deadline decls (plan_ok_decls decls pl Hplan) fuel pl (init_istate decls F0) (init_state F0)
                Hplan eq_refl (init_pshape decls F0) Hnd Hok) as H.
  rewrite Ht in H. destruct (run_timeout I swap deadline fuel pl (init_state F0)) as [[b' a1]|] eqn:Ea; cbn [orel] in H; [|contradiction].
  destruct H as [Hb [Hrows [Hsh [Hrok _]]]]. cbn [fst snd] in *. subst b'.
  destruct (run_timeout_correct_full I swap deadline arities P pl fuel F0 b a1 Har Hwf Hna Hval Ea) as (_ & (added & HR & Hnda & Hdis) & _ & _).
  assert (Hnd1 : NoDup (irows c1)).
  { rewrite Hrows, HR. apply NoDup_app_intro; [exact Hnd|exact Hnda|]. intros x Hx Hx'. exact (Hdis x Hx' Hx). }
  assert (Hok1 : forall f, In f (irows c1) -> fact_idx_ok decls f = true) by (rewrite Hrows; exact Hrok).
  destruct (indexed_run_indices_agree I swap decls pl Hplan fuel' c1 c2 Hsh Hnd1 Hok1 Hr) as [Hia [_ [a2 [Ha2 [Hr2 _]]]]].
  split; [|split; [exact Hia|exact Hsh]]. rewrite Hr2.
  apply (timeout_then_run I swap deadline arities P pl fuel fuel' F0 b a1 a2 Har Hwf Hna Hval Ea).
  rewrite (run_plan_rows_only I swap fuel' pl a1), <- Hrows. exact Ha2.
Qed.
End TCorollaries.

(* ---------- non-vacuity: a history on transitive closure (plan dumped by the real macro) ---------- *)
(* other edges, as many as before *)
Definition tc_input2 : list fact := [(0%nat, [11; 12]); (0%nat, [12; 13]); (0%nat, [13; 14]); (0%nat, [14; 11]); (0%nat, [14; 15])].

(* run(); the caller overwrites edge with other rows of the same count and clears path; run(): the least model of the new rows *)
Example tc_overwrite_history : exists snaps M,
  run_history_idx std_interp std_swap 20 tc_plan [HSet [0%nat] tc_input; HRun; HSet [0%nat; 1%nat] tc_input2; HRun] (init_istate tc_decls []) = Some snaps
  /\ naive_fix std_interp 20 tc_prog tc_input2 = Some M
  /\ match snaps with [_; (b, R, _)] => b = true /\ length R = 25%nat /\ forallb (fun f => mem_fact f R) M && forallb (fun f => mem_fact f M) R = true | _ => False end.
Proof. eexists. eexists. split; [vm_compute; reflexivity|]. split; [vm_compute; reflexivity|]. vm_compute. repeat split. Qed.

(* run_timeout interrupted at its 2nd deadline check (inside the recursive SCC): the index fields that SCC had moved out
   (edge through column 1, both indices of path) are empty, edge's other two index fields still list the 5 edges;
   run() then completes to the 25 rows of the uninterrupted run *)
Example tc_resume_history : exists snaps,
  run_history_idx std_interp std_swap 20 tc_plan [HSet [0%nat] tc_input; HTimeout 2; HRun] (init_istate tc_decls []) = Some snaps
  /\ match snaps with
     | [(b1, R1, ix1); (b2, R2, ix2)] =>
         b1 = false /\ length R1 = 15%nat
         /\ map (fun e => (fst (fst e), snd (fst e), length (snd e))) ix1
            = [(0%nat, [], 5%nat); (0%nat, [1%nat], 0%nat); (0%nat, [0%nat; 1%nat], 5%nat); (1%nat, [0%nat], 0%nat); (1%nat, [0%nat; 1%nat], 0%nat)]
         /\ b2 = true /\ length R2 = 25%nat
     | _ => False
     end.
Proof. eexists. split; [vm_compute; reflexivity|]. vm_compute. repeat split. Qed.

(* ---------- 4. _refuted: update_indices that trusts the stored indices when the counts agree ---------- *)
(* the statement of indexed_run_any_value fails for run_plan_trusting trust_full_len: after a completed run the caller
   overwrites edge with as many other rows (path cleared); the "run" evaluates the rules over the OLD edges: tuples that
   are not derivable from the rows present, derivable ones missing *)
Example trusting_update_refuted_overwrite : exists c1 c2 M,
  run_plan_idx std_interp std_swap 20 tc_plan (init_istate tc_decls tc_input) = Some c1
  /\ run_plan_trusting trust_full_len std_interp std_swap 20 tc_plan (set_rels_i [0%nat; 1%nat] tc_input2 c1) = Some c2
  /\ naive_fix std_interp 20 tc_prog (irows (set_rels_i [0%nat; 1%nat] tc_input2 c1)) = Some M
  /\ mem_fact (1%nat, [11; 12]) M = true /\ mem_fact (1%nat, [11; 12]) (irows c2) = false        (* derivable, missing *)
  /\ mem_fact (1%nat, [1; 2]) (irows c2) = true /\ mem_fact (1%nat, [1; 2]) M = false.           (* present, not derivable *)
Proof. eexists. eexists. eexists. split; [vm_compute; reflexivity|]. split; [vm_compute; reflexivity|]. split; [vm_compute; reflexivity|]. vm_compute. repeat split. Qed.

(* ... and the statement of indexed_timeout_then_run: after the interruption inside the recursive SCC edge's full index still
   accounts for every row, so edge's EMPTY index through column 1 is trusted and the "run" stops at the 15 rows it found *)
Example trusting_update_refuted_resume : exists c1 c2 M,
  run_timeout_idx std_interp std_swap (fire_at 2) 20 tc_plan (init_istate tc_decls tc_input) = Some (false, c1)
  /\ run_plan_trusting trust_full_len std_interp std_swap 20 tc_plan c1 = Some c2
  /\ naive_fix std_interp 20 tc_prog tc_input = Some M
  /\ length (irows c2) = 15%nat /\ length M = 25%nat
  /\ mem_fact (1%nat, [1; 1]) M = true /\ mem_fact (1%nat, [1; 1]) (irows c2) = false.
Proof. eexists. eexists. eexists. split; [vm_compute; reflexivity|]. split; [vm_compute; reflexivity|]. split; [vm_compute; reflexivity|]. vm_compute. repeat split. Qed.

Print Assumptions run_plan_idx_rows_only.
Print Assumptions indexed_run_any_value.
Print Assumptions indexed_timeout_rows_eq.
Print Assumptions indexed_timeout_then_run.
Print Assumptions tc_overwrite_history.
Print Assumptions tc_resume_history.
Print Assumptions trusting_update_refuted_overwrite.
Print Assumptions trusting_update_refuted_resume.
