(* The engine theorem for programs with aggregation / negation (C04): a validated
   plan, run to completion on duplicate-free input, computes the stratified model of
   the strata the plan induces; the strata form a stratification of the program.
   The model is stated with StratFixed.strat_model_fixed: InterfaceAgg.strat_model
   (built on Sem.least_model) is unsatisfiable for strata that aggregate, see
   StratRefuted.v. *)
From Coq Require Import List ZArith Bool Arith Lia Permutation.
From AV Require Import Engine.Core Engine.Sem Engine.Eval Engine.Validate Engine.Naive Engine.Interface Engine.Strat.
From AV Require Import Engine.InterfaceAgg Engine.NaiveLemmas Engine.Strata Engine.SemiNaive.
From AV Require Import Engine.StratFixed Engine.AggLemmas Engine.StrataAgg.
Import ListNotations.
Local Open Scope nat_scope.

Definition run_plan_strat_correct_fixed_stmt (I : interp) (swap : list tuple -> list tuple -> bool) : Prop :=
  forall arities P pl fuel F0 st,
    arities_functional arities -> wf_facts arities F0 = true -> NoDup F0 -> agg_perm_invariant I ->
    validate arities P pl = true ->
    run_plan I swap fuel pl (init_state F0) = Some st ->
    stratified (plan_strata P pl) = true
    /\ (forall r, In r P <-> In r (concat (plan_strata P pl)))
    /\ strat_model_fixed I (plan_strata P pl) F0 (rows st)
    /\ NoDup (rows st)
    /\ exists added, rows st = F0 ++ added.

Lemma plan_strata_eq : forall P pl, plan_strata P pl = map (stratum_of P) pl.
Proof. reflexivity. Qed.

Section Stratified.
Variable arities : list (rel * nat).
Variable P : list rule.
Variable pl : plan.
Hypothesis Hval : validate arities P pl = true.

(* producers of an aggregated relation run strictly earlier *)
Lemma strat_order_agg : forall j r j' r' k k' q,
  nth_error P j = Some r -> nth_error P j' = Some r' -> rule_scc pl j k -> rule_scc pl j' k' ->
  In q (body_agg_rels r) -> In q (head_rels r') -> k' < k.
Proof.
  intros j r j' r' k k' q Hr Hr' Hk Hk' Hqb Hqh.
  assert (Hj : j < length P) by (apply nth_error_Some; congruence).
  assert (Hj' : j' < length P) by (apply nth_error_Some; congruence).
  pose proof (val_strat arities P pl Hval) as H. unfold strat_ok in H. apply andb_true_iff in H as [_ H].
  rewrite forallb_forall in H. assert (Hin : In j (seq 0 (length P))) by (apply in_seq; lia).
  specialize (H j Hin). rewrite Hr in H. destruct (scc_index pl j 0) as [i|] eqn:Hi; [|discriminate].
  rewrite forallb_forall in H. assert (Hin' : In j' (seq 0 (length P))) by (apply in_seq; lia).
  specialize (H j' Hin'). rewrite Hr' in H. destruct (scc_index pl j' 0) as [i'|] eqn:Hi'; [|discriminate].
  cbv zeta in H. apply andb_true_iff in H as [_ H].
  rewrite (val_index_unique arities P pl Hval j k i Hj Hi Hk) in H.
  rewrite (val_index_unique arities P pl Hval j' k' i' Hj' Hi' Hk') in H.
  apply orb_true_iff in H as [H | H]; [|apply Nat.ltb_lt; exact H].
  apply negb_true_iff in H. assert (Ht : existsb (fun q => existsb (Nat.eqb q) (head_rels r')) (body_agg_rels r) = true).
  { apply existsb_shared. exists q. split; assumption. }
  congruence.
Qed.

Lemma heads_in_stratum : forall sc q, In q (flat_map rule_heads (stratum_of P sc)) ->
  exists j' r', In j' (rules_of_scc sc) /\ nth_error P j' = Some r' /\ In q (head_rels r').
Proof.
  intros sc q Hq. apply in_flat_map in Hq as [r' [Hr' Hq]]. unfold stratum_of in Hr'.
  apply in_filter_map in Hr' as [j' [Hj' Hn]]. exists j', r'. auto.
Qed.

Lemma heads_in_strata : forall l q, In q (flat_map rule_heads (concat (plan_strata P l))) ->
  exists i sc' j' r', nth_error l i = Some sc' /\ In j' (rules_of_scc sc') /\ nth_error P j' = Some r'
                      /\ In q (head_rels r').
Proof.
  intros l q Hq. apply in_flat_map in Hq as [r' [Hr' Hq]]. apply in_concat in Hr' as [s' [Hs' Hr']].
  rewrite plan_strata_eq in Hs'. apply in_map_iff in Hs' as [sc' [<- Hsc']].
  apply In_nth_error in Hsc' as [i Hi]. unfold stratum_of in Hr'. apply in_filter_map in Hr' as [j' [Hj' Hn]].
  exists i, sc', j', r'. auto.
Qed.

Lemma memr_In : forall q l, memr q l = true <-> In q l.
Proof. intros q l. unfold memr. apply existsb_nat_In. Qed.

Lemma stratified_suffix : forall rest pre, pl = pre ++ rest -> stratified (plan_strata P rest) = true.
Proof.
  induction rest as [|sc rest IH]; intros pre Hpl; [reflexivity|].
  rewrite plan_strata_eq. cbn [map stratified]. rewrite <- plan_strata_eq. apply andb_true_iff. split.
  - assert (Hk : nth_error pl (length pre) = Some sc).
    { rewrite Hpl, nth_error_app2, Nat.sub_diag; [reflexivity | lia]. }
    assert (Hlater : forall i sc', nth_error rest i = Some sc' -> nth_error pl (length pre + S i) = Some sc').
    { intros i sc' Hi. rewrite Hpl, nth_error_app2 by lia.
      replace (length pre + S i - length pre) with (S i) by lia. exact Hi. }
    apply forallb_forall. intros r Hr. unfold stratum_of in Hr. apply in_filter_map in Hr as [j [Hj Hn]].
    assert (Hjk : rule_scc pl j (length pre)) by (exists sc; split; assumption).
    apply andb_true_iff. split.
    + apply forallb_forall. intros q Hq. apply andb_true_iff. split; apply negb_true_iff.
      * destruct (memr q (flat_map rule_heads (concat (plan_strata P rest)))) eqn:Hm; [|reflexivity]. exfalso.
        apply memr_In in Hm. apply heads_in_strata in Hm as [i [sc' [j' [r' [Hi [Hj' [Hn' Hh]]]]]]].
        assert (Hjk' : rule_scc pl j' (length pre + S i)) by (exists sc'; split; [apply Hlater; exact Hi | exact Hj']).
        pose proof (strat_order_agg j r j' r' _ _ q Hn Hn' Hjk Hjk' Hq Hh). lia.
      * destruct (memr q (flat_map rule_heads (stratum_of P sc))) eqn:Hm; [|reflexivity]. exfalso.
        apply memr_In in Hm. apply heads_in_stratum in Hm as [j' [r' [Hj' [Hn' Hh]]]].
        assert (Hjk' : rule_scc pl j' (length pre)) by (exists sc; split; assumption).
        pose proof (strat_order_agg j r j' r' _ _ q Hn Hn' Hjk Hjk' Hq Hh). lia.
    + apply forallb_forall. intros q Hq. apply negb_true_iff.
      destruct (memr q (flat_map rule_heads (concat (plan_strata P rest)))) eqn:Hm; [|reflexivity]. exfalso.
      apply memr_In in Hm. apply heads_in_strata in Hm as [i [sc' [j' [r' [Hi [Hj' [Hn' Hh]]]]]]].
      assert (Hjk' : rule_scc pl j' (length pre + S i)) by (exists sc'; split; [apply Hlater; exact Hi | exact Hj']).
      pose proof (strat_order arities P pl Hval j r j' r' _ _ q Hn Hn' Hjk Hjk' Hq Hh). lia.
  - apply (IH (pre ++ [sc])). rewrite <- app_assoc. exact Hpl.
Qed.

Lemma plan_stratified : stratified (plan_strata P pl) = true.
Proof. apply (stratified_suffix pl []). reflexivity. Qed.

Lemma plan_covers : forall r, In r P <-> In r (concat (plan_strata P pl)).
Proof.
  intros r. split.
  - intros Hr. apply In_nth_error in Hr as [j Hj].
    assert (Hlt : j < length P) by (apply nth_error_Some; congruence).
    destruct (val_rule_scc arities P pl Hval j Hlt) as [k [sc [Hk Hin]]].
    apply in_concat. exists (stratum_of P sc). split.
    + rewrite plan_strata_eq. apply in_map. eapply nth_error_In. exact Hk.
    + unfold stratum_of. apply in_filter_map. exists j. split; assumption.
  - intros Hr. apply in_concat in Hr as [s [Hs Hr]]. rewrite plan_strata_eq in Hs.
    apply in_map_iff in Hs as [sc [<- _]]. unfold stratum_of in Hr. apply in_filter_map in Hr as [j [_ Hn]].
    eapply nth_error_In. exact Hn.
Qed.
End Stratified.

Section Run.
Variable I : interp.
Variable swap : list tuple -> list tuple -> bool.
Hypothesis Hspec : eval_variant_spec_agg_stmt I swap.
Hypothesis Hperm : agg_perm_invariant I.
Variable arities : list (rel * nat).
Variable P : list rule.
Hypothesis Hfun : arities_functional arities.

Definition K (st : state) : Prop :=
  (forall f, In f (stored st) <-> In f (rows st))
  /\ (forall f, In f (rows st) -> wf_fact arities f = true)
  /\ NoDup (stored st)
  /\ NoDup (rows st).

Lemma run_sccs_strat : forall fuel rest st st',
  forallb (scc_ok arities P) rest = true -> K st -> run_sccs I swap fuel rest st = Some st' ->
  strat_model_fixed I (plan_strata P rest) (rows st) (rows st')
  /\ NoDup (rows st') /\ exists A, rows st' = rows st ++ A.
Proof.
  intros fuel. induction rest as [|sc rest IH]; intros st st' Hok [Hsr [Hwf [Hnds Hndr]]] Hrun.
  - cbn [run_sccs] in Hrun. injection Hrun as <-. split; [|split].
    + cbn [plan_strata map strat_model_fixed]. split; apply incl_refl.
    + exact Hndr.
    + exists []. rewrite app_nil_r. reflexivity.
  - cbn [run_sccs] in Hrun. destruct (run_scc I swap fuel sc st) as [st1|] eqn:H1; [|discriminate].
    cbn [forallb] in Hok. apply andb_true_iff in Hok as [Hsc Hok].
    destruct (run_scc_spec_agg I swap arities P sc fuel st st1 Hspec Hperm Hfun Hsc Hsr Hwf Hnds H1)
      as [Hsr1 [Hwf1 [Hnds1 [[A [HR [HndA HA]]] Hlm]]]].
    assert (Hndr1 : NoDup (rows st1)).
    { rewrite HR. apply NoDup_app_intro; [exact Hndr | exact HndA |]. intros f Hf HfA. exact (HA f HfA Hf). }
    destruct (IH st1 st' Hok (conj Hsr1 (conj Hwf1 (conj Hnds1 Hndr1))) Hrun) as [Hsm [Hnd' [A' HR']]].
    split; [|split].
    + rewrite plan_strata_eq. cbn [map strat_model_fixed]. rewrite <- plan_strata_eq.
      exists (rows st1). split; [exact Hlm | exact Hsm].
    + exact Hnd'.
    + exists (A ++ A'). rewrite HR', HR, app_assoc. reflexivity.
Qed.
End Run.

Theorem run_plan_strat_correct_fixed : forall I swap,
  eval_variant_spec_agg_stmt I swap -> run_plan_strat_correct_fixed_stmt I swap.
Proof.
  intros I swap Hspec arities P pl fuel F0 st Hfun HwfF0 HndF0 Hperm Hval Hrun.
  split; [apply (plan_stratified arities P pl Hval)|]. split; [apply (plan_covers arities P pl Hval)|].
  unfold run_plan in Hrun.
  assert (HK : K arities (update_indices (init_state F0))).
  { unfold K, update_indices, init_state. cbn [rows stored app]. split; [intros f; reflexivity|].
    split; [apply wf_facts_forall; exact HwfF0|]. split; exact HndF0. }
  assert (Hoks : forallb (scc_ok arities P) pl = true).
  { unfold validate in Hval. apply andb_true_iff in Hval as [H _]. exact H. }
  destruct (run_sccs_strat I swap Hspec Hperm arities P Hfun fuel pl _ st Hoks HK Hrun) as [Hsm [Hnd [A HR]]].
  cbn [update_indices init_state rows] in Hsm, HR. split; [exact Hsm|]. split; [exact Hnd|]. exists A. exact HR.
Qed.

(* the name asked for; the statement is the corrected one (see the header) *)
Definition run_plan_strat_correct := run_plan_strat_correct_fixed.

Print Assumptions run_plan_strat_correct.
