(* run_timeout (C14): instantiation and the resume theorem *)
From Coq Require Import List ZArith Bool Arith.
From AV Require Import Engine.Core Engine.Sem Engine.Eval Engine.Validate Engine.Naive Engine.Interface Engine.Main.
From AV Require Import Engine.NaiveLemmas Engine.EvalSpec Engine.Timeout Engine.InterfaceTimeout Engine.TimeoutProofs.
Import ListNotations.

Theorem run_timeout_correct_full : forall I swap, run_timeout_correct_stmt I swap.
Proof. intros I swap. apply run_timeout_correct. apply eval_variant_spec. Qed.

(* a set of facts between the input and its least model has the same least model *)
Lemma least_model_between I P F0 R M :
  incl F0 R -> (forall M', incl F0 M' -> closed I P M' -> incl R M') ->
  least_model I P R M -> least_model I P F0 M.
Proof.
  intros HFR HS (IM & CM & LM). split; [|split; [exact CM|]].
  - intros f Hf. apply IM. apply HFR. exact Hf.
  - intros M' H0 HC. apply LM; [|exact HC]. apply HS; assumption.
Qed.

(* whatever the clock did, whichever deadline check fired: calling run() afterwards completes to the least
   model of the ORIGINAL input — exactly what a single uninterrupted run() computes (as a set) *)
Theorem timeout_then_run I swap (deadline : nat -> bool) arities P pl fuel fuel' F0 b st st' :
  arities_functional arities -> wf_facts arities F0 = true -> no_agg P = true -> validate arities P pl = true ->
  run_timeout I swap deadline fuel pl (init_state F0) = Some (b, st) ->
  run_plan I swap fuel' pl st = Some st' ->
  least_model I P F0 (rows st').
Proof.
  intros Har Hwf Hna Hval Ht Hr.
  destruct (run_timeout_correct_full I swap deadline arities P pl fuel F0 b st Har Hwf Hna Hval Ht) as (HS & (added & HR & _ & _) & Hwf' & _).
  destruct (run_any_state I swap arities P pl Har Hna Hval fuel' st st' Hwf' Hr) as [LM _].
  apply (least_model_between I P F0 (rows st)); [|exact HS|exact LM].
  rewrite HR. intros f Hf. apply in_or_app. left. exact Hf.
Qed.

(* ... and the same after a second interruption: run_timeout again from the interrupted value is again sound
   w.r.t. the original input (any number of interruptions, by iterating this step) *)
Theorem timeout_then_timeout I swap (d1 d2 : nat -> bool) arities P pl fuel fuel' F0 b1 st1 b2 st2 :
  arities_functional arities -> wf_facts arities F0 = true -> no_agg P = true -> validate arities P pl = true ->
  run_timeout I swap d1 fuel pl (init_state F0) = Some (b1, st1) ->
  run_timeout I swap d2 fuel' pl st1 = Some (b2, st2) ->
  (forall M', incl F0 M' -> closed I P M' -> incl (rows st2) M')
  /\ incl F0 (rows st2) /\ wf_facts arities (rows st2) = true
  /\ (b2 = true -> least_model I P F0 (rows st2)).
Proof.
  intros Har Hwf Hna Hval H1 H2.
  destruct (run_timeout_correct_full I swap d1 arities P pl fuel F0 b1 st1 Har Hwf Hna Hval H1) as (HS1 & (a1 & HR1 & _ & _) & Hwf1 & _).
  assert (run_timeout I swap d2 fuel' pl (init_state (rows st1)) = Some (b2, st2)) as H2' by exact H2.
  destruct (run_timeout_correct_full I swap d2 arities P pl fuel' (rows st1) b2 st2 Har Hwf1 Hna Hval H2') as (HS2 & (a2 & HR2 & _ & _) & Hwf2 & HB).
  assert (incl F0 (rows st1)) as H01 by (rewrite HR1; intros f Hf; apply in_or_app; left; exact Hf).
  split; [|split; [|split; [exact Hwf2|]]].
  - intros M' H0 HC. apply HS2; [apply HS1; assumption|exact HC].
  - rewrite HR2. intros f Hf. apply in_or_app. left. apply H01. exact Hf.
  - intros Hb. apply (least_model_between I P F0 (rows st1)); [exact H01|exact HS1|apply HB; exact Hb].
Qed.
