(* run_timeout (C14): the deadline is consulted where __check_return_conditions!() sits in the generated
   code — after every iteration of a looping SCC that changed something, and after every non-looping SCC —
   and `return false` leaves the function at once: the local total / delta / new indices are dropped, the
   rows pushed so far stay.  The clock is an arbitrary oracle: [deadline k] says whether the k-th reading
   (k = 0, 1, ...) finds the timeout expired. *)
From Coq Require Import List ZArith Bool Arith.
From AV Require Import Engine.Core Engine.Sem Engine.Eval.
Import ListNotations.

Inductive tres :=
| TDone (st : state) (k : nat)        (* SCC finished; k deadline readings so far *)
| TOut (rows_ : list fact)            (* timed out: only the rows matter (the next run rebuilds the indices) *)
| TFuel.

Section Timeout.
Variable I : interp.
Variable swap_oracle : list tuple -> list tuple -> bool.
Variable deadline : nat -> bool.

Fixpoint scc_loop_t (fuel : nat) (sc : pscc) (S T D R : list fact) (k : nat) : option (sum (list fact * list fact * nat) (list fact)) :=
  match fuel with
  | O => None
  | S n => let '(N, R') := scc_iteration I swap_oracle sc S T D R in
           match N with
           | [] => Some (inl (T ++ D, R', k))                    (* if !changed {break;} comes before the check *)
           | _ => if deadline k then Some (inr R') else scc_loop_t n sc S (T ++ D) N R' (Datatypes.S k)
           end
  end.

Definition run_scc_t (fuel : nat) (sc : pscc) (st : state) (k : nat) : tres :=
  let D0 := filter (fact_dyn (s_dyn sc)) (stored st) in
  let S := filter (fun f => negb (fact_dyn (s_dyn sc) f)) (stored st) in
  if s_loop sc then
    match scc_loop_t fuel sc S [] D0 (rows st) k with
    | Some (inl (T, R, k')) => TDone {| rows := R; stored := S ++ T |} k'
    | Some (inr R) => TOut R
    | None => TFuel
    end
  else
    let '(N, R) := scc_iteration I swap_oracle sc S [] D0 (rows st) in
    if deadline k then TOut R else TDone {| rows := R; stored := S ++ (D0 ++ N) |} (Datatypes.S k).

Fixpoint run_sccs_t (fuel : nat) (pl : plan) (st : state) (k : nat) : option (bool * state) :=
  match pl with
  | [] => Some (true, st)
  | sc :: pl' => match run_scc_t fuel sc st k with
                 | TDone st' k' => run_sccs_t fuel pl' st' k'
                 | TOut R => Some (false, {| rows := R; stored := [] |})
                 | TFuel => None
                 end
  end.

(* run_timeout(..): (returned bool, program value afterwards) *)
Definition run_timeout (fuel : nat) (pl : plan) (st : state) : option (bool * state) :=
  run_sccs_t fuel pl (update_indices st) 0.
End Timeout.

(* the oracle used by the correspondence runs: the virtual clock of the hook fires at the n-th reading *)
Definition fire_at (n : nat) (k : nat) : bool := Nat.leb n (Datatypes.S k).

(* a history of interrupted calls run_timeout(k1); run_timeout(k2); ...; run(): the returned flags and rows after
   every interrupted call, and the rows after the final uninterrupted run() *)
Fixpoint timeout_script (I : interp) (swap : list tuple -> list tuple -> bool) (fuel : nat) (pl : plan)
         (ks : list nat) (st : state) : option (list (bool * list fact) * list fact) :=
  match ks with
  | [] => option_map (fun st' => ([], rows st')) (run_plan I swap fuel pl st)
  | k :: ks' =>
      match run_timeout I swap (fire_at k) fuel pl st with
      | Some (b, st') => option_map (fun r => ((b, rows st') :: fst r, snd r)) (timeout_script I swap fuel pl ks' st')
      | None => None
      end
  end.
