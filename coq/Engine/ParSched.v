(* The parallel head update (ParStep.run_sched): schedule invariant, equality with the
   serial head-update fold for every distribution and every finishing schedule, and
   progress of unfinished states. *)
From Coq Require Import List ZArith Bool Arith Lia Permutation.
From AV Require Import Engine.Core Engine.Sem Engine.Eval Engine.ParStep Engine.NaiveLemmas Engine.Strata.
Import ListNotations.
Local Open Scope nat_scope.

Definition pend (w : worker) : list fact := match pending w with Some f => [f] | None => [] end.
Definition pendings (ws : list worker) : list fact := flat_map pend ws.
Definition todos (ws : list worker) : list fact := flat_map todo ws.
Definition is_nil {A} (l : list A) : bool := match l with [] => true | _ => false end.

Lemma set_nth_split : forall (A : Type) i (l : list A) x,
  nth_error l i = Some x -> exists l1 l2, l = l1 ++ x :: l2 /\ forall y, set_nth i y l = l1 ++ y :: l2.
Proof.
  intros A. induction i as [|i IH]; intros l x H; destruct l as [|a l]; try discriminate.
  - cbn [nth_error] in H. injection H as ->. exists [], l. split; [reflexivity | intros y; reflexivity].
  - cbn [nth_error] in H. destruct (IH l x H) as [l1 [l2 [Hl Hs]]]. exists (a :: l1), l2. split.
    + rewrite Hl. reflexivity.
    + intros y. cbn [set_nth app]. rewrite Hs. reflexivity.
Qed.

Lemma pendings_split : forall l1 w l2, pendings (l1 ++ w :: l2) = pendings l1 ++ pend w ++ pendings l2.
Proof. intros. unfold pendings. rewrite flat_map_app. reflexivity. Qed.
Lemma todos_split : forall l1 w l2, todos (l1 ++ w :: l2) = todos l1 ++ todo w ++ todos l2.
Proof. intros. unfold todos. rewrite flat_map_app. reflexivity. Qed.

Lemma in_mid : forall (A : Type) (g : A) t1 f rest t2,
  In g (t1 ++ (f :: rest) ++ t2) -> g = f \/ In g (t1 ++ rest ++ t2).
Proof.
  intros A g t1 f rest t2 H. apply in_app_or in H as [H | H].
  - right. apply in_or_app. left. exact H.
  - cbn [app] in H. destruct H as [<- | H]; [left; reflexivity | right; apply in_or_app; right; exact H].
Qed.

Lemma incl_mid : forall (A : Type) t1 (f : A) rest t2 all,
  incl (t1 ++ (f :: rest) ++ t2) all -> incl (t1 ++ rest ++ t2) all.
Proof.
  intros A t1 f rest t2 all H g Hg. apply H. apply in_app_or in Hg as [Hg | Hg]; apply in_or_app.
  - left. exact Hg.
  - right. cbn [app]. right. exact Hg.
Qed.

Section Sched.
Variables T D R all : list fact.

Definition SInv (st : pstate) : Prop :=
  NoDup (pN st)
  /\ (forall f, In f (pN st) -> In f all /\ ~ In f T /\ ~ In f D)
  /\ (exists A, pR st = R ++ A /\ Permutation (A ++ pendings (pws st)) (pN st)
                /\ pchanged st = negb (is_nil A))
  /\ incl (todos (pws st)) all
  /\ (forall f, In f all -> In f T \/ In f D \/ In f (pN st) \/ In f (todos (pws st))).

Lemma step_worker_inv : forall st i, SInv st -> SInv (step_worker T D st i).
Proof.
  intros st i Hinv. unfold step_worker. destruct (nth_error (pws st) i) as [w|] eqn:Hn; [|exact Hinv].
  destruct (set_nth_split _ _ _ _ Hn) as [l1 [l2 [Hws Hset]]].
  pose proof Hinv as Hinv0.
  destruct Hinv as [Hnd [HN [[A [HR [Hperm Hch]]] [Htd Hcov]]]].
  rewrite Hws in Hperm, Htd, Hcov. rewrite pendings_split in Hperm. rewrite todos_split in Htd, Hcov.
  destruct (pending w) as [f|] eqn:Hp.
  - (* push the pending fact *)
    assert (Hpw : pend w = [f]) by (unfold pend; rewrite Hp; reflexivity).
    rewrite Hpw in Hperm.
    split; [exact Hnd|]. split; [exact HN|]. cbn [pN pR pws pchanged]. rewrite Hset.
    rewrite pendings_split, todos_split. cbn [pend pending todo app].
    split; [|split; [exact Htd | exact Hcov]].
    exists (A ++ [f]). split; [rewrite HR, app_assoc; reflexivity|]. split.
    + eapply Permutation_trans; [|exact Hperm]. rewrite <- app_assoc. apply Permutation_app_head.
      cbn [app]. apply Permutation_middle.
    + destruct A; reflexivity.
  - assert (Hpw : pend w = []) by (unfold pend; rewrite Hp; reflexivity).
    rewrite Hpw in Hperm.
    destruct (todo w) as [|f rest] eqn:Ht.
    + exact Hinv0.
    + destruct (mem_fact f T || mem_fact f D) eqn:HmTD; [|destruct (mem_fact f (pN st)) eqn:HmN].
      * (* already in total or delta *)
        split; [exact Hnd|]. split; [exact HN|]. cbn [pN pR pws pchanged]. rewrite Hset.
        rewrite pendings_split, todos_split. cbn [pend pending todo].
        split; [exists A; split; [exact HR|]; split; [exact Hperm | exact Hch]|].
        split; [eapply incl_mid; exact Htd|].
        intros g Hg. destruct (Hcov g Hg) as [H | [H | [H | H]]]; auto.
        apply in_mid in H as [-> | H]; [|auto].
        apply orb_true_iff in HmTD as [Hm | Hm]; apply mem_fact_In in Hm; auto.
      * (* another insert won *)
        split; [exact Hnd|]. split; [exact HN|]. cbn [pN pR pws pchanged]. rewrite Hset.
        rewrite pendings_split, todos_split. cbn [pend pending todo].
        split; [exists A; split; [exact HR|]; split; [exact Hperm | exact Hch]|].
        split; [eapply incl_mid; exact Htd|].
        intros g Hg. destruct (Hcov g Hg) as [H | [H | [H | H]]]; auto.
        apply in_mid in H as [-> | H]; [|auto]. apply mem_fact_In in HmN. auto.
      * (* successful insert *)
        apply orb_false_iff in HmTD as [HmT HmD]. apply mem_fact_false in HmT, HmD, HmN.
        unfold SInv. cbn [pN pR pws pchanged]. rewrite Hset. rewrite pendings_split, todos_split. cbn [pend pending todo].
        split; [|split; [|split; [|split]]].
        -- apply NoDup_app_intro; [exact Hnd | constructor; [intros [] | constructor] |].
           intros x Hx [<- | []]. exact (HmN Hx).
        -- intros g Hg. apply in_app_or in Hg as [Hg | [<- | []]]; [apply HN; exact Hg|].
           split; [|split; assumption]. apply Htd. apply in_or_app. right. left. reflexivity.
        -- exists A. split; [exact HR|]. split; [|exact Hch].
           apply Permutation_trans with (l' := (A ++ pendings l1 ++ pendings l2) ++ [f]).
           ++ rewrite <- !app_assoc. apply Permutation_app_head. apply Permutation_app_head.
              cbn [app]. apply Permutation_cons_append.
           ++ apply Permutation_app_tail. exact Hperm.
        -- eapply incl_mid. exact Htd.
        -- intros g Hg. destruct (Hcov g Hg) as [H | [H | [H | H]]]; auto.
           ++ right. right. left. apply in_or_app. left. exact H.
           ++ apply in_mid in H as [-> | H]; [|auto]. right. right. left. apply in_or_app. right. left. reflexivity.
Qed.

Lemma run_sched_inv : forall sched st, SInv st -> SInv (run_sched T D st sched).
Proof.
  unfold run_sched. induction sched as [|i sched IH]; intros st H; [exact H|].
  cbn [fold_left]. apply IH. apply step_worker_inv. exact H.
Qed.
End Sched.

Lemma init_pendings : forall work, pendings (map (fun l => {| todo := l; pending := None |}) work) = [].
Proof. induction work as [|l work IH]; [reflexivity|]. cbn [map]. unfold pendings in *. cbn [flat_map]. rewrite IH. reflexivity. Qed.

Lemma init_todos : forall work, todos (map (fun l => {| todo := l; pending := None |}) work) = concat work.
Proof. induction work as [|l work IH]; [reflexivity|]. cbn [map concat]. unfold todos in *. cbn [flat_map todo]. rewrite IH. reflexivity. Qed.

Lemma init_inv : forall T D R work, SInv T D R (concat work) (par_init R work).
Proof.
  intros T D R work. unfold SInv, par_init. cbn [pN pR pws pchanged]. rewrite init_pendings, init_todos.
  split; [constructor|]. split; [intros f []|]. split; [|split; [apply incl_refl | auto]].
  exists []. rewrite app_nil_r. split; [reflexivity|]. split; [apply Permutation_refl | reflexivity].
Qed.

Lemma finished_empty : forall ws, forallb worker_done ws = true -> pendings ws = [] /\ todos ws = [].
Proof.
  induction ws as [|w ws IH]; intro H; [split; reflexivity|].
  cbn [forallb] in H. apply andb_true_iff in H as [Hw H]. destruct (IH H) as [H1 H2].
  unfold pendings, todos in *. cbn [flat_map]. rewrite H1, H2. unfold worker_done in Hw. unfold pend.
  destruct (todo w); [|discriminate]. destruct (pending w); [discriminate|]. split; reflexivity.
Qed.

Lemma perm_is_nil : forall (A : Type) (l l' : list A), Permutation l l' -> is_nil l = is_nil l'.
Proof.
  intros A l l' H. destruct l, l'; try reflexivity.
  - apply Permutation_nil in H. discriminate.
  - apply Permutation_sym in H. apply Permutation_nil in H. discriminate.
Qed.

(* what every finishing schedule computes *)
Theorem run_sched_spec : forall T D R work sched,
  let st' := run_sched T D (par_init R work) sched in
  finished st' = true ->
  NoDup (pN st')
  /\ (forall f, In f (pN st') <-> In f (concat work) /\ ~ In f T /\ ~ In f D)
  /\ (exists A, pR st' = R ++ A /\ Permutation A (pN st'))
  /\ pchanged st' = negb (is_nil (pN st')).
Proof.
  intros T D R work sched st' Hfin.
  destruct (run_sched_inv T D R (concat work) sched _ (init_inv T D R work))
    as [Hnd [HN [[A [HR [Hperm Hch]]] [_ Hcov]]]]. fold st' in Hnd, HN, HR, Hperm, Hch, Hcov.
  unfold finished in Hfin. destruct (finished_empty _ Hfin) as [Hp Ht].
  rewrite Hp, app_nil_r in Hperm. rewrite Ht in Hcov.
  split; [exact Hnd|]. split; [|split].
  - intros f. split; [apply HN|]. intros [Hf [HnT HnD]].
    destruct (Hcov f Hf) as [H | [H | [H | []]]]; [contradiction | contradiction | exact H].
  - exists A. split; assumption.
  - rewrite Hch. f_equal. apply perm_is_nil. exact Hperm.
Qed.

Theorem par_iteration_serial_holds : forall T D R work sched,
  let st' := run_sched T D (par_init R work) sched in
  finished st' = true ->
  let serial := fold_left (head_update T D) (concat work) ([], R) in
  Permutation (pN st') (fst serial)
  /\ NoDup (pN st')
  /\ (exists A, pR st' = R ++ A /\ Permutation A (pN st'))
  /\ pchanged st' = negb (match pN st' with [] => true | _ => false end).
Proof.
  intros T D R work sched st' Hfin serial.
  destruct (run_sched_spec T D R work sched Hfin) as [Hnd [Hmem [HA Hch]]]. fold st' in Hnd, Hmem, HA, Hch.
  split; [|split; [exact Hnd | split; [exact HA | exact Hch]]].
  unfold serial. destruct (fold_left (head_update T D) (concat work) ([], R)) as [N' R'] eqn:Hs.
  destruct (fold_head_update_spec _ _ _ _ _ _ _ Hs) as [A0 [HN' [_ [Hnd0 [HA0 Hcov0]]]]].
  cbn [app] in HN'. subst A0. cbn [fst].
  apply NoDup_Permutation; [exact Hnd | exact Hnd0|]. intros f. rewrite Hmem. split.
  - intros [Hf [HnT HnD]]. destruct (Hcov0 f Hf) as [H | [H | [[] | H]]]; [contradiction | contradiction | exact H].
  - intros Hf. destruct (HA0 f Hf) as [H1 [H2 [H3 _]]]. auto.
Qed.

(* ---------- progress ---------- *)
Lemma forallb_false_ex : forall (A : Type) (p : A -> bool) l, forallb p l = false -> exists x, In x l /\ p x = false.
Proof.
  intros A p. induction l as [|a l IH]; intro H; [discriminate|].
  cbn [forallb] in H. destruct (p a) eqn:Hp.
  - destruct (IH H) as [x [Hx Hpx]]. exists x. split; [right; exact Hx | exact Hpx].
  - exists a. split; [left; reflexivity | exact Hp].
Qed.

Lemma nth_error_set_nth : forall (A : Type) i (l : list A) x y, nth_error l i = Some x -> nth_error (set_nth i y l) i = Some y.
Proof.
  intros A. induction i as [|i IH]; intros l x y H; destruct l as [|a l]; try discriminate; cbn [set_nth nth_error].
  - reflexivity.
  - apply (IH l x y H).
Qed.

Theorem par_progress_holds : forall T D st, finished st = false -> exists i, step_worker T D st i <> st.
Proof.
  intros T D st Hfin. unfold finished in Hfin. apply forallb_false_ex in Hfin as [w [Hw Hd]].
  apply In_nth_error in Hw as [i Hi]. exists i. unfold step_worker. rewrite Hi.
  assert (Hpws : forall w', todo w' <> todo w ->
            forall st', pws st' = set_nth i w' (pws st) -> st' <> st).
  { intros w' Hne st' Hp Heq. rewrite Heq in Hp. pose proof (nth_error_set_nth _ i (pws st) w w' Hi) as Hn.
    rewrite <- Hp, Hi in Hn. injection Hn as Hn. apply Hne. rewrite Hn. reflexivity. }
  destruct (pending w) as [f|] eqn:Hp.
  - intro Heq. apply (f_equal pR) in Heq. cbn [pR] in Heq. apply (f_equal (@length fact)) in Heq.
    rewrite app_length in Heq. cbn [length] in Heq. lia.
  - unfold worker_done in Hd. rewrite Hp in Hd. destruct (todo w) as [|f rest] eqn:Ht; [discriminate|].
    assert (Hne : rest <> f :: rest).
    { intro H. apply (f_equal (@length fact)) in H. cbn [length] in H. lia. }
    destruct (mem_fact f T || mem_fact f D); [|destruct (mem_fact f (pN st))];
      (eapply Hpws; [|reflexivity]); cbn [todo]; exact Hne.
Qed.
