(* Core (desugared) rule language, interpretations, environments.
   Column values are Z; interpreted Rust expressions are symbols with an
   arbitrary interpretation record. *)
From Coq Require Import List ZArith Bool Arith.
Import ListNotations.
Open Scope Z_scope.

Definition var := nat.
Definition rel := nat.
Definition tuple := list Z.
Definition fact := (rel * tuple)%type.

Inductive term := TVar (x : var) | TConst (c : Z) | TFun (f : nat) (xs : list var).
(* if p(xs)   |   let x = f(xs)  /  if let Some(x) = f(xs) *)
Inductive cond := CIf (p : nat) (xs : list var) | CBind (x : var) (f : nat) (xs : list var).
(* argument of an aggregated relation: wildcard, bound (aggregated) variable, or key expression *)
Inductive aarg := AWild | ABound (x : var) | AKey (t : term).
Inductive bitem :=
| BClause (r : rel) (args : list term) (cs : list cond)
| BCond (c : cond)
| BGen (x : var) (g : nat) (xs : list var)
| BAgg (out : option var) (a : nat) (bound : list var) (r : rel) (args : list aarg).
Record rule := { heads : list (rel * list term); body : list bitem }.

Record interp := {
  fint : nat -> list Z -> Z;               (* expressions *)
  pint : nat -> list Z -> bool;            (* if conditions *)
  bint : nat -> list Z -> option Z;        (* let / if-let: None = pattern does not match *)
  gint : nat -> list Z -> list Z;          (* for x in g(..) *)
  aint : nat -> list (list Z) -> list Z    (* aggregators: bound-column tuples -> results *)
}.

(* environments are positional (variable x lives at position x): two orders of binding
   distinct variables give EQUAL environments, which makes the simple-join swap a plain equality *)
Definition env := list (option Z).
Definition lookup (e : env) (x : var) : option Z := nth x e None.
Fixpoint bind (x : var) (v : Z) (e : env) : env :=
  match x, e with
  | O, [] => [Some v]
  | O, _ :: e' => Some v :: e'
  | S n, [] => None :: bind n v []
  | S n, o :: e' => o :: bind n v e'
  end.

Fixpoint eval_vars (e : env) (xs : list var) : option (list Z) :=
  match xs with
  | [] => Some []
  | x :: xs' => match lookup e x, eval_vars e xs' with Some v, Some vs => Some (v :: vs) | _, _ => None end
  end.

Definition eval_term (I : interp) (e : env) (t : term) : option Z :=
  match t with
  | TVar x => lookup e x
  | TConst c => Some c
  | TFun f xs => option_map (fint I f) (eval_vars e xs)
  end.

Fixpoint eval_terms (I : interp) (e : env) (ts : list term) : option (list Z) :=
  match ts with
  | [] => Some []
  | t :: ts' => match eval_term I e t, eval_terms I e ts' with Some v, Some vs => Some (v :: vs) | _, _ => None end
  end.

Definition sat_cond (I : interp) (e : env) (c : cond) : option env :=
  match c with
  | CIf p xs => match eval_vars e xs with Some vs => if pint I p vs then Some e else None | None => None end
  | CBind x f xs => match eval_vars e xs with
                    | Some vs => match bint I f vs with Some v => Some (bind x v e) | None => None end
                    | None => None end
  end.

Fixpoint sat_conds (I : interp) (e : env) (cs : list cond) : option env :=
  match cs with
  | [] => Some e
  | c :: cs' => match sat_cond I e c with Some e' => sat_conds I e' cs' | None => None end
  end.

Definition eval_head (I : interp) (e : env) (h : rel * list term) : option fact :=
  option_map (fun vs => (fst h, vs)) (eval_terms I e (snd h)).

Fixpoint zlist_eqb (a b : list Z) : bool :=
  match a, b with
  | [], [] => true
  | x :: a', y :: b' => Z.eqb x y && zlist_eqb a' b'
  | _, _ => false
  end.
Definition fact_eqb (f g : fact) : bool := Nat.eqb (fst f) (fst g) && zlist_eqb (snd f) (snd g).
Definition mem_fact (f : fact) (l : list fact) : bool := existsb (fact_eqb f) l.
Definition mem_tuple (t : tuple) (l : list tuple) : bool := existsb (zlist_eqb t) l.

Fixpoint dedup_tuples (l : list tuple) : list tuple :=
  match l with [] => [] | t :: l' => if mem_tuple t l' then dedup_tuples l' else t :: dedup_tuples l' end.

(* the tuples of relation r in a list of facts *)
Definition db_of (F : list fact) (r : rel) : list tuple :=
  map snd (filter (fun f => Nat.eqb (fst f) r) F).

Fixpoint filter_map {A B} (f : A -> option B) (l : list A) : list B :=
  match l with [] => [] | a :: l' => match f a with Some b => b :: filter_map f l' | None => filter_map f l' end end.
