(* The stratified engine theorem instantiated (C04), and the link to C17: the
   aggregators of the vocabulary are permutation invariant. *)
From Coq Require Import List ZArith Bool Arith Permutation.
From AV Require Import Engine.Core Engine.Sem Engine.Eval Engine.Validate Engine.Naive Engine.Interface Engine.InterfaceAgg.
From AV Require Import Engine.Strat Engine.StratFixed Engine.StratFixedLemmas Engine.EvalSpecAgg Engine.SemiNaiveAgg Engine.Vocab.
From AV Require Import Agg.AggModel Agg.AggLaws.
Import ListNotations.

Theorem run_plan_strat_correct_full : forall I swap, run_plan_strat_correct_fixed_stmt I swap.
Proof. intros I swap. apply run_plan_strat_correct_fixed. apply eval_variant_spec_agg. Qed.

Lemma col0_perm l l' : Permutation l l' -> Permutation (col0 l) (col0 l').
Proof. intros H. unfold col0. apply Permutation_map. exact H. Qed.

(* the shipped aggregators (as modelled in Agg/AggModel.v, proved in Agg/AggLaws.v) satisfy the hypothesis *)
Theorem std_interp_agg_perm_invariant : agg_perm_invariant std_interp.
Proof.
  intros a l l' H. cbn [aint std_interp]. unfold std_aint.
  destruct a as [|[|[|[|[|a]]]]]; try reflexivity.
  - rewrite (Permutation_length H). reflexivity.
  - apply agg_sum_perm. apply col0_perm. exact H.
  - apply agg_min_perm. apply col0_perm. exact H.
  - apply agg_max_perm. apply col0_perm. exact H.
  - rewrite (Permutation_length H). reflexivity.
Qed.

Print Assumptions run_plan_strat_correct_full.
