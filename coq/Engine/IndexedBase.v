(* Per-index engine state, part 1 (lemmas only; model in IndexedEval.v): list / tuple basics and the algebra of one
   physical index.  [repr a c L] is the content of the index with column set c of a relation of arity a after the
   tuples L were inserted in this order (a hash index keeps every entry under its key, the full index is a set);
   every operation the generated code performs on an index (index_get, iter_all, is_empty, contains_key,
   index_insert / insert_if_not_present, move_index_contents, the rebuild of update_indices) is characterised on it. *)
From Coq Require Import List ZArith Bool Arith Lia.
From AV Require Import Engine.Core Engine.Sem Engine.Eval Engine.NaiveLemmas Engine.IndexedEval.
Import ListNotations.
Open Scope Z_scope.

(* ---------- basics ---------- *)
Lemma cols_eqb_eq : forall a b, cols_eqb a b = true <-> a = b.
Proof.
  induction a as [|x a IH]; destruct b as [|y b]; cbn [cols_eqb]; split; intros H; try reflexivity; try discriminate.
  - apply andb_true_iff in H as [H1 H2]. apply Nat.eqb_eq in H1. apply IH in H2. congruence.
  - injection H as -> ->. rewrite Nat.eqb_refl. apply IH. reflexivity.
Qed.

Lemma zlist_eqb_refl : forall a, zlist_eqb a a = true.
Proof. intros a. apply zlist_eqb_eq. reflexivity. Qed.

Lemma mem_tuple_In : forall t l, mem_tuple t l = true <-> In t l.
Proof.
  intros t l. unfold mem_tuple. rewrite existsb_exists. split.
  - intros [x [Hx He]]. apply zlist_eqb_eq in He. subst. exact Hx.
  - intros H. exists t. split; [exact H | apply zlist_eqb_refl].
Qed.

Lemma mem_tuple_false : forall t l, mem_tuple t l = false <-> ~ In t l.
Proof.
  intros t l. rewrite <- mem_tuple_In. destruct (mem_tuple t l); split; intros H.
  - discriminate.
  - exfalso. apply H. reflexivity.
  - intros H2. discriminate.
  - reflexivity.
Qed.

Lemma proj_seq_gen : forall (t pre : tuple), proj (seq (length pre) (length t)) (pre ++ t) = t.
Proof.
  induction t as [|v t IH]; intros pre; [reflexivity|]. cbn [length seq]. unfold proj in *. cbn [map]. f_equal.
  - rewrite app_nth2 by lia. rewrite Nat.sub_diag. reflexivity.
  - specialize (IH (pre ++ [v])). rewrite app_length in IH. cbn [length] in IH. rewrite <- app_assoc in IH. cbn [app] in IH.
    replace (length pre + 1)%nat with (S (length pre)) in IH by lia. exact IH.
Qed.

Lemma proj_seq : forall t n, length t = n -> proj (seq 0 n) t = t.
Proof. intros t n <-. exact (proj_seq_gen t []). Qed.

Lemma NoDup_app_inv : forall (A : Type) (a b : list A), NoDup (a ++ b) -> NoDup a /\ NoDup b /\ (forall x, In x a -> ~ In x b).
Proof.
  induction a as [|x a IH]; intros b H; cbn [app] in H.
  - split; [constructor|]. split; [exact H|]. intros x [].
  - inversion H as [|? ? Hn Hd]; subst. destruct (IH b Hd) as [Ha [Hb Hab]]. split; [|split; [exact Hb|]].
    + constructor; [|exact Ha]. intros Hin. apply Hn. apply in_or_app. left. exact Hin.
    + intros y [<-|Hy]; [|apply Hab; exact Hy]. intros Hin. apply Hn. apply in_or_app. right. exact Hin.
Qed.

Lemma dedup_NoDup_id : forall l, NoDup l -> dedup_tuples l = l.
Proof.
  induction l as [|t l IH]; intros H; [reflexivity|]. inversion H as [|? ? Hn Hd]; subst. cbn [dedup_tuples].
  apply mem_tuple_false in Hn. rewrite Hn. f_equal. apply IH. exact Hd.
Qed.

Lemma mem_fact_db : forall r t X, mem_fact (r, t) X = mem_tuple t (db_of X r).
Proof.
  intros r t X. destruct (mem_fact (r, t) X) eqn:E.
  - symmetry. apply mem_tuple_In. apply in_db_of. apply mem_fact_In. exact E.
  - symmetry. apply mem_tuple_false. intros H. apply in_db_of in H. apply mem_fact_In in H. congruence.
Qed.

Lemma NoDup_db_of : forall X r, NoDup X -> NoDup (db_of X r).
Proof.
  induction X as [|[q t] X IH]; intros r H; [constructor|]. inversion H as [|? ? Hn Hd]; subst.
  unfold db_of. cbn [filter fst]. destruct (Nat.eqb q r) eqn:E.
  - cbn [map snd]. constructor; [|apply IH; exact Hd]. apply Nat.eqb_eq in E. subst q.
    intros Hin. apply Hn. apply in_db_of. exact Hin.
  - apply IH. exact Hd.
Qed.

(* ---------- the content of an index as a function of the sequence of tuples inserted ---------- *)
Definition repr (a : nat) (c : list nat) (L : list tuple) : ients :=
  if is_full a c then map (fun t => (t, t)) L else map (fun t => (proj c t, t)) L.

(* what the full index needs: a set of tuples that are their own key *)
Definition good (a : nat) (c : list nat) (L : list tuple) : Prop :=
  is_full a c = true -> NoDup L /\ forall t, In t L -> proj c t = t.

Lemma repr_nil : forall a c, repr a c [] = [].
Proof. intros a c. unfold repr. destruct (is_full a c); reflexivity. Qed.

Lemma repr_app : forall a c L1 L2, repr a c (L1 ++ L2) = repr a c L1 ++ repr a c L2.
Proof. intros a c L1 L2. unfold repr. destruct (is_full a c); apply map_app. Qed.

Lemma repr_all : forall a c L, ix_all (repr a c L) = L.
Proof.
  intros a c L. unfold ix_all, repr. destruct (is_full a c); rewrite map_map; cbn [snd]; apply map_id.
Qed.

Lemma repr_empty : forall a c L, ix_empty (repr a c L) = match L with [] => true | _ => false end.
Proof. intros a c L. unfold repr. destruct (is_full a c); destruct L; reflexivity. Qed.

Lemma get_hash : forall c k L, ix_get k (map (fun t => (proj c t, t)) L) = filter (fun t => zlist_eqb (proj c t) k) L.
Proof.
  intros c k L. unfold ix_get. induction L as [|t L IH]; [reflexivity|]. cbn [map filter]. unfold key_eqb at 1. cbn [fst].
  destruct (zlist_eqb (proj c t) k); cbn [map snd]; rewrite IH; reflexivity.
Qed.

Lemma get_full : forall k L, ix_get k (map (fun t => (t, t)) L) = filter (fun t => zlist_eqb t k) L.
Proof.
  intros k L. unfold ix_get. induction L as [|t L IH]; [reflexivity|]. cbn [map filter]. unfold key_eqb at 1. cbn [fst].
  destruct (zlist_eqb t k); cbn [map snd]; rewrite IH; reflexivity.
Qed.

Lemma has_full : forall k L, ix_has k (map (fun t => (t, t)) L) = mem_tuple k L.
Proof.
  intros k L. unfold ix_has, mem_tuple. induction L as [|t L IH]; [reflexivity|]. cbn [map existsb]. rewrite IH.
  unfold key_eqb. cbn [fst]. f_equal. destruct (zlist_eqb t k) eqn:E.
  - apply zlist_eqb_eq in E. subst. symmetry. apply zlist_eqb_refl.
  - destruct (zlist_eqb k t) eqn:E2; [|reflexivity]. apply zlist_eqb_eq in E2. subst. rewrite zlist_eqb_refl in E. discriminate.
Qed.

(* a lookup through the index = the lookup of Engine/Eval.v in the common multiset *)
Lemma repr_get : forall a c L k, good a c L -> ix_get k (repr a c L) = index_get L a c k.
Proof.
  intros a c L k Hg. unfold repr, index_get, is_full in *. destruct (Nat.eqb (length c) a) eqn:E.
  - destruct (Hg E) as [Hnd Hp]. rewrite get_full.
    rewrite dedup_NoDup_id.
    + apply filter_ext_in. intros t Ht. rewrite (Hp t Ht). reflexivity.
    + apply NoDup_filter. exact Hnd.
  - apply get_hash.
Qed.

Lemma repr_has : forall a c L k, is_full a c = true -> ix_has k (repr a c L) = mem_tuple k L.
Proof. intros a c L k H. unfold repr. rewrite H. apply has_full. Qed.

(* inserting one more tuple *)
Lemma repr_insert : forall a c L t, good a c (L ++ [t]) ->
  ix_insert (is_full a c) (if is_full a c then t else proj c t) t (repr a c L) = repr a c (L ++ [t]).
Proof.
  intros a c L t Hg. unfold repr, ix_insert, good in *. destruct (is_full a c) eqn:E.
  - destruct (Hg eq_refl) as [Hnd _]. rewrite has_full.
    assert (Hn : mem_tuple t L = false).
    { apply mem_tuple_false. intros Hin. apply NoDup_remove_2 in Hnd. rewrite app_nil_r in Hnd. contradiction. }
    rewrite Hn, map_app. reflexivity.
  - rewrite map_app. reflexivity.
Qed.

(* update_indices inserts the selected columns as key, also into the full index *)
Lemma build_from_repr : forall a c ts L, good a c (L ++ ts) ->
  build_from a c ts (repr a c L) = repr a c (L ++ ts).
Proof.
  intros a c ts. induction ts as [|t ts IH]; intros L Hg; [rewrite app_nil_r; reflexivity|].
  unfold build_from. cbn [fold_left]. fold (build_from a c ts).
  assert (Hg1 : good a c (L ++ [t])).
  { intros Hf. destruct (Hg Hf) as [Hnd Hp]. split.
    - replace (L ++ t :: ts) with ((L ++ [t]) ++ ts) in Hnd by (rewrite <- app_assoc; reflexivity).
      apply NoDup_app_inv in Hnd. apply Hnd.
    - intros u Hu. apply Hp. apply in_app_or in Hu as [Hu|[<-|[]]]; apply in_or_app; [left; exact Hu | right; left; reflexivity]. }
  assert (Hk : proj c t = if is_full a c then t else proj c t).
  { destruct (is_full a c) eqn:Hf; [|reflexivity]. destruct (Hg Hf) as [_ Hp]. apply Hp. apply in_or_app. right. left. reflexivity. }
  rewrite Hk, (repr_insert a c L t Hg1). replace (L ++ t :: ts) with ((L ++ [t]) ++ ts) by (rewrite <- app_assoc; reflexivity).
  apply IH. rewrite <- app_assoc. exact Hg.
Qed.

Lemma build_index_repr : forall a c L, good a c L -> build_index a c L = repr a c L.
Proof. intros a c L Hg. unfold build_index. rewrite <- (repr_nil a c). apply (build_from_repr a c L []). exact Hg. Qed.

(* merge_delta_to_total: move the delta entries into total *)
Definition dupt (t : tuple) : list Z * tuple := (t, t).
Lemma move_full : forall D T, NoDup (T ++ D) ->
  fold_left (fun acc e => ix_insert true (fst e) (snd e) acc) (map dupt D) (map dupt T) = map dupt (T ++ D).
Proof.
  induction D as [|t D IH]; intros T Hnd; [rewrite app_nil_r; reflexivity|]. cbn [map fold_left].
  unfold dupt at 1 2. cbn [fst snd]. unfold ix_insert at 2. fold dupt.
  assert (Hh : ix_has t (map dupt T) = mem_tuple t T) by apply has_full. rewrite Hh.
  assert (Hn : mem_tuple t T = false).
  { apply mem_tuple_false. intros Hin. apply NoDup_remove_2 in Hnd. apply Hnd. apply in_or_app. left. exact Hin. }
  rewrite Hn. change [(t, t)] with (map dupt [t]). rewrite <- map_app.
  replace (T ++ t :: D) with ((T ++ [t]) ++ D) by (rewrite <- app_assoc; reflexivity).
  apply IH. rewrite <- app_assoc. exact Hnd.
Qed.

Lemma repr_move : forall a c T D, good a c (T ++ D) ->
  ix_move (is_full a c) (repr a c D) (repr a c T) = repr a c (T ++ D).
Proof.
  intros a c T D Hg. unfold ix_move, repr, good in *. destruct (is_full a c).
  - apply (move_full D T). apply (Hg eq_refl).
  - rewrite map_app. reflexivity.
Qed.
