(* The plan validator: an independent check, in Gallina, that a plan (as dumped
   from the macro's MIR on every run) is a sound semi-naive evaluation plan for
   a core program.  It accepts every plan whose soundness the engine theorems
   cover, not only the plan the current macro produces. *)
From Coq Require Import List ZArith Bool Arith.
From AV Require Import Engine.Core Engine.Sem Engine.Eval.
Import ListNotations.

(* ---------- boolean equalities ---------- *)
Fixpoint nats_eqb (a b : list nat) : bool :=
  match a, b with [], [] => true | x :: a', y :: b' => Nat.eqb x y && nats_eqb a' b' | _, _ => false end.

Definition term_eqb (s t : term) : bool :=
  match s, t with
  | TVar x, TVar y => Nat.eqb x y
  | TConst c, TConst d => Z.eqb c d
  | TFun f xs, TFun g ys => Nat.eqb f g && nats_eqb xs ys
  | _, _ => false
  end.

Section ListEq.
Context {A : Type} (eqb : A -> A -> bool).
Fixpoint list_eqb (a b : list A) : bool :=
  match a, b with [], [] => true | x :: a', y :: b' => eqb x y && list_eqb a' b' | _, _ => false end.
End ListEq.

Definition cond_eqb (c d : cond) : bool :=
  match c, d with
  | CIf p xs, CIf q ys => Nat.eqb p q && nats_eqb xs ys
  | CBind x f xs, CBind y g ys => Nat.eqb x y && Nat.eqb f g && nats_eqb xs ys
  | _, _ => false
  end.

Definition aarg_eqb (a b : aarg) : bool :=
  match a, b with
  | AWild, AWild => true
  | ABound x, ABound y => Nat.eqb x y
  | AKey s, AKey t => term_eqb s t
  | _, _ => false
  end.

Definition optnat_eqb (a b : option nat) : bool :=
  match a, b with None, None => true | Some x, Some y => Nat.eqb x y | _, _ => false end.

Definition bitem_eqb (a b : bitem) : bool :=
  match a, b with
  | BClause r args cs, BClause r' args' cs' => Nat.eqb r r' && list_eqb term_eqb args args' && list_eqb cond_eqb cs cs'
  | BCond c, BCond d => cond_eqb c d
  | BGen x g xs, BGen y h ys => Nat.eqb x y && Nat.eqb g h && nats_eqb xs ys
  | BAgg o a bd r args, BAgg o' a' bd' r' args' =>
      optnat_eqb o o' && Nat.eqb a a' && nats_eqb bd bd' && Nat.eqb r r' && list_eqb aarg_eqb args args'
  | _, _ => false
  end.

Definition head_eqb (h g : rel * list term) : bool := Nat.eqb (fst h) (fst g) && list_eqb term_eqb (snd h) (snd g).

(* ---------- variables ---------- *)
Definition memv (x : var) (B : list var) : bool := existsb (Nat.eqb x) B.
Definition subv (xs B : list var) : bool := forallb (fun x => memv x B) xs.

Definition term_vars (t : term) : list var :=
  match t with TVar x => [x] | TConst _ => [] | TFun _ xs => xs end.

(* bound-variable bookkeeping of a condition: variables used must be bound, a binder must be fresh *)
Definition check_cond (B : list var) (c : cond) : option (list var) :=
  match c with
  | CIf _ xs => if subv xs B then Some B else None
  | CBind x _ xs => if subv xs B && negb (memv x B) then Some (x :: B) else None
  end.
Fixpoint check_conds (B : list var) (cs : list cond) : option (list var) :=
  match cs with [] => Some B | c :: cs' => match check_cond B c with Some B' => check_conds B' cs' | None => None end end.

(* the index the generated code needs for a clause given the variables bound before it:
   exactly the positions holding a non-variable term or an already bound variable;
   the other positions must hold pairwise distinct new variables.  Returns (index, new vars). *)
Fixpoint expected_idx (B : list var) (args : list term) (pos : nat) (newv : list var) : option (list nat * list var) :=
  match args with
  | [] => Some ([], newv)
  | TVar x :: args' =>
      if memv x B then
        match expected_idx B args' (S pos) newv with Some (ix, nv) => Some (pos :: ix, nv) | None => None end
      else if memv x newv then None      (* a repeated new variable would go untested *)
      else expected_idx B args' (S pos) (x :: newv)
  | t :: args' =>
      if subv (term_vars t) B then
        match expected_idx B args' (S pos) newv with Some (ix, nv) => Some (pos :: ix, nv) | None => None end
      else None
  end.

Section Validate.
Variable arities : list (rel * nat).
Variable P : list rule.

Definition arity_ok (r : rel) (n : nat) : bool :=
  existsb (fun p => Nat.eqb (fst p) r && Nat.eqb (snd p) n) arities.

(* a clause looked up through its index, after B *)
Definition check_clause (B : list var) r (args : list term) cs (idx : list nat) : option (list var) :=
  if arity_ok r (length args) then
    match expected_idx B args 0 [] with
    | Some (ix, nv) => if nats_eqb ix idx then check_conds (nv ++ B) cs else None
    | None => None
    end
  else None.

Definition check_agg (B : list var) (out : option var) (bound : list var) r (args : list aarg) (idx : list nat) : option (list var) :=
  let keypos := map fst (filter (fun p => match snd p with AKey _ => true | _ => false end) (combine (seq 0 (length args)) args)) in
  let keys_ok := forallb (fun a => match a with AKey t => subv (term_vars t) B | _ => true end) args in
  if arity_ok r (length args) && nats_eqb keypos idx && keys_ok then
    match out with
    | Some x => if memv x B then None else Some (x :: B)
    | None => Some B
    end
  else None.

Fixpoint check_items (B : list var) (items : list pitem) : option (list var) :=
  match items with
  | [] => Some B
  | PClause r args cs idx _ :: rest =>
      match check_clause B r args cs idx with Some B' => check_items B' rest | None => None end
  | PCond c :: rest => match check_cond B c with Some B' => check_items B' rest | None => None end
  | PGen x _ xs :: rest => if subv xs B && negb (memv x B) then check_items (x :: B) rest else None
  | PAgg out _ bound r args idx :: rest =>
      match check_agg B out bound r args idx with Some B' => check_items B' rest | None => None end
  end.

(* simple join at the head of [items] *)
Definition check_simple_join (B : list var) (items : list pitem) (reord : bool) : option (list var) :=
  match items with
  | PClause r1 a1 c1 i1 _ :: PClause r2 a2 c2 i2 _ :: rest =>
      (* written order: clause 1 iterated completely (needs no index), clause 2 by its index *)
      match check_clause B r1 a1 c1 [] with
      | Some B1 =>
          match check_clause B1 r2 a2 c2 i2 with
          | Some B2 =>
              let swapped_ok :=
                if reord then
                  match check_clause B r2 a2 c2 [] with
                  | Some B2' => match check_clause B2' r1 a1 c1 i1 with Some _ => true | None => false end
                  | None => false
                  end
                else true in
              if swapped_ok then check_items B2 rest else None
          | None => None
          end
      | None => None
      end
  | _ => None
  end.

Fixpoint check_from (B : list var) (items : list pitem) (sj : option nat) (reord : bool) : option (list var) :=
  match sj with
  | None => check_items B items
  | Some O => check_simple_join B items reord
  | Some (S n) =>
      match items with
      | PCond c :: rest => match check_cond B c with Some B' => check_from B' rest (Some n) reord | None => None end
      | PGen x _ xs :: rest => if subv xs B && negb (memv x B) then check_from (x :: B) rest (Some n) reord else None
      | PAgg out _ bound r args idx :: rest =>
          match check_agg B out bound r args idx with Some B' => check_from B' rest (Some n) reord | None => None end
      | _ => None     (* the simple join starts at the first clause *)
      end
  end.

Definition heads_ok (B : list var) (hs : list (rel * list term)) : bool :=
  forallb (fun h => arity_ok (fst h) (length (snd h)) && forallb (fun t => subv (term_vars t) B) (snd h)) hs.

(* versions *)
Definition item_rel (p : pitem) : option rel := match p with PClause r _ _ _ _ => Some r | _ => None end.
Definition dyn_versions (dyn : list rel) (items : list pitem) : list version :=
  flat_map (fun p => match p with PClause r _ _ _ v => if is_dyn dyn r then [v] else [] | _ => [] end) items.
Definition static_total (dyn : list rel) (items : list pitem) : bool :=
  forallb (fun p => match p with PClause r _ _ _ v => is_dyn dyn r || match v with VTotal => true | _ => false end | _ => true end) items.

(* does variant version vector w admit the assignment a (true = Delta, false = Total)? *)
Fixpoint admits (w : list version) (a : list bool) : bool :=
  match w, a with
  | [], [] => true
  | v :: w', b :: a' => (match v with VTotalDelta => true | VDelta => b | VTotal => negb b end) && admits w' a'
  | _, _ => false
  end.
Fixpoint assignments (n : nat) : list (list bool) :=
  match n with O => [[]] | S k => flat_map (fun a => [false :: a; true :: a]) (assignments k) end.
Definition has_delta (a : list bool) : bool := existsb (fun b => b) a.

(* every Total/Delta assignment to the dynamic clauses with at least one Delta is admitted by some variant;
   when the rule has no dynamic clause, some variant exists *)
Definition covers (n : nat) (ws : list (list version)) : bool :=
  match n with
  | O => negb (match ws with [] => true | _ => false end)
  | _ => forallb (fun a => negb (has_delta a) || existsb (fun w => admits w a) ws) (assignments n)
  end.

Definition rule_of_variant (v : variant) : option rule := nth_error P (v_rule v).

Definition variant_ok (dyn : list rel) (v : variant) : bool :=
  match rule_of_variant v with
  | Some r =>
      list_eqb bitem_eqb (map item_of (v_items v)) (body r) && list_eqb head_eqb (v_heads v) (heads r)
      && static_total dyn (v_items v)
      && match check_from [] (v_items v) (v_sj v) (v_reord v) with Some B => heads_ok B (v_heads v) | None => false end
  | None => false
  end.

Fixpoint dedup_nat (l : list nat) : list nat :=
  match l with [] => [] | x :: l' => if existsb (Nat.eqb x) l' then dedup_nat l' else x :: dedup_nat l' end.
Definition rules_of_scc (sc : pscc) : list nat := dedup_nat (map v_rule (s_vars sc)).

Definition body_clause_rels (r : rule) : list rel :=
  flat_map (fun b => match b with BClause q _ _ => [q] | _ => [] end) (body r).
Definition body_agg_rels (r : rule) : list rel :=
  flat_map (fun b => match b with BAgg _ _ _ q _ => [q] | _ => [] end) (body r).
Definition head_rels (r : rule) : list rel := map fst (heads r).

Definition scc_head_rels (sc : pscc) : list rel :=
  flat_map (fun j => match nth_error P j with Some r => head_rels r | None => [] end) (rules_of_scc sc).

Definition scc_ok (sc : pscc) : bool :=
  let dyn := s_dyn sc in
  let hr := scc_head_rels sc in
  forallb (variant_ok dyn) (s_vars sc)
  && forallb (fun q => is_dyn dyn q) hr && forallb (fun q => existsb (Nat.eqb q) hr) dyn
  && forallb (fun j =>
       match nth_error P j with
       | Some r =>
           let n := length (filter (is_dyn dyn) (body_clause_rels r)) in
           let ws := map (fun v => dyn_versions dyn (v_items v)) (filter (fun v => Nat.eqb (v_rule v) j) (s_vars sc)) in
           covers n ws && (s_loop sc || Nat.eqb n 0)
           (* aggregated relations are complete: not dynamic here *)
           && forallb (fun q => negb (is_dyn dyn q)) (body_agg_rels r)
       | None => false
       end) (rules_of_scc sc).

(* position of the SCC that evaluates rule j *)
Fixpoint scc_index (pl : plan) (j : nat) (k : nat) : option nat :=
  match pl with
  | [] => None
  | sc :: pl' => if existsb (Nat.eqb j) (rules_of_scc sc) then Some k else scc_index pl' j (S k)
  end.

Definition count_sccs_with (pl : plan) (j : nat) : nat :=
  length (filter (fun sc => existsb (Nat.eqb j) (rules_of_scc sc)) pl).

(* every rule is evaluated in exactly one SCC; producers of a relation read by a clause run in the same or
   an earlier SCC, producers of an aggregated relation strictly earlier *)
Definition strat_ok (pl : plan) : bool :=
  let n := length P in
  forallb (fun j => Nat.eqb (count_sccs_with pl j) 1) (seq 0 n)
  && forallb (fun j =>
       match nth_error P j, scc_index pl j 0 with
       | Some r, Some k =>
           forallb (fun j' =>
             match nth_error P j', scc_index pl j' 0 with
             | Some r', Some k' =>
                 let hr := head_rels r' in
                 (negb (existsb (fun q => existsb (Nat.eqb q) hr) (body_clause_rels r)) || Nat.leb k' k)
                 && (negb (existsb (fun q => existsb (Nat.eqb q) hr) (body_agg_rels r)) || Nat.ltb k' k)
             | _, _ => false
             end) (seq 0 n)
       | _, _ => false
       end) (seq 0 n).

Definition validate (pl : plan) : bool := forallb scc_ok pl && strat_ok pl.
End Validate.
