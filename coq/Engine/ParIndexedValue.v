(* B12, part 1 of the proofs: ONE physical index value of the parallel engine (ParIndexedModel.xval) and the operations the
   generated code performs on it, characterised through the C19 / C20 theorems of Index/ConcIndex.v and Index/NoIndexPools.v.
   [xden d x L]: the index x with declaration d denotes the tuples L (full index: as a set of keys; hash / no-index: as a
   multiset of entries = the union over the shards).  [xshape d x]: x has the type the macro gives d, the shard count of
   its creation (DashMap types: the process constant nsh; CRelNoIndex: the size of the RUN POOL) and the C19 invariant. *)
From Coq Require Import List ZArith Bool Arith Lia Permutation.
From AV Require Import Index.MultiMap.
From AV Require Import Index.IndexModel.
From AV Require Import Index.IndexRefine.
From AV Require Import Index.ConcIndex.
From AV Require Import Index.NoIndexPools.
From AV Require Import Engine.Core Engine.Sem Engine.Eval Engine.NaiveLemmas Engine.IndexedBase.
From AV Require Import Engine.ParIndexedModel.
Import ListNotations.
Local Open Scope nat_scope.

Lemma mapr_spec {A B} (f : A -> res B) (P : A -> B -> Prop) :
  forall l, Forall (fun a => exists b, f a = Ok b /\ P a b) l -> exists l', mapr f l = Ok l' /\ Forall2 P l l'.
Proof.
  induction l as [|a l IH]; intros H; [exists []; split; [reflexivity|constructor]|].
  inversion H as [|? ? [b [Eb Pb]] H']; subst. destruct (IH H') as [l' [El Pl]].
  exists (b :: l'). cbn [mapr]. rewrite Eb. cbn [rbind IndexModel.bind]. unfold rbind. rewrite El. cbn [IndexModel.bind].
  split; [reflexivity|constructor; assumption].
Qed.

Lemma mapr_inv {A B} (f : A -> res B) : forall l l', mapr f l = Ok l' -> Forall2 (fun a b => f a = Ok b) l l'.
Proof.
  induction l as [|a l IH]; intros l' H; cbn [mapr] in H.
  - inversion H. constructor.
  - unfold rbind in H. destruct (f a) as [b| |] eqn:Eb; cbn [IndexModel.bind] in H; try discriminate.
    destruct (mapr f l) as [bs| |] eqn:El; cbn [IndexModel.bind] in H; try discriminate.
    inversion H; subst. constructor; [exact Eb|apply IH; reflexivity].
Qed.

Section Value.
Variable sh : forall A : Type, list A -> list A.
Hypothesis sh_perm : forall A (l : list A), Permutation (sh A l) l.
Variable hash : Z -> nat.
Variable enc : list Z -> Z.
Hypothesis enc_inj : forall a b, enc a = enc b -> a = b.
Variable nsh : nat.
Hypothesis nsh_pos : nsh <> 0.
Variable nomod : bool.
Variable pool : nat.

Definition xent (d : xdecl) (t : tuple) : Z * Z := (xkey enc d t, xvalz enc d t).

Definition xden (d : xdecl) (x : xval) (L : list tuple) : Prop :=
  match x with
  | XF c => forall k, cfi_has hash k c = true <-> exists t, In t L /\ enc t = k
  | XH c => Permutation (cri_abs c) (map (xent d) L)
  | XN c => Permutation (cni_abs c) (map (xvalz enc d) L)
  end.

Definition xshape (d : xdecl) (x : xval) : Prop :=
  match x_kind d, x with
  | KFull, XF c => length (snd c) = nsh /\ cfi_wf hash c
  | KHash, XH c => length (snd c) = nsh
  | KNo, XN c => length (snd c) = Nat.max pool 1
  | _, _ => False
  end.

Definition xgood (d : xdecl) (x : xval) (L : list tuple) : Prop := xshape d x /\ xflag x = false /\ xden d x L.

Lemma len_shards {M} (c : dmap M) : length (snd c) = nsh -> has_shards M c.
Proof. intros H. unfold has_shards. destruct (snd c); [cbn in H; congruence|discriminate]. Qed.

Lemma max_pool_pos : 1 <= Nat.max pool 1.
Proof. lia. Qed.

Lemma xden_perm d x L L' : Permutation L L' -> xden d x L -> xden d x L'.
Proof.
  intros P H. destruct x as [c|c|c]; cbn [xden] in *.
  - intros k. rewrite H. split; intros [t [Ht E]]; exists t; (split; [|exact E]).
    + eapply Permutation_in; [exact P|exact Ht].
    + eapply Permutation_in; [apply Permutation_sym, P|exact Ht].
  - rewrite H. apply Permutation_map. exact P.
  - rewrite H. apply Permutation_map. exact P.
Qed.

Lemma xfreeze_den d x L : xden d (xfreeze x) L <-> xden d x L.
Proof. destruct x; reflexivity. Qed.
Lemma xunfreeze_den d x L : xden d (xunfreeze x) L <-> xden d x L.
Proof. destruct x; reflexivity. Qed.
Lemma xfreeze_shape d x : xshape d (xfreeze x) <-> xshape d x.
Proof. unfold xshape. destruct (x_kind d), x; reflexivity. Qed.
Lemma xunfreeze_shape d x : xshape d (xunfreeze x) <-> xshape d x.
Proof. unfold xshape. destruct (x_kind d), x; reflexivity. Qed.
Lemma xfreeze_flag x : xflag (xfreeze x) = true.
Proof. destruct x; reflexivity. Qed.
Lemma xunfreeze_flag x : xflag (xunfreeze x) = false.
Proof. destruct x; reflexivity. Qed.
Lemma xunfreeze_freeze x : xunfreeze (xfreeze x) = xunfreeze x.
Proof. destruct x; reflexivity. Qed.

(* ---- Default::default() in the run pool *)
Lemma xdefault_good d : xgood d (xdefault nsh pool d) [].
Proof.
  unfold xgood, xshape, xdefault. destruct (x_kind d) eqn:K; cbn [xflag xden].
  - destruct (cfi_default_wf hash nsh) as [W [E F]]. split; [split; [apply repeat_length|exact W]|]. split; [exact F|].
    intros k. split.
    + intros H. exfalso. rewrite cfi_has_lookup in H. destruct (cfi_lookup hash k (dm_default [] nsh)) as [v|] eqn:L; [|discriminate].
      apply (cfi_lookup_entries hash k v _ (dm_default_has_shards _ _ _ nsh_pos) W) in L. rewrite E in L. destruct L.
    + intros [t [[] _]].
  - destruct (cri_default_wf hash nsh) as [_ [E F]]. split; [apply repeat_length|]. split; [exact F|].
    cbn [map]. replace (cri_abs _) with (@nil entry) by (symmetry; exact E). constructor.
  - destruct (cni_default_spec pool) as [E [F L]]. split; [exact L|]. split; [exact F|]. rewrite E. constructor.
Qed.

(* ---- CRelIndexWrite::index_insert by the thread with index tid < size of the run pool *)
Lemma cni_insert_nomod_spec tid v (c : cni) : fst c = false -> tid < length (snd c) ->
  exists c', cni_insert_nomod tid v c = Ok c' /\ fst c' = false /\ length (snd c') = length (snd c) /\
             Permutation (cni_abs c') (v :: cni_abs c).
Proof.
  intros Hf Ht. unfold cni_insert_nomod. rewrite Hf. apply Nat.ltb_lt in Ht. rewrite Ht. apply Nat.ltb_lt in Ht.
  eexists. split; [reflexivity|]. cbn [fst snd]. split; [reflexivity|]. split; [apply upd_nth_length|].
  unfold cni_abs. cbn [snd]. apply concat_upd_nth_push. exact Ht.
Qed.

Lemma xinsert_spec d tid t x L : xshape d x -> xflag x = false -> tid < Nat.max pool 1 -> xden d x L ->
  exists x', xinsert hash enc nomod d tid t x = Ok x' /\ xshape d x' /\ xflag x' = false /\ xden d x' (t :: L).
Proof.
  intros Hs Hf Ht Hd. unfold xshape in Hs. destruct (x_kind d) eqn:K; destruct x as [c|c|c]; try contradiction; cbn [xflag xden xinsert] in *.
  - destruct Hs as [Hl Hw].
    destruct (cfi_insert_spec hash (xkey enc d t) 0%Z c Hf (len_shards c Hl)) as [c' [E [F [Len [LK W]]]]].
    exists (XF c'). rewrite E. cbn [rbind IndexModel.bind]. split; [reflexivity|]. unfold xshape. rewrite K. cbn [xflag xden].
    split; [split; [congruence|apply W; exact Hw]|]. split; [exact F|].
    intros k. rewrite cfi_has_lookup, LK. unfold xkey. rewrite K. destruct (Z.eqb_spec (enc t) k) as [Ek|Nk].
    + split; [intros _; exists t; split; [left; reflexivity|exact Ek]|reflexivity].
    + rewrite <- cfi_has_lookup, Hd. split; intros [t' [Ht' Et']]; exists t'; (split; [|exact Et']).
      * right. exact Ht'.
      * destruct Ht' as [<-|Ht']; [congruence|exact Ht'].
  - destruct (cri_insert_spec hash (xkey enc d t) (xvalz enc d t) c Hf (len_shards c Hs)) as [c' [E [F [Len [P _]]]]].
    exists (XH c'). rewrite E. cbn [rbind IndexModel.bind]. split; [reflexivity|]. unfold xshape. rewrite K. cbn [xflag xden].
    split; [congruence|]. split; [exact F|]. rewrite P. unfold mm_insert. cbn [map]. apply perm_skip. exact Hd.
  - assert (Hne : snd c <> []). { destruct (snd c); [cbn in Hs; lia|discriminate]. }
    assert (Hx : exists c', (if nomod then cni_insert_nomod else cni_insert) tid (xvalz enc d t) c = Ok c' /\ fst c' = false /\
                            length (snd c') = length (snd c) /\ Permutation (cni_abs c') (xvalz enc d t :: cni_abs c)).
    { destruct nomod; [apply cni_insert_nomod_spec; [exact Hf|rewrite Hs; exact Ht]|apply cni_insert_spec; assumption]. }
    destruct Hx as [c' [E [F [Len P]]]].
    exists (XN c'). rewrite E. cbn [rbind IndexModel.bind]. split; [reflexivity|]. unfold xshape. rewrite K. cbn [xflag xden].
    split; [congruence|]. split; [exact F|]. rewrite P. cbn [map]. apply perm_skip. exact Hd.
Qed.

(* the real insert (with the modulo) needs no bound on the thread index *)
Lemma xinsert_mod_any_tid d tid t x L : nomod = false -> xshape d x -> xflag x = false -> xden d x L ->
  exists x', xinsert hash enc nomod d tid t x = Ok x' /\ xshape d x' /\ xflag x' = false /\ xden d x' (t :: L).
Proof.
  intros Hm Hs Hf Hd. destruct x as [c|c|c].
  - apply (xinsert_spec d 0 t (XF c) L Hs Hf); [lia|exact Hd].
  - apply (xinsert_spec d 0 t (XH c) L Hs Hf); [lia|exact Hd].
  - unfold xshape in Hs. destruct (x_kind d) eqn:K; try contradiction. cbn [xflag xden xinsert] in *. rewrite Hm.
    assert (Hne : snd c <> []). { destruct (snd c); [cbn in Hs; lia|discriminate]. }
    destruct (cni_insert_spec tid (xvalz enc d t) c Hf Hne) as [c' [E [F [Len P]]]].
    exists (XN c'). rewrite E. cbn [rbind IndexModel.bind]. split; [reflexivity|]. unfold xshape. rewrite K. cbn [xflag xden].
    split; [congruence|]. split; [exact F|]. rewrite P. cbn [map]. apply perm_skip. exact Hd.
Qed.

Lemma full_is_XF d x : x_kind d = KFull -> xshape d x -> exists c, x = XF c /\ length (snd c) = nsh /\ cfi_wf hash c.
Proof. intros K H. unfold xshape in H. rewrite K in H. destruct x as [c|c|c]; try contradiction. exists c. split; [reflexivity|exact H]. Qed.

Lemma den_full_mem c L t : (forall k, cfi_has hash k c = true <-> exists t, In t L /\ enc t = k) ->
  cfi_has hash (enc t) c = mem_tuple t L.
Proof.
  intros H. destruct (mem_tuple t L) eqn:M.
  - apply H. exists t. split; [apply mem_tuple_In; exact M|reflexivity].
  - destruct (cfi_has hash (enc t) c) eqn:C; [|reflexivity]. apply H in C as [t' [Ht' E]]. apply enc_inj in E. subst t'.
    apply mem_tuple_In in Ht'. congruence.
Qed.

(* ---- contains_key on the frozen full index *)
Lemma xcontains_spec d t x L : x_kind d = KFull -> xshape d x -> xflag x = true -> xden d x L ->
  xcontains hash enc t x = Ok (mem_tuple t L).
Proof.
  intros K Hs Hf Hd. destruct (full_is_XF d x K Hs) as [c [-> [Hl _]]]. cbn [xcontains xflag xden] in *.
  destruct (cfi_get_spec hash (enc t) c Hf (len_shards c Hl)) as [_ E]. rewrite E. f_equal. apply den_full_mem. exact Hd.
Qed.

(* ---- insert_if_not_present on the full index of new: returns whether the row was absent; the set gains the row *)
Lemma xinsert_np_spec d t x L : x_kind d = KFull -> xshape d x -> xflag x = false -> xden d x L ->
  exists x', xinsert_np hash enc t x = Ok (x', negb (mem_tuple t L)) /\ xshape d x' /\ xflag x' = false /\ xden d x' (L ++ [t]).
Proof.
  intros K Hs Hf Hd. destruct (full_is_XF d x K Hs) as [c [-> [Hl Hw]]]. cbn [xinsert_np xflag xden] in *.
  destruct (cfi_insert_if_not_present_spec hash (enc t) 0%Z c Hf (len_shards c Hl)) as [c' [E [F [Len [_ [HS W]]]]]].
  exists (XF c'). rewrite E. cbn [rbind IndexModel.bind fst snd]. rewrite (den_full_mem c L t Hd).
  split; [reflexivity|]. unfold xshape. rewrite K. cbn [xflag xden]. split; [split; [congruence|apply W; exact Hw]|].
  split; [exact F|]. intros k. rewrite HS. rewrite orb_true_iff, Hd. split.
  - intros [[t' [Ht' E']]|Ek]; [exists t'; split; [apply in_or_app; left; exact Ht'|exact E']|].
    apply Z.eqb_eq in Ek. exists t. split; [apply in_or_app; right; left; reflexivity|exact Ek].
  - intros [t' [Ht' E']]. apply in_app_or in Ht' as [Ht'|[<-|[]]]; [left; exists t'; split; assumption|right; apply Z.eqb_eq; exact E'].
Qed.

(* ---- merge_delta_to_total_new_to_delta: total gains delta, delta := new, new := the emptied delta.
        For CRelNoIndex (the shard-wise zip) this needs |delta shards| <= |total shards|: both are xshape, i.e. run-pool sized *)
Lemma xmerge_spec d n dl t Ln Ld Lt : xgood d n Ln -> xgood d dl Ld -> xgood d t Lt ->
  exists n' t', xmerge sh n dl t = Ok (n', n, t') /\ xgood d n' [] /\ xgood d t' (Lt ++ Ld).
Proof.
  intros [Sn [Fn Dn]] [Sd [Fd Dd]] [St [Ft Dt]]. unfold xmerge, merge3r. unfold xshape in Sd, St.
  destruct (x_kind d) eqn:K; destruct dl as [cd|cd|cd]; try contradiction; destruct t as [ct|ct|ct]; try contradiction;
    cbn [xflag xden xmove] in *.
  - destruct Sd as [Ld1 Wd], St as [Lt1 Wt].
    destruct (cfi_move_spec sh sh_perm hash cd ct Fd Ft ltac:(congruence) (len_shards ct Lt1))
      as [f' [t' [E [F1 [F2 [E0 [L1 [L2 [_ HW]]]]]]]]].
    destruct (HW Wd Wt) as [Wf [Wt' [HS _]]].
    exists (XF f'), (XF t'). unfold rbind. rewrite E. cbn [IndexModel.bind fst snd]. split; [reflexivity|]. split.
    + split; [unfold xshape; rewrite K; split; [congruence|exact Wf]|]. split; [exact F1|]. cbn [xden]. intros k. split.
      * intros H. exfalso. rewrite cfi_has_lookup in H. destruct (cfi_lookup hash k f') as [v|] eqn:LK; [|discriminate].
        apply (cfi_lookup_entries hash k v f' (len_shards f' ltac:(congruence)) Wf) in LK. rewrite E0 in LK. destruct LK.
      * intros [x [[] _]].
    + split; [unfold xshape; rewrite K; split; [congruence|exact Wt']|]. split; [exact F2|]. cbn [xden]. intros k.
      rewrite HS, orb_true_iff, Dd, Dt. split.
      * intros [[x [Hx Ex]]|[x [Hx Ex]]]; exists x; (split; [apply in_or_app; auto|exact Ex]).
      * intros [x [Hx Ex]]. apply in_app_or in Hx as [Hx|Hx]; [right|left]; exists x; split; assumption.
  - destruct (cri_move_spec sh sh_perm hash cd ct Fd Ft ltac:(congruence)) as [f' [t' [E [F1 [F2 [E0 [L1 [L2 [P _]]]]]]]]].
    exists (XH f'), (XH t'). unfold rbind. rewrite E. cbn [IndexModel.bind fst snd]. split; [reflexivity|]. split.
    + split; [unfold xshape; rewrite K; congruence|]. split; [exact F1|]. cbn [xden]. rewrite E0. constructor.
    + split; [unfold xshape; rewrite K; congruence|]. split; [exact F2|]. cbn [xden]. rewrite P. unfold mm_union.
      rewrite map_app. apply Permutation_app; assumption.
  - destruct (cni_move_le cd ct ltac:(lia)) as [f' [t' [E [F1 [F2 [E0 [L1 [L2 P]]]]]]]].
    exists (XN f'), (XN t'). unfold rbind. rewrite E. cbn [IndexModel.bind fst snd]. split; [reflexivity|]. split.
    + split; [unfold xshape; rewrite K; congruence|]. split; [cbn [xflag]; congruence|]. cbn [xden]. rewrite E0. constructor.
    + split; [unfold xshape; rewrite K; congruence|]. split; [cbn [xflag]; congruence|]. cbn [xden]. rewrite P.
      rewrite map_app. apply Permutation_app; assumption.
Qed.
End Value.
