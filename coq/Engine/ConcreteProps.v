(* Statements proposed for coq/Props/C19.v and coq/Props/C01.v (builder B6): the chain
       Engine/Eval.v  <-  Engine/IndexedEval.v  <-  Engine/ConcreteEval.v (every index a value of the C19 model types)
   closed as theorems.  Property-file style: statement in full, `exact` of the lemma, one Print Assumptions each.

   Quantifiers shared by all statements: sh = the order in which a hash map / hashbrown map is iterated or drained, any
   function that permutes its argument (IndexRefine.permuting), consulted afresh at every iter_all and every
   move_index_contents; enc / dec = any encoding of key / value tuples as the Z keys / values of the C19 models with
   dec (enc l) = l; I with order-insensitive aggregators; swap = any len_estimate oracle insensitive to row order. *)
From Coq Require Import List ZArith Bool Permutation.
From AV Require Import Index.IndexModel.
From AV Require Import Index.IndexRefine.
From AV Require Import Engine.Core Engine.Sem Engine.Eval Engine.Validate Engine.Naive Engine.Interface Engine.Main Engine.Vocab Engine.Examples.
From AV Require Import Engine.InterfaceAgg Engine.MainAgg.
From AV Require Import Engine.IndexedEval Engine.IndexedSim Engine.IndexedRefine.
From AV Require Import Engine.ConcreteEval Engine.ConcreteBase Engine.ConcreteRefine.
Import ListNotations.
Open Scope Z_scope.

(* ================= proposed for Props/C19.v: the model types under the generated code ================= *)
(* the engine whose every index field is a C19 model value simulates the engine with per-index entry lists: same termination,
   rows equal up to Permutation, every index field abstracts (hv_abs / key set) to the entry list of its index up to Permutation *)
Theorem c19_engine_on_model_types_refines_indexed_engine :
  forall (sh : forall A : Type, list A -> list A), permuting sh ->
  forall (enc : list Z -> Z) (dec : Z -> list Z), (forall l, dec (enc l) = l) ->
  forall (I : interp), agg_perm_invariant I ->
  forall swap, swap_perm_invariant swap ->
  forall decls, forallb (decl_ok decls) decls = true ->
  forall fuel pl c a, plan_idx_ok decls pl = true ->
  Permutation (crows c) (irows a) -> Forall2 Rshape (cstored c) (istored a) -> pshape (istored a) = decls ->
  (forall f, In f (irows a) -> fact_idx_ok decls f = true) ->
  orel (Rst enc decls) (run_plan_concrete sh enc dec I swap fuel pl c) (run_plan_idx I swap fuel pl a).
Proof. exact run_plan_concrete_sim. Qed.

(* what the relation says about one stored index field: read through iter_all (what the DS / PROG harness does), it lists exactly the
   entries of the index of IndexedEval, up to Permutation *)
Theorem c19_index_field_entries :
  forall (sh : forall A : Type, list A -> list A), permuting sh ->
  forall (enc : list Z -> Z) (dec : Z -> list Z), (forall l, dec (enc l) = l) ->
  forall decls, forallb (decl_ok decls) decls = true ->
  forall r a c x es, In (r, a, c) decls -> Rix enc a c x es -> Permutation (cix_entries sh dec a c x) es.
Proof. exact entries_sim. Qed.

(* the row order is NOT preserved (so the statement above cannot be an equality of lists) *)
Theorem c19_engine_on_model_types_row_order_refuted : exists c a,
  run_plan_concrete sh_rev enc_list dec_list std_interp std_swap 20 tc_plan (c_init_state tc_decls tc_input) = Some c
  /\ run_plan_idx std_interp std_swap 20 tc_plan (init_istate tc_decls tc_input) = Some a
  /\ crows c <> irows a.
Proof. exact tc_concrete_rows_differ_refuted. Qed.

(* PARTIAL: the generated code decides the order of a reorderable simple join by `len_estimate() <= len_estimate()` on the two
   indices (ConcreteEval.real_swap_dec, computed by hv_len / fm_len / comb_len); the theorems above are for a decision that is a
   function of the rows (the oracle of Eval.v).  Proved: where no rule variant is reorderable the two engines are the same function.
   Missing: reorderable variants under real_swap_dec (needs the symmetry of the simple join at the level of IndexedEval). *)
Theorem c19_engine_real_len_estimate_partial :
  forall sh enc dec I swap fuel pl st, no_reorder pl ->
  run_plan_concrete_real sh enc dec I fuel pl st = run_plan_concrete sh enc dec I swap fuel pl st.
Proof. exact run_plan_concrete_real_eq. Qed.

(* ================= proposed for Props/C01.v: the engine theorem on the concrete index types ================= *)
Theorem c01_concrete_engine_least_model :
  forall (sh : forall A : Type, list A -> list A), permuting sh ->
  forall (enc : list Z -> Z) (dec : Z -> list Z), (forall l, dec (enc l) = l) ->
  forall (I : interp), agg_perm_invariant I ->
  forall swap, swap_perm_invariant swap ->
  forall decls pl, plan_idx_ok decls pl = true ->
  forall arities P, arities_functional arities -> no_agg P = true -> validate arities P pl = true ->
  forall fuel F0 c, wf_facts arities F0 = true -> NoDup F0 -> (forall f, In f F0 -> fact_idx_ok decls f = true) ->
  run_plan_concrete sh enc dec I swap fuel pl (c_init_state decls F0) = Some c ->
  least_model I P F0 (crows c)
  /\ (exists added, Permutation (crows c) (F0 ++ added) /\ NoDup added /\ (forall f, In f added -> ~ In f F0))
  /\ concrete_indices_agree sh dec (cstored c).
Proof. exact concrete_run_least_model. Qed.

(* all concrete index fields of a relation agree after run(), from any related program values (duplicate rows included, no validity
   of the plan with respect to a source program needed) *)
Theorem c01_concrete_indices_agree :
  forall (sh : forall A : Type, list A -> list A), permuting sh ->
  forall (enc : list Z -> Z) (dec : Z -> list Z), (forall l, dec (enc l) = l) ->
  forall (I : interp), agg_perm_invariant I ->
  forall swap, swap_perm_invariant swap ->
  forall decls pl, plan_idx_ok decls pl = true ->
  forall fuel c a c', Rst enc decls c a ->
  run_plan_concrete sh enc dec I swap fuel pl c = Some c' -> concrete_indices_agree sh dec (cstored c').
Proof. exact concrete_indices_agree_after_run. Qed.

Theorem c01_concrete_rerun_idempotent :
  forall (sh : forall A : Type, list A -> list A), permuting sh ->
  forall (enc : list Z -> Z) (dec : Z -> list Z), (forall l, dec (enc l) = l) ->
  forall (I : interp), agg_perm_invariant I ->
  forall swap, swap_perm_invariant swap ->
  forall decls pl, plan_idx_ok decls pl = true ->
  forall arities P, arities_functional arities -> no_agg P = true -> validate arities P pl = true ->
  forall fuel fuel' F0 c1 c2, wf_facts arities F0 = true -> NoDup F0 -> (forall f, In f F0 -> fact_idx_ok decls f = true) ->
  run_plan_concrete sh enc dec I swap fuel pl (c_init_state decls F0) = Some c1 ->
  wf_facts arities (crows c1) = true ->
  run_plan_concrete sh enc dec I swap fuel' pl c1 = Some c2 ->
  Permutation (crows c2) (crows c1) /\ concrete_indices_agree sh dec (cstored c2).
Proof. exact concrete_rerun_idempotent. Qed.

(* the hypotheses are satisfiable: the plan the real macro dumped for transitive closure, the reversing order oracle, the example encoding *)
Example c01_concrete_example_hypotheses :
  permuting sh_rev /\ (forall l, dec_list (enc_list l) = l) /\ agg_perm_invariant std_interp /\ swap_perm_invariant std_swap
  /\ plan_idx_ok tc_decls tc_plan = true /\ forallb (fact_idx_ok tc_decls) tc_input = true.
Proof.
  split; [exact sh_rev_permuting|]. split; [exact dec_enc_list|]. split; [exact std_interp_agg_perm_invariant|].
  split; [exact std_swap_perm_invariant|]. exact tc_indexed_hyps.
Qed.

Example c01_concrete_example_runs : exists c,
  run_plan_concrete sh_rev enc_list dec_list std_interp std_swap 20 tc_plan (c_init_state tc_decls tc_input) = Some c
  /\ length (crows c) = 25%nat
  /\ map (fun x => snd (fst x)) (c_dump_stored sh_rev dec_list c) = [[]; [1%nat]; [0%nat; 1%nat]; [0%nat]; [0%nat; 1%nat]]
  /\ map snd (c_dump_lens c) = [1; 5; 5; 4; 20].
Proof. exact tc_concrete_runs. Qed.

Example c01_concrete_example_least_model : exists c,
  run_plan_concrete sh_rev enc_list dec_list std_interp std_swap 20 tc_plan (c_init_state tc_decls tc_input) = Some c
  /\ least_model std_interp tc_prog tc_input (crows c)
  /\ concrete_indices_agree sh_rev dec_list (cstored c).
Proof. exact tc_concrete_least_model. Qed.

Print Assumptions c19_engine_on_model_types_refines_indexed_engine.
Print Assumptions c19_index_field_entries.
Print Assumptions c19_engine_on_model_types_row_order_refuted.
Print Assumptions c19_engine_real_len_estimate_partial.
Print Assumptions c01_concrete_engine_least_model.
Print Assumptions c01_concrete_indices_agree.
Print Assumptions c01_concrete_rerun_idempotent.
Print Assumptions c01_concrete_example_hypotheses.
Print Assumptions c01_concrete_example_runs.
Print Assumptions c01_concrete_example_least_model.
