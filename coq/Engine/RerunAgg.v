(* C13 with aggregation / negation: a second run() on an unmodified program value changes
   nothing.  The rows M of the first run are closed under every stratum (closed right after
   the stratum's SCC; later SCCs write only relations the stratum neither reads nor
   aggregates), so M is the stratified model of itself; the second run computes a stratified
   model over M whose rows extend M without duplicates; by uniqueness it has the members of
   M, hence adds nothing. *)
From Coq Require Import List ZArith Bool Arith Lia Permutation.
From AV Require Import Engine.Core Engine.Sem Engine.Eval Engine.Validate Engine.Naive Engine.Interface Engine.Strat.
From AV Require Import Engine.InterfaceAgg Engine.StratFixed Engine.InterfaceInvariance.
From AV Require Import Engine.NaiveLemmas Engine.Strata Engine.SemiNaive Engine.AggLemmas Engine.StrataAgg.
From AV Require Import Engine.SemiNaiveAgg Engine.StratFixedLemmas.
Import ListNotations.
Local Open Scope nat_scope.

(* run_scc_spec_agg, keeping the information that the new rows belong to head relations of the SCC *)
Lemma run_scc_spec_agg_heads : forall I swap arities P sc fuel st st',
  eval_variant_spec_agg_stmt I swap -> agg_perm_invariant I -> arities_functional arities ->
  scc_ok arities P sc = true ->
  (forall f, In f (stored st) <-> In f (rows st)) ->
  (forall f, In f (rows st) -> wf_fact arities f = true) ->
  NoDup (stored st) ->
  run_scc I swap fuel sc st = Some st' ->
  exists A, rows st' = rows st ++ A
            /\ forall f, In f A -> In (fst f) (scc_head_rels P sc).
Proof.
  intros I swap arities P sc fuel st st' Hspec Hperm Hfun Hok Hsr Hwf Hnds Hrun.
  set (dyn := s_dyn sc) in *.
  set (D0 := filter (fact_dyn dyn) (stored st)).
  set (S := filter (fun f => negb (fact_dyn dyn f)) (stored st)).
  assert (HwfS : forall f, In f S -> wf_fact arities f = true).
  { intros f Hf. apply filter_In in Hf as [Hf _]. apply Hwf. apply Hsr. exact Hf. }
  assert (HndS : NoDup S) by (apply NoDup_filter; exact Hnds).
  assert (HndD0 : NoDup D0) by (apply NoDup_filter; exact Hnds).
  assert (HS_R0 : incl S (rows st)).
  { intros f Hf. apply filter_In in Hf as [Hf _]. apply Hsr. exact Hf. }
  assert (HR0_static : forall f, In f (rows st) -> fact_dyn dyn f = false -> In f S).
  { intros f Hf Hd. apply filter_In. split; [apply Hsr; exact Hf | rewrite Hd; reflexivity]. }
  assert (HD0 : forall f, In f D0 <-> In f (rows st) /\ fact_dyn dyn f = true).
  { intros f. unfold D0. rewrite filter_In, Hsr. reflexivity. }
  pose proof (inv_init_agg I arities P sc (rows st) D0 Hwf HndD0 HD0) as Hinit.
  assert (HPost : exists T', PostA I arities P sc S (rows st) T' (rows st')).
  { unfold run_scc in Hrun. fold dyn in Hrun. fold D0 in Hrun. fold S in Hrun.
    destruct (s_loop sc) eqn:Hl.
    - destruct (scc_loop I swap fuel sc S [] D0 (rows st)) as [[T' R']|] eqn:Hloop; [|discriminate].
      injection Hrun as <-. exists T'. cbn [rows].
      apply (scc_loop_post_agg I swap Hspec Hperm arities P Hfun sc Hok S (rows st) HwfS HndS HS_R0 HR0_static
               fuel [] D0 (rows st) T' R' Hinit).
      + apply sn_init_agg.
      + exact Hloop.
    - destruct (scc_iteration I swap sc S [] D0 (rows st)) as [N R'] eqn:Hit.
      injection Hrun as <-. exists (D0 ++ N). cbn [rows].
      apply (scc_once_post_agg I swap Hspec Hperm arities P Hfun sc Hok S (rows st) HwfS HndS HS_R0 HR0_static
               D0 (rows st) N R' Hl Hinit Hit). }
  destruct HPost as [T' HP]. unfold PostA, InvA in HP. cbv zeta in HP.
  destruct HP as [[_ [_ [_ [[A [HR [_ HA]]] _]]]] _]. exists A. split; [exact HR|].
  intros f Hf. apply HA. exact Hf.
Qed.

Lemma NoDup_app_disjoint : forall (A : Type) (l1 l2 : list A) x, NoDup (l1 ++ l2) -> In x l1 -> In x l2 -> False.
Proof.
  intros A. induction l1 as [|a l1 IH]; intros l2 x H H1 H2; [destruct H1|].
  cbn [app] in H. inversion H as [|a' l' Hna Hnd]; subst. destruct H1 as [-> | H1].
  - apply Hna. apply in_or_app. right. exact H2.
  - apply (IH l2 x Hnd H1 H2).
Qed.

Section First.
Variable I : interp.
Variable swap : list tuple -> list tuple -> bool.
Hypothesis Hspec : eval_variant_spec_agg_stmt I swap.
Hypothesis Hperm : agg_perm_invariant I.
Variable arities : list (rel * nat).
Variable P : list rule.
Variable pl : plan.
Hypothesis Hfun : arities_functional arities.
Hypothesis Hval : validate arities P pl = true.

(* the invariant of the first run: every stratum already evaluated is closed on the current rows *)
Definition KJ (k : nat) (st : state) : Prop :=
  (forall f, In f (stored st) <-> In f (rows st))
  /\ (forall f, In f (rows st) -> wf_fact arities f = true)
  /\ NoDup (stored st)
  /\ NoDup (rows st)
  /\ (forall i sc', nth_error pl i = Some sc' -> i < k -> closed I (stratum_of P sc') (rows st)).

Lemma KJ_step : forall fuel k sc st st1,
  nth_error pl k = Some sc -> KJ k st -> run_scc I swap fuel sc st = Some st1 -> KJ (S k) st1.
Proof.
  intros fuel k sc st st1 Hn [Hsr [Hwf [Hnds [Hndr Hcl]]]] Hrun.
  pose proof (val_scc_ok arities P pl Hval k sc Hn) as Hok.
  destruct (run_scc_spec_agg I swap arities P sc fuel st st1 Hspec Hperm Hfun Hok Hsr Hwf Hnds Hrun)
    as [Hsr1 [Hwf1 [Hnds1 [[A [HR [HndA HA]]] Hlm]]]].
  destruct (run_scc_spec_agg_heads I swap arities P sc fuel st st1 Hspec Hperm Hfun Hok Hsr Hwf Hnds Hrun)
    as [A' [HR' Hheads]].
  assert (A' = A) by (rewrite HR in HR'; apply app_inv_head in HR'; congruence). subst A'.
  split; [exact Hsr1|]. split; [exact Hwf1|]. split; [exact Hnds1|]. split.
  - rewrite HR. apply NoDup_app_intro; [exact Hndr | exact HndA |]. intros f Hf HfA. exact (HA f HfA Hf).
  - intros i sc' Hi Hlt. destruct (Nat.eq_dec i k) as [-> | Hne].
    + rewrite Hn in Hi. injection Hi as <-. destruct Hlm as [_ [_ [Hc _]]]. exact Hc.
    + assert (Hik : i < k) by lia. intros f [r [Hrs Hf]]. rewrite HR. apply in_or_app. left.
      apply (Hcl i sc' Hi Hik). exists r. split; [exact Hrs|].
      unfold stratum_of in Hrs. apply in_filter_map in Hrs as [j [Hj Hr]].
      assert (Hji : rule_scc pl j i) by (exists sc'; split; assumption).
      assert (Hnew : forall q t, In (q, t) A -> exists j' r', nth_error P j' = Some r' /\ rule_scc pl j' k
                                                           /\ In q (head_rels r')).
      { intros q t Hqt. apply Hheads in Hqt. cbn [fst] in Hqt. unfold scc_head_rels in Hqt.
        apply in_flat_map in Hqt as [j' [Hj' Hh]]. destruct (nth_error P j') as [r'|] eqn:Hr'; [|destruct Hh].
        exists j', r'. split; [exact Hr'|]. split; [exists sc; split; assumption | exact Hh]. }
      revert Hf. apply derive_rule_mono_agg; [exact Hperm | |].
      * intros q Hq t. rewrite !in_db_of, HR. split.
        -- intros Ht. apply in_app_or in Ht as [Ht | Ht]; [exact Ht|]. exfalso.
           destruct (Hnew q t Ht) as [j' [r' [Hr' [Hk' Hh]]]].
           pose proof (strat_order_agg arities P pl Hval j r j' r' i k q Hr Hr' Hji Hk' Hq Hh). lia.
        -- intros Ht. apply in_or_app. left. exact Ht.
      * intros q Hq t Ht. apply in_db_of in Ht. apply in_db_of. rewrite HR in Ht.
        apply in_app_or in Ht as [Ht | Ht]; [exact Ht|]. exfalso.
        destruct (Hnew q t Ht) as [j' [r' [Hr' [Hk' Hh]]]].
        pose proof (strat_order arities P pl Hval j r j' r' i k q Hr Hr' Hji Hk' Hq Hh). lia.
Qed.

Lemma run_sccs_KJ : forall fuel rest pre st st',
  pl = pre ++ rest -> KJ (length pre) st -> run_sccs I swap fuel rest st = Some st' -> KJ (length pl) st'.
Proof.
  intros fuel. induction rest as [|sc rest IH]; intros pre st st' Hpl HJ Hrun.
  - cbn [run_sccs] in Hrun. injection Hrun as <-.
    assert (Hlen : length pl = length pre) by (rewrite Hpl, app_nil_r; reflexivity). rewrite Hlen. exact HJ.
  - cbn [run_sccs] in Hrun. destruct (run_scc I swap fuel sc st) as [st1|] eqn:H1; [|discriminate].
    apply (IH (pre ++ [sc]) st1 st').
    + rewrite <- app_assoc. exact Hpl.
    + rewrite app_length. cbn [length]. replace (length pre + 1) with (S (length pre)) by lia.
      apply (KJ_step fuel (length pre) sc st st1); [|exact HJ | exact H1].
      rewrite Hpl, nth_error_app2, Nat.sub_diag; [reflexivity | lia].
    + exact Hrun.
Qed.
End First.

(* a list closed under every stratum is the stratified model of itself *)
Lemma strat_model_fixed_self : forall I P pl M,
  (forall sc, In sc pl -> closed I (stratum_of P sc) M) -> strat_model_fixed I (plan_strata P pl) M M.
Proof.
  intros I P. induction pl as [|sc pl IH]; intros M H.
  - cbn [plan_strata map strat_model_fixed]. split; apply incl_refl.
  - rewrite plan_strata_eq. cbn [map strat_model_fixed]. rewrite <- plan_strata_eq. exists M. split.
    + split; [apply incl_refl|]. split; [intros f _; reflexivity|]. split; [apply H; left; reflexivity|].
      intros M' HM' _ _. exact HM'.
    + apply IH. intros sc' Hsc'. apply H. right. exact Hsc'.
Qed.

Theorem rerun_idempotent_agg : forall I swap, eval_variant_spec_agg_stmt I swap -> rerun_idempotent_agg_stmt I swap.
Proof.
  intros I swap Hspec arities P pl fuel fuel' F0 st1 st2 Hfun HwfF0 HndF0 Hperm Hval Hrun1 Hrun2.
  (* first run: wf, NoDup, closed under every stratum *)
  assert (HK : KJ I arities P pl (length pl) st1).
  { unfold run_plan in Hrun1.
    apply (run_sccs_KJ I swap Hspec Hperm arities P pl Hfun Hval fuel pl [] (update_indices (init_state F0)) st1 eq_refl); [|exact Hrun1].
    unfold KJ, update_indices, init_state. cbn [rows stored length]. split; [intros f; reflexivity|].
    split; [apply wf_facts_forall; exact HwfF0|]. split; [exact HndF0|]. split; [exact HndF0|].
    intros i sc' _ Hlt. lia. }
  destruct HK as [_ [Hwf1 [_ [Hnd1 Hcl1]]]].
  assert (Hself : strat_model_fixed I (plan_strata P pl) (rows st1) (rows st1)).
  { apply strat_model_fixed_self. intros sc Hsc. apply In_nth_error in Hsc as [i Hi].
    apply (Hcl1 i sc Hi). apply nth_error_Some. congruence. }
  (* second run: run_plan only reads the rows *)
  change (run_plan I swap fuel' pl st1) with (run_plan I swap fuel' pl (init_state (rows st1))) in Hrun2.
  destruct (run_plan_strat_correct_fixed I swap Hspec arities P pl fuel' (rows st1) st2 Hfun
              (proj2 (wf_facts_forall arities (rows st1)) Hwf1) Hnd1 Hperm Hval Hrun2)
    as [_ [_ [Hsm2 [Hnd2 [added Hadd]]]]].
  pose proof (strat_model_fixed_unique I (plan_strata P pl) (rows st1) (rows st1) (rows st1) (rows st2)
                (fun f => iff_refl _) Hself Hsm2) as Hsame.
  destruct added as [|a added]; [rewrite Hadd, app_nil_r; reflexivity|]. exfalso.
  rewrite Hadd in Hnd2. apply (NoDup_app_disjoint _ (rows st1) (a :: added) a Hnd2); [|left; reflexivity].
  apply Hsame. rewrite Hadd. apply in_or_app. right. left. reflexivity.
Qed.

Print Assumptions rerun_idempotent_agg.
