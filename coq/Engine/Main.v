(* The engine theorem instantiated, and its model-level corollaries:
   correctness of the executable specification oracle, uniqueness of least
   models, idempotence / incremental re-runs (C13), invariance under
   permutations (C06). *)
From Coq Require Import List ZArith Bool Arith Lia Permutation.
From AV Require Import Engine.Core Engine.Sem Engine.Eval Engine.Validate Engine.Naive Engine.Interface.
From AV Require Import Engine.NaiveLemmas Engine.EvalSpec Engine.SemiNaive Engine.Rerun.
Import ListNotations.

Theorem run_plan_correct_full : forall I swap, run_plan_correct_stmt I swap.
Proof. intros I swap. apply run_plan_correct. apply eval_variant_spec. Qed.

(* ---------- least models ---------- *)
Definition same_set (A B : list fact) : Prop := incl A B /\ incl B A.

Lemma least_model_unique I P F0 M1 M2 : least_model I P F0 M1 -> least_model I P F0 M2 -> same_set M1 M2.
Proof.
  intros (I1 & C1 & L1) (I2 & C2 & L2). split; [apply L1 | apply L2]; assumption.
Qed.

Lemma closed_same_set I P A B : no_agg P = true -> same_set A B -> closed I P A -> closed I P B.
Proof.
  intros Hna [AB BA] HA f [r [Hr Hf]]. apply AB. apply HA. exists r. split; [exact Hr|].
  unfold no_agg in Hna. rewrite forallb_forall in Hna.
  eapply derive_rule_mono; [apply Hna; exact Hr| |exact Hf].
  intros q _. apply db_of_incl. exact BA.
Qed.

Lemma least_model_same_input I P F0 F0' M : same_set F0 F0' -> least_model I P F0 M -> least_model I P F0' M.
Proof.
  intros [A B] (I1 & C1 & L1). split; [|split].
  - intros f Hf. apply I1. apply B. exact Hf.
  - exact C1.
  - intros M' HI HC. apply L1; [|exact HC]. intros f Hf. apply HI. apply A. exact Hf.
Qed.

Lemma least_model_perm_rules I P P' F0 M : (forall r, In r P <-> In r P') -> least_model I P F0 M -> least_model I P' F0 M.
Proof.
  intros HP (I1 & C1 & L1).
  assert (forall F, closed I P F <-> closed I P' F) as HC.
  { intros F. split; intros H f [r [Hr Hf]]; apply H; exists r; (split; [apply HP; exact Hr | exact Hf]). }
  split; [exact I1|split; [apply HC; exact C1|]]. intros M' HI HC'. apply L1; [exact HI|apply HC; exact HC'].
Qed.

(* ---------- the naive oracle computes a least model ---------- *)
Lemma add_new_spec fs : forall F, (forall f, In f (add_new fs F) <-> In f F \/ In f fs) /\ exists G, add_new fs F = F ++ G.
Proof.
  induction fs as [|g fs IH]; intros F; cbn [add_new].
  - split; [intros f; split; [intros H; left; exact H | intros [H|[]]; exact H] | exists []; rewrite app_nil_r; reflexivity].
  - destruct (mem_fact g F) eqn:E.
    + destruct (IH F) as [H1 [G HG]]. split; [|exists G; exact HG].
      intros f. rewrite H1. apply mem_fact_In in E. split; [intros [H|H]; [left; exact H|right; right; exact H]|].
      intros [H|[<-|H]]; [left; exact H|left; exact E|right; exact H].
    + destruct (IH (F ++ [g])) as [H1 [G HG]]. split.
      * intros f. rewrite H1, in_app_iff. cbn [In]. tauto.
      * exists (g :: G). rewrite HG, <- app_assoc. reflexivity.
Qed.

Lemma add_new_length_closed fs F : length (add_new fs F) = length F -> forall f, In f fs -> In f F.
Proof.
  revert F. induction fs as [|g fs IH]; intros F HL f Hf; [destruct Hf|]. cbn [add_new] in HL.
  destruct (mem_fact g F) eqn:E.
  - destruct Hf as [<-|Hf]; [apply mem_fact_In; exact E | apply IH; assumption].
  - exfalso. destruct (add_new_spec fs (F ++ [g])) as [_ [G HG]]. rewrite HG in HL.
    rewrite !app_length in HL. cbn [length] in HL. lia.
Qed.

Lemma naive_step_sound I P F M' : no_agg P = true -> incl F M' -> closed I P M' -> incl (naive_step I P F) M'.
Proof.
  intros Hna HF HC f Hf. unfold naive_step in Hf. apply (proj1 (add_new_spec _ F)) in Hf.
  destruct Hf as [Hf|Hf]; [apply HF; exact Hf|]. apply in_flat_map in Hf as [r [Hr Hf]].
  apply HC. exists r. split; [exact Hr|]. unfold no_agg in Hna. rewrite forallb_forall in Hna.
  eapply derive_rule_mono; [apply Hna; exact Hr| |exact Hf]. intros q _. apply db_of_incl. exact HF.
Qed.

Theorem naive_fix_least_model I P : no_agg P = true -> forall fuel F0 F M,
  incl F0 F -> (forall M', incl F0 M' -> closed I P M' -> incl F M') ->
  naive_fix I fuel P F = Some M -> least_model I P F0 M.
Proof.
  intros Hna fuel. induction fuel as [|n IH]; intros F0 F M HI HS HF; [discriminate|].
  cbn [naive_fix] in HF. destruct (Nat.eqb (length (naive_step I P F)) (length F)) eqn:E.
  - injection HF as <-. apply Nat.eqb_eq in E. split; [exact HI|split; [|exact HS]].
    intros f [r [Hr Hf]]. unfold naive_step in E. eapply add_new_length_closed; [exact E|].
    apply in_flat_map. exists r. split; assumption.
  - apply (IH F0 (naive_step I P F) M); [| |exact HF].
    + intros f Hf. unfold naive_step. apply (proj1 (add_new_spec _ F)). left. apply HI. exact Hf.
    + intros M' H0 HC. apply naive_step_sound; [exact Hna|apply HS; assumption|exact HC].
Qed.

Corollary naive_fix_correct I P fuel F0 M : no_agg P = true -> naive_fix I fuel P F0 = Some M -> least_model I P F0 M.
Proof.
  intros Hna H. eapply naive_fix_least_model; [exact Hna|apply incl_refl| |exact H]. intros M' HM _. exact HM.
Qed.

(* ---------- re-running (C13) ---------- *)
(* run() rebuilds the indices from the rows, so a run only depends on the rows of the program value *)
Lemma run_plan_rows_only I swap fuel pl st : run_plan I swap fuel pl st = run_plan I swap fuel pl (init_state (rows st)).
Proof. reflexivity. Qed.

Section Rerun.
Variables (I : interp) (swap : list tuple -> list tuple -> bool).
Variables (arities : list (rel * nat)) (P : list rule) (pl : plan).
Hypothesis Har : arities_functional arities.
Hypothesis Hna : no_agg P = true.
Hypothesis Hval : validate arities P pl = true.

(* any run from any program value whose rows are well formed yields the least model over those rows *)
Lemma run_any_state fuel st st' : wf_facts arities (rows st) = true ->
  run_plan I swap fuel pl st = Some st' ->
  least_model I P (rows st) (rows st')
  /\ exists added, rows st' = rows st ++ added /\ NoDup added /\ (forall f, In f added -> ~ In f (rows st)).
Proof.
  intros Hwf Hrun. rewrite run_plan_rows_only in Hrun.
  exact (run_plan_correct_full I swap arities P pl fuel (rows st) st' Har Hwf Hna Hval Hrun).
Qed.

(* idempotence: a second run() on an unmodified program value changes nothing, not even the row order *)
Theorem rerun_idempotent fuel fuel' F0 st1 st2 : wf_facts arities F0 = true ->
  run_plan I swap fuel pl (init_state F0) = Some st1 ->
  wf_facts arities (rows st1) = true ->
  run_plan I swap fuel' pl st1 = Some st2 ->
  rows st2 = rows st1.
Proof.
  intros Hwf H1 Hwf1 H2.
  destruct (run_plan_correct_full I swap arities P pl fuel F0 st1 Har Hwf Hna Hval H1) as [(I1 & C1 & L1) _].
  destruct (run_any_state fuel' st1 st2 Hwf1 H2) as [(I2 & C2 & L2) (added & Hrows & Hnd & Hdis)].
  assert (incl (rows st2) (rows st1)) as Hsub by (apply L2; [apply incl_refl|exact C1]).
  destruct added as [|a added]; [rewrite Hrows, app_nil_r; reflexivity|]. exfalso.
  apply (Hdis a (or_introl eq_refl)). apply Hsub. rewrite Hrows. apply in_or_app. right. left. reflexivity.
Qed.

(* monotone re-run: after pushing further facts and running again, the relations are those of a fresh
   run on the union of all inputs (as sets) *)
Theorem rerun_incremental fuel fuel' F0 F1 st1 st2 M : wf_facts arities F0 = true ->
  run_plan I swap fuel pl (init_state F0) = Some st1 ->
  wf_facts arities (rows (push_facts F1 st1)) = true ->
  run_plan I swap fuel' pl (push_facts F1 st1) = Some st2 ->
  least_model I P (F0 ++ F1) M ->
  same_set (rows st2) M.
Proof.
  intros Hwf H1 Hwf1 H2 (IM & CM & LM).
  destruct (run_plan_correct_full I swap arities P pl fuel F0 st1 Har Hwf Hna Hval H1) as [(I1 & C1 & L1) _].
  destruct (run_any_state fuel' (push_facts F1 st1) st2 Hwf1 H2) as [(I2 & C2 & L2) _].
  cbn [push_facts rows] in I2, L2. split.
  - apply L2; [|exact CM]. intros f Hf. apply in_app_or in Hf as [Hf|Hf].
    + revert f Hf. apply L1; [|exact CM]. intros f Hf. apply IM. apply in_or_app. left. exact Hf.
    + apply IM. apply in_or_app. right. exact Hf.
  - apply LM; [|exact C2]. intros f Hf. apply I2. apply in_app_or in Hf as [Hf|Hf]; apply in_or_app; [left; apply I1; exact Hf|right; exact Hf].
Qed.
End Rerun.

(* ---------- invariance under permutations (C06) ---------- *)
(* two accepted plans for two permutations of the same rules, run on two permutations of the same facts,
   compute the same relations *)
Theorem run_perm_invariant I swap swap' arities P P' pl pl' fuel fuel' F0 F0' st st' :
  arities_functional arities -> no_agg P = true ->
  Permutation P P' -> Permutation F0 F0' -> wf_facts arities F0 = true ->
  validate arities P pl = true -> validate arities P' pl' = true ->
  run_plan I swap fuel pl (init_state F0) = Some st ->
  run_plan I swap' fuel' pl' (init_state F0') = Some st' ->
  same_set (rows st) (rows st').
Proof.
  intros Har Hna HP HF Hwf Hv Hv' Hr Hr'.
  assert (no_agg P' = true) as Hna'.
  { unfold no_agg in *. rewrite forallb_forall in *. intros r Hr0. apply Hna. eapply Permutation_in; [apply Permutation_sym; exact HP|exact Hr0]. }
  assert (wf_facts arities F0' = true) as Hwf'.
  { unfold wf_facts in *. rewrite forallb_forall in *. intros f Hf. apply Hwf. eapply Permutation_in; [apply Permutation_sym; exact HF|exact Hf]. }
  destruct (run_plan_correct_full I swap arities P pl fuel F0 st Har Hwf Hna Hv Hr) as [LM _].
  destruct (run_plan_correct_full I swap' arities P' pl' fuel' F0' st' Har Hwf' Hna' Hv' Hr') as [LM' _].
  apply (least_model_unique I P F0); [exact LM|].
  apply (least_model_perm_rules I P' P).
  - intros r. split; intros H; [eapply Permutation_in; [apply Permutation_sym; exact HP|exact H] | eapply Permutation_in; [exact HP|exact H]].
  - apply (least_model_same_input I P' F0' F0); [|exact LM'].
    split; intros f Hf; [eapply Permutation_in; [apply Permutation_sym; exact HF|exact Hf] | eapply Permutation_in; [exact HF|exact Hf]].
Qed.

Print Assumptions run_plan_correct_full.
