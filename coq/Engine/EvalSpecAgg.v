(* eval_variant_spec_agg: eval_variant_spec extended to variants with aggregate items (C04).
   With duplicate-free Total contents of the aggregated relations, the index lookup of the generated code
   hands the aggregator exactly the list the specification hands it (same tuples, same order), so the
   environments after an aggregate item coincide.  The clause / simple-join machinery is EvalSpec.v's;
   the inductions over items are redone here without the no-aggregate hypothesis. *)
From Coq Require Import List ZArith Bool Arith Lia.
From AV Require Import Engine.Core.
From AV Require Import Engine.Sem.
From AV Require Import Engine.Eval.
From AV Require Import Engine.Validate.
From AV Require Import Engine.Naive.
From AV Require Import Engine.Interface.
From AV Require Import Engine.InterfaceAgg.
From AV Require Import Engine.EnvLemmas.
From AV Require Import Engine.EvalSpec.
Import ListNotations.
Open Scope Z_scope.

Lemma dedup_tuples_nodup : forall l, NoDup l -> dedup_tuples l = l.
Proof.
  induction l as [|a l IH]; intros H; cbn; auto. inversion H as [|? ? Hn Hl]; subst.
  destruct (mem_tuple a l) eqn:E.
  - apply mem_tuple_In in E. contradiction.
  - rewrite IH; auto.
Qed.

(* positions of the key arguments, counted from pos *)
Definition is_key (p : nat * aarg) : bool := match snd p with AKey _ => true | _ => false end.
Definition kp (pos : nat) (args : list aarg) : list nat :=
  map fst (filter is_key (combine (seq pos (length args)) args)).

Lemma kp_cons : forall pos a args,
  kp pos (a :: args) = match a with AKey _ => pos :: kp (S pos) args | _ => kp (S pos) args end.
Proof. intros pos a args; unfold kp; cbn. destruct a; reflexivity. Qed.

Lemma kp_shift : forall args pos, kp (S pos) args = map S (kp pos args).
Proof.
  induction args as [|a args IH]; intros pos; [reflexivity|].
  rewrite !kp_cons. destruct a; cbn [map]; rewrite IH; reflexivity.
Qed.

Section Agg.
Variable I : interp.

Lemma agg_key_shift : forall e a args idx, agg_key I e (a :: args) (map S idx) = agg_key I e args idx.
Proof.
  intros e a args idx; induction idx as [|i idx IH]; cbn; auto.
  cbn in IH. rewrite IH. reflexivity.
Qed.

Lemma agg_key_match : forall B e args,
  dom e B ->
  forallb (fun a => match a with AKey t => subv (term_vars t) B | _ => true end) args = true ->
  exists key, agg_key I e args (kp 0 args) = Some key /\
    forall tup, length tup = length args -> agg_match I e args tup = zlist_eqb (proj (kp 0 args) tup) key.
Proof.
  intros B e args Hd; induction args as [|a args IH]; intros Hk.
  - exists []; split; auto. intros [|v tup] Hl; try discriminate. reflexivity.
  - cbn [forallb] in Hk. apply andb_true_iff in Hk; destruct Hk as [Ha Hk].
    destruct (IH Hk) as [key [K1 K2]]. rewrite kp_cons, kp_shift.
    assert (forall a', (forall t, a' <> AKey t) ->
              (forall tup v, agg_match I e (a' :: args) (v :: tup) = agg_match I e args tup) ->
              exists key0, agg_key I e (a' :: args) (map S (kp 0 args)) = Some key0 /\
                forall tup, length tup = length (a' :: args) ->
                  agg_match I e (a' :: args) tup = zlist_eqb (proj (map S (kp 0 args)) tup) key0) as Hgen.
    { intros a' _ Hm. exists key. rewrite agg_key_shift. split; auto.
      intros [|v tup] Hl; try discriminate. cbn in Hl; injection Hl as Hl.
      rewrite Hm, proj_shift. apply K2; auto. }
    destruct a as [|x|t].
    + apply Hgen; [congruence|reflexivity].
    + apply Hgen; [congruence|reflexivity].
    + destruct (eval_term_defined I e B t Hd Ha) as [w Hw].
      exists (w :: key). cbn [agg_key nth_error]. rewrite Hw, agg_key_shift, K1. split; auto.
      intros [|v tup] Hl; try discriminate. cbn in Hl; injection Hl as Hl.
      cbn [agg_match]. rewrite Hw, proj_cons0. cbn [zlist_eqb]. rewrite Z.eqb_sym, K2; auto.
Qed.

Section Cont.
Variable swap : list tuple -> list tuple -> bool.
Variable cont : rel -> version -> list tuple.
Variable arities : list (rel * nat).
Variable dyn : list rel.
Hypothesis Hlen : forall r ver tup n, In tup (cont r ver) -> arity_ok arities r n = true -> length tup = n.

Notation naive := (all_envs_a I cont dyn).
Notation dv := (dyn_versions dyn).

(* under check_agg and duplicate-free contents, the lookup yields the list the specification aggregates *)
Lemma agg_core : forall B out bd r args idx B' e,
  check_agg arities B out bd r args idx = Some B' -> dom e B -> NoDup (cont r VTotal) ->
  exists key, agg_key I e args idx = Some key /\
    index_get (cont r VTotal) (length args) idx key = dedup_tuples (filter (agg_match I e args) (cont r VTotal)).
Proof.
  intros B out bd r args idx B' e Hk Hd Hnd. unfold check_agg in Hk.
  match type of Hk with (if ?c then _ else _) = _ => destruct c eqn:Ec; [|discriminate] end.
  apply andb_true_iff in Ec; destruct Ec as [Ec Hkeys]. apply andb_true_iff in Ec; destruct Ec as [Har Hidx].
  apply nats_eqb_eq in Hidx. change (kp 0 args = idx) in Hidx. subst idx.
  destruct (agg_key_match B e args Hd Hkeys) as [key [K1 K2]].
  exists key; split; auto.
  assert (filter (agg_match I e args) (cont r VTotal)
          = filter (fun t => zlist_eqb (proj (kp 0 args) t) key) (cont r VTotal)) as Hf.
  { apply filter_ext_in. intros t Ht. apply K2. eapply Hlen; eauto. }
  rewrite Hf. unfold index_get.
  rewrite (dedup_tuples_nodup (filter _ (cont r VTotal))) by (apply NoDup_filter; auto).
  destruct (Nat.eqb (length (kp 0 args)) (length args)); reflexivity.
Qed.

Lemma agg_post : forall B out bd r args idx B' e v,
  check_agg arities B out bd r args idx = Some B' -> dom e B -> canon e ->
  dom (bind_out out v e) B' /\ canon (bind_out out v e).
Proof.
  intros B out bd r args idx B' e v Hk Hd Hc. unfold check_agg in Hk.
  match type of Hk with (if ?c then _ else _) = _ => destruct c; [|discriminate] end.
  destruct out as [x|]; cbn.
  - destruct (memv x B); try discriminate. inversion Hk; subst. split; auto using dom_bind, canon_bind.
  - inversion Hk; subst; auto.
Qed.

Definition aggs_nd (items : list pitem) : Prop :=
  forall r, In r (flat_map item_agg_rels items) -> NoDup (cont r VTotal).

Lemma aggs_nd_cons : forall p rest, aggs_nd (p :: rest) -> aggs_nd rest.
Proof. intros p rest H r Hr. apply H. cbn. apply in_or_app; auto. Qed.

Lemma aggs_nd_head : forall out a bd r args idx rest, aggs_nd (PAgg out a bd r args idx :: rest) -> NoDup (cont r VTotal).
Proof. intros out a bd r args idx rest H. apply H. cbn. auto. Qed.

(* one aggregate item, any continuation *)
Lemma agg_step : forall B out a bd r args idx B' e e' (k k' : env -> list env),
  check_agg arities B out bd r args idx = Some B' -> dom e B -> canon e -> NoDup (cont r VTotal) ->
  (forall e2, dom e2 B' -> canon e2 -> (In e' (k e2) <-> In e' (k' e2))) ->
  (In e' (match agg_key I e args idx with
          | None => []
          | Some key =>
              let matching := index_get (cont r VTotal) (length args) idx key in
              flat_map (fun v => k (bind_out out v e)) (aint I a (map (agg_input bd args) matching))
          end)
   <-> In e' (let matching := dedup_tuples (filter (agg_match I e args) (cont r VTotal)) in
              flat_map (fun v => k' (bind_out out v e)) (aint I a (map (agg_input bd args) matching)))).
Proof.
  intros B out a bd r args idx B' e e' k k' Hk Hd Hc Hnd Hkk.
  destruct (agg_core _ _ _ _ _ _ _ _ Hk Hd Hnd) as [key [K1 K2]].
  rewrite K1. cbv zeta. rewrite K2. rewrite !in_flat_map.
  split; intros [v [Hv Hin]]; exists v; split; auto;
    destruct (agg_post _ _ _ _ _ _ _ _ v Hk Hd Hc) as [D2 C2]; apply (Hkk _ D2 C2); auto.
Qed.

Lemma items_equiv_agg : forall items B B' e,
  check_items arities B items = Some B' -> static_total dyn items = true -> aggs_nd items ->
  dom e B -> canon e ->
  forall e', In e' (eval_items I cont items e) <-> In e' (naive (dv items) (map item_of items) e).
Proof.
  induction items as [|p rest IH]; intros B B' e Hk Hst Hnd Hd Hc e'.
  - cbn; tauto.
  - pose proof (static_total_cons _ _ _ Hst) as [_ Hst'].
    pose proof (aggs_nd_cons _ _ Hnd) as Hnd'.
    destruct p as [r args cs idx ver|c|x g xs|out a bd r args idx].
    + cbn [check_items] in Hk. destruct (check_clause arities B r args cs idx) as [B1|] eqn:Ek; try discriminate.
      rewrite naive_clause by auto. rewrite naive_step_In. cbn [eval_items].
      rewrite (clause_idx_In I swap cont arities Hlen _ _ _ _ _ _ _ _ _ _ Ek Hd).
      eapply step_ex_iff; eauto.
    + cbn [check_items] in Hk. destruct (check_cond B c) as [B1|] eqn:Ek; try discriminate.
      change (dv (PCond c :: rest)) with (dv rest). cbn [map item_of all_envs_a eval_items].
      destruct (sat_cond I e c) as [e1|] eqn:Es; [|tauto].
      destruct (sat_cond_sound _ _ _ _ _ _ Hd Hc Ek Es) as [_ [_ [D1 C1]]]. eapply IH; eauto.
    + cbn [check_items] in Hk. destruct (subv xs B && negb (memv x B)) eqn:Eb; try discriminate.
      change (dv (PGen x g xs :: rest)) with (dv rest). cbn [map item_of all_envs_a eval_items].
      destruct (eval_vars e xs) as [vs|]; [|tauto]. rewrite !in_flat_map.
      split; intros [v [Hv Hin]]; exists v; split; auto;
        eapply (IH (x :: B) B' (bind x v e)); eauto using dom_bind, canon_bind.
    + cbn [check_items] in Hk. destruct (check_agg arities B out bd r args idx) as [B1|] eqn:Ek; try discriminate.
      change (dv (PAgg out a bd r args idx :: rest)) with (dv rest). cbn [map item_of all_envs_a eval_items].
      eapply agg_step; eauto using aggs_nd_head.
Qed.

Lemma sj_equiv_agg : forall items reord B B' e,
  check_simple_join arities B items reord = Some B' -> static_total dyn items = true -> aggs_nd items ->
  dom e B -> canon e ->
  forall e', In e' (eval_simple_join I swap cont items reord e) <-> In e' (naive (dv items) (map item_of items) e).
Proof.
  intros items reord B B' e Hk Hst Hnd Hd Hc e'.
  destruct items as [|[r1 a1 c1 i1 v1| | |] [|[r2 a2 c2 i2 v2| | |] rest]]; try discriminate.
  cbn [check_simple_join] in Hk.
  destruct (check_clause arities B r1 a1 c1 []) as [B1|] eqn:K1; try discriminate.
  destruct (check_clause arities B1 r2 a2 c2 i2) as [B2|] eqn:K2; try discriminate.
  pose proof (static_total_cons _ _ _ Hst) as [_ Hst1]. pose proof (static_total_cons _ _ _ Hst1) as [_ Hst2].
  pose proof (aggs_nd_cons _ _ (aggs_nd_cons _ _ Hnd)) as Hnd2.
  match type of Hk with (if ?c then _ else _) = _ => destruct c eqn:Eso; [|discriminate] end.
  assert (In e' (naive (dv (PClause r1 a1 c1 i1 v1 :: PClause r2 a2 c2 i2 v2 :: rest))
                       (map item_of (PClause r1 a1 c1 i1 v1 :: PClause r2 a2 c2 i2 v2 :: rest)) e)
          <-> step_ex I cont e r1 a1 c1 v1 (fun e2 => step_ex I cont e2 r2 a2 c2 v2 (fun e4 => In e' (eval_items I cont rest e4)))) as HN.
  { rewrite naive_clause by auto. rewrite naive_step_In.
    eapply step_ex_iff; eauto. intros e2 D2 C2.
    rewrite naive_clause by auto. rewrite naive_step_In.
    eapply step_ex_iff; eauto. intros e4 D4 C4. symmetry. eapply items_equiv_agg; eauto. }
  rewrite HN. clear HN.
  assert (In e' (eval_clause_all I cont (fun e1 => eval_clause_idx I cont (eval_items I cont rest) e1 r2 a2 c2 i2 v2) e r1 a1 c1 v1)
          <-> step_ex I cont e r1 a1 c1 v1 (fun e2 => step_ex I cont e2 r2 a2 c2 v2 (fun e4 => In e' (eval_items I cont rest e4)))) as HW.
  { rewrite (clause_all_In I swap cont arities Hlen _ _ _ _ _ _ _ _ _ K1 Hd).
    eapply step_ex_iff; eauto. intros e2 D2 C2. eapply clause_idx_In; eauto. }
  cbn [eval_simple_join].
  destruct (reord && negb (swap (cont r1 v1) (cont r2 v2))) eqn:Esw; [|exact HW].
  apply andb_true_iff in Esw; destruct Esw as [Er _]. rewrite Er in Eso.
  destruct (check_clause arities B r2 a2 c2 []) as [C1|] eqn:J1; try discriminate.
  destruct (check_clause arities C1 r1 a1 c1 i1) as [C2|] eqn:J2; try discriminate.
  rewrite <- (step2_swap I cont arities _ _ _ _ _ _ _ _ _ _ _ _ _ _ _ _ _ K1 K2 J1 J2 Hd Hc).
  rewrite (clause_all_In I swap cont arities Hlen _ _ _ _ _ _ _ _ _ J1 Hd).
  eapply step_ex_iff; eauto. intros e2 D2 C2'. eapply clause_idx_In; eauto.
Qed.

Lemma from_equiv_agg : forall sj items reord B B' e,
  check_from arities B items sj reord = Some B' -> static_total dyn items = true -> aggs_nd items ->
  dom e B -> canon e ->
  forall e', In e' (eval_from I swap cont items sj reord e) <-> In e' (naive (dv items) (map item_of items) e).
Proof.
  intros [n|]; [|intros items reord B B' e Hk Hst Hnd Hd Hc e'; destruct items; eapply items_equiv_agg; eauto].
  induction n as [|n IH]; intros items reord B B' e Hk Hst Hnd Hd Hc e'.
  - rewrite eval_from_0. rewrite check_from_0 in Hk. eapply sj_equiv_agg; eauto.
  - destruct items as [|p rest]; [discriminate|].
    pose proof (static_total_cons _ _ _ Hst) as [_ Hst'].
    pose proof (aggs_nd_cons _ _ Hnd) as Hnd'.
    destruct p as [r args cs idx ver|c|x g xs|out a bd r args idx]; try discriminate.
    + cbn [check_from] in Hk. destruct (check_cond B c) as [B1|] eqn:Ek; try discriminate.
      change (dv (PCond c :: rest)) with (dv rest). cbn [map item_of all_envs_a eval_from].
      destruct (sat_cond I e c) as [e1|] eqn:Es; [|tauto].
      destruct (sat_cond_sound _ _ _ _ _ _ Hd Hc Ek Es) as [_ [_ [D1 C1]]]. eapply IH; eauto.
    + cbn [check_from] in Hk. destruct (subv xs B && negb (memv x B)) eqn:Eb; try discriminate.
      change (dv (PGen x g xs :: rest)) with (dv rest). cbn [map item_of all_envs_a eval_from].
      destruct (eval_vars e xs) as [vs|]; [|tauto]. rewrite !in_flat_map.
      split; intros [v [Hv Hin]]; exists v; split; auto;
        eapply (IH rest reord (x :: B) B' (bind x v e)); eauto using dom_bind, canon_bind.
    + cbn [check_from] in Hk. destruct (check_agg arities B out bd r args idx) as [B1|] eqn:Ek; try discriminate.
      change (dv (PAgg out a bd r args idx :: rest)) with (dv rest). cbn [map item_of all_envs_a eval_from].
      eapply agg_step; eauto using aggs_nd_head.
Qed.

Lemma empty_naive_agg : forall items e e',
  existsb (clause_empty cont) items = true -> static_total dyn items = true ->
  ~ In e' (naive (dv items) (map item_of items) e).
Proof.
  induction items as [|p rest IH]; intros e e' Hex Hst Hin; [discriminate|].
  pose proof (static_total_cons _ _ _ Hst) as [_ Hst'].
  cbn [existsb] in Hex.
  destruct p as [r args cs idx ver|c|x g xs|out a bd r args idx].
  - rewrite naive_clause in Hin by auto. apply naive_step_In in Hin.
    destruct Hin as [tup [e1 [e2 [Ht [_ [_ Hin]]]]]].
    cbn [clause_empty] in Hex. destruct (cont r ver) eqn:Ec; [contradiction|].
    cbn in Hex. eapply IH; eauto.
  - cbn in Hex. change (dv (PCond c :: rest)) with (dv rest) in Hin. cbn [map item_of all_envs_a] in Hin.
    destruct (sat_cond I e c); [|contradiction]. eapply IH; eauto.
  - cbn in Hex. change (dv (PGen x g xs :: rest)) with (dv rest) in Hin. cbn [map item_of all_envs_a] in Hin.
    destruct (eval_vars e xs); [|contradiction]. apply in_flat_map in Hin. destruct Hin as [v [_ Hin]].
    eapply IH; eauto.
  - cbn in Hex. change (dv (PAgg out a bd r args idx :: rest)) with (dv rest) in Hin.
    cbn [map item_of all_envs_a] in Hin. cbv zeta in Hin.
    apply in_flat_map in Hin. destruct Hin as [v [_ Hin]]. eapply IH; eauto.
Qed.

Lemma variant_equiv_agg : forall v,
  variant_wf_agg arities dyn v = true ->
  (forall r, In r (variant_agg_rels v) -> NoDup (cont r VTotal)) ->
  forall f, In f (eval_variant I swap cont v) <-> In f (derive_variant I cont dyn v).
Proof.
  intros v Hwf Hnd f. unfold variant_wf_agg in Hwf.
  apply andb_true_iff in Hwf; destruct Hwf as [Hst Hk].
  destruct (check_from arities [] (v_items v) (v_sj v) (v_reord v)) as [B'|] eqn:Ek; try discriminate.
  unfold eval_variant, derive_variant.
  match goal with |- In f (if ?c then _ else _) <-> _ => destruct c eqn:Eskip end.
  - apply andb_true_iff in Eskip; destruct Eskip as [_ Hex].
    split; [intros []|]. rewrite in_flat_map. intros [e [He _]]. exfalso. eapply empty_naive_agg; eauto.
  - rewrite !in_flat_map. split; intros [e [He Hf]]; exists e; split; auto;
      eapply (from_equiv_agg _ _ _ [] B' []); eauto using dom_nil; exact Logic.I.
Qed.

End Cont.
End Agg.

(* an aggregate before and after a clause; duplicate-free contents *)
Definition exa_I : interp :=
  {| fint := fun _ _ => 0; pint := fun _ _ => true; bint := fun _ _ => None; gint := fun _ _ => [];
     aint := fun _ l => [Z.of_nat (length l)] |}.
Definition exa_variant : variant :=
  {| v_rule := 0%nat; v_heads := [(2%nat, [TVar 0%nat; TVar 2%nat])];
     v_items := [PClause 0%nat [TVar 0%nat; TVar 1%nat] [] [] VTotal;
                 PAgg (Some 2%nat) 0%nat [3%nat] 1%nat [AKey (TVar 1%nat); ABound 3%nat] [0%nat]];
     v_sj := None; v_reord := false |}.
Definition exa_ar : list (rel * nat) := [(0, 2); (1, 2); (2, 2)]%nat.
Definition exa_S : list fact := [(0%nat, [1; 2]); (0%nat, [7; 5]); (1%nat, [2; 3]); (1%nat, [2; 4]); (1%nat, [5; 6])].
Example eval_variant_spec_agg_instance :
  variant_wf_agg exa_ar [2%nat] exa_variant = true
  /\ eval_variant exa_I (fun _ _ => true) (contents exa_S [] [] [2%nat]) exa_variant = [(2%nat, [1; 2]); (2%nat, [7; 1])]
  /\ derive_variant exa_I (contents exa_S [] [] [2%nat]) [2%nat] exa_variant = [(2%nat, [1; 2]); (2%nat, [7; 1])].
Proof. vm_compute. repeat split. Qed.
Print Assumptions eval_variant_spec_agg_instance.

Theorem eval_variant_spec_agg : forall I swap, eval_variant_spec_agg_stmt I swap.
Proof.
  intros I swap arities S T D dyn v Hf HS HT HD Hwf Hnd f.
  apply variant_equiv_agg with (arities := arities); auto.
  intros r ver tup n Hin Har. eapply (contents_len arities S T D); eauto.
Qed.

Print Assumptions eval_variant_spec_agg.
