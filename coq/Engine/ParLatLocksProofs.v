(* C20, lattice half - the key mutex of the parallel lattice head update is REQUIRED by the pool the program RUNS in, whatever
   pool was current when the program value (and with it the mutex stripes) was constructed.  Model: Engine/ParLatLocks.v.

   (a) lstep_locked / lrun_locked          with a stripe for every key, [lstep] IS ParLat.step (mx = the stripe assignment): the
                                           theorems of Engine/ParLatProofs.v are about every such value.
   (b) parlat_striped_one_row_per_key      a value with n > 0 stripes - ANY n, so whatever the construction pool was, and ANY
       parlat_striped_values               hash - run by ANY number of workers (any run pool: [work] is arbitrary) under EVERY
                                           schedule: one row per key in every reachable state; after a finishing schedule the
                                           values of the serial head-update fold.
       parlat_process_constant_policy      the sizing policy of the code (shards_count(), > 0, construction pool not consulted)
                                           satisfies (b) for every construction pool.
   (c) parlat_no_lock_refuted              a value with NO stripes run by two workers: closed schedule (both workers pass the
                                           look-up of the new key 5 and the re-check before either has inserted it) ending, finished,
                                           with TWO rows of key 5; the key index points at the second, the row read through [valof]
                                           (the first) holds 1, the serial value is 2: an orphan row with a stale value.
       parlat_by_construction_pool_refuted the policy "stripes by the pool current at construction, none for a single thread":
                                           constructed under a 1-thread pool there is no stripe, and (c) is a run of that value in
                                           a pool of >= 2 workers; constructed under >= 2 threads it has stripes and (b) applies.
   (d) parlat_no_lock_single_worker        the elision is sound exactly relative to the RUN pool: with ONE worker (|work| = 1) the
                                           run without any lock passes through the same rows / indices / flag as the run with a
                                           lock, for every schedule: one row per key, serial values.  So "a single worker needs
                                           no lock" is true of the pool that runs the value and says nothing about the pool that
                                           constructed it. *)
From Coq Require Import List ZArith Bool Arith Lia.
From AV Require Import Engine.ParLat.
From AV Require Import Engine.ParLatProofs.
From AV Require Import Engine.ParLatLocks.
From AV Require Import LatEngine.LatSem.
Import ListNotations.
Local Open Scope nat_scope.

Section Locks.
Context {K V : Type}.
Variable keqb : K -> K -> bool.
Hypothesis keqb_spec : forall a b, keqb a b = true <-> a = b.
Variable le : V -> V -> Prop.
Variable jm : V -> V -> V * bool.
Hypothesis Hlaws : lat_laws le jm.
Variable kfirst : bool.
Variable setidx : bool.
Variables dl tt : K -> option nat.

Notation pstate := (@pstate K V).

(* ---------- (a) a stripe for every key: the model of Engine/ParLat.v ---------- *)
Lemma lstep_locked : forall (mx : K -> nat) (st : pstate) j,
  lstep keqb jm (fun k => Some (mx k)) kfirst setidx dl tt st j = step keqb jm mx kfirst setidx dl tt st j.
Proof.
  intros mx st j. unfold lstep, step.
  destruct (nth_error (lws st) j) as [w|]; [|reflexivity].
  destruct (wpc w); reflexivity.
Qed.

Lemma lrun_locked : forall (mx : K -> nat) sched (st : pstate),
  lrun_sched keqb jm (fun k => Some (mx k)) kfirst setidx dl tt st sched = run_sched keqb jm mx kfirst setidx dl tt st sched.
Proof.
  intros mx sched. unfold lrun_sched, run_sched. induction sched as [|j sched IH]; intros st; [reflexivity|].
  cbn [fold_left]. rewrite lstep_locked. apply IH.
Qed.

Section Reach.
Variable R0 : list (K * V).
Variable nk0 : list (K * nat).
Variable ot0 : list nat.
Variable ch0 : bool.
Variable work : list (list (K * V)).          (* one list of contributions per worker of the RUN pool *)
Hypothesis OK : init_ok keqb le dl tt R0 nk0 ot0 ch0 work.

Notation st0 := (par_init R0 nk0 ot0 ch0 work).
Notation lrun lockof := (lrun_sched keqb jm lockof kfirst setidx dl tt st0).

(* ---------- (b) any number of stripes > 0, any hash, any number of workers, every schedule ---------- *)
Theorem parlat_striped_one_row_per_key : forall (hash : K -> nat) (stripes : nat), stripes <> 0 ->
  forall sched, NoDup (map fst (lrows (lrun (stripe_lock hash stripes) sched))).
Proof.
  intros hash [|n] Hn sched; [contradiction|].
  change (stripe_lock hash (S n)) with (fun k : K => Some (Nat.modulo (hash k) (S n))).
  rewrite lrun_locked. exact (parlat_one_row_per_key keqb keqb_spec le jm Hlaws _ kfirst setidx dl tt R0 nk0 ot0 ch0 work OK sched).
Qed.

Theorem parlat_striped_values : forall (hash : K -> nat) (stripes : nat), stripes <> 0 ->
  forall sched, finished (lrun (stripe_lock hash stripes) sched) = true ->
  forall k, valof keqb (lrows (lrun (stripe_lock hash stripes) sched)) k = valof keqb (ser_run keqb jm R0 (concat work)) k.
Proof.
  intros hash [|n] Hn sched; [contradiction|].
  change (stripe_lock hash (S n)) with (fun k : K => Some (Nat.modulo (hash k) (S n))).
  rewrite lrun_locked. exact (parlat_values keqb keqb_spec le jm Hlaws _ kfirst setidx dl tt R0 nk0 ot0 ch0 work OK sched).
Qed.

(* the code: shards_count() stripes, a process constant > 0, whatever pool is current at construction *)
Theorem parlat_process_constant_policy : forall (hash : K -> nat) (n construction_pool : nat), n <> 0 ->
  forall sched, NoDup (map fst (lrows (lrun (stripe_lock hash (stripes_process_constant n construction_pool)) sched))).
Proof. intros hash n a Hn. exact (parlat_striped_one_row_per_key hash n Hn). Qed.

(* ---------- (d) no lock at all, ONE worker ---------- *)
Definition forget (st : pstate) : pstate :=
  {| lrows := lrows st; lnkey := lnkey st; lother := lother st; lheld := []; lchg := lchg st; lws := lws st |}.

Definition nolock : K -> option nat := fun _ => None.

Lemma forget_step : forall (mx : K -> nat) (st : pstate) j,
  (forall w k v, nth_error (lws st) j = Some w -> wpc w = PLock k v -> nmem (mx k) (lheld st) = false) ->
  forget (step keqb jm mx kfirst setidx dl tt st j) = lstep keqb jm nolock kfirst setidx dl tt (forget st) j.
Proof.
  intros mx st j NB. unfold lstep, step, nolock. cbn [forget lws].
  destruct (nth_error (lws st) j) as [w|] eqn:Hw; [|reflexivity].
  destruct (wpc w) as [ |k v r|k v i nh|k i m|k i m|k m|k v|k v|k v i|k v|k] eqn:Hp; cbn [forget lrows lnkey lother lheld lchg lws].
  - destruct (todo w) as [|[k v] rest]; reflexivity.
  - destruct (orelse r (orelse (dl k) (tt k))); reflexivity.
  - destruct (join_row jm (lrows st) i v) as [R' ch]. reflexivity.
  - destruct kfirst; reflexivity.
  - destruct kfirst; reflexivity.
  - reflexivity.
  - rewrite (NB w k v eq_refl Hp). reflexivity.
  - destruct (klook keqb k (lnkey st)); reflexivity.
  - reflexivity.
  - reflexivity.
  - reflexivity.
Qed.

Hypothesis one_worker : length work = 1.

Lemma single_worker_never_blocked : forall (mx : K -> nat) sched w j k v,
  nth_error (lws (run_sched keqb jm mx kfirst setidx dl tt st0 sched)) j = Some w -> wpc w = PLock k v ->
  nmem (mx k) (lheld (run_sched keqb jm mx kfirst setidx dl tt st0 sched)) = false.
Proof.
  intros mx sched w j k v Hw Hp.
  destruct (nmem (mx k) (lheld (run_sched keqb jm mx kfirst setidx dl tt st0 sched))) eqn:E; [|reflexivity]. exfalso.
  assert (En : enabled mx (run_sched keqb jm mx kfirst setidx dl tt st0 sched) j = false).
  { unfold enabled. rewrite Hw, Hp, E. reflexivity. }
  destruct (parlat_blocked_holder_enabled keqb keqb_spec le jm Hlaws mx kfirst setidx dl tt R0 nk0 ot0 ch0 work OK sched j w k v Hw Hp En)
    as [j' [w' [Hne [Hw' _]]]].
  assert (L : length (lws (run_sched keqb jm mx kfirst setidx dl tt st0 sched)) = 1).
  { clear - one_worker. unfold run_sched.
    assert (G : forall sch (s : pstate), length (lws (fold_left (step keqb jm mx kfirst setidx dl tt) sch s)) = length (lws s)).
    { induction sch as [|a sch IH]; intros s; [reflexivity|]. cbn [fold_left]. rewrite IH.
      unfold step. destruct (nth_error (lws s) a) as [w0|]; [|reflexivity].
      destruct (wpc w0); unfold goto, mk; cbn [lws];
        repeat match goal with
               | |- context [match ?x with _ => _ end] => destruct x
               end; cbn [lws]; rewrite ?upd_nth_length; reflexivity. }
    rewrite G. cbn [par_init lws]. rewrite map_length. exact one_worker. }
  assert (J : j < 1) by (rewrite <- L; apply nth_error_Some; rewrite Hw; discriminate).
  assert (J' : j' < 1) by (rewrite <- L; apply nth_error_Some; rewrite Hw'; discriminate).
  lia.
Qed.

Lemma forget_run : forall (mx : K -> nat) sched,
  forget (run_sched keqb jm mx kfirst setidx dl tt st0 sched) = lrun nolock sched.
Proof.
  intros mx sched. induction sched as [|j sched IH] using rev_ind; [reflexivity|].
  unfold run_sched, lrun_sched in *. rewrite !fold_left_app. cbn [fold_left]. rewrite <- IH.
  apply forget_step. intros w k v Hw Hp. exact (single_worker_never_blocked mx sched w j k v Hw Hp).
Qed.

Theorem parlat_no_lock_single_worker : forall sched,
  NoDup (map fst (lrows (lrun nolock sched))) /\
  (finished (lrun nolock sched) = true ->
   forall k, valof keqb (lrows (lrun nolock sched)) k = valof keqb (ser_run keqb jm R0 (concat work)) k).
Proof.
  intros sched. rewrite <- (forget_run (fun _ => 0) sched). cbn [forget lrows]. split.
  - exact (parlat_one_row_per_key keqb keqb_spec le jm Hlaws _ kfirst setidx dl tt R0 nk0 ot0 ch0 work OK sched).
  - intros F. exact (parlat_values keqb keqb_spec le jm Hlaws _ kfirst setidx dl tt R0 nk0 ot0 ch0 work OK sched F).
Qed.
End Reach.
End Locks.

(* ---------- (c) no stripes, two workers: closed instance (Z keys, Z values under max; row 0 = (7, 0) indexed by delta) ---------- *)
Definition zlrun (kfirst : bool) (lockof : Z -> option nat) R0 work sched :=
  lrun_sched Z.eqb zjm lockof kfirst true zdl znone (par_init R0 [] [] false work) sched.

(* both workers read new's key index (key 5 absent), pass delta / total, pass the lock step without a guard, re-check (absent),
   and push: worker 0 completes its push and insertions, then worker 1 *)
Definition race_sched : list nat := [0; 1; 0; 1; 0; 1; 0; 1; 0; 0; 0; 0; 0; 1; 1; 1; 1; 1].
Definition zhash (k : Z) : nat := Z.to_nat k.

Theorem parlat_no_lock_refuted : forall kfirst,
  let s := zlrun kfirst (stripe_lock zhash 0) [(7, 0)%Z] [[(5, 1)%Z]; [(5, 2)%Z]] race_sched in
  finished s = true /\ lrows s = [(7, 0); (5, 1); (5, 2)]%Z /\ ~ NoDup (map fst (lrows s)) /\
  klook Z.eqb 5%Z (lnkey s) = Some 2 /\
  valof Z.eqb (lrows s) 5%Z = Some 1%Z /\ valof Z.eqb (ser_run Z.eqb zjm [(7, 0)%Z] [(5, 1)%Z; (5, 2)%Z]) 5%Z = Some 2%Z.
Proof.
  intros kf. assert (N : ~ NoDup [7%Z; 5%Z; 5%Z]).
  { intros H. inversion H as [|x l _ H1]; subst. inversion H1 as [|x l H2 _]; subst. apply H2. left. reflexivity. }
  destruct kf; vm_compute; (split; [reflexivity|]); (split; [reflexivity|]); (split; [exact N|]); repeat split.
Qed.

(* the same contributions and schedule on a value WITH stripes (any number > 0; here 1 and 8): the second worker blocks
   (its steps are no-ops while the first holds the stripe); completing the schedule gives one row holding the maximum *)
Example ex_striped_same_schedule : forall kfirst,
  let s1 := zlrun kfirst (stripe_lock zhash 1) [(7, 0)%Z] [[(5, 1)%Z]; [(5, 2)%Z]] (race_sched ++ [1; 1; 1; 1]) in
  let s8 := zlrun kfirst (stripe_lock zhash 8) [(7, 0)%Z] [[(5, 1)%Z]; [(5, 2)%Z]] (race_sched ++ [1; 1; 1; 1]) in
  finished s1 = true /\ lrows s1 = [(7, 0); (5, 2)]%Z /\ finished s8 = true /\ lrows s8 = [(7, 0); (5, 2)]%Z.
Proof. intros [|]; vm_compute; repeat split. Qed.

(* the policy "stripes by the pool current at construction": none for a 1-thread pool, next_power_of_two(4 a) otherwise *)
Theorem parlat_by_construction_pool_refuted :
  stripes_by_construction_pool 1 = 0 /\ stripes_by_construction_pool 2 = 8 /\ stripes_by_construction_pool 8 = 32 /\
  (forall a, 2 <= a -> stripes_by_construction_pool a <> 0) /\
  (* constructed under a 1-thread pool, run by two workers *)
  forall kfirst,
    let s := zlrun kfirst (stripe_lock zhash (stripes_by_construction_pool 1)) [(7, 0)%Z] [[(5, 1)%Z]; [(5, 2)%Z]] race_sched in
    finished s = true /\ lrows s = [(7, 0); (5, 1); (5, 2)]%Z.
Proof.
  split; [reflexivity|]. split; [reflexivity|]. split; [reflexivity|]. split.
  - intros a Ha. unfold stripes_by_construction_pool. destruct (Nat.ltb_spec 1 a) as [_|H]; [|lia].
    unfold next_power_of_two. apply Nat.pow_nonzero. discriminate.
  - intros [|]; vm_compute; split; reflexivity.
Qed.

(* the value without stripes run by ONE worker (both contributions on it): fine - an instance of parlat_no_lock_single_worker *)
Example ex_no_lock_one_worker : forall kfirst,
  let s := zlrun kfirst (stripe_lock zhash 0) [(7, 0)%Z] [[(5, 1)%Z; (5, 2)%Z]] (repeat 0 20) in
  finished s = true /\ lrows s = [(7, 0); (5, 2)]%Z.
Proof. intros [|]; vm_compute; repeat split. Qed.

Print Assumptions lrun_locked.
Print Assumptions parlat_striped_one_row_per_key.
Print Assumptions parlat_striped_values.
Print Assumptions parlat_process_constant_policy.
Print Assumptions parlat_no_lock_single_worker.
Print Assumptions parlat_no_lock_refuted.
Print Assumptions ex_striped_same_schedule.
Print Assumptions parlat_by_construction_pool_refuted.
Print Assumptions ex_no_lock_one_worker.
