(* Histories of a program value with PER-INDEX state (C01: "every run() on ANY program value ends in the least model of
   the rows present"): what a caller can do to a program value between two calls of run(), and what an interrupted
   run_timeout() leaves behind, on top of Engine/IndexedEval.v.

     HRun            p.run()
     HPush fs        rows appended to the (public) Vec fields
     HSet rs fs      the Vec fields of the relations rs are OVERWRITTEN: their rows become exactly fs (other relations
                     untouched).  The index fields are not touched (the caller has no access to them): they still
                     describe the old rows.
     HTimeout n      p.run_timeout(..) whose n-th deadline check finds the timeout expired (fire_at n)

   The interrupted call (ascent_codegen.rs compile_mir_scc + `__check_return_conditions!()`): an SCC moves index fields out
   of the program value (`std::mem::take`) into locals and puts them back only at its end; `return false` sits inside, so
   the fields TAKEN by the SCC that was running are left `Default` (empty) while every other index field keeps its content:

     dynamic relation of the SCC       every index field of the relation   (ascent_mir.rs: dynamic_relations[rel] = all its indices)
     body-only relation of the SCC     exactly the index fields some clause / aggregate of the SCC's rules reads
                                       (body_only_relations[rel]); e.g. `edge_indices_0` is taken and left empty while the
                                       full index `edge_indices_0_1` of the same relation stays complete

   so after `false` the stored indices of ONE relation may disagree with each other and with the rows.  That is harmless
   exactly because the next run() / run_timeout() starts with update_indices, which rebuilds EVERY index field from the
   rows (IndexedHistoryProofs.v: run_plan_idx depends on the rows only).  No proofs in this file. *)
From Coq Require Import List ZArith Bool Arith.
From AV Require Import Engine.Core Engine.Sem Engine.Eval Engine.Timeout Engine.IndexedEval.
Import ListNotations.
Open Scope Z_scope.

(* ---------- which index fields an SCC moves out of the program value ---------- *)
Definition item_reads (r : rel) (cols : list nat) (p : pitem) : bool :=
  match p with
  | PClause r' _ _ idx _ => Nat.eqb r' r && cols_eqb idx cols
  | PAgg _ _ _ r' _ idx => Nat.eqb r' r && cols_eqb idx cols
  | _ => false
  end.
Definition taken (sc : pscc) (p : pidx) : bool :=
  is_dyn (s_dyn sc) (p_rel p) || existsb (fun v => existsb (item_reads (p_rel p) (p_cols p)) (v_items v)) (s_vars sc).
Definition clear_p (p : pidx) : pidx := {| p_rel := p_rel p; p_arity := p_arity p; p_cols := p_cols p; p_ents := [] |}.
(* the program value's index fields after `return false` inside SCC sc *)
Definition drop_taken (sc : pscc) (st : list pidx) : list pidx := map (fun p => if taken sc p then clear_p p else p) st.

(* ---------- run_timeout with per-index state ---------- *)
Inductive ires :=
| IDone (st : istate) (k : nat)      (* SCC finished; k deadline readings so far *)
| IOut (st : istate)                 (* `return false`: the program value as the caller finds it *)
| IFuel.

Section ITimeout.
Variable I : interp.
Variable swap_oracle : list tuple -> list tuple -> bool.
Variable deadline : nat -> bool.

Fixpoint scc_loop_it (fuel : nat) (sc : pscc) (store : list lidx) (R : list fact) (k : nat)
  : option (sum (list lidx * list fact * nat) (list fact)) :=
  match fuel with
  | O => None
  | S n => let '(store1, R1, ch) := scc_iteration_i I swap_oracle no_faults sc store R in
           let store2 := map (merge_l (s_dyn sc)) store1 in
           if ch then (if deadline k then Some (inr R1) else scc_loop_it n sc store2 R1 (S k))
           else Some (inl (store2, R1, k))               (* if !changed {break;} comes before the check *)
  end.

Definition run_scc_it (fuel : nat) (sc : pscc) (st : istate) (k : nat) : ires :=
  let store0 := map (enter_scc (s_dyn sc)) (istored st) in
  if s_loop sc then
    match scc_loop_it fuel sc store0 (irows st) k with
    | Some (inl (store, R, k')) => IDone {| irows := R; istored := map leave_scc store |} k'
    | Some (inr R) => IOut {| irows := R; istored := drop_taken sc (istored st) |}
    | None => IFuel
    end
  else
    let '(store1, R, _) := scc_iteration_i I swap_oracle no_faults sc store0 (irows st) in
    if deadline k then IOut {| irows := R; istored := drop_taken sc (istored st) |}
    else IDone {| irows := R; istored := map leave_scc (map (merge_l (s_dyn sc)) (map (merge_l (s_dyn sc)) store1)) |} (S k).

Fixpoint run_sccs_it (fuel : nat) (pl : plan) (st : istate) (k : nat) : option (bool * istate) :=
  match pl with
  | [] => Some (true, st)
  | sc :: pl' => match run_scc_it fuel sc st k with
                 | IDone st' k' => run_sccs_it fuel pl' st' k'
                 | IOut st' => Some (false, st')
                 | IFuel => None
                 end
  end.

(* run_timeout(..): (returned bool, program value afterwards) *)
Definition run_timeout_idx (fuel : nat) (pl : plan) (st : istate) : option (bool * istate) :=
  run_sccs_it fuel pl (update_indices_i no_faults st) 0.
End ITimeout.

(* ---------- what the caller does between calls ---------- *)
Definition in_rels (rs : list rel) (f : fact) : bool := existsb (Nat.eqb (fst f)) rs.
Definition set_rels_i (rs : list rel) (fs : list fact) (st : istate) : istate :=
  {| irows := filter (fun f => negb (in_rels rs f)) (irows st) ++ fs; istored := istored st |}.

Inductive hstep := HRun | HPush (fs : list fact) | HSet (rs : list rel) (fs : list fact) | HTimeout (n : nat).

(* snapshots (returned flag, rows, stored index fields) after every run() / run_timeout() of the history *)
Fixpoint run_history_idx (I : interp) (swap : list tuple -> list tuple -> bool) (fuel : nat) (pl : plan)
         (steps : list hstep) (st : istate) : option (list (bool * list fact * list (rel * list nat * ients))) :=
  match steps with
  | [] => Some []
  | HPush fs :: rest => run_history_idx I swap fuel pl rest (push_facts_i fs st)
  | HSet rs fs :: rest => run_history_idx I swap fuel pl rest (set_rels_i rs fs st)
  | HRun :: rest =>
      match run_plan_idx I swap fuel pl st with
      | Some st' => option_map (cons (true, irows st', dump_stored st')) (run_history_idx I swap fuel pl rest st')
      | None => None
      end
  | HTimeout n :: rest =>
      match run_timeout_idx I swap (fire_at n) fuel pl st with
      | Some (b, st') => option_map (cons (b, irows st', dump_stored st')) (run_history_idx I swap fuel pl rest st')
      | None => None
      end
  end.

(* ---------- the excluded code change: update_indices that TRUSTS the stored indices of a relation ----------
   "rebuild the indices of a relation only if `trust` says they are stale".  The instance [trust_full_len] is the
   count comparison `rel.len() == rel_indices_<all columns>.len()` (equal counts = untouched).  Used by the _refuted
   examples only. *)
Definition update_indices_trusting (trust : list fact -> list pidx -> rel -> bool) (st : istate) : istate :=
  {| irows := irows st;
     istored := map (fun p => if trust (irows st) (istored st) (p_rel p) then p
                              else {| p_rel := p_rel p; p_arity := p_arity p; p_cols := p_cols p;
                                      p_ents := build_index (p_arity p) (p_cols p) (db_of (irows st) (p_rel p)) |})
                    (istored st) |}.
Definition trust_full_len (R : list fact) (st : list pidx) (r : rel) : bool :=
  match find (fun p => Nat.eqb (p_rel p) r && is_full (p_arity p) (p_cols p)) st with
  | Some p => Nat.eqb (length (db_of R r)) (length (p_ents p))
  | None => false
  end.
Definition run_plan_trusting (trust : list fact -> list pidx -> rel -> bool) (I : interp) (swap : list tuple -> list tuple -> bool)
           (fuel : nat) (pl : plan) (st : istate) : option istate :=
  run_sccs_i I swap no_faults fuel pl (update_indices_trusting trust st).
