(* C05 over a program value in ANY state: histories of run() / run_timeout(..) / arbitrary mutations of the
   relation fields by the caller (push, replace a relation's vector, truncate, reorder ...).

   The engine state (Eval.v) is the rows PLUS the contents of the stored indices.  A caller mutation changes the
   rows only: the stored indices stay as the last call left them - complete after a finished run(), EMPTY for the
   relations of the SCC in which run_timeout returned false (Timeout.v: TOut), stale in every case.  The next call
   starts with update_indices, which resets every index and indexes all rows again; hence (hist_rows_only) nothing a
   call computes depends on the stored indices it finds, and (hist_added_once / hist_rows_are_a_set) EVERY call of
   EVERY history appends only tuples that were absent, each once, and keeps the rows it found in place. *)
From Coq Require Import List ZArith Bool Arith.
From AV Require Import Engine.Core Engine.Sem Engine.Eval Engine.Validate Engine.Naive Engine.Interface Engine.Strat.
From AV Require Import Engine.InterfaceAgg Engine.EvalSpecAgg Engine.Main Engine.Timeout Engine.InterfaceTimeout Engine.TimeoutProofs.
From AV Require Import Engine.MainTimeout Engine.TimeoutProofsAgg.
Import ListNotations.

Inductive hstep :=
| HRun                                   (* p.run() *)
| HTimeout (deadline : nat -> bool)      (* p.run_timeout(..) under the clock oracle [deadline] *)
| HMut (g : list fact -> list fact).     (* the caller changes the relation fields *)

Definition mut_rows (g : list fact -> list fact) (st : state) : state := {| rows := g (rows st); stored := stored st |}.

(* the mutations the tie performs on the real program value *)
Definition is_rel (r : rel) (f : fact) : bool := Nat.eqb (fst f) r.
Definition m_set (F : list fact) : list fact -> list fact := fun _ => F.                  (* fresh program value with these rows *)
Definition m_push (fs : list fact) : list fact -> list fact := fun F => F ++ fs.
Definition m_assign (r : rel) (ts : list tuple) : list fact -> list fact :=                (* p.r = vec![..] *)
  fun F => filter (fun f => negb (is_rel r f)) F ++ map (fun t => (r, t)) ts.
Definition m_keep (r : rel) (n : nat) : list fact -> list fact :=                          (* p.r.truncate(n) *)
  fun F => filter (fun f => negb (is_rel r f)) F ++ firstn n (filter (is_rel r) F).
Definition m_rev (r : rel) : list fact -> list fact :=                                     (* p.r.reverse() *)
  fun F => filter (fun f => negb (is_rel r f)) F ++ rev (filter (is_rel r) F).

(* one call: returned flag and program value afterwards *)
Definition call (I : interp) (swap : list tuple -> list tuple -> bool) (fuel : nat) (pl : plan)
           (d : option (nat -> bool)) (st : state) : option (bool * state) :=
  match d with
  | None => option_map (fun st' => (true, st')) (run_plan I swap fuel pl st)
  | Some deadline => run_timeout I swap deadline fuel pl st
  end.

(* observations of a history: for every call (rows found, returned flag, rows left) *)
Fixpoint hist_obs (I : interp) (swap : list tuple -> list tuple -> bool) (fuel : nat) (pl : plan)
         (steps : list hstep) (st : state) : option (list (list fact * bool * list fact)) :=
  match steps with
  | [] => Some []
  | HMut g :: rest => hist_obs I swap fuel pl rest (mut_rows g st)
  | HRun :: rest =>
      match call I swap fuel pl None st with
      | Some (b, st') => option_map (cons (rows st, b, rows st')) (hist_obs I swap fuel pl rest st')
      | None => None
      end
  | HTimeout d :: rest =>
      match call I swap fuel pl (Some d) st with
      | Some (b, st') => option_map (cons (rows st, b, rows st')) (hist_obs I swap fuel pl rest st')
      | None => None
      end
  end.

(* what the tie evaluates: flag and rows after every call *)
Definition hist_script (I : interp) (swap : list tuple -> list tuple -> bool) (fuel : nat) (pl : plan)
           (steps : list hstep) : option (list (bool * list fact)) :=
  option_map (map (fun o => (snd (fst o), snd o))) (hist_obs I swap fuel pl steps (init_state [])).

(* the C05 conclusion for one call *)
Definition appended_once (pre post : list fact) : Prop :=
  exists added, post = pre ++ added /\ NoDup added /\ (forall f, In f added -> ~ In f pre).

(* ---------- a call depends on the rows only, never on the stored indices it finds ---------- *)
Lemma call_rows_only I swap fuel pl d st1 st2 : rows st1 = rows st2 -> call I swap fuel pl d st1 = call I swap fuel pl d st2.
Proof.
  intros H. destruct d as [deadline|]; unfold call, run_timeout, run_plan, update_indices; rewrite H; reflexivity.
Qed.

Theorem hist_rows_only I swap fuel pl : forall steps st1 st2, rows st1 = rows st2 ->
  hist_obs I swap fuel pl steps st1 = hist_obs I swap fuel pl steps st2.
Proof.
  induction steps as [|s rest IH]; intros st1 st2 H; [reflexivity|].
  destruct s as [|d|g]; cbn [hist_obs].
  - rewrite (call_rows_only I swap fuel pl None st1 st2 H), H. reflexivity.
  - rewrite (call_rows_only I swap fuel pl (Some d) st1 st2 H), H. reflexivity.
  - apply IH. unfold mut_rows. cbn [rows]. rewrite H. reflexivity.
Qed.

(* ---------- one call from any state ---------- *)
Section OneCall.
Variables (I : interp) (swap : list tuple -> list tuple -> bool).
Variables (arities : list (rel * nat)) (P : list rule) (pl : plan).
Hypothesis Har : arities_functional arities.
Hypothesis Hval : validate arities P pl = true.

Lemma call_as_timeout fuel d st b st' : call I swap fuel pl d st = Some (b, st') ->
  exists deadline, run_timeout I swap deadline fuel pl (init_state (rows st)) = Some (b, st').
Proof.
  destruct d as [deadline|]; cbn [call]; intros H.
  - exists deadline. exact H.
  - exists (fun _ => false). rewrite (run_timeout_never I swap fuel pl (init_state (rows st))).
    change (run_plan I swap fuel pl (init_state (rows st))) with (run_plan I swap fuel pl st). exact H.
Qed.

Lemma call_added_once fuel d st b st' : no_agg P = true -> wf_facts arities (rows st) = true ->
  call I swap fuel pl d st = Some (b, st') ->
  appended_once (rows st) (rows st') /\ wf_facts arities (rows st') = true.
Proof.
  intros Hna Hwf H. destruct (call_as_timeout fuel d st b st' H) as [deadline Ht].
  destruct (run_timeout_correct_full I swap deadline arities P pl fuel (rows st) b st' Har Hwf Hna Hval Ht) as (_ & Hadd & Hwf' & _).
  split; [exact Hadd|exact Hwf'].
Qed.

Lemma call_rows_set fuel d st b st' : agg_perm_invariant I -> wf_facts arities (rows st) = true -> NoDup (rows st) ->
  call I swap fuel pl d st = Some (b, st') ->
  (exists added, rows st' = rows st ++ added) /\ NoDup (rows st') /\ wf_facts arities (rows st') = true.
Proof.
  intros Hperm Hwf Hnd H. destruct (call_as_timeout fuel d st b st' H) as [deadline Ht].
  destruct (run_timeout_strat I swap (eval_variant_spec_agg I swap) deadline arities P pl fuel (rows st) b st' Har Hwf Hnd Hperm Hval Ht)
    as (Hadd & Hnd' & Hwf' & _).
  split; [exact Hadd|split; [exact Hnd'|exact Hwf']].
Qed.
End OneCall.

(* ---------- whole histories ---------- *)
(* every mutation of the history maps rows that are [ok] to rows that are [ok] *)
Definition muts_ok (ok : list fact -> Prop) (steps : list hstep) : Prop :=
  forall g, In (HMut g) steps -> forall F, ok F -> ok (g F).

(* programs without aggregation / negation: the caller may put duplicates in; every call appends absent tuples, once *)
Theorem hist_added_once I swap arities P pl fuel :
  arities_functional arities -> no_agg P = true -> validate arities P pl = true ->
  forall steps st obs,
    wf_facts arities (rows st) = true ->
    muts_ok (fun F => wf_facts arities F = true) steps ->
    hist_obs I swap fuel pl steps st = Some obs ->
    Forall (fun o => appended_once (fst (fst o)) (snd o)) obs.
Proof.
  intros Har Hna Hval. induction steps as [|s rest IH]; intros st obs Hwf Hm H.
  - injection H as <-. constructor.
  - assert (muts_ok (fun F => wf_facts arities F = true) rest) as Hm' by (intros g Hg; apply Hm; right; exact Hg).
    destruct s as [|d|g]; cbn [hist_obs] in H.
    + destruct (call I swap fuel pl None st) as [[b st']|] eqn:E; [|discriminate].
      destruct (call_added_once I swap arities P pl Har Hval fuel None st b st' Hna Hwf E) as [Ha Hwf'].
      destruct (hist_obs I swap fuel pl rest st') as [obs'|] eqn:E'; [|discriminate]. injection H as <-.
      constructor; [exact Ha|exact (IH st' obs' Hwf' Hm' E')].
    + destruct (call I swap fuel pl (Some d) st) as [[b st']|] eqn:E; [|discriminate].
      destruct (call_added_once I swap arities P pl Har Hval fuel (Some d) st b st' Hna Hwf E) as [Ha Hwf'].
      destruct (hist_obs I swap fuel pl rest st') as [obs'|] eqn:E'; [|discriminate]. injection H as <-.
      constructor; [exact Ha|exact (IH st' obs' Hwf' Hm' E')].
    + apply (IH (mut_rows g st) obs); [|exact Hm'|exact H].
      unfold mut_rows. cbn [rows]. apply (Hm g); [left; reflexivity|exact Hwf].
Qed.

(* any program the validator accepts, aggregation / negation included: as long as the caller puts no duplicate in,
   the rows are duplicate free after every call, and every call keeps the rows it found as a prefix *)
Theorem hist_rows_are_a_set I swap arities P pl fuel :
  arities_functional arities -> agg_perm_invariant I -> validate arities P pl = true ->
  forall steps st obs,
    wf_facts arities (rows st) = true -> NoDup (rows st) ->
    muts_ok (fun F => wf_facts arities F = true /\ NoDup F) steps ->
    hist_obs I swap fuel pl steps st = Some obs ->
    Forall (fun o => NoDup (snd o) /\ exists added, snd o = fst (fst o) ++ added) obs.
Proof.
  intros Har Hperm Hval. induction steps as [|s rest IH]; intros st obs Hwf Hnd Hm H.
  - injection H as <-. constructor.
  - assert (muts_ok (fun F => wf_facts arities F = true /\ NoDup F) rest) as Hm' by (intros g Hg; apply Hm; right; exact Hg).
    destruct s as [|d|g]; cbn [hist_obs] in H.
    + destruct (call I swap fuel pl None st) as [[b st']|] eqn:E; [|discriminate].
      destruct (call_rows_set I swap arities P pl Har Hval fuel None st b st' Hperm Hwf Hnd E) as (Ha & Hnd' & Hwf').
      destruct (hist_obs I swap fuel pl rest st') as [obs'|] eqn:E'; [|discriminate]. injection H as <-.
      constructor; [split; [exact Hnd'|exact Ha]|exact (IH st' obs' Hwf' Hnd' Hm' E')].
    + destruct (call I swap fuel pl (Some d) st) as [[b st']|] eqn:E; [|discriminate].
      destruct (call_rows_set I swap arities P pl Har Hval fuel (Some d) st b st' Hperm Hwf Hnd E) as (Ha & Hnd' & Hwf').
      destruct (hist_obs I swap fuel pl rest st') as [obs'|] eqn:E'; [|discriminate]. injection H as <-.
      constructor; [split; [exact Hnd'|exact Ha]|exact (IH st' obs' Hwf' Hnd' Hm' E')].
    + destruct (Hm g (or_introl eq_refl) (rows st) (conj Hwf Hnd)) as [Hw Hn].
      apply (IH (mut_rows g st) obs); [exact Hw|exact Hn|exact Hm'|exact H].
Qed.
