(* Concrete index types under the per-index engine, part 1 (lemmas only; model in ConcreteEval.v):
   list facts up to Permutation, the tuple encoding, the row rebuilt from key and value, the algebra of one abstract index
   (IndexedEval.ients) up to Permutation, and the relation between one C19 model value and one abstract index:

     Rh a c m es   the hash index m (IndexModel.hvec, reachable: hv_wf) abstracts (IndexRefine.hv_abs) to the multimap
                   { (enc key, enc other-columns) | (key, row) in es }, up to Permutation
     Rf m es       the full index m (IndexModel.fmap) has distinct keys, unit values, and its key set is { enc key | (key, _) in es }

   and every read / write of ConcreteEval.v on related values gives related results, by the commuting lemmas of
   Index/IndexRefine.v (hv_insert_abs, hv_lookup_abs, hv_iter_all_abs, hv_merge_spec, fm_contains_In, fm_insert_keys,
   fm_move_spec, ...), for every order oracle sh that permutes and every encoding with a left inverse. *)
From Coq Require Import List ZArith Bool Arith Lia Permutation FinFun.
From AV Require Import Index.MultiMap.
From AV Require Import Index.IndexModel.
From AV Require Import Index.IndexRefine.
From AV Require Import Engine.Core Engine.Sem Engine.Eval Engine.NaiveLemmas Engine.IndexedEval Engine.IndexedBase Engine.ConcreteEval.
Import ListNotations.
Open Scope Z_scope.

(* ---------- lists up to Permutation ---------- *)
Lemma flat_map_perm {A B} (f g : A -> list B) l l' :
  Permutation l l' -> (forall x, Permutation (f x) (g x)) -> Permutation (flat_map f l) (flat_map g l').
Proof.
  intros P H. transitivity (flat_map f l'); [apply Permutation_flat_map; exact P|].
  clear P l. induction l' as [|x l IH]; [constructor|]. cbn [flat_map]. apply Permutation_app; [apply H|exact IH].
Qed.

Lemma filter_perm {A} (p : A -> bool) l l' : Permutation l l' -> Permutation (filter p l) (filter p l').
Proof.
  intros P. induction P as [|x a b P IH|x y a|a b c P1 IH1 P2 IH2]; cbn [filter].
  - constructor.
  - destruct (p x); [now constructor|assumption].
  - destruct (p x), (p y); try reflexivity. apply perm_swap.
  - now transitivity (filter p b).
Qed.

Lemma existsb_perm {A} (p : A -> bool) l l' : Permutation l l' -> existsb p l = existsb p l'.
Proof.
  intros P. induction P as [|x a b P IH|x y a|a b c P1 IH1 P2 IH2]; cbn [existsb].
  - reflexivity.
  - now rewrite IH.
  - destruct (p x), (p y); reflexivity.
  - now rewrite IH1.
Qed.

Lemma perm_nil_iff {A} (l l' : list A) : Permutation l l' -> (l = [] <-> l' = []).
Proof.
  intros P. split; intros ->; [apply Permutation_nil; exact P|apply Permutation_nil; symmetry; exact P].
Qed.

Lemma NoDup_map_fst_inv {A B} (l : list (A * B)) : NoDup (map fst l) -> NoDup l.
Proof. apply NoDup_map_inv. Qed.

Lemma NoDup_fst_eq {A B} (l : list (A * B)) k v v' : NoDup (map fst l) -> In (k, v) l -> In (k, v') l -> v = v'.
Proof.
  induction l as [|[k0 v0] l IH]; intros N H1 H2; [destruct H1|]. cbn [map fst] in N. inversion N as [|? ? Hk N']; subst.
  assert (F : forall w, In (k0, w) l -> False).
  { intros w Hw. apply Hk. apply in_map_iff. exists (k0, w). split; [reflexivity|exact Hw]. }
  destruct H1 as [E1|H1], H2 as [E2|H2].
  - congruence.
  - inversion E1; subst. exfalso. exact (F _ H2).
  - inversion E2; subst. exfalso. exact (F _ H1).
  - now apply IH.
Qed.

Lemma find_Forall2 {A B} (R : A -> B -> Prop) (p : A -> bool) (q : B -> bool) la lb :
  Forall2 R la lb -> (forall a b, R a b -> p a = q b) ->
  match find p la, find q lb with Some a, Some b => R a b /\ In a la /\ In b lb | None, None => True | _, _ => False end.
Proof.
  intros F H. induction F as [|a b la lb Hab F IH]; cbn [find]; [exact Logic.I|]. rewrite (H a b Hab). destruct (q b).
  - split; [exact Hab|]. split; left; reflexivity.
  - destruct (find p la), (find q lb); try exact IH. destruct IH as [H1 [H2 H3]]. split; [exact H1|]. split; right; assumption.
Qed.

Lemma Forall2_map_both {A B} (R : A -> B -> Prop) (f : A -> A) (g : B -> B) la lb :
  Forall2 R la lb -> (forall a b, R a b -> R (f a) (g b)) -> Forall2 R (map f la) (map g lb).
Proof. intros F H. induction F; cbn [map]; constructor; auto. Qed.

Lemma Forall2_map_gen {A B C D} (R : A -> B -> Prop) (Q : C -> D -> Prop) (f : A -> C) (g : B -> D) la lb :
  Forall2 R la lb -> (forall a b, In a la -> In b lb -> R a b -> Q (f a) (g b)) -> Forall2 Q (map f la) (map g lb).
Proof.
  intros F. induction F as [|a b la lb Hab F IH]; intros H; cbn [map]; constructor.
  - apply H; [left; reflexivity|left; reflexivity|exact Hab].
  - apply IH. intros a' b' Ha Hb. apply H; right; assumption.
Qed.

Lemma Forall2_In_l {A B} (R : A -> B -> Prop) la lb a : Forall2 R la lb -> In a la -> exists b, In b lb /\ R a b.
Proof.
  intros F. induction F as [|a0 b0 la lb Hab F IH]; intros H; [destruct H|]. destruct H as [<-|H].
  - exists b0. split; [left; reflexivity|exact Hab].
  - destruct (IH H) as [b [Hb Rb]]. exists b. split; [right; exact Hb|exact Rb].
Qed.

(* a fold whose steps commute up to an equivalence does not depend on the order of the list, up to that equivalence *)
Section FoldPerm.
  Variables (A X : Type) (eqv : A -> A -> Prop) (step : A -> X -> A).
  Hypothesis eqv_refl : forall a, eqv a a.
  Hypothesis eqv_trans : forall a b c, eqv a b -> eqv b c -> eqv a c.
  Hypothesis step_resp : forall a a' x, eqv a a' -> eqv (step a x) (step a' x).
  Hypothesis step_comm : forall a x y, eqv (step (step a x) y) (step (step a y) x).

  Lemma fold_resp : forall l a a', eqv a a' -> eqv (fold_left step l a) (fold_left step l a').
  Proof. induction l as [|x l IH]; intros a a' H; [exact H|]. cbn [fold_left]. apply IH. now apply step_resp. Qed.

  Lemma fold_perm : forall l l', Permutation l l' -> forall a, eqv (fold_left step l a) (fold_left step l' a).
  Proof.
    intros l l' P. induction P as [|x l l' P IH|x y l|l l' l'' P1 IH1 P2 IH2]; intros a; cbn [fold_left].
    - apply eqv_refl.
    - apply IH.
    - apply fold_resp. apply step_comm.
    - eapply eqv_trans; [apply IH1|apply IH2].
  Qed.
End FoldPerm.

(* ---------- the example encoding has a left inverse ---------- *)
Lemma n2z_z2n : forall x, n2z (z2n x) = x.
Proof.
  intros x. unfold n2z, z2n. destruct (x <? 0) eqn:E.
  - apply Z.ltb_lt in E. rewrite Z2Nat.id by lia. replace (- 2 * x - 1) with (1 + 2 * (- x - 1)) by lia.
    rewrite Z.even_add_mul_2. cbn [Z.even negb]. replace (1 + 2 * (- x - 1) + 1) with ((- x) * 2) by lia.
    rewrite Z.div_mul by lia. lia.
  - apply Z.ltb_ge in E. rewrite Z2Nat.id by lia. replace (2 * x) with (0 + 2 * x) by lia.
    rewrite Z.even_add_mul_2. cbn [Z.even]. replace (0 + 2 * x) with (x * 2) by lia. apply Z.div_mul. lia.
Qed.

Lemma dec_shift : forall n p z, dec_pos (shiftp n p) z = dec_pos p (n + z)%nat.
Proof.
  induction n as [|n IH]; intros p z; [reflexivity|]. cbn [shiftp dec_pos]. rewrite IH. f_equal. lia.
Qed.

Lemma enc_list_zero : forall l, enc_list l = 0 -> l = [].
Proof. intros [|x r] H; [reflexivity|discriminate]. Qed.

Lemma enc_list_nonneg : forall l, 0 <= enc_list l.
Proof. intros [|x r]; cbn [enc_list]; lia. Qed.

Lemma dec_enc_list : forall l, dec_list (enc_list l) = l.
Proof.
  induction l as [|x r IH]; [reflexivity|]. cbn [enc_list dec_list]. rewrite dec_shift, Nat.add_0_r.
  destruct (enc_list r) as [|q|q] eqn:E.
  - cbn [dec_pos]. rewrite n2z_z2n. apply enc_list_zero in E. now subst.
  - cbn [dec_pos]. rewrite n2z_z2n. f_equal. exact IH.
  - pose proof (enc_list_nonneg r). lia.
Qed.

(* ---------- the row rebuilt from key and value ---------- *)
Lemma pos_of_Some : forall i l j, pos_of i l = Some j -> (j < length l)%nat /\ nth j l O = i.
Proof.
  intros i. induction l as [|x l IH]; intros j H; cbn [pos_of] in H; [discriminate|].
  destruct (Nat.eqb x i) eqn:E.
  - injection H as <-. apply Nat.eqb_eq in E. cbn. split; [lia|exact E].
  - destruct (pos_of i l) as [j'|]; [|discriminate]. injection H as <-. destruct (IH j' eq_refl) as [H1 H2].
    cbn [length nth]. split; [lia|exact H2].
Qed.

Lemma pos_of_None : forall i l, pos_of i l = None -> ~ In i l.
Proof.
  intros i. induction l as [|x l IH]; intros H; cbn [pos_of] in H; [intros []|].
  destruct (Nat.eqb x i) eqn:E; [discriminate|]. destruct (pos_of i l); [discriminate|].
  intros [->|Hin]; [rewrite Nat.eqb_refl in E; discriminate|exact (IH eq_refl Hin)].
Qed.

Lemma nth_proj : forall l t j, (j < length l)%nat -> nth j (proj l t) 0 = nth (nth j l O) t 0.
Proof.
  intros l t j H. unfold proj. rewrite (nth_indep _ 0 (nth O t 0)) by (rewrite map_length; exact H).
  exact (map_nth (fun i => nth i t 0) l O j).
Qed.

Lemma in_ocols : forall a c i, (i < a)%nat -> ~ In i c -> In i (ocols a c).
Proof.
  intros a c i H N. unfold ocols. apply filter_In. split; [apply in_seq; lia|]. apply negb_true_iff.
  destruct (existsb (Nat.eqb i) c) eqn:E; [|reflexivity]. apply existsb_exists in E as [x [Hx E]].
  apply Nat.eqb_eq in E. subst x. contradiction.
Qed.

Section Enc.
Variable enc : list Z -> Z.
Variable dec : Z -> list Z.
Hypothesis dec_enc : forall l, dec (enc l) = l.

Lemma enc_inj : forall a b, enc a = enc b -> a = b.
Proof. intros a b H. rewrite <- (dec_enc a), <- (dec_enc b), H. reflexivity. Qed.

Lemma enc_eqb : forall a b, (enc a =? enc b) = zlist_eqb a b.
Proof.
  intros a b. destruct (zlist_eqb a b) eqn:E.
  - apply zlist_eqb_eq in E. subst. apply Z.eqb_refl.
  - apply Z.eqb_neq. intros H. apply enc_inj in H. subst. rewrite zlist_eqb_refl in E. discriminate.
Qed.

Lemma rebuild_ok : forall a c t, length t = a -> rebuild dec a c (ckey enc c t) (cval enc a c t) = t.
Proof.
  intros a c t Hl. unfold rebuild, ckey, cval. rewrite !dec_enc.
  transitivity (map (fun i => nth i t 0) (seq 0 a)); [|exact (proj_seq t a Hl)].
  apply map_ext_in. intros i Hi. apply in_seq in Hi. destruct (pos_of i c) as [j|] eqn:E.
  - apply pos_of_Some in E as [H1 H2]. rewrite nth_proj by exact H1. now rewrite H2.
  - apply pos_of_None in E. destruct (pos_of i (ocols a c)) as [j|] eqn:E2.
    + apply pos_of_Some in E2 as [H1 H2]. rewrite nth_proj by exact H1. now rewrite H2.
    + apply pos_of_None in E2. exfalso. apply E2. apply in_ocols; [lia|exact E].
Qed.

(* ---------- one abstract index up to Permutation ---------- *)
Lemma ix_has_perm k a b : Permutation a b -> ix_has k a = ix_has k b.
Proof. apply existsb_perm. Qed.
Lemma ix_get_perm k a b : Permutation a b -> Permutation (ix_get k a) (ix_get k b).
Proof. intros P. unfold ix_get. apply Permutation_map, filter_perm, P. Qed.
Lemma ix_all_perm a b : Permutation a b -> Permutation (ix_all a) (ix_all b).
Proof. intros P. unfold ix_all. now apply Permutation_map. Qed.
Lemma ix_empty_perm a b : Permutation a b -> ix_empty a = ix_empty b.
Proof.
  intros P. destruct a as [|x a], b as [|y b]; try reflexivity.
  - apply Permutation_nil in P. discriminate.
  - symmetry in P. apply Permutation_nil in P. discriminate.
Qed.
Lemma ix_get_app k a b : ix_get k (a ++ b) = ix_get k a ++ ix_get k b.
Proof. unfold ix_get. now rewrite filter_app, map_app. Qed.
Lemma ix_has_app k a b : ix_has k (a ++ b) = ix_has k a || ix_has k b.
Proof. unfold ix_has. apply existsb_app. Qed.
Lemma ix_has_In k es : ix_has k es = true <-> In k (map fst es).
Proof.
  unfold ix_has. rewrite existsb_exists, in_map_iff. split.
  - intros [e [H E]]. unfold key_eqb in E. apply zlist_eqb_eq in E. exists e. auto.
  - intros [e [E H]]. exists e. split; [exact H|]. unfold key_eqb. rewrite E. apply zlist_eqb_refl.
Qed.

Lemma ix_insert_resp full k t a b : Permutation a b -> Permutation (ix_insert full k t a) (ix_insert full k t b).
Proof.
  intros P. unfold ix_insert. destruct full; [|now apply Permutation_app_tail].
  rewrite (ix_has_perm k a b P). destruct (ix_has k b); [exact P|now apply Permutation_app_tail].
Qed.

Lemma ix_insert_comm full kx tx ky ty es :
  Permutation (ix_insert full ky ty (ix_insert full kx tx es)) (ix_insert full kx tx (ix_insert full ky ty es)).
Proof.
  unfold ix_insert. destruct full.
  2:{ rewrite <- !app_assoc. apply Permutation_app_head. apply perm_swap. }
  destruct (ix_has kx es) eqn:Ex, (ix_has ky es) eqn:Ey; rewrite ?Ex, ?Ey; try reflexivity.
  - rewrite ix_has_app, Ex. reflexivity.
  - rewrite ix_has_app, Ey. reflexivity.
  - rewrite !ix_has_app, Ex, Ey. cbn [ix_has existsb orb]. unfold key_eqb. cbn [fst].
    destruct (zlist_eqb kx ky) eqn:E.
    + apply zlist_eqb_eq in E. subst ky. rewrite zlist_eqb_refl. reflexivity.
    + assert (E' : zlist_eqb ky kx = false).
      { destruct (zlist_eqb ky kx) eqn:E2; [|reflexivity]. apply zlist_eqb_eq in E2. subst. rewrite zlist_eqb_refl in E. discriminate. }
      rewrite E'. cbn [orb]. rewrite <- !app_assoc. apply Permutation_app_head. apply perm_swap.
Qed.

Lemma build_from_perm a c ts ts' es es' : Permutation ts ts' -> Permutation es es' ->
  Permutation (build_from a c ts es) (build_from a c ts' es').
Proof.
  intros P Q. unfold build_from.
  transitivity (fold_left (fun es t => ix_insert (is_full a c) (proj c t) t es) ts es').
  - apply (fold_resp _ _ (@Permutation _) (fun es t => ix_insert (is_full a c) (proj c t) t es)); [|exact Q].
    intros x y t H. now apply ix_insert_resp.
  - apply (fold_perm _ _ (@Permutation _) (fun es t => ix_insert (is_full a c) (proj c t) t es)); try exact P.
    + intros x. reflexivity.
    + intros x y z. apply Permutation_trans.
    + intros x y t H. now apply ix_insert_resp.
    + intros x t u. apply ix_insert_comm.
Qed.

(* the full index as a set of keys *)
Lemma ix_insert_full_keys k t es x : In x (map fst (ix_insert true k t es)) <-> x = k \/ In x (map fst es).
Proof.
  unfold ix_insert. destruct (ix_has k es) eqn:E.
  - apply ix_has_In in E. split; [auto|]. intros [->|H]; assumption.
  - rewrite map_app, in_app_iff. cbn [map fst In]. intuition.
Qed.
Lemma ix_insert_full_nodup k t es : NoDup (map fst es) -> NoDup (map fst (ix_insert true k t es)).
Proof.
  intros N. unfold ix_insert. destruct (ix_has k es) eqn:E; [exact N|]. rewrite map_app. cbn [map fst].
  apply NoDup_app_intro; [exact N|constructor; [intros []|constructor]|]. intros x Hx [<-|[]].
  apply ix_has_In in Hx. congruence.
Qed.
Lemma ix_insert_full_dup k t es : Forall (fun e => fst e = snd e) es -> Forall (fun e => fst e = snd e) (ix_insert true k t es).
Proof.
  intros F. unfold ix_insert. destruct (ix_has k es); [exact F|]. apply Forall_app. split; [exact F|]. constructor; [reflexivity|constructor].
Qed.
Lemma ix_move_full_keys from : forall to x, In x (map fst (ix_move true from to)) <-> In x (map fst to) \/ In x (map fst from).
Proof.
  unfold ix_move. induction from as [|e from IH]; intros to x; cbn [fold_left map In]; [tauto|].
  rewrite IH, ix_insert_full_keys. intuition.
Qed.
Lemma ix_move_full_nodup from : forall to, NoDup (map fst to) -> NoDup (map fst (ix_move true from to)).
Proof.
  unfold ix_move. induction from as [|e from IH]; intros to N; cbn [fold_left]; [exact N|]. apply IH. now apply ix_insert_full_nodup.
Qed.
Lemma ix_move_full_dup from : forall to, Forall (fun e => fst e = snd e) to -> Forall (fun e => fst e = snd e) (ix_move true from to).
Proof.
  unfold ix_move. induction from as [|e from IH]; intros to F; cbn [fold_left]; [exact F|]. apply IH. now apply ix_insert_full_dup.
Qed.

(* ---------- entries of an abstract index of relation arity a, columns c ---------- *)
Definition ent_ok (a : nat) (c : list nat) (e : list Z * tuple) : Prop := fst e = proj c (snd e) /\ length (snd e) = a.
Definition g_h (a : nat) (c : list nat) (e : list Z * tuple) : Z * Z := (enc (fst e), cval enc a c (snd e)).

Definition Rh (a : nat) (c : list nat) (m : hvec) (es : ients) : Prop :=
  hv_wf m /\ Permutation (hv_abs m) (map (g_h a c) es).
Definition Rf (m : fmap) (es : ients) : Prop :=
  NoDup (fm_keys m) /\ (forall k v, In (k, v) m -> v = 0) /\ NoDup (map fst es)
  /\ (forall k, In k (fm_keys m) <-> In k (map enc (map fst es))).

Lemma Rh_nil a c : Rh a c [] [].
Proof. split; [split; constructor|constructor]. Qed.
Lemma Rf_nil : Rf [] [].
Proof. split; [constructor|]. split; [intros k v []|]. split; [constructor|]. intros k. tauto. Qed.

Lemma Rh_perm a c m es es' : Permutation es es' -> Rh a c m es -> Rh a c m es'.
Proof. intros P [W H]. split; [exact W|]. rewrite H. now apply Permutation_map. Qed.
Lemma Rf_perm m es es' : Permutation es es' -> Rf m es -> Rf m es'.
Proof.
  intros P [N [V [Ne K]]]. split; [exact N|]. split; [exact V|]. split.
  - eapply Permutation_NoDup; [apply Permutation_map; exact P|exact Ne].
  - intros k. rewrite K. split; apply Permutation_in; [|symmetry]; apply Permutation_map, Permutation_map, P.
Qed.

(* ---- hash index: reads *)
Section Oracle.
Variable sh : forall A : Type, list A -> list A.
Hypothesis sh_perm : forall A (l : list A), Permutation (sh A l) l.

Lemma lookup_g_h a c key es : mm_lookup (enc key) (map (g_h a c) es) = map (cval enc a c) (ix_get key es).
Proof.
  unfold mm_lookup, ix_get. induction es as [|e es IH]; [reflexivity|]. cbn [map filter]. unfold key_is at 1, key_eqb at 1, g_h at 1.
  cbn [fst]. rewrite enc_eqb. destruct (zlist_eqb (fst e) key); cbn [map snd]; rewrite IH; reflexivity.
Qed.

Lemma ix_get_key key es e : In e (filter (key_eqb key) es) -> fst e = key.
Proof. intros H. apply filter_In in H as [_ H]. unfold key_eqb in H. now apply zlist_eqb_eq in H. Qed.

Lemma Rh_lookup a c m es key : Rh a c m es -> Forall (ent_ok a c) es ->
  Permutation (map (rebuild dec a c (enc key)) (mm_lookup (enc key) (hv_abs m))) (ix_get key es).
Proof.
  intros [W H] F. rewrite (mm_lookup_perm _ _ _ H), lookup_g_h. rewrite map_map. unfold ix_get. rewrite map_map.
  rewrite <- (map_id (map snd _)) at 1. rewrite map_map.
  match goal with |- Permutation ?x ?y => assert (E : x = y); [|rewrite E; reflexivity] end.
  apply map_ext_in. intros e He. pose proof (ix_get_key key es e He) as Hk. apply filter_In in He as [He _].
  rewrite Forall_forall in F. destruct (F e He) as [H1 H2]. rewrite <- Hk, H1. fold (ckey enc c (snd e)).
  now apply rebuild_ok.
Qed.

Lemma Rh_get a c m es key : Rh a c m es -> Forall (ent_ok a c) es ->
  Permutation (map (rebuild dec a c (enc key)) (flat_opt (hv_get (enc key) m))) (ix_get key es).
Proof. intros R F. rewrite <- (hv_lookup_abs (enc key) m (proj1 (proj1 R))). now apply Rh_lookup. Qed.

Lemma Rh_get_comb a c t d es1 es2 key : Rh a c t es1 -> Rh a c d es2 -> Forall (ent_ok a c) es1 -> Forall (ent_ok a c) es2 ->
  Permutation (map (rebuild dec a c (enc key)) (flat_opt (comb_get (hv_get (enc key) t) (hv_get (enc key) d)))) (ix_get key (es1 ++ es2)).
Proof.
  intros R1 R2 F1 F2. rewrite ix_get_app.
  assert (E : flat_opt (comb_get (hv_get (enc key) t) (hv_get (enc key) d)) = flat_opt (hv_get (enc key) t) ++ flat_opt (hv_get (enc key) d)).
  { unfold comb_get. destruct (hv_get (enc key) t), (hv_get (enc key) d); reflexivity. }
  rewrite E, map_app. apply Permutation_app; now apply Rh_get.
Qed.

Lemma flat_all_abs a c l : flat_all dec a c false l = map (fun kv => rebuild dec a c (fst kv) (snd kv)) (hv_abs l).
Proof.
  unfold flat_all, hv_abs. induction l as [|[k vs] l IH]; [reflexivity|]. cbn [flat_map]. rewrite map_app, IH. f_equal.
  unfold ent. cbn [fst snd]. rewrite map_map. reflexivity.
Qed.

Lemma rebuild_g_h a c es : Forall (ent_ok a c) es ->
  map (fun kv => rebuild dec a c (fst kv) (snd kv)) (map (g_h a c) es) = ix_all es.
Proof.
  intros F. rewrite map_map. unfold ix_all. apply map_ext_in. intros e He. rewrite Forall_forall in F. destruct (F e He) as [H1 H2].
  unfold g_h. cbn [fst snd]. rewrite H1. now apply rebuild_ok.
Qed.

Lemma Rh_abs_all a c m es : Rh a c m es -> Forall (ent_ok a c) es ->
  Permutation (map (fun kv => rebuild dec a c (fst kv) (snd kv)) (hv_abs m)) (ix_all es).
Proof. intros [W H] F. rewrite <- (rebuild_g_h a c es F). now apply Permutation_map. Qed.

Lemma Rh_all a c m es : Rh a c m es -> Forall (ent_ok a c) es ->
  Permutation (flat_all dec a c false (hv_iter_all sh m)) (ix_all es).
Proof.
  intros R F. rewrite flat_all_abs. rewrite <- (Rh_abs_all a c m es R F). apply Permutation_map. apply (hv_iter_all_abs sh sh_perm).
Qed.

Lemma Rh_all_comb a c t d es1 es2 : Rh a c t es1 -> Rh a c d es2 -> Forall (ent_ok a c) es1 -> Forall (ent_ok a c) es2 ->
  Permutation (flat_all dec a c false (comb_iter_all (hv_iter_all sh t) (hv_iter_all sh d))) (ix_all (es1 ++ es2)).
Proof.
  intros R1 R2 F1 F2. unfold comb_iter_all, flat_all. rewrite flat_map_app. unfold ix_all. rewrite map_app.
  apply Permutation_app; [apply (Rh_all a c t es1 R1 F1)|apply (Rh_all a c d es2 R2 F2)].
Qed.

Lemma Rh_empty a c m es : Rh a c m es -> hv_is_empty m = ix_empty es.
Proof.
  intros [W H]. destruct (hv_is_empty m) eqn:E.
  - apply (hv_is_empty_spec m W) in E. rewrite E in H. apply Permutation_nil in H. destruct es; [reflexivity|discriminate].
  - destruct es as [|e es]; [|reflexivity]. cbn [map] in H. apply Permutation_sym, Permutation_nil in H.
    apply (hv_is_empty_spec m W) in H. congruence.
Qed.

(* ---- hash index: writes *)
Lemma Rh_insert a c m es t : Rh a c m es ->
  Rh a c (hv_insert (ckey enc c t) (cval enc a c t) m) (es ++ [(proj c t, t)]).
Proof.
  intros [W H]. split; [now apply hv_insert_wf|]. rewrite hv_insert_abs. unfold mm_insert. rewrite map_app. cbn [map].
  rewrite H. unfold g_h at 3. cbn [fst snd]. fold (ckey enc c t). apply Permutation_cons_append.
Qed.

Lemma Rh_merge a c n d t en ed et : Rh a c n en -> Rh a c d ed -> Rh a c t et ->
  let '(n', d', t') := merge3 (hv_move sh) n d t in Rh a c n' [] /\ Rh a c d' en /\ Rh a c t' (et ++ ed).
Proof.
  intros Rn Rd Rt. pose proof (hv_merge_spec sh sh_perm n d t) as S. destruct (merge3 (hv_move sh) n d t) as [[n' d'] t'].
  destruct S as [-> [-> [P W]]]. split; [apply Rh_nil|]. split; [exact Rn|]. split; [apply W; [apply Rd|apply Rt]|].
  rewrite P. unfold mm_union. rewrite map_app. apply Permutation_app; [apply Rt|apply Rd].
Qed.

(* ---- full index *)
Lemma Rf_keys m es key : Rf m es -> (In (enc key) (fm_keys m) <-> In key (map fst es)).
Proof.
  intros [_ [_ [_ K]]]. rewrite K. rewrite in_map_iff. split.
  - intros [k' [E H]]. apply enc_inj in E. now subst.
  - intros H. exists key. auto.
Qed.

Lemma Rf_contains m es key : Rf m es -> fm_contains (enc key) m = ix_has key es.
Proof.
  intros R. apply eq_true_iff_eq. rewrite fm_contains_In, ix_has_In. now apply Rf_keys.
Qed.

Lemma Rf_perm_abs m es : Rf m es -> Permutation m (map (fun e => (enc (fst e), 0)) es).
Proof.
  intros [N [V [Ne K]]]. apply NoDup_Permutation.
  - now apply NoDup_map_fst_inv.
  - rewrite <- (map_map fst (fun k => (enc k, 0))). apply Injective_map_NoDup; [|exact Ne].
    intros x y E. injection E as E. now apply enc_inj.
  - intros [k v]. split.
    + intros H. pose proof (V k v H) as ->. assert (Hk : In k (fm_keys m)) by (apply in_map_iff; exists (k, 0); auto).
      apply K in Hk. rewrite map_map in Hk. apply in_map_iff in Hk as [e [E He]]. apply in_map_iff. exists e. split; [now rewrite E|exact He].
    + intros H. apply in_map_iff in H as [e [E He]]. injection E as <- <-.
      assert (Hk : In (enc (fst e)) (fm_keys m)) by (apply K; rewrite map_map; apply in_map_iff; exists e; auto).
      apply in_map_iff in Hk as [[k' v'] [E' H']]. cbn [fst] in E'. subst k'. now rewrite (V _ _ H') in H'.
Qed.

Lemma ix_get_full key es : NoDup (map fst es) -> Forall (fun e => fst e = snd e) es ->
  ix_get key es = if ix_has key es then [key] else [].
Proof.
  induction es as [|e es IH]; intros N F; [reflexivity|]. cbn [map fst] in N. inversion N as [|? ? Hk N']; subst.
  inversion F as [|? ? He F']; subst. specialize (IH N' F').
  change (ix_get key (e :: es)) with (map snd (if key_eqb key e then e :: filter (key_eqb key) es else filter (key_eqb key) es)).
  change (ix_has key (e :: es)) with (key_eqb key e || ix_has key es).
  destruct (key_eqb key e) eqn:E.
  - unfold key_eqb in E. apply zlist_eqb_eq in E. cbn [map orb].
    assert (X : ix_has key es = false).
    { destruct (ix_has key es) eqn:X; [|reflexivity]. exfalso. apply Hk. apply ix_has_In in X. exact (eq_ind_r (fun k => In k (map fst es)) X E). }
    rewrite X in IH. f_equal; [exact (eq_trans (eq_sym He) E)|exact IH].
  - cbn [orb]. exact IH.
Qed.

Lemma Rf_get m es key : Rf m es -> Forall (fun e => fst e = snd e) es ->
  map (fun _ : Z => dec (enc key)) (flat_opt (fm_index_get (enc key) m)) = ix_get key es.
Proof.
  intros R F. rewrite (ix_get_full key es (proj1 (proj2 (proj2 R))) F), <- (Rf_contains m es key R).
  unfold fm_index_get, fm_contains. destruct (fm_get (enc key) m); cbn [flat_opt map]; [now rewrite dec_enc|reflexivity].
Qed.

Lemma Rf_get_comb t d es1 es2 key : Rf t es1 -> Rf d es2 -> Forall (fun e => fst e = snd e) es1 -> Forall (fun e => fst e = snd e) es2 ->
  map (fun _ : Z => dec (enc key)) (flat_opt (comb_get (fm_index_get (enc key) t) (fm_index_get (enc key) d))) = ix_get key (es1 ++ es2).
Proof.
  intros R1 R2 F1 F2. rewrite ix_get_app, <- (Rf_get t es1 key R1 F1), <- (Rf_get d es2 key R2 F2), <- map_app. f_equal.
  unfold comb_get. destruct (fm_index_get (enc key) t), (fm_index_get (enc key) d); reflexivity.
Qed.

Lemma flat_all_full a c (l : fmap) : flat_all dec a c true (map (fun kv => (fst kv, [snd kv])) l) = map (fun kv => dec (fst kv)) l.
Proof. unfold flat_all. induction l as [|[k v] l IH]; [reflexivity|]. cbn [map flat_map fst snd app]. now rewrite IH. Qed.

Lemma Rf_all a c m es : Rf m es -> Forall (fun e => fst e = snd e) es ->
  Permutation (flat_all dec a c true (fm_iter_all sh m)) (ix_all es).
Proof.
  intros R F. unfold fm_iter_all. rewrite flat_all_full.
  transitivity (map (fun kv : Z * Z => dec (fst kv)) m); [apply Permutation_map, sh_perm|].
  rewrite (Permutation_map _ (Rf_perm_abs m es R)), map_map. cbn [fst]. unfold ix_all.
  match goal with |- Permutation ?x ?y => assert (E : x = y); [|rewrite E; reflexivity] end.
  apply map_ext_in. intros e He. rewrite Forall_forall in F. rewrite dec_enc. exact (F e He).
Qed.

Lemma Rf_all_comb a c t d es1 es2 : Rf t es1 -> Rf d es2 -> Forall (fun e => fst e = snd e) es1 -> Forall (fun e => fst e = snd e) es2 ->
  Permutation (flat_all dec a c true (comb_iter_all (fm_iter_all sh t) (fm_iter_all sh d))) (ix_all (es1 ++ es2)).
Proof.
  intros R1 R2 F1 F2. unfold comb_iter_all, flat_all. rewrite flat_map_app. unfold ix_all. rewrite map_app.
  apply Permutation_app; [apply (Rf_all a c t es1 R1 F1)|apply (Rf_all a c d es2 R2 F2)].
Qed.

Lemma Rf_empty m es : Rf m es -> fm_is_empty m = ix_empty es.
Proof.
  intros R. pose proof (Rf_perm_abs m es R) as P. destruct m as [|x m], es as [|e es]; try reflexivity.
  - apply Permutation_nil in P. discriminate.
  - apply Permutation_sym, Permutation_nil in P. discriminate.
Qed.

(* insert_if_not_present(key, ()) / the abstract set insertion *)
Lemma Rf_insert_np m es key : Rf m es ->
  Rf (fst (fm_insert_if_not_present (enc key) 0 m)) (ix_insert true key key es)
  /\ snd (fm_insert_if_not_present (enc key) 0 m) = negb (ix_has key es).
Proof.
  intros R. pose proof (Rf_contains m es key R) as C. unfold fm_insert_if_not_present, ix_insert. rewrite C.
  destruct (ix_has key es) eqn:E; cbn [fst snd negb]; [split; [exact R|reflexivity]|]. split; [|reflexivity].
  destruct R as [N [V [Ne K]]]. assert (A : ~ In (enc key) (fm_keys m)).
  { intros H. apply fm_contains_In in H. congruence. }
  split; [|split; [|split]].
  - unfold fm_keys. rewrite map_app. cbn [map fst]. apply NoDup_app_intro; [exact N|constructor; [intros []|constructor]|].
    intros x Hx [<-|[]]. contradiction.
  - intros k v H. apply in_app_or in H as [H|[H|[]]]; [exact (V k v H)|now inversion H].
  - rewrite map_app. cbn [map fst]. apply NoDup_app_intro; [exact Ne|constructor; [intros []|constructor]|].
    intros x Hx [<-|[]]. apply ix_has_In in Hx. congruence.
  - intros k. unfold fm_keys. rewrite !map_app, !in_app_iff. cbn [map fst In]. fold (fm_keys m). rewrite K. tauto.
Qed.

(* index_insert = HashMap::insert(key, ()) / the abstract set insertion *)
Lemma Rf_insert m es key : Rf m es -> Rf (fm_insert (enc key) 0 m) (ix_insert true key key es).
Proof.
  intros [N [V [Ne K]]]. split; [now apply fm_insert_nodup|]. split; [|split; [now apply ix_insert_full_nodup|]].
  - intros k v H. assert (G : fm_get k (fm_insert (enc key) 0 m) = Some v) by (apply In_fm_get; [now apply fm_insert_nodup|exact H]).
    rewrite fm_get_insert in G. destruct (enc key =? k); [now injection G|]. apply fm_get_In in G. exact (V k v G).
  - intros k. rewrite fm_insert_keys, K. rewrite !in_map_iff. split.
    + intros [->|[k' [E H]]]; [exists key; split; [reflexivity|]; apply ix_insert_full_keys; now left|].
      exists k'. split; [exact E|]. apply ix_insert_full_keys. now right.
    + intros [k' [E H]]. apply ix_insert_full_keys in H as [->|H]; [now left|]. right. exists k'. auto.
Qed.

Lemma Rf_move from to ef et : Rf from ef -> Rf to et -> Rf (snd (fm_move sh from to)) (ix_move true ef et).
Proof.
  intros [Nf [Vf [Nef Kf]]] [Nt [Vt [Net Kt]]]. destruct (fm_move_spec sh sh_perm from to Nf Nt) as [_ [N [[_ [_ P]] G]]].
  split; [exact N|]. split; [|split; [now apply ix_move_full_nodup|]].
  - intros k v H. assert (E : fm_get k (snd (fm_move sh from to)) = Some v) by (apply In_fm_get; assumption).
    rewrite G in E. destruct (length to <? length from)%nat.
    + destruct (fm_get k to) as [w|] eqn:Et.
      * injection E as <-. apply fm_get_In in Et. exact (Vt _ _ Et).
      * apply fm_get_In in E. exact (Vf _ _ E).
    + destruct (fm_get k from) as [w|] eqn:Ef.
      * injection E as <-. apply fm_get_In in Ef. exact (Vf _ _ Ef).
      * apply fm_get_In in E. exact (Vt _ _ E).
  - intros k. split.
    + intros H. apply (Permutation_in _ P) in H. unfold ks_union in H. apply (set_union_In Z Z.eqb zeqb_spec) in H.
      rewrite Kt, Kf in H. rewrite !in_map_iff in *. destruct H as [[k' [E H]]|[k' [E H]]]; exists k'; (split; [exact E|]);
        apply ix_move_full_keys; [left|right]; exact H.
    + intros H. apply (Permutation_in _ (Permutation_sym P)). unfold ks_union. apply (set_union_In Z Z.eqb zeqb_spec).
      rewrite Kt, Kf. rewrite !in_map_iff in *. destruct H as [k' [E H]]. apply ix_move_full_keys in H as [H|H]; [left|right]; exists k'; auto.
Qed.

Lemma Rf_merge n d t en ed et : Rf n en -> Rf d ed -> Rf t et ->
  let '(n', d', t') := merge3 (fm_move sh) n d t in Rf n' [] /\ Rf d' en /\ Rf t' (ix_move true ed et).
Proof.
  intros Rn Rd Rt. unfold merge3. pose proof (Rf_move d t ed et Rd Rt) as M.
  pose proof (fm_move_spec sh sh_perm d t (proj1 Rd) (proj1 Rt)) as [E _].
  destruct (fm_move sh d t) as [d' t']. cbn [fst snd] in *. subst d'. split; [apply Rf_nil|]. split; assumption.
Qed.
End Oracle.
End Enc.
