(* Statements for the remaining parts of C06 (invariance of the SPECIFICATION under head / body-item permutation,
   variable renaming, relation renaming and injective renaming of the constants), and for idempotence of run() with
   aggregates (C13).  Proved in Engine/Invariance*.v and Engine/RerunAgg.v. *)
From Coq Require Import List ZArith Bool Arith Permutation.
From AV Require Import Engine.Core Engine.Sem Engine.Eval Engine.Validate Engine.Naive Engine.Interface Engine.InterfaceAgg Engine.StratFixed.
Import ListNotations.

Definition same_facts (A B : list fact) : Prop := forall f, In f A <-> In f B.

(* ---- head permutation: the facts a rule derives do not depend on the order of its head clauses ---- *)
Definition head_perm_stmt : Prop :=
  forall I db r hs', Permutation (heads r) hs' ->
    same_facts (derive_rule I db r) (derive_rule I db {| heads := hs'; body := body r |}).

(* ---- variable renaming: renaming the variables of a rule by an injective map leaves what it derives unchanged ---- *)
Definition rename_term (s : var -> var) (t : term) : term :=
  match t with TVar x => TVar (s x) | TConst c => TConst c | TFun f xs => TFun f (map s xs) end.
Definition rename_cond (s : var -> var) (c : cond) : cond :=
  match c with CIf p xs => CIf p (map s xs) | CBind x f xs => CBind (s x) f (map s xs) end.
Definition rename_aarg (s : var -> var) (a : aarg) : aarg :=
  match a with AWild => AWild | ABound x => ABound (s x) | AKey t => AKey (rename_term s t) end.
Definition rename_bitem (s : var -> var) (b : bitem) : bitem :=
  match b with
  | BClause r args cs => BClause r (map (rename_term s) args) (map (rename_cond s) cs)
  | BCond c => BCond (rename_cond s c)
  | BGen x g xs => BGen (s x) g (map s xs)
  | BAgg out a bound r args => BAgg (option_map s out) a (map s bound) r (map (rename_aarg s) args)
  end.
Definition rename_rule (s : var -> var) (r : rule) : rule :=
  {| heads := map (fun h => (fst h, map (rename_term s) (snd h))) (heads r); body := map (rename_bitem s) (body r) |}.

Definition alpha_stmt : Prop :=
  forall I db r (s : var -> var), (forall x y, s x = s y -> x = y) ->
    same_facts (derive_rule I db r) (derive_rule I db (rename_rule s r)).

(* ---- swapping two adjacent body items that are independent ---- *)
Definition bitem_binds (b : bitem) : list var :=
  match b with
  | BClause _ args cs => flat_map (fun t => match t with TVar x => [x] | _ => [] end) args
                         ++ flat_map (fun c => match c with CBind x _ _ => [x] | _ => [] end) cs
  | BCond (CBind x _ _) => [x]
  | BCond _ => []
  | BGen x _ _ => [x]
  | BAgg (Some x) _ _ _ _ => [x]
  | BAgg None _ _ _ _ => []
  end.
Definition term_uses (t : term) : list var := match t with TVar x => [x] | TConst _ => [] | TFun _ xs => xs end.
Definition cond_uses (c : cond) : list var := match c with CIf _ xs => xs | CBind x _ xs => x :: xs end.
Definition bitem_uses (b : bitem) : list var :=
  match b with
  | BClause _ args cs => flat_map term_uses args ++ flat_map cond_uses cs
  | BCond c => cond_uses c
  | BGen x _ xs => x :: xs
  | BAgg out _ bound _ args => (match out with Some x => [x] | None => [] end)
                               ++ flat_map (fun a => match a with AKey t => term_uses t | ABound x => [x] | AWild => [] end) args
  end.
(* independent: neither item mentions a variable the other mentions at all *)
Definition independent (b1 b2 : bitem) : Prop := forall x, In x (bitem_uses b1) -> ~ In x (bitem_uses b2).

Definition body_swap_stmt : Prop :=
  forall I db hs pre b1 b2 post, independent b1 b2 ->
    same_facts (derive_rule I db {| heads := hs; body := pre ++ b1 :: b2 :: post |})
               (derive_rule I db {| heads := hs; body := pre ++ b2 :: b1 :: post |}).

(* ---- relation renaming ---- *)
Definition rename_rel_fact (q : rel -> rel) (f : fact) : fact := (q (fst f), snd f).
Definition rename_rel_bitem (q : rel -> rel) (b : bitem) : bitem :=
  match b with
  | BClause r args cs => BClause (q r) args cs
  | BAgg out a bound r args => BAgg out a bound (q r) args
  | other => other
  end.
Definition rename_rel_rule (q : rel -> rel) (r : rule) : rule :=
  {| heads := map (fun h => (q (fst h), snd h)) (heads r); body := map (rename_rel_bitem q) (body r) |}.
Definition rel_rename_stmt : Prop :=
  forall I P F0 M (q : rel -> rel), (forall a b, q a = q b -> a = b) ->
    least_model I P F0 M -> least_model I (map (rename_rel_rule q) P) (map (rename_rel_fact q) F0) (map (rename_rel_fact q) M).

(* ---- injective renaming of the constants, for programs without interpreted functions ---- *)
Definition pure_term (t : term) : bool := match t with TFun _ _ => false | _ => true end.
Definition pure_bitem (b : bitem) : bool :=
  match b with BClause _ args cs => forallb pure_term args && match cs with [] => true | _ => false end | _ => false end.
Definition pure_rule (r : rule) : bool := forallb pure_bitem (body r) && forallb (fun h => forallb pure_term (snd h)) (heads r).
Definition map_term (f : Z -> Z) (t : term) : term := match t with TConst c => TConst (f c) | other => other end.
Definition map_rule (f : Z -> Z) (r : rule) : rule :=
  {| heads := map (fun h => (fst h, map (map_term f) (snd h))) (heads r);
     body := map (fun b => match b with BClause q args cs => BClause q (map (map_term f) args) cs | other => other end) (body r) |}.
Definition map_fact (f : Z -> Z) (x : fact) : fact := (fst x, map f (snd x)).
Definition const_rename_stmt : Prop :=
  forall I P F0 M (f : Z -> Z), (forall a b, f a = f b -> a = b) -> forallb pure_rule P = true ->
    least_model I P F0 M -> least_model I (map (map_rule f) P) (map (map_fact f) F0) (map (map_fact f) M).

(* ---- C13 with aggregation: a second run() on an unmodified program value changes nothing ---- *)
Definition rerun_idempotent_agg_stmt (I : interp) (swap : list tuple -> list tuple -> bool) : Prop :=
  forall arities P pl fuel fuel' F0 st1 st2,
    arities_functional arities -> wf_facts arities F0 = true -> NoDup F0 -> agg_perm_invariant I ->
    validate arities P pl = true ->
    run_plan I swap fuel pl (init_state F0) = Some st1 ->
    run_plan I swap fuel' pl st1 = Some st2 ->
    rows st2 = rows st1.
