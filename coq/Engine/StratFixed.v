(* The stratified model with the aggregated relations of each stratum held fixed.
   Sem.least_model quantifies over ALL closed supersets M' of the lower strata; with
   aggregation such an M' may contain extra facts of an aggregated relation, which
   changes what the aggregate rules derive, so no least model exists in general
   (StratRefuted.v).  The corrected notion restricts M' to the supersets that agree
   with the lower strata on the relations aggregated by the stratum (these relations
   are complete: `stratified` forbids the stratum and all later ones to write them). *)
From Coq Require Import List ZArith Bool Arith.
From AV Require Import Engine.Core Engine.Sem Engine.Strat.
Import ListNotations.

(* M and F have the same facts of the relations qs *)
Definition agree_on (qs : list rel) (F M : list fact) : Prop :=
  forall f, In (fst f) qs -> (In f M <-> In f F).

Definition stratum_agg_rels (s : list rule) : list rel := flat_map rule_agg_rels s.

Definition least_model_fixed (I : interp) (s : list rule) (F M : list fact) : Prop :=
  incl F M /\ agree_on (stratum_agg_rels s) F M /\ closed I s M
  /\ forall M', incl F M' -> agree_on (stratum_agg_rels s) F M' -> closed I s M' -> incl M M'.

Fixpoint strat_model_fixed (I : interp) (strata : list (list rule)) (F0 M : list fact) : Prop :=
  match strata with
  | [] => incl F0 M /\ incl M F0
  | s :: rest => exists M1, least_model_fixed I s F0 M1 /\ strat_model_fixed I rest M1 M
  end.
