(* B12: the PARALLEL engine (ascent_par!, relations only) with PER-INDEX, SHARDED, POOL-DEPENDENT state.

   Engine/ParStep.v keeps ONE list per relation version (new = pN) and treats "insert_if_not_present", "push the row, insert
   into the other indices, set __changed" as atomic steps on that list.  Here every physical index the macro plans for a
   relation is a VALUE of the concurrent index models of C19 / C20 (Index/IndexModel.v):

     <rel>_indices_<all columns>   rel_full_ind!(.., par, ..) = CRelFullIndex<K, ()>      model cfi  (DashMap: shards by hash)
     <rel>_indices_<cols>          rel_ind!(.., par, .., [cols]) = CRelIndex<K, V>        model cri  (DashMap: shards by hash)
     <rel>_indices_none            rel_ind!(.., par, .., []) = CRelNoIndex<V>             model cni  (one shard vector per thread
                                                                                          of the pool current AT CREATION;
                                                                                          insert goes to shard thread_index % len)
     the rows                      ascent::boxcar::Vec: push(row) is atomic and returns the row number

   Sources mirrored (ascent_macro/src/ascent_codegen.rs):
     head_update_code (parallel branch, plain relations)
         contains_key(total full index) / contains_key(delta full index)     frozen reads
         CRelFullIndexWrite::insert_if_not_present(&new full index, &row, ())  ONE atomic DashMap entry operation
         let __new_row_ind = _self.rel.push(row)                               atomic, after a successful insert only
         CRelIndexWrite::index_insert(&new index, key columns, other columns)  one atomic step PER other index (sorted)
         __changed.store(true)
     compile_mir_scc
         delta = take(field); total = Default; new = Default  (Default runs on the thread executing run(): the RUN POOL)
         loop { total.freeze(); delta.freeze(); rules; unfreeze; merge_delta_to_total_new_to_delta per index; exit if !changed }
         non-looping SCC: one evaluation, two merges;  field = total;  body-only relation: field.freeze(); taken; put back
     compile_update_indices_function_body (parallel branch)
         every index field = Default::default() (in the run pool); a parallel loop over the rows inserts every row into
         every index of its relation (CRelIndexWrite::index_insert; on the full index that is DashMap::insert)
   ascent/src/internal.rs  RelIndexMerge::merge_delta_to_total_new_to_delta = move_index_contents(delta, total); swap(new, delta)
                           (IndexModel.merge3r over cfi_move / cri_move / cni_move = the shard-wise zip of CRelNoIndex)

   A schedule is a list of (worker, thread index): each occurrence lets that worker perform its next atomic step on the rayon
   thread with that index (the thread index only matters for CRelNoIndex).  Keys / values are encoded into Z by an arbitrary
   [enc]; the shard of a DashMap key is [hash k mod nsh] for an arbitrary [hash] and the per-process shard count [nsh]
   (c_rel_index.rs shards_count(), a Lazy static).  What the rule bodies READ (c_index_get / c_iter_all over frozen total and
   delta) is not modelled per index: as in ParStep.par_iteration the derived head facts are any distribution [work] of
   eval_variant over the row-level contents T / D — the lists the theorems of ParIndexedRefine.v prove every index of the
   version denotes.  Those lists are carried along as ghosts ([iN], [xstored], the T / D arguments of the relations below).

   [nomod] injects the seeded change "index the shard vector by the raw thread index" (no `% len`): an out-of-range shard is
   the explicit Panic.  No proofs in this file. *)
From Coq Require Import List ZArith Bool Arith Permutation.
From AV Require Import Index.IndexModel.
From AV Require Import Engine.Core Engine.Sem Engine.Eval Engine.ParStep.
Import ListNotations.
Local Open Scope nat_scope.

Definition rbind {A B} (r : res A) (f : A -> res B) : res B := IndexModel.bind r f.

(* ---------- one physical index ---------- *)
Record xdecl := { x_rel : rel; x_arity : nat; x_cols : list nat }.
Inductive xkind := KFull | KHash | KNo.
(* IrRelation::is_full_index first, then the `[]` arm of rel_ind! *)
Definition x_kind (d : xdecl) : xkind :=
  if Nat.eqb (length (x_cols d)) (x_arity d) then KFull else match x_cols d with [] => KNo | _ => KHash end.
Inductive xval := XF (c : cfi) | XH (c : cri) | XN (c : cni).

(* IndexValType::Direct: the columns that are not in the index, ascending (= ConcreteEval.ocols) *)
Definition vcols (arity : nat) (cols : list nat) : list nat :=
  filter (fun i => negb (existsb (Nat.eqb i) cols)) (seq 0 arity).

Definition xflag (x : xval) : bool := match x with XF c => fst c | XH c => fst c | XN c => fst c end.
Definition xfreeze (x : xval) : xval :=
  match x with XF c => XF (dm_freeze c) | XH c => XH (dm_freeze c) | XN c => XN (cni_freeze c) end.
Definition xunfreeze (x : xval) : xval :=
  match x with XF c => XF (dm_unfreeze c) | XH c => XH (dm_unfreeze c) | XN c => XN (cni_unfreeze c) end.

(* the seeded variant of CRelNoIndex::index_insert(&self): self.vec[thread_index] *)
Definition cni_insert_nomod (tid : nat) (v : Z) (c : cni) : res cni :=
  if fst c then Panic
  else if Nat.ltb tid (length (snd c)) then Ok (false, upd_nth tid (fun l => l ++ [v]) (snd c)) else Panic.

(* SCC-local variables of one index; a relation that is only read in the SCC has its total only *)
Inductive sver := SDyn (t d n : xval) | SBody (t : xval).
Record sentry := { s_d : xdecl; s_v : sver }.
Definition store := list sentry.

(* a worker: the head facts it still has to process, and the head update it is in the middle of:
   [p_stage = None]: insert_if_not_present returned true, the row is not pushed yet;
   [Some (row, left)]: pushed as row number [row]; [left] = positions of the indices of new still to be written;
   [Some (row, [])]: only __changed.store(true) is left *)
Record ipend := { p_fact : fact; p_stage : option (nat * list nat) }.
Record iworker := { w_todo : list fact; w_pend : option ipend }.
(* [iN] is a ghost: the facts whose insert_if_not_present returned true, in that order (ParStep.pN) *)
Record istate := { iN : list fact; iR : list fact; istore : store; iws : list iworker; ichanged : bool }.

Record xstate := { xrows : list fact; xstored : list fact; xfields : list (xdecl * xval) }.

Fixpoint find_pos {A} (p : A -> bool) (l : list A) : option nat :=
  match l with [] => None | a :: l' => if p a then Some O else option_map S (find_pos p l') end.

Fixpoint mapr {A B} (f : A -> res B) (l : list A) : res (list B) :=
  match l with
  | [] => Ok []
  | a :: l' => rbind (f a) (fun b => rbind (mapr f l') (fun bs => Ok (b :: bs)))
  end.

Section Model.
Variable sh : forall A : Type, list A -> list A.   (* drain order of the hash maps inside move_index_contents *)
Variable hash : Z -> nat.                            (* DashMap::hash_usize, before reduction to the shard count *)
Variable enc : list Z -> Z.                          (* a key / value tuple as a Z *)
Variable nsh : nat.                                  (* shards_count(): one constant per process *)
Variable nomod : bool.                               (* fault injection, see above *)

(* the canonical full index has all columns in order: its key is the row, its value () *)
Definition xkey (d : xdecl) (t : tuple) : Z :=
  match x_kind d with KFull => enc t | _ => enc (proj (x_cols d) t) end.
Definition xvalz (d : xdecl) (t : tuple) : Z :=
  match x_kind d with KFull => 0%Z | _ => enc (proj (vcols (x_arity d) (x_cols d)) t) end.

(* Default::default() executed in a pool of [pool] threads *)
Definition xdefault (pool : nat) (d : xdecl) : xval :=
  match x_kind d with
  | KFull => XF (dm_default [] nsh)
  | KHash => XH (dm_default [] nsh)
  | KNo => XN (cni_default pool)
  end.

(* CRelIndexWrite::index_insert(&self, key, value) by the thread with index [tid] *)
Definition xinsert (d : xdecl) (tid : nat) (t : tuple) (x : xval) : res xval :=
  match x with
  | XF c => rbind (cfi_insert hash (xkey d t) 0%Z c) (fun c' => Ok (XF c'))
  | XH c => rbind (cri_insert hash (xkey d t) (xvalz d t) c) (fun c' => Ok (XH c'))
  | XN c => rbind ((if nomod then cni_insert_nomod else cni_insert) tid (xvalz d t) c) (fun c' => Ok (XN c'))
  end.
(* RelFullIndexRead::contains_key on a frozen full index *)
Definition xcontains (t : tuple) (x : xval) : res bool :=
  match x with XF c => cfi_contains hash (enc t) c | _ => Unsup end.
(* CRelFullIndexWrite::insert_if_not_present(&self, &row, ()) *)
Definition xinsert_np (t : tuple) (x : xval) : res (xval * bool) :=
  match x with
  | XF c => rbind (cfi_insert_if_not_present hash (enc t) 0%Z c) (fun cb => Ok (XF (fst cb), snd cb))
  | _ => Unsup
  end.
(* RelIndexMerge::move_index_contents(from, to) *)
Definition xmove (from to : xval) : res (xval * xval) :=
  match from, to with
  | XF a, XF b => rbind (cfi_move sh a b) (fun p => Ok (XF (fst p), XF (snd p)))
  | XH a, XH b => rbind (cri_move sh a b) (fun p => Ok (XH (fst p), XH (snd p)))
  | XN a, XN b => rbind (cni_move a b) (fun p => Ok (XN (fst p), XN (snd p)))
  | _, _ => Unsup
  end.
Definition xmerge (n d t : xval) : res (xval * xval * xval) := merge3r xmove n d t.

(* ---------- the SCC-local store ---------- *)
Definition e_isdyn (e : sentry) : bool := match s_v e with SDyn _ _ _ => true | SBody _ => false end.
Definition e_isfull (e : sentry) : bool := match x_kind (s_d e) with KFull => true | _ => false end.
(* the full index variable of a dynamic relation / its other index variables *)
Definition is_full_of (r : rel) (e : sentry) : bool := Nat.eqb (x_rel (s_d e)) r && e_isfull e && e_isdyn e.
Definition is_other_of (r : rel) (e : sentry) : bool := Nat.eqb (x_rel (s_d e)) r && negb (e_isfull e) && e_isdyn e.
Definition in_others (st : store) (r : rel) (j : nat) : bool :=
  match nth_error st j with Some e => is_other_of r e | None => false end.
Definition others_of (st : store) (r : rel) : list nat := filter (in_others st r) (seq 0 (length st)).

Definition set_new (n' : xval) (e : sentry) : sentry :=
  match s_v e with SDyn t d _ => {| s_d := s_d e; s_v := SDyn t d n' |} | SBody _ => e end.
Definition store_set_new (st : store) (j : nat) (n' : xval) : store := upd_nth j (set_new n') st.

Definition freeze_entry (e : sentry) : sentry :=
  match s_v e with SDyn t d n => {| s_d := s_d e; s_v := SDyn (xfreeze t) (xfreeze d) n |} | SBody _ => e end.
Definition unfreeze_entry (e : sentry) : sentry :=
  match s_v e with SDyn t d n => {| s_d := s_d e; s_v := SDyn (xunfreeze t) (xunfreeze d) n |} | SBody _ => e end.
Definition merge_entry (e : sentry) : res sentry :=
  match s_v e with
  | SDyn t d n => rbind (xmerge n d t) (fun r => Ok {| s_d := s_d e; s_v := SDyn (snd r) (snd (fst r)) (fst (fst r)) |})
  | SBody _ => Ok e
  end.
Definition merge_store (st : store) : res store := mapr merge_entry st.

(* ---------- one atomic step of worker [i], executed on the thread with index [tid] ---------- *)
Definition set_worker (st : istate) (i : nat) (w : iworker) : list iworker := set_nth i w (iws st).

Definition istep (st : istate) (it : nat * nat) : res istate :=
  let i := fst it in let tid := snd it in
  match nth_error (iws st) i with
  | None => Ok st
  | Some w =>
      match w_pend w with
      | Some p =>
          match p_stage p with
          | None =>      (* boxcar push: returns the row number *)
              Ok {| iN := iN st; iR := iR st ++ [p_fact p]; istore := istore st;
                    iws := set_worker st i {| w_todo := w_todo w;
                             w_pend := Some {| p_fact := p_fact p;
                                               p_stage := Some (length (iR st), others_of (istore st) (fst (p_fact p))) |} |};
                    ichanged := ichanged st |}
          | Some (row, j :: lft) =>     (* index_insert into the next other index of new *)
              match nth_error (istore st) j with
              | Some e =>
                  match s_v e with
                  | SDyn _ _ n =>
                      rbind (xinsert (s_d e) tid (snd (p_fact p)) n) (fun n' =>
                      Ok {| iN := iN st; iR := iR st; istore := store_set_new (istore st) j n';
                            iws := set_worker st i {| w_todo := w_todo w;
                                     w_pend := Some {| p_fact := p_fact p; p_stage := Some (row, lft) |} |};
                            ichanged := ichanged st |})
                  | SBody _ => Panic
                  end
              | None => Panic
              end
          | Some (row, []) =>            (* __changed.store(true) *)
              Ok {| iN := iN st; iR := iR st; istore := istore st;
                    iws := set_worker st i {| w_todo := w_todo w; w_pend := None |}; ichanged := true |}
          end
      | None =>
          match w_todo w with
          | [] => Ok st
          | f :: rest =>
              let skip := {| iN := iN st; iR := iR st; istore := istore st;
                             iws := set_worker st i {| w_todo := rest; w_pend := None |}; ichanged := ichanged st |} in
              match find_pos (is_full_of (fst f)) (istore st) with
              | None => Unsup      (* no full index variable for the head relation: the generated code does not compile *)
              | Some j =>
                  match nth_error (istore st) j with
                  | Some e =>
                      match s_v e with
                      | SDyn t d n =>
                          rbind (xcontains (snd f) t) (fun inT =>
                          if inT then Ok skip else
                          rbind (xcontains (snd f) d) (fun inD =>
                          if inD then Ok skip else
                          rbind (xinsert_np (snd f) n) (fun nb =>
                          if snd nb then
                            Ok {| iN := iN st ++ [f]; iR := iR st; istore := store_set_new (istore st) j (fst nb);
                                  iws := set_worker st i {| w_todo := rest; w_pend := Some {| p_fact := f; p_stage := None |} |};
                                  ichanged := ichanged st |}
                          else
                            Ok {| iN := iN st; iR := iR st; istore := store_set_new (istore st) j (fst nb);
                                  iws := set_worker st i {| w_todo := rest; w_pend := None |}; ichanged := ichanged st |})))
                      | SBody _ => Panic
                      end
                  | None => Panic
                  end
              end
          end
      end
  end.

Definition irun (st : istate) (sched : list (nat * nat)) : res istate :=
  fold_left (fun r it => rbind r (fun s => istep s it)) sched (Ok st).

Definition iworker_done (w : iworker) : bool := match w_todo w, w_pend w with [], None => true | _, _ => false end.
Definition ifinished (st : istate) : bool := forallb iworker_done (iws st).
Definition iinit (R : list fact) (s : store) (work : list (list fact)) : istate :=
  {| iN := []; iR := R; istore := s; iws := map (fun l => {| w_todo := l; w_pend := None |}) work; ichanged := false |}.

(* the body of the SCC loop on the store: freeze; the workers' steps in the given interleaving; unfreeze; merge every index.
   Result: (new facts in insertion order (ghost), rows, __changed, store) *)
Definition iteration_fn (R : list fact) (s : store) (work : list (list fact)) (sched : list (nat * nat))
  : res (list fact * list fact * bool * store) :=
  rbind (irun (iinit R (map freeze_entry s) work) sched) (fun fin =>
  if ifinished fin then
    rbind (merge_store (map unfreeze_entry (istore fin))) (fun s' => Ok (iN fin, iR fin, ichanged fin, s'))
  else Unsup).     (* the schedule stopped before every worker was done: not a run of the code *)

(* ---------- the engine, in a run pool of [pool] threads ---------- *)
Section Engine.
Variable I : interp.
Variable swap_oracle : list tuple -> list tuple -> bool.
Variable pool : nat.

Definition tids_ok (sched : list (nat * nat)) : Prop := forall it, In it sched -> snd it < Nat.max pool 1.

(* T, D: the row-level contents of total and delta (what the rule bodies read) *)
Definition pix_iteration (sc : pscc) (S T D R : list fact) (s : store) (N R' : list fact) (changed : bool) (s' : store) : Prop :=
  exists work sched,
    (forall f, In f (concat work) <-> In f (flat_map (eval_variant I swap_oracle (contents S T D (s_dyn sc))) (s_vars sc)))
    /\ tids_ok sched
    /\ iteration_fn R s work sched = Ok (N, R', changed, s').

Inductive pix_loop (sc : pscc) (S : list fact)
  : list fact -> list fact -> list fact -> store -> list fact -> list fact -> store -> Prop :=
| pix_loop_exit T D R s N R' s' :
    pix_iteration sc S T D R s N R' false s' -> pix_loop sc S T D R s (T ++ D) R' s'
| pix_loop_step T D R s N R' s' Tf Rf sf :
    pix_iteration sc S T D R s N R' true s' -> pix_loop sc S (T ++ D) N R' s' Tf Rf sf -> pix_loop sc S T D R s Tf Rf sf.

(* compile_mir_scc, entry and exit *)
Definition scc_entry (dyn : list rel) (fe : xdecl * xval) : sentry :=
  if is_dyn dyn (x_rel (fst fe))
  then {| s_d := fst fe; s_v := SDyn (xdefault pool (fst fe)) (snd fe) (xdefault pool (fst fe)) |}
  else {| s_d := fst fe; s_v := SBody (xfreeze (snd fe)) |}.
Definition scc_exit (e : sentry) : xdecl * xval :=
  (s_d e, match s_v e with SDyn t _ _ => t | SBody t => t end).

Definition pix_run_scc (sc : pscc) (st st' : xstate) : Prop :=
  let D0 := filter (fact_dyn (s_dyn sc)) (xstored st) in
  let S := filter (fun f => negb (fact_dyn (s_dyn sc) f)) (xstored st) in
  let s0 := map (scc_entry (s_dyn sc)) (xfields st) in
  if s_loop sc then
    exists T R s', pix_loop sc S [] D0 (xrows st) s0 T R s'
                   /\ st' = {| xrows := R; xstored := S ++ T; xfields := map scc_exit s' |}
  else
    exists N R b s1 s2, pix_iteration sc S [] D0 (xrows st) s0 N R b s1
                   /\ merge_store s1 = Ok s2      (* the second shift_delta_to_total_new_to_delta *)
                   /\ st' = {| xrows := R; xstored := S ++ (D0 ++ N); xfields := map scc_exit s2 |}.

Inductive pix_run_sccs : plan -> xstate -> xstate -> Prop :=
| pix_run_nil st : pix_run_sccs [] st st
| pix_run_cons sc pl st st1 st2 : pix_run_scc sc st st1 -> pix_run_sccs pl st1 st2 -> pix_run_sccs (sc :: pl) st st2.

(* update_indices_priv: every field is re-created in the run pool, then every row of the relation is inserted into it;
   [ins] = the atomic inserts into THIS index in the order they happen, each with the thread index of its caller
   (the per-index projection of an interleaving of the parallel loop over the rows, as in NoIndexPools.update_indices) *)
Definition ui_field (d : xdecl) (ins : list (nat * tuple)) : res xval :=
  fold_left (fun r it => rbind r (xinsert d (fst it) (snd it))) ins (Ok (xdefault pool d)).

Definition pix_update_indices (st st' : xstate) : Prop :=
  xrows st' = xrows st /\ xstored st' = xrows st
  /\ Forall2 (fun old new =>
       fst new = fst old
       /\ exists ins, Permutation (map snd ins) (db_of (xrows st) (x_rel (fst old)))
                      /\ (forall it, In it ins -> fst it < Nat.max pool 1)
                      /\ ui_field (fst old) ins = Ok (snd new))
     (xfields st) (xfields st').

Definition pix_run_plan (pl : plan) (st st' : xstate) : Prop :=
  exists st1, pix_update_indices st st1 /\ pix_run_sccs pl st1 st'.
End Engine.
End Model.

(* a program value as constructed (any field values: run() rebuilds them) *)
Definition xinit (F0 : list fact) (fields : list (xdecl * xval)) : xstate :=
  {| xrows := F0; xstored := []; xfields := fields |}.
