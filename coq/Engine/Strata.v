(* One SCC (stratum) of the semi-naive engine model: the head-update fold, one
   iteration, the loop invariant (Idx / Snd / SN of DESIGN.md 3.5) and the
   resulting specification of Eval.run_scc.  The engine evaluation of a single
   rule variant enters only through the hypothesis eval_variant_spec_stmt. *)
From Coq Require Import List ZArith Bool Arith Lia.
From AV Require Import Engine.Core Engine.Sem Engine.Eval Engine.Validate Engine.Naive Engine.Interface.
From AV Require Import Engine.NaiveLemmas.
Import ListNotations.
Local Open Scope nat_scope.

(* ---------- head_update ---------- *)
Lemma head_update_eq : forall T D N R f,
  head_update T D (N, R) f =
  if mem_fact f T || mem_fact f D || mem_fact f N then (N, R) else (N ++ [f], R ++ [f]).
Proof. reflexivity. Qed.

Lemma fold_head_update_spec : forall T D fs N R N' R',
  fold_left (head_update T D) fs (N, R) = (N', R') ->
  exists A, N' = N ++ A /\ R' = R ++ A /\ NoDup A
    /\ (forall f, In f A -> In f fs /\ ~ In f T /\ ~ In f D /\ ~ In f N)
    /\ (forall f, In f fs -> In f T \/ In f D \/ In f N \/ In f A).
Proof.
  intros T D. induction fs as [|a fs IH]; intros N R N' R' H.
  - cbn [fold_left] in H. injection H as <- <-. exists []. rewrite !app_nil_r.
    split; [reflexivity|]. split; [reflexivity|]. split; [constructor|]. split; intros f [].
  - cbn [fold_left] in H. rewrite head_update_eq in H.
    destruct (mem_fact a T || mem_fact a D || mem_fact a N) eqn:Hm.
    + destruct (IH _ _ _ _ H) as [A [HN [HR [Hnd [HA Hcov]]]]]. exists A.
      split; [exact HN|]. split; [exact HR|]. split; [exact Hnd|]. split.
      * intros f Hf. destruct (HA f Hf) as [H1 H2]. split; [right; exact H1 | exact H2].
      * intros f [<- | Hf]; [|apply Hcov; exact Hf].
        apply orb_true_iff in Hm as [Hm | Hm]; [apply orb_true_iff in Hm as [Hm | Hm]|];
          apply mem_fact_In in Hm; auto.
    + apply orb_false_iff in Hm as [Hm HmN]. apply orb_false_iff in Hm as [HmT HmD].
      apply mem_fact_false in HmT, HmD, HmN.
      destruct (IH _ _ _ _ H) as [A [HN [HR [Hnd [HA Hcov]]]]]. exists (a :: A).
      split; [rewrite HN, <- app_assoc; reflexivity|]. split; [rewrite HR, <- app_assoc; reflexivity|].
      split.
      * constructor; [|exact Hnd]. intro Ha. destruct (HA a Ha) as [_ [_ [_ Hn]]]. apply Hn.
        apply in_or_app. right. left. reflexivity.
      * split.
        -- intros f [<- | Hf].
           ++ split; [left; reflexivity|]. auto.
           ++ destruct (HA f Hf) as [H1 [H2 [H3 H4]]]. split; [right; exact H1|]. split; [exact H2|].
              split; [exact H3|]. intro Hn. apply H4. apply in_or_app. left. exact Hn.
        -- intros f [<- | Hf]; [right; right; right; left; reflexivity|].
           destruct (Hcov f Hf) as [Hc | [Hc | [Hc | Hc]]]; auto.
           ++ apply in_app_or in Hc as [Hc | [<- | []]]; auto. right. right. right. left. reflexivity.
           ++ right. right. right. right. exact Hc.
Qed.

Lemma fold_left_flat_map : forall (A B C : Type) (g : C -> B -> C) (h : A -> list B) l acc,
  fold_left (fun acc v => fold_left g (h v) acc) l acc = fold_left g (flat_map h l) acc.
Proof.
  intros A B C g h. induction l as [|a l IH]; intros acc; [reflexivity|].
  cbn [fold_left flat_map]. rewrite fold_left_app. apply IH.
Qed.

Lemma scc_iteration_spec : forall I swap sc S T D R N R',
  scc_iteration I swap sc S T D R = (N, R') ->
  R' = R ++ N /\ NoDup N
  /\ (forall f, In f N ->
        (exists v, In v (s_vars sc) /\ In f (eval_variant I swap (contents S T D (s_dyn sc)) v))
        /\ ~ In f T /\ ~ In f D)
  /\ (forall v f, In v (s_vars sc) -> In f (eval_variant I swap (contents S T D (s_dyn sc)) v) ->
        In f T \/ In f D \/ In f N).
Proof.
  intros I swap sc S T D R N R' H. unfold scc_iteration in H.
  rewrite (fold_left_flat_map _ _ _ (head_update T D) (eval_variant I swap (contents S T D (s_dyn sc)))) in H.
  destruct (fold_head_update_spec _ _ _ _ _ _ _ H) as [A [HN [HR [Hnd [HA Hcov]]]]].
  cbn [app] in HN. subst A. split; [exact HR|]. split; [exact Hnd|]. split.
  - intros f Hf. destruct (HA f Hf) as [H1 [H2 [H3 _]]]. split; [|split; assumption].
    apply in_flat_map in H1 as [v [Hv Hfv]]. exists v. split; assumption.
  - intros v f Hv Hf. assert (Hin : In f (flat_map (eval_variant I swap (contents S T D (s_dyn sc))) (s_vars sc))).
    { apply in_flat_map. exists v. split; assumption. }
    destruct (Hcov f Hin) as [Hc | [Hc | [[] | Hc]]]; auto.
Qed.

Lemma contents_incl_db : forall S T D dyn M q ver,
  incl S M -> incl T M -> incl D M -> incl (contents S T D dyn q ver) (db_of M q).
Proof.
  intros S T D dyn M q ver HS HT HD. unfold contents. destruct (is_dyn dyn q).
  - destruct ver; [apply db_of_incl; exact HT | apply db_of_incl; exact HD |].
    apply incl_app; apply db_of_incl; assumption.
  - apply db_of_incl. exact HS.
Qed.

Section Scc.
Variable I : interp.
Variable swap : list tuple -> list tuple -> bool.
Hypothesis Hspec : eval_variant_spec_stmt I swap.
Variable arities : list (rel * nat).
Variable P : list rule.
Hypothesis Hfun : arities_functional arities.
Hypothesis Hnoagg : no_agg P = true.
Variable sc : pscc.
Hypothesis Hok : scc_ok arities P sc = true.

Let dyn := s_dyn sc.
Let hr := scc_head_rels P sc.

Lemma rule_no_agg : forall j r, nth_error P j = Some r -> forallb no_agg_item (body r) = true.
Proof.
  intros j r Hr. apply nth_error_In in Hr. unfold no_agg in Hnoagg. rewrite forallb_forall in Hnoagg.
  exact (Hnoagg r Hr).
Qed.

(* ----- unpacking the validator ----- *)
Lemma scc_ok_parts :
  forallb (variant_ok arities P dyn) (s_vars sc) = true
  /\ forallb (fun q => is_dyn dyn q) hr = true
  /\ forallb (fun j =>
       match nth_error P j with
       | Some r =>
           let n := length (filter (is_dyn dyn) (body_clause_rels r)) in
           let ws := map (fun v => dyn_versions dyn (v_items v)) (filter (fun v => Nat.eqb (v_rule v) j) (s_vars sc)) in
           covers n ws && (s_loop sc || Nat.eqb n 0)
           && forallb (fun q => negb (is_dyn dyn q)) (body_agg_rels r)
       | None => false
       end) (rules_of_scc sc) = true.
Proof.
  unfold scc_ok in Hok. fold dyn in Hok. fold hr in Hok.
  apply andb_true_iff in Hok as [H123 H4]. apply andb_true_iff in H123 as [H12 H3].
  apply andb_true_iff in H12 as [H1 H2]. auto.
Qed.

Lemma scc_ok_variant : forall v, In v (s_vars sc) -> variant_ok arities P dyn v = true.
Proof.
  intros v Hv. destruct scc_ok_parts as [H _]. rewrite forallb_forall in H. exact (H v Hv).
Qed.

Lemma hr_dyn : forall q, In q hr -> is_dyn dyn q = true.
Proof.
  intros q Hq. destruct scc_ok_parts as [_ [H _]]. rewrite forallb_forall in H. exact (H q Hq).
Qed.

Lemma scc_ok_rule : forall j, In j (rules_of_scc sc) ->
  exists r, nth_error P j = Some r
    /\ covers (ndyn_items dyn (body r))
              (map (fun v => dyn_versions dyn (v_items v)) (filter (fun v => Nat.eqb (v_rule v) j) (s_vars sc))) = true
    /\ (s_loop sc = true \/ ndyn_items dyn (body r) = 0).
Proof.
  intros j Hj. destruct scc_ok_parts as [_ [_ H]]. rewrite forallb_forall in H. specialize (H j Hj).
  destruct (nth_error P j) as [r|]; [|discriminate]. exists r. split; [reflexivity|].
  cbv zeta in H. apply andb_true_iff in H as [H _]. apply andb_true_iff in H as [H1 H2].
  split; [exact H1|]. apply orb_true_iff in H2 as [H2 | H2]; [left; exact H2 | right; apply Nat.eqb_eq; exact H2].
Qed.

Lemma variant_ok_unpack : forall v, variant_ok arities P dyn v = true ->
  exists r, nth_error P (v_rule v) = Some r /\ map item_of (v_items v) = body r /\ v_heads v = heads r
    /\ variant_wf arities dyn v = true
    /\ (forall h, In h (v_heads v) -> arity_ok arities (fst h) (length (snd h)) = true).
Proof.
  intros v H. unfold variant_ok, rule_of_variant in H.
  destruct (nth_error P (v_rule v)) as [r|] eqn:Hr; [|discriminate]. exists r. split; [reflexivity|].
  apply andb_true_iff in H as [H123 H4]. apply andb_true_iff in H123 as [H12 H3].
  apply andb_true_iff in H12 as [H1 H2].
  apply (list_eqb_eq _ _ bitem_eqb_eq) in H1. apply (list_eqb_eq _ _ head_eqb_eq) in H2.
  split; [exact H1|]. split; [exact H2|].
  destruct (check_from arities [] (v_items v) (v_sj v) (v_reord v)) as [B|] eqn:Hc; [|discriminate].
  split.
  - unfold variant_wf. rewrite H3, Hc, H4, H1, (rule_no_agg _ _ Hr). reflexivity.
  - intros h Hh. unfold heads_ok in H4. rewrite forallb_forall in H4. specialize (H4 h Hh).
    apply andb_true_iff in H4 as [H4 _]. exact H4.
Qed.

Lemma variant_rule_in : forall v, In v (s_vars sc) -> In (v_rule v) (rules_of_scc sc).
Proof.
  intros v Hv. unfold rules_of_scc. apply dedup_nat_In. apply in_map. exact Hv.
Qed.

(* every variant of rule j admitting assignment a *)
Lemma cover_variant : forall j r a,
  In j (rules_of_scc sc) -> nth_error P j = Some r ->
  length a = ndyn_items dyn (body r) ->
  has_delta a = true \/ ndyn_items dyn (body r) = 0 ->
  exists v, In v (s_vars sc) /\ v_rule v = j /\ admits (dyn_versions dyn (v_items v)) a = true.
Proof.
  intros j r a Hj Hr Hlen Hd. destruct (scc_ok_rule j Hj) as [r' [Hr' [Hcov _]]].
  rewrite Hr in Hr'. injection Hr' as <-.
  destruct (covers_spec _ _ a Hcov) as [w [Hw Hadm]]; [| exact Hlen | exact Hd |].
  - intros w Hw. apply in_map_iff in Hw as [v [<- Hv]]. apply filter_In in Hv as [Hv Hvj].
    apply Nat.eqb_eq in Hvj. destruct (variant_ok_unpack v (scc_ok_variant v Hv)) as [r' [Hr' [Hit _]]].
    rewrite Hvj, Hr in Hr'. injection Hr' as <-. rewrite dyn_versions_length, Hit. reflexivity.
  - apply in_map_iff in Hw as [v [<- Hv]]. apply filter_In in Hv as [Hv Hvj]. apply Nat.eqb_eq in Hvj.
    exists v. auto.
Qed.

(* ----- facts derived by a variant ----- *)
Lemma wf_fact_of_arity : forall f q n, arity_ok arities q n = true -> fst f = q -> length (snd f) = n ->
  wf_fact arities f = true.
Proof. intros f q n H <- <-. exact H. Qed.

Lemma variant_fact_props : forall S T D v f,
  In v (s_vars sc) -> In f (derive_variant I (contents S T D dyn) dyn v) ->
  In (fst f) hr /\ wf_fact arities f = true.
Proof.
  intros S T D v f Hv Hf. destruct (variant_ok_unpack v (scc_ok_variant v Hv)) as [r [Hr [Hit [Hhd [_ Har]]]]].
  unfold derive_variant in Hf. apply in_heads_of_envs in Hf as [e [h [_ [Hh Hev]]]].
  apply eval_head_shape in Hev as [Hfst Hlen]. split.
  - unfold hr, scc_head_rels. apply in_flat_map. exists (v_rule v). split; [apply variant_rule_in; exact Hv|].
    rewrite Hr. unfold head_rels. rewrite Hfst. apply in_map. rewrite <- Hhd. exact Hh.
  - apply (wf_fact_of_arity f (fst h) (length (snd h))); [apply Har; exact Hh | exact Hfst | exact Hlen].
Qed.

Lemma variant_fact_sound : forall S T D v f M,
  In v (s_vars sc) -> closed I P M -> incl S M -> incl T M -> incl D M ->
  In f (derive_variant I (contents S T D dyn) dyn v) -> In f M.
Proof.
  intros S T D v f M Hv Hcl HS HT HD Hf.
  destruct (variant_ok_unpack v (scc_ok_variant v Hv)) as [r [Hr [Hit [Hhd _]]]].
  unfold derive_variant in Hf. rewrite Hit, Hhd in Hf. apply in_heads_of_envs in Hf as [e [h [He [Hh Hev]]]].
  apply Hcl. exists r. split; [eapply nth_error_In; exact Hr|]. unfold derive_rule.
  apply in_heads_of_envs. exists e, h. split; [|split; assumption].
  revert He. apply all_envs_a_into_sem; [eapply rule_no_agg; exact Hr|].
  intros q ver _. apply contents_incl_db; assumption.
Qed.

(* ----- the stratum: static facts S, rows at entry R0 ----- *)
Variable S : list fact.
Variable R0 : list fact.
Hypothesis HwfS : forall f, In f S -> wf_fact arities f = true.
Hypothesis HS_R0 : incl S R0.

Lemma eval_in_derive : forall T D v f,
  (forall g, In g (T ++ D) -> wf_fact arities g = true) -> In v (s_vars sc) ->
  (In f (eval_variant I swap (contents S T D dyn) v) <-> In f (derive_variant I (contents S T D dyn) dyn v)).
Proof.
  intros T D v f Hwf Hv. destruct (variant_ok_unpack v (scc_ok_variant v Hv)) as [r [_ [_ [_ [Hvwf _]]]]].
  apply (Hspec arities S T D dyn v Hfun).
  - apply wf_facts_forall. exact HwfS.
  - apply wf_facts_forall. intros g Hg. apply Hwf. apply in_or_app. left. exact Hg.
  - apply wf_facts_forall. intros g Hg. apply Hwf. apply in_or_app. right. exact Hg.
  - exact Hvwf.
Qed.

(* (Idx) + (Snd), in terms of X = T ++ D *)
Definition Inv' (X R : list fact) : Prop :=
  (forall f, In f X -> wf_fact arities f = true)
  /\ (forall f, In f X <-> In f R /\ fact_dyn dyn f = true)
  /\ (exists A, R = R0 ++ A /\ NoDup A /\ forall f, In f A -> ~ In f R0 /\ In (fst f) hr)
  /\ (forall M, closed I P M -> incl R0 M -> incl R M).

(* (SN) *)
Definition SN (T D : list fact) : Prop :=
  forall j r f, In j (rules_of_scc sc) -> nth_error P j = Some r -> ndyn_items dyn (body r) <> 0 ->
    In f (derive_rule I (sdb S T dyn) r) -> In f (T ++ D).

Definition FullClosed (X Y : list fact) : Prop :=
  forall j r f, In j (rules_of_scc sc) -> nth_error P j = Some r ->
    In f (derive_rule I (sdb S X dyn) r) -> In f Y.

Lemma step_inv : forall T D R N R',
  Inv' (T ++ D) R -> scc_iteration I swap sc S T D R = (N, R') -> Inv' ((T ++ D) ++ N) R'.
Proof.
  intros T D R N R' [Hwf [Hidx [[A [HR [HndA HA]]] Hsnd]]] Hit.
  destruct (scc_iteration_spec _ _ _ _ _ _ _ _ _ Hit) as [HR' [HndN [HN _]]]. fold dyn in HN.
  assert (HNp : forall f, In f N -> In (fst f) hr /\ wf_fact arities f = true
                 /\ forall M, closed I P M -> incl R0 M -> In f M).
  { intros f Hf. destruct (HN f Hf) as [[v [Hv Hev]] _]. apply (eval_in_derive T D v f Hwf Hv) in Hev.
    destruct (variant_fact_props S T D v f Hv Hev) as [H1 H2]. split; [exact H1|]. split; [exact H2|].
    intros M Hcl HM. assert (HRM : incl R M) by (apply Hsnd; assumption).
    assert (HX : incl (T ++ D) M). { intros g Hg. apply HRM. apply Hidx. exact Hg. }
    apply (variant_fact_sound S T D v f M Hv Hcl).
    - intros g Hg. apply HM. apply HS_R0. exact Hg.
    - intros g Hg. apply HX. apply in_or_app. left. exact Hg.
    - intros g Hg. apply HX. apply in_or_app. right. exact Hg.
    - exact Hev. }
  assert (HNnot : forall f, In f N -> ~ In f (T ++ D)).
  { intros f Hf Hin. destruct (HN f Hf) as [_ [H1 H2]]. apply in_app_or in Hin as [Hin | Hin]; auto. }
  assert (Hdynhr : forall f, In (fst f) hr -> fact_dyn dyn f = true).
  { intros f Hf. unfold fact_dyn. apply hr_dyn. exact Hf. }
  split; [|split; [|split]].
  - intros f Hf. apply in_app_or in Hf as [Hf | Hf]; [apply Hwf; exact Hf | apply HNp; exact Hf].
  - intros f. rewrite HR'. split.
    + intros Hf. apply in_app_or in Hf as [Hf | Hf].
      * apply Hidx in Hf as [H1 H2]. split; [apply in_or_app; left; exact H1 | exact H2].
      * split; [apply in_or_app; right; exact Hf|]. apply Hdynhr. apply HNp. exact Hf.
    + intros [Hf Hd]. apply in_app_or in Hf as [Hf | Hf]; apply in_or_app.
      * left. apply Hidx. split; assumption.
      * right. exact Hf.
  - exists (A ++ N). split; [rewrite HR', HR, app_assoc; reflexivity|]. split.
    + apply NoDup_app_intro; [exact HndA | exact HndN |].
      intros f HfA HfN. apply (HNnot f HfN). apply Hidx. split.
      * rewrite HR. apply in_or_app. right. exact HfA.
      * apply Hdynhr. apply HA. exact HfA.
    + intros f Hf. apply in_app_or in Hf as [Hf | Hf]; [apply HA; exact Hf|]. split; [|apply HNp; exact Hf].
      intro Hin. apply (HNnot f Hf). apply Hidx. split.
      * rewrite HR. apply in_or_app. left. exact Hin.
      * apply Hdynhr. apply HNp. exact Hf.
  - intros M Hcl HM. rewrite HR'. apply incl_app; [apply Hsnd; assumption|].
    intros f Hf. apply HNp; assumption.
Qed.

(* the semi-naive step: with (SN) for (T, D), one iteration closes the rules over T ++ D *)
Lemma step_sn : forall T D R N R',
  (forall g, In g (T ++ D) -> wf_fact arities g = true) ->
  SN T D -> scc_iteration I swap sc S T D R = (N, R') -> FullClosed (T ++ D) ((T ++ D) ++ N).
Proof.
  intros T D R N R' Hwf Hsn Hit j r f Hj Hr Hf.
  destruct (scc_iteration_spec _ _ _ _ _ _ _ _ _ Hit) as [_ [_ [_ Hcov]]]. fold dyn in Hcov.
  pose proof (rule_no_agg j r Hr) as Hna.
  unfold derive_rule in Hf. apply in_heads_of_envs in Hf as [e [h [He [Hh Hev]]]].
  destruct (extract_assignment I S T D dyn (body r) [] e Hna He) as [a [Hlen Ha]].
  assert (Hcase : (has_delta a = true \/ ndyn_items dyn (body r) = 0)
                  \/ (has_delta a = false /\ ndyn_items dyn (body r) <> 0)).
  { destruct (has_delta a); [left; left; reflexivity|].
    destruct (Nat.eq_dec (ndyn_items dyn (body r)) 0) as [Hz | Hz]; [left; right; exact Hz | right; auto]. }
  destruct Hcase as [Hc | [Hnd Hnz]].
  - destruct (cover_variant j r a Hj Hr Hlen Hc) as [v [Hv [Hvj Hadm]]].
    destruct (variant_ok_unpack v (scc_ok_variant v Hv)) as [r' [Hr' [Hitm [Hhd _]]]].
    rewrite Hvj, Hr in Hr'. injection Hr' as <-.
    assert (Hdv : In f (derive_variant I (contents S T D dyn) dyn v)).
    { unfold derive_variant. rewrite Hitm, Hhd. apply in_heads_of_envs. exists e, h.
      split; [|split; assumption]. revert Ha. apply admits_incl; assumption. }
    apply (eval_in_derive T D v f Hwf Hv) in Hdv.
    destruct (Hcov v f Hv Hdv) as [Hc' | [Hc' | Hc']]; apply in_or_app.
    + left. apply in_or_app. left. exact Hc'.
    + left. apply in_or_app. right. exact Hc'.
    + right. exact Hc'.
  - apply in_or_app. left. apply (Hsn j r f Hj Hr Hnz). unfold derive_rule. apply in_heads_of_envs.
    exists e, h. split; [|split; assumption]. revert Ha. apply no_delta_reads_total; assumption.
Qed.

Lemma sn_init : forall D, SN [] D.
Proof.
  intros D j r f Hj Hr Hnz Hf. unfold derive_rule in Hf.
  rewrite (all_envs_empty_dyn I (sdb S [] dyn) dyn) in Hf; [destruct Hf | | exact Hnz].
  intros q Hq. unfold sdb. rewrite Hq. reflexivity.
Qed.

(* ----- the loop ----- *)
Lemma scc_loop_inv : forall (Q : list fact -> list fact -> list fact -> Prop),
  (forall T D R N R', Q T D R -> scc_iteration I swap sc S T D R = (N, R') -> Q (T ++ D) N R') ->
  forall fuel T D R T' R', Q T D R -> scc_loop I swap fuel sc S T D R = Some (T', R') ->
  exists T1 D1 R1, Q T1 D1 R1 /\ scc_iteration I swap sc S T1 D1 R1 = ([], R') /\ T' = T1 ++ D1.
Proof.
  intros Q Hstep. induction fuel as [|fuel IH]; intros T D R T' R' HQ H; [discriminate|].
  cbn [scc_loop] in H. destruct (scc_iteration I swap sc S T D R) as [N R''] eqn:Hit.
  destruct N as [|f N].
  - injection H as <- <-. exists T, D, R. auto.
  - apply (IH _ _ _ _ _ (Hstep _ _ _ _ _ HQ Hit) H).
Qed.

Definition Post (T' R' : list fact) : Prop := Inv' T' R' /\ FullClosed T' T'.

Lemma scc_loop_post : forall fuel T D R T' R',
  Inv' (T ++ D) R -> SN T D -> scc_loop I swap fuel sc S T D R = Some (T', R') -> Post T' R'.
Proof.
  intros fuel T D R T' R' Hinv Hsn H.
  assert (Hstep : forall T D R N R', Inv' (T ++ D) R /\ SN T D -> scc_iteration I swap sc S T D R = (N, R') ->
                    Inv' ((T ++ D) ++ N) R' /\ SN (T ++ D) N).
  { intros T0 D0 R1 N R2 [Hi Hs] Hit. split; [eapply step_inv; eassumption|].
    intros j r f Hj Hr _ Hf. destruct Hi as [Hwf _]. exact (step_sn _ _ _ _ _ Hwf Hs Hit j r f Hj Hr Hf). }
  destruct (scc_loop_inv (fun T D R => Inv' (T ++ D) R /\ SN T D) Hstep fuel T D R T' R' (conj Hinv Hsn) H)
    as [T1 [D1 [R1 [[Hi1 Hs1] [Hit ->]]]]].
  pose proof (step_inv _ _ _ _ _ Hi1 Hit) as Hi2. destruct Hi1 as [Hwf _].
  pose proof (step_sn _ _ _ _ _ Hwf Hs1 Hit) as Hfc. rewrite app_nil_r in Hi2, Hfc. split; assumption.
Qed.

(* a non-looping stratum: no dynamic clause, one evaluation *)
Lemma scc_once_post : forall D R N R',
  s_loop sc = false -> Inv' ([] ++ D) R -> scc_iteration I swap sc S [] D R = (N, R') -> Post (D ++ N) R'.
Proof.
  intros D R N R' Hl Hinv Hit. pose proof (step_inv _ _ _ _ _ Hinv Hit) as Hi2. destruct Hinv as [Hwf _].
  pose proof (step_sn _ _ _ _ _ Hwf (sn_init D) Hit) as Hfc. cbn [app] in Hi2, Hfc. split; [exact Hi2|].
  intros j r f Hj Hr Hf. apply (Hfc j r f Hj Hr).
  destruct (scc_ok_rule j Hj) as [r' [Hr' [_ Hz]]]. rewrite Hr in Hr'. injection Hr' as <-.
  destruct Hz as [Hz | Hz]; [congruence|].
  revert Hf. apply derive_rule_mono.
  - unfold no_agg_rule. eapply rule_no_agg. exact Hr.
  - intros q Hq. rewrite body_clause_rels_eq in Hq. unfold sdb. rewrite (ndyn_zero_static dyn _ q Hz Hq).
    apply incl_refl.
Qed.

(* ----- from the post-condition to the stored indices and the rows ----- *)
Hypothesis HS_static : forall f, In f S -> fact_dyn dyn f = false.
Hypothesis HR0_static : forall f, In f R0 -> fact_dyn dyn f = false -> In f S.

Lemma post_static_rows : forall T' R' f, Post T' R' -> In f R' -> fact_dyn dyn f = false -> In f S.
Proof.
  intros T' R' f [[_ [_ [[A [HR [_ HA]]] _]]] _] Hf Hd. rewrite HR in Hf. apply in_app_or in Hf as [Hf | Hf].
  - apply HR0_static; assumption.
  - exfalso. destruct (HA f Hf) as [_ Hh]. unfold fact_dyn in Hd. rewrite (hr_dyn _ Hh) in Hd. discriminate.
Qed.

Lemma post_stored : forall T' R', Post T' R' -> forall f, In f (S ++ T') <-> In f R'.
Proof.
  intros T' R' HP f. pose proof HP as [[_ [Hidx [[A [HR _]] _]]] _]. split.
  - intros Hf. apply in_app_or in Hf as [Hf | Hf].
    + rewrite HR. apply in_or_app. left. apply HS_R0. exact Hf.
    + apply Hidx. exact Hf.
  - intros Hf. apply in_or_app. destruct (fact_dyn dyn f) eqn:Hd.
    + right. apply Hidx. split; assumption.
    + left. eapply post_static_rows; eassumption.
Qed.

Lemma post_wf : forall T' R', (forall f, In f R0 -> wf_fact arities f = true) -> Post T' R' ->
  forall f, In f R' -> wf_fact arities f = true.
Proof.
  intros T' R' HwfR0 [[Hwf [Hidx [[A [HR [_ HA]]] _]]] _] f Hf. pose proof Hf as Hf'. rewrite HR in Hf'.
  apply in_app_or in Hf' as [Hf' | Hf']; [apply HwfR0; exact Hf'|].
  apply Hwf. apply Hidx. split; [exact Hf|]. unfold fact_dyn. apply hr_dyn. apply HA. exact Hf'.
Qed.

Lemma post_closed : forall T' R', Post T' R' ->
  forall j r f, In j (rules_of_scc sc) -> nth_error P j = Some r ->
    In f (derive_rule I (db_of R') r) -> In f R'.
Proof.
  intros T' R' HP j r f Hj Hr Hf. pose proof HP as [[_ [Hidx _]] Hfc].
  apply Hidx. apply (Hfc j r f Hj Hr). revert Hf. apply derive_rule_mono.
  - unfold no_agg_rule. eapply rule_no_agg. exact Hr.
  - intros q _ t Ht. apply in_db_of in Ht. unfold sdb. destruct (is_dyn dyn q) eqn:Hd; apply in_db_of.
    + apply Hidx. split; [exact Ht | exact Hd].
    + eapply post_static_rows; [exact HP | exact Ht | exact Hd].
Qed.

Lemma inv_init : forall D0,
  (forall f, In f R0 -> wf_fact arities f = true) ->
  (forall f, In f D0 <-> In f R0 /\ fact_dyn dyn f = true) ->
  Inv' ([] ++ D0) R0.
Proof.
  intros D0 HwfR0 HD0. cbn [app]. split; [|split; [|split]].
  - intros f Hf. apply HwfR0. apply HD0. exact Hf.
  - exact HD0.
  - exists []. rewrite app_nil_r. split; [reflexivity|]. split; [constructor | intros f []].
  - intros M _ HM. exact HM.
Qed.
End Scc.

(* ---------- specification of run_scc ---------- *)
Theorem run_scc_spec : forall I swap arities P sc fuel st st',
  eval_variant_spec_stmt I swap -> arities_functional arities -> no_agg P = true ->
  scc_ok arities P sc = true ->
  (forall f, In f (stored st) <-> In f (rows st)) ->
  (forall f, In f (rows st) -> wf_fact arities f = true) ->
  run_scc I swap fuel sc st = Some st' ->
  (forall f, In f (stored st') <-> In f (rows st'))
  /\ (forall f, In f (rows st') -> wf_fact arities f = true)
  /\ (exists A, rows st' = rows st ++ A /\ NoDup A
        /\ forall f, In f A -> ~ In f (rows st) /\ In (fst f) (scc_head_rels P sc))
  /\ (forall M, closed I P M -> incl (rows st) M -> incl (rows st') M)
  /\ (forall j r f, In j (rules_of_scc sc) -> nth_error P j = Some r ->
        In f (derive_rule I (db_of (rows st')) r) -> In f (rows st')).
Proof.
  intros I swap arities P sc fuel st st' Hspec Hfun Hna Hok Hsr Hwf Hrun.
  set (dyn := s_dyn sc) in *.
  set (D0 := filter (fact_dyn dyn) (stored st)).
  set (S := filter (fun f => negb (fact_dyn dyn f)) (stored st)).
  assert (HwfS : forall f, In f S -> wf_fact arities f = true).
  { intros f Hf. apply filter_In in Hf as [Hf _]. apply Hwf. apply Hsr. exact Hf. }
  assert (HS_R0 : incl S (rows st)).
  { intros f Hf. apply filter_In in Hf as [Hf _]. apply Hsr. exact Hf. }
  assert (HS_static : forall f, In f S -> fact_dyn dyn f = false).
  { intros f Hf. apply filter_In in Hf as [_ Hf]. apply negb_true_iff in Hf. exact Hf. }
  assert (HR0_static : forall f, In f (rows st) -> fact_dyn dyn f = false -> In f S).
  { intros f Hf Hd. apply filter_In. split; [apply Hsr; exact Hf | rewrite Hd; reflexivity]. }
  assert (HD0 : forall f, In f D0 <-> In f (rows st) /\ fact_dyn dyn f = true).
  { intros f. unfold D0. rewrite filter_In, Hsr. reflexivity. }
  pose proof (inv_init I arities P sc (rows st) D0 Hwf HD0) as Hinit.
  assert (HPost : exists T', stored st' = S ++ T' /\ Post I arities P sc S (rows st) T' (rows st')).
  { unfold run_scc in Hrun. fold dyn in Hrun. fold D0 in Hrun. fold S in Hrun.
    destruct (s_loop sc) eqn:Hl.
    - destruct (scc_loop I swap fuel sc S [] D0 (rows st)) as [[T' R']|] eqn:Hloop; [|discriminate].
      injection Hrun as <-. exists T'. split; [reflexivity|]. cbn [rows].
      apply (scc_loop_post I swap Hspec arities P Hfun Hna sc Hok S (rows st) HwfS HS_R0 fuel [] D0 (rows st) T' R' Hinit).
      + apply sn_init.
      + exact Hloop.
    - destruct (scc_iteration I swap sc S [] D0 (rows st)) as [N R'] eqn:Hit.
      injection Hrun as <-. exists (D0 ++ N). split; [reflexivity|]. cbn [rows].
      apply (scc_once_post I swap Hspec arities P Hfun Hna sc Hok S (rows st) HwfS HS_R0 D0 (rows st) N R' Hl Hinit Hit). }
  destruct HPost as [T' [Hst' HP]].
  split; [|split; [|split; [|split]]].
  - intros f. rewrite Hst'. apply (post_stored I arities P sc Hok S (rows st) HS_R0 HR0_static T' (rows st') HP).
  - apply (post_wf I arities P sc Hok S (rows st) T' (rows st') Hwf HP).
  - destruct HP as [[_ [_ [HA _]]] _]. exact HA.
  - destruct HP as [[_ [_ [_ Hs]]] _]. exact Hs.
  - apply (post_closed I arities P Hna sc Hok S (rows st) HR0_static T' (rows st') HP).
Qed.
