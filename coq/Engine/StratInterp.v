(* Interpolation for stratified models (specification level): if M is the stratified model
   of the input F and F <= R <= M, then the stratified model of R has the members of M.
   Needs a genuine stratification (Strat.stratified) and permutation-invariant aggregators.
   Used for resuming an interrupted run (TimeoutProofsAgg.v). *)
From Coq Require Import List ZArith Bool Arith Lia Permutation.
From AV Require Import Engine.Core Engine.Sem Engine.Eval Engine.Validate Engine.Naive Engine.Interface Engine.Strat.
From AV Require Import Engine.InterfaceAgg Engine.StratFixed Engine.NaiveLemmas Engine.AggLemmas Engine.StratFixedLemmas.
Import ListNotations.
Local Open Scope nat_scope.

Section Interp.
Variable I : interp.
Hypothesis Hperm : agg_perm_invariant I.

Lemma derive_head_rel : forall db r f, In f (derive_rule I db r) -> In (fst f) (rule_heads r).
Proof.
  intros db r f Hf. unfold derive_rule in Hf. apply in_heads_of_envs in Hf as [e [h [_ [Hh Hev]]]].
  apply eval_head_shape in Hev as [He _]. rewrite He. unfold rule_heads. apply in_map. exact Hh.
Qed.

(* a least model only adds facts of the stratum's head relations *)
Lemma lmf_heads : forall s F M1, least_model_fixed I s F M1 ->
  forall f, In f M1 -> In f F \/ In (fst f) (flat_map rule_heads s).
Proof.
  intros s F M1 [HF [Hag [Hcl Hleast]]].
  set (keep := fun f : fact => mem_fact f F || memr (fst f) (flat_map rule_heads s)).
  assert (Hsub : incl M1 (filter keep M1)).
  { apply Hleast.
    - intros f Hf. apply filter_In. split; [apply HF; exact Hf|]. unfold keep.
      apply orb_true_iff. left. apply mem_fact_In. exact Hf.
    - intros f Hf. rewrite filter_In. split.
      + intros [H _]. apply (Hag f Hf). exact H.
      + intros H. split; [apply HF; exact H|]. unfold keep. apply orb_true_iff. left. apply mem_fact_In. exact H.
    - intros f [r [Hr Hf]]. apply filter_In. split.
      + apply Hcl. exists r. split; [exact Hr|]. revert Hf. apply derive_rule_mono_agg; [exact Hperm | |].
        * intros q Hq t. rewrite !in_db_of, filter_In. split; [intros [H _]; exact H|]. intros H.
          split; [exact H|]. unfold keep. apply orb_true_iff. left. apply mem_fact_In.
          apply (Hag (q, t)); [|exact H]. cbn [fst]. unfold stratum_agg_rels. apply in_flat_map. exists r. split; assumption.
        * intros q _ t Ht. apply in_db_of in Ht. apply in_db_of. apply filter_In in Ht. apply Ht.
      + unfold keep. apply orb_true_iff. right. unfold memr. apply existsb_nat_In. apply in_flat_map.
        exists r. split; [exact Hr|]. eapply derive_head_rel. exact Hf. }
  intros f Hf. apply Hsub in Hf. apply filter_In in Hf as [_ Hk]. unfold keep in Hk.
  apply orb_true_iff in Hk as [Hk | Hk]; [left; apply mem_fact_In; exact Hk|].
  right. unfold memr in Hk. apply existsb_nat_In in Hk. exact Hk.
Qed.

Lemma smf_incl : forall strata F M, strat_model_fixed I strata F M -> incl F M.
Proof.
  induction strata as [|s rest IH]; intros F M H.
  - apply H.
  - destruct H as [M1 [[HF _] Hs]]. eapply incl_tran; [exact HF | apply (IH _ _ Hs)].
Qed.

Lemma smf_heads : forall strata F M, strat_model_fixed I strata F M ->
  forall f, In f M -> In f F \/ In (fst f) (flat_map rule_heads (concat strata)).
Proof.
  induction strata as [|s rest IH]; intros F M H f Hf.
  - left. apply H. exact Hf.
  - destruct H as [M1 [Hl Hs]]. cbn [concat]. rewrite flat_map_app, in_app_iff.
    destruct (IH _ _ Hs f Hf) as [H1 | H1]; [|auto].
    destruct (lmf_heads s F M1 Hl f H1) as [H2 | H2]; auto.
Qed.

Lemma stratified_cons : forall s rest, stratified (s :: rest) = true ->
  (forall r q, In r s ->
     (In q (rule_agg_rels r) -> ~ In q (flat_map rule_heads (concat rest)) /\ ~ In q (flat_map rule_heads s))
     /\ (In q (rule_clause_rels r) -> ~ In q (flat_map rule_heads (concat rest))))
  /\ stratified rest = true.
Proof.
  intros s rest H. cbn [stratified] in H. apply andb_true_iff in H as [H Hrest]. split; [|exact Hrest].
  intros r q Hr. rewrite forallb_forall in H. specialize (H r Hr). apply andb_true_iff in H as [Ha Hc].
  rewrite forallb_forall in Ha, Hc. split.
  - intros Hq. specialize (Ha q Hq). apply andb_true_iff in Ha as [H1 H2].
    apply negb_true_iff in H1, H2. unfold memr in H1, H2. split; intro Hin; apply existsb_nat_In in Hin; congruence.
  - intros Hq. specialize (Hc q Hq). apply negb_true_iff in Hc. unfold memr in Hc.
    intro Hin. apply existsb_nat_In in Hin. congruence.
Qed.

(* one stratum: the least model over the larger input is the old one plus the extra input *)
Lemma lmf_interp : forall s rest F M1 M R M1',
  stratified (s :: rest) = true ->
  least_model_fixed I s F M1 -> strat_model_fixed I rest M1 M ->
  least_model_fixed I s R M1' -> incl F R -> incl R M ->
  forall f, In f M1' <-> In f (M1 ++ R).
Proof.
  intros s rest F M1 M R M1' Hstr [HF1 [Hag1 [Hcl1 Hl1]]] Hsm [HR1 [Hag1' [Hcl1' Hl1']]] HFR HRM.
  destruct (stratified_cons s rest Hstr) as [Hsc _].
  assert (KF : forall r q t, In r s -> In q (rule_agg_rels r) \/ In q (rule_clause_rels r) ->
                             In (q, t) R -> In (q, t) M1).
  { intros r q t Hr Hq Hin. destruct (smf_heads rest M1 M Hsm (q, t) (HRM _ Hin)) as [H | H]; [exact H|].
    exfalso. cbn [fst] in H. destruct (Hsc r q Hr) as [Ha Hc]. destruct Hq as [Hq | Hq].
    - exact (proj1 (Ha Hq) H).
    - exact (Hc Hq H). }
  assert (KA : forall f, In (fst f) (stratum_agg_rels s) -> In f R -> In f F).
  { intros [q t] Hq Hin. cbn [fst] in Hq. unfold stratum_agg_rels in Hq. apply in_flat_map in Hq as [r [Hr Hq]].
    apply (Hag1 (q, t)); [cbn [fst]; unfold stratum_agg_rels; apply in_flat_map; exists r; split; assumption|].
    apply (KF r q t Hr (or_introl Hq) Hin). }
  assert (H1 : incl M1 M1').
  { apply Hl1.
    - eapply incl_tran; eassumption.
    - intros f Hf. rewrite (Hag1' f Hf). split; [apply KA; exact Hf | apply HFR].
    - exact Hcl1'. }
  assert (H2 : incl M1' (M1 ++ R)).
  { apply Hl1'.
    - apply incl_appr. apply incl_refl.
    - intros f Hf. rewrite in_app_iff. split; [|auto]. intros [H | H]; [|exact H].
      apply HFR. apply (Hag1 f Hf). exact H.
    - intros f [r [Hr Hf]]. apply in_or_app. left. apply Hcl1. exists r. split; [exact Hr|].
      revert Hf. apply derive_rule_mono_agg; [exact Hperm | |].
      + intros q Hq t. rewrite !in_db_of, in_app_iff. split; [|auto]. intros [H | H]; [exact H|].
        apply (KF r q t Hr (or_introl Hq) H).
      + intros q Hq t Ht. apply in_db_of in Ht. apply in_db_of. apply in_app_or in Ht as [H | H]; [exact H|].
        apply (KF r q t Hr (or_intror Hq) H). }
  intros f. split; [apply H2|]. intros Hf. apply in_app_or in Hf as [Hf | Hf]; [apply H1; exact Hf | apply HR1; exact Hf].
Qed.

Theorem smf_interp : forall strata F M R M',
  stratified strata = true ->
  strat_model_fixed I strata F M -> strat_model_fixed I strata R M' ->
  incl F R -> incl R M -> forall f, In f M' <-> In f M.
Proof.
  induction strata as [|s rest IH]; intros F M R M' Hstr HM HM' HFR HRM f.
  - destruct HM as [H1 H2]. destruct HM' as [H1' H2']. split.
    + intros Hf. apply HRM. apply H2'. exact Hf.
    + intros Hf. apply H1'. apply HFR. apply H2. exact Hf.
  - pose proof HM as [M1 [Hl Hs]]. pose proof HM' as [M1' [Hl' Hs']].
    pose proof (lmf_interp s rest F M1 M R M1' Hstr Hl Hs Hl' HFR HRM) as Hsame.
    destruct (stratified_cons s rest Hstr) as [_ Hrest].
    apply (IH M1 M M1' M' Hrest Hs Hs').
    + intros g Hg. apply Hsame. apply in_or_app. left. exact Hg.
    + intros g Hg. apply Hsame in Hg. apply in_app_or in Hg as [Hg | Hg]; [apply (smf_incl rest M1 M Hs); exact Hg | apply HRM; exact Hg].
Qed.
End Interp.

Print Assumptions smf_interp.
