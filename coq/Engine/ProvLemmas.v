(* Provider-backed relation (C10-C12), part 1: histories and their ghosts, what the
   views serve along a history, and the specification of the head-update fold of
   EvalProv.phead_update (which threads the provider state). *)
From Coq Require Import List ZArith Bool Arith Lia.
From AV Require Import Engine.Core Engine.Sem Engine.Eval Byods.Provider Engine.EvalProv Engine.InterfaceProv.
From AV Require Import Engine.NaiveLemmas.
Import ListNotations.
Local Open Scope nat_scope.

Section Hist.
Variable PV : provider tuple.
Variable cl : list tuple -> list tuple.
Hypothesis Hcl : closure_op tuple cl.
Hypothesis Hok : provider_ok tuple PV cl.

Definition hist := list (pop tuple).
Definition gh (h : hist) : ghost tuple := ghost_of tuple h.
Definition rd (h : hist) (v : Provider.ver) : list tuple := p_read tuple PV (run tuple PV h) v.
Definition srv (h : hist) : list tuple := served tuple PV (run tuple PV h).
Definition inss (ins : list tuple) : hist := map (fun t => PIns t) ins.

Lemma srv_eq : forall h, srv h = rd h Provider.VTotal ++ rd h Provider.VDelta.
Proof. reflexivity. Qed.

Lemma srv_iff : forall h t, In t (srv h) <-> In t (cl (g_td tuple (gh h))).
Proof. intros h t. destruct (ok_P2 tuple PV cl Hok h) as [H1 H2]. split; [apply H1 | apply H2]. Qed.

Lemma total_iff : forall h t, In t (rd h Provider.VTotal) <-> In t (cl (g_t tuple (gh h))).
Proof. intros h t. destruct (ok_P3 tuple PV cl Hok h) as [H1 H2]. split; [apply H1 | apply H2]. Qed.

Lemma total_in_srv : forall h t, In t (rd h Provider.VTotal) -> In t (srv h).
Proof. intros h t H. rewrite srv_eq. apply in_or_app. left. exact H. Qed.

Lemma rd_in_srv : forall h v t, In t (rd h v) -> In t (srv h).
Proof. intros h v t H. rewrite srv_eq. apply in_or_app. destruct v; [left | right]; exact H. Qed.

Lemma gh_snoc : forall h o, gh (h ++ [o]) = ghost_step tuple (gh h) o.
Proof. intros. apply ghost_of_snoc. Qed.

Lemma gh_ins : forall ins h,
  g_t tuple (gh (h ++ inss ins)) = g_t tuple (gh h)
  /\ g_td tuple (gh (h ++ inss ins)) = g_td tuple (gh h)
  /\ g_new tuple (gh (h ++ inss ins)) = g_new tuple (gh h) ++ ins.
Proof.
  induction ins as [|t ins IH]; intros h.
  - cbn [inss map]. rewrite !app_nil_r. auto.
  - cbn [inss map]. change (PIns t :: map (fun t0 => PIns t0) ins) with ([PIns t] ++ inss ins).
    rewrite app_assoc. destruct (IH (h ++ [PIns t])) as [H1 [H2 H3]]. rewrite H1, H2, H3, gh_snoc.
    cbn [ghost_step g_t g_td g_new]. rewrite <- app_assoc. auto.
Qed.

Lemma srv_ins : forall h ins t, In t (srv (h ++ inss ins)) <-> In t (srv h).
Proof. intros h ins t. rewrite !srv_iff. destruct (gh_ins ins h) as [_ [H _]]. rewrite H. reflexivity. Qed.

Lemma total_ins : forall h ins t, In t (rd (h ++ inss ins) Provider.VTotal) <-> In t (rd h Provider.VTotal).
Proof. intros h ins t. rewrite !total_iff. destruct (gh_ins ins h) as [H _]. rewrite H. reflexivity. Qed.

Lemma gh_t_sub_td : forall h, incl (g_t tuple (gh h)) (g_td tuple (gh h)).
Proof.
  induction h as [|o h IH] using rev_ind; [intros t []|].
  rewrite gh_snoc. destruct o; cbn [ghost_step g_t g_td].
  - exact IH.
  - apply incl_appl. apply incl_refl.
  - intros t [].
Qed.

Lemma total_sub_cl_td : forall h t, In t (rd h Provider.VTotal) -> In t (cl (g_td tuple (gh h))).
Proof. intros h t H. apply srv_iff. apply total_in_srv. exact H. Qed.

Lemma gh_merge : forall h,
  g_t tuple (gh (h ++ [PMerge])) = g_td tuple (gh h)
  /\ g_td tuple (gh (h ++ [PMerge])) = g_td tuple (gh h) ++ g_new tuple (gh h)
  /\ g_new tuple (gh (h ++ [PMerge])) = [].
Proof. intros h. rewrite gh_snoc. cbn [ghost_step g_t g_td g_new]. auto. Qed.

Lemma gh_restart : forall h,
  g_t tuple (gh (h ++ [PRestart])) = []
  /\ g_td tuple (gh (h ++ [PRestart])) = g_t tuple (gh h)
  /\ g_new tuple (gh (h ++ [PRestart])) = [].
Proof. intros h. rewrite gh_snoc. cbn [ghost_step g_t g_td g_new]. auto. Qed.

Lemma srv_merge_mono : forall h t, In t (srv h) -> In t (srv (h ++ [PMerge])).
Proof.
  intros h t H. apply srv_iff. apply srv_iff in H. destruct (gh_merge h) as [_ [H2 _]]. rewrite H2.
  revert H. apply (cl_mono tuple cl Hcl). apply incl_appl. apply incl_refl.
Qed.

Lemma new_srv_merge : forall h t, In t (g_new tuple (gh h)) -> In t (srv (h ++ [PMerge])).
Proof. intros h t H. apply (inserted_served tuple PV cl Hcl Hok h). exact H. Qed.

Lemma total_merge : forall h t, In t (rd (h ++ [PMerge]) Provider.VTotal) <-> In t (srv h).
Proof. intros h t. destruct (merge_total tuple PV cl Hok h) as [H1 H2]. split; [apply H1 | apply H2]. Qed.

Lemma quiescent : forall h t, g_new tuple (gh h) = [] ->
  In t (srv (h ++ [PMerge])) -> In t (rd (h ++ [PMerge]) Provider.VTotal).
Proof. intros h t Hn H. destruct (quiescent_exit tuple PV cl Hok h Hn) as [_ H2]. apply H2. exact H. Qed.

Lemma srv_restart : forall h t, In t (srv (h ++ [PRestart])) <-> In t (rd h Provider.VTotal).
Proof. intros h t. destruct (restart_serves tuple PV cl Hcl Hok h) as [[H1 H2] _]. split; [apply H1 | apply H2]. Qed.

Lemma total_restart : forall h, rd (h ++ [PRestart]) Provider.VTotal = [].
Proof. intros h. apply (restart_serves tuple PV cl Hcl Hok h). Qed.

Lemma contains_srv : forall h t,
  p_contains tuple PV (run tuple PV h) Provider.VTotal t || p_contains tuple PV (run tuple PV h) Provider.VDelta t = true
  <-> In t (srv h).
Proof.
  intros h t. rewrite orb_true_iff, !(ok_P5 tuple PV cl Hok), srv_eq, in_app_iff. reflexivity.
Qed.

(* arity of everything served *)
Lemma srv_len : forall n0 h t, cl_arity cl n0 -> (forall u, In u (g_td tuple (gh h)) -> length u = n0) ->
  In t (srv h) -> length t = n0.
Proof. intros n0 h t Har Hg H. apply srv_iff in H. exact (Har _ t Hg H). Qed.

(* ---------- the head-update fold ---------- *)
Variable r0 : rel.
Variables T D : list fact.

Lemma phead_update_eq : forall N R ps ch f,
  phead_update PV r0 T D (N, R, ps, ch) f =
  if Nat.eqb (fst f) r0 then
    if p_contains tuple PV ps Provider.VTotal (snd f) || p_contains tuple PV ps Provider.VDelta (snd f) then (N, R, ps, ch)
    else let '(ps', b) := p_ins tuple PV ps (snd f) in (N, R, ps', ch || b)
  else
    if mem_fact f T || mem_fact f D || mem_fact f N then (N, R, ps, ch) else (N ++ [f], R ++ [f], ps, true).
Proof. reflexivity. Qed.

Lemma fold_phead_spec : forall fs N R h ch N' R' ps' ch',
  fold_left (phead_update PV r0 T D) fs (N, R, run tuple PV h, ch) = (N', R', ps', ch') ->
  exists A ins, N' = N ++ A /\ R' = R ++ A /\ ps' = run tuple PV (h ++ inss ins)
    /\ (forall f, In f A -> In f fs /\ fst f <> r0 /\ ~ In f T /\ ~ In f D /\ ~ In f N)
    /\ (forall t, In t ins -> In (r0, t) fs)
    /\ (forall f, In f fs -> fst f <> r0 -> In f T \/ In f D \/ In f N \/ In f A)
    /\ (forall f, In f fs -> fst f = r0 -> In (snd f) (srv h) \/ In (snd f) ins)
    /\ (ch' = false -> ch = false /\ A = [] /\ (g_new tuple (gh h) = [] -> ins = [])).
Proof.
  induction fs as [|a fs IH]; intros N R h ch N' R' ps' ch' H.
  - cbn [fold_left] in H. injection H as <- <- <- <-. exists [], []. cbn [inss map]. rewrite !app_nil_r.
    repeat split; try reflexivity; try (intros ? []); auto.
  - cbn [fold_left] in H. rewrite phead_update_eq in H. destruct (Nat.eqb (fst a) r0) eqn:Hr.
    + apply Nat.eqb_eq in Hr.
      destruct (p_contains tuple PV (run tuple PV h) Provider.VTotal (snd a)
                || p_contains tuple PV (run tuple PV h) Provider.VDelta (snd a)) eqn:Hc.
      * apply contains_srv in Hc.
        destruct (IH _ _ _ _ _ _ _ _ H) as [A [ins [HN [HR [Hps [HA [Hins [Hcp [Hcr Hch]]]]]]]]].
        exists A, ins. split; [exact HN|]. split; [exact HR|]. split; [exact Hps|]. split; [|split; [|split; [|split]]].
        -- intros f Hf. destruct (HA f Hf) as [H1 H2]. split; [right; exact H1 | exact H2].
        -- intros t Ht. right. apply Hins. exact Ht.
        -- intros f [<- | Hf] Hne; [contradiction | apply Hcp; assumption].
        -- intros f [<- | Hf] He; [left; exact Hc | apply Hcr; assumption].
        -- exact Hch.
      * destruct (p_ins tuple PV (run tuple PV h) (snd a)) as [ps1 b] eqn:Hi.
        assert (Hps1 : ps1 = run tuple PV (h ++ [PIns (snd a)])).
        { rewrite run_snoc. cbn [step]. rewrite Hi. reflexivity. }
        rewrite Hps1 in H.
        destruct (IH _ _ _ _ _ _ _ _ H) as [A [ins [HN [HR [Hps [HA [Hins [Hcp [Hcr Hch]]]]]]]]].
        exists A, (snd a :: ins). split; [exact HN|]. split; [exact HR|]. split.
        { rewrite Hps. cbn [inss map]. change (PIns (snd a) :: map (fun t0 => PIns t0) ins) with ([PIns (snd a)] ++ inss ins).
          rewrite app_assoc. reflexivity. }
        split; [|split; [|split; [|split]]].
        -- intros f Hf. destruct (HA f Hf) as [H1 H2]. split; [right; exact H1 | exact H2].
        -- intros t [<- | Ht]; [left; destruct a; cbn [fst snd] in *; subst; reflexivity | right; apply Hins; exact Ht].
        -- intros f [<- | Hf] Hne; [contradiction | apply Hcp; assumption].
        -- intros f [<- | Hf] He; [right; left; reflexivity|].
           destruct (Hcr f Hf He) as [Hs | Hs]; [left | right; right; exact Hs].
           change [PIns (snd a)] with (inss [snd a]) in Hs. apply srv_ins in Hs. exact Hs.
        -- intros Hf. destruct (Hch Hf) as [Hc1 [HA0 _]]. apply orb_false_iff in Hc1 as [Hc1 Hb]. subst b.
           split; [exact Hc1|]. split; [exact HA0|]. intros Hn. exfalso.
           pose proof (first_insert_succeeds tuple PV cl Hcl Hok h (snd a) ps1 false Hn Hi). discriminate.
    + apply Nat.eqb_neq in Hr.
      destruct (mem_fact a T || mem_fact a D || mem_fact a N) eqn:Hm.
      * destruct (IH _ _ _ _ _ _ _ _ H) as [A [ins [HN [HR [Hps [HA [Hins [Hcp [Hcr Hch]]]]]]]]].
        exists A, ins. split; [exact HN|]. split; [exact HR|]. split; [exact Hps|]. split; [|split; [|split; [|split]]].
        -- intros f Hf. destruct (HA f Hf) as [H1 H2]. split; [right; exact H1 | exact H2].
        -- intros t Ht. right. apply Hins. exact Ht.
        -- intros f [<- | Hf] Hne; [|apply Hcp; assumption].
           apply orb_true_iff in Hm as [Hm | Hm]; [apply orb_true_iff in Hm as [Hm | Hm]|];
             apply mem_fact_In in Hm; auto.
        -- intros f [<- | Hf] He; [contradiction | apply Hcr; assumption].
        -- exact Hch.
      * apply orb_false_iff in Hm as [Hm HmN]. apply orb_false_iff in Hm as [HmT HmD].
        apply mem_fact_false in HmT, HmD, HmN.
        destruct (IH _ _ _ _ _ _ _ _ H) as [A [ins [HN [HR [Hps [HA [Hins [Hcp [Hcr Hch]]]]]]]]].
        exists (a :: A), ins. split; [rewrite HN, <- app_assoc; reflexivity|].
        split; [rewrite HR, <- app_assoc; reflexivity|]. split; [exact Hps|].
        split; [|split; [|split; [|split]]].
        -- intros f [<- | Hf]; [split; [left; reflexivity | auto]|].
           destruct (HA f Hf) as [H1 [H2 [H3 [H4 H5]]]]. split; [right; exact H1|]. split; [exact H2|].
           split; [exact H3|]. split; [exact H4|]. intro Hn. apply H5. apply in_or_app. left. exact Hn.
        -- intros t Ht. right. apply Hins. exact Ht.
        -- intros f [<- | Hf] Hne; [right; right; right; left; reflexivity|].
           destruct (Hcp f Hf Hne) as [Hc | [Hc | [Hc | Hc]]]; auto.
           ++ apply in_app_or in Hc as [Hc | [<- | []]]; auto. right. right. right. left. reflexivity.
           ++ right. right. right. right. exact Hc.
        -- intros f [<- | Hf] He; [contradiction | apply Hcr; assumption].
        -- intros Hf. destruct (Hch Hf) as [Hc1 _]. discriminate.
Qed.
End Hist.
