(* B12: statements proposed for Props/C02.v (parallel engine) and Props/C20.v (pool independence), about the parallel engine
   with PER-INDEX, SHARDED, POOL-DEPENDENT state (Engine/ParIndexedModel.v): every index of every relation version is a value
   of the C19 / C20 models (CRelFullIndex, CRelIndex: DashMap shards by an arbitrary hash; CRelNoIndex: one shard vector per
   thread of the pool current at creation, insert into shard `thread index mod len`, or — nomod = true — the raw thread
   index), rows are a boxcar-like append.  Property theorems only; proofs in Engine/ParIndexedValue.v, ParIndexedIter.v,
   ParIndexedRefine.v, ParIndexedExample.v.

   Quantifiers common to all: sh (drain order of hash maps in move_index_contents, any permuting oracle), hash (any),
   enc (any injective encoding of key / value tuples), nsh <> 0 (DashMap shard count of the process), pool (size of the
   pool run() executes in), nomod (with / without the modulo in CRelNoIndex::index_insert).
   THE POOL HYPOTHESIS is part of the model of a run, where the code establishes it: update_indices_par re-creates every
   field in the run pool, SCC entry creates total and new in the run pool, and every thread index in a schedule is below
   max pool 1 (tids_ok).  At the level of one iteration it is the explicit hypothesis [sgood]: every total / delta / new
   variable has the run pool's shape.  The _refuted theorems drop it.

   Scope: plain relations, no aggregates in the whole-run theorem (no_agg), no lattices.  What a rule body READS is not
   modelled per index: as in ParStep.par_iteration the derived head facts are any distribution of eval_variant over the
   row-level contents T / D; the theorems prove that every index variable of the version denotes exactly those lists
   (lock-step), and C19 (Index/ConcIndex.v cri_get_spec / cfi_get_spec / cni_get_spec) proves per index type that a frozen read
   returns what the index denotes — the composition "c_index_get over shards = index_get of Engine/Eval.v" is NOT proved here.
   The whole-run theorem is a partial-correctness statement over the relation pix_run_plan (runs that did not fail);
   that no schedule fails is proved per iteration (c02_par_indexed_iteration_no_panic), not composed over the run. *)
From Coq Require Import List ZArith Bool Arith Permutation.
From AV Require Import Index.IndexModel.
From AV Require Import Engine.Core Engine.Sem Engine.Eval Engine.Validate Engine.Naive Engine.ParStep.
From AV Require Import Engine.ParIndexedModel Engine.ParIndexedValue Engine.ParIndexedIter Engine.ParIndexedRefine Engine.ParIndexedExample.
Import ListNotations.
Local Open Scope nat_scope.

(* C02 + C19 + C20 in one model: every run of the per-index parallel engine that did not fail — any pool size, any thread
   index below it for every atomic step, any hash, any distribution of the derived facts over workers and any interleaving
   of the workers' atomic steps (frozen reads + insert_if_not_present; push; one index_insert per other index;
   __changed.store) in every iteration of every SCC, any order of the inserts of update_indices, any field values found in
   the program value — computes the least model, keeps the input rows in place, adds every new fact exactly once, and
   leaves every stored index field with the run pool's shape, denoting the stored tuples of its relation *)
Theorem par_indexed_run_least_model :
  forall (sh : forall A : Type, list A -> list A), (forall A (l : list A), Permutation (sh A l) l) ->
  forall (hash : Z -> nat) (enc : list Z -> Z), (forall a b, enc a = enc b -> a = b) ->
  forall nsh, nsh <> 0 ->
  forall (nomod : bool) (pool : nat) (I : interp) (swap : list tuple -> list tuple -> bool)
         arities P pl F0 (fields : list (xdecl * xval)) st,
    arities_functional arities -> wf_facts arities F0 = true -> no_agg P = true -> validate arities P pl = true ->
    fu_decls (map fst fields) ->
    pix_run_plan sh hash enc nsh nomod I swap pool pl (xinit F0 fields) st ->
    least_model I P F0 (xrows st)
    /\ (exists added, xrows st = F0 ++ added /\ NoDup added /\ (forall f, In f added -> ~ In f F0))
    /\ fields_good hash enc nsh pool (xstored st) (xfields st).
Proof. exact par_indexed_run_least_model_holds. Qed.

(* the refinement behind it: a run of the per-index engine IS a run of ParStep's engine on the row-level state *)
Theorem c02_par_indexed_run_refines_parstep :
  forall (sh : forall A : Type, list A -> list A), (forall A (l : list A), Permutation (sh A l) l) ->
  forall (hash : Z -> nat) (enc : list Z -> Z), (forall a b, enc a = enc b -> a = b) ->
  forall nsh, nsh <> 0 ->
  forall (nomod : bool) (pool : nat) (I : interp) (swap : list tuple -> list tuple -> bool) pl F0 fields st,
    fu_decls (map fst fields) ->
    pix_run_plan sh hash enc nsh nomod I swap pool pl (xinit F0 fields) st ->
    par_run_plan I swap pl (init_state F0) (abs_x st).
Proof. exact pix_run_plan_par. Qed.

(* one iteration (freeze; the workers' steps in ANY interleaving; unfreeze; merge_delta_to_total_new_to_delta per index,
   incl. the shard-wise zip of CRelNoIndex), under the pool hypothesis [sgood] on the store at the head of the loop:
   new facts, rows and __changed are exactly what ParStep.run_sched computes for the SAME work under the schedule
   [coarsen] extracts from the fine one, and afterwards all index variables are again pool-shaped, unfrozen and in
   lock-step: total denotes T ++ D, delta denotes N, new is empty — in EVERY index of every dynamic relation *)
Theorem c02_par_indexed_iteration_refines_parstep :
  forall (sh : forall A : Type, list A -> list A), (forall A (l : list A), Permutation (sh A l) l) ->
  forall (hash : Z -> nat) (enc : list Z -> Z), (forall a b, enc a = enc b -> a = b) ->
  forall nsh, nsh <> 0 ->
  forall (nomod : bool) (pool : nat) (Pd : xdecl -> Prop) (Pb : xdecl -> xval -> Prop) (T D : list fact) (s : store),
    sgood hash enc nsh pool Pd Pb T D [] s -> fu_sk (map skel s) ->
  forall R work sched N R' ch s',
    tids_ok pool sched ->
    iteration_fn sh hash enc nomod R s work sched = Ok (N, R', ch, s') ->
    let pst := run_sched T D (par_init R work) (coarsen hash enc nomod (iinit R (map freeze_entry s) work) sched) in
    finished pst = true /\ N = pN pst /\ R' = pR pst /\ ch = pchanged pst /\
    sgoods hash enc nsh pool Pd Pb (T ++ D) N [] s' /\ map skel s' = map skel s /\
    (forall f, In f N -> find_pos (is_full_of (fst f)) s <> None).
Proof. exact iteration_refines. Qed.

(* lock-step read off [sgoods]: the three variables of EVERY index of a relation denote the relation's tuples in the SAME
   three lists (full index: as a set of keys; hash / no-index: the multiset union over the shards) *)
Theorem c02_par_indexed_lockstep :
  forall (hash : Z -> nat) (enc : list Z -> Z) nsh pool Pd Pb (T D N : list fact) (s : store),
    sgoods hash enc nsh pool Pd Pb T D N s ->
    forall e t dl n, In e s -> s_v e = SDyn t dl n ->
      xden hash enc (s_d e) t (db_of T (x_rel (s_d e))) /\ xden hash enc (s_d e) dl (db_of D (x_rel (s_d e)))
      /\ xden hash enc (s_d e) n (db_of N (x_rel (s_d e))).
Proof. exact sgoods_lockstep. Qed.

(* no schedule fails: under the pool hypothesis every interleaving with thread indices below the pool size runs without a
   panic (no frozen index, no out-of-range shard — also WITHOUT the modulo), and when it lets every worker finish the
   merge succeeds too *)
Theorem c02_par_indexed_iteration_no_panic :
  forall (sh : forall A : Type, list A -> list A), (forall A (l : list A), Permutation (sh A l) l) ->
  forall (hash : Z -> nat) (enc : list Z -> Z), (forall a b, enc a = enc b -> a = b) ->
  forall nsh, nsh <> 0 ->
  forall (nomod : bool) (pool : nat) (Pd : xdecl -> Prop) (Pb : xdecl -> xval -> Prop) (T D : list fact) (s : store),
    sgood hash enc nsh pool Pd Pb T D [] s -> fu_sk (map skel s) ->
  forall R work sched,
    tids_ok pool sched ->
    (forall f, In f (concat work) -> find_pos (is_full_of (fst f)) s <> None) ->
    exists fin, irun hash enc nomod (iinit R (map freeze_entry s) work) sched = Ok fin /\
      (ifinished fin = true ->
       exists s', iteration_fn sh hash enc nomod R s work sched = Ok (iN fin, iR fin, ichanged fin, s')).
Proof. exact iteration_total. Qed.

(* C20 at engine level: update_indices_par establishes the pool hypothesis whatever the program value held before
   (fields created in any pool, any content, frozen or not): afterwards every field has the RUN pool's shape and denotes
   the rows of its relation *)
Theorem c20_par_indexed_update_indices_establishes_pool_shape :
  forall (hash : Z -> nat) (enc : list Z -> Z) nsh, nsh <> 0 ->
  forall (nomod : bool) (pool : nat) st st',
    pix_update_indices hash enc nsh nomod pool st st' ->
    abs_x st' = update_indices (abs_x st) /\ fields_good hash enc nsh pool (xstored st') (xfields st')
    /\ map fst (xfields st') = map fst (xfields st).
Proof. intros hash enc nsh Hn nomod pool. exact (pix_update_indices_good hash enc nsh Hn nomod pool). Qed.

(* ---- without the pool hypothesis *)
(* no-index variables created for a SMALLER pool (1 thread; e.g. a shard count cached process-wide in the first pool) and
   the modulo dropped: thread 1 of the run pool indexes shard 1 of a 1-shard vector = Panic; the real insert (modulo) on
   the same store, work and schedule succeeds *)
Theorem c20_par_indexed_small_pool_nomod_refuted :
  iteration_fn sh_id ex_hash ConcreteEval.enc_list true ex_rows (ex_store 1 1 [(0, [1; 2]%Z)]) ex_work ex_sched = Panic
  /\ exists s', iteration_fn sh_id ex_hash ConcreteEval.enc_list false ex_rows (ex_store 1 1 [(0, [1; 2]%Z)]) ex_work ex_sched
                = Ok ([(0, [3; 4]%Z); (0, [5; 6]%Z)], [(0, [1; 2]%Z); (0, [3; 4]%Z); (0, [5; 6]%Z)], true, s').
Proof. exact ex_small_pool_nomod_refuted. Qed.

(* a delta field created in a LARGER pool (2 threads, its row in shard 1) merged shard-wise into a total created in the run
   pool of 1 thread: afterwards the full and the hash index of total hold the row, the no-index does not (lock-step broken,
   the row is dropped with new at the end of the SCC) — the engine-level face of NoIndexPools.run_index_noreset_large_refuted *)
Theorem c20_par_indexed_large_pool_merge_refuted :
  exists s', iteration_fn sh_id ex_hash ConcreteEval.enc_list false ex_rows (ex_store 1 2 [(1, [1; 2]%Z)]) [[]; []] [] = Ok ([], ex_rows, false, s')
    /\ sdump s' = [ ([([1; 2]%Z, [])],  [],  []);
                    ([([1]%Z, [2]%Z)],  [],  []);
                    ([],                [],  [([], [1; 2]%Z)]) ].
Proof. exact ex_large_pool_merge_refuted. Qed.

(* a 2-worker iteration with 3 indices (full, hash, no-index), evaluated: the hypotheses are satisfiable and the result is
   the expected one in all three indices *)
Example c02_par_indexed_iteration_example :
  exists s', iteration_fn sh_id ex_hash ConcreteEval.enc_list false ex_rows (ex_store 2 2 [(0, [1; 2]%Z)]) ex_work ex_sched
             = Ok ([(0, [3; 4]%Z); (0, [5; 6]%Z)], [(0, [1; 2]%Z); (0, [3; 4]%Z); (0, [5; 6]%Z)], true, s')
    /\ sdump s' = [ ([([1; 2]%Z, [])],      [([3; 4]%Z, []); ([5; 6]%Z, [])],         []);
                    ([([1]%Z, [2]%Z)],      [([3]%Z, [4]%Z); ([5]%Z, [6]%Z)],         []);
                    ([([], [1; 2]%Z)],      [([], [3; 4]%Z); ([], [5; 6]%Z)],         []) ].
Proof. exact ex_iteration_three_indices. Qed.

Print Assumptions par_indexed_run_least_model.
Print Assumptions c02_par_indexed_run_refines_parstep.
Print Assumptions c02_par_indexed_iteration_refines_parstep.
Print Assumptions c02_par_indexed_lockstep.
Print Assumptions c02_par_indexed_iteration_no_panic.
Print Assumptions c20_par_indexed_update_indices_establishes_pool_shape.
Print Assumptions c20_par_indexed_small_pool_nomod_refuted.
Print Assumptions c20_par_indexed_large_pool_merge_refuted.
Print Assumptions c02_par_indexed_iteration_example.
