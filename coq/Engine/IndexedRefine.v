(* Per-index engine state, part 3: the simulation theorem run_plan_idx_sim between IndexedEval.run_plan_idx and
   Eval.run_plan, the invariant "all indices of a relation agree", the transfer of the engine theorems
   (indexed_run_least_model, indexed_rerun_idempotent) and the _refuted variants (a skipped index insertion, a missing
   index reset).

   Strength.  Hypotheses beyond those of the abstract theorems: plan_idx_ok decls pl (executable, evaluated by the tie
   on every dumped plan: every clause / aggregate reads a declared index, every head relation is dynamic in its SCC and
   has its full index, one arity per relation) and NoDup F0 (no duplicate input rows).  NoDup is needed for EQUALITY of
   the rows: with duplicate input rows the full index (a set) iterates / reports to the len_estimate oracle a different
   list than the hash indices, so a simple join that iterates through a full index may enumerate in another order than
   Eval.v.  The invariant "all indices of a relation agree" itself is proved for arbitrary inputs (duplicates included)
   in IndexedLockstep.v, and the tie runs inputs with duplicates.  Iteration order inside hash maps and the swap-on-size of move_index_contents are not modelled (as in
   Eval.v); the len_estimate comparison is the same oracle as in Eval.v. *)
From Coq Require Import List ZArith Bool Arith Lia.
From AV Require Import Engine.Core Engine.Sem Engine.Eval Engine.Validate Engine.Naive Engine.Interface Engine.NaiveLemmas Engine.Rerun Engine.Main Engine.Vocab Engine.Examples.
From AV Require Import Engine.InterfaceAgg Engine.StratFixed Engine.SemiNaiveAgg Engine.MainAgg.
From AV Require Import Engine.IndexedEval Engine.IndexedBase Engine.IndexedSim.
Import ListNotations.
Open Scope Z_scope.

Definition orel {A B : Type} (P : A -> B -> Prop) (x : option A) (y : option B) : Prop :=
  match x, y with Some a, Some b => P a b | None, None => True | _, _ => False end.

Lemma db_of_filter_dyn : forall dyn X r, is_dyn dyn r = true -> db_of (filter (fact_dyn dyn) X) r = db_of X r.
Proof.
  intros dyn X r Hd. induction X as [|[q t] X IH]; [reflexivity|]. cbn [filter]. unfold fact_dyn at 1. cbn [fst].
  unfold db_of in *. destruct (Nat.eqb q r) eqn:E.
  - apply Nat.eqb_eq in E. subst q. rewrite Hd. cbn [filter fst]. rewrite Nat.eqb_refl. cbn [map]. f_equal. exact IH.
  - cbn [filter fst]. rewrite E. destruct (is_dyn dyn q); [cbn [filter fst]; rewrite E|]; exact IH.
Qed.

Lemma db_of_filter_static : forall dyn X r, is_dyn dyn r = false -> db_of (filter (fun f => negb (fact_dyn dyn f)) X) r = db_of X r.
Proof.
  intros dyn X r Hd. induction X as [|[q t] X IH]; [reflexivity|]. cbn [filter]. unfold fact_dyn at 1. cbn [fst].
  unfold db_of in *. destruct (Nat.eqb q r) eqn:E.
  - apply Nat.eqb_eq in E. subst q. rewrite Hd. cbn [negb filter fst]. rewrite Nat.eqb_refl. cbn [map]. f_equal. exact IH.
  - cbn [filter fst]. rewrite E. destruct (is_dyn dyn q); cbn [negb]; [|cbn [filter fst]; rewrite E]; exact IH.
Qed.

Lemma db_of_none : forall X r, (forall f, In f X -> fst f <> r) -> db_of X r = [].
Proof.
  induction X as [|[q t] X IH]; intros r H; [reflexivity|]. unfold db_of. cbn [filter fst].
  destruct (Nat.eqb q r) eqn:E.
  - apply Nat.eqb_eq in E. exfalso. apply (H (q, t)); [left; reflexivity|exact E].
  - apply IH. intros f Hf. apply H. right. exact Hf.
Qed.

Section Run.
Variable I : interp.
Variable swap : list tuple -> list tuple -> bool.
Variable decls : list idecl.
Hypothesis Hdecls : forallb (decl_ok decls) decls = true.

Definition Inv (dyn : list rel) (S T D : list fact) : Prop :=
  NoDup S /\ NoDup (T ++ D) /\ (forall f, In f S -> fok decls f) /\ (forall f, In f (T ++ D) -> fok decls f)
  /\ (forall f, In f S -> is_dyn dyn (fst f) = false) /\ (forall f, In f (T ++ D) -> is_dyn dyn (fst f) = true).

Lemma merge_sim : forall dyn S T D N store, NoDup (T ++ D) -> (forall f, In f (T ++ D) -> fok decls f) ->
  sagree decls dyn S T D N store -> sagree decls dyn S (T ++ D) N [] (map (merge_l dyn) store).
Proof.
  intros dyn S T D N store Hnd Hok [Hsh Hag]. split.
  - rewrite <- Hsh. unfold shape. rewrite map_map. apply map_ext. intros l. unfold merge_l. destruct (is_dyn dyn (l_rel l)); reflexivity.
  - intros l' Hl'. apply in_map_iff in Hl' as [l [<- Hl]]. pose proof (Hag l Hl) as Hla. unfold lagree, merge_l in *.
    destruct (is_dyn dyn (l_rel l)) eqn:Ed; cbn [l_rel l_arity l_cols l_tot l_del l_new]; rewrite Ed; [|exact Hla].
    destruct Hla as [H1 [H2 H3]]. split; [|split; [exact H3|]].
    + rewrite H1, H2, db_of_app. apply repr_move. rewrite <- db_of_app.
      apply (good_db decls Hdecls (l_rel l)); [apply (store_decl decls store l Hsh Hl)|exact Hnd|exact Hok].
    + symmetry. apply repr_nil.
Qed.

Lemma iteration_sim : forall sc S T D R store,
  (forall v, In v (s_vars sc) -> variant_idx_ok decls (s_dyn sc) v = true) ->
  Inv (s_dyn sc) S T D -> sagree decls (s_dyn sc) S T D [] store ->
  Rel decls (s_dyn sc) S T D (fst (scc_iteration I swap sc S T D R)) (snd (scc_iteration I swap sc S T D R))
      (scc_iteration_i I swap no_faults sc store R).
Proof.
  intros sc S T D R store Hv [HndS [HndTD [HokS [HokTD _]]]] Hag.
  apply (iter_sim I swap decls Hdecls (s_dyn sc) S T D HndS HndTD HokS HokTD (s_vars sc) Hv [] R (store, R, false)).
  unfold Rel. cbn [fst snd nonnil]. split; [exact Hag|]. split; [reflexivity|]. split; [reflexivity|]. split; [constructor|].
  split; [intros g []|]. split; intros g [].
Qed.

Lemma loop_sim : forall fuel sc, (forall v, In v (s_vars sc) -> variant_idx_ok decls (s_dyn sc) v = true) ->
  forall S T D R store, Inv (s_dyn sc) S T D -> sagree decls (s_dyn sc) S T D [] store ->
  orel (fun a c => snd a = snd c /\ sagree decls (s_dyn sc) S (fst a) [] [] (fst c) /\ Inv (s_dyn sc) S (fst a) [])
       (scc_loop I swap fuel sc S T D R) (scc_loop_i I swap no_faults fuel sc store R).
Proof.
  induction fuel as [|n IH]; intros sc Hv S T D R store HI Hag; [exact Logic.I|].
  cbn [scc_loop scc_loop_i]. pose proof (iteration_sim sc S T D R store Hv HI Hag) as H.
  destruct (scc_iteration I swap sc S T D R) as [N R'] eqn:Ea.
  destruct (scc_iteration_i I swap no_faults sc store R) as [[store1 R1] ch] eqn:Ec.
  destruct H as [Hag1 [HR [Hch [HndN [HokN [HdynN HdisN]]]]]]. cbn [fst snd] in *. subst R1 ch.
  destruct HI as [HndS [HndTD [HokS [HokTD [HstS HdynTD]]]]].
  pose proof (merge_sim (s_dyn sc) S T D N store1 HndTD HokTD Hag1) as Hm.
  destruct N as [|f N]; cbn [nonnil].
  - cbn [orel fst snd]. split; [reflexivity|]. split; [exact Hm|]. unfold Inv. rewrite app_nil_r. repeat split; assumption.
  - apply IH; [exact Hv| |exact Hm]. unfold Inv. split; [exact HndS|]. split; [|split; [exact HokS|split; [|split; [exact HstS|]]]].
    + apply NoDup_app_intro; [exact HndTD|exact HndN|]. intros x Hx Hx'. exact (HdisN x Hx' Hx).
    + intros g Hg. apply in_app_or in Hg as [Hg|Hg]; [apply HokTD|apply HokN]; exact Hg.
    + intros g Hg. apply in_app_or in Hg as [Hg|Hg]; [apply HdynTD|apply HdynN]; exact Hg.
Qed.

(* ---------- program values ---------- *)
Definition Sinv (c : istate) (a : state) : Prop :=
  irows c = rows a /\ pshape (istored c) = decls
  /\ (forall p, In p (istored c) -> p_ents p = repr (p_arity p) (p_cols p) (db_of (stored a) (p_rel p)))
  /\ NoDup (stored a) /\ (forall f, In f (stored a) -> fok decls f).

Lemma enter_sim : forall dyn c a, Sinv c a ->
  Inv dyn (filter (fun f => negb (fact_dyn dyn f)) (stored a)) [] (filter (fact_dyn dyn) (stored a))
  /\ sagree decls dyn (filter (fun f => negb (fact_dyn dyn f)) (stored a)) [] (filter (fact_dyn dyn) (stored a)) []
            (map (enter_scc dyn) (istored c)).
Proof.
  intros dyn c a [_ [Hsh [Hag [Hnd Hok]]]]. split.
  - unfold Inv. cbn [app]. split; [apply NoDup_filter; exact Hnd|]. split; [apply NoDup_filter; exact Hnd|].
    split; [intros f Hf; apply filter_In in Hf as [Hf _]; apply Hok; exact Hf|].
    split; [intros f Hf; apply filter_In in Hf as [Hf _]; apply Hok; exact Hf|].
    split; intros f Hf; apply filter_In in Hf as [_ Hf]; unfold fact_dyn in Hf.
    + apply negb_true_iff in Hf. exact Hf.
    + exact Hf.
  - split.
    + rewrite <- Hsh. unfold shape, pshape. rewrite map_map. apply map_ext. intros p. unfold enter_scc. destruct (is_dyn dyn (p_rel p)); reflexivity.
    + intros l' Hl'. apply in_map_iff in Hl' as [p [<- Hp]]. pose proof (Hag p Hp) as He. unfold lagree, enter_scc.
      destruct (is_dyn dyn (p_rel p)) eqn:Ed; cbn [l_rel l_arity l_cols l_tot l_del l_new]; rewrite Ed.
      * split; [symmetry; apply repr_nil|]. split; [|symmetry; apply repr_nil]. rewrite (db_of_filter_dyn dyn _ _ Ed). exact He.
      * rewrite (db_of_filter_static dyn _ _ Ed). exact He.
Qed.

Lemma leave_sim : forall dyn S Tf R storef, sagree decls dyn S Tf [] [] storef -> Inv dyn S Tf [] ->
  Sinv {| irows := R; istored := map leave_scc storef |} {| rows := R; stored := S ++ Tf |}.
Proof.
  intros dyn S Tf R storef [Hsh Hag] [HndS [HndT [HokS [HokT [HstS HdynT]]]]]. rewrite app_nil_r in *.
  unfold Sinv. cbn [irows istored rows stored]. split; [reflexivity|]. split; [|split; [|split]].
  - rewrite <- Hsh. unfold shape, pshape. rewrite map_map. apply map_ext. intros l. reflexivity.
  - intros p Hp. apply in_map_iff in Hp as [l [<- Hl]]. cbn [leave_scc p_ents p_arity p_cols p_rel].
    pose proof (Hag l Hl) as Hla. unfold lagree in Hla. rewrite db_of_app. destruct (is_dyn dyn (l_rel l)) eqn:Ed.
    + destruct Hla as [H1 _]. rewrite H1. rewrite (db_of_none S); [reflexivity|]. intros f Hf E. rewrite <- E, (HstS f Hf) in Ed. discriminate.
    + rewrite Hla. rewrite (db_of_none Tf); [rewrite app_nil_r; reflexivity|]. intros f Hf E. rewrite <- E, (HdynT f Hf) in Ed. discriminate.
  - apply NoDup_app_intro; [exact HndS|exact HndT|]. intros x Hx Hx'. pose proof (HstS x Hx) as E1. pose proof (HdynT x Hx') as E2. congruence.
  - intros f Hf. apply in_app_or in Hf as [Hf|Hf]; [apply HokS|apply HokT]; exact Hf.
Qed.

Lemma run_scc_sim : forall fuel sc c a,
  (forall v, In v (s_vars sc) -> variant_idx_ok decls (s_dyn sc) v = true) -> Sinv c a ->
  orel (fun a' c' => Sinv c' a') (run_scc I swap fuel sc a) (run_scc_i I swap no_faults fuel sc c).
Proof.
  intros fuel sc c a Hv HS. destruct (enter_sim (s_dyn sc) c a HS) as [HI Hag]. destruct HS as [Hrows _].
  unfold run_scc, run_scc_i. rewrite Hrows. destruct (s_loop sc).
  - pose proof (loop_sim fuel sc Hv _ _ _ (rows a) _ HI Hag) as H.
    destruct (scc_loop I swap fuel sc _ [] _ (rows a)) as [[Tf Rf]|]; destruct (scc_loop_i I swap no_faults fuel sc _ (rows a)) as [[storef Rf']|];
      cbn [orel] in H; try contradiction; [|exact Logic.I]. cbn [fst snd] in H. destruct H as [HR [Hag' HI']]. subst Rf'.
    cbn [orel]. apply (leave_sim (s_dyn sc)); assumption.
  - pose proof (iteration_sim sc _ _ _ (rows a) _ Hv HI Hag) as H.
    destruct (scc_iteration I swap sc _ [] _ (rows a)) as [N R'] eqn:Ea.
    destruct (scc_iteration_i I swap no_faults sc _ (rows a)) as [[store1 R1] ch] eqn:Ec.
    destruct H as [Hag1 [HR [Hch [HndN [HokN [HdynN HdisN]]]]]]. cbn [fst snd] in *. subst R1.
    destruct HI as [HndS [HndTD [HokS [HokTD [HstS HdynTD]]]]]. cbn [app] in HndTD, HokTD, HdynTD, HdisN.
    pose proof (merge_sim (s_dyn sc) _ [] _ N store1 HndTD HokTD Hag1) as Hm1. cbn [app] in Hm1.
    assert (HndDN : NoDup (filter (fact_dyn (s_dyn sc)) (stored a) ++ N)).
    { apply NoDup_app_intro; [exact HndTD|exact HndN|]. intros x Hx Hx'. exact (HdisN x Hx' Hx). }
    assert (HokDN : forall f, In f (filter (fact_dyn (s_dyn sc)) (stored a) ++ N) -> fok decls f).
    { intros g Hg. apply in_app_or in Hg as [Hg|Hg]; [apply HokTD|apply HokN]; exact Hg. }
    pose proof (merge_sim (s_dyn sc) _ _ _ [] _ HndDN HokDN Hm1) as Hm2.
    cbn [orel]. apply (leave_sim (s_dyn sc) _ _ R' _ Hm2).
    unfold Inv. rewrite app_nil_r. repeat split; try assumption.
    intros g Hg. apply in_app_or in Hg as [Hg|Hg]; [apply HdynTD|apply HdynN]; exact Hg.
Qed.

Lemma run_sccs_sim : forall fuel pl c a,
  forallb (fun sc => forallb (variant_idx_ok decls (s_dyn sc)) (s_vars sc)) pl = true -> Sinv c a ->
  orel (fun a' c' => Sinv c' a') (run_sccs I swap fuel pl a) (run_sccs_i I swap no_faults fuel pl c).
Proof.
  intros fuel pl. induction pl as [|sc pl IH]; intros c a Hok HS; [exact HS|].
  cbn [forallb] in Hok. apply andb_true_iff in Hok as [Hsc Hok]. rewrite forallb_forall in Hsc.
  cbn [run_sccs run_sccs_i]. pose proof (run_scc_sim fuel sc c a Hsc HS) as H.
  destruct (run_scc I swap fuel sc a) as [a1|]; destruct (run_scc_i I swap no_faults fuel sc c) as [c1|]; cbn [orel] in H; try contradiction.
  - apply IH; assumption.
  - exact Logic.I.
Qed.

Lemma update_sim : forall c a, irows c = rows a -> pshape (istored c) = decls -> NoDup (rows a) -> (forall f, In f (rows a) -> fok decls f) ->
  Sinv (update_indices_i no_faults c) (update_indices a).
Proof.
  intros c a Hr Hsh Hnd Hok. unfold Sinv, update_indices_i, update_indices. cbn [irows istored rows stored].
  split; [exact Hr|]. split; [|split; [|split; [exact Hnd|exact Hok]]].
  - rewrite <- Hsh. unfold pshape. rewrite map_map. apply map_ext. intros p. reflexivity.
  - intros p' Hp'. apply in_map_iff in Hp' as [p [<- Hp]]. cbn [p_ents p_arity p_cols p_rel f_noclear no_faults]. rewrite Hr.
    apply (build_index_repr (p_arity p) (p_cols p)). apply (good_db decls Hdecls (p_rel p)); [|exact Hnd|exact Hok].
    rewrite <- Hsh. unfold pshape. apply in_map_iff. exists p. split; [reflexivity|exact Hp].
Qed.

(* ---------- the invariant at every loop head ---------- *)
(* LoopHead: the SCC-local indices agree with some abstract (S, T, D) and every `new` is empty.  It holds when an SCC is
   entered (enter_sim), is preserved by one pass of the loop body = rule evaluation + per-index merge (loop_head_step),
   and means that all indices of a relation agree (loop_head_agree) *)
Definition LoopHead (dyn : list rel) (store : list lidx) : Prop :=
  exists S T D, Inv dyn S T D /\ sagree decls dyn S T D [] store.

Lemma loop_head_enter : forall dyn c a, Sinv c a -> LoopHead dyn (map (enter_scc dyn) (istored c)).
Proof. intros dyn c a HS. destruct (enter_sim dyn c a HS) as [HI Hag]. eexists. eexists. eexists. split; [exact HI|exact Hag]. Qed.

Lemma loop_head_step : forall sc R store, (forall v, In v (s_vars sc) -> variant_idx_ok decls (s_dyn sc) v = true) ->
  LoopHead (s_dyn sc) store ->
  LoopHead (s_dyn sc) (map (merge_l (s_dyn sc)) (fst (fst (scc_iteration_i I swap no_faults sc store R)))).
Proof.
  intros sc R store Hv [S [T [D [HI Hag]]]]. pose proof (iteration_sim sc S T D R store Hv HI Hag) as H.
  destruct (scc_iteration I swap sc S T D R) as [N R'] eqn:Ea.
  destruct (scc_iteration_i I swap no_faults sc store R) as [[store1 R1] ch] eqn:Ec.
  destruct H as [Hag1 [HR [Hch [HndN [HokN [HdynN HdisN]]]]]]. cbn [fst snd] in *.
  destruct HI as [HndS [HndTD [HokS [HokTD [HstS HdynTD]]]]].
  exists S, (T ++ D), N. split; [|apply merge_sim; assumption].
  unfold Inv. split; [exact HndS|]. split; [|split; [exact HokS|split; [|split; [exact HstS|]]]].
  - apply NoDup_app_intro; [exact HndTD|exact HndN|]. intros x Hx Hx'. exact (HdisN x Hx' Hx).
  - intros g Hg. apply in_app_or in Hg as [Hg|Hg]; [apply HokTD|apply HokN]; exact Hg.
  - intros g Hg. apply in_app_or in Hg as [Hg|Hg]; [apply HdynTD|apply HdynN]; exact Hg.
Qed.

Lemma loop_head_agree : forall dyn store, LoopHead dyn store ->
  exists X Y : list fact, forall l, In l store ->
    l_tot l = build_index (l_arity l) (l_cols l) (db_of X (l_rel l))
    /\ (is_dyn dyn (l_rel l) = true ->
          l_del l = build_index (l_arity l) (l_cols l) (db_of Y (l_rel l)) /\ l_new l = []).
Proof.
  intros dyn store [S [T [D [[HndS [HndTD [HokS [HokTD [HstS HdynTD]]]]] [Hsh Hag]]]]].
  destruct (NoDup_app_inv _ _ _ HndTD) as [HndT [HndD _]].
  exists (S ++ T), D. intros l Hl. pose proof (Hag l Hl) as Hla. unfold lagree in Hla.
  pose proof (store_decl decls store l Hsh Hl) as Hdl. rewrite db_of_app. destruct (is_dyn dyn (l_rel l)) eqn:Ed.
  - destruct Hla as [H1 [H2 H3]]. split.
    + rewrite (db_of_none S); [|intros f Hf E; rewrite <- E, (HstS f Hf) in Ed; discriminate]. cbn [app]. rewrite H1. symmetry.
      apply build_index_repr. apply (good_db decls Hdecls (l_rel l)); [exact Hdl|exact HndT|]. intros f Hf. apply HokTD. apply in_or_app. left. exact Hf.
    + intros _. split; [|rewrite H3; apply repr_nil]. rewrite H2. symmetry.
      apply build_index_repr. apply (good_db decls Hdecls (l_rel l)); [exact Hdl|exact HndD|]. intros f Hf. apply HokTD. apply in_or_app. right. exact Hf.
  - split; [|intros; discriminate].
    rewrite (db_of_none T); [|intros f Hf E; rewrite <- E, (HdynTD f (in_or_app _ _ _ (or_introl Hf))) in Ed; discriminate].
    rewrite app_nil_r, Hla. symmetry. apply build_index_repr. apply (good_db decls Hdecls (l_rel l)); [exact Hdl|exact HndS|exact HokS].
Qed.

(* THE SIMULATION: run() on the program value with per-index state and run() of the abstract engine model, started on
   the same rows, go through corresponding states; at the end the rows are EQUAL (as lists) and every stored index
   holds exactly the abstract stored contents of its relation *)
Theorem run_plan_idx_sim : forall fuel pl c a, plan_idx_ok decls pl = true ->
  irows c = rows a -> pshape (istored c) = decls -> NoDup (rows a) -> (forall f, In f (rows a) -> fok decls f) ->
  orel (fun a' c' => Sinv c' a') (run_plan I swap fuel pl a) (run_plan_idx I swap fuel pl c).
Proof.
  intros fuel pl c a Hp Hr Hsh Hnd Hok. unfold plan_idx_ok in Hp. apply andb_true_iff in Hp as [_ Hp].
  unfold run_plan, run_plan_idx, run_plan_i. apply run_sccs_sim; [exact Hp|]. apply update_sim; assumption.
Qed.
End Run.

(* "all indices of a relation agree": every stored index holds exactly what inserting ONE common sequence of rows
   (per relation) into an empty index of its column set gives *)
Definition indices_agree (st : list pidx) : Prop :=
  exists X : list fact, forall p, In p st -> p_ents p = build_index (p_arity p) (p_cols p) (db_of X (p_rel p)).

(* without any hypothesis (duplicate rows, any plan): what update_indices builds agrees, by construction, with the rows *)
Lemma update_indices_agree : forall c, indices_agree (istored (update_indices_i no_faults c)).
Proof.
  intros c. exists (irows c). intros p Hp. unfold update_indices_i in Hp. cbn [istored] in Hp.
  apply in_map_iff in Hp as [p0 [<- _]]. reflexivity.
Qed.

Lemma plan_ok_decls : forall decls pl, plan_idx_ok decls pl = true -> forallb (decl_ok decls) decls = true.
Proof. intros decls pl H. unfold plan_idx_ok in H. apply andb_true_iff in H as [H _]. exact H. Qed.

Lemma init_pshape : forall decls F0, pshape (istored (init_istate decls F0)) = decls.
Proof.
  intros decls F0. unfold pshape, init_istate. cbn [istored]. rewrite map_map. rewrite <- (map_id decls) at 2.
  apply map_ext. intros [[r a] c]. reflexivity.
Qed.

Lemma Sinv_indices_agree : forall decls c a, forallb (decl_ok decls) decls = true -> Sinv decls c a -> indices_agree (istored c).
Proof.
  intros decls c a Hd [_ [Hsh [Hag [Hnd Hok]]]]. exists (stored a). intros p Hp. rewrite (Hag p Hp). symmetry.
  apply build_index_repr. apply (good_db decls Hd (p_rel p)); [|exact Hnd|exact Hok].
  rewrite <- Hsh. unfold pshape. apply in_map_iff. exists p. split; [reflexivity|exact Hp].
Qed.

Section Corollaries.
Variable I : interp.
Variable swap : list tuple -> list tuple -> bool.
Variable decls : list idecl.
Variable pl : plan.
Hypothesis Hplan : plan_idx_ok decls pl = true.

(* the rows computed with per-index state are the rows computed by Engine/Eval.v: same lists, same termination *)
Theorem indexed_rows_eq : forall fuel c a,
  irows c = rows a -> pshape (istored c) = decls -> NoDup (rows a) -> (forall f, In f (rows a) -> fact_idx_ok decls f = true) ->
  option_map irows (run_plan_idx I swap fuel pl c) = option_map rows (run_plan I swap fuel pl a).
Proof.
  intros fuel c a Hr Hsh Hnd Hok.
  pose proof (run_plan_idx_sim I swap decls (plan_ok_decls decls pl Hplan) fuel pl c a Hplan Hr Hsh Hnd Hok) as H.
  destruct (run_plan I swap fuel pl a) as [a'|]; destruct (run_plan_idx I swap fuel pl c) as [c'|]; cbn [orel] in H; try contradiction; [|reflexivity].
  cbn [option_map]. f_equal. apply H.
Qed.

Theorem indexed_fresh_rows_eq : forall fuel F0, NoDup F0 -> (forall f, In f F0 -> fact_idx_ok decls f = true) ->
  option_map irows (run_plan_idx I swap fuel pl (init_istate decls F0)) = option_map rows (run_plan I swap fuel pl (init_state F0)).
Proof. intros fuel F0 Hnd Hok. apply indexed_rows_eq; [reflexivity|apply init_pshape|exact Hnd|exact Hok]. Qed.

(* every statement about the rows computed by Engine/Eval.v holds for the rows computed with per-index state *)
Theorem indexed_transfer : forall (Q : list fact -> Prop) fuel F0 c,
  NoDup F0 -> (forall f, In f F0 -> fact_idx_ok decls f = true) ->
  (forall a, run_plan I swap fuel pl (init_state F0) = Some a -> Q (rows a)) ->
  run_plan_idx I swap fuel pl (init_istate decls F0) = Some c -> Q (irows c).
Proof.
  intros Q fuel F0 c Hnd Hok HQ Hrun. pose proof (indexed_fresh_rows_eq fuel F0 Hnd Hok) as H. rewrite Hrun in H.
  destruct (run_plan I swap fuel pl (init_state F0)) as [a|] eqn:Ea; [|discriminate]. cbn [option_map] in H. injection H as ->.
  apply HQ. reflexivity.
Qed.

(* after run() all indices of every relation agree, and they hold the abstract stored contents *)
Theorem indexed_run_indices_agree : forall fuel c c',
  pshape (istored c) = decls -> NoDup (irows c) -> (forall f, In f (irows c) -> fact_idx_ok decls f = true) ->
  run_plan_idx I swap fuel pl c = Some c' ->
  indices_agree (istored c') /\ pshape (istored c') = decls
  /\ exists a', run_plan I swap fuel pl (init_state (irows c)) = Some a' /\ irows c' = rows a'
       /\ forall p, In p (istored c') -> ix_all (p_ents p) = db_of (stored a') (p_rel p).
Proof.
  intros fuel c c' Hsh Hnd Hok Hrun.
  pose proof (run_plan_idx_sim I swap decls (plan_ok_decls decls pl Hplan) fuel pl c (init_state (irows c)) Hplan eq_refl Hsh Hnd Hok) as H.
  rewrite Hrun in H. destruct (run_plan I swap fuel pl (init_state (irows c))) as [a'|]; cbn [orel] in H; [|contradiction].
  split; [apply (Sinv_indices_agree decls c' a' (plan_ok_decls decls pl Hplan) H)|]. split; [apply H|].
  exists a'. split; [reflexivity|]. split; [apply H|]. intros p Hp. destruct H as [_ [_ [Hag _]]]. rewrite (Hag p Hp). apply repr_all.
Qed.

(* ---------- the engine theorems transfer ---------- *)
Variable arities : list (rel * nat).
Variable P : list rule.
Hypothesis Har : arities_functional arities.
Hypothesis Hna : no_agg P = true.
Hypothesis Hval : validate arities P pl = true.

Theorem indexed_run_least_model : forall fuel F0 c,
  wf_facts arities F0 = true -> NoDup F0 -> (forall f, In f F0 -> fact_idx_ok decls f = true) ->
  run_plan_idx I swap fuel pl (init_istate decls F0) = Some c ->
  least_model I P F0 (irows c)
  /\ (exists added, irows c = F0 ++ added /\ NoDup added /\ (forall f, In f added -> ~ In f F0))
  /\ indices_agree (istored c).
Proof.
  intros fuel F0 c Hwf Hnd Hok Hrun.
  destruct (indexed_run_indices_agree fuel (init_istate decls F0) c (init_pshape decls F0) Hnd Hok Hrun) as [Hia [_ [a' [Ha [Hr _]]]]].
  cbn [init_istate irows] in Ha. rewrite Hr.
  destruct (run_plan_correct_full I swap arities P pl fuel F0 a' Har Hwf Hna Hval Ha) as [HL HA].
  split; [exact HL|]. split; [exact HA|exact Hia].
Qed.

Theorem indexed_rerun_idempotent : forall fuel fuel' F0 c1 c2,
  wf_facts arities F0 = true -> NoDup F0 -> (forall f, In f F0 -> fact_idx_ok decls f = true) ->
  run_plan_idx I swap fuel pl (init_istate decls F0) = Some c1 ->
  wf_facts arities (irows c1) = true -> (forall f, In f (irows c1) -> fact_idx_ok decls f = true) ->
  run_plan_idx I swap fuel' pl c1 = Some c2 ->
  irows c2 = irows c1 /\ indices_agree (istored c2).
Proof.
  intros fuel fuel' F0 c1 c2 Hwf Hnd Hok H1 Hwf1 Hok1 H2.
  destruct (indexed_run_indices_agree fuel (init_istate decls F0) c1 (init_pshape decls F0) Hnd Hok H1) as [_ [Hsh1 [a1 [Ha1 [Hr1 _]]]]].
  cbn [init_istate irows] in Ha1.
  destruct (run_plan_correct_full I swap arities P pl fuel F0 a1 Har Hwf Hna Hval Ha1) as [_ [added [Hadd [Hnda Hdis]]]].
  assert (Hnd1 : NoDup (irows c1)).
  { rewrite Hr1, Hadd. apply NoDup_app_intro; [exact Hnd|exact Hnda|]. intros x Hx Hx'. exact (Hdis x Hx' Hx). }
  destruct (indexed_run_indices_agree fuel' c1 c2 Hsh1 Hnd1 Hok1 H2) as [Hia [_ [a2 [Ha2 [Hr2 _]]]]].
  split; [|exact Hia]. rewrite Hr2, Hr1.
  apply (rerun_idempotent I swap arities P pl Har Hna Hval fuel fuel' F0 a1 a2 Hwf Ha1); [rewrite <- Hr1; exact Hwf1|].
  rewrite (run_plan_rows_only I swap fuel' pl a1), <- Hr1. exact Ha2.
Qed.
End Corollaries.

(* programs with aggregates / negation (C04): the stratified engine theorem transfers in the same way *)
Theorem indexed_run_strat_model : forall I swap decls pl arities P fuel F0 c,
  plan_idx_ok decls pl = true ->
  arities_functional arities -> wf_facts arities F0 = true -> NoDup F0 -> agg_perm_invariant I ->
  validate arities P pl = true -> (forall f, In f F0 -> fact_idx_ok decls f = true) ->
  run_plan_idx I swap fuel pl (init_istate decls F0) = Some c ->
  strat_model_fixed I (plan_strata P pl) F0 (irows c) /\ NoDup (irows c) /\ (exists added, irows c = F0 ++ added)
  /\ indices_agree (istored c).
Proof.
  intros I swap decls pl arities P fuel F0 c Hplan Har Hwf Hnd Hperm Hval Hok Hrun.
  destruct (indexed_run_indices_agree I swap decls pl Hplan fuel (init_istate decls F0) c (init_pshape decls F0) Hnd Hok Hrun) as [Hia [_ [a' [Ha [Hr _]]]]].
  cbn [init_istate irows] in Ha. rewrite Hr.
  destruct (run_plan_strat_correct_full I swap arities P pl fuel F0 a' Har Hwf Hnd Hperm Hval Ha) as [_ [_ [HM [HN HA]]]].
  split; [exact HM|]. split; [exact HN|]. split; [exact HA|exact Hia].
Qed.

(* ---------- non-vacuity and the refuted variants ---------- *)
Definition tc_decls : list idecl :=
  [(0%nat, 2%nat, []); (0%nat, 2%nat, [1%nat]); (0%nat, 2%nat, [0%nat; 1%nat]); (1%nat, 2%nat, [0%nat]); (1%nat, 2%nat, [0%nat; 1%nat])].

Example tc_indexed_hyps : plan_idx_ok tc_decls tc_plan = true /\ forallb (fact_idx_ok tc_decls) tc_input = true.
Proof. vm_compute. split; reflexivity. Qed.

Example tc_indexed_runs : exists c, run_plan_idx std_interp std_swap 20 tc_plan (init_istate tc_decls tc_input) = Some c
  /\ length (irows c) = 25%nat /\ indices_agree_b (istored c) = true.
Proof. eexists. split; [vm_compute; reflexivity|]. split; vm_compute; reflexivity. Qed.

(* the transferred theorem applied: its hypotheses are satisfiable on the plan the real macro dumped for transitive closure *)
Lemma tc_input_nodup : NoDup tc_input.
Proof. unfold tc_input. repeat (constructor; [cbn [In]; intuition congruence|]). constructor. Qed.

Example tc_indexed_least_model : exists c,
  run_plan_idx std_interp std_swap 20 tc_plan (init_istate tc_decls tc_input) = Some c
  /\ least_model std_interp tc_prog tc_input (irows c) /\ indices_agree (istored c).
Proof.
  destruct tc_indexed_runs as [c [Hrun _]]. exists c. split; [exact Hrun|].
  destruct tc_hyps as [Hval [Hna Hwf]]. destruct tc_indexed_hyps as [Hplan Hok]. rewrite forallb_forall in Hok.
  destruct (indexed_run_least_model std_interp std_swap tc_decls tc_plan Hplan tc_arities tc_prog tc_arities_functional Hna Hval
              20%nat tc_input c Hwf tc_input_nodup Hok Hrun) as [HL [_ Hia]].
  split; [exact HL|exact Hia].
Qed.

(* a head update that skips the insertion into the index path_indices_0 (relation 1, columns [0]) of `new`:
   the indices of the relation no longer agree, the lookup of key 1 through that index finds nothing although the full index
   holds the tuple (1, 2), and the run derives none of the 15 tuples of the recursive rule (10 rows instead of 25) *)
Definition skip_path0 : faults := {| f_skip := fun r c => Nat.eqb r 1 && cols_eqb c [0%nat]; f_noclear := fun _ _ => false |}.
Example head_update_skips_index_refuted : exists c,
  run_plan_i std_interp std_swap skip_path0 20 tc_plan (init_istate tc_decls tc_input) = Some c
  /\ indices_agree_b (istored c) = false
  /\ (exists p q, nth_error (istored c) 3 = Some p /\ nth_error (istored c) 4 = Some q
        /\ p_cols p = [0%nat] /\ ix_get [1] (p_ents p) = [] /\ ix_has [1; 2] (p_ents q) = true)
  /\ length (irows c) = 10%nat.
Proof. eexists. split; [vm_compute; reflexivity|]. split; [vm_compute; reflexivity|]. split; [|vm_compute; reflexivity].
  eexists. eexists. split; [vm_compute; reflexivity|]. split; [vm_compute; reflexivity|]. repeat split; vm_compute; reflexivity. Qed.

(* update_indices that does not reset edge_indices_1 (relation 0, columns [1]): after the second run() every tuple sits twice under its key *)
Definition noclear_edge1 : faults := {| f_skip := fun _ _ => false; f_noclear := fun r c => Nat.eqb r 0 && cols_eqb c [1%nat] |}.
Example update_indices_noclear_refuted : exists c1 c2,
  run_plan_i std_interp std_swap noclear_edge1 20 tc_plan (init_istate tc_decls tc_input) = Some c1
  /\ run_plan_i std_interp std_swap noclear_edge1 20 tc_plan c1 = Some c2
  /\ indices_agree_b (istored c1) = true /\ indices_agree_b (istored c2) = false
  /\ (exists p, nth_error (istored c2) 1 = Some p /\ p_cols p = [1%nat] /\ ix_get [2] (p_ents p) = [[1; 2]; [1; 2]]).
Proof. eexists. eexists. split; [vm_compute; reflexivity|]. split; [vm_compute; reflexivity|]. split; [vm_compute; reflexivity|].
  split; [vm_compute; reflexivity|]. eexists. split; [vm_compute; reflexivity|]. split; vm_compute; reflexivity. Qed.

Print Assumptions run_plan_idx_sim.
Print Assumptions indexed_run_least_model.
Print Assumptions indexed_rerun_idempotent.
Print Assumptions indexed_run_strat_model.
Print Assumptions loop_head_step.
Print Assumptions head_update_skips_index_refuted.
Print Assumptions tc_indexed_least_model.
