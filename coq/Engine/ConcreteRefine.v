(* Concrete index types under the per-index engine, part 3: THE SIMULATION
       ConcreteEval.run_plan_concrete  ~  IndexedEval.run_plan_idx
   and its corollaries (concrete_run_least_model, concrete_indices_agree, concrete_rerun).

   Statement (run_plan_concrete_sim).  For every order oracle sh that permutes its argument (iteration / drain order of every hash
   map, every call), every tuple encoding enc with a left inverse dec, every interpretation I whose aggregators do not
   depend on the order of their input (agg_perm_invariant; vacuous without aggregates), every swap oracle that does not depend
   on the order of the rows it is shown, every plan with plan_idx_ok decls pl: started on program values with the same index
   fields and rows equal up to Permutation (rows of the declared arities), the two runs either both run out of fuel or both
   finish, and then (Rst)
     - the rows are equal up to Permutation (NOT as lists: a rule evaluation enumerates index_get / iter_all results in the
       order of the hash map and of the Vec kept per key - which move_index_contents reorders by size - so new rows are pushed
       in another order; the set and the multiplicities are the same);
     - every stored index field, a value of the C19 model type, abstracts to the entry list of the corresponding index of
       IndexedEval up to Permutation: hash index: hv_wf, and hv_abs m is a permutation of { (enc key, enc other-columns) };
       full index: distinct keys, unit values, key set = { enc row }.
   The serial types do not hash through a modelled hash function (that is DashMap, parallel mode), so sh is the only oracle.

   What is not covered: the decision `len_estimate() <= len_estimate()` of the generated code (ConcreteEval.real_swap_dec) is not
   an instance of the swap oracle of Eval.v / IndexedEval.v (a function of the rows only), as in those files; it is covered
   for plans without a reorderable simple join (run_plan_concrete_real_eq), where the decision is never taken. *)
From Coq Require Import List ZArith Bool Arith Lia Permutation.
From AV Require Import Index.MultiMap.
From AV Require Import Index.IndexModel.
From AV Require Import Index.IndexRefine.
From AV Require Import Engine.Core Engine.Sem Engine.Eval Engine.Validate Engine.Naive Engine.Interface Engine.NaiveLemmas Engine.Rerun Engine.Main Engine.Vocab Engine.Examples.
From AV Require Import Engine.InterfaceAgg Engine.StratFixed Engine.SemiNaiveAgg Engine.MainAgg.
From AV Require Import Engine.IndexedEval Engine.IndexedBase Engine.IndexedSim Engine.IndexedRefine.
From AV Require Import Engine.IndexedLockstep.
From AV Require Import Engine.ConcreteEval Engine.ConcreteBase Engine.ConcretePerm.
Import ListNotations.
Open Scope Z_scope.

Definition swap_perm_invariant (swap : list tuple -> list tuple -> bool) : Prop :=
  forall a a' b b', Permutation a a' -> Permutation b b' -> swap a b = swap a' b'.

Lemma db_of_perm R R' r : Permutation R R' -> Permutation (db_of R r) (db_of R' r).
Proof. intros P. unfold db_of. apply Permutation_map, filter_perm, P. Qed.

Lemma Forall2_comp {A B C} (R : A -> B -> Prop) (Q : B -> C -> Prop) (T : A -> C -> Prop) la lb lc :
  Forall2 R la lb -> Forall2 Q lb lc -> (forall a b c, R a b -> Q b c -> T a c) -> Forall2 T la lc.
Proof.
  intros H. revert lc. induction H as [|a b la lb Hab H IH]; intros lc HQ HT; inversion HQ; subst; constructor; eauto.
Qed.

Lemma ix_insert_full_in k t es e : In e (ix_insert true k t es) -> e = (k, k) \/ In e es.
Proof.
  unfold ix_insert. destruct (ix_has k es); [auto|]. intros H. apply in_app_or in H as [H|[H|[]]]; auto.
Qed.
Lemma ix_move_full_in from : forall to e, In e (ix_move true from to) -> In e to \/ exists e', In e' from /\ e = (fst e', fst e').
Proof.
  unfold ix_move. induction from as [|x from IH]; intros to e H; cbn [fold_left] in H; [auto|].
  apply IH in H as [H|[e' [H1 H2]]].
  - apply ix_insert_full_in in H as [H|H]; [|auto]. right. exists x. split; [left; reflexivity|exact H].
  - right. exists e'. split; [right; exact H1|exact H2].
Qed.

Section Sim.
Variable sh : forall A : Type, list A -> list A.
Hypothesis sh_perm : forall A (l : list A), Permutation (sh A l) l.
Variable enc : list Z -> Z.
Variable dec : Z -> list Z.
Hypothesis dec_enc : forall l, dec (enc l) = l.
Variable I : interp.
Hypothesis Hagg : agg_perm_invariant I.
Variable swap : list tuple -> list tuple -> bool.
Hypothesis Hswap : swap_perm_invariant swap.
Variable decls : list idecl.
Hypothesis Hdecls : forallb (decl_ok decls) decls = true.

(* ---------- the relation between a concrete and an abstract index ---------- *)
Definition Rix (a : nat) (c : list nat) (x : cix) (es : ients) : Prop :=
  Forall (ent_ok a c) es
  /\ match x with
     | CHash m => is_full a c = false /\ Rh enc a c m es
     | CFull m => is_full a c = true /\ Rf enc m es
     end.
Definition Rp (cp : cpidx) (p : pidx) : Prop :=
  cp_rel cp = p_rel p /\ cp_arity cp = p_arity p /\ cp_cols cp = p_cols p /\ Rix (p_arity p) (p_cols p) (cp_ix cp) (p_ents p).
Definition Rl (cl : clidx) (l : lidx) : Prop :=
  cl_rel cl = l_rel l /\ cl_arity cl = l_arity l /\ cl_cols cl = l_cols l
  /\ Forall (ent_ok (l_arity l) (l_cols l)) (l_tot l) /\ Forall (ent_ok (l_arity l) (l_cols l)) (l_del l)
  /\ Forall (ent_ok (l_arity l) (l_cols l)) (l_new l)
  /\ match cl_ix cl with
     | H3 t d n => is_full (l_arity l) (l_cols l) = false
                   /\ Rh enc (l_arity l) (l_cols l) t (l_tot l) /\ Rh enc (l_arity l) (l_cols l) d (l_del l)
                   /\ Rh enc (l_arity l) (l_cols l) n (l_new l)
     | F3 t d n => is_full (l_arity l) (l_cols l) = true
                   /\ Rf enc t (l_tot l) /\ Rf enc d (l_del l) /\ Rf enc n (l_new l)
     end.
Definition Rshape (cp : cpidx) (p : pidx) : Prop := cp_rel cp = p_rel p /\ cp_arity cp = p_arity p /\ cp_cols cp = p_cols p.

Definition Racc (c : list clidx * list fact * bool) (a : list lidx * list fact * bool) : Prop :=
  Forall2 Rl (fst (fst c)) (fst (fst a)) /\ shape (fst (fst a)) = decls
  /\ Permutation (snd (fst c)) (snd (fst a)) /\ snd c = snd a /\ (forall f, In f (snd (fst a)) -> fok decls f).

(* the relation between the program values *)
Definition Rst (c : cstate) (a : istate) : Prop :=
  Permutation (crows c) (irows a) /\ Forall2 Rp (cstored c) (istored a) /\ pshape (istored a) = decls
  /\ (forall f, In f (irows a) -> fok decls f).

Lemma full_dup r a c es : In (r, a, c) decls -> is_full a c = true -> Forall (ent_ok a c) es -> Forall (fun e => fst e = snd e) es.
Proof.
  intros Hin Hf F. pose proof (decl_full_cols decls Hdecls r a c Hin Hf) as ->. eapply Forall_impl; [|exact F].
  intros e [H1 H2]. cbv beta. etransitivity; [exact H1|]. now apply proj_seq.
Qed.

Lemma Rl_eq cl l l' : Rl cl l -> lidx_eq l l' -> Rl cl l'.
Proof.
  intros [H1 [H2 [H3 [F1 [F2 [F3 H]]]]]] [E1 [E2 [E3 [P1 [P2 P3]]]]]. unfold Rl. rewrite <- E1, <- E2, <- E3.
  split; [exact H1|]. split; [exact H2|]. split; [exact H3|].
  split; [eapply Permutation_Forall; eassumption|]. split; [eapply Permutation_Forall; eassumption|].
  split; [eapply Permutation_Forall; eassumption|].
  destruct (cl_ix cl) as [t d n|t d n]; destruct H as [Hf [R1 [R2 R3]]]; (split; [exact Hf|]).
  - split; [eapply Rh_perm; eassumption|]. split; eapply Rh_perm; eassumption.
  - split; [eapply Rf_perm; eassumption|]. split; eapply Rf_perm; eassumption.
Qed.

Lemma Racc_eq c a a' : Racc c a -> acc_eq a a' -> Racc c a'.
Proof.
  intros [H1 [H2 [H3 [H4 H5]]]] [E1 [E2 E3]]. split; [|split; [|split; [|split]]].
  - eapply Forall2_comp; [exact H1|exact E1|]. intros x y z. apply Rl_eq.
  - rewrite <- (store_eq_shape _ _ E1). exact H2.
  - eapply Permutation_trans; eassumption.
  - congruence.
  - intros f Hf. apply H5. eapply Permutation_in; [symmetry; exact E2|exact Hf].
Qed.

(* ---------- reads ---------- *)
Lemma view_get cl l dyn ver key : Rl cl l -> In (l_rel l, l_arity l, l_cols l) decls ->
  Permutation (v_get enc dec (cl_arity cl) (cl_cols cl) key (c_view dyn cl ver)) (ix_get key (l_ver dyn l ver)).
Proof.
  intros [H1 [H2 [H3 [F1 [F2 [F3 H]]]]]] Hin. rewrite H2, H3. unfold c_view, l_ver. rewrite H1.
  destruct (cl_ix cl) as [t d n|t d n]; destruct H as [Hf [R1 [R2 R3]]].
  - destruct (is_dyn dyn (l_rel l)); [destruct ver|]; cbn [v_get].
    + now apply (Rh_get enc dec dec_enc).
    + now apply (Rh_get enc dec dec_enc).
    + now apply (Rh_get_comb enc dec dec_enc).
    + now apply (Rh_get enc dec dec_enc).
  - pose proof (full_dup _ _ _ _ Hin Hf F1) as D1. pose proof (full_dup _ _ _ _ Hin Hf F2) as D2.
    destruct (is_dyn dyn (l_rel l)); [destruct ver|]; cbn [v_get].
    + now rewrite (Rf_get enc dec dec_enc t (l_tot l) key R1 D1).
    + now rewrite (Rf_get enc dec dec_enc d (l_del l) key R2 D2).
    + now rewrite (Rf_get_comb enc dec dec_enc t d (l_tot l) (l_del l) key R1 R2 D1 D2).
    + now rewrite (Rf_get enc dec dec_enc t (l_tot l) key R1 D1).
Qed.

Lemma view_all cl l dyn ver : Rl cl l -> In (l_rel l, l_arity l, l_cols l) decls ->
  Permutation (v_all sh dec (cl_arity cl) (cl_cols cl) (c_view dyn cl ver)) (ix_all (l_ver dyn l ver)).
Proof.
  intros [H1 [H2 [H3 [F1 [F2 [F3 H]]]]]] Hin. rewrite H2, H3. unfold c_view, l_ver. rewrite H1.
  destruct (cl_ix cl) as [t d n|t d n]; destruct H as [Hf [R1 [R2 R3]]].
  - destruct (is_dyn dyn (l_rel l)); [destruct ver|]; cbn [v_all].
    + now apply (Rh_all enc dec dec_enc sh sh_perm).
    + now apply (Rh_all enc dec dec_enc sh sh_perm).
    + now apply (Rh_all_comb enc dec dec_enc sh sh_perm).
    + now apply (Rh_all enc dec dec_enc sh sh_perm).
  - pose proof (full_dup _ _ _ _ Hin Hf F1) as D1. pose proof (full_dup _ _ _ _ Hin Hf F2) as D2.
    destruct (is_dyn dyn (l_rel l)); [destruct ver|]; cbn [v_all].
    + now apply (Rf_all enc dec dec_enc sh sh_perm).
    + now apply (Rf_all enc dec dec_enc sh sh_perm).
    + now apply (Rf_all_comb enc dec dec_enc sh sh_perm).
    + now apply (Rf_all enc dec dec_enc sh sh_perm).
Qed.

Lemma view_empty cl l dyn ver : Rl cl l -> v_empty (c_view dyn cl ver) = ix_empty (l_ver dyn l ver).
Proof.
  intros [H1 [H2 [H3 [F1 [F2 [F3 H]]]]]]. unfold c_view, l_ver. rewrite H1.
  assert (A : forall x y : ients, ix_empty (x ++ y) = ix_empty x && ix_empty y) by (intros [|? ?] [|? ?]; reflexivity).
  destruct (cl_ix cl) as [t d n|t d n]; destruct H as [Hf [R1 [R2 R3]]];
    (destruct (is_dyn dyn (l_rel l)); [destruct ver|]); cbn [v_empty]; unfold comb_is_empty; rewrite ?A;
    rewrite ?(Rh_empty enc _ _ _ _ R1), ?(Rh_empty enc _ _ _ _ R2), ?(Rf_empty enc dec dec_enc _ _ R1), ?(Rf_empty enc dec dec_enc _ _ R2);
    reflexivity.
Qed.

Lemma find_rel cs as_ r idx : Forall2 Rl cs as_ ->
  match c_find cs r idx, find_idx as_ r idx with
  | Some cl, Some l => Rl cl l /\ In l as_
  | None, None => True
  | _, _ => False
  end.
Proof.
  intros F. unfold c_find, find_idx. pose proof (find_Forall2 Rl (cl_is r idx) (l_is r idx) cs as_ F) as H.
  match type of H with ?P -> _ => assert (G : P) end.
  { intros a b [H1 [_ [H3 _]]]. unfold cl_is, l_is. now rewrite H1, H3. }
  specialize (H G). destruct (find (cl_is r idx) cs), (find (l_is r idx) as_); try exact H. split; apply H.
Qed.

Section Reads.
Variables (cs : list clidx) (as_ : list lidx) (dyn : list rel).
Hypothesis HF : Forall2 Rl cs as_.
Hypothesis Hsh : shape as_ = decls.

Lemma reads_get r idx ver key : Permutation (c_get enc dec cs dyn r idx ver key) (ix_get key (cents as_ dyn r idx ver)).
Proof.
  unfold c_get, cents. pose proof (find_rel cs as_ r idx HF) as H.
  destruct (c_find cs r idx) as [cl|], (find_idx as_ r idx) as [l|]; try contradiction; [|reflexivity].
  destruct H as [H Hin]. apply view_get; [exact H|]. now apply (store_decl decls as_).
Qed.
Lemma reads_all r idx ver : Permutation (c_all sh dec cs dyn r idx ver) (ix_all (cents as_ dyn r idx ver)).
Proof.
  unfold c_all, cents. pose proof (find_rel cs as_ r idx HF) as H.
  destruct (c_find cs r idx) as [cl|], (find_idx as_ r idx) as [l|]; try contradiction; [|reflexivity].
  destruct H as [H Hin]. apply view_all; [exact H|]. now apply (store_decl decls as_).
Qed.
Lemma reads_empty r idx ver : c_empty cs dyn r idx ver = ix_empty (cents as_ dyn r idx ver).
Proof.
  unfold c_empty, cents. pose proof (find_rel cs as_ r idx HF) as H.
  destruct (c_find cs r idx) as [cl|], (find_idx as_ r idx) as [l|]; try contradiction; [|reflexivity].
  destruct H as [H Hin]. now apply view_empty.
Qed.
Lemma reads_swap r1 i1 v1 r2 i2 v2 :
  c_swap sh dec (oracle_dec swap) cs dyn r1 i1 v1 r2 i2 v2 = swap (ix_all (cents as_ dyn r1 i1 v1)) (ix_all (cents as_ dyn r2 i2 v2)).
Proof. unfold c_swap, oracle_dec. apply Hswap; apply reads_all. Qed.

(* ---------- a rule variant: the lists of head facts are permutations of each other ---------- *)
Notation cget := (c_get enc dec cs dyn).
Notation call := (c_all sh dec cs dyn).
Notation cempty := (c_empty cs dyn).
Notation cswap := (c_swap sh dec (oracle_dec swap) cs dyn).

Lemma clause_idx_perm k k' e r args cnds idx ver : (forall e', Permutation (k e') (k' e')) ->
  Permutation (eval_clause_idx_g I cget k e r args cnds idx ver) (eval_clause_idx_i I as_ dyn k' e r args cnds idx ver).
Proof.
  intros Hk. unfold eval_clause_idx_g, eval_clause_idx_i. destruct (eval_key I e args idx) as [key|]; [|reflexivity].
  apply flat_map_perm; [apply reads_get|]. intros tup. destruct (sat_conds I (bind_new e args tup) cnds); [apply Hk|reflexivity].
Qed.

Lemma clause_all_perm k k' e r args cnds idx ver : (forall e', Permutation (k e') (k' e')) ->
  Permutation (eval_clause_all_g I call k e r args cnds idx ver) (eval_clause_all_i I as_ dyn k' e r args cnds idx ver).
Proof.
  intros Hk. unfold eval_clause_all_g, eval_clause_all_i.
  apply flat_map_perm; [apply reads_all|]. intros tup. destruct (sat_conds I (bind_new e args tup) cnds); [apply Hk|reflexivity].
Qed.

Lemma agg_input_eq a bound (args : list aarg) r idx key :
  aint I a (map (Sem.agg_input bound args) (cget r idx VTotal key))
  = aint I a (map (Sem.agg_input bound args) (ix_get key (cents as_ dyn r idx VTotal))).
Proof. apply Hagg. apply Permutation_map. apply reads_get. Qed.

Lemma items_perm : forall items e, Permutation (eval_items_g I cget items e) (eval_items_i I as_ dyn items e).
Proof.
  induction items as [|p items IH]; intros e; [reflexivity|].
  destruct p as [r args cnds idx ver|c|x g xs|out a bound r args idx]; cbn [eval_items_g eval_items_i].
  - apply clause_idx_perm. exact IH.
  - destruct (sat_cond I e c); [apply IH|reflexivity].
  - destruct (eval_vars e xs); [|reflexivity]. apply flat_map_perm; [reflexivity|]. intros v. apply IH.
  - destruct (agg_key I e args idx) as [key|]; [|reflexivity]. rewrite agg_input_eq.
    apply flat_map_perm; [reflexivity|]. intros v. apply IH.
Qed.

Lemma sj_perm items reord e :
  Permutation (eval_simple_join_g I cget call cswap items reord e) (eval_simple_join_i I swap as_ dyn items reord e).
Proof.
  destruct items as [|p1 items]; [reflexivity|].
  destruct p1 as [r1 a1 c1 i1 v1| | |]; try apply (items_perm (_ :: items)).
  destruct items as [|p2 items]; [apply (items_perm [_])|].
  destruct p2 as [r2 a2 c2 i2 v2| | |]; try apply (items_perm (_ :: _ :: items)).
  cbn [eval_simple_join_g eval_simple_join_i]. rewrite reads_swap.
  destruct (reord && negb (swap (ix_all (cents as_ dyn r1 i1 v1)) (ix_all (cents as_ dyn r2 i2 v2)))).
  - apply clause_all_perm. intros e1. apply clause_idx_perm. apply items_perm.
  - apply clause_all_perm. intros e1. apply clause_idx_perm. apply items_perm.
Qed.

Lemma from_perm items sj reord : forall e,
  Permutation (eval_from_g I cget call cswap items sj reord e) (eval_from_i I swap as_ dyn items sj reord e).
Proof.
  destruct sj as [n|].
  2:{ intros e. destruct items; apply items_perm. }
  revert items. induction n as [|n IH]; intros items e.
  - destruct items; apply sj_perm.
  - destruct items as [|p items]; [reflexivity|]. specialize (IH items).
    destruct p as [r args cnds idx ver|c|x g xs|out a bound r args idx]; cbn [eval_from_g eval_from_i].
    + apply clause_idx_perm. exact IH.
    + destruct (sat_cond I e c); [apply IH|reflexivity].
    + destruct (eval_vars e xs); [|reflexivity]. apply flat_map_perm; [reflexivity|]. intros v. apply IH.
    + destruct (agg_key I e args idx) as [key|]; [|reflexivity]. rewrite agg_input_eq.
      apply flat_map_perm; [reflexivity|]. intros v. apply IH.
Qed.

Lemma empty_eq_c items : existsb (clause_empty_g cempty) items = existsb (clause_empty_i as_ dyn) items.
Proof.
  induction items as [|p items IH]; [reflexivity|]. cbn [existsb]. rewrite IH. f_equal.
  destruct p; try reflexivity. cbn [clause_empty_g clause_empty_i]. apply reads_empty.
Qed.

Lemma variant_perm v :
  Permutation (eval_variant_c sh enc dec I (oracle_dec swap) cs dyn v) (eval_variant_i I swap as_ dyn v).
Proof.
  unfold eval_variant_c, eval_variant_g, eval_variant_i. rewrite empty_eq_c.
  match goal with |- Permutation (if ?b then _ else _) _ => destruct b end; [reflexivity|].
  apply flat_map_perm; [apply from_perm|]. intros e. reflexivity.
Qed.
End Reads.

Lemma variant_facts_fok as_ dyn v f : variant_idx_ok decls dyn v = true -> In f (eval_variant_i I swap as_ dyn v) -> fok decls f.
Proof.
  intros Hok Hin. unfold variant_idx_ok in Hok. apply andb_true_iff in Hok as [_ Hh]. rewrite forallb_forall in Hh.
  unfold eval_variant_i in Hin. match type of Hin with In _ (if ?b then _ else _) => destruct b end; [destruct Hin|].
  apply in_heads_of_envs in Hin as [e [h [_ [Hhin He]]]]. specialize (Hh h Hhin). unfold head_ok in Hh.
  apply andb_true_iff in Hh as [_ H2]. apply eval_head_shape in He as [E1 E2].
  unfold fok, fact_idx_ok. rewrite E1, E2. exact H2.
Qed.

(* ---------- writes: one head update with the same fact ---------- *)
Lemma insert_sim cl l r t : Rl cl l -> In (l_rel l, l_arity l, l_cols l) decls -> l_rel l = r -> fok decls (r, t) ->
  Rl (c_insert_new enc cl t) (insert_new l t).
Proof.
  intros [H1 [H2 [H3 [F1 [F2 [F3 H]]]]]] Hin Hr Hf. subst r.
  pose proof (fok_length decls Hdecls _ _ _ _ Hf Hin) as Hlen.
  unfold Rl, c_insert_new, insert_new, new_key, with_ix. cbn [cl_rel cl_arity cl_cols cl_ix l_rel l_arity l_cols l_tot l_del l_new].
  split; [exact H1|]. split; [exact H2|]. split; [exact H3|]. split; [exact F1|]. split; [exact F2|].
  rewrite H2, H3. destruct (cl_ix cl) as [to de ne|to de ne]; destruct H as [Hfull [R1 [R2 R3]]]; rewrite Hfull.
  - split.
    + unfold ix_insert. apply Forall_app. split; [exact F3|]. constructor; [|constructor]. split; [reflexivity|exact Hlen].
    + split; [first [reflexivity|exact Hfull]|]. split; [exact R1|]. split; [exact R2|]. unfold ix_insert. now apply Rh_insert.
  - assert (Hp : proj (l_cols l) t = t).
    { rewrite (decl_full_cols decls Hdecls _ _ _ Hin Hfull). now apply proj_seq. }
    split.
    + unfold ix_insert. destruct (ix_has t (l_new l)); [exact F3|]. apply Forall_app. split; [exact F3|].
      constructor; [|constructor]. split; [cbn [fst snd]; now rewrite Hp|exact Hlen].
    + split; [first [reflexivity|exact Hfull]|]. split; [exact R1|]. split; [exact R2|]. apply (Rf_insert_np enc dec dec_enc). exact R3.
Qed.

Lemma insx_map_shape f s : shape (map (insx f) s) = shape s.
Proof.
  unfold shape. rewrite map_map. apply map_ext. intros l. destruct (insx_shape f l) as [H1 [H2 [H3 _]]]. now rewrite H1, H2, H3.
Qed.

Lemma head_sim c a f : Racc c a -> fok decls f -> Racc (c_head_update enc c f) (head_update_i no_faults a f).
Proof.
  intros HR Hf. rewrite hu_unfold.
  destruct c as [[cs cR] cch], a as [[as_ aR] ach]. destruct HR as [HF [Hsh [HP [Hch Hok]]]]. cbn [fst snd] in *. subst cch.
  destruct f as [r t]. unfold c_head_update, hu_test, c_full_of, full_of. cbn [fst snd].
  pose proof (find_Forall2 Rl (fun l => Nat.eqb (cl_rel l) r && is_full (cl_arity l) (cl_cols l))
                (fun l => Nat.eqb (l_rel l) r && is_full (l_arity l) (l_cols l)) cs as_ HF) as H.
  match type of H with ?P -> _ => assert (G : P) end.
  { intros x y [H1 [H2 [H3 _]]]. now rewrite H1, H2, H3. }
  specialize (H G). clear G.
  destruct (find (fun l => Nat.eqb (cl_rel l) r && is_full (cl_arity l) (cl_cols l)) cs) as [clf|] eqn:E1;
    destruct (find (fun l => Nat.eqb (l_rel l) r && is_full (l_arity l) (l_cols l)) as_) as [lf|] eqn:E2; try contradiction.
  2:{ repeat split; assumption. }
  destruct H as [HRl [_ Hinl]]. apply find_some in E2 as [_ E2]. apply andb_true_iff in E2 as [_ Efull].
  pose proof HRl as [_ [_ [_ [_ [_ [_ HK]]]]]]. destruct (cl_ix clf) as [to de ne|to de ne]; destruct HK as [Hfull [R1 [R2 R3]]]; [congruence|].
  rewrite (Rf_contains enc dec dec_enc to (l_tot lf) t R1), (Rf_contains enc dec dec_enc de (l_del lf) t R2).
  destruct (ix_has t (l_tot lf) || ix_has t (l_del lf)); cbn [negb andb]; [repeat split; assumption|].
  destruct (Rf_insert_np enc dec dec_enc ne (l_new lf) t R3) as [_ ->].
  destruct (ix_has t (l_new lf)); cbn [negb]; [repeat split; assumption|].
  unfold hu_upd, Racc. cbn [fst snd] in *. split; [|split; [rewrite insx_map_shape; exact Hsh|split; [now apply Permutation_app_tail|split; [reflexivity|]]]].
  - apply Forall2_map_gen with (R := Rl); [exact HF|]. intros cl l _ Hl HRl'. unfold insx. cbn [fst snd].
    destruct HRl' as [Q1 Q']. rewrite Q1. destruct (Nat.eqb (l_rel l) r) eqn:Er; [|split; assumption].
    apply Nat.eqb_eq in Er. apply (insert_sim cl l r t); [split; assumption|now apply (store_decl decls as_)|exact Er|exact Hf].
  - intros g Hg. apply in_app_or in Hg as [Hg|[<-|[]]]; [now apply Hok|exact Hf].
Qed.

Lemma heads_same fs : forall c a, Racc c a -> (forall f, In f fs -> fok decls f) ->
  Racc (fold_left (c_head_update enc) fs c) (fold_left (head_update_i no_faults) fs a).
Proof.
  induction fs as [|f fs IH]; intros c a HR Hfs; [exact HR|]. cbn [fold_left]. apply IH.
  - apply head_sim; [exact HR|]. apply Hfs. now left.
  - intros g Hg. apply Hfs. now right.
Qed.

(* the head updates of one rule evaluation, the facts arriving in another order *)
Lemma heads_sim fs fs' c a : Racc c a -> Permutation fs fs' -> (forall f, In f fs' -> fok decls f) ->
  Racc (fold_left (c_head_update enc) fs c) (fold_left (head_update_i no_faults) fs' a).
Proof.
  intros HR P Hfs. apply (Racc_eq _ (fold_left (head_update_i no_faults) fs a)).
  - apply heads_same; [exact HR|]. intros f Hf. apply Hfs. eapply Permutation_in; eassumption.
  - now apply heads_perm.
Qed.

Lemma iteration_sim dyn vars : (forall v, In v vars -> variant_idx_ok decls dyn v = true) ->
  forall c a, Racc c a ->
  Racc (fold_left (fun acc v => fold_left (c_head_update enc) (eval_variant_c sh enc dec I (oracle_dec swap) (fst (fst acc)) dyn v) acc) vars c)
       (fold_left (fun acc v => fold_left (head_update_i no_faults) (eval_variant_i I swap (fst (fst acc)) dyn v) acc) vars a).
Proof.
  induction vars as [|v vars IH]; intros Hv c a HR; [exact HR|]. cbn [fold_left]. apply IH; [intros v' Hv'; apply Hv; now right|].
  apply heads_sim; [exact HR| |].
  - apply variant_perm; apply HR.
  - intros f Hf. apply (variant_facts_fok (fst (fst a)) dyn v f); [apply Hv; now left|exact Hf].
Qed.

(* ---------- merge_delta_to_total_new_to_delta ---------- *)
Lemma merge_sim dyn cl l : Rl cl l -> In (l_rel l, l_arity l, l_cols l) decls -> Rl (c_merge_l sh dyn cl) (merge_l dyn l).
Proof.
  intros HR Hin. pose proof HR as [H1 [H2 [H3 [F1 [F2 [F3 H]]]]]]. unfold c_merge_l, merge_l. rewrite H1.
  destruct (is_dyn dyn (l_rel l)); [|exact HR].
  unfold Rl, with_ix. cbn [cl_rel cl_arity cl_cols cl_ix l_rel l_arity l_cols l_tot l_del l_new].
  split; [exact H1|]. split; [exact H2|]. split; [exact H3|].
  destruct (cl_ix cl) as [t d n|t d n]; destruct H as [Hfull [R1 [R2 R3]]]; rewrite Hfull.
  - pose proof (Rh_merge enc sh sh_perm _ _ n d t _ _ _ R3 R2 R1) as M. destruct (merge3 (hv_move sh) n d t) as [[n' d'] t'].
    destruct M as [M1 [M2 M3]]. unfold ix_move. split; [apply Forall_app; split; assumption|]. split; [exact F3|]. split; [constructor|].
    split; [first [reflexivity|exact Hfull]|]. split; [exact M3|]. split; [exact M2|exact M1].
  - pose proof (Rf_merge enc sh sh_perm n d t _ _ _ R3 R2 R1) as M. destruct (merge3 (fm_move sh) n d t) as [[n' d'] t'].
    destruct M as [M1 [M2 M3]]. split; [|split; [exact F3|split; [constructor|]]].
    + pose proof (full_dup _ _ _ _ Hin Hfull F2) as D2. rewrite Forall_forall in *. intros e He.
      apply ix_move_full_in in He as [He|[e' [He' ->]]]; [now apply F1|]. specialize (F2 e' He'). specialize (D2 e' He').
      destruct e' as [k0 t0]. cbn [fst snd] in *. subst t0. exact F2.
    + split; [first [reflexivity|exact Hfull]|]. split; [exact M3|]. split; [exact M2|exact M1].
Qed.

Lemma merge_store_sim dyn cs as_ : Forall2 Rl cs as_ -> shape as_ = decls ->
  Forall2 Rl (map (c_merge_l sh dyn) cs) (map (merge_l dyn) as_) /\ shape (map (merge_l dyn) as_) = decls.
Proof.
  intros HF Hsh. split.
  - apply Forall2_map_gen with (R := Rl); [exact HF|]. intros cl l _ Hl HR. apply merge_sim; [exact HR|]. now apply (store_decl decls as_).
  - rewrite <- Hsh. unfold shape. rewrite map_map. apply map_ext. intros l. unfold merge_l. destruct (is_dyn dyn (l_rel l)); reflexivity.
Qed.

(* ---------- the SCC loop ---------- *)
Definition Rres (c : list clidx * list fact) (a : list lidx * list fact) : Prop :=
  Forall2 Rl (fst c) (fst a) /\ shape (fst a) = decls /\ Permutation (snd c) (snd a) /\ (forall f, In f (snd a) -> fok decls f).

Lemma scc_iteration_sim sc cs cR as_ aR : (forall v, In v (s_vars sc) -> variant_idx_ok decls (s_dyn sc) v = true) ->
  Forall2 Rl cs as_ -> shape as_ = decls -> Permutation cR aR -> (forall f, In f aR -> fok decls f) ->
  Racc (c_iteration sh enc dec I (oracle_dec swap) sc cs cR) (scc_iteration_i I swap no_faults sc as_ aR).
Proof.
  intros Hv HF Hsh HP Hok. unfold c_iteration, scc_iteration_i. apply iteration_sim; [exact Hv|].
  split; [exact HF|]. split; [exact Hsh|]. split; [exact HP|]. split; [reflexivity|exact Hok].
Qed.

Lemma loop_sim_c fuel sc : (forall v, In v (s_vars sc) -> variant_idx_ok decls (s_dyn sc) v = true) ->
  forall cs cR as_ aR, Forall2 Rl cs as_ -> shape as_ = decls -> Permutation cR aR -> (forall f, In f aR -> fok decls f) ->
  orel Rres (c_loop sh enc dec I (oracle_dec swap) fuel sc cs cR) (scc_loop_i I swap no_faults fuel sc as_ aR).
Proof.
  intros Hv. induction fuel as [|n IH]; intros cs cR as_ aR HF Hsh HP Hok; [exact Logic.I|].
  cbn [c_loop scc_loop_i]. pose proof (scc_iteration_sim sc cs cR as_ aR Hv HF Hsh HP Hok) as H.
  destruct (c_iteration sh enc dec I (oracle_dec swap) sc cs cR) as [[cs1 cR1] cch].
  destruct (scc_iteration_i I swap no_faults sc as_ aR) as [[as1 aR1] ach].
  destruct H as [HF1 [Hsh1 [HP1 [Hch Hok1]]]]. cbn [fst snd] in *. subst cch.
  destruct (merge_store_sim (s_dyn sc) cs1 as1 HF1 Hsh1) as [HF2 Hsh2].
  destruct ach; [now apply IH|]. cbn [orel]. repeat split; assumption.
Qed.

(* ---------- entering and leaving an SCC ---------- *)
Lemma enter_sim_c dyn cp p : Rp cp p -> Rl (c_enter dyn cp) (enter_scc dyn p).
Proof.
  intros [H1 [H2 [H3 [F H]]]]. unfold c_enter, enter_scc, Rl. rewrite H1.
  destruct (cp_ix cp) as [m|m]; destruct H as [Hfull R]; destruct (is_dyn dyn (p_rel p));
    cbn [cl_rel cl_arity cl_cols cl_ix l_rel l_arity l_cols l_tot l_del l_new];
    (split; [reflexivity|split; [exact H2|split; [exact H3|]]]).
  - split; [constructor|split; [exact F|split; [constructor|split; [exact Hfull|split; [apply Rh_nil|split; [exact R|apply Rh_nil]]]]]].
  - split; [exact F|split; [constructor|split; [constructor|split; [exact Hfull|split; [exact R|split; apply Rh_nil]]]]].
  - split; [constructor|split; [exact F|split; [constructor|split; [exact Hfull|split; [apply Rf_nil|split; [exact R|apply Rf_nil]]]]]].
  - split; [exact F|split; [constructor|split; [constructor|split; [exact Hfull|split; [exact R|split; apply Rf_nil]]]]].
Qed.

Lemma leave_sim_c cl l : Rl cl l -> Rp (c_leave cl) (leave_scc l).
Proof.
  intros [H1 [H2 [H3 [F1 [F2 [F3 H]]]]]]. unfold c_leave, leave_scc, Rp, Rix. cbn [cp_rel cp_arity cp_cols cp_ix p_rel p_arity p_cols p_ents].
  split; [exact H1|]. split; [exact H2|]. split; [exact H3|]. split; [exact F1|].
  destruct (cl_ix cl) as [t d n|t d n]; destruct H as [Hfull [R1 _]]; split; assumption.
Qed.

Lemma run_scc_sim_c fuel sc c a : (forall v, In v (s_vars sc) -> variant_idx_ok decls (s_dyn sc) v = true) -> Rst c a ->
  orel Rst (c_run_scc sh enc dec I (oracle_dec swap) fuel sc c) (run_scc_i I swap no_faults fuel sc a).
Proof.
  intros Hv [HP [HF [Hsh Hok]]]. unfold c_run_scc, run_scc_i.
  assert (HF0 : Forall2 Rl (map (c_enter (s_dyn sc)) (cstored c)) (map (enter_scc (s_dyn sc)) (istored a))).
  { apply Forall2_map_gen with (R := Rp); [exact HF|]. intros cp p _ _. apply enter_sim_c. }
  assert (Hsh0 : shape (map (enter_scc (s_dyn sc)) (istored a)) = decls).
  { rewrite <- Hsh. unfold shape, pshape. rewrite map_map. apply map_ext. intros p. unfold enter_scc. destruct (is_dyn (s_dyn sc) (p_rel p)); reflexivity. }
  assert (Leave : forall cs as_ cR aR, Forall2 Rl cs as_ -> shape as_ = decls -> Permutation cR aR -> (forall f, In f aR -> fok decls f) ->
            Rst {| crows := cR; cstored := map c_leave cs |} {| irows := aR; istored := map leave_scc as_ |}).
  { intros cs as_ cR aR F S P O. split; [exact P|]. cbn [cstored istored irows]. split; [|split; [|exact O]].
    - apply Forall2_map_gen with (R := Rl); [exact F|]. intros cl l _ _. apply leave_sim_c.
    - rewrite <- S. unfold shape, pshape. rewrite map_map. apply map_ext. intros l. reflexivity. }
  destruct (s_loop sc).
  - pose proof (loop_sim_c fuel sc Hv _ _ _ _ HF0 Hsh0 HP Hok) as H.
    destruct (c_loop sh enc dec I (oracle_dec swap) fuel sc _ (crows c)) as [[cs cR]|];
      destruct (scc_loop_i I swap no_faults fuel sc _ (irows a)) as [[as_ aR]|]; cbn [orel] in *; try contradiction; [|exact Logic.I].
    destruct H as [F [S [P O]]]. now apply Leave.
  - pose proof (scc_iteration_sim sc _ _ _ _ Hv HF0 Hsh0 HP Hok) as H.
    destruct (c_iteration sh enc dec I (oracle_dec swap) sc _ (crows c)) as [[cs1 cR1] cch].
    destruct (scc_iteration_i I swap no_faults sc _ (irows a)) as [[as1 aR1] ach].
    destruct H as [HF1 [Hsh1 [HP1 [_ Hok1]]]]. cbn [fst snd] in *.
    destruct (merge_store_sim (s_dyn sc) cs1 as1 HF1 Hsh1) as [HF2 Hsh2].
    destruct (merge_store_sim (s_dyn sc) _ _ HF2 Hsh2) as [HF3 Hsh3]. cbn [orel]. now apply Leave.
Qed.

Lemma run_sccs_sim_c fuel pl : forall c a,
  forallb (fun sc => forallb (variant_idx_ok decls (s_dyn sc)) (s_vars sc)) pl = true -> Rst c a ->
  orel Rst (c_run_sccs sh enc dec I (oracle_dec swap) fuel pl c) (run_sccs_i I swap no_faults fuel pl a).
Proof.
  induction pl as [|sc pl IH]; intros c a Hok HS; [exact HS|].
  cbn [forallb] in Hok. apply andb_true_iff in Hok as [Hsc Hok]. rewrite forallb_forall in Hsc.
  cbn [c_run_sccs run_sccs_i]. pose proof (run_scc_sim_c fuel sc c a Hsc HS) as H.
  destruct (c_run_scc sh enc dec I (oracle_dec swap) fuel sc c) as [c1|]; destruct (run_scc_i I swap no_faults fuel sc a) as [a1|];
    cbn [orel] in H; try contradiction; [now apply IH|exact Logic.I].
Qed.

(* ---------- update_indices ---------- *)
Lemma index_insert_sim r a c x es t : In (r, a, c) decls -> length t = a -> Rix a c x es ->
  Rix a c (c_index_insert enc a c x t) (ix_insert (is_full a c) (proj c t) t es).
Proof.
  intros Hin Hlen [F H]. destruct x as [m|m]; destruct H as [Hfull R]; rewrite Hfull; unfold ix_insert; cbn [c_index_insert].
  - split; [apply Forall_app; split; [exact F|]; constructor; [split; [reflexivity|exact Hlen]|constructor]|].
    split; [exact Hfull|]. now apply Rh_insert.
  - assert (Hp : proj c t = t) by (rewrite (decl_full_cols decls Hdecls r a c Hin Hfull); now apply proj_seq).
    unfold ckey. rewrite Hp. pose proof (Rf_insert enc m es t R) as RI. unfold ix_insert in RI. split; [|split; [exact Hfull|exact RI]].
    destruct (ix_has t es); [exact F|]. apply Forall_app. split; [exact F|]. constructor; [|constructor].
    split; [cbn [fst snd]; now rewrite Hp|exact Hlen].
Qed.

Lemma build_sim r a c ts ts' : In (r, a, c) decls -> (forall t, In t ts -> length t = a) -> Permutation ts ts' ->
  Rix a c (c_build enc a c ts) (build_from a c ts' []).
Proof.
  intros Hin Hlen P.
  assert (G : forall l x es, (forall t, In t l -> length t = a) -> Rix a c x es ->
            Rix a c (fold_left (c_index_insert enc a c) l x) (build_from a c l es)).
  { induction l as [|t l IH]; intros x es Hl HR; [exact HR|]. unfold build_from. cbn [fold_left]. apply IH; [intros u Hu; apply Hl; now right|].
    apply (index_insert_sim r); [exact Hin|apply Hl; now left|exact HR]. }
  assert (R0 : Rix a c (c_default a c) []).
  { unfold c_default, Rix. split; [constructor|]. destruct (is_full a c) eqn:E; split; try reflexivity; [apply Rf_nil|apply Rh_nil]. }
  specialize (G ts _ _ Hlen R0). fold (c_build enc a c ts) in G. pose proof (build_from_perm a c ts ts' [] [] P (Permutation_refl _)) as Q.
  destruct G as [F H]. split; [eapply Permutation_Forall; eassumption|].
  destruct (c_build enc a c ts) as [m|m]; destruct H as [Hfull R]; (split; [exact Hfull|]); [eapply Rh_perm|eapply Rf_perm]; eassumption.
Qed.

Lemma update_sim_c c a : Permutation (crows c) (irows a) -> Forall2 Rshape (cstored c) (istored a) -> pshape (istored a) = decls ->
  (forall f, In f (irows a) -> fok decls f) -> Rst (c_update_indices enc c) (update_indices_i no_faults a).
Proof.
  intros HP HF Hsh Hok. unfold c_update_indices, update_indices_i. split; [exact HP|]. cbn [cstored istored irows]. split; [|split; [|exact Hok]].
  - apply Forall2_map_gen with (R := Rshape); [exact HF|]. intros cp p _ Hp [H1 [H2 H3]]. unfold Rp.
    cbn [cp_rel cp_arity cp_cols cp_ix p_rel p_arity p_cols p_ents f_noclear no_faults].
    split; [exact H1|]. split; [exact H2|]. split; [exact H3|]. rewrite H1, H2, H3.
    assert (Hin : In (p_rel p, p_arity p, p_cols p) decls).
    { rewrite <- Hsh. unfold pshape. apply in_map_iff. exists p. split; [reflexivity|exact Hp]. }
    apply (build_sim (p_rel p)); [exact Hin| |apply db_of_perm; exact HP].
    intros t Ht. apply in_db_of in Ht. apply (fok_length decls Hdecls (p_rel p) t (p_arity p) (p_cols p)); [|exact Hin].
    apply Hok. eapply Permutation_in; eassumption.
  - rewrite <- Hsh. unfold pshape. rewrite map_map. apply map_ext. intros p. reflexivity.
Qed.

(* ---------- what the tie reads: the entries of a stored index, through iter_all ---------- *)
Lemma entries_sim r a c x es : In (r, a, c) decls -> Rix a c x es -> Permutation (cix_entries sh dec a c x) es.
Proof.
  intros Hin [F H]. destruct x as [m|m]; destruct H as [Hfull R]; cbn [cix_entries].
  - transitivity (map (fun kv : Z * Z => (dec (fst kv), rebuild dec a c (fst kv) (snd kv))) (hv_abs (hv_iter_all sh m))).
    { unfold hv_abs. induction (hv_iter_all sh m) as [|[k vs] l IH]; [reflexivity|]. cbn [flat_map]. rewrite map_app. apply Permutation_app; [|exact IH].
      unfold ent. cbn [fst snd]. rewrite map_map. reflexivity. }
    rewrite (Permutation_map _ (hv_iter_all_abs sh sh_perm m)). unfold mm_entries. rewrite (Permutation_map _ (proj2 R)), map_map.
    match goal with |- Permutation ?u ?v => assert (E : u = v); [|rewrite E; reflexivity] end.
    rewrite <- (map_id es) at 2. apply map_ext_in. intros e He. rewrite Forall_forall in F. destruct (F e He) as [E1 E2].
    unfold g_h. cbn [fst snd]. rewrite dec_enc. destruct e as [k t]. cbn [fst snd] in *. f_equal. rewrite E1. now apply (rebuild_ok enc dec dec_enc).
  - transitivity (map (fun kv : Z * Z => (dec (fst kv), dec (fst kv))) (sh _ m)).
    { unfold fm_iter_all. induction (sh _ m) as [|[k v] l IH]; [reflexivity|]. cbn [map flat_map fst snd app]. now constructor. }
    rewrite (Permutation_map _ (sh_perm _ m)), (Permutation_map _ (Rf_perm_abs enc dec dec_enc m es R)), map_map. cbn [fst].
    match goal with |- Permutation ?u ?v => assert (E : u = v); [|rewrite E; reflexivity] end.
    rewrite <- (map_id es) at 2. apply map_ext_in. intros e He. pose proof (full_dup r a c es Hin Hfull F) as D. rewrite Forall_forall in D.
    specialize (D e He). rewrite dec_enc. destruct e as [k t]. cbn [fst snd] in *. now subst.
Qed.

(* THE SIMULATION *)
Theorem run_plan_concrete_sim : forall fuel pl c a, plan_idx_ok decls pl = true ->
  Permutation (crows c) (irows a) -> Forall2 Rshape (cstored c) (istored a) -> pshape (istored a) = decls ->
  (forall f, In f (irows a) -> fok decls f) ->
  orel Rst (run_plan_concrete sh enc dec I swap fuel pl c) (run_plan_idx I swap fuel pl a).
Proof.
  intros fuel pl c a Hp HP HF Hsh Hok. unfold plan_idx_ok in Hp. apply andb_true_iff in Hp as [_ Hp].
  unfold run_plan_concrete, run_plan_c, run_plan_idx, run_plan_i. apply run_sccs_sim_c; [exact Hp|]. now apply update_sim_c.
Qed.
End Sim.

(* ---------- corollaries ---------- *)
(* "all indices of a relation agree" for the concrete index fields: read through iter_all, every stored index holds, up to
   Permutation, what inserting ONE common sequence of rows (per relation) into an empty index of its column set gives *)
Definition concrete_indices_agree (sh : forall A : Type, list A -> list A) (dec : Z -> list Z) (st : list cpidx) : Prop :=
  exists X : list fact, forall cp, In cp st ->
    Permutation (cix_entries sh dec (cp_arity cp) (cp_cols cp) (cp_ix cp)) (build_index (cp_arity cp) (cp_cols cp) (db_of X (cp_rel cp))).

Lemma least_model_same_set I P F0 M M' : no_agg P = true -> same_set M M' -> least_model I P F0 M -> least_model I P F0 M'.
Proof.
  intros Hna [A B] (I1 & C1 & L1). split; [|split].
  - intros f Hf. apply A, I1, Hf.
  - apply (closed_same_set I P M M' Hna); [split; assumption|exact C1].
  - intros M2 HI HC f Hf. apply (L1 M2 HI HC). apply B, Hf.
Qed.

Lemma Forall2_weaken {A B} (R Q : A -> B -> Prop) la lb : (forall a b, R a b -> Q a b) -> Forall2 R la lb -> Forall2 Q la lb.
Proof. intros H F. induction F; constructor; auto. Qed.

Lemma init_shapes decls F0 : Forall2 Rshape (cstored (c_init_state decls F0)) (istored (init_istate decls F0)).
Proof. unfold c_init_state, init_istate. cbn [cstored istored]. induction decls as [|d decls IH]; cbn [map]; constructor; [repeat split|exact IH]. Qed.

Lemma wf_facts_perm arities F F' : Permutation F F' -> wf_facts arities F = wf_facts arities F'.
Proof.
  intros P. unfold wf_facts. induction P as [|x a b P IH|x y a|a b c P1 IH1 P2 IH2]; cbn [forallb].
  - reflexivity.
  - now rewrite IH.
  - destruct (wf_fact arities x), (wf_fact arities y); reflexivity.
  - now rewrite IH1.
Qed.

Section Corollaries.
Variable sh : forall A : Type, list A -> list A.
Hypothesis sh_perm : forall A (l : list A), Permutation (sh A l) l.
Variable enc : list Z -> Z.
Variable dec : Z -> list Z.
Hypothesis dec_enc : forall l, dec (enc l) = l.
Variable I : interp.
Hypothesis Hagg : agg_perm_invariant I.
Variable swap : list tuple -> list tuple -> bool.
Hypothesis Hswap : swap_perm_invariant swap.
Variable decls : list idecl.
Variable pl : plan.
Hypothesis Hplan : plan_idx_ok decls pl = true.

Let Hdecls := plan_ok_decls decls pl Hplan.

(* run() on the program value with concrete index fields and run() with the per-index entry lists, from related program values *)
Theorem concrete_run_related : forall fuel c a, Rst enc decls c a ->
  orel (Rst enc decls) (run_plan_concrete sh enc dec I swap fuel pl c) (run_plan_idx I swap fuel pl a).
Proof.
  intros fuel c a [HP [HF [Hsh Hok]]]. apply (run_plan_concrete_sim sh sh_perm enc dec dec_enc I Hagg swap Hswap decls Hdecls); try assumption.
  eapply Forall2_weaken; [|exact HF]. intros cp p [H1 [H2 [H3 _]]]. repeat split; assumption.
Qed.

(* a fresh program value *)
Theorem concrete_run_fresh : forall fuel F0, (forall f, In f F0 -> fact_idx_ok decls f = true) ->
  orel (Rst enc decls) (run_plan_concrete sh enc dec I swap fuel pl (c_init_state decls F0)) (run_plan_idx I swap fuel pl (init_istate decls F0)).
Proof.
  intros fuel F0 Hok. apply (run_plan_concrete_sim sh sh_perm enc dec dec_enc I Hagg swap Hswap decls Hdecls); try assumption.
  - reflexivity.
  - apply init_shapes.
  - apply init_pshape.
Qed.

(* same termination; rows up to Permutation *)
Theorem concrete_rows_perm : forall fuel F0 c, (forall f, In f F0 -> fact_idx_ok decls f = true) ->
  run_plan_concrete sh enc dec I swap fuel pl (c_init_state decls F0) = Some c ->
  exists a, run_plan_idx I swap fuel pl (init_istate decls F0) = Some a /\ Permutation (crows c) (irows a) /\ Rst enc decls c a.
Proof.
  intros fuel F0 c Hok Hrun. pose proof (concrete_run_fresh fuel F0 Hok) as H. rewrite Hrun in H.
  destruct (run_plan_idx I swap fuel pl (init_istate decls F0)) as [a|]; cbn [orel] in H; [|contradiction].
  exists a. split; [reflexivity|]. split; [apply H|exact H].
Qed.

Theorem concrete_fuel_iff : forall fuel F0, (forall f, In f F0 -> fact_idx_ok decls f = true) ->
  (run_plan_concrete sh enc dec I swap fuel pl (c_init_state decls F0) = None <-> run_plan_idx I swap fuel pl (init_istate decls F0) = None).
Proof.
  intros fuel F0 Hok. pose proof (concrete_run_fresh fuel F0 Hok) as H.
  destruct (run_plan_concrete sh enc dec I swap fuel pl (c_init_state decls F0)), (run_plan_idx I swap fuel pl (init_istate decls F0));
    cbn [orel] in H; try contradiction; split; intros E; try discriminate; reflexivity.
Qed.

Lemma Rst_indices_agree c a : Rst enc decls c a -> indices_agree (istored a) -> concrete_indices_agree sh dec (cstored c).
Proof.
  intros [_ [HF [Hsh _]]] [X HX]. exists X. intros cp Hcp. destruct (Forall2_In_l _ _ _ cp HF Hcp) as [p [Hp [H1 [H2 [H3 HR]]]]].
  rewrite H1, H2, H3, <- (HX p Hp). apply (entries_sim sh sh_perm enc dec dec_enc decls Hdecls (p_rel p)); [|exact HR].
  rewrite <- Hsh. unfold pshape. apply in_map_iff. exists p. split; [reflexivity|exact Hp].
Qed.

(* after run() the concrete index fields of every relation agree: from ANY related program values (duplicate caller rows included) *)
Theorem concrete_indices_agree_after_run : forall fuel c a c', Rst enc decls c a ->
  run_plan_concrete sh enc dec I swap fuel pl c = Some c' -> concrete_indices_agree sh dec (cstored c').
Proof.
  intros fuel c a c' HR Hrun. pose proof (concrete_run_related fuel c a HR) as H. rewrite Hrun in H.
  destruct (run_plan_idx I swap fuel pl a) as [a'|] eqn:Ha; cbn [orel] in H; [|contradiction].
  apply (Rst_indices_agree c' a' H). destruct HR as [_ [_ [Hsh Hok]]].
  exact (proj1 (indexed_run_indices_agree_any_input I swap decls fuel pl a a' Hplan Hsh Hok Ha)).
Qed.

Theorem concrete_indices_agree_fresh : forall fuel F0 c, (forall f, In f F0 -> fact_idx_ok decls f = true) ->
  run_plan_concrete sh enc dec I swap fuel pl (c_init_state decls F0) = Some c -> concrete_indices_agree sh dec (cstored c).
Proof.
  intros fuel F0 c Hok Hrun. destruct (concrete_rows_perm fuel F0 c Hok Hrun) as [a [Ha [_ HR]]].
  apply (Rst_indices_agree c a HR).
  exact (proj1 (indexed_run_indices_agree_any_input I swap decls fuel pl (init_istate decls F0) a Hplan (init_pshape decls F0) Hok Ha)).
Qed.

(* ---------- the engine theorem on the concrete index types ---------- *)
Variable arities : list (rel * nat).
Variable P : list rule.
Hypothesis Har : arities_functional arities.
Hypothesis Hna : no_agg P = true.
Hypothesis Hval : validate arities P pl = true.

Theorem concrete_run_least_model : forall fuel F0 c,
  wf_facts arities F0 = true -> NoDup F0 -> (forall f, In f F0 -> fact_idx_ok decls f = true) ->
  run_plan_concrete sh enc dec I swap fuel pl (c_init_state decls F0) = Some c ->
  least_model I P F0 (crows c)
  /\ (exists added, Permutation (crows c) (F0 ++ added) /\ NoDup added /\ (forall f, In f added -> ~ In f F0))
  /\ concrete_indices_agree sh dec (cstored c).
Proof.
  intros fuel F0 c Hwf Hnd Hok Hrun. destruct (concrete_rows_perm fuel F0 c Hok Hrun) as [a [Ha [HP HR]]].
  destruct (indexed_run_least_model I swap decls pl Hplan arities P Har Hna Hval fuel F0 a Hwf Hnd Hok Ha) as [HL [[added [Hadd HA]] Hia]].
  split; [|split].
  - apply (least_model_same_set I P F0 (irows a)); [exact Hna| |exact HL].
    split; intros f Hf; (eapply Permutation_in; [|exact Hf]); [symmetry; exact HP|exact HP].
  - exists added. split; [rewrite <- Hadd; exact HP|exact HA].
  - apply (Rst_indices_agree c a HR Hia).
Qed.

(* run() again on the program value the first run left (its concrete index fields included): nothing is added *)
Theorem concrete_rerun_idempotent : forall fuel fuel' F0 c1 c2,
  wf_facts arities F0 = true -> NoDup F0 -> (forall f, In f F0 -> fact_idx_ok decls f = true) ->
  run_plan_concrete sh enc dec I swap fuel pl (c_init_state decls F0) = Some c1 ->
  wf_facts arities (crows c1) = true ->
  run_plan_concrete sh enc dec I swap fuel' pl c1 = Some c2 ->
  Permutation (crows c2) (crows c1) /\ concrete_indices_agree sh dec (cstored c2).
Proof.
  intros fuel fuel' F0 c1 c2 Hwf Hnd Hok H1 Hwf1 H2. destruct (concrete_rows_perm fuel F0 c1 Hok H1) as [a1 [Ha1 [HP1 HR1]]].
  pose proof (concrete_run_related fuel' c1 a1 HR1) as H. rewrite H2 in H.
  destruct (run_plan_idx I swap fuel' pl a1) as [a2|] eqn:Ha2; cbn [orel] in H; [|contradiction].
  assert (Hwf1' : wf_facts arities (irows a1) = true) by (rewrite <- (wf_facts_perm arities _ _ HP1); exact Hwf1).
  destruct (indexed_rerun_idempotent I swap decls pl Hplan arities P Har Hna Hval fuel fuel' F0 a1 a2 Hwf Hnd Hok Ha1 Hwf1' (proj2 (proj2 (proj2 HR1))) Ha2) as [E Hia].
  split; [|apply (Rst_indices_agree c2 a2 H Hia)].
  destruct H as [HP2 _]. rewrite HP2, E. symmetry. exact HP1.
Qed.
End Corollaries.

(* ---------- the decision of the generated code, where it is never taken ---------- *)
Definition no_reorder (pl : plan) : Prop := forall sc v, In sc pl -> In v (s_vars sc) -> v_reord v = false.

Section RealDec.
Variables (I : interp) (rget : rel -> list nat -> version -> list Z -> list tuple) (rall : rel -> list nat -> version -> list tuple).
Variables (rempty : rel -> list nat -> version -> bool) (rs rs' : rel -> list nat -> version -> rel -> list nat -> version -> bool).

Lemma from_noreord items sj : forall e, eval_from_g I rget rall rs items sj false e = eval_from_g I rget rall rs' items sj false e.
Proof.
  destruct sj as [n|]; [|intros e; destruct items; reflexivity]. revert items. induction n as [|n IH]; intros items e.
  - destruct items as [|[| | |] [|[| | |] items]]; reflexivity.
  - destruct items as [|p items]; [reflexivity|]. destruct p as [r args cnds idx ver|c|x g xs|out a bound r args idx]; cbn [eval_from_g].
    + unfold eval_clause_idx_g. destruct (eval_key I e args idx); [|reflexivity]. apply flat_map_ext. intros tup.
      destruct (sat_conds I (bind_new e args tup) cnds); [apply IH|reflexivity].
    + destruct (sat_cond I e c); [apply IH|reflexivity].
    + destruct (eval_vars e xs); [|reflexivity]. apply flat_map_ext. intros v. apply IH.
    + destruct (agg_key I e args idx); [|reflexivity]. apply flat_map_ext. intros v. apply IH.
Qed.

Lemma variant_noreord v : v_reord v = false -> eval_variant_g I rget rall rempty rs v = eval_variant_g I rget rall rempty rs' v.
Proof. intros H. unfold eval_variant_g. rewrite H. destruct (_ && _); [reflexivity|]. now rewrite (from_noreord (v_items v) (v_sj v) []). Qed.
End RealDec.

Lemma fold_left_ext_in {A B} (f g : A -> B -> A) l : (forall a b, In b l -> f a b = g a b) -> forall a, fold_left f l a = fold_left g l a.
Proof.
  induction l as [|b l IH]; intros H a; [reflexivity|]. cbn [fold_left]. rewrite (H a b (or_introl eq_refl)). apply IH.
  intros a' b' Hb. apply H. now right.
Qed.

Theorem run_plan_concrete_real_eq sh enc dec I swap : forall fuel pl st, no_reorder pl ->
  run_plan_concrete_real sh enc dec I fuel pl st = run_plan_concrete sh enc dec I swap fuel pl st.
Proof.
  intros fuel pl st Hn. unfold run_plan_concrete_real, run_plan_concrete, run_plan_c. generalize (c_update_indices enc st). clear st.
  induction pl as [|sc pl IH]; intros st; [reflexivity|]. cbn [c_run_sccs].
  assert (Hit : forall store R, c_iteration sh enc dec I real_swap_dec sc store R = c_iteration sh enc dec I (oracle_dec swap) sc store R).
  { intros store R. unfold c_iteration. apply fold_left_ext_in. intros acc v Hv. unfold eval_variant_c.
    rewrite (variant_noreord I _ _ _ (c_swap sh dec real_swap_dec (fst (fst acc)) (s_dyn sc)) (c_swap sh dec (oracle_dec swap) (fst (fst acc)) (s_dyn sc)) v);
      [reflexivity|]. apply (Hn sc v); [now left|exact Hv]. }
  assert (Hloop : forall n store R, c_loop sh enc dec I real_swap_dec n sc store R = c_loop sh enc dec I (oracle_dec swap) n sc store R).
  { induction n as [|n IHn]; intros store R; [reflexivity|]. cbn [c_loop]. rewrite Hit.
    destruct (c_iteration sh enc dec I (oracle_dec swap) sc store R) as [[s1 R1] ch]. destruct ch; [apply IHn|reflexivity]. }
  assert (Hscc : c_run_scc sh enc dec I real_swap_dec fuel sc st = c_run_scc sh enc dec I (oracle_dec swap) fuel sc st).
  { unfold c_run_scc. rewrite Hloop, Hit. reflexivity. }
  rewrite Hscc. destruct (c_run_scc sh enc dec I (oracle_dec swap) fuel sc st) as [st'|]; [|reflexivity].
  apply IH. intros sc' v Hsc Hv. apply (Hn sc' v); [now right|exact Hv].
Qed.

(* ---------- non-vacuity: the plan the real macro dumped for transitive closure ---------- *)
Lemma std_swap_perm_invariant : swap_perm_invariant std_swap.
Proof. intros a a' b b' Pa Pb. unfold std_swap. now rewrite (Permutation_length Pa), (Permutation_length Pb). Qed.

Example tc_concrete_runs : exists c,
  run_plan_concrete sh_rev enc_list dec_list std_interp std_swap 20 tc_plan (c_init_state tc_decls tc_input) = Some c
  /\ length (crows c) = 25%nat
  /\ map (fun x => snd (fst x)) (c_dump_stored sh_rev dec_list c) = [[]; [1%nat]; [0%nat; 1%nat]; [0%nat]; [0%nat; 1%nat]]
  /\ map snd (c_dump_lens c) = [1; 5; 5; 4; 20].
Proof. eexists. split; [vm_compute; reflexivity|]. repeat split; vm_compute; reflexivity. Qed.

(* the iteration order matters for the ORDER of the rows: with the reversing oracle the concrete run pushes the rows in another order
   than IndexedEval.run_plan_idx - equality of the row lists is false, Permutation is what holds *)
Example tc_concrete_rows_differ_refuted : exists c a,
  run_plan_concrete sh_rev enc_list dec_list std_interp std_swap 20 tc_plan (c_init_state tc_decls tc_input) = Some c
  /\ run_plan_idx std_interp std_swap 20 tc_plan (init_istate tc_decls tc_input) = Some a
  /\ crows c <> irows a.
Proof. eexists. eexists. split; [vm_compute; reflexivity|]. split; [vm_compute; reflexivity|]. vm_compute. discriminate. Qed.

Example tc_concrete_least_model : exists c,
  run_plan_concrete sh_rev enc_list dec_list std_interp std_swap 20 tc_plan (c_init_state tc_decls tc_input) = Some c
  /\ least_model std_interp tc_prog tc_input (crows c)
  /\ concrete_indices_agree sh_rev dec_list (cstored c).
Proof.
  destruct tc_concrete_runs as [c [Hrun _]]. exists c. split; [exact Hrun|].
  destruct tc_hyps as [Hval [Hna Hwf]]. destruct tc_indexed_hyps as [Hplan Hok]. rewrite forallb_forall in Hok.
  destruct (concrete_run_least_model sh_rev sh_rev_permuting enc_list dec_list dec_enc_list std_interp std_interp_agg_perm_invariant
              std_swap std_swap_perm_invariant tc_decls tc_plan Hplan tc_arities tc_prog tc_arities_functional Hna Hval
              20%nat tc_input c Hwf tc_input_nodup Hok Hrun) as [HL [_ Hia]].
  split; [exact HL|exact Hia].
Qed.

Print Assumptions run_plan_concrete_sim.
Print Assumptions concrete_run_least_model.
Print Assumptions concrete_rerun_idempotent.
Print Assumptions concrete_indices_agree_after_run.
Print Assumptions concrete_indices_agree_fresh.
Print Assumptions run_plan_concrete_real_eq.
Print Assumptions tc_concrete_least_model.
