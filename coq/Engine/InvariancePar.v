(* C06 through the PARALLEL macro: a parallel run (any distribution of the work over workers, any interleaving of their
   atomic steps) of an accepted plan for a permutation of the rules, on a permutation of the input, computes the same
   relations as the serial run of an accepted plan for the original program.  This is the statement the metamorphic tie
   of C06 samples when it sends every variant through ascent_par! as well (gen/props/c06.py). *)
From Coq Require Import List ZArith Bool Arith Permutation.
From AV Require Import Engine.Core Engine.Sem Engine.Eval Engine.Validate Engine.Naive Engine.Interface Engine.Main.
From AV Require Import Engine.EvalSpec Engine.ParStep Engine.InterfacePar Engine.ParProofs Engine.MainPar.
Import ListNotations.

Theorem par_run_perm_invariant I swap swap' arities P P' pl pl' fuel F0 F0' st st' :
  arities_functional arities -> no_agg P = true ->
  Permutation P P' -> Permutation F0 F0' -> wf_facts arities F0 = true ->
  validate arities P pl = true -> validate arities P' pl' = true ->
  run_plan I swap fuel pl (init_state F0) = Some st ->
  par_run_plan I swap' pl' (init_state F0') st' ->
  same_set (rows st) (rows st').
Proof.
  intros Har Hna HP HF Hwf Hv Hv' Hr Hr'.
  assert (no_agg P' = true) as Hna'.
  { unfold no_agg in *. rewrite forallb_forall in *. intros r Hr0. apply Hna. eapply Permutation_in; [apply Permutation_sym; exact HP|exact Hr0]. }
  assert (wf_facts arities F0' = true) as Hwf'.
  { unfold wf_facts in *. rewrite forallb_forall in *. intros f Hf. apply Hwf. eapply Permutation_in; [apply Permutation_sym; exact HF|exact Hf]. }
  destruct (run_plan_correct_full I swap arities P pl fuel F0 st Har Hwf Hna Hv Hr) as [LM _].
  destruct (par_run_correct_full I swap' arities P' pl' F0' st' Har Hwf' Hna' Hv' Hr') as [LM' _].
  apply (least_model_unique I P F0); [exact LM|].
  apply (least_model_perm_rules I P' P).
  - intros r. split; intros H; [eapply Permutation_in; [apply Permutation_sym; exact HP|exact H] | eapply Permutation_in; [exact HP|exact H]].
  - apply (least_model_same_input I P' F0' F0); [|exact LM'].
    split; intros f Hf; [eapply Permutation_in; [apply Permutation_sym; exact HF|exact Hf] | eapply Permutation_in; [exact HF|exact Hf]].
Qed.

(* two parallel runs (different schedules, different permutations) agree as well *)
Theorem par_par_perm_invariant I swap swap' arities P P' pl pl' F0 F0' st st' :
  arities_functional arities -> no_agg P = true ->
  Permutation P P' -> Permutation F0 F0' -> wf_facts arities F0 = true ->
  validate arities P pl = true -> validate arities P' pl' = true ->
  par_run_plan I swap pl (init_state F0) st ->
  par_run_plan I swap' pl' (init_state F0') st' ->
  same_set (rows st) (rows st').
Proof.
  intros Har Hna HP HF Hwf Hv Hv' Hr Hr'.
  assert (no_agg P' = true) as Hna'.
  { unfold no_agg in *. rewrite forallb_forall in *. intros r Hr0. apply Hna. eapply Permutation_in; [apply Permutation_sym; exact HP|exact Hr0]. }
  assert (wf_facts arities F0' = true) as Hwf'.
  { unfold wf_facts in *. rewrite forallb_forall in *. intros f Hf. apply Hwf. eapply Permutation_in; [apply Permutation_sym; exact HF|exact Hf]. }
  destruct (par_run_correct_full I swap arities P pl F0 st Har Hwf Hna Hv Hr) as [LM _].
  destruct (par_run_correct_full I swap' arities P' pl' F0' st' Har Hwf' Hna' Hv' Hr') as [LM' _].
  apply (least_model_unique I P F0); [exact LM|].
  apply (least_model_perm_rules I P' P).
  - intros r. split; intros H; [eapply Permutation_in; [apply Permutation_sym; exact HP|exact H] | eapply Permutation_in; [exact HP|exact H]].
  - apply (least_model_same_input I P' F0' F0); [|exact LM'].
    split; intros f Hf; [eapply Permutation_in; [apply Permutation_sym; exact HF|exact Hf] | eapply Permutation_in; [exact HF|exact Hf]].
Qed.
