(* Correctness of the semi-naive engine model: a validated plan for a program
   without aggregates, run to completion, computes the least model of the
   program over the input facts; the input rows are an unmodified prefix and
   the added rows are duplicate free and new.  The evaluation of a single rule
   variant enters through the hypothesis eval_variant_spec_stmt (EvalSpec.v). *)
From Coq Require Import List ZArith Bool Arith Lia.
From AV Require Import Engine.Core Engine.Sem Engine.Eval Engine.Validate Engine.Naive Engine.Interface.
From AV Require Import Engine.NaiveLemmas Engine.Strata.
Import ListNotations.
Local Open Scope nat_scope.

(* ---------- which SCC evaluates a rule ---------- *)
Definition rule_scc (pl : plan) (j k : nat) : Prop :=
  exists sc, nth_error pl k = Some sc /\ In j (rules_of_scc sc).

Lemma scc_index_rule_scc : forall pl j b i, scc_index pl j b = Some i -> b <= i /\ rule_scc pl j (i - b).
Proof.
  induction pl as [|sc pl IH]; intros j b i H; [discriminate|].
  cbn [scc_index] in H. destruct (existsb (Nat.eqb j) (rules_of_scc sc)) eqn:He.
  - injection H as <-. split; [lia|]. replace (b - b) with 0 by lia. exists sc. split; [reflexivity|].
    apply existsb_nat_In. exact He.
  - destruct (IH j (S b) i H) as [Hle [sc' [Hn Hin]]]. split; [lia|].
    replace (i - b) with (S (i - S b)) by lia. exists sc'. split; [exact Hn | exact Hin].
Qed.

Lemma count_zero_no : forall pl j k, count_sccs_with pl j = 0 -> ~ rule_scc pl j k.
Proof.
  intros pl j k Hc [sc [Hn Hin]]. unfold count_sccs_with in Hc. apply length_zero_iff_nil in Hc.
  assert (Hf : In sc (filter (fun sc => existsb (Nat.eqb j) (rules_of_scc sc)) pl)).
  { apply filter_In. split; [eapply nth_error_In; exact Hn | apply existsb_nat_In; exact Hin]. }
  rewrite Hc in Hf. destruct Hf.
Qed.

Lemma count_one_unique : forall pl j k k',
  count_sccs_with pl j = 1 -> rule_scc pl j k -> rule_scc pl j k' -> k = k'.
Proof.
  induction pl as [|sc pl IH]; intros j k k' Hc Hk Hk'.
  - destruct Hk as [sc [Hn _]]. destruct k; discriminate.
  - unfold count_sccs_with in Hc. cbn [filter] in Hc.
    destruct (existsb (Nat.eqb j) (rules_of_scc sc)) eqn:He.
    + cbn [length] in Hc. injection Hc as Hc. fold (count_sccs_with pl j) in Hc.
      destruct k as [|k].
      * destruct k' as [|k']; [reflexivity|]. exfalso. apply (count_zero_no pl j k' Hc).
        destruct Hk' as [sc' [Hn Hin]]. exists sc'. split; [exact Hn | exact Hin].
      * exfalso. apply (count_zero_no pl j k Hc).
        destruct Hk as [sc' [Hn Hin]]. exists sc'. split; [exact Hn | exact Hin].
    + fold (count_sccs_with pl j) in Hc.
      destruct k as [|k].
      { destruct Hk as [sc' [Hn Hin]]. cbn [nth_error] in Hn. injection Hn as <-.
        apply existsb_nat_In in Hin. congruence. }
      destruct k' as [|k'].
      { destruct Hk' as [sc' [Hn Hin]]. cbn [nth_error] in Hn. injection Hn as <-.
        apply existsb_nat_In in Hin. congruence. }
      f_equal. apply (IH j k k' Hc).
      * destruct Hk as [sc' [Hn Hin]]. exists sc'. split; [exact Hn | exact Hin].
      * destruct Hk' as [sc' [Hn Hin]]. exists sc'. split; [exact Hn | exact Hin].
Qed.

Lemma existsb_shared : forall (l1 l2 : list nat),
  existsb (fun q => existsb (Nat.eqb q) l2) l1 = true <-> exists q, In q l1 /\ In q l2.
Proof.
  intros l1 l2. rewrite existsb_exists. split; intros [q [H1 H2]]; exists q; (split; [exact H1|]);
    apply existsb_nat_In; exact H2.
Qed.

Section Program.
Variable I : interp.
Variable swap : list tuple -> list tuple -> bool.
Hypothesis Hspec : eval_variant_spec_stmt I swap.
Variable arities : list (rel * nat).
Variable P : list rule.
Variable pl : plan.
Hypothesis Hfun : arities_functional arities.
Hypothesis Hnoagg : no_agg P = true.
Hypothesis Hval : validate arities P pl = true.

Lemma val_scc_ok : forall k sc, nth_error pl k = Some sc -> scc_ok arities P sc = true.
Proof.
  intros k sc Hn. unfold validate in Hval. apply andb_true_iff in Hval as [H _].
  rewrite forallb_forall in H. apply H. eapply nth_error_In. exact Hn.
Qed.

Lemma val_strat : strat_ok P pl = true.
Proof. unfold validate in Hval. apply andb_true_iff in Hval as [_ H]. exact H. Qed.

Lemma val_count : forall j, j < length P -> count_sccs_with pl j = 1.
Proof.
  intros j Hj. pose proof val_strat as H. unfold strat_ok in H. apply andb_true_iff in H as [H _].
  rewrite forallb_forall in H. apply Nat.eqb_eq. apply H. apply in_seq. lia.
Qed.

Lemma val_index : forall j, j < length P -> exists k, scc_index pl j 0 = Some k.
Proof.
  intros j Hj. pose proof val_strat as H. unfold strat_ok in H. apply andb_true_iff in H as [_ H].
  rewrite forallb_forall in H. assert (Hin : In j (seq 0 (length P))) by (apply in_seq; lia).
  specialize (H j Hin). destruct (nth_error P j); [|discriminate].
  destruct (scc_index pl j 0) as [k|]; [exists k; reflexivity | discriminate].
Qed.

Lemma val_rule_scc : forall j, j < length P -> exists k, rule_scc pl j k.
Proof.
  intros j Hj. destruct (val_index j Hj) as [k Hk]. apply scc_index_rule_scc in Hk as [_ Hk].
  exists (k - 0). exact Hk.
Qed.

Lemma val_index_unique : forall j k i, j < length P -> scc_index pl j 0 = Some i -> rule_scc pl j k -> i = k.
Proof.
  intros j k i Hj Hi Hk. apply scc_index_rule_scc in Hi as [_ Hi]. replace (i - 0) with i in Hi by lia.
  apply (count_one_unique pl j i k (val_count j Hj) Hi Hk).
Qed.

(* producers of a relation read by rule j run in the same or an earlier SCC *)
Lemma strat_order : forall j r j' r' k k' q,
  nth_error P j = Some r -> nth_error P j' = Some r' -> rule_scc pl j k -> rule_scc pl j' k' ->
  In q (body_clause_rels r) -> In q (head_rels r') -> k' <= k.
Proof.
  intros j r j' r' k k' q Hr Hr' Hk Hk' Hqb Hqh.
  assert (Hj : j < length P) by (apply nth_error_Some; congruence).
  assert (Hj' : j' < length P) by (apply nth_error_Some; congruence).
  pose proof val_strat as H. unfold strat_ok in H. apply andb_true_iff in H as [_ H].
  rewrite forallb_forall in H. assert (Hin : In j (seq 0 (length P))) by (apply in_seq; lia).
  specialize (H j Hin). rewrite Hr in H. destruct (scc_index pl j 0) as [i|] eqn:Hi; [|discriminate].
  rewrite forallb_forall in H. assert (Hin' : In j' (seq 0 (length P))) by (apply in_seq; lia).
  specialize (H j' Hin'). rewrite Hr' in H. destruct (scc_index pl j' 0) as [i'|] eqn:Hi'; [|discriminate].
  cbv zeta in H. apply andb_true_iff in H as [H _].
  rewrite (val_index_unique j k i Hj Hi Hk) in H. rewrite (val_index_unique j' k' i' Hj' Hi' Hk') in H.
  apply orb_true_iff in H as [H | H]; [|apply Nat.leb_le; exact H].
  apply negb_true_iff in H. assert (Ht : existsb (fun q => existsb (Nat.eqb q) (head_rels r')) (body_clause_rels r) = true).
  { apply existsb_shared. exists q. split; assumption. }
  congruence.
Qed.

(* ---------- the invariant across SCCs ---------- *)
Variable F0 : list fact.

Definition J (k : nat) (st : state) : Prop :=
  (forall f, In f (stored st) <-> In f (rows st))
  /\ (forall f, In f (rows st) -> wf_fact arities f = true)
  /\ (exists A, rows st = F0 ++ A /\ NoDup A /\ forall f, In f A -> ~ In f F0)
  /\ (forall M, closed I P M -> incl F0 M -> incl (rows st) M)
  /\ (forall j r i, nth_error P j = Some r -> rule_scc pl j i -> i < k ->
        forall f, In f (derive_rule I (db_of (rows st)) r) -> In f (rows st)).

Lemma J_step : forall fuel k sc st st',
  nth_error pl k = Some sc -> J k st -> run_scc I swap fuel sc st = Some st' -> J (S k) st'.
Proof.
  intros fuel k sc st st' Hn [Hsr [Hwf [[A [HR [HndA HA]]] [Hsnd Hcl]]]] Hrun.
  destruct (run_scc_spec I swap arities P sc fuel st st' Hspec Hfun Hnoagg (val_scc_ok k sc Hn) Hsr Hwf Hrun)
    as [Hsr' [Hwf' [[A1 [HR1 [HndA1 HA1]]] [Hsnd' Hcl']]]].
  split; [exact Hsr'|]. split; [exact Hwf'|]. split; [|split].
  - exists (A ++ A1). split; [rewrite HR1, HR, app_assoc; reflexivity|]. split.
    + apply NoDup_app_intro; [exact HndA | exact HndA1 |]. intros f Hf Hf1. destruct (HA1 f Hf1) as [Hn1 _].
      apply Hn1. rewrite HR. apply in_or_app. right. exact Hf.
    + intros f Hf. apply in_app_or in Hf as [Hf | Hf]; [apply HA; exact Hf|].
      intro Hin. destruct (HA1 f Hf) as [Hn1 _]. apply Hn1. rewrite HR. apply in_or_app. left. exact Hin.
  - intros M HclM HM. apply Hsnd'; [exact HclM|]. apply Hsnd; assumption.
  - intros j r i Hr Hi Hlt f Hf. destruct (Nat.eq_dec i k) as [-> | Hne].
    + destruct Hi as [sc' [Hn' Hin]]. rewrite Hn in Hn'. injection Hn' as <-.
      apply (Hcl' j r f Hin Hr Hf).
    + assert (Hik : i < k) by lia. rewrite HR1. apply in_or_app. left. apply (Hcl j r i Hr Hi Hik).
      revert Hf. apply derive_rule_mono.
      * unfold no_agg in Hnoagg. rewrite forallb_forall in Hnoagg. apply Hnoagg. eapply nth_error_In. exact Hr.
      * intros q Hq t Ht. apply in_db_of in Ht. apply in_db_of. rewrite HR1 in Ht.
        apply in_app_or in Ht as [Ht | Ht]; [exact Ht|]. exfalso.
        destruct (HA1 _ Ht) as [_ Hh]. cbn [fst] in Hh. unfold scc_head_rels in Hh.
        apply in_flat_map in Hh as [j' [Hj' Hh]]. destruct (nth_error P j') as [r'|] eqn:Hr'; [|destruct Hh].
        assert (Hk' : rule_scc pl j' k) by (exists sc; split; assumption).
        pose proof (strat_order j r j' r' i k q Hr Hr' Hi Hk' Hq Hh). lia.
Qed.

Lemma run_sccs_J : forall fuel rest pre st st',
  pl = pre ++ rest -> J (length pre) st -> run_sccs I swap fuel rest st = Some st' -> J (length pl) st'.
Proof.
  intros fuel. induction rest as [|sc rest IH]; intros pre st st' Hpl HJ Hrun.
  - cbn [run_sccs] in Hrun. injection Hrun as <-. rewrite Hpl, app_nil_r. exact HJ.
  - cbn [run_sccs] in Hrun. destruct (run_scc I swap fuel sc st) as [st1|] eqn:H1; [|discriminate].
    apply (IH (pre ++ [sc]) st1 st').
    + rewrite <- app_assoc. exact Hpl.
    + rewrite app_length. cbn [length]. replace (length pre + 1) with (S (length pre)) by lia.
      apply (J_step fuel (length pre) sc st st1); [|exact HJ | exact H1].
      rewrite Hpl, nth_error_app2, Nat.sub_diag; [reflexivity | lia].
    + exact Hrun.
Qed.
End Program.

Theorem run_plan_correct : forall I swap, eval_variant_spec_stmt I swap -> run_plan_correct_stmt I swap.
Proof.
  intros I swap Hspec arities P pl fuel F0 st Hfun HwfF0 Hna Hval Hrun.
  unfold run_plan in Hrun.
  assert (HJ0 : J I arities P pl F0 (length (@nil pscc)) (update_indices (init_state F0))).
  { unfold J, update_indices, init_state. cbn [rows stored app length]. split; [intros f; reflexivity|].
    split; [apply wf_facts_forall; exact HwfF0|]. split; [|split].
    - exists []. rewrite app_nil_r. split; [reflexivity|]. split; [constructor | intros f []].
    - intros M _ HM. exact HM.
    - intros j r i _ _ Hlt. lia. }
  pose proof (run_sccs_J I swap Hspec arities P pl Hfun Hna Hval F0 fuel pl [] _ st eq_refl HJ0 Hrun)
    as [_ [_ [[A [HR [Hnd HA]]] [Hsnd Hcl]]]].
  split.
  - split; [|split].
    + rewrite HR. apply incl_appl. apply incl_refl.
    + intros f [r [Hr Hf]]. apply In_nth_error in Hr as [j Hj].
      assert (Hlt : j < length P) by (apply nth_error_Some; congruence).
      destruct (val_rule_scc arities P pl Hval j Hlt) as [k Hk].
      assert (Hk' : k < length pl). { destruct Hk as [sc [Hn _]]. apply nth_error_Some. congruence. }
      apply (Hcl j r k Hj Hk Hk' f Hf).
    + intros M HM HclM. apply Hsnd; assumption.
  - exists A. auto.
Qed.

Print Assumptions run_plan_correct.
