(* C02 / C05, lattice half - executable model of the PARALLEL LATTICE HEAD UPDATE
   (ascent_codegen.rs, head_update_code, branch `hcl.rel.is_lattice` with `mir.is_parallel`), for ONE lattice
   relation during ONE parallel iteration.  Companion of Engine/ParStep.v (relation heads).

   The generated code, for a derived row (key k, lattice value v):

     existing_in_new = new_key_index.get_cloned(k);  new_has_ind = existing_in_new.is_some();         (1)
     if let Some(i) = existing_in_new.or_else(delta.get_cloned(k)).or_else(total.get_cloned(k)) {     (2)
        changed = join_mut(&mut rows[i].write().unwrap().last, v);                                   (3a)
        if changed && !new_has_ind { index_insert(new indices.., i)..; __changed.store(true) }        (3b)
     } else {
        lock = key_mutex[hash(k) % len].lock();                                                      (4)
        if let Some(i) = new_key_index.get_cloned(k) {                                               (5)
             join_mut(&mut rows[i].write().unwrap().last, v);                                        (6a)
        } else { i = rows.push(RwLock::new(row)); index_insert(new indices.., i)..; __changed.store(true) }  (6b)
     }                                                                                               (7) unlock

   Data structures (rel_type / rel_index_type in ascent_codegen.rs, parallel mode):
     rows             boxcar::Vec<RwLock<row>>      - push returns the new row number; a row is mutable only in its
                                                      last column, under its RwLock (write guard = temporary of the
                                                      join_mut call, read guard = temporary of `.read().unwrap().clone()`
                                                      in clause_var_assignments: no lock is held across statements)
     key index of new CRelFullIndex = DashMap<key, row number>; get_cloned / insert (overwrite) are atomic entry operations
     other indices    since /repo d5edf35: CLatIndex = DashMap<key, HashSet<row number>>, SET-backed like the serial
                      LatticeIndexType = HashMap<key, HashSet<row number>> ([setidx] = true: inserting a row number
                      that is present changes nothing).  Before that repair: CRelIndex = DashMap<key, Vec<row number>> /
                      CRelNoIndex = sharded Vec<row number>, VEC-backed ([setidx] = false), which listed a row once per
                      insertion - see ParLatProofs.parlat_reindexed_once_before_fix_refuted.
                      `new`'s other indices are write-only during the iteration
     delta / total    frozen (ReadOnlyView) during the iteration
     key mutexes      Vec<Mutex<()>> indexed by hash(key) % len: different keys may share a mutex
     __changed        AtomicBool, store(true, Relaxed), read after the scope's join

   Model.  State = rows (key, value), new's key index (association list; insert = cons, lookup = first match, i.e.
   overwrite), the list of row numbers inserted into new's other indices (one list stands for each of them: every
   `update_indices` run inserts the same row number into each), the held key mutexes, the flag, and the workers.
   A worker has the list of contributions it still has to process and a program counter; each constructor of [lpc]
   is the state BEFORE one atomic step.  `update_indices` is a sequence of index_insert calls sorted by the indices'
   ir names, so the key index may come before or after the other indices: [kfirst] selects the order, every theorem
   is for both.  A step of a worker blocked on a key mutex (or finished) leaves the state unchanged.
   A schedule is an arbitrary list of worker numbers. *)
From Coq Require Import List ZArith Bool Arith.
Import ListNotations.

Fixpoint upd_nth {A : Type} (i : nat) (x : A) (l : list A) : list A :=
  match i, l with
  | _, [] => []
  | O, _ :: l' => x :: l'
  | S n, y :: l' => y :: upd_nth n x l'
  end.

Definition orelse {A : Type} (a b : option A) : option A := match a with Some _ => a | None => b end.
Definition is_some {A : Type} (a : option A) : bool := match a with Some _ => true | None => false end.
Definition nmem (m : nat) (l : list nat) : bool := existsb (Nat.eqb m) l.

Section ParLat.
Context {K V : Type}.
Variable keqb : K -> K -> bool.                 (* equality of lattice keys (all columns but the last) *)
Variable jm : V -> V -> V * bool.               (* Lattice::join_mut: new value of the receiver, changed flag *)
Variable mx : K -> nat.                         (* hash(k) % number of key mutexes *)
Variable kfirst : bool.                         (* update_indices inserts into the key index first / last *)
Variable setidx : bool.                         (* the other indices are set-backed (CLatIndex, now) / vec-backed (before d5edf35) *)
Variables dl tt : K -> option nat.              (* frozen key index of delta / total *)

Fixpoint klook (k : K) (m : list (K * nat)) : option nat :=
  match m with
  | [] => None
  | (k', i) :: m' => if keqb k k' then Some i else klook k m'
  end.

Inductive lpc : Type :=
| PIdle                                             (* between contributions *)
| PLook (k : K) (v : V) (r : option nat)            (* (2) r = existing_in_new; about to read delta / total *)
| PJoin (k : K) (v : V) (i : nat) (nh : bool)       (* (3a) about to join into row i; nh = new_has_ind *)
| PIns1 (k : K) (i : nat) (m : bool)                (* (3b)/(6b) first index_insert; m = holds the key mutex *)
| PIns2 (k : K) (i : nat) (m : bool)                (* second index_insert *)
| PFlag (k : K) (m : bool)                          (* __changed.store(true) *)
| PLock (k : K) (v : V)                             (* (4) about to lock the key mutex *)
| PRecheck (k : K) (v : V)                          (* (5) holds the mutex, about to re-read new's key index *)
| PJoinM (k : K) (v : V) (i : nat)                  (* (6a) join under the mutex, result ignored *)
| PPush (k : K) (v : V)                             (* (6b) push the new row *)
| PUnlock (k : K).                                  (* (7) release the mutex *)

Record worker := { todo : list (K * V); wpc : lpc }.

Record pstate := {
  lrows : list (K * V);
  lnkey : list (K * nat);
  lother : list nat;
  lheld : list nat;
  lchg : bool;
  lws : list worker
}.

(* join_mut under the row's write lock: one atomic read-modify-write of the value of row i *)
Definition join_row (R : list (K * V)) (i : nat) (v : V) : list (K * V) * bool :=
  match nth_error R i with
  | Some (k, c) => (upd_nth i (k, fst (jm c v)) R, snd (jm c v))
  | None => (R, false)             (* an index never holds the number of a row that does not exist *)
  end.

Definition mk (R : list (K * V)) (nk : list (K * nat)) (ot hd : list nat) (ch : bool) (st : pstate) (j : nat)
              (td : list (K * V)) (p : lpc) : pstate :=
  {| lrows := R; lnkey := nk; lother := ot; lheld := hd; lchg := ch;
     lws := upd_nth j {| todo := td; wpc := p |} (lws st) |}.

(* only the worker moves *)
Definition goto (st : pstate) (j : nat) (td : list (K * V)) (p : lpc) : pstate :=
  mk (lrows st) (lnkey st) (lother st) (lheld st) (lchg st) st j td p.

(* index_insert of a row number into new's other indices *)
Definition oins (i : nat) (ot : list nat) : list nat := if setidx && nmem i ot then ot else i :: ot.

Definition release (m : nat) (hd : list nat) : list nat := filter (fun m' => negb (Nat.eqb m' m)) hd.

Definition step (st : pstate) (j : nat) : pstate :=
  match nth_error (lws st) j with
  | None => st
  | Some w =>
      let td := todo w in
      match wpc w with
      | PIdle =>
          match td with
          | [] => st
          | (k, v) :: rest => goto st j rest (PLook k v (klook k (lnkey st)))                        (* 1 *)
          end
      | PLook k v r =>                                                                               (* 2 *)
          match orelse r (orelse (dl k) (tt k)) with
          | Some i => goto st j td (PJoin k v i (is_some r))
          | None => goto st j td (PLock k v)
          end
      | PJoin k v i nh =>                                                                            (* 3a *)
          let (R', ch) := join_row (lrows st) i v in
          mk R' (lnkey st) (lother st) (lheld st) (lchg st) st j td
             (if ch && negb nh then PIns1 k i false else PIdle)
      | PIns1 k i m =>                                                                               (* 3b / 6b *)
          if kfirst then mk (lrows st) ((k, i) :: lnkey st) (lother st) (lheld st) (lchg st) st j td (PIns2 k i m)
          else mk (lrows st) (lnkey st) (oins i (lother st)) (lheld st) (lchg st) st j td (PIns2 k i m)
      | PIns2 k i m =>
          if kfirst then mk (lrows st) (lnkey st) (oins i (lother st)) (lheld st) (lchg st) st j td (PFlag k m)
          else mk (lrows st) ((k, i) :: lnkey st) (lother st) (lheld st) (lchg st) st j td (PFlag k m)
      | PFlag k m =>
          mk (lrows st) (lnkey st) (lother st) (lheld st) true st j td (if m then PUnlock k else PIdle)
      | PLock k v =>                                                                                 (* 4 *)
          if nmem (mx k) (lheld st) then st        (* blocked *)
          else mk (lrows st) (lnkey st) (lother st) (mx k :: lheld st) (lchg st) st j td (PRecheck k v)
      | PRecheck k v =>                                                                              (* 5 *)
          match klook k (lnkey st) with
          | Some i => goto st j td (PJoinM k v i)
          | None => goto st j td (PPush k v)
          end
      | PJoinM k v i =>                                                                              (* 6a *)
          mk (fst (join_row (lrows st) i v)) (lnkey st) (lother st) (lheld st) (lchg st) st j td (PUnlock k)
      | PPush k v =>                                                                                 (* 6b *)
          mk (lrows st ++ [(k, v)]) (lnkey st) (lother st) (lheld st) (lchg st) st j td
             (PIns1 k (length (lrows st)) true)
      | PUnlock k =>                                                                                 (* 7 *)
          mk (lrows st) (lnkey st) (lother st) (release (mx k) (lheld st)) (lchg st) st j td PIdle
      end
  end.

Definition run_sched (st : pstate) (sched : list nat) : pstate := fold_left step sched st.

Definition wdone (w : worker) : bool :=
  match todo w, wpc w with [], PIdle => true | _, _ => false end.
Definition finished (st : pstate) : bool := forallb wdone (lws st).

(* a worker can move: it exists, is not done and is not waiting for a mutex that is held *)
Definition enabled (st : pstate) (j : nat) : bool :=
  match nth_error (lws st) j with
  | None => false
  | Some w =>
      match wpc w with
      | PIdle => match todo w with [] => false | _ => true end
      | PLock k _ => negb (nmem (mx k) (lheld st))
      | _ => true
      end
  end.

(* remaining atomic steps of a worker, assuming it is never blocked *)
Definition pc_weight (p : lpc) : nat :=
  match p with
  | PIdle => 0 | PLook _ _ _ => 8 | PLock _ _ => 7 | PRecheck _ _ => 6 | PPush _ _ => 5 | PJoin _ _ _ _ => 5
  | PIns1 _ _ _ => 4 | PIns2 _ _ _ => 3 | PFlag _ _ => 2 | PJoinM _ _ _ => 2 | PUnlock _ => 1
  end.
Definition wweight (w : worker) : nat := 9 * length (todo w) + pc_weight (wpc w).
Definition measure (st : pstate) : nat := fold_right (fun w n => wweight w + n) 0 (lws st).

Definition par_init (R : list (K * V)) (nk : list (K * nat)) (ot : list nat) (ch : bool)
                    (work : list (list (K * V))) : pstate :=
  {| lrows := R; lnkey := nk; lother := ot; lheld := []; lchg := ch;
     lws := map (fun l => {| todo := l; wpc := PIdle |}) work |}.

(* ---------- the serial head update of the same contributions (ascent!, cf. LatEngine/LatEval.head_update) ---------- *)
Fixpoint kfind (k : K) (R : list (K * V)) : option nat :=
  match R with
  | [] => None
  | (k', _) :: R' => if keqb k k' then Some 0 else option_map S (kfind k R')
  end.

Definition ser_update (R : list (K * V)) (kv : K * V) : list (K * V) :=
  match kfind (fst kv) R with
  | Some i => fst (join_row R i (snd kv))
  | None => R ++ [kv]
  end.
Definition ser_run (R : list (K * V)) (cs : list (K * V)) : list (K * V) := fold_left ser_update cs R.

(* the observable: the lattice value per key *)
Definition valof (R : list (K * V)) (k : K) : option V :=
  match kfind k R with Some i => option_map snd (nth_error R i) | None => None end.
End ParLat.
