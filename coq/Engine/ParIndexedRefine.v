(* B12, part 3 of the proofs: the parallel engine over per-index, sharded, pool-dependent state (ParIndexedModel.v)
   refines the parallel engine of ParStep.v, hence computes the least model.

   [sgood Pd Pb T D N s]: in the SCC-local store s every total / delta / new variable of every index of a dynamic relation
   has the shape of the RUN POOL (CRelNoIndex: max pool 1 shard vectors; DashMap types: nsh shards), new is unfrozen, and
   the three denote the tuples of their relation in T / D / N: ALL indices of a relation version denote the same list
   (lock-step), and that list is what ParStep computes.  [sgoods]: the same with all three unfrozen (after a merge).
   Dynamic entries' declarations satisfy Pd, body-only variables satisfy Pb.
   The pool hypothesis is explicit: [fields_good] (every stored field has the run pool's shape) is ESTABLISHED by
   update_indices_par (fields are Default-created in the run pool: pix_update_indices_good) and preserved by every SCC
   because total and new are Default-created in the same pool (scc_entry) and every thread index of a schedule is below
   the pool size (tids_ok).  The refuted examples of ParIndexedExample.v drop it.
   Main results: iteration_refines / iteration_total (one iteration, every schedule), pix_run_plan_par (a per-index run is
   a ParStep run), par_indexed_run_least_model_holds (hence MainPar.par_run_correct_full transfers). *)
From Coq Require Import List ZArith Bool Arith Lia Permutation.
From AV Require Import Index.MultiMap.
From AV Require Import Index.IndexModel.
From AV Require Import Index.IndexRefine.
From AV Require Import Index.ConcIndex.
From AV Require Import Engine.Core Engine.Sem Engine.Eval Engine.Validate Engine.Naive Engine.NaiveLemmas Engine.IndexedBase.
From AV Require Import Engine.Interface Engine.ParStep Engine.ParSched Engine.InterfacePar Engine.ParProofs Engine.MainPar.
From AV Require Import Engine.ParIndexedModel Engine.ParIndexedValue Engine.ParIndexedIter.
Import ListNotations.
Local Open Scope nat_scope.

Lemma Forall_nth_error {A} (Q : A -> Prop) l : (forall j a, nth_error l j = Some a -> Q a) -> Forall Q l.
Proof. intros H. apply Forall_forall. intros a Ha. apply In_nth_error in Ha as [j Hj]. exact (H j a Hj). Qed.

Lemma Forall2_right {A B} (Q : B -> Prop) (l : list A) (l' : list B) : Forall2 (fun _ b => Q b) l l' -> Forall Q l'.
Proof. induction 1; constructor; assumption. Qed.

Lemma Forall2_map_eq {A B C} (f : A -> C) (g : B -> C) l l' : Forall2 (fun a b => g b = f a) l l' -> map g l' = map f l.
Proof. induction 1 as [|a b l l' H _ IH]; [reflexivity|]. cbn [map]. rewrite H, IH. reflexivity. Qed.

Lemma Forall2_impl_in {A B} (R Q : A -> B -> Prop) l l' : Forall2 R l l' -> (forall a b, In a l -> R a b -> Q a b) -> Forall2 Q l l'.
Proof.
  induction 1 as [|a b l l' H _ IH]; intros HQ; constructor.
  - apply HQ; [left; reflexivity|exact H].
  - apply IH. intros a' b' Hin. apply HQ. right. exact Hin.
Qed.

Lemma skel_erase e : skel (erase e) = skel e.
Proof. destruct e as [d [? ? ?|?]]; reflexivity. Qed.
Lemma skel_freeze e : skel (freeze_entry e) = skel e.
Proof. destruct e as [d [? ? ?|?]]; reflexivity. Qed.
Lemma skel_unfreeze e : skel (unfreeze_entry e) = skel e.
Proof. destruct e as [d [? ? ?|?]]; reflexivity. Qed.

Definition fullsk (r : rel) (x : xdecl * bool) : bool :=
  Nat.eqb (x_rel (fst x)) r && match x_kind (fst x) with KFull => true | _ => false end && snd x.
(* at most one full index variable per dynamic relation (the macro plans exactly one: relations_full_indices) *)
Definition fu_sk (sk : list (xdecl * bool)) : Prop :=
  forall j x r, nth_error sk j = Some x -> fullsk r x = true -> find_pos (fullsk r) sk = Some j.

Lemma is_full_of_skel r e : is_full_of r e = fullsk r (skel e).
Proof. reflexivity. Qed.

Lemma fu_store s : fu_sk (map skel s) ->
  forall j e r, nth_error s j = Some e -> is_full_of r e = true -> find_pos (is_full_of r) s = Some j.
Proof.
  intros H j e r Hn Hf. rewrite (find_pos_ext (is_full_of r) (fun a => fullsk r (skel a)) (is_full_of_skel r)), <- find_pos_map.
  apply (H j (skel e) r); [rewrite nth_error_map, Hn; reflexivity|rewrite <- is_full_of_skel; exact Hf].
Qed.

Section Refine.
Variable sh : forall A : Type, list A -> list A.
Hypothesis sh_perm : forall A (l : list A), Permutation (sh A l) l.
Variable hash : Z -> nat.
Variable enc : list Z -> Z.
Hypothesis enc_inj : forall a b, enc a = enc b -> a = b.
Variable nsh : nat.
Hypothesis nsh_pos : nsh <> 0.
Variable nomod : bool.
Variable pool : nat.

Local Notation xshape := (xshape hash nsh pool).
Local Notation xden := (xden hash enc).
Local Notation xgood := (xgood hash enc nsh pool).

(* total and delta may still carry the frozen flag of an earlier SCC (freeze_code / unfreeze_code reset it before the merge) *)
Definition xgoodw (d : xdecl) (x : xval) (L : list tuple) : Prop := xshape d x /\ xden d x L.
Definition egood (Pd : xdecl -> Prop) (P : xdecl -> xval -> Prop) (T D N : list fact) (e : sentry) : Prop :=
  match s_v e with
  | SDyn t dl n => Pd (s_d e) /\ xgoodw (s_d e) t (db_of T (x_rel (s_d e))) /\ xgoodw (s_d e) dl (db_of D (x_rel (s_d e)))
                   /\ xgood (s_d e) n (db_of N (x_rel (s_d e)))
  | SBody t => P (s_d e) t
  end.
(* after a merge all three are unfrozen *)
Definition egoods (Pd : xdecl -> Prop) (P : xdecl -> xval -> Prop) (T D N : list fact) (e : sentry) : Prop :=
  match s_v e with
  | SDyn t dl n => Pd (s_d e) /\ xgood (s_d e) t (db_of T (x_rel (s_d e))) /\ xgood (s_d e) dl (db_of D (x_rel (s_d e)))
                   /\ xgood (s_d e) n (db_of N (x_rel (s_d e)))
  | SBody t => P (s_d e) t
  end.
Definition sgood Pd P (T D N : list fact) (s : store) : Prop := Forall (egood Pd P T D N) s.
Definition sgoods Pd P (T D N : list fact) (s : store) : Prop := Forall (egoods Pd P T D N) s.

(* lock-step, spelled out: all index variables of a relation version denote the tuples of that relation in ONE list *)
Lemma sgoods_lockstep Pd P T D N s : sgoods Pd P T D N s ->
  forall e t dl n, In e s -> s_v e = SDyn t dl n ->
    xden (s_d e) t (db_of T (x_rel (s_d e))) /\ xden (s_d e) dl (db_of D (x_rel (s_d e))) /\ xden (s_d e) n (db_of N (x_rel (s_d e))).
Proof.
  intros Hs e t dl n He Hv. unfold sgoods in Hs. rewrite Forall_forall in Hs. pose proof (Hs e He) as Hg. unfold egoods in Hg. rewrite Hv in Hg.
  destruct Hg as [_ [[_ [_ A]] [[_ [_ B]] [_ [_ C]]]]]. split; [exact A|]. split; [exact B|exact C].
Qed.

Lemma xgood_weak d x L : xgood d x L -> xgoodw d x L.
Proof. intros [A [_ C]]. split; assumption. Qed.
Lemma sgoods_weak Pd P T D N s : sgoods Pd P T D N s -> sgood Pd P T D N s.
Proof.
  apply Forall_impl. intros e H. unfold egoods, egood in *. destruct (s_v e); [|exact H].
  destruct H as [A [B [C E]]]. split; [exact A|]. split; [apply xgood_weak; exact B|]. split; [apply xgood_weak; exact C|exact E].
Qed.

Lemma xgood_perm d x L L' : Permutation L L' -> xgood d x L -> xgood d x L'.
Proof. intros HP [A [B C]]. split; [exact A|]. split; [exact B|]. exact (xden_perm hash enc d x L L' HP C). Qed.

(* ---------- one iteration ---------- *)
Section OneIteration.
Variable Pd : xdecl -> Prop.
Variable P : xdecl -> xval -> Prop.
Variables T D : list fact.
Variable s : store.
Hypothesis Hs : sgood Pd P T D [] s.
Hypothesis Hfu : fu_sk (map skel s).

Let s0 := map freeze_entry s.

Lemma s0_nth j e0 : nth_error s0 j = Some e0 -> exists e, nth_error s j = Some e /\ e0 = freeze_entry e /\ egood Pd P T D [] e.
Proof.
  unfold s0. rewrite nth_error_map. destruct (nth_error s j) as [e|] eqn:E; [|discriminate]. intros H. injection H as <-.
  exists e. split; [reflexivity|]. split; [reflexivity|]. unfold sgood in Hs. rewrite Forall_forall in Hs. apply Hs. eapply nth_error_In. exact E.
Qed.

Lemma s0_ctx : forall j e0 t dl n0, nth_error s0 j = Some e0 -> s_v e0 = SDyn t dl n0 ->
  (xshape (s_d e0) t /\ xflag t = true /\ xden (s_d e0) t (db_of T (x_rel (s_d e0)))) /\
  (xshape (s_d e0) dl /\ xflag dl = true /\ xden (s_d e0) dl (db_of D (x_rel (s_d e0)))).
Proof.
  intros j e0 t dl n0 Hn Hv. destruct (s0_nth j e0 Hn) as [e [_ [-> Hg]]]. unfold egood in Hg. unfold freeze_entry in *.
  destruct (s_v e) as [t1 d1 n1|t1] eqn:Ev; cbn [s_v s_d] in *; [|rewrite Ev in Hv; discriminate].
  injection Hv as <- <- <-. destruct Hg as [_ [[A1 C1] [[A2 C2] _]]]. split.
  - split; [apply xfreeze_shape; exact A1|]. split; [apply xfreeze_flag|apply xfreeze_den; exact C1].
  - split; [apply xfreeze_shape; exact A2|]. split; [apply xfreeze_flag|apply xfreeze_den; exact C2].
Qed.

Lemma s0_skel : map skel s0 = map skel s.
Proof. unfold s0. rewrite map_map. apply map_ext. apply skel_freeze. Qed.

Lemma s0_fu : forall j e r, nth_error s0 j = Some e -> is_full_of r e = true -> find_pos (is_full_of r) s0 = Some j.
Proof. apply fu_store. rewrite s0_skel. exact Hfu. Qed.

Lemma s0_new : forall j e t dl n, nth_error s0 j = Some e -> s_v e = SDyn t dl n ->
  xshape (s_d e) n /\ xflag n = false /\ xden (s_d e) n [].
Proof.
  intros j e0 t dl n0 Hn Hv. destruct (s0_nth j e0 Hn) as [e [_ [-> Hg]]]. unfold egood in Hg. unfold freeze_entry in *.
  destruct (s_v e) as [t1 d1 n1|t1] eqn:Ev; cbn [s_v s_d] in *; [|rewrite Ev in Hv; discriminate].
  injection Hv as <- <- <-. destruct Hg as [_ [_ [_ G]]]. exact G.
Qed.

Lemma find_full_s0 r : find_pos (is_full_of r) s0 = find_pos (is_full_of r) s.
Proof.
  rewrite (find_pos_ext (is_full_of r) (fun a => fullsk r (skel a)) (is_full_of_skel r)), <- find_pos_map, s0_skel, find_pos_map.
  apply find_pos_ext. intros a. symmetry. apply is_full_of_skel.
Qed.

(* merging one entry of a quiescent store *)
Lemma merge_entry_good fin j e : Inv hash enc nsh pool s0 fin -> (forall j, waiting s0 j (iws fin) = []) ->
  nth_error (istore fin) j = Some e ->
  exists b, merge_entry sh (unfreeze_entry e) = Ok b /\ egoods Pd P (T ++ D) (iN fin) [] b /\ skel b = skel e.
Proof.
  intros [HE [HN _]] Hw Hn. destruct (store_nth s0 fin j e HE Hn) as [e0 [Hn0 Hee]].
  destruct (s0_nth j e0 Hn0) as [es [_ [-> Hg]]]. symmetry in Hee. destruct (erase_eq_inv _ _ Hee) as [Hd [Hdyn Hbody]].
  unfold egood in Hg. unfold freeze_entry in Hd, Hdyn, Hbody. destruct (s_v es) as [t dl n0|t] eqn:Ev; cbn [s_d s_v] in *.
  - destruct (Hdyn _ _ _ eq_refl) as [n Hv]. destruct Hg as [Hpd [Gt [Gd _]]].
    destruct (new_inv_finished hash enc nsh pool s0 fin j (s_d e) n Hw (HN j e _ _ n Hn Hv)) as [An [Bn Cn]].
    unfold unfreeze_entry, merge_entry. rewrite Hv. cbn [s_v s_d]. rewrite !xunfreeze_freeze.
    assert (Gt' : xgood (s_d e) (xunfreeze t) (db_of T (x_rel (s_d e)))).
    { rewrite <- Hd. destruct Gt as [A C]. split; [apply xunfreeze_shape; exact A|]. split; [apply xunfreeze_flag|apply xunfreeze_den; exact C]. }
    assert (Gd' : xgood (s_d e) (xunfreeze dl) (db_of D (x_rel (s_d e)))).
    { rewrite <- Hd. destruct Gd as [A C]. split; [apply xunfreeze_shape; exact A|]. split; [apply xunfreeze_flag|apply xunfreeze_den; exact C]. }
    destruct (xmerge_spec sh sh_perm hash enc nsh nsh_pos pool (s_d e) n (xunfreeze dl) (xunfreeze t) _ _ _ (conj An (conj Bn Cn)) Gd' Gt')
      as [n' [t' [E [Gn' Gt'']]]].
    rewrite E. cbn [rbind IndexModel.bind fst snd]. eexists. split; [reflexivity|]. split.
    + unfold egoods. cbn [s_v s_d]. split; [rewrite <- Hd; exact Hpd|]. split; [rewrite db_of_app; exact Gt''|]. split; [exact (conj An (conj Bn Cn))|exact Gn'].
    + unfold skel, e_isdyn. cbn [s_d s_v]. rewrite Hv. reflexivity.
  - pose proof (Hbody _ Ev) as Hv. unfold unfreeze_entry, merge_entry. rewrite Hv.
    exists e. rewrite Hv. split; [reflexivity|]. split; [|reflexivity]. unfold egoods. rewrite Hv, <- Hd. exact Hg.
Qed.

Lemma merge_store_good fin : Inv hash enc nsh pool s0 fin -> (forall j, waiting s0 j (iws fin) = []) ->
  exists s', merge_store sh (map unfreeze_entry (istore fin)) = Ok s' /\
    Forall2 (fun a b => egoods Pd P (T ++ D) (iN fin) [] b /\ skel b = skel a) (map unfreeze_entry (istore fin)) s'.
Proof.
  intros Hinv Hw. apply mapr_spec. apply Forall_forall. intros a Ha. apply in_map_iff in Ha as [e [<- He]].
  apply In_nth_error in He as [j Hj]. destruct (merge_entry_good fin j e Hinv Hw Hj) as [b [E [G S]]].
  exists b. split; [exact E|]. split; [exact G|]. rewrite skel_unfreeze. exact S.
Qed.

Lemma merged_skel fin s' : map erase (istore fin) = map erase s0 ->
  Forall2 (fun a b => egoods Pd P (T ++ D) (iN fin) [] b /\ skel b = skel a) (map unfreeze_entry (istore fin)) s' ->
  sgoods Pd P (T ++ D) (iN fin) [] s' /\ map skel s' = map skel s.
Proof.
  intros HE HF. split.
  - apply (Forall2_right _ (map unfreeze_entry (istore fin))). eapply Forall2_impl_in; [exact HF|]. intros a b _ [G _]. exact G.
  - rewrite (Forall2_map_eq skel skel (map unfreeze_entry (istore fin)) s').
    + rewrite map_map. rewrite (map_ext _ skel skel_unfreeze). rewrite <- s0_skel.
      rewrite <- (map_ext _ _ skel_erase (istore fin)), <- (map_ext _ _ skel_erase s0), <- !map_map with (f := erase) (g := skel), HE. reflexivity.
    + eapply Forall2_impl_in; [exact HF|]. intros a b _ [_ G]. exact G.
Qed.

(* partial correctness of the loop body: whatever the distribution, schedule, thread indices (below the pool size), hash *)
Theorem iteration_refines R work sched N R' ch s' : tids_ok pool sched ->
  iteration_fn sh hash enc nomod R s work sched = Ok (N, R', ch, s') ->
  let pst := run_sched T D (par_init R work) (coarsen hash enc nomod (iinit R s0 work) sched) in
  finished pst = true /\ N = pN pst /\ R' = pR pst /\ ch = pchanged pst /\
  sgoods Pd P (T ++ D) N [] s' /\ map skel s' = map skel s /\
  (forall f, In f N -> find_pos (is_full_of (fst f)) s <> None).
Proof.
  intros Htid E. unfold iteration_fn in E. fold s0 in E. unfold rbind in E.
  destruct (irun hash enc nomod (iinit R s0 work) sched) as [fin| |] eqn:Er; cbn [IndexModel.bind] in E; try discriminate.
  destruct (ifinished fin) eqn:Ef; [|discriminate].
  destruct (irun_sim_ok hash enc enc_inj nsh nsh_pos nomod pool T D s0 s0_ctx s0_fu sched _ fin Htid (inv_init hash enc nsh pool s0 R work s0_new) Er)
    as [Hinv [Habs HNf]].
  rewrite abs_init in Habs. destruct (ifinished_abs s0 fin Ef) as [F1 [F2 F3]].
  destruct (merge_store_good fin Hinv F3) as [s'' [Em HF]]. rewrite Em in E. cbn [IndexModel.bind] in E. injection E as <- <- <- <-.
  cbv zeta. rewrite <- Habs. split; [exact F1|]. split; [reflexivity|]. split; [reflexivity|].
  split; [cbn [abs_state pchanged]; rewrite F2, orb_false_r; reflexivity|].
  destruct (merged_skel fin s'' (proj1 Hinv) HF) as [G1 G2]. split; [exact G1|]. split; [exact G2|].
  intros f Hf. cbn [abs_state pN] in Hf. destruct (HNf f Hf) as [[]|Hok]. rewrite <- find_full_s0. exact Hok.
Qed.

(* totality: no schedule makes the loop body fail (no panic, no frozen index, no out-of-range shard) *)
Theorem iteration_total R work sched : tids_ok pool sched ->
  (forall f, In f (concat work) -> find_pos (is_full_of (fst f)) s <> None) ->
  exists fin, irun hash enc nomod (iinit R s0 work) sched = Ok fin /\
    (ifinished fin = true -> exists s', iteration_fn sh hash enc nomod R s work sched = Ok (iN fin, iR fin, ichanged fin, s')).
Proof.
  intros Htid Hall.
  assert (Hall0 : forall f, In f (concat work) -> find_pos (is_full_of (fst f)) s0 <> None) by (intros f Hf; rewrite find_full_s0; apply Hall; exact Hf).
  destruct (irun_sim_total hash enc enc_inj nsh nsh_pos nomod pool T D s0 s0_ctx s0_fu R (concat work) Hall0 sched (iinit R s0 work) Htid
              (inv_init hash enc nsh pool s0 R work s0_new)) as [fin [Er [Hinv _]]].
  { rewrite abs_init. apply init_inv. }
  exists fin. split; [exact Er|]. intros Ef. destruct (ifinished_abs s0 fin Ef) as [_ [_ F3]].
  destruct (merge_store_good fin Hinv F3) as [s'' [Em _]]. exists s''.
  unfold iteration_fn. fold s0. unfold rbind. rewrite Er. cbn [IndexModel.bind]. rewrite Ef, Em. reflexivity.
Qed.
End OneIteration.
(* a merge outside an iteration (the second shift of a non-looping SCC): everything is already unfrozen *)
Lemma merge_store_sgoods Pd P T D N s s' : sgoods Pd P T D N s -> merge_store sh s = Ok s' ->
  sgoods Pd P (T ++ D) N [] s' /\ map skel s' = map skel s.
Proof.
  intros Hs E. apply mapr_inv in E.
  assert (HF : Forall2 (fun a b => egoods Pd P (T ++ D) N [] b /\ skel b = skel a) s s').
  { eapply Forall2_impl_in; [exact E|]. intros e b Hin Eb. unfold sgoods in Hs. rewrite Forall_forall in Hs. pose proof (Hs e Hin) as Hg.
    unfold egoods in Hg. unfold merge_entry in Eb. destruct (s_v e) as [t dl n|t] eqn:Ev.
    - destruct Hg as [Hpd [Gt [Gd Gn]]].
      destruct (xmerge_spec sh sh_perm hash enc nsh nsh_pos pool (s_d e) n dl t _ _ _ Gn Gd Gt) as [n' [t' [Em [Gn' Gt']]]].
      rewrite Em in Eb. cbn [rbind IndexModel.bind fst snd] in Eb. injection Eb as <-. split.
      + unfold egoods. cbn [s_v s_d]. split; [exact Hpd|]. split; [rewrite db_of_app; exact Gt'|]. split; [exact Gn|exact Gn'].
      + unfold skel, e_isdyn. cbn [s_d s_v]. rewrite Ev. reflexivity.
    - injection Eb as <-. split; [unfold egoods; rewrite Ev; exact Hg|reflexivity]. }
  split.
  - apply (Forall2_right _ s). eapply Forall2_impl_in; [exact HF|]. intros a b _ [G _]. exact G.
  - apply Forall2_map_eq. eapply Forall2_impl_in; [exact HF|]. intros a b _ [_ G]. exact G.
Qed.

Lemma find_full_skel r s : find_pos (is_full_of r) s = find_pos (fullsk r) (map skel s).
Proof. rewrite find_pos_map. apply find_pos_ext. intros a. apply is_full_of_skel. Qed.

(* ---------- the whole run ---------- *)
Section Run.
Variable I : interp.
Variable swap : list tuple -> list tuple -> bool.

Local Notation pix_iteration := (pix_iteration sh hash enc nomod I swap pool).
Local Notation pix_loop := (pix_loop sh hash enc nomod I swap pool).
Local Notation pix_run_scc := (pix_run_scc sh hash enc nsh nomod I swap pool).
Local Notation pix_run_sccs := (pix_run_sccs sh hash enc nsh nomod I swap pool).
Local Notation pix_update_indices := (pix_update_indices hash enc nsh nomod pool).
Local Notation pix_run_plan := (pix_run_plan sh hash enc nsh nomod I swap pool).

Theorem pix_iteration_par Pd P sc S T D R s N R' ch s' : sgood Pd P T D [] s -> fu_sk (map skel s) ->
  pix_iteration sc S T D R s N R' ch s' ->
  par_iteration I swap sc S T D R N R' ch /\ sgoods Pd P (T ++ D) N [] s' /\ map skel s' = map skel s /\
  (forall f, In f N -> find_pos (is_full_of (fst f)) s <> None).
Proof.
  intros Hs Hfu [work [sched [Hcov [Htid E]]]].
  destruct (iteration_refines Pd P T D s Hs Hfu R work sched N R' ch s' Htid E) as [F [EN [ER [Ec [G1 [G2 G3]]]]]].
  split; [|split; [exact G1|split; [exact G2|exact G3]]].
  exists work, (coarsen hash enc nomod (iinit R (map freeze_entry s) work) sched). split; [exact Hcov|].
  cbv zeta. split; [exact F|]. split; [exact EN|]. split; [exact ER|exact Ec].
Qed.

Section Scc.
Variable dyn : list rel.
Let Pd (d : xdecl) : Prop := is_dyn dyn (x_rel d) = true.

Lemma hasfull_dyn P T D N s r : sgood Pd P T D N s -> find_pos (is_full_of r) s <> None -> is_dyn dyn r = true.
Proof.
  intros Hs Hf. destruct (find_pos (is_full_of r) s) as [j|] eqn:E; [|congruence].
  destruct (find_pos_some _ _ _ E) as [[e [Hn Hfull]] _]. unfold sgood in Hs. rewrite Forall_forall in Hs.
  pose proof (Hs e (nth_error_In _ _ Hn)) as Hg. unfold is_full_of in Hfull. apply andb_true_iff in Hfull as [Hfull Hdy].
  apply andb_true_iff in Hfull as [Hr _]. apply Nat.eqb_eq in Hr. unfold egood in Hg. unfold e_isdyn in Hdy.
  destruct (s_v e); [|discriminate]. destruct Hg as [Hpd _]. unfold Pd in Hpd. rewrite Hr in Hpd. exact Hpd.
Qed.

Lemma pix_loop_par P sc S : forall T D R s T' R' s', pix_loop sc S T D R s T' R' s' ->
  sgood Pd P T D [] s -> fu_sk (map skel s) -> (forall f, In f (T ++ D) -> fact_dyn dyn f = true) ->
  par_loop I swap sc S T D R T' R' /\
  exists D', sgoods Pd P T' D' [] s' /\ map skel s' = map skel s /\ (forall f, In f T' -> fact_dyn dyn f = true).
Proof.
  intros T D R s T' R' s' H. induction H as [T D R s N R' s' Hit | T D R s N R' s' Tf Rf sf Hit _ IH]; intros Hs Hfu Hdyn.
  - destruct (pix_iteration_par Pd P sc S T D R s N R' false s' Hs Hfu Hit) as [Hp [G1 [G2 _]]].
    split; [apply (par_loop_exit I swap sc S T D R N R' Hp)|]. exists N. split; [exact G1|]. split; [exact G2|exact Hdyn].
  - destruct (pix_iteration_par Pd P sc S T D R s N R' true s' Hs Hfu Hit) as [Hp [G1 [G2 G3]]].
    destruct IH as [Hl [D' [H1 [H2 H3]]]].
    + apply sgoods_weak. exact G1.
    + rewrite G2. exact Hfu.
    + intros f Hf. apply in_app_or in Hf as [Hf|Hf]; [apply Hdyn; exact Hf|]. unfold fact_dyn.
      apply (hasfull_dyn P T D [] s (fst f) Hs). apply G3. exact Hf.
    + split; [apply (par_loop_step I swap sc S T D R N R' Tf Rf Hp Hl)|]. exists D'. split; [exact H1|]. split; [congruence|exact H3].
Qed.
End Scc.

(* the stored fields: every field has the shape of the RUN POOL and denotes the stored tuples of its relation *)
Definition fgood (stored : list fact) (fe : xdecl * xval) : Prop :=
  xshape (fst fe) (snd fe) /\ xden (fst fe) (snd fe) (db_of stored (x_rel (fst fe))).
Definition fields_good (stored : list fact) (fs : list (xdecl * xval)) : Prop := Forall (fgood stored) fs.
(* one full index per relation *)
Definition fu_decls (ds : list xdecl) : Prop :=
  forall j j' d d', nth_error ds j = Some d -> nth_error ds j' = Some d' ->
    x_kind d = KFull -> x_kind d' = KFull -> x_rel d = x_rel d' -> j = j'.

Lemma fu_decls_sk (g : xdecl -> bool) ds : fu_decls ds -> fu_sk (map (fun d => (d, g d)) ds).
Proof.
  intros H j x r Hn Hf. destruct (find_pos_complete (fullsk r) _ j x Hn Hf) as [j' [E _]]. rewrite E. f_equal.
  destruct (find_pos_some _ _ _ E) as [[x' [Hn' Hf']] _].
  rewrite nth_error_map in Hn, Hn'. destruct (nth_error ds j) as [d|] eqn:Ed; [|discriminate]. destruct (nth_error ds j') as [d'|] eqn:Ed'; [|discriminate].
  injection Hn as <-. injection Hn' as <-. unfold fullsk in Hf, Hf'. cbn [fst snd] in *.
  apply andb_true_iff in Hf as [Hf _]. apply andb_true_iff in Hf as [R1 K1].
  apply andb_true_iff in Hf' as [Hf' _]. apply andb_true_iff in Hf' as [R2 K2]. apply Nat.eqb_eq in R1, R2.
  apply (H j' j d' d Ed' Ed); [destruct (x_kind d'); [reflexivity|discriminate|discriminate]|destruct (x_kind d); [reflexivity|discriminate|discriminate]|congruence].
Qed.

Lemma db_of_filter_dyn dyn F r : is_dyn dyn r = true -> db_of (filter (fact_dyn dyn) F) r = db_of F r.
Proof.
  intros H. unfold db_of. f_equal. induction F as [|[q t] F IH]; [reflexivity|]. cbn [filter]. unfold fact_dyn at 1. cbn [fst].
  destruct (Nat.eqb_spec q r) as [->|Ne].
  - rewrite H. cbn [filter fst]. rewrite Nat.eqb_refl. f_equal. exact IH.
  - destruct (is_dyn dyn q); [cbn [filter fst]; replace (Nat.eqb q r) with false by (symmetry; apply Nat.eqb_neq; exact Ne)|]; exact IH.
Qed.
Lemma db_of_filter_dyn_nil dyn F r : is_dyn dyn r = false -> db_of (filter (fact_dyn dyn) F) r = [].
Proof.
  intros H. unfold db_of. induction F as [|[q t] F IH]; [reflexivity|]. cbn [filter]. unfold fact_dyn at 1. cbn [fst].
  destruct (is_dyn dyn q) eqn:Eq; [|exact IH]. cbn [filter fst]. destruct (Nat.eqb_spec q r) as [->|Ne]; [congruence|exact IH].
Qed.
Lemma db_of_filter_ndyn dyn F r : is_dyn dyn r = false -> db_of (filter (fun f => negb (fact_dyn dyn f)) F) r = db_of F r.
Proof.
  intros H. unfold db_of. f_equal. induction F as [|[q t] F IH]; [reflexivity|]. cbn [filter]. unfold fact_dyn at 1. cbn [fst].
  destruct (Nat.eqb_spec q r) as [->|Ne].
  - rewrite H. cbn [negb filter fst]. rewrite Nat.eqb_refl. f_equal. exact IH.
  - destruct (is_dyn dyn q); cbn [negb]; [|cbn [filter fst]; replace (Nat.eqb q r) with false by (symmetry; apply Nat.eqb_neq; exact Ne)]; exact IH.
Qed.
Lemma db_of_filter_ndyn_nil dyn F r : is_dyn dyn r = true -> db_of (filter (fun f => negb (fact_dyn dyn f)) F) r = [].
Proof.
  intros H. unfold db_of. induction F as [|[q t] F IH]; [reflexivity|]. cbn [filter]. unfold fact_dyn at 1. cbn [fst].
  destruct (is_dyn dyn q) eqn:Eq; cbn [negb]; [exact IH|]. cbn [filter fst]. destruct (Nat.eqb_spec q r) as [->|Ne]; [congruence|exact IH].
Qed.
Lemma db_of_all_dyn_nil dyn F r : (forall f, In f F -> fact_dyn dyn f = true) -> is_dyn dyn r = false -> db_of F r = [].
Proof.
  intros HF H. unfold db_of. induction F as [|[q t] F IH]; [reflexivity|]. cbn [filter fst].
  destruct (Nat.eqb_spec q r) as [->|Ne].
  - pose proof (HF (r, t) (or_introl eq_refl)) as G. unfold fact_dyn in G. cbn [fst] in G. congruence.
  - apply IH. intros f Hf. apply HF. right. exact Hf.
Qed.

Definition abs_x (st : xstate) : state := {| rows := xrows st; stored := xstored st |}.

Lemma scc_exit_good dyn S T' D' s' :
  sgoods (fun d => is_dyn dyn (x_rel d) = true)
         (fun d t => is_dyn dyn (x_rel d) = false /\ xshape d t /\ xden d t (db_of S (x_rel d))) T' D' [] s' ->
  (forall r, is_dyn dyn r = true -> db_of S r = []) ->
  (forall f, In f T' -> fact_dyn dyn f = true) ->
  fields_good (S ++ T') (map scc_exit s').
Proof.
  intros Hs HS HT. unfold fields_good. apply Forall_forall. intros fe Hfe. apply in_map_iff in Hfe as [e [<- He]].
  unfold sgoods in Hs. rewrite Forall_forall in Hs. pose proof (Hs e He) as Hg. unfold egoods in Hg. unfold scc_exit, fgood. cbn [fst snd].
  rewrite db_of_app. destruct (s_v e) as [t dl n|t].
  - destruct Hg as [Hpd [[A [_ C]] _]]. split; [exact A|]. rewrite (HS _ Hpd). exact C.
  - destruct Hg as [Hnd [A C]]. split; [exact A|]. rewrite (db_of_all_dyn_nil dyn T' _ HT Hnd), app_nil_r. exact C.
Qed.

Theorem pix_run_scc_par sc st st' : fields_good (xstored st) (xfields st) -> fu_decls (map fst (xfields st)) ->
  pix_run_scc sc st st' ->
  par_run_scc I swap sc (abs_x st) (abs_x st') /\ fields_good (xstored st') (xfields st') /\
  map fst (xfields st') = map fst (xfields st).
Proof.
  intros Hf Hfu Hrun. unfold ParIndexedModel.pix_run_scc in Hrun. cbv zeta in Hrun.
  set (dyn := s_dyn sc) in *. set (D0 := filter (fact_dyn dyn) (xstored st)) in *.
  set (S := filter (fun f => negb (fact_dyn dyn f)) (xstored st)) in *.
  set (s0 := map (scc_entry nsh pool dyn) (xfields st)) in *.
  set (Pd := fun d : xdecl => is_dyn dyn (x_rel d) = true).
  set (P := fun (d : xdecl) (t : xval) => is_dyn dyn (x_rel d) = false /\ xshape d t /\ xden d t (db_of S (x_rel d))).
  assert (Hs0 : sgood Pd P [] D0 [] s0).
  { unfold sgood, s0. apply Forall_forall. intros e He. apply in_map_iff in He as [[d x] [<- Hfe]].
    unfold fields_good in Hf. rewrite Forall_forall in Hf. destruct (Hf _ Hfe) as [A C]. cbn [fst snd] in A, C.
    unfold scc_entry, egood. cbn [fst snd]. destruct (is_dyn dyn (x_rel d)) eqn:Ed; cbn [s_v s_d].
    - split; [exact Ed|]. split; [apply xgood_weak; apply (xdefault_good hash enc nsh nsh_pos pool d)|].
      split; [|apply (xdefault_good hash enc nsh nsh_pos pool d)]. split; [exact A|]. unfold D0. rewrite (db_of_filter_dyn dyn _ _ Ed). exact C.
    - split; [exact Ed|]. split; [apply xfreeze_shape; exact A|]. apply xfreeze_den. unfold S. rewrite (db_of_filter_ndyn dyn _ _ Ed). exact C. }
  assert (Hsk0 : map skel s0 = map (fun d => (d, is_dyn dyn (x_rel d))) (map fst (xfields st))).
  { unfold s0. rewrite !map_map. apply map_ext. intros [d x]. unfold scc_entry, skel, e_isdyn. cbn [fst snd].
    destruct (is_dyn dyn (x_rel d)); reflexivity. }
  assert (Hfu0 : fu_sk (map skel s0)) by (rewrite Hsk0; apply fu_decls_sk; exact Hfu).
  assert (HD0 : forall f, In f ([] ++ D0) -> fact_dyn dyn f = true) by (intros f Hin; cbn [app] in Hin; apply filter_In in Hin; apply Hin).
  assert (HSn : forall r, is_dyn dyn r = true -> db_of S r = []) by (intros r Hr; apply db_of_filter_ndyn_nil; exact Hr).
  assert (Hdecl : forall s', map skel s' = map skel s0 -> map fst (map scc_exit s') = map fst (xfields st)).
  { intros s' E. rewrite map_map. transitivity (map fst (map skel s')); [rewrite map_map; reflexivity|].
    rewrite E, Hsk0, map_map. cbn [fst]. apply map_id. }
  unfold par_run_scc. cbv zeta. cbn [abs_x rows stored]. fold dyn. fold D0. fold S.
  destruct (s_loop sc).
  - destruct Hrun as [T [R [s' [Hloop ->]]]]. cbn [xrows xstored xfields].
    destruct (pix_loop_par dyn P sc S [] D0 (xrows st) s0 T R s' Hloop Hs0 Hfu0 HD0) as [Hl [D' [G1 [G2 G3]]]].
    split; [exists T, R; split; [exact Hl|reflexivity]|]. split; [apply (scc_exit_good dyn S T D' s' G1 HSn G3)|apply Hdecl; exact G2].
  - destruct Hrun as [N [R [b [s1 [s2 [Hit [Em ->]]]]]]]. cbn [xrows xstored xfields].
    destruct (pix_iteration_par Pd P sc S [] D0 (xrows st) s0 N R b s1 Hs0 Hfu0 Hit) as [Hp [G1 [G2 G3]]].
    destruct (merge_store_sgoods Pd P _ _ _ s1 s2 G1 Em) as [H1 H2].
    split; [exists N, R, b; split; [exact Hp|reflexivity]|]. split.
    + apply (scc_exit_good dyn S (([] ++ D0) ++ N) [] s2 H1 HSn). intros f Hin. apply in_app_or in Hin as [Hin|Hin]; [apply HD0; exact Hin|].
      unfold fact_dyn. apply (hasfull_dyn dyn P [] D0 [] s0 (fst f) Hs0). apply G3. exact Hin.
    + apply Hdecl. congruence.
Qed.

Theorem pix_run_sccs_par : forall pl st st', pix_run_sccs pl st st' ->
  fields_good (xstored st) (xfields st) -> fu_decls (map fst (xfields st)) ->
  par_run_sccs I swap pl (abs_x st) (abs_x st') /\ fields_good (xstored st') (xfields st') /\
  map fst (xfields st') = map fst (xfields st).
Proof.
  intros pl st st' H. induction H as [st | sc pl st st1 st2 H1 _ IH]; intros Hf Hfu.
  - split; [constructor|]. split; [exact Hf|reflexivity].
  - destruct (pix_run_scc_par sc st st1 Hf Hfu H1) as [Hp [Hf1 Hd1]].
    destruct IH as [Hp2 [Hf2 Hd2]]; [exact Hf1|rewrite Hd1; exact Hfu|].
    split; [econstructor; [exact Hp|exact Hp2]|]. split; [exact Hf2|congruence].
Qed.

(* update_indices_par: the fields are re-created in the run pool; afterwards every field has the run pool's shape and
   denotes the rows of its relation, WHATEVER was stored before (any pool, any content) *)
Lemma ui_fold_spec d : forall ins x0 L0, xgood d x0 L0 -> (forall it, In it ins -> fst it < Nat.max pool 1) ->
  exists x, fold_left (fun r it => rbind r (xinsert hash enc nomod d (fst it) (snd it))) ins (Ok x0) = Ok x /\
            xgood d x (rev (map snd ins) ++ L0).
Proof.
  induction ins as [|[tid t] ins IH]; intros x0 L0 [A [B C]] Ht; [exists x0; split; [reflexivity|exact (conj A (conj B C))]|].
  destruct (xinsert_spec hash enc nsh nsh_pos nomod pool d tid t x0 L0 A B (Ht (tid, t) (or_introl eq_refl)) C) as [x1 [E [A1 [B1 C1]]]].
  destruct (IH x1 (t :: L0) (conj A1 (conj B1 C1)) (fun it H => Ht it (or_intror H))) as [x [Ex Gx]].
  exists x. cbn [fold_left rbind IndexModel.bind fst snd]. rewrite E. split; [exact Ex|]. cbn [map rev]. rewrite <- app_assoc. exact Gx.
Qed.

Theorem pix_update_indices_good st st' : pix_update_indices st st' ->
  abs_x st' = update_indices (abs_x st) /\ fields_good (xstored st') (xfields st') /\ map fst (xfields st') = map fst (xfields st).
Proof.
  intros [Er [Es HF]]. split; [unfold abs_x, update_indices; cbn [rows]; rewrite Er, Es; reflexivity|]. rewrite Es. split.
  - unfold fields_good. apply (Forall2_right _ (xfields st)). eapply Forall2_impl_in; [exact HF|].
    intros [d x] [d' x'] _ [Ed [ins [Hp [Ht E]]]]. cbn [fst snd] in *. subst d'. unfold ui_field in E.
    destruct (ui_fold_spec d ins _ [] (xdefault_good hash enc nsh nsh_pos pool d) Ht) as [x'' [E' [A [_ C]]]].
    rewrite E in E'. injection E' as <-. unfold fgood. cbn [fst snd]. split; [exact A|].
    apply (xden_perm hash enc d x' (rev (map snd ins) ++ [])); [|exact C]. rewrite app_nil_r. rewrite <- Hp. apply Permutation_sym, Permutation_rev.
  - apply Forall2_map_eq. eapply Forall2_impl_in; [exact HF|]. intros a b _ [E _]. exact E.
Qed.

(* every run of the per-index engine is a run of ParStep's engine on the row-level state *)
Theorem pix_run_plan_par pl F0 fields st : fu_decls (map fst fields) ->
  pix_run_plan pl (xinit F0 fields) st -> par_run_plan I swap pl (init_state F0) (abs_x st).
Proof.
  intros Hfu [st1 [Hu Hr]]. destruct (pix_update_indices_good _ _ Hu) as [Ea [Hf1 Hd1]].
  destruct (pix_run_sccs_par pl st1 st Hr Hf1) as [Hp _]; [rewrite Hd1; exact Hfu|].
  unfold par_run_plan. change (init_state F0) with (abs_x (xinit F0 fields)). rewrite <- Ea. exact Hp.
Qed.

(* C02 + C19 + C20 in one statement: for every pool size, every thread index below it, every hash, every encoding, every
   distribution of the derived facts over workers and every interleaving of their atomic steps in every iteration of every
   SCC, every order of the inserts of update_indices, with or without the modulo in CRelNoIndex::index_insert: the rows of
   a run that did not fail are the least model, the input rows stay in place and every new fact is added exactly once; and
   at the end every stored index field has the run pool's shape and denotes the stored tuples of its relation. *)
Theorem par_indexed_run_least_model_holds arities Pg pl F0 fields st :
  arities_functional arities -> wf_facts arities F0 = true -> no_agg Pg = true -> validate arities Pg pl = true ->
  fu_decls (map fst fields) ->
  pix_run_plan pl (xinit F0 fields) st ->
  least_model I Pg F0 (xrows st)
  /\ (exists added, xrows st = F0 ++ added /\ NoDup added /\ (forall f, In f added -> ~ In f F0))
  /\ fields_good (xstored st) (xfields st).
Proof.
  intros Har Hwf Hna Hval Hfu Hrun.
  destruct (par_run_correct_full I swap arities Pg pl F0 (abs_x st) Har Hwf Hna Hval (pix_run_plan_par pl F0 fields st Hfu Hrun)) as [LM Hadd].
  split; [exact LM|]. split; [exact Hadd|].
  destruct Hrun as [st1 [Hu Hr]]. destruct (pix_update_indices_good _ _ Hu) as [_ [Hf1 Hd1]].
  destruct (pix_run_sccs_par pl st1 st Hr Hf1) as [_ [G _]]; [rewrite Hd1; exact Hfu|exact G].
Qed.
End Run.
End Refine.
