(* Statements for programs WITH aggregation / negation (C04): the engine result is the stratified model.
   EvalSpecAgg.v proves [eval_variant_spec_agg_stmt]; StrataAgg.v assumes it and proves [run_plan_strat_correct_stmt]. *)
From Coq Require Import List ZArith Bool Arith Permutation.
From AV Require Import Engine.Core Engine.Sem Engine.Eval Engine.Validate Engine.Naive Engine.Interface Engine.Strat.
Import ListNotations.

(* Validate.variant_ok minus the program-dependent part; aggregates allowed *)
Definition variant_wf_agg (arities : list (rel * nat)) (dyn : list rel) (v : variant) : bool :=
  static_total dyn (v_items v)
  && match check_from arities [] (v_items v) (v_sj v) (v_reord v) with
     | Some B => heads_ok arities B (v_heads v)
     | None => false
     end.

Definition item_agg_rels (p : pitem) : list rel := match p with PAgg _ _ _ r _ _ => [r] | _ => [] end.
Definition variant_agg_rels (v : variant) : list rel := flat_map item_agg_rels (v_items v).

(* with duplicate-free contents of the aggregated relations, the engine's index lookup hands the aggregator
   exactly the list the specification hands it (each distinct matching tuple once, same order) *)
Definition eval_variant_spec_agg_stmt (I : interp) (swap : list tuple -> list tuple -> bool) : Prop :=
  forall arities S T D dyn v,
    arities_functional arities ->
    wf_facts arities S = true -> wf_facts arities T = true -> wf_facts arities D = true ->
    variant_wf_agg arities dyn v = true ->
    (forall r, In r (variant_agg_rels v) -> NoDup (contents S T D dyn r VTotal)) ->
    forall f, In f (eval_variant I swap (contents S T D dyn) v) <-> In f (derive_variant I (contents S T D dyn) dyn v).

(* aggregators depend only on the multiset of their input (proved for the shipped ones: Props/C17.v) *)
Definition agg_perm_invariant (I : interp) : Prop :=
  forall a l l', Permutation l l' -> aint I a l = aint I a l'.

(* the stratified model: each stratum is the least model of its rules over the completed lower strata *)
Fixpoint strat_model (I : interp) (strata : list (list rule)) (F0 M : list fact) : Prop :=
  match strata with
  | [] => incl F0 M /\ incl M F0
  | s :: rest => exists M1, least_model I s F0 M1 /\ strat_model I rest M1 M
  end.

(* the strata a plan induces: the rules evaluated by each SCC, in plan order *)
Definition plan_strata (P : list rule) (pl : plan) : list (list rule) :=
  map (fun sc => filter_map (fun j => nth_error P j) (rules_of_scc sc)) pl.

Definition run_plan_strat_correct_stmt (I : interp) (swap : list tuple -> list tuple -> bool) : Prop :=
  forall arities P pl fuel F0 st,
    arities_functional arities -> wf_facts arities F0 = true -> NoDup F0 -> agg_perm_invariant I ->
    validate arities P pl = true ->
    run_plan I swap fuel pl (init_state F0) = Some st ->
    stratified (plan_strata P pl) = true
    /\ (forall r, In r P <-> In r (concat (plan_strata P pl)))
    /\ strat_model I (plan_strata P pl) F0 (rows st)
    /\ NoDup (rows st)
    /\ exists added, rows st = F0 ++ added.
