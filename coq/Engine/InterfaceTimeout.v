(* Statement for run_timeout (C14), proved in Engine/TimeoutProofs.v *)
From Coq Require Import List ZArith Bool Arith.
From AV Require Import Engine.Core Engine.Sem Engine.Eval Engine.Validate Engine.Naive Engine.Interface Engine.Timeout.
Import ListNotations.

(* whatever the clock does: the program value left by run_timeout holds the input in place, only derivable
   facts (it is below every closed superset of the input), each added once; and `true` means the least model *)
Definition run_timeout_correct_stmt (I : interp) (swap : list tuple -> list tuple -> bool) : Prop :=
  forall (deadline : nat -> bool) arities P pl fuel F0 b st,
    arities_functional arities -> wf_facts arities F0 = true -> no_agg P = true ->
    validate arities P pl = true ->
    run_timeout I swap deadline fuel pl (init_state F0) = Some (b, st) ->
    (forall M', incl F0 M' -> closed I P M' -> incl (rows st) M')
    /\ (exists added, rows st = F0 ++ added /\ NoDup added /\ (forall f, In f added -> ~ In f F0))
    /\ wf_facts arities (rows st) = true
    /\ (b = true -> least_model I P F0 (rows st)).

(* a clock that never fires: run_timeout is run (this is run() = run_timeout(Duration::MAX)) *)
Definition run_timeout_never_stmt (I : interp) (swap : list tuple -> list tuple -> bool) : Prop :=
  forall fuel pl st, run_timeout I swap (fun _ => false) fuel pl st = option_map (fun st' => (true, st')) (run_plan I swap fuel pl st).
