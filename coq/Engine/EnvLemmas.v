(* Lemmas about positional environments: lookup/bind, domains, extension order,
   canonical form (no trailing None), monotonicity of evaluation. *)
From Coq Require Import List ZArith Bool Arith Lia.
From AV Require Import Engine.Core.
From AV Require Import Engine.Sem.
From AV Require Import Engine.Eval.
From AV Require Import Engine.Validate.
Import ListNotations.
Open Scope Z_scope.

(* ---------- lookup / bind ---------- *)
Lemma lookup_nil : forall x, lookup [] x = None.
Proof. intros x; unfold lookup; destruct x; reflexivity. Qed.

Lemma lookup_bind_eq : forall x v e, lookup (bind x v e) x = Some v.
Proof.
  unfold lookup. induction x as [|n IH]; intros v e; destruct e as [|o e']; cbn; auto.
Qed.

Lemma lookup_bind_neq : forall x y v e, x <> y -> lookup (bind x v e) y = lookup e y.
Proof.
  unfold lookup. induction x as [|n IH]; intros y v e Hxy; destruct e as [|o e']; destruct y as [|m]; cbn; auto;
    try congruence.
  - destruct m; reflexivity.
  - rewrite IH by congruence. destruct m; reflexivity.
Qed.

Lemma bind_not_nil : forall x v e, bind x v e <> [].
Proof. intros x v e; destruct x; destruct e; cbn; congruence. Qed.

(* ---------- boolean domain ---------- *)
Definition bound (e : env) (x : var) : bool := match lookup e x with Some _ => true | None => false end.
Definition dom (e : env) (B : list var) : Prop := forall x, bound e x = memv x B.

Lemma memv_In : forall x B, memv x B = true <-> In x B.
Proof.
  intros x B; unfold memv; rewrite existsb_exists; split.
  - intros [y [Hy He]]. apply Nat.eqb_eq in He; subst; auto.
  - intros H; exists x; split; auto. apply Nat.eqb_refl.
Qed.

Lemma memv_cons : forall x y B, memv x (y :: B) = Nat.eqb x y || memv x B.
Proof. reflexivity. Qed.

Lemma memv_app : forall x A B, memv x (A ++ B) = memv x A || memv x B.
Proof. intros; unfold memv; apply existsb_app. Qed.

Lemma subv_In : forall xs B, subv xs B = true <-> forall x, In x xs -> memv x B = true.
Proof. intros; unfold subv; apply forallb_forall. Qed.

Lemma dom_nil : dom [] [].
Proof. intros x; unfold bound; rewrite lookup_nil; reflexivity. Qed.

Lemma bound_bind : forall e x v y, bound (bind x v e) y = Nat.eqb y x || bound e y.
Proof.
  intros e x v y; unfold bound. destruct (Nat.eqb y x) eqn:E.
  - apply Nat.eqb_eq in E; subst. rewrite lookup_bind_eq; reflexivity.
  - apply Nat.eqb_neq in E. rewrite lookup_bind_neq by congruence. reflexivity.
Qed.

Lemma dom_bind : forall e B x v, dom e B -> dom (bind x v e) (x :: B).
Proof. intros e B x v H y. rewrite bound_bind, memv_cons, H; reflexivity. Qed.

Lemma dom_lookup_none : forall e B x, dom e B -> memv x B = false -> lookup e x = None.
Proof. intros e B x H Hm. specialize (H x). unfold bound in H. rewrite Hm in H. destruct (lookup e x); congruence. Qed.

Lemma dom_lookup_some : forall e B x, dom e B -> memv x B = true -> exists v, lookup e x = Some v.
Proof. intros e B x H Hm. specialize (H x). unfold bound in H. rewrite Hm in H. destruct (lookup e x); try congruence; eauto. Qed.

(* ---------- extension order ---------- *)
Definition le (e e' : env) : Prop := forall x v, lookup e x = Some v -> lookup e' x = Some v.

Lemma le_refl : forall e, le e e.
Proof. intros e x v H; exact H. Qed.

Lemma le_trans : forall a b c, le a b -> le b c -> le a c.
Proof. intros a b c H1 H2 x v H; auto. Qed.

Lemma le_bind : forall e x v, lookup e x = None -> le e (bind x v e).
Proof.
  intros e x v Hn y w Hy. destruct (Nat.eq_dec x y) as [->|Hne].
  - congruence.
  - rewrite lookup_bind_neq; auto.
Qed.

Lemma le_bind_l : forall e e' x v, le e e' -> lookup e' x = Some v -> le (bind x v e) e'.
Proof.
  intros e e' x v Hle Hx y w Hy. destruct (Nat.eq_dec x y) as [->|Hne].
  - rewrite lookup_bind_eq in Hy. congruence.
  - rewrite lookup_bind_neq in Hy; auto.
Qed.

(* ---------- canonical environments: no trailing None ---------- *)
Fixpoint canon (e : env) : Prop :=
  match e with [] => True | o :: e' => canon e' /\ (e' = [] -> o <> None) end.

Lemma canon_bind : forall x v e, canon e -> canon (bind x v e).
Proof.
  induction x as [|n IH]; intros v e Hc; destruct e as [|o e']; cbn in *.
  - split; auto; congruence.
  - destruct Hc as [Hc _]; split; auto; congruence.
  - split. apply IH; exact I. intros H; exfalso; eapply bind_not_nil; eauto.
  - destruct Hc as [Hc _]; split. apply IH; auto. intros H; exfalso; eapply bind_not_nil; eauto.
Qed.

Lemma canon_all_none : forall e, canon e -> (forall x, lookup e x = None) -> e = [].
Proof.
  induction e as [|o e IH]; intros Hc Hn; auto.
  cbn in Hc; destruct Hc as [Hc Ho].
  assert (e = []) as He.
  { apply IH; auto. intros x. specialize (Hn (S x)). exact Hn. }
  specialize (Hn O). unfold lookup in Hn; cbn in Hn. exfalso; apply Ho; auto.
Qed.

Lemma canon_ext : forall e e', canon e -> canon e' -> (forall x, lookup e x = lookup e' x) -> e = e'.
Proof.
  induction e as [|o e IH]; intros e' Hc Hc' Hx.
  - symmetry; apply canon_all_none; auto. intros x; rewrite <- Hx; apply lookup_nil.
  - destruct e' as [|o' e'].
    + apply canon_all_none; auto. intros x; rewrite Hx; apply lookup_nil.
    + cbn in Hc, Hc'. destruct Hc as [Hc _], Hc' as [Hc' _]. f_equal.
      * exact (Hx O).
      * apply IH; auto. intros x; exact (Hx (S x)).
Qed.

Lemma le_antisym : forall e e', canon e -> canon e' -> le e e' -> le e' e -> e = e'.
Proof.
  intros e e' Hc Hc' H1 H2. apply canon_ext; auto. intros x.
  destruct (lookup e x) as [v|] eqn:E1.
  - symmetry; apply H1; auto.
  - destruct (lookup e' x) as [w|] eqn:E2; auto. apply H2 in E2. congruence.
Qed.

(* ---------- evaluation: definedness, monotonicity, locality ---------- *)
Section WithI.
Variable I : interp.

Lemma eval_vars_defined : forall e B xs, dom e B -> subv xs B = true -> exists vs, eval_vars e xs = Some vs.
Proof.
  intros e B xs Hd. induction xs as [|x xs IH]; intros Hs; cbn in *.
  - eauto.
  - apply andb_true_iff in Hs; destruct Hs as [Hx Hs].
    destruct (dom_lookup_some _ _ _ Hd Hx) as [v Hv]. destruct (IH Hs) as [vs Hvs].
    rewrite Hv, Hvs; eauto.
Qed.

Lemma eval_vars_le : forall e e' xs vs, le e e' -> eval_vars e xs = Some vs -> eval_vars e' xs = Some vs.
Proof.
  intros e e' xs; induction xs as [|x xs IH]; intros vs Hle H; cbn in *; auto.
  destruct (lookup e x) as [v|] eqn:Ex; try discriminate.
  destruct (eval_vars e xs) as [ws|] eqn:Ev; try discriminate.
  rewrite (Hle _ _ Ex), (IH _ Hle eq_refl). exact H.
Qed.

Lemma eval_vars_agree : forall e e0 xs, (forall x, In x xs -> lookup e0 x = lookup e x) -> eval_vars e0 xs = eval_vars e xs.
Proof.
  intros e e0 xs; induction xs as [|x xs IH]; intros H; cbn; auto.
  rewrite H by (left; auto). rewrite IH; auto. intros y Hy; apply H; right; auto.
Qed.

Lemma eval_term_defined : forall e B t, dom e B -> subv (term_vars t) B = true -> exists v, eval_term I e t = Some v.
Proof.
  intros e B t Hd Hs; destruct t as [x|c|f xs]; cbn in *.
  - rewrite andb_true_r in Hs. eapply dom_lookup_some; eauto.
  - eauto.
  - destruct (eval_vars_defined _ _ _ Hd Hs) as [vs Hvs]. rewrite Hvs; cbn; eauto.
Qed.

Lemma eval_term_le : forall e e' t v, le e e' -> eval_term I e t = Some v -> eval_term I e' t = Some v.
Proof.
  intros e e' t v Hle H; destruct t as [x|c|f xs]; cbn in *; auto.
  destruct (eval_vars e xs) as [vs|] eqn:Ev; cbn in H; try discriminate.
  rewrite (eval_vars_le _ _ _ _ Hle Ev). exact H.
Qed.

Lemma eval_term_agree : forall e e0 t, (forall x, In x (term_vars t) -> lookup e0 x = lookup e x) ->
  eval_term I e0 t = eval_term I e t.
Proof.
  intros e e0 t H; destruct t as [x|c|f xs]; cbn in *; auto.
  rewrite (eval_vars_agree e e0 xs H). reflexivity.
Qed.

Lemma eval_terms_le : forall e e' ts vs, le e e' -> eval_terms I e ts = Some vs -> eval_terms I e' ts = Some vs.
Proof.
  intros e e' ts; induction ts as [|t ts IH]; intros vs Hle H; cbn in *; auto.
  destruct (eval_term I e t) as [v|] eqn:Et; try discriminate.
  destruct (eval_terms I e ts) as [ws|] eqn:Ets; try discriminate.
  rewrite (eval_term_le _ _ _ _ Hle Et), (IH _ Hle eq_refl). exact H.
Qed.

End WithI.

(* ---------- tuples ---------- *)
Lemma zlist_eqb_eq : forall a b, zlist_eqb a b = true <-> a = b.
Proof.
  induction a as [|x a IH]; intros b; destruct b as [|y b]; cbn; split; intros H; try congruence; auto.
  - apply andb_true_iff in H; destruct H as [H1 H2]. apply Z.eqb_eq in H1. apply IH in H2. congruence.
  - inversion H; subst. rewrite Z.eqb_refl. cbn. apply IH; auto.
Qed.

Lemma mem_tuple_In : forall t l, mem_tuple t l = true <-> In t l.
Proof.
  intros t l; unfold mem_tuple; rewrite existsb_exists; split.
  - intros [y [Hy He]]. apply zlist_eqb_eq in He; subst; auto.
  - intros H; exists t; split; auto. apply zlist_eqb_eq; auto.
Qed.

Lemma dedup_tuples_In : forall t l, In t (dedup_tuples l) <-> In t l.
Proof.
  intros t l; induction l as [|a l IH]; cbn; [tauto|].
  destruct (mem_tuple a l) eqn:E.
  - rewrite IH. apply mem_tuple_In in E. split; auto. intros [->|H]; auto.
  - cbn. rewrite IH. tauto.
Qed.

Lemma nats_eqb_eq : forall a b, nats_eqb a b = true -> a = b.
Proof.
  induction a as [|x a IH]; intros b; destruct b as [|y b]; cbn; intros H; try congruence; auto.
  apply andb_true_iff in H; destruct H as [H1 H2]. apply Nat.eqb_eq in H1. apply IH in H2. congruence.
Qed.
