(* The parallel engine (ascent_par!, C02 / C05): one iteration of an SCC is executed by several workers.
   Reads of total / delta are frozen during the iteration, so what differs from the serial engine is
   (a) which worker derives which head facts and in which order (rayon's split of the iteration space,
       inter-rule parallelism, hash-map traversal order) and
   (b) the interleaving of the workers' head updates, each made of atomic steps:
         contains(total) / contains(delta)   (frozen reads)
         insert_if_not_present(new, f)        (atomic: one DashMap entry operation; returns whether f was absent)
         push row; insert into the other indices of new; __changed.store(true)   (only after a successful insert)
   A schedule is a list of worker numbers; each occurrence lets that worker perform its next atomic step. *)
From Coq Require Import List ZArith Bool Arith Permutation.
From AV Require Import Engine.Core Engine.Sem Engine.Eval.
Import ListNotations.

Record worker := { todo : list fact; pending : option fact }.
Record pstate := { pN : list fact; pR : list fact; pws : list worker; pchanged : bool }.

Fixpoint set_nth {A} (i : nat) (x : A) (l : list A) : list A :=
  match i, l with
  | _, [] => []
  | O, _ :: l' => x :: l'
  | S n, y :: l' => y :: set_nth n x l'
  end.

Definition step_worker (T D : list fact) (st : pstate) (i : nat) : pstate :=
  match nth_error (pws st) i with
  | None => st
  | Some w =>
      match pending w with
      | Some f =>     (* the insert succeeded earlier: push the row, update the other indices, set __changed *)
          {| pN := pN st; pR := pR st ++ [f]; pws := set_nth i {| todo := todo w; pending := None |} (pws st); pchanged := true |}
      | None =>
          match todo w with
          | [] => st
          | f :: rest =>
              if mem_fact f T || mem_fact f D then
                {| pN := pN st; pR := pR st; pws := set_nth i {| todo := rest; pending := None |} (pws st); pchanged := pchanged st |}
              else if mem_fact f (pN st) then   (* insert_if_not_present returns false: another worker (or this one) won *)
                {| pN := pN st; pR := pR st; pws := set_nth i {| todo := rest; pending := None |} (pws st); pchanged := pchanged st |}
              else
                {| pN := pN st ++ [f]; pR := pR st; pws := set_nth i {| todo := rest; pending := Some f |} (pws st); pchanged := pchanged st |}
          end
      end
  end.

Definition run_sched (T D : list fact) (st : pstate) (sched : list nat) : pstate := fold_left (step_worker T D) sched st.
Definition worker_done (w : worker) : bool := match todo w, pending w with [], None => true | _, _ => false end.
Definition finished (st : pstate) : bool := forallb worker_done (pws st).
Definition par_init (R : list fact) (work : list (list fact)) : pstate :=
  {| pN := []; pR := R; pws := map (fun l => {| todo := l; pending := None |}) work; pchanged := false |}.

Section ParEngine.
Variable I : interp.
Variable swap_oracle : list tuple -> list tuple -> bool.

(* one parallel iteration: the derived head facts are distributed over the workers in any way (as a set: the
   traversal may also visit an index entry in another order or reach a fact through another path), the workers'
   atomic steps are interleaved by any schedule that lets every worker finish *)
Definition par_iteration (sc : pscc) (S T D R N R' : list fact) (changed : bool) : Prop :=
  exists work sched,
    (forall f, In f (concat work) <-> In f (flat_map (eval_variant I swap_oracle (contents S T D (s_dyn sc))) (s_vars sc)))
    /\ let st' := run_sched T D (par_init R work) sched in
       finished st' = true /\ N = pN st' /\ R' = pR st' /\ changed = pchanged st'.

Inductive par_loop (sc : pscc) (S : list fact) : list fact -> list fact -> list fact -> list fact -> list fact -> Prop :=
| par_loop_exit T D R N R' : par_iteration sc S T D R N R' false -> par_loop sc S T D R (T ++ D) R'
| par_loop_step T D R N R' Tf Rf : par_iteration sc S T D R N R' true -> par_loop sc S (T ++ D) N R' Tf Rf -> par_loop sc S T D R Tf Rf.

Definition par_run_scc (sc : pscc) (st st' : state) : Prop :=
  let D0 := filter (fact_dyn (s_dyn sc)) (stored st) in
  let S := filter (fun f => negb (fact_dyn (s_dyn sc) f)) (stored st) in
  if s_loop sc then exists T R, par_loop sc S [] D0 (rows st) T R /\ st' = {| rows := R; stored := S ++ T |}
  else exists N R b, par_iteration sc S [] D0 (rows st) N R b /\ st' = {| rows := R; stored := S ++ (D0 ++ N) |}.

Inductive par_run_sccs : plan -> state -> state -> Prop :=
| par_run_nil st : par_run_sccs [] st st
| par_run_cons sc pl st st1 st2 : par_run_scc sc st st1 -> par_run_sccs pl st1 st2 -> par_run_sccs (sc :: pl) st st2.

Definition par_run_plan (pl : plan) (st st' : state) : Prop := par_run_sccs pl (update_indices st) st'.
End ParEngine.
