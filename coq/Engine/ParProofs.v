(* C02: the parallel engine (ParStep.v) computes the least model under every distribution
   of the work and every schedule.  One parallel iteration satisfies the same set-level
   specification as the serial one (ParSched.run_sched_spec); the stratum invariant of
   Strata.v and the cross-SCC invariant of SemiNaive.v are re-run over the inductive
   par_loop / par_run_sccs. *)
From Coq Require Import List ZArith Bool Arith Lia Permutation.
From AV Require Import Engine.Core Engine.Sem Engine.Eval Engine.Validate Engine.Naive Engine.Interface Engine.ParStep.
From AV Require Import Engine.InterfacePar Engine.NaiveLemmas Engine.Strata Engine.SemiNaive Engine.ParSched.
Import ListNotations.
Local Open Scope nat_scope.

Theorem par_iteration_serial : par_iteration_serial_stmt.
Proof. exact par_iteration_serial_holds. Qed.

Theorem par_progress : par_progress_stmt.
Proof. exact par_progress_holds. Qed.

(* ---------- the set-level specification of an iteration ---------- *)
Definition IterSpec (I : interp) (swap : list tuple -> list tuple -> bool) (sc : pscc)
           (S T D R N R' : list fact) : Prop :=
  NoDup N
  /\ (exists A, R' = R ++ A /\ Permutation A N)
  /\ (forall f, In f N ->
        (exists v, In v (s_vars sc) /\ In f (eval_variant I swap (contents S T D (s_dyn sc)) v))
        /\ ~ In f T /\ ~ In f D)
  /\ (forall v f, In v (s_vars sc) -> In f (eval_variant I swap (contents S T D (s_dyn sc)) v) ->
        In f T \/ In f D \/ In f N).

Lemma par_iteration_spec : forall I swap sc S T D R N R' b,
  par_iteration I swap sc S T D R N R' b -> IterSpec I swap sc S T D R N R' /\ b = negb (is_nil N).
Proof.
  intros I swap sc S T D R N R' b [work [sched [Hw Hrest]]]. cbv zeta in Hrest.
  destruct Hrest as [Hfin [-> [-> ->]]].
  destruct (run_sched_spec T D R work sched Hfin) as [Hnd [Hmem [HA Hch]]].
  split; [|exact Hch]. split; [exact Hnd|]. split; [exact HA|]. split.
  - intros f Hf. apply Hmem in Hf as [Hf [HnT HnD]]. split; [|split; assumption].
    apply Hw in Hf. apply in_flat_map in Hf. exact Hf.
  - intros v f Hv Hf. assert (Hin : In f (concat work)).
    { apply Hw. apply in_flat_map. exists v. split; assumption. }
    destruct (in_dec (fun x y => match Bool.bool_dec (fact_eqb x y) true with
                                 | left e => left (proj1 (fact_eqb_eq x y) e)
                                 | right n => right (fun e => n (proj2 (fact_eqb_eq x y) e)) end) f T) as [HT | HT];
      [left; exact HT|].
    destruct (mem_fact f D) eqn:HD; [right; left; apply mem_fact_In; exact HD|].
    right. right. apply Hmem. split; [exact Hin|]. split; [exact HT | apply mem_fact_false; exact HD].
Qed.

Section SccP.
Variable I : interp.
Variable swap : list tuple -> list tuple -> bool.
Hypothesis Hspec : eval_variant_spec_stmt I swap.
Variable arities : list (rel * nat).
Variable P : list rule.
Hypothesis Hfun : arities_functional arities.
Hypothesis Hnoagg : no_agg P = true.
Variable sc : pscc.
Hypothesis Hok : scc_ok arities P sc = true.
Variable S : list fact.
Variable R0 : list fact.
Hypothesis HwfS : forall f, In f S -> wf_fact arities f = true.
Hypothesis HS_R0 : incl S R0.

Let dyn := s_dyn sc.
Let hr := scc_head_rels P sc.

Lemma step_inv_g : forall T D R N R',
  Inv' I arities P sc R0 (T ++ D) R -> IterSpec I swap sc S T D R N R' ->
  Inv' I arities P sc R0 ((T ++ D) ++ N) R'.
Proof.
  intros T D R N R' Hinv Hit. unfold Inv' in Hinv. cbv zeta in Hinv. fold dyn in Hinv. fold hr in Hinv.
  destruct Hinv as [Hwf [Hidx [[A [HR [HndA HA]]] Hsnd]]].
  destruct Hit as [HndN [[A1 [HR' Hp1]] [HN _]]]. fold dyn in HN.
  assert (HA1N : forall f, In f A1 <-> In f N).
  { intros f. split; [apply (Permutation_in f Hp1) | apply (Permutation_in f (Permutation_sym Hp1))]. }
  assert (HndA1 : NoDup A1) by (apply (Permutation_NoDup (Permutation_sym Hp1) HndN)).
  assert (HNp : forall f, In f N -> In (fst f) hr /\ wf_fact arities f = true
                 /\ forall M, closed I P M -> incl R0 M -> In f M).
  { intros f Hf. destruct (HN f Hf) as [[v [Hv Hev]] _].
    apply (eval_in_derive I swap Hspec arities P Hfun Hnoagg sc Hok S HwfS T D v f Hwf Hv) in Hev.
    destruct (variant_fact_props I arities P Hnoagg sc Hok S T D v f Hv Hev) as [H1 H2].
    split; [exact H1|]. split; [exact H2|].
    intros M Hcl HM. assert (HRM : incl R M) by (apply Hsnd; assumption).
    assert (HX : incl (T ++ D) M). { intros g Hg. apply HRM. apply Hidx. exact Hg. }
    apply (variant_fact_sound I arities P Hnoagg sc Hok S T D v f M Hv Hcl).
    - intros g Hg. apply HM. apply HS_R0. exact Hg.
    - intros g Hg. apply HX. apply in_or_app. left. exact Hg.
    - intros g Hg. apply HX. apply in_or_app. right. exact Hg.
    - exact Hev. }
  assert (HNnot : forall f, In f N -> ~ In f (T ++ D)).
  { intros f Hf Hin. destruct (HN f Hf) as [_ [H1 H2]]. apply in_app_or in Hin as [Hin | Hin]; auto. }
  assert (Hdynhr : forall f, In (fst f) hr -> fact_dyn dyn f = true).
  { intros f Hf. unfold fact_dyn. apply (hr_dyn arities P sc Hok). exact Hf. }
  unfold Inv'. cbv zeta. fold dyn. fold hr. split; [|split; [|split]].
  - intros f Hf. apply in_app_or in Hf as [Hf | Hf]; [apply Hwf; exact Hf | apply HNp; exact Hf].
  - intros f. rewrite HR'. split.
    + intros Hf. apply in_app_or in Hf as [Hf | Hf].
      * apply Hidx in Hf as [H1 H2]. split; [apply in_or_app; left; exact H1 | exact H2].
      * split; [apply in_or_app; right; apply HA1N; exact Hf|]. apply Hdynhr. apply HNp. exact Hf.
    + intros [Hf Hd]. apply in_app_or in Hf as [Hf | Hf]; apply in_or_app.
      * left. apply Hidx. split; assumption.
      * right. apply HA1N. exact Hf.
  - exists (A ++ A1). split; [rewrite HR', HR, app_assoc; reflexivity|]. split.
    + apply NoDup_app_intro; [exact HndA | exact HndA1 |].
      intros f HfA HfA1. apply HA1N in HfA1. apply (HNnot f HfA1). apply Hidx. split.
      * rewrite HR. apply in_or_app. right. exact HfA.
      * apply Hdynhr. apply HA. exact HfA.
    + intros f Hf. apply in_app_or in Hf as [Hf | Hf]; [apply HA; exact Hf|]. apply HA1N in Hf.
      split; [|apply HNp; exact Hf].
      intro Hin. apply (HNnot f Hf). apply Hidx. split.
      * rewrite HR. apply in_or_app. left. exact Hin.
      * apply Hdynhr. apply HNp. exact Hf.
  - intros M Hcl HM. rewrite HR'. apply incl_app; [apply Hsnd; assumption|].
    intros f Hf. apply HA1N in Hf. apply HNp; assumption.
Qed.

Lemma step_sn_g : forall T D R N R',
  (forall g, In g (T ++ D) -> wf_fact arities g = true) ->
  SN I P sc S T D -> IterSpec I swap sc S T D R N R' -> FullClosed I P sc S (T ++ D) ((T ++ D) ++ N).
Proof.
  intros T D R N R' Hwf Hsn Hit. unfold FullClosed. cbv zeta. fold dyn. intros j r f Hj Hr Hf.
  destruct Hit as [_ [_ [_ Hcov]]]. fold dyn in Hcov.
  pose proof (rule_no_agg P Hnoagg j r Hr) as Hna.
  unfold derive_rule in Hf. apply in_heads_of_envs in Hf as [e [h [He [Hh Hev]]]].
  destruct (extract_assignment I S T D dyn (body r) [] e Hna He) as [a [Hlen Ha]].
  assert (Hcase : (has_delta a = true \/ ndyn_items dyn (body r) = 0)
                  \/ (has_delta a = false /\ ndyn_items dyn (body r) <> 0)).
  { destruct (has_delta a); [left; left; reflexivity|].
    destruct (Nat.eq_dec (ndyn_items dyn (body r)) 0) as [Hz | Hz]; [left; right; exact Hz | right; auto]. }
  destruct Hcase as [Hc | [Hnd Hnz]].
  - destruct (cover_variant arities P Hnoagg sc Hok j r a Hj Hr Hlen Hc) as [v [Hv [Hvj Hadm]]].
    destruct (variant_ok_unpack arities P Hnoagg sc v (scc_ok_variant arities P sc Hok v Hv))
      as [r' [Hr' [Hitm [Hhd _]]]].
    rewrite Hvj, Hr in Hr'. injection Hr' as <-.
    assert (Hdv : In f (derive_variant I (contents S T D dyn) dyn v)).
    { unfold derive_variant. rewrite Hitm, Hhd. apply in_heads_of_envs. exists e, h.
      split; [|split; assumption]. revert Ha. apply admits_incl; assumption. }
    apply (eval_in_derive I swap Hspec arities P Hfun Hnoagg sc Hok S HwfS T D v f Hwf Hv) in Hdv.
    destruct (Hcov v f Hv Hdv) as [Hc' | [Hc' | Hc']]; apply in_or_app.
    + left. apply in_or_app. left. exact Hc'.
    + left. apply in_or_app. right. exact Hc'.
    + right. exact Hc'.
  - apply in_or_app. left. apply (Hsn j r f Hj Hr Hnz). unfold derive_rule. apply in_heads_of_envs.
    exists e, h. split; [|split; assumption]. revert Ha. apply no_delta_reads_total; assumption.
Qed.

Lemma nil_of_is_nil : forall (N : list fact), false = negb (is_nil N) -> N = [].
Proof. intros [|f N] H; [reflexivity | discriminate]. Qed.

Lemma par_loop_post : forall T D R T' R',
  par_loop I swap sc S T D R T' R' ->
  Inv' I arities P sc R0 (T ++ D) R -> SN I P sc S T D -> Post I arities P sc S R0 T' R'.
Proof.
  intros T D R T' R' H. induction H as [T D R N R' Hit | T D R N R' Tf Rf Hit _ IH]; intros Hinv Hsn.
  - apply par_iteration_spec in Hit as [Hit Hb]. apply nil_of_is_nil in Hb. subst N.
    pose proof (step_inv_g _ _ _ _ _ Hinv Hit) as Hi2.
    assert (Hwf : forall g, In g (T ++ D) -> wf_fact arities g = true).
    { unfold Inv' in Hinv. cbv zeta in Hinv. apply Hinv. }
    pose proof (step_sn_g _ _ _ _ _ Hwf Hsn Hit) as Hfc. rewrite app_nil_r in Hi2, Hfc.
    unfold Post. cbv zeta. split; assumption.
  - apply par_iteration_spec in Hit as [Hit _].
    assert (Hwf : forall g, In g (T ++ D) -> wf_fact arities g = true).
    { unfold Inv' in Hinv. cbv zeta in Hinv. apply Hinv. }
    apply IH; [eapply step_inv_g; eassumption|].
    unfold SN. cbv zeta. intros j r f Hj Hr _ Hf.
    exact (step_sn_g _ _ _ _ _ Hwf Hsn Hit j r f Hj Hr Hf).
Qed.

Lemma par_once_post : forall D R N R',
  s_loop sc = false -> Inv' I arities P sc R0 ([] ++ D) R -> IterSpec I swap sc S [] D R N R' ->
  Post I arities P sc S R0 (D ++ N) R'.
Proof.
  intros D R N R' Hl Hinv Hit. pose proof (step_inv_g _ _ _ _ _ Hinv Hit) as Hi2.
  assert (Hwf : forall g, In g ([] ++ D) -> wf_fact arities g = true).
  { unfold Inv' in Hinv. cbv zeta in Hinv. apply Hinv. }
  pose proof (step_sn_g _ _ _ _ _ Hwf (sn_init I P sc S D) Hit) as Hfc. cbn [app] in Hi2, Hfc.
  unfold Post. cbv zeta. split; [exact Hi2|].
  unfold FullClosed in *. cbv zeta in *. fold dyn in Hfc. fold dyn.
  intros j r f Hj Hr Hf. apply (Hfc j r f Hj Hr).
  destruct (scc_ok_rule arities P sc Hok j Hj) as [r' [Hr' [_ Hz]]]. rewrite Hr in Hr'. injection Hr' as <-.
  destruct Hz as [Hz | Hz]; [congruence|]. fold dyn in Hz.
  revert Hf. apply derive_rule_mono.
  - unfold no_agg_rule. eapply rule_no_agg; [exact Hnoagg | exact Hr].
  - intros q Hq. rewrite body_clause_rels_eq in Hq. unfold sdb. rewrite (ndyn_zero_static dyn _ q Hz Hq).
    apply incl_refl.
Qed.
End SccP.

(* ---------- specification of par_run_scc: the conclusion of Strata.run_scc_spec ---------- *)
Definition scc_result (I : interp) (arities : list (rel * nat)) (P : list rule) (sc : pscc) (st st' : state) : Prop :=
  (forall f, In f (stored st') <-> In f (rows st'))
  /\ (forall f, In f (rows st') -> wf_fact arities f = true)
  /\ (exists A, rows st' = rows st ++ A /\ NoDup A
        /\ forall f, In f A -> ~ In f (rows st) /\ In (fst f) (scc_head_rels P sc))
  /\ (forall M, closed I P M -> incl (rows st) M -> incl (rows st') M)
  /\ (forall j r f, In j (rules_of_scc sc) -> nth_error P j = Some r ->
        In f (derive_rule I (db_of (rows st')) r) -> In f (rows st')).

Theorem par_run_scc_spec : forall I swap arities P sc st st',
  eval_variant_spec_stmt I swap -> arities_functional arities -> no_agg P = true ->
  scc_ok arities P sc = true ->
  (forall f, In f (stored st) <-> In f (rows st)) ->
  (forall f, In f (rows st) -> wf_fact arities f = true) ->
  par_run_scc I swap sc st st' -> scc_result I arities P sc st st'.
Proof.
  intros I swap arities P sc st st' Hspec Hfun Hna Hok Hsr Hwf Hrun.
  set (dyn := s_dyn sc) in *.
  set (D0 := filter (fact_dyn dyn) (stored st)).
  set (S := filter (fun f => negb (fact_dyn dyn f)) (stored st)).
  assert (HwfS : forall f, In f S -> wf_fact arities f = true).
  { intros f Hf. apply filter_In in Hf as [Hf _]. apply Hwf. apply Hsr. exact Hf. }
  assert (HS_R0 : incl S (rows st)).
  { intros f Hf. apply filter_In in Hf as [Hf _]. apply Hsr. exact Hf. }
  assert (HR0_static : forall f, In f (rows st) -> fact_dyn dyn f = false -> In f S).
  { intros f Hf Hd. apply filter_In. split; [apply Hsr; exact Hf | rewrite Hd; reflexivity]. }
  assert (HD0 : forall f, In f D0 <-> In f (rows st) /\ fact_dyn dyn f = true).
  { intros f. unfold D0. rewrite filter_In, Hsr. reflexivity. }
  pose proof (inv_init I arities P sc (rows st) D0 Hwf HD0) as Hinit.
  assert (HPost : exists T', stored st' = S ++ T' /\ Post I arities P sc S (rows st) T' (rows st')).
  { unfold par_run_scc in Hrun. cbv zeta in Hrun. fold dyn in Hrun. fold D0 in Hrun. fold S in Hrun.
    destruct (s_loop sc) eqn:Hl.
    - destruct Hrun as [T' [R' [Hloop ->]]]. exists T'. split; [reflexivity|]. cbn [rows].
      apply (par_loop_post I swap Hspec arities P Hfun Hna sc Hok S (rows st) HwfS HS_R0 [] D0 (rows st) T' R' Hloop Hinit).
      apply sn_init.
    - destruct Hrun as [N [R' [b [Hit ->]]]]. exists (D0 ++ N). split; [reflexivity|]. cbn [rows].
      apply par_iteration_spec in Hit as [Hit _].
      apply (par_once_post I swap Hspec arities P Hfun Hna sc Hok S (rows st) HwfS HS_R0 D0 (rows st) N R' Hl Hinit Hit). }
  destruct HPost as [T' [Hst' HP]].
  split; [|split; [|split; [|split]]].
  - intros f. rewrite Hst'. apply (post_stored I arities P sc Hok S (rows st) HS_R0 HR0_static T' (rows st') HP).
  - apply (post_wf I arities P sc Hok S (rows st) T' (rows st') Hwf HP).
  - unfold Post, Inv' in HP. cbv zeta in HP. destruct HP as [[_ [_ [HA _]]] _]. exact HA.
  - unfold Post, Inv' in HP. cbv zeta in HP. destruct HP as [[_ [_ [_ Hs]]] _]. exact Hs.
  - apply (post_closed I arities P Hna sc Hok S (rows st) HR0_static T' (rows st') HP).
Qed.

(* ---------- across SCCs ---------- *)
Section ProgramP.
Variable I : interp.
Variable swap : list tuple -> list tuple -> bool.
Hypothesis Hspec : eval_variant_spec_stmt I swap.
Variable arities : list (rel * nat).
Variable P : list rule.
Variable pl : plan.
Hypothesis Hfun : arities_functional arities.
Hypothesis Hnoagg : no_agg P = true.
Hypothesis Hval : validate arities P pl = true.
Variable F0 : list fact.

Lemma J_step_g : forall k sc st st',
  nth_error pl k = Some sc -> J I arities P pl F0 k st -> scc_result I arities P sc st st' ->
  J I arities P pl F0 (S k) st'.
Proof.
  intros k sc st st' Hn [Hsr [Hwf [[A [HR [HndA HA]]] [Hsnd Hcl]]]]
         [Hsr' [Hwf' [[A1 [HR1 [HndA1 HA1]]] [Hsnd' Hcl']]]].
  split; [exact Hsr'|]. split; [exact Hwf'|]. split; [|split].
  - exists (A ++ A1). split; [rewrite HR1, HR, app_assoc; reflexivity|]. split.
    + apply NoDup_app_intro; [exact HndA | exact HndA1 |]. intros f Hf Hf1. destruct (HA1 f Hf1) as [Hn1 _].
      apply Hn1. rewrite HR. apply in_or_app. right. exact Hf.
    + intros f Hf. apply in_app_or in Hf as [Hf | Hf]; [apply HA; exact Hf|].
      intro Hin. destruct (HA1 f Hf) as [Hn1 _]. apply Hn1. rewrite HR. apply in_or_app. left. exact Hin.
  - intros M HclM HM. apply Hsnd'; [exact HclM|]. apply Hsnd; assumption.
  - intros j r i Hr Hi Hlt f Hf. destruct (Nat.eq_dec i k) as [-> | Hne].
    + destruct Hi as [sc' [Hn' Hin]]. rewrite Hn in Hn'. injection Hn' as <-.
      apply (Hcl' j r f Hin Hr Hf).
    + assert (Hik : i < k) by lia. rewrite HR1. apply in_or_app. left. apply (Hcl j r i Hr Hi Hik).
      revert Hf. apply derive_rule_mono.
      * unfold no_agg in Hnoagg. rewrite forallb_forall in Hnoagg. apply Hnoagg. eapply nth_error_In. exact Hr.
      * intros q Hq t Ht. apply in_db_of in Ht. apply in_db_of. rewrite HR1 in Ht.
        apply in_app_or in Ht as [Ht | Ht]; [exact Ht|]. exfalso.
        destruct (HA1 _ Ht) as [_ Hh]. cbn [fst] in Hh. unfold scc_head_rels in Hh.
        apply in_flat_map in Hh as [j' [Hj' Hh]]. destruct (nth_error P j') as [r'|] eqn:Hr'; [|destruct Hh].
        assert (Hk' : rule_scc pl j' k) by (exists sc; split; assumption).
        pose proof (strat_order arities P pl Hval j r j' r' i k q Hr Hr' Hi Hk' Hq Hh). lia.
Qed.

Lemma par_run_sccs_J : forall rest st st',
  par_run_sccs I swap rest st st' ->
  forall pre, pl = pre ++ rest -> J I arities P pl F0 (length pre) st -> J I arities P pl F0 (length pl) st'.
Proof.
  intros rest st st' H. induction H as [st | sc rest st st1 st2 H1 _ IH]; intros pre Hpl HJ.
  - assert (Hlen : length pl = length pre) by (rewrite Hpl, app_nil_r; reflexivity).
    rewrite Hlen. exact HJ.
  - assert (Hn : nth_error pl (length pre) = Some sc).
    { rewrite Hpl, nth_error_app2, Nat.sub_diag; [reflexivity | lia]. }
    apply (IH (pre ++ [sc])).
    + rewrite <- app_assoc. exact Hpl.
    + rewrite app_length. cbn [length]. replace (length pre + 1) with (S (length pre)) by lia.
      apply (J_step_g (length pre) sc st st1 Hn HJ).
      pose proof HJ as [Hsr [Hwf _]].
      apply (par_run_scc_spec I swap arities P sc st st1 Hspec Hfun Hnoagg
               (val_scc_ok arities P pl Hval _ sc Hn) Hsr Hwf H1).
Qed.
End ProgramP.

Theorem par_run_correct : forall I swap, eval_variant_spec_stmt I swap -> par_run_correct_stmt I swap.
Proof.
  intros I swap Hspec arities P pl F0 st Hfun HwfF0 Hna Hval Hrun.
  unfold par_run_plan in Hrun.
  assert (HJ0 : J I arities P pl F0 (length (@nil pscc)) (update_indices (init_state F0))).
  { unfold J, update_indices, init_state. cbn [rows stored app length]. split; [intros f; reflexivity|].
    split; [apply wf_facts_forall; exact HwfF0|]. split; [|split].
    - exists []. rewrite app_nil_r. split; [reflexivity|]. split; [constructor | intros f []].
    - intros M _ HM. exact HM.
    - intros j r i _ _ Hlt. lia. }
  pose proof (par_run_sccs_J I swap Hspec arities P pl Hfun Hna Hval F0 pl _ st Hrun [] eq_refl HJ0)
    as [_ [_ [[A [HR [Hnd HA]]] [Hsnd Hcl]]]].
  split.
  - split; [|split].
    + rewrite HR. apply incl_appl. apply incl_refl.
    + intros f [r [Hr Hf]]. apply In_nth_error in Hr as [j Hj].
      assert (Hlt : j < length P) by (apply nth_error_Some; congruence).
      destruct (val_rule_scc arities P pl Hval j Hlt) as [k Hk].
      assert (Hk' : k < length pl). { destruct Hk as [sc [Hn _]]. apply nth_error_Some. congruence. }
      apply (Hcl j r k Hj Hk Hk' f Hf).
    + intros M HM HclM. apply Hsnd; assumption.
  - exists A. auto.
Qed.

Print Assumptions par_iteration_serial.
Print Assumptions par_progress.
Print Assumptions par_run_correct.
