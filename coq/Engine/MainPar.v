(* the parallel engine theorem instantiated, and "parallel = serial" *)
From Coq Require Import List ZArith Bool Arith Permutation.
From AV Require Import Engine.Core Engine.Sem Engine.Eval Engine.Validate Engine.Naive Engine.Interface Engine.Main.
From AV Require Import Engine.EvalSpec Engine.ParStep Engine.InterfacePar Engine.ParProofs.
Import ListNotations.

Theorem par_run_correct_full : forall I swap, par_run_correct_stmt I swap.
Proof. intros I swap. apply par_run_correct. apply eval_variant_spec. Qed.

(* every parallel run (any distribution of the work over workers, any interleaving of their atomic steps, in every
   iteration of every SCC, any join-order oracle) computes the same relations as the serial run *)
Theorem par_equals_serial I swap swap' arities P pl fuel F0 st_par st_ser :
  arities_functional arities -> wf_facts arities F0 = true -> no_agg P = true -> validate arities P pl = true ->
  par_run_plan I swap pl (init_state F0) st_par ->
  run_plan I swap' fuel pl (init_state F0) = Some st_ser ->
  same_set (rows st_par) (rows st_ser).
Proof.
  intros Har Hwf Hna Hval Hp Hs.
  destruct (par_run_correct_full I swap arities P pl F0 st_par Har Hwf Hna Hval Hp) as [LMp _].
  destruct (run_plan_correct_full I swap' arities P pl fuel F0 st_ser Har Hwf Hna Hval Hs) as [LMs _].
  exact (least_model_unique I P F0 _ _ LMp LMs).
Qed.
