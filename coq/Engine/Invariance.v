(* C06, specification level: the results of a program are invariant under reordering and consistent renaming.
   Statements: Engine/InterfaceInvariance.v.  Proofs: Engine/InvarianceBase.v (head permutation, relation renaming),
   Engine/InvarianceConst.v (constants), Engine/InvarianceAlpha.v (variables), Engine/InvarianceSwap.v (body items).
   All five statements hold exactly as written (no corrected statement was needed). *)
From Coq Require Import List ZArith Bool Arith.
From AV Require Import Engine.Core.
From AV Require Import Engine.Sem.
From AV Require Import Engine.Vocab.
From AV Require Import Engine.InterfaceInvariance.
From AV Require Import Engine.InvarianceBase.
From AV Require Import Engine.InvarianceConst.
From AV Require Import Engine.InvarianceAlpha.
From AV Require Import Engine.InvarianceSwap.
Import ListNotations.
Local Open Scope Z_scope.

Theorem head_perm : head_perm_stmt.
Proof. exact head_perm_proof. Qed.

Theorem rel_rename : rel_rename_stmt.
Proof. exact rel_rename_proof. Qed.

Theorem const_rename : const_rename_stmt.
Proof. exact const_rename_proof. Qed.

Theorem alpha : alpha_stmt.
Proof. exact alpha_proof. Qed.

Theorem body_swap : body_swap_stmt.
Proof. exact body_swap_proof. Qed.

(* stronger forms that the proofs actually establish *)
Corollary alpha_eq : forall I db r (s : var -> var), (forall x y, s x = s y -> x = y) ->
  derive_rule I db (rename_rule s r) = derive_rule I db r.
Proof. intros I db r s Hs. apply derive_rule_alpha. exact Hs. Qed.

Corollary rel_rename_derive : forall I (q : rel -> rel) db db' r,
  (forall a, In a (body_rels (body r)) -> db' (q a) = db a) ->
  derive_rule I db' (rename_rel_rule q r) = map (rename_rel_fact q) (derive_rule I db r).
Proof. intros I q db db' r H. apply derive_rule_rename_rel. exact H. Qed.

(* a non-trivial instance: h(x, y+1) <-- a(x), for z in 0..3, b(y), if x < y   with the generator (variable 2)
   and the clause b(y) (variable 1) swapped, and with the variables renamed by x |-> x + 5 *)
Definition ex_db (r : rel) : list tuple :=
  match r with 0%nat => [[1]; [2]; [5]] | 1%nat => [[0]; [3]; [4]] | _ => [] end.
Definition ex_pre := [BClause 0%nat [TVar 0%nat] []].
Definition ex_b1 := BGen 2%nat 2%nat [].
Definition ex_b2 := BClause 1%nat [TVar 1%nat] [CBind 3%nat 0%nat [1%nat]].
Definition ex_post := [BCond (CIf 0%nat [0%nat; 1%nat])].
Definition ex_heads : list (rel * list term) := [(2%nat, [TVar 0%nat; TVar 3%nat; TVar 2%nat])].

Example ex_independent : independent ex_b1 ex_b2.
Proof. intros x H1 H2. cbn in H1, H2. destruct H1 as [<-|[]]. intuition discriminate. Qed.

Example ex_swap_computed :
  derive_rule std_interp ex_db {| heads := ex_heads; body := ex_pre ++ ex_b1 :: ex_b2 :: ex_post |}
    = [(2%nat, [1; 4; 0]); (2%nat, [1; 5; 0]); (2%nat, [1; 4; 1]); (2%nat, [1; 5; 1]); (2%nat, [1; 4; 2]); (2%nat, [1; 5; 2]);
       (2%nat, [2; 4; 0]); (2%nat, [2; 5; 0]); (2%nat, [2; 4; 1]); (2%nat, [2; 5; 1]); (2%nat, [2; 4; 2]); (2%nat, [2; 5; 2])]
  /\ derive_rule std_interp ex_db {| heads := ex_heads; body := ex_pre ++ ex_b2 :: ex_b1 :: ex_post |}
    = [(2%nat, [1; 4; 0]); (2%nat, [1; 4; 1]); (2%nat, [1; 4; 2]); (2%nat, [1; 5; 0]); (2%nat, [1; 5; 1]); (2%nat, [1; 5; 2]);
       (2%nat, [2; 4; 0]); (2%nat, [2; 4; 1]); (2%nat, [2; 4; 2]); (2%nat, [2; 5; 0]); (2%nat, [2; 5; 1]); (2%nat, [2; 5; 2])]
  /\ derive_rule std_interp ex_db (rename_rule (fun x => x + 5)%nat {| heads := ex_heads; body := ex_pre ++ ex_b1 :: ex_b2 :: ex_post |})
    = derive_rule std_interp ex_db {| heads := ex_heads; body := ex_pre ++ ex_b1 :: ex_b2 :: ex_post |}.
Proof. vm_compute. repeat split. Qed.

Print Assumptions head_perm.
Print Assumptions rel_rename.
Print Assumptions const_rename.
Print Assumptions alpha.
Print Assumptions body_swap.
Print Assumptions alpha_eq.
Print Assumptions rel_rename_derive.
Print Assumptions ex_swap_computed.
