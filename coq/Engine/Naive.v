(* Versioned naive semantics: the bridge between the specification semantics
   (Sem.all_envs: full matching against whole relations) and the engine
   (Eval.eval_from: index lookups, unchecked variable assignment, simple-join
   traversal).  Each body clause on a dynamic relation reads the version given
   by a version vector [a] (one entry per dynamic clause, in body order);
   clauses on other relations read the Total version. *)
From Coq Require Import List ZArith Bool Arith.
From AV Require Import Engine.Core Engine.Sem Engine.Eval.
Import ListNotations.

Section Naive.
Variable I : interp.
Variable cont : rel -> version -> list tuple.
Variable dyn : list rel.

Fixpoint all_envs_a (a : list version) (items : list bitem) (e : env) : list env :=
  match items with
  | [] => [e]
  | BClause r args cs :: rest =>
      let ver := if is_dyn dyn r then hd VTotal a else VTotal in
      let a' := if is_dyn dyn r then tl a else a in
      flat_map (fun tup => match match_args I e args tup with
                           | Some e1 => match sat_conds I e1 cs with Some e2 => all_envs_a a' rest e2 | None => [] end
                           | None => [] end) (cont r ver)
  | BCond c :: rest => match sat_cond I e c with Some e' => all_envs_a a rest e' | None => [] end
  | BGen x g xs :: rest =>
      match eval_vars e xs with
      | Some vs => flat_map (fun v => all_envs_a a rest (bind x v e)) (gint I g vs)
      | None => [] end
  | BAgg out ag bound r args :: rest =>
      let matching := dedup_tuples (filter (agg_match I e args) (cont r VTotal)) in
      flat_map (fun v => all_envs_a a rest (bind_out out v e)) (aint I ag (map (agg_input bound args) matching))
  end.

Definition derive_a (a : list version) (r : rule) : list fact :=
  flat_map (fun e => filter_map (eval_head I e) (heads r)) (all_envs_a a (body r) []).
End Naive.

Definition no_agg_item (b : bitem) : bool := match b with BAgg _ _ _ _ _ => false | _ => true end.
Definition no_agg_rule (r : rule) : bool := forallb no_agg_item (body r).
Definition no_agg (P : list rule) : bool := forallb no_agg_rule P.

(* well-formed fact lists: every tuple has the declared arity *)
Definition wf_fact (arities : list (rel * nat)) (f : fact) : bool :=
  existsb (fun p => Nat.eqb (fst p) (fst f) && Nat.eqb (snd p) (length (snd f))) arities.
Definition wf_facts (arities : list (rel * nat)) (F : list fact) : bool := forallb (wf_fact arities) F.
(* a relation has one arity *)
Definition arities_functional (arities : list (rel * nat)) : Prop :=
  forall r n m, In (r, n) arities -> In (r, m) arities -> n = m.
