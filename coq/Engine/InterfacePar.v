(* Statements for the parallel engine (C02, parallel half of C05), proved in Engine/ParProofs.v *)
From Coq Require Import List ZArith Bool Arith Permutation.
From AV Require Import Engine.Core Engine.Sem Engine.Eval Engine.Validate Engine.Naive Engine.Interface Engine.ParStep.
Import ListNotations.

(* schedule independence of one iteration: for EVERY distribution of the work and EVERY interleaving that lets all
   workers finish, new holds exactly the facts the serial head update would add (each once), every one of them is
   pushed as a row exactly once, and __changed is set iff something was added *)
Definition par_iteration_serial_stmt : Prop :=
  forall T D R work sched,
    let st' := run_sched T D (par_init R work) sched in
    finished st' = true ->
    let serial := fold_left (head_update T D) (concat work) ([], R) in
    Permutation (pN st') (fst serial)
    /\ NoDup (pN st')
    /\ (exists A, pR st' = R ++ A /\ Permutation A (pN st'))
    /\ pchanged st' = negb (match pN st' with [] => true | _ => false end).

(* no deadlock in the modelled discipline: an unfinished state always has a worker that can step, and every step
   makes progress (a measure decreases), so every fair schedule finishes *)
Definition par_progress_stmt : Prop :=
  forall T D st, finished st = false -> exists i, step_worker T D st i <> st.

(* every parallel run — any distribution, any schedule, in every iteration of every SCC — computes the least model,
   keeps the input rows in place and adds each new fact exactly once: hence the same relations as the serial run *)
Definition par_run_correct_stmt (I : interp) (swap : list tuple -> list tuple -> bool) : Prop :=
  forall arities P pl F0 st,
    arities_functional arities -> wf_facts arities F0 = true -> no_agg P = true ->
    validate arities P pl = true ->
    par_run_plan I swap pl (init_state F0) st ->
    least_model I P F0 (rows st)
    /\ exists added, rows st = F0 ++ added /\ NoDup added /\ (forall f, In f added -> ~ In f F0).
