(* C06, specification level: generic list facts, head permutation and relation renaming.
   (Statements in Engine/InterfaceInvariance.v.) *)
From Coq Require Import List ZArith Bool Arith Lia Permutation.
From AV Require Import Engine.Core.
From AV Require Import Engine.Sem.
From AV Require Import Engine.Eval.
From AV Require Import Engine.Validate.
From AV Require Import Engine.Naive.
From AV Require Import Engine.Interface.
From AV Require Import Engine.NaiveLemmas.
From AV Require Import Engine.InterfaceInvariance.
Import ListNotations.
Local Open Scope nat_scope.

(* ---------- lists ---------- *)
Lemma map_flat_map : forall (A B C : Type) (f : B -> C) (g : A -> list B) l,
  map f (flat_map g l) = flat_map (fun x => map f (g x)) l.
Proof.
  intros A B C f g l. induction l as [|a l IH]; cbn [flat_map map]; [reflexivity|].
  rewrite map_app, IH. reflexivity.
Qed.

Lemma flat_map_map : forall (A B C : Type) (f : A -> B) (g : B -> list C) l,
  flat_map g (map f l) = flat_map (fun x => g (f x)) l.
Proof.
  intros A B C f g l. induction l as [|a l IH]; cbn [flat_map map]; [reflexivity|].
  rewrite IH. reflexivity.
Qed.

Lemma filter_map_ext : forall (A B : Type) (f g : A -> option B) l,
  (forall a, In a l -> f a = g a) -> filter_map f l = filter_map g l.
Proof.
  intros A B f g l H. induction l as [|a l IH]; cbn [filter_map]; [reflexivity|].
  rewrite (H a (or_introl eq_refl)), IH; [reflexivity|]. intros b Hb. apply H. right. exact Hb.
Qed.

Lemma filter_map_map : forall (A B C : Type) (f : A -> B) (g : B -> option C) l,
  filter_map g (map f l) = filter_map (fun x => g (f x)) l.
Proof.
  intros A B C f g l. induction l as [|a l IH]; cbn [filter_map map]; [reflexivity|].
  rewrite IH. reflexivity.
Qed.

Lemma map_filter_map : forall (A B C : Type) (f : B -> C) (g : A -> option B) l,
  map f (filter_map g l) = filter_map (fun x => option_map f (g x)) l.
Proof.
  intros A B C f g l. induction l as [|a l IH]; cbn [filter_map map]; [reflexivity|].
  destruct (g a) as [b|]; cbn [option_map map]; rewrite IH; reflexivity.
Qed.

(* ---------- head permutation ---------- *)
Theorem head_perm_proof : head_perm_stmt.
Proof.
  intros I db r hs' Hp f. unfold derive_rule. cbn [heads body].
  rewrite !in_heads_of_envs. split.
  - intros [e [h [He [Hh Hev]]]]. exists e, h. split; [exact He|]. split; [|exact Hev].
    eapply Permutation_in; [exact Hp | exact Hh].
  - intros [e [h [He [Hh Hev]]]]. exists e, h. split; [exact He|]. split; [|exact Hev].
    eapply Permutation_in; [apply Permutation_sym; exact Hp | exact Hh].
Qed.

(* ---------- relation renaming ---------- *)
Definition item_rels (b : bitem) : list rel :=
  match b with BClause r _ _ => [r] | BAgg _ _ _ r _ => [r] | _ => [] end.
Definition body_rels (items : list bitem) : list rel := flat_map item_rels items.
Definition rule_rels (r : rule) : list rel := map fst (heads r) ++ body_rels (body r).

Section RelRename.
Variable I : interp.
Variable q : rel -> rel.
Hypothesis q_inj : forall a b, q a = q b -> a = b.

Lemma q_eqb : forall a b, Nat.eqb (q a) (q b) = Nat.eqb a b.
Proof.
  intros a b. destruct (Nat.eqb a b) eqn:E.
  - apply Nat.eqb_eq in E. subst. apply Nat.eqb_refl.
  - apply Nat.eqb_neq. intros H. apply q_inj in H. apply Nat.eqb_neq in E. contradiction.
Qed.

Lemma all_envs_rename_rel : forall db db' items e,
  (forall a, In a (body_rels items) -> db' (q a) = db a) ->
  all_envs I db' (map (rename_rel_bitem q) items) e = all_envs I db items e.
Proof.
  intros db db' items. induction items as [|b items IH]; intros e H; [reflexivity|].
  assert (Hrest : forall e0, all_envs I db' (map (rename_rel_bitem q) items) e0 = all_envs I db items e0).
  { intros e0. apply IH. intros a Ha. apply H. unfold body_rels. cbn [flat_map]. apply in_or_app. right. exact Ha. }
  destruct b as [r args cs|c|x g xs|out a bound r args]; cbn [map rename_rel_bitem all_envs].
  - rewrite (H r) by (unfold body_rels; cbn; left; reflexivity).
    apply flat_map_ext. intros tup. destruct (match_args I e args tup) as [e1|]; [|reflexivity].
    destruct (sat_conds I e1 cs) as [e2|]; [apply Hrest | reflexivity].
  - destruct (sat_cond I e c) as [e1|]; [apply Hrest | reflexivity].
  - destruct (eval_vars e xs) as [vs|]; [|reflexivity]. apply flat_map_ext. intros v. apply Hrest.
  - rewrite (H r) by (unfold body_rels; cbn; left; reflexivity).
    apply flat_map_ext. intros v. apply Hrest.
Qed.

Lemma eval_head_rename_rel : forall e h,
  eval_head I e (q (fst h), snd h) = option_map (rename_rel_fact q) (eval_head I e h).
Proof.
  intros e h. unfold eval_head. cbn [fst snd]. destruct (eval_terms I e (snd h)) as [vs|]; reflexivity.
Qed.

Lemma derive_rule_rename_rel : forall db db' r,
  (forall a, In a (body_rels (body r)) -> db' (q a) = db a) ->
  derive_rule I db' (rename_rel_rule q r) = map (rename_rel_fact q) (derive_rule I db r).
Proof.
  intros db db' r H. unfold derive_rule. cbn [heads body rename_rel_rule].
  rewrite (all_envs_rename_rel db db' (body r) [] H). rewrite map_flat_map.
  apply flat_map_ext. intros e. rewrite filter_map_map, map_filter_map.
  apply filter_map_ext. intros h _. apply eval_head_rename_rel.
Qed.

Lemma db_of_rename_rel : forall F a, db_of (map (rename_rel_fact q) F) (q a) = db_of F a.
Proof.
  intros F a. unfold db_of. induction F as [|f F IH]; [reflexivity|].
  destruct f as [r t]. cbn [map filter rename_rel_fact fst snd]. rewrite q_eqb.
  destruct (Nat.eqb r a); cbn [map snd]; [f_equal|]; exact IH.
Qed.

(* pulling a list of facts back along q, restricted to the finitely many relations R of interest *)
Definition pull (R : list rel) (g : fact) : option fact :=
  match find (fun a => Nat.eqb (q a) (fst g)) R with Some a => Some (a, snd g) | None => None end.

Lemma pull_sound : forall R M' f, In f (filter_map (pull R) M') -> In (rename_rel_fact q f) M'.
Proof.
  intros R M' f H. apply in_filter_map in H as [g [Hg Hp]]. unfold pull in Hp.
  destruct (find (fun a => Nat.eqb (q a) (fst g)) R) as [a|] eqn:Ef; [|discriminate].
  apply find_some in Ef as [_ Ea]. apply Nat.eqb_eq in Ea. inversion Hp; subst f.
  unfold rename_rel_fact. cbn [fst snd]. rewrite Ea. destruct g; exact Hg.
Qed.

Lemma pull_complete : forall R M' f, In (fst f) R -> In (rename_rel_fact q f) M' -> In f (filter_map (pull R) M').
Proof.
  intros R M' f HR H. apply in_filter_map. exists (rename_rel_fact q f). split; [exact H|].
  unfold pull, rename_rel_fact. cbn [fst snd].
  destruct (find (fun a => Nat.eqb (q a) (q (fst f))) R) as [a|] eqn:Ef.
  - apply find_some in Ef as [_ Ea]. apply Nat.eqb_eq in Ea. apply q_inj in Ea. subst a. destruct f; reflexivity.
  - exfalso. pose proof (find_none _ _ Ef _ HR) as Hn. cbn beta in Hn. rewrite Nat.eqb_refl in Hn. discriminate.
Qed.

Lemma db_of_pull : forall R M' a, In a R -> db_of (filter_map (pull R) M') a = db_of M' (q a).
Proof.
  intros R M' a Ha. unfold db_of. induction M' as [|g M' IH]; [reflexivity|].
  destruct g as [r t]. cbn [filter_map filter]. unfold pull at 1. cbn [fst snd].
  destruct (find (fun a0 => Nat.eqb (q a0) r) R) as [a0|] eqn:Ef.
  - apply find_some in Ef as [_ Ea]. apply Nat.eqb_eq in Ea.
    cbn [filter fst]. rewrite <- Ea, q_eqb.
    destruct (Nat.eqb a0 a); cbn [map snd]; rewrite IH; reflexivity.
  - pose proof (find_none _ _ Ef _ Ha) as Hn. cbn beta in Hn. rewrite Nat.eqb_sym in Hn. rewrite Hn. exact IH.
Qed.

Theorem rel_rename_least : forall P F0 M,
  least_model I P F0 M ->
  least_model I (map (rename_rel_rule q) P) (map (rename_rel_fact q) F0) (map (rename_rel_fact q) M).
Proof.
  intros P F0 M [Hincl [Hclosed Hleast]]. split; [|split].
  - apply incl_map. exact Hincl.
  - intros f [r' [Hr' Hf]]. apply in_map_iff in Hr' as [r [<- Hr]].
    rewrite (derive_rule_rename_rel (db_of M) (db_of (map (rename_rel_fact q) M)) r) in Hf
      by (intros a _; apply db_of_rename_rel).
    apply in_map_iff in Hf as [f0 [<- Hf0]]. apply in_map. apply Hclosed. exists r. split; assumption.
  - intros M' HF0 Hcl.
    set (R := map fst F0 ++ flat_map rule_rels P).
    set (N := filter_map (pull R) M').
    assert (HN : incl M N).
    { apply Hleast.
      - intros f Hf. apply pull_complete.
        + apply in_or_app. left. apply in_map. exact Hf.
        + apply HF0. apply in_map. exact Hf.
      - intros f [r [Hr Hf]].
        assert (HrR : incl (rule_rels r) R).
        { intros a Ha. apply in_or_app. right. apply in_flat_map. exists r. split; assumption. }
        apply pull_complete.
        + unfold derive_rule in Hf. apply in_heads_of_envs in Hf as [e [h [_ [Hh Hev]]]].
          apply eval_head_shape in Hev as [Hfst _]. rewrite Hfst. apply HrR. apply in_or_app. left. apply in_map. exact Hh.
        + apply Hcl. exists (rename_rel_rule q r). split; [apply in_map; exact Hr|].
          rewrite (derive_rule_rename_rel (db_of N) (db_of M') r).
          * apply in_map. exact Hf.
          * intros a Ha. symmetry. apply db_of_pull. apply HrR. apply in_or_app. right. exact Ha. }
    intros g Hg. apply in_map_iff in Hg as [f [<- Hf]]. apply (pull_sound R). apply HN. exact Hf.
Qed.
End RelRename.

Theorem rel_rename_proof : rel_rename_stmt.
Proof. intros I P F0 M q Hq H. apply rel_rename_least; assumption. Qed.
