(* Concrete instances (non-vacuity): the transitive-closure program with the plan the real macro dumped *)
From Coq Require Import List ZArith Bool.
From AV Require Import Engine.Core Engine.Sem Engine.Eval Engine.Validate Engine.Vocab Engine.Naive.
Import ListNotations.
Open Scope Z_scope.

Definition tc_arities : list (rel * nat) := [(0%nat, 2%nat); (1%nat, 2%nat)].
Definition tc_prog : list rule :=
  [{| heads := [(1%nat, [TVar 0%nat; TVar 1%nat])]; body := [BClause 0%nat [TVar 0%nat; TVar 1%nat] []] |};
   {| heads := [(1%nat, [TVar 0%nat; TVar 2%nat])]; body := [BClause 0%nat [TVar 0%nat; TVar 1%nat] []; BClause 1%nat [TVar 1%nat; TVar 2%nat] []] |}].
Definition tc_plan : plan :=
  [{| s_vars := [{| v_rule := 0%nat; v_heads := [(1%nat, [TVar 0%nat; TVar 1%nat])]; v_items := [PClause 0%nat [TVar 0%nat; TVar 1%nat] [] [] VTotal]; v_sj := None; v_reord := false |}]; s_dyn := [1%nat]; s_loop := false |};
   {| s_vars := [{| v_rule := 1%nat; v_heads := [(1%nat, [TVar 0%nat; TVar 2%nat])]; v_items := [PClause 0%nat [TVar 0%nat; TVar 1%nat] [] [1%nat] VTotal; PClause 1%nat [TVar 1%nat; TVar 2%nat] [] [0%nat] VDelta]; v_sj := (Some 0%nat); v_reord := true |}]; s_dyn := [1%nat]; s_loop := true |}].
(* a 4-cycle with a tail *)
Definition tc_input : list fact := [(0%nat, [1; 2]); (0%nat, [2; 3]); (0%nat, [3; 4]); (0%nat, [4; 1]); (0%nat, [4; 5])].

Lemma tc_hyps : validate tc_arities tc_prog tc_plan = true /\ no_agg tc_prog = true /\ wf_facts tc_arities tc_input = true.
Proof. vm_compute. repeat split. Qed.

Lemma tc_arities_functional : arities_functional tc_arities.
Proof.
  intros r n m H1 H2. cbn in H1, H2.
  destruct H1 as [H1|[H1|[]]], H2 as [H2|[H2|[]]]; congruence.
Qed.

Lemma tc_runs : exists st, run_plan std_interp std_swap 20 tc_plan (init_state tc_input) = Some st /\ length (rows st) = 25%nat.
Proof. eexists. split; vm_compute; reflexivity. Qed.
