(* eval_variant_spec: for a variant that passes the validator's per-variant checks, the generated
   evaluation code (index lookups on exactly the bound positions, unchecked assignment of the other
   columns, simple-join traversal in written or run-time swapped order, any-relation-empty skip)
   derives the same SET of head facts as the versioned naive semantics with full matching.

   Structure of the proof:
   - conditions / argument matching are sound w.r.t. a "model" environment (everything they bind or test
     holds in every extension of the result) and can be replayed guided by any model environment;
   - a clause through its index = full matching (clause_key, clause_idx_In);
   - simple-join swap: both traversal orders reach the SAME environment (run2_swap): each order's result
     is a model for the other order, results are ordered both ways by extension, and environments built by
     [bind] from [] are canonical (no trailing None), so mutual extension is equality;
   - items / simple join / eval_from / skip by induction. *)
From Coq Require Import List ZArith Bool Arith Lia.
From AV Require Import Engine.Core.
From AV Require Import Engine.Sem.
From AV Require Import Engine.Eval.
From AV Require Import Engine.Validate.
From AV Require Import Engine.Naive.
From AV Require Import Engine.Interface.
From AV Require Import Engine.EnvLemmas.
Import ListNotations.
Open Scope Z_scope.

Section Spec.
Variable I : interp.

(* ---------- conditions: soundness w.r.t. a model environment, model-guided evaluation ---------- *)
Definition mcond (e' : env) (c : cond) : Prop :=
  match c with
  | CIf p xs => exists vs, eval_vars e' xs = Some vs /\ pint I p vs = true
  | CBind z f xs => exists vs v, eval_vars e' xs = Some vs /\ bint I f vs = Some v /\ lookup e' z = Some v
  end.

Lemma mcond_le : forall e e' c, le e e' -> mcond e c -> mcond e' c.
Proof.
  intros e e' c Hle H; destruct c as [p xs|z f xs]; cbn in *.
  - destruct H as [vs [H1 H2]]. exists vs; split; auto. eapply eval_vars_le; eauto.
  - destruct H as [vs [v [H1 [H2 H3]]]]. exists vs, v; repeat split; auto. eapply eval_vars_le; eauto.
Qed.

Lemma sat_cond_sound : forall e B B' c e1,
  dom e B -> canon e -> check_cond B c = Some B' -> sat_cond I e c = Some e1 ->
  le e e1 /\ mcond e1 c /\ dom e1 B' /\ canon e1.
Proof.
  intros e B B' c e1 Hd Hc Hk Hs; destruct c as [p xs|z f xs]; cbn in *.
  - destruct (subv xs B); try discriminate. inversion Hk; subst B'.
    destruct (eval_vars e xs) as [vs|] eqn:Ev; try discriminate.
    destruct (pint I p vs) eqn:Ep; try discriminate. inversion Hs; subst e1.
    repeat split; auto using le_refl. exists vs; auto.
  - destruct (subv xs B && negb (memv z B)) eqn:Eb; try discriminate. inversion Hk; subst B'.
    apply andb_true_iff in Eb; destruct Eb as [_ Ez]. apply negb_true_iff in Ez.
    destruct (eval_vars e xs) as [vs|] eqn:Ev; try discriminate.
    destruct (bint I f vs) as [v|] eqn:Ef; try discriminate. inversion Hs; subst e1.
    assert (le e (bind z v e)) as Hle by (apply le_bind; eapply dom_lookup_none; eauto).
    repeat split; auto using dom_bind, canon_bind.
    exists vs, v; repeat split; auto using lookup_bind_eq. eapply eval_vars_le; eauto.
Qed.

Lemma sat_cond_guided : forall e B B' c e',
  dom e B -> check_cond B c = Some B' -> le e e' -> mcond e' c ->
  exists e1, sat_cond I e c = Some e1 /\ le e1 e'.
Proof.
  intros e B B' c e' Hd Hk Hle Hm; destruct c as [p xs|z f xs]; cbn in *.
  - destruct (subv xs B) eqn:Es; try discriminate.
    destruct (eval_vars_defined e B xs Hd Es) as [vs Hvs].
    destruct Hm as [vs' [H1 H2]]. rewrite (eval_vars_le _ _ _ _ Hle Hvs) in H1. inversion H1; subst vs'.
    rewrite Hvs, H2. eauto.
  - destruct (subv xs B && negb (memv z B)) eqn:Eb; try discriminate.
    apply andb_true_iff in Eb; destruct Eb as [Es _].
    destruct (eval_vars_defined e B xs Hd Es) as [vs Hvs].
    destruct Hm as [vs' [v [H1 [H2 H3]]]]. rewrite (eval_vars_le _ _ _ _ Hle Hvs) in H1. inversion H1; subst vs'.
    rewrite Hvs, H2. eexists; split; eauto. apply le_bind_l; auto.
Qed.

Lemma sat_conds_sound : forall cs e B B' e1,
  dom e B -> canon e -> check_conds B cs = Some B' -> sat_conds I e cs = Some e1 ->
  le e e1 /\ Forall (mcond e1) cs /\ dom e1 B' /\ canon e1.
Proof.
  induction cs as [|c cs IH]; intros e B B' e1 Hd Hc Hk Hs; cbn in *.
  - inversion Hk; inversion Hs; subst. repeat split; auto using le_refl.
  - destruct (check_cond B c) as [B1|] eqn:Ek; try discriminate.
    destruct (sat_cond I e c) as [e0|] eqn:Es; try discriminate.
    destruct (sat_cond_sound _ _ _ _ _ Hd Hc Ek Es) as [L1 [M1 [D1 C1]]].
    destruct (IH _ _ _ _ D1 C1 Hk Hs) as [L2 [M2 [D2 C2]]].
    repeat split; auto. eapply le_trans; eauto. constructor; auto. eapply mcond_le; eauto.
Qed.

Lemma sat_conds_guided : forall cs e B B' e',
  dom e B -> canon e -> check_conds B cs = Some B' -> le e e' -> Forall (mcond e') cs ->
  exists e1, sat_conds I e cs = Some e1 /\ le e1 e'.
Proof.
  induction cs as [|c cs IH]; intros e B B' e' Hd Hc Hk Hle Hm; cbn in *.
  - eauto.
  - destruct (check_cond B c) as [B1|] eqn:Ek; try discriminate.
    inversion Hm as [|? ? Hm1 Hm2]; subst.
    destruct (sat_cond_guided _ _ _ _ _ Hd Ek Hle Hm1) as [e0 [Es L0]].
    rewrite Es. destruct (sat_cond_sound _ _ _ _ _ Hd Hc Ek Es) as [_ [_ [D1 C1]]].
    eapply IH; eauto.
Qed.

(* ---------- matching = key test + unchecked assignment ---------- *)
Fixpoint chk (e : env) (args : list term) (tup : tuple) : bool :=
  match args, tup with
  | [], [] => true
  | a :: args', v :: tup' =>
      match a with
      | TVar x => match lookup e x with
                  | Some w => Z.eqb w v && chk e args' tup'
                  | None => chk (bind x v e) args' tup' end
      | _ => match eval_term I e a with Some w => Z.eqb w v && chk e args' tup' | None => false end
      end
  | _, _ => false
  end.

Lemma match_args_chk : forall args tup e,
  match_args I e args tup = if chk e args tup then Some (bind_new e args tup) else None.
Proof.
  induction args as [|a args IH]; intros tup e; destruct tup as [|v tup]; try reflexivity.
  destruct a as [x|c|f xs]; cbn [match_args chk bind_new].
    + destruct (lookup e x) as [w|]; [destruct (Z.eqb w v); cbn; auto|auto].
    + destruct (eval_term I e (TConst c)) as [w|]; [destruct (Z.eqb w v); cbn; auto|auto].
    + destruct (eval_term I e (TFun f xs)) as [w|]; [destruct (Z.eqb w v); cbn; auto|auto].
Qed.

Lemma canon_bind_new : forall args tup e, canon e -> canon (bind_new e args tup).
Proof.
  induction args as [|a args IH]; intros tup e Hc; destruct tup as [|v tup]; cbn; auto.
  - destruct a; auto.
  - destruct a as [x|c|f xs]; auto. destruct (lookup e x); auto using canon_bind.
Qed.

Lemma expected_idx_shift : forall B args pos newv,
  expected_idx B args (S pos) newv =
  match expected_idx B args pos newv with Some (ix, nv) => Some (map S ix, nv) | None => None end.
Proof.
  intros B; induction args as [|a args IH]; intros pos newv; cbn; auto.
  destruct a as [x|c|f xs].
  - destruct (memv x B).
    + rewrite IH. destruct (expected_idx B args (S pos) newv) as [[ix nv]|]; reflexivity.
    + destruct (memv x newv); auto.
  - destruct (subv (term_vars (TConst c)) B); auto.
    rewrite IH. destruct (expected_idx B args (S pos) newv) as [[ix nv]|]; reflexivity.
  - destruct (subv (term_vars (TFun f xs)) B); auto.
    rewrite IH. destruct (expected_idx B args (S pos) newv) as [[ix nv]|]; reflexivity.
Qed.

Lemma eval_key_shift : forall e a args idx, eval_key I e (a :: args) (map S idx) = eval_key I e args idx.
Proof.
  intros e a args idx; induction idx as [|i idx IH]; cbn; auto.
  cbn in IH. rewrite IH. reflexivity.
Qed.

Lemma proj_shift : forall idx v tup, proj (map S idx) (v :: tup) = proj idx tup.
Proof. intros; unfold proj; rewrite map_map; reflexivity. Qed.

Lemma proj_cons0 : forall idx v tup, proj (0%nat :: map S idx) (v :: tup) = v :: proj idx tup.
Proof. intros; unfold proj; cbn [map]. f_equal. rewrite map_map. reflexivity. Qed.

Lemma subv_app_r : forall xs A B, subv xs B = true -> subv xs (A ++ B) = true.
Proof.
  intros xs A B H. apply subv_In. intros x Hx. rewrite memv_app. rewrite (proj1 (subv_In xs B) H x Hx).
  apply orb_true_r.
Qed.

Lemma clause_key : forall B args tup newv e e0 idx nv,
  expected_idx B args 0 newv = Some (idx, nv) ->
  dom e (newv ++ B) ->
  (forall x, memv x B = true -> lookup e0 x = lookup e x) ->
  length args = length tup ->
  exists key, eval_key I e0 args idx = Some key /\ chk e args tup = zlist_eqb (proj idx tup) key
              /\ dom (bind_new e args tup) (nv ++ B).
Proof.
  intros B; induction args as [|a args IH]; intros tup newv e e0 idx nv Hx Hd Ha Hl;
    destruct tup as [|v tup]; try discriminate.
  - cbn in Hx; cbn in Hx; injection Hx as Hi Hn; subst idx nv. exists []; cbn; auto.
  - cbn in Hl; injection Hl as Hl.
    assert (forall ix nv', subv (term_vars a) B = true -> (forall x, a <> TVar x) ->
              expected_idx B args 0 newv = Some (ix, nv') -> idx = 0%nat :: map S ix -> nv = nv' ->
              exists key, eval_key I e0 (a :: args) idx = Some key /\
                          (match eval_term I e a with Some w => Z.eqb w v && chk e args tup | None => false end)
                            = zlist_eqb (proj idx (v :: tup)) key
                          /\ dom (bind_new e args tup) (nv ++ B)) as Hgen.
    { intros ix nv' Hs _ Hx' -> ->.
      destruct (IH tup newv e e0 ix nv' Hx' Hd Ha Hl) as [key [K1 [K2 K3]]].
      destruct (eval_term_defined I e (newv ++ B) a Hd (subv_app_r _ _ _ Hs)) as [w Hw].
      assert (eval_term I e0 a = Some w) as Hw0.
      { rewrite <- Hw. apply eval_term_agree. intros x Hin. apply Ha. eapply subv_In; eauto. }
      exists (w :: key). cbn [eval_key nth_error]. rewrite Hw0. rewrite eval_key_shift, K1.
      split; auto. rewrite Hw, K2. rewrite proj_cons0. cbn [zlist_eqb]. rewrite Z.eqb_sym. auto. }
    cbn in Hx. rewrite expected_idx_shift in Hx. destruct a as [x|c|f xs].
    + destruct (memv x B) eqn:Ex.
      * destruct (expected_idx B args 0 newv) as [[ix nv']|] eqn:Ei; try discriminate. cbn in Hx; injection Hx as Hi Hn; subst idx nv.
        destruct (IH tup newv e e0 ix nv' Ei Hd Ha Hl) as [key [K1 [K2 K3]]].
        assert (memv x (newv ++ B) = true) as Hxm by (rewrite memv_app, Ex; apply orb_true_r).
        destruct (dom_lookup_some _ _ _ Hd Hxm) as [w Hw].
        exists (w :: key). cbn [eval_key nth_error eval_term]. rewrite (Ha x Ex), Hw.
        rewrite eval_key_shift, K1. cbn [chk bind_new]. rewrite Hw. split; auto. split; auto.
        rewrite K2. rewrite proj_cons0. cbn [zlist_eqb]. rewrite Z.eqb_sym. auto.
      * destruct (memv x newv) eqn:Exn; try discriminate. rewrite expected_idx_shift in Hx.
        destruct (expected_idx B args 0 (x :: newv)) as [[ix nv']|] eqn:Ei; try discriminate. cbn in Hx; injection Hx as Hi Hn; subst idx nv.
        assert (memv x (newv ++ B) = false) as Hxm by (rewrite memv_app, Ex, Exn; auto).
        pose proof (dom_lookup_none _ _ _ Hd Hxm) as Hn.
        destruct (IH tup (x :: newv) (bind x v e) e0 ix nv' Ei) as [key [K1 [K2 K3]]]; auto.
        { apply (dom_bind e (newv ++ B) x v Hd). }
        { intros y Hy. rewrite lookup_bind_neq; auto. intros ->. congruence. }
        exists key. rewrite eval_key_shift, proj_shift. cbn [chk bind_new]. rewrite Hn. auto.
    + destruct (subv (term_vars (TConst c)) B) eqn:Es; try discriminate.
      destruct (expected_idx B args 0 newv) as [[ix nv']|] eqn:Ei; try discriminate. cbn in Hx; injection Hx as Hi Hn; subst idx nv.
      apply (Hgen ix nv'); auto; congruence.
    + destruct (subv (term_vars (TFun f xs)) B) eqn:Es; try discriminate.
      destruct (expected_idx B args 0 newv) as [[ix nv']|] eqn:Ei; try discriminate. cbn in Hx; injection Hx as Hi Hn; subst idx nv.
      apply (Hgen ix nv'); auto; congruence.
Qed.

(* ---------- matching: soundness w.r.t. a model environment, model-guided matching ---------- *)
Lemma match_args_sound : forall args tup e e1,
  match_args I e args tup = Some e1 -> le e e1 /\ eval_terms I e1 args = Some tup.
Proof.
  induction args as [|a args IH]; intros tup e e1 H; destruct tup as [|v tup]; cbn in H; try discriminate.
  - inversion H; subst. split; auto using le_refl.
  - assert (forall w, eval_term I e a = Some w -> (if Z.eqb w v then match_args I e args tup else None) = Some e1 ->
              le e e1 /\ eval_terms I e1 (a :: args) = Some (v :: tup)) as Hgen.
    { intros w Hw Hm. destruct (Z.eqb w v) eqn:E; try discriminate. apply Z.eqb_eq in E; subst w.
      destruct (IH _ _ _ Hm) as [L1 T1]. split; auto. cbn. rewrite (eval_term_le I _ _ _ _ L1 Hw), T1. reflexivity. }
    destruct a as [x|c|f xs].
    + destruct (lookup e x) as [w|] eqn:Ex.
      * apply (Hgen w); auto.
      * destruct (IH _ _ _ H) as [L1 T1]. split.
        -- eapply le_trans; [apply le_bind; eauto|eauto].
        -- cbn. rewrite (L1 x v (lookup_bind_eq x v e)), T1. reflexivity.
    + destruct (eval_term I e (TConst c)) as [w|] eqn:Ew; try discriminate. apply (Hgen w); auto.
    + destruct (eval_term I e (TFun f xs)) as [w|] eqn:Ew; try discriminate. apply (Hgen w); auto.
Qed.

Lemma eval_terms_length : forall e args tup, eval_terms I e args = Some tup -> length args = length tup.
Proof.
  intros e; induction args as [|a args IH]; intros tup H; cbn in H.
  - inversion H; reflexivity.
  - destruct (eval_term I e a); try discriminate. destruct (eval_terms I e args) eqn:E; try discriminate.
    inversion H; subst. cbn. f_equal. apply IH; auto.
Qed.

Lemma match_args_guided : forall B args tup pos newv e e',
  expected_idx B args pos newv <> None ->
  dom e (newv ++ B) -> le e e' -> eval_terms I e' args = Some tup ->
  exists e1, match_args I e args tup = Some e1 /\ le e1 e'.
Proof.
  intros B; induction args as [|a args IH]; intros tup pos newv e e' Hx Hd Hle Ht; cbn in Ht.
  - inversion Ht; subst. cbn. eauto.
  - destruct (eval_term I e' a) as [v|] eqn:Ea; try discriminate.
    destruct (eval_terms I e' args) as [tup'|] eqn:Ets; try discriminate. inversion Ht; subst tup. clear Ht.
    assert (subv (term_vars a) B = true -> expected_idx B args (S pos) newv <> None ->
            exists e1, match eval_term I e a with
                       | Some w => if Z.eqb w v then match_args I e args tup' else None
                       | None => None end = Some e1 /\ le e1 e') as Hgen.
    { intros Hs Hx'. destruct (eval_term_defined I e (newv ++ B) a Hd (subv_app_r _ _ _ Hs)) as [w Hw].
      rewrite Hw. pose proof (eval_term_le I _ _ _ _ Hle Hw) as Hw'. rewrite Ea in Hw'. inversion Hw'; subst w.
      rewrite Z.eqb_refl. eapply IH; eauto. }
    cbn in Hx. destruct a as [x|c|f xs].
    + cbn [match_args]. cbn in Ea. destruct (lookup e x) as [w|] eqn:Ex.
      * rewrite (Hle _ _ Ex) in Ea. inversion Ea; subst w. rewrite Z.eqb_refl.
        destruct (memv x B) eqn:EB.
        -- apply (IH tup' (S pos) newv); auto. intros Hn; rewrite Hn in Hx; congruence.
        -- destruct (memv x newv) eqn:EN; try congruence.
           assert (bound e x = true) as Hb by (unfold bound; rewrite Ex; auto).
           rewrite Hd, memv_app in Hb. apply orb_true_iff in Hb. destruct Hb; congruence.
      * assert (memv x (newv ++ B) = false) as Hm.
        { rewrite <- Hd. unfold bound. rewrite Ex. reflexivity. }
        rewrite memv_app in Hm. apply orb_false_iff in Hm; destruct Hm as [Hm1 Hm2].
        rewrite Hm1, Hm2 in Hx.
        apply (IH tup' (S pos) (x :: newv)); auto.
        -- apply (dom_bind e (newv ++ B) x v Hd).
        -- apply le_bind_l; auto.
    + destruct (subv (term_vars (TConst c)) B) eqn:Es; try congruence.
      apply Hgen; auto. intros Hn; rewrite Hn in Hx; congruence.
    + destruct (subv (term_vars (TFun f xs)) B) eqn:Es; try congruence.
      apply Hgen; auto. intros Hn; rewrite Hn in Hx; congruence.
Qed.

(* ---------- one clause step: match the arguments, then the conditions ---------- *)
Definition clause_ok (B : list var) (args : list term) (cs : list cond) (B' : list var) : Prop :=
  exists idx nv, expected_idx B args 0 [] = Some (idx, nv) /\ check_conds (nv ++ B) cs = Some B'.

Definition cmodel (e' : env) (args : list term) (tup : tuple) (cs : list cond) : Prop :=
  eval_terms I e' args = Some tup /\ Forall (mcond e') cs.

Lemma cmodel_le : forall e e' args tup cs, le e e' -> cmodel e args tup cs -> cmodel e' args tup cs.
Proof.
  intros e e' args tup cs Hle [H1 H2]; split.
  - eapply eval_terms_le; eauto.
  - eapply Forall_impl; [|exact H2]. intros c; apply mcond_le; auto.
Qed.

Lemma clause_sound : forall B B' args cs tup e e1 e2,
  clause_ok B args cs B' -> dom e B -> canon e ->
  match_args I e args tup = Some e1 -> sat_conds I e1 cs = Some e2 ->
  le e e2 /\ cmodel e2 args tup cs /\ dom e2 B' /\ canon e2.
Proof.
  intros B B' args cs tup e e1 e2 [idx [nv [Hx Hk]]] Hd Hc Hm Hs.
  destruct (match_args_sound _ _ _ _ Hm) as [L1 T1].
  pose proof (eval_terms_length _ _ _ T1) as Hl.
  destruct (clause_key B args tup [] e e idx nv Hx Hd (fun _ _ => eq_refl) Hl) as [key [_ [_ D1]]].
  rewrite match_args_chk in Hm. destruct (chk e args tup); try discriminate. inversion Hm; subst e1.
  pose proof (canon_bind_new args tup e Hc) as C1.
  destruct (sat_conds_sound _ _ _ _ _ D1 C1 Hk Hs) as [L2 [M2 [D2 C2]]].
  repeat split; auto.
  - eapply le_trans; eauto.
  - eapply eval_terms_le; eauto.
Qed.

Lemma clause_guided : forall B B' args cs tup e e',
  clause_ok B args cs B' -> dom e B -> canon e -> le e e' -> cmodel e' args tup cs ->
  exists e1 e2, match_args I e args tup = Some e1 /\ sat_conds I e1 cs = Some e2 /\ le e2 e'.
Proof.
  intros B B' args cs tup e e' [idx [nv [Hx Hk]]] Hd Hc Hle [T M].
  destruct (match_args_guided B args tup 0%nat [] e e') as [e1 [Hm L1]]; auto; try congruence.
  pose proof (eval_terms_length _ _ _ T) as Hl.
  destruct (clause_key B args tup [] e e idx nv Hx Hd (fun _ _ => eq_refl) Hl) as [key [_ [_ D1]]].
  pose proof Hm as Hm'. rewrite match_args_chk in Hm'. destruct (chk e args tup); try discriminate. inversion Hm'; subst e1.
  pose proof (canon_bind_new args tup e Hc) as C1.
  destruct (sat_conds_guided cs _ _ _ e' D1 C1 Hk L1 M) as [e2 [Hs L2]].
  exists (bind_new e args tup), e2; auto.
Qed.

(* two clause steps in sequence *)
Definition run2 (e : env) a1 t1 c1 a2 t2 c2 (e' : env) : Prop :=
  exists e1 e2 e3, match_args I e a1 t1 = Some e1 /\ sat_conds I e1 c1 = Some e2 /\
                   match_args I e2 a2 t2 = Some e3 /\ sat_conds I e3 c2 = Some e'.

Lemma run2_sound : forall B B1 B2 a1 t1 c1 a2 t2 c2 e e',
  clause_ok B a1 c1 B1 -> clause_ok B1 a2 c2 B2 -> dom e B -> canon e ->
  run2 e a1 t1 c1 a2 t2 c2 e' ->
  le e e' /\ cmodel e' a1 t1 c1 /\ cmodel e' a2 t2 c2 /\ dom e' B2 /\ canon e'.
Proof.
  intros B B1 B2 a1 t1 c1 a2 t2 c2 e e' K1 K2 Hd Hc [e1 [e2 [e3 [M1 [S1 [M2 S2]]]]]].
  destruct (clause_sound _ _ _ _ _ _ _ _ K1 Hd Hc M1 S1) as [L1 [CM1 [D1 C1]]].
  destruct (clause_sound _ _ _ _ _ _ _ _ K2 D1 C1 M2 S2) as [L2 [CM2 [D2 C2]]].
  repeat split; auto; try apply CM2.
  - eapply le_trans; eauto.
  - eapply eval_terms_le; eauto. apply CM1.
  - eapply Forall_impl; [|apply CM1]. intros c; apply mcond_le; auto.
Qed.

Lemma run2_guided : forall B B1 B2 a1 t1 c1 a2 t2 c2 e e',
  clause_ok B a1 c1 B1 -> clause_ok B1 a2 c2 B2 -> dom e B -> canon e ->
  le e e' -> cmodel e' a1 t1 c1 -> cmodel e' a2 t2 c2 ->
  exists e'', run2 e a1 t1 c1 a2 t2 c2 e'' /\ le e'' e'.
Proof.
  intros B B1 B2 a1 t1 c1 a2 t2 c2 e e' K1 K2 Hd Hc Hle CM1 CM2.
  destruct (clause_guided _ _ _ _ _ _ _ K1 Hd Hc Hle CM1) as [e1 [e2 [M1 [S1 L1]]]].
  destruct (clause_sound _ _ _ _ _ _ _ _ K1 Hd Hc M1 S1) as [_ [_ [D1 C1]]].
  destruct (clause_guided _ _ _ _ _ _ _ K2 D1 C1 L1 CM2) as [e3 [e4 [M2 [S2 L2]]]].
  exists e4; split; auto. exists e1, e2, e3; auto.
Qed.

Lemma run2_det : forall e a1 t1 c1 a2 t2 c2 e' e'',
  run2 e a1 t1 c1 a2 t2 c2 e' -> run2 e a1 t1 c1 a2 t2 c2 e'' -> e' = e''.
Proof.
  intros e a1 t1 c1 a2 t2 c2 e' e'' [x1 [x2 [x3 [A1 [A2 [A3 A4]]]]]] [y1 [y2 [y3 [B1 [B2 [B3 B4]]]]]].
  congruence.
Qed.

(* the simple-join swap: both traversal orders reach the same environment *)
Lemma run2_swap : forall B B1 B2 C1 C2 a1 t1 c1 a2 t2 c2 e e',
  clause_ok B a1 c1 B1 -> clause_ok B1 a2 c2 B2 ->
  clause_ok B a2 c2 C1 -> clause_ok C1 a1 c1 C2 ->
  dom e B -> canon e ->
  run2 e a1 t1 c1 a2 t2 c2 e' -> run2 e a2 t2 c2 a1 t1 c1 e'.
Proof.
  intros B B1 B2 C1 C2 a1 t1 c1 a2 t2 c2 e e' K1 K2 J1 J2 Hd Hc R.
  destruct (run2_sound _ _ _ _ _ _ _ _ _ _ _ K1 K2 Hd Hc R) as [L [M1 [M2 [_ Cn]]]].
  destruct (run2_guided _ _ _ _ _ _ _ _ _ _ e' J1 J2 Hd Hc L M2 M1) as [e'' [R' L']].
  destruct (run2_sound _ _ _ _ _ _ _ _ _ _ _ J1 J2 Hd Hc R') as [L2 [N2 [N1 [_ Cn']]]].
  destruct (run2_guided _ _ _ _ _ _ _ _ _ _ e'' K1 K2 Hd Hc L2 N1 N2) as [e3 [R3 L3]].
  pose proof (run2_det _ _ _ _ _ _ _ _ _ R R3); subst e3.
  assert (e'' = e') by (apply le_antisym; auto). subst e''. exact R'.
Qed.

(* ---------- clauses against relation contents ---------- *)
Section Cont.
Variable swap : list tuple -> list tuple -> bool.
Variable cont : rel -> version -> list tuple.
Variable arities : list (rel * nat).
Variable dyn : list rel.
Hypothesis Hlen : forall r ver tup n, In tup (cont r ver) -> arity_ok arities r n = true -> length tup = n.

Lemma index_get_In : forall c ar idx key t,
  In t (index_get c ar idx key) <-> In t c /\ zlist_eqb (proj idx t) key = true.
Proof.
  intros; unfold index_get. destruct (Nat.eqb (length idx) ar); [rewrite dedup_tuples_In|]; rewrite filter_In; tauto.
Qed.

(* some tuple of the relation matches, the conditions hold, and Q holds of the resulting environment *)
Definition step_ex (e : env) (r : rel) args cs (ver : version) (Q : env -> Prop) : Prop :=
  exists tup e1 e2, In tup (cont r ver) /\ match_args I e args tup = Some e1 /\ sat_conds I e1 cs = Some e2 /\ Q e2.

Lemma check_clause_ok : forall B r args cs idx B',
  check_clause arities B r args cs idx = Some B' ->
  arity_ok arities r (length args) = true /\
  exists nv, expected_idx B args 0 [] = Some (idx, nv) /\ check_conds (nv ++ B) cs = Some B'.
Proof.
  intros B r args cs idx B' H; unfold check_clause in H.
  destruct (arity_ok arities r (length args)); try discriminate. split; auto.
  destruct (expected_idx B args 0 []) as [[ix nv]|]; try discriminate.
  destruct (nats_eqb ix idx) eqn:E; try discriminate. apply nats_eqb_eq in E; subst ix. eauto.
Qed.

Lemma check_clause_clause_ok : forall B r args cs idx B',
  check_clause arities B r args cs idx = Some B' -> clause_ok B args cs B'.
Proof. intros B r args cs idx B' H. destruct (check_clause_ok _ _ _ _ _ _ H) as [_ [nv [H1 H2]]]. exists idx, nv; auto. Qed.

Lemma clause_idx_In : forall B B' r args cs idx ver k e e',
  check_clause arities B r args cs idx = Some B' -> dom e B ->
  (In e' (eval_clause_idx I cont k e r args cs idx ver) <-> step_ex e r args cs ver (fun e2 => In e' (k e2))).
Proof.
  intros B B' r args cs idx ver k e e' Hk Hd.
  destruct (check_clause_ok _ _ _ _ _ _ Hk) as [Har [nv [Hx Hcs]]].
  unfold eval_clause_idx, step_ex. split.
  - intros Hin. destruct (eval_key I e args idx) as [key|] eqn:Ek; [|contradiction].
    apply in_flat_map in Hin. destruct Hin as [tup [Ht Hin]].
    apply index_get_In in Ht. destruct Ht as [Ht Hz].
    pose proof (Hlen _ _ _ _ Ht Har) as Hl.
    destruct (clause_key B args tup [] e e idx nv Hx Hd (fun _ _ => eq_refl) (eq_sym Hl)) as [key' [K1 [K2 _]]].
    rewrite Ek in K1; inversion K1; subst key'.
    destruct (sat_conds I (bind_new e args tup) cs) as [e2|] eqn:Es; [|contradiction].
    exists tup, (bind_new e args tup), e2. repeat split; auto.
    rewrite match_args_chk, K2, Hz. reflexivity.
  - intros [tup [e1 [e2 [Ht [Hm [Hs Hin]]]]]].
    pose proof (Hlen _ _ _ _ Ht Har) as Hl.
    destruct (clause_key B args tup [] e e idx nv Hx Hd (fun _ _ => eq_refl) (eq_sym Hl)) as [key [K1 [K2 _]]].
    rewrite K1. apply in_flat_map. exists tup.
    rewrite match_args_chk in Hm. destruct (chk e args tup) eqn:Ec; try discriminate. inversion Hm; subst e1.
    split.
    + apply index_get_In; split; auto; try (rewrite <- K2; auto).
    + rewrite Hs; auto.
Qed.

Lemma clause_all_In : forall B B' r args cs ver k e e',
  check_clause arities B r args cs [] = Some B' -> dom e B ->
  (In e' (eval_clause_all I cont k e r args cs ver) <-> step_ex e r args cs ver (fun e2 => In e' (k e2))).
Proof.
  intros B B' r args cs ver k e e' Hk Hd.
  rewrite <- (clause_idx_In B B' r args cs [] ver k e e' Hk Hd).
  unfold eval_clause_all, eval_clause_idx. cbn [eval_key]. rewrite !in_flat_map.
  split; intros [tup [Ht Hin]]; exists tup; split; auto.
  - apply index_get_In; split; [auto|reflexivity].
  - apply index_get_In in Ht; tauto.
Qed.

Lemma naive_step_In : forall e r args cs ver (k : env -> list env) e',
  In e' (flat_map (fun tup => match match_args I e args tup with
                              | Some e1 => match sat_conds I e1 cs with Some e2 => k e2 | None => [] end
                              | None => [] end) (cont r ver))
  <-> step_ex e r args cs ver (fun e2 => In e' (k e2)).
Proof.
  intros e r args cs ver k e'. rewrite in_flat_map. unfold step_ex. split.
  - intros [tup [Ht Hin]]. destruct (match_args I e args tup) as [e1|] eqn:Em; [|contradiction].
    destruct (sat_conds I e1 cs) as [e2|] eqn:Es; [|contradiction]. exists tup, e1, e2; auto.
  - intros [tup [e1 [e2 [Ht [Hm [Hs Hin]]]]]]. exists tup; split; auto. rewrite Hm, Hs; auto.
Qed.

Lemma step_ex_iff : forall B B' r args cs idx ver e (Q Q' : env -> Prop),
  check_clause arities B r args cs idx = Some B' -> dom e B -> canon e ->
  (forall e2, dom e2 B' -> canon e2 -> (Q e2 <-> Q' e2)) ->
  (step_ex e r args cs ver Q <-> step_ex e r args cs ver Q').
Proof.
  intros B B' r args cs idx ver e Q Q' Hk Hd Hc HQ.
  pose proof (check_clause_clause_ok _ _ _ _ _ _ Hk) as Hok.
  split; intros [tup [e1 [e2 [Ht [Hm [Hs Hq]]]]]]; exists tup, e1, e2; repeat split; auto;
    destruct (clause_sound _ _ _ _ _ _ _ _ Hok Hd Hc Hm Hs) as [_ [_ [D2 C2]]]; apply (HQ e2 D2 C2); auto.
Qed.

Lemma step2_swap : forall B B1 B2 C1 C2 r1 a1 c1 i1 v1 r2 a2 c2 i2 v2 e (Q : env -> Prop),
  check_clause arities B r1 a1 c1 [] = Some B1 -> check_clause arities B1 r2 a2 c2 i2 = Some B2 ->
  check_clause arities B r2 a2 c2 [] = Some C1 -> check_clause arities C1 r1 a1 c1 i1 = Some C2 ->
  dom e B -> canon e ->
  (step_ex e r2 a2 c2 v2 (fun e2 => step_ex e2 r1 a1 c1 v1 Q)
   <-> step_ex e r1 a1 c1 v1 (fun e2 => step_ex e2 r2 a2 c2 v2 Q)).
Proof.
  intros B B1 B2 C1 C2 r1 a1 c1 i1 v1 r2 a2 c2 i2 v2 e Q K1 K2 J1 J2 Hd Hc.
  apply check_clause_clause_ok in K1, K2, J1, J2.
  split.
  - intros [t2 [e1 [e2 [Ht2 [M2 [S2 [t1 [e3 [e4 [Ht1 [M1 [S1 Hq]]]]]]]]]]]].
    assert (run2 e a2 t2 c2 a1 t1 c1 e4) as R by (exists e1, e2, e3; auto).
    apply (run2_swap _ _ _ _ _ _ _ _ _ _ _ _ _ J1 J2 K1 K2 Hd Hc) in R.
    destruct R as [x1 [x2 [x3 [A1 [A2 [A3 A4]]]]]].
    exists t1, x1, x2; repeat split; auto. exists t2, x3, e4; auto.
  - intros [t1 [e1 [e2 [Ht1 [M1 [S1 [t2 [e3 [e4 [Ht2 [M2 [S2 Hq]]]]]]]]]]]].
    assert (run2 e a1 t1 c1 a2 t2 c2 e4) as R by (exists e1, e2, e3; auto).
    apply (run2_swap _ _ _ _ _ _ _ _ _ _ _ _ _ K1 K2 J1 J2 Hd Hc) in R.
    destruct R as [x1 [x2 [x3 [A1 [A2 [A3 A4]]]]]].
    exists t2, x1, x2; repeat split; auto. exists t1, x3, e4; auto.
Qed.

(* ---------- body items ---------- *)
Notation naive := (all_envs_a I cont dyn).
Notation dv := (dyn_versions dyn).

Lemma static_total_cons : forall p rest, static_total dyn (p :: rest) = true ->
  static_total dyn [p] = true /\ static_total dyn rest = true.
Proof. intros p rest H; unfold static_total in *; cbn in *. apply andb_true_iff in H; destruct H as [H1 H2]. rewrite H1; auto. Qed.

Lemma naive_clause : forall r args cs idx ver rest e,
  static_total dyn (PClause r args cs idx ver :: rest) = true ->
  naive (dv (PClause r args cs idx ver :: rest)) (map item_of (PClause r args cs idx ver :: rest)) e
  = flat_map (fun tup => match match_args I e args tup with
                         | Some e1 => match sat_conds I e1 cs with
                                      | Some e2 => naive (dv rest) (map item_of rest) e2
                                      | None => [] end
                         | None => [] end) (cont r ver).
Proof.
  intros r args cs idx ver rest e H. apply static_total_cons in H; destruct H as [H _].
  unfold static_total in H; cbn in H. rewrite andb_true_r in H.
  change (dv (PClause r args cs idx ver :: rest)) with ((if is_dyn dyn r then [ver] else []) ++ dv rest).
  cbn [map item_of all_envs_a]. destruct (is_dyn dyn r); cbn in *.
  - reflexivity.
  - destruct ver; try discriminate. reflexivity.
Qed.

Lemma items_equiv : forall items B B' e,
  check_items arities B items = Some B' -> static_total dyn items = true ->
  forallb no_agg_item (map item_of items) = true -> dom e B -> canon e ->
  forall e', In e' (eval_items I cont items e) <-> In e' (naive (dv items) (map item_of items) e).
Proof.
  induction items as [|p rest IH]; intros B B' e Hk Hst Hna Hd Hc e'.
  - cbn; tauto.
  - pose proof (static_total_cons _ _ Hst) as [_ Hst'].
    cbn [map forallb] in Hna. apply andb_true_iff in Hna; destruct Hna as [Hna1 Hna].
    destruct p as [r args cs idx ver|c|x g xs|out a bd r args idx].
    + cbn [check_items] in Hk. destruct (check_clause arities B r args cs idx) as [B1|] eqn:Ek; try discriminate.
      rewrite naive_clause by auto. rewrite naive_step_In. cbn [eval_items].
      rewrite (clause_idx_In _ _ _ _ _ _ _ _ _ _ Ek Hd).
      eapply step_ex_iff; eauto.
    + cbn [check_items] in Hk. destruct (check_cond B c) as [B1|] eqn:Ek; try discriminate.
      change (dv (PCond c :: rest)) with (dv rest). cbn [map item_of all_envs_a eval_items].
      destruct (sat_cond I e c) as [e1|] eqn:Es; [|tauto].
      destruct (sat_cond_sound _ _ _ _ _ Hd Hc Ek Es) as [_ [_ [D1 C1]]]. eapply IH; eauto.
    + cbn [check_items] in Hk. destruct (subv xs B && negb (memv x B)) eqn:Eb; try discriminate.
      change (dv (PGen x g xs :: rest)) with (dv rest). cbn [map item_of all_envs_a eval_items].
      destruct (eval_vars e xs) as [vs|]; [|tauto]. rewrite !in_flat_map.
      split; intros [v [Hv Hin]]; exists v; split; auto;
        eapply (IH (x :: B) B' (bind x v e)); eauto using dom_bind, canon_bind.
    + discriminate.
Qed.

(* ---------- simple join ---------- *)
Lemma sj_equiv : forall items reord B B' e,
  check_simple_join arities B items reord = Some B' -> static_total dyn items = true ->
  forallb no_agg_item (map item_of items) = true -> dom e B -> canon e ->
  forall e', In e' (eval_simple_join I swap cont items reord e) <-> In e' (naive (dv items) (map item_of items) e).
Proof.
  intros items reord B B' e Hk Hst Hna Hd Hc e'.
  destruct items as [|[r1 a1 c1 i1 v1| | |] [|[r2 a2 c2 i2 v2| | |] rest]]; try discriminate.
  cbn [check_simple_join] in Hk.
  destruct (check_clause arities B r1 a1 c1 []) as [B1|] eqn:K1; try discriminate.
  destruct (check_clause arities B1 r2 a2 c2 i2) as [B2|] eqn:K2; try discriminate.
  pose proof (static_total_cons _ _ Hst) as [_ Hst1]. pose proof (static_total_cons _ _ Hst1) as [_ Hst2].
  cbn [map forallb] in Hna. apply andb_true_iff in Hna; destruct Hna as [_ Hna].
  apply andb_true_iff in Hna; destruct Hna as [_ Hna].
  match type of Hk with (if ?c then _ else _) = _ => destruct c eqn:Eso; [|discriminate] end.
  (* the naive side *)
  assert (In e' (naive (dv (PClause r1 a1 c1 i1 v1 :: PClause r2 a2 c2 i2 v2 :: rest))
                       (map item_of (PClause r1 a1 c1 i1 v1 :: PClause r2 a2 c2 i2 v2 :: rest)) e)
          <-> step_ex e r1 a1 c1 v1 (fun e2 => step_ex e2 r2 a2 c2 v2 (fun e4 => In e' (eval_items I cont rest e4)))) as HN.
  { rewrite naive_clause by auto. rewrite naive_step_In.
    eapply step_ex_iff; eauto. intros e2 D2 C2.
    rewrite naive_clause by auto. rewrite naive_step_In.
    eapply step_ex_iff; eauto. intros e4 D4 C4. symmetry. eapply items_equiv; eauto. }
  rewrite HN. clear HN.
  assert (In e' (eval_clause_all I cont (fun e1 => eval_clause_idx I cont (eval_items I cont rest) e1 r2 a2 c2 i2 v2) e r1 a1 c1 v1)
          <-> step_ex e r1 a1 c1 v1 (fun e2 => step_ex e2 r2 a2 c2 v2 (fun e4 => In e' (eval_items I cont rest e4)))) as HW.
  { rewrite (clause_all_In _ _ _ _ _ _ _ _ _ K1 Hd).
    eapply step_ex_iff; eauto. intros e2 D2 C2. eapply clause_idx_In; eauto. }
  cbn [eval_simple_join].
  destruct (reord && negb (swap (cont r1 v1) (cont r2 v2))) eqn:Esw; [|exact HW].
  apply andb_true_iff in Esw; destruct Esw as [Er _]. rewrite Er in Eso.
  destruct (check_clause arities B r2 a2 c2 []) as [C1|] eqn:J1; try discriminate.
  destruct (check_clause arities C1 r1 a1 c1 i1) as [C2|] eqn:J2; try discriminate.
  rewrite <- (step2_swap _ _ _ _ _ _ _ _ _ _ _ _ _ _ _ _ _ K1 K2 J1 J2 Hd Hc).
  rewrite (clause_all_In _ _ _ _ _ _ _ _ _ J1 Hd).
  eapply step_ex_iff; eauto. intros e2 D2 C2'. eapply clause_idx_In; eauto.
Qed.

Lemma eval_from_0 : forall items reord e,
  eval_from I swap cont items (Some O) reord e = eval_simple_join I swap cont items reord e.
Proof. intros items reord e; destruct items; reflexivity. Qed.
Lemma check_from_0 : forall B items reord,
  check_from arities B items (Some O) reord = check_simple_join arities B items reord.
Proof. intros B items reord; destruct items; reflexivity. Qed.

Lemma from_equiv : forall sj items reord B B' e,
  check_from arities B items sj reord = Some B' -> static_total dyn items = true ->
  forallb no_agg_item (map item_of items) = true -> dom e B -> canon e ->
  forall e', In e' (eval_from I swap cont items sj reord e) <-> In e' (naive (dv items) (map item_of items) e).
Proof.
  intros [n|]; [|intros items reord B B' e Hk Hst Hna Hd Hc e'; destruct items; eapply items_equiv; eauto].
  induction n as [|n IH]; intros items reord B B' e Hk Hst Hna Hd Hc e'.
  - rewrite eval_from_0. rewrite check_from_0 in Hk. eapply sj_equiv; eauto.
  - destruct items as [|p rest]; [discriminate|].
    pose proof (static_total_cons _ _ Hst) as [_ Hst'].
    cbn [map forallb] in Hna. apply andb_true_iff in Hna; destruct Hna as [Hna1 Hna].
    destruct p as [r args cs idx ver|c|x g xs|out a bd r args idx]; try discriminate.
    + cbn [check_from] in Hk. destruct (check_cond B c) as [B1|] eqn:Ek; try discriminate.
      change (dv (PCond c :: rest)) with (dv rest). cbn [map item_of all_envs_a eval_from].
      destruct (sat_cond I e c) as [e1|] eqn:Es; [|tauto].
      destruct (sat_cond_sound _ _ _ _ _ Hd Hc Ek Es) as [_ [_ [D1 C1]]]. eapply IH; eauto.
    + cbn [check_from] in Hk. destruct (subv xs B && negb (memv x B)) eqn:Eb; try discriminate.
      change (dv (PGen x g xs :: rest)) with (dv rest). cbn [map item_of all_envs_a eval_from].
      destruct (eval_vars e xs) as [vs|]; [|tauto]. rewrite !in_flat_map.
      split; intros [v [Hv Hin]]; exists v; split; auto;
        eapply (IH rest reord (x :: B) B' (bind x v e)); eauto using dom_bind, canon_bind.
Qed.

(* ---------- the any-relation-empty skip ---------- *)
Lemma empty_naive : forall items e e',
  existsb (clause_empty cont) items = true -> static_total dyn items = true ->
  forallb no_agg_item (map item_of items) = true ->
  ~ In e' (naive (dv items) (map item_of items) e).
Proof.
  induction items as [|p rest IH]; intros e e' Hex Hst Hna Hin; [discriminate|].
  pose proof (static_total_cons _ _ Hst) as [_ Hst'].
  cbn [map forallb] in Hna. apply andb_true_iff in Hna; destruct Hna as [Hna1 Hna].
  cbn [existsb] in Hex.
  destruct p as [r args cs idx ver|c|x g xs|out a bd r args idx]; try discriminate.
  - rewrite naive_clause in Hin by auto. apply naive_step_In in Hin.
    destruct Hin as [tup [e1 [e2 [Ht [_ [_ Hin]]]]]].
    cbn [clause_empty] in Hex. destruct (cont r ver) eqn:Ec; [contradiction|].
    cbn in Hex. eapply IH; eauto.
  - cbn in Hex. change (dv (PCond c :: rest)) with (dv rest) in Hin. cbn [map item_of all_envs_a] in Hin.
    destruct (sat_cond I e c); [|contradiction]. eapply IH; eauto.
  - cbn in Hex. change (dv (PGen x g xs :: rest)) with (dv rest) in Hin. cbn [map item_of all_envs_a] in Hin.
    destruct (eval_vars e xs); [|contradiction]. apply in_flat_map in Hin. destruct Hin as [v [_ Hin]].
    eapply IH; eauto.
Qed.

Lemma variant_equiv : forall v,
  variant_wf arities dyn v = true ->
  forall f, In f (eval_variant I swap cont v) <-> In f (derive_variant I cont dyn v).
Proof.
  intros v Hwf f. unfold variant_wf in Hwf.
  apply andb_true_iff in Hwf; destruct Hwf as [Hwf Hk]. apply andb_true_iff in Hwf; destruct Hwf as [Hst Hna].
  destruct (check_from arities [] (v_items v) (v_sj v) (v_reord v)) as [B'|] eqn:Ek; try discriminate.
  unfold eval_variant, derive_variant.
  match goal with |- In f (if ?c then _ else _) <-> _ => destruct c eqn:Eskip end.
  - apply andb_true_iff in Eskip; destruct Eskip as [_ Hex].
    split; [intros []|]. rewrite in_flat_map. intros [e [He _]]. exfalso. eapply empty_naive; eauto.
  - rewrite !in_flat_map. split; intros [e [He Hf]]; exists e; split; auto;
      eapply (from_equiv _ _ _ [] B' []); eauto using dom_nil; exact Logic.I.
Qed.

End Cont.

(* ---------- the contents of an SCC state have the declared arities ---------- *)
Lemma db_of_len : forall arities F r tup n,
  arities_functional arities -> wf_facts arities F = true ->
  In tup (db_of F r) -> arity_ok arities r n = true -> length tup = n.
Proof.
  intros arities F r tup n Hf Hwf Hin Har. unfold db_of in Hin.
  apply in_map_iff in Hin. destruct Hin as [[r' t] [Hs Hin]]. cbn in Hs; subst t.
  apply filter_In in Hin. destruct Hin as [Hin Hr]. cbn in Hr. apply Nat.eqb_eq in Hr; subst r'.
  unfold wf_facts in Hwf. rewrite forallb_forall in Hwf. specialize (Hwf _ Hin).
  unfold wf_fact in Hwf. apply existsb_exists in Hwf. destruct Hwf as [[q m] [Hq Hqm]]. cbn in Hqm.
  apply andb_true_iff in Hqm; destruct Hqm as [Hq1 Hq2]. apply Nat.eqb_eq in Hq1, Hq2. subst q m.
  unfold arity_ok in Har. apply existsb_exists in Har. destruct Har as [[q m] [Hq' Hqm]]. cbn in Hqm.
  apply andb_true_iff in Hqm; destruct Hqm as [Hq1 Hq2]. apply Nat.eqb_eq in Hq1, Hq2. subst q m.
  eapply Hf; eauto.
Qed.

Lemma contents_len : forall arities S T D dyn r ver tup n,
  arities_functional arities ->
  wf_facts arities S = true -> wf_facts arities T = true -> wf_facts arities D = true ->
  In tup (contents S T D dyn r ver) -> arity_ok arities r n = true -> length tup = n.
Proof.
  intros arities S T D dyn r ver tup n Hf HS HT HD Hin Har. unfold contents in Hin.
  destruct (is_dyn dyn r).
  - destruct ver.
    + eapply (db_of_len arities T); eauto.
    + eapply (db_of_len arities D); eauto.
    + apply in_app_or in Hin. destruct Hin; [eapply (db_of_len arities T)|eapply (db_of_len arities D)]; eauto.
  - eapply (db_of_len arities S); eauto.
Qed.

End Spec.

(* the hypotheses are satisfiable on a reorderable simple join, and both traversal orders are exercised *)
Definition ex_I : interp :=
  {| fint := fun _ _ => 0; pint := fun _ _ => true; bint := fun _ _ => None; gint := fun _ _ => []; aint := fun _ _ => [] |}.
Definition ex_variant : variant :=
  {| v_rule := 0%nat; v_heads := [(2%nat, [TVar 0%nat; TVar 2%nat])];
     v_items := [PClause 0%nat [TVar 0%nat; TVar 1%nat] [] [1%nat] VDelta; PClause 1%nat [TVar 1%nat; TVar 2%nat] [] [0%nat] VTotal];
     v_sj := Some 0%nat; v_reord := true |}.
Definition ex_ar : list (rel * nat) := [(0, 2); (1, 2); (2, 2)]%nat.
Definition ex_S : list fact := [(1%nat, [2; 3]); (1%nat, [2; 4]); (1%nat, [5; 6])].
Definition ex_D : list fact := [(0%nat, [1; 2]); (0%nat, [7; 5]); (0%nat, [8; 9])].
Example eval_variant_spec_instance :
  variant_wf ex_ar [0%nat; 2%nat] ex_variant = true
  /\ eval_variant ex_I (fun _ _ => true) (contents ex_S [] ex_D [0%nat; 2%nat]) ex_variant
     = [(2%nat, [1; 3]); (2%nat, [1; 4]); (2%nat, [7; 6])]
  /\ eval_variant ex_I (fun _ _ => false) (contents ex_S [] ex_D [0%nat; 2%nat]) ex_variant
     = [(2%nat, [1; 3]); (2%nat, [1; 4]); (2%nat, [7; 6])]
  /\ derive_variant ex_I (contents ex_S [] ex_D [0%nat; 2%nat]) [0%nat; 2%nat] ex_variant
     = [(2%nat, [1; 3]); (2%nat, [1; 4]); (2%nat, [7; 6])].
Proof. vm_compute. repeat split. Qed.
Print Assumptions eval_variant_spec_instance.

Theorem eval_variant_spec : forall I swap, eval_variant_spec_stmt I swap.
Proof.
  intros I swap arities S T D dyn v Hf HS HT HD Hwf f.
  apply variant_equiv with (arities := arities); auto.
  intros r ver tup n Hin Har. eapply (contents_len arities S T D); eauto.
Qed.

Print Assumptions eval_variant_spec.
