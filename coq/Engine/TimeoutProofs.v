(* run_timeout (C14): whatever the clock does, the program value left behind holds the
   input in place and only derivable facts, each added once; the flag `true` means the
   least model; a clock that never fires makes run_timeout coincide with run. *)
From Coq Require Import List ZArith Bool Arith Lia.
From AV Require Import Engine.Core Engine.Sem Engine.Eval Engine.Validate Engine.Naive Engine.Interface Engine.Timeout.
From AV Require Import Engine.InterfaceTimeout Engine.NaiveLemmas Engine.Strata Engine.SemiNaive.
Import ListNotations.
Local Open Scope nat_scope.

(* ---------- TDone is a completed run_scc ---------- *)
Lemma scc_loop_t_done : forall I swap deadline fuel sc S T D R k T' R' k',
  scc_loop_t I swap deadline fuel sc S T D R k = Some (inl (T', R', k')) ->
  scc_loop I swap fuel sc S T D R = Some (T', R').
Proof.
  intros I swap deadline. induction fuel as [|fuel IH]; intros sc S T D R k T' R' k' H; [discriminate|].
  cbn [scc_loop_t] in H. cbn [scc_loop]. destruct (scc_iteration I swap sc S T D R) as [N R''] eqn:Hit.
  destruct N as [|f N].
  - injection H as <- <- _. reflexivity.
  - destruct (deadline k); [discriminate|]. apply (IH _ _ _ _ _ _ _ _ _ H).
Qed.

Lemma run_scc_t_done : forall I swap deadline fuel sc st k st' k',
  run_scc_t I swap deadline fuel sc st k = TDone st' k' -> run_scc I swap fuel sc st = Some st'.
Proof.
  intros I swap deadline fuel sc st k st' k' H. unfold run_scc_t in H. unfold run_scc.
  destruct (s_loop sc).
  - destruct (scc_loop_t I swap deadline fuel sc _ [] _ (rows st) k) as [[[[T R] k1] | R]|] eqn:Hl; try discriminate.
    injection H as <- _. rewrite (scc_loop_t_done _ _ _ _ _ _ _ _ _ _ _ _ _ Hl). reflexivity.
  - destruct (scc_iteration I swap sc _ [] _ (rows st)) as [N R]. destruct (deadline k); [discriminate|].
    injection H as <- _. reflexivity.
Qed.

Lemma run_sccs_t_true : forall I swap deadline fuel pl st k st',
  run_sccs_t I swap deadline fuel pl st k = Some (true, st') -> run_sccs I swap fuel pl st = Some st'.
Proof.
  intros I swap deadline fuel. induction pl as [|sc pl IH]; intros st k st' H.
  - cbn [run_sccs_t] in H. injection H as <-. reflexivity.
  - cbn [run_sccs_t] in H. cbn [run_sccs].
    destruct (run_scc_t I swap deadline fuel sc st k) as [st1 k1 | R |] eqn:H1; try discriminate.
    rewrite (run_scc_t_done _ _ _ _ _ _ _ _ _ H1). apply (IH _ _ _ H).
Qed.

(* ---------- a clock that never fires ---------- *)
Lemma scc_loop_t_never : forall I swap fuel sc S T D R k,
  match scc_loop I swap fuel sc S T D R with
  | Some (T', R') => exists k', scc_loop_t I swap (fun _ => false) fuel sc S T D R k = Some (inl (T', R', k'))
  | None => scc_loop_t I swap (fun _ => false) fuel sc S T D R k = None
  end.
Proof.
  intros I swap. induction fuel as [|fuel IH]; intros sc S T D R k; [reflexivity|].
  cbn [scc_loop scc_loop_t]. destruct (scc_iteration I swap sc S T D R) as [N R'] eqn:Hit.
  destruct N as [|f N]; [exists k; reflexivity|]. apply IH.
Qed.

Lemma run_scc_t_never : forall I swap fuel sc st k,
  match run_scc I swap fuel sc st with
  | Some st' => exists k', run_scc_t I swap (fun _ => false) fuel sc st k = TDone st' k'
  | None => run_scc_t I swap (fun _ => false) fuel sc st k = TFuel
  end.
Proof.
  intros I swap fuel sc st k. unfold run_scc, run_scc_t. destruct (s_loop sc).
  - pose proof (scc_loop_t_never I swap fuel sc
                  (filter (fun f => negb (fact_dyn (s_dyn sc) f)) (stored st)) []
                  (filter (fact_dyn (s_dyn sc)) (stored st)) (rows st) k) as H.
    destruct (scc_loop I swap fuel sc _ [] _ (rows st)) as [[T R]|].
    + destruct H as [k' H]. rewrite H. exists k'. reflexivity.
    + rewrite H. reflexivity.
  - destruct (scc_iteration I swap sc _ [] _ (rows st)) as [N R]. exists (S k). reflexivity.
Qed.

Lemma run_sccs_t_never : forall I swap fuel pl st k,
  run_sccs_t I swap (fun _ => false) fuel pl st k = option_map (fun st' => (true, st')) (run_sccs I swap fuel pl st).
Proof.
  intros I swap fuel. induction pl as [|sc pl IH]; intros st k; [reflexivity|].
  cbn [run_sccs_t run_sccs]. pose proof (run_scc_t_never I swap fuel sc st k) as H.
  destruct (run_scc I swap fuel sc st) as [st1|].
  - destruct H as [k' H]. rewrite H. apply IH.
  - rewrite H. reflexivity.
Qed.

Theorem run_timeout_never : forall I swap, run_timeout_never_stmt I swap.
Proof. intros I swap fuel pl st. unfold run_timeout, run_plan. apply run_sccs_t_never. Qed.

(* ---------- the timed-out SCC: the loop invariant (Idx + Snd) still holds ---------- *)
Section SccT.
Variable I : interp.
Variable swap : list tuple -> list tuple -> bool.
Hypothesis Hspec : eval_variant_spec_stmt I swap.
Variable deadline : nat -> bool.
Variable arities : list (rel * nat).
Variable P : list rule.
Hypothesis Hfun : arities_functional arities.
Hypothesis Hnoagg : no_agg P = true.
Variable sc : pscc.
Hypothesis Hok : scc_ok arities P sc = true.
Variable S : list fact.
Variable R0 : list fact.
Hypothesis HwfS : forall f, In f S -> wf_fact arities f = true.
Hypothesis HS_R0 : incl S R0.

Lemma scc_loop_t_out : forall fuel T D R k R',
  Inv' I arities P sc R0 (T ++ D) R ->
  scc_loop_t I swap deadline fuel sc S T D R k = Some (inr R') ->
  exists X, Inv' I arities P sc R0 X R'.
Proof.
  induction fuel as [|fuel IH]; intros T D R k R' Hinv H; [discriminate|].
  cbn [scc_loop_t] in H. destruct (scc_iteration I swap sc S T D R) as [N R''] eqn:Hit.
  pose proof (step_inv I swap Hspec arities P Hfun Hnoagg sc Hok S R0 HwfS HS_R0 T D R N R'' Hinv Hit) as Hinv'.
  destruct N as [|f N]; [discriminate|]. destruct (deadline k).
  - injection H as <-. exists ((T ++ D) ++ f :: N). exact Hinv'.
  - apply (IH _ _ _ _ _ Hinv' H).
Qed.

(* what the invariant says about the rows alone *)
Lemma inv_rows : forall X R,
  (forall f, In f R0 -> wf_fact arities f = true) ->
  Inv' I arities P sc R0 X R ->
  (forall f, In f R -> wf_fact arities f = true)
  /\ (exists A, R = R0 ++ A /\ NoDup A /\ forall f, In f A -> ~ In f R0)
  /\ (forall M, closed I P M -> incl R0 M -> incl R M).
Proof.
  intros X R HwfR0 Hinv. unfold Inv' in Hinv. cbv zeta in Hinv.
  destruct Hinv as [Hwf [Hidx [[A [HR [Hnd HA]]] Hsnd]]]. split; [|split].
  - intros f Hf. pose proof Hf as Hf'. rewrite HR in Hf'. apply in_app_or in Hf' as [Hf' | Hf'].
    + apply HwfR0. exact Hf'.
    + apply Hwf. apply Hidx. split; [exact Hf|]. unfold fact_dyn. apply (hr_dyn arities P sc Hok).
      apply HA. exact Hf'.
  - exists A. split; [exact HR|]. split; [exact Hnd|]. intros f Hf. apply HA. exact Hf.
  - exact Hsnd.
Qed.
End SccT.

Lemma run_scc_t_out : forall I swap deadline arities P sc fuel st k R,
  eval_variant_spec_stmt I swap -> arities_functional arities -> no_agg P = true ->
  scc_ok arities P sc = true ->
  (forall f, In f (stored st) <-> In f (rows st)) ->
  (forall f, In f (rows st) -> wf_fact arities f = true) ->
  run_scc_t I swap deadline fuel sc st k = TOut R ->
  (forall f, In f R -> wf_fact arities f = true)
  /\ (exists A, R = rows st ++ A /\ NoDup A /\ forall f, In f A -> ~ In f (rows st))
  /\ (forall M, closed I P M -> incl (rows st) M -> incl R M).
Proof.
  intros I swap deadline arities P sc fuel st k R Hspec Hfun Hna Hok Hsr Hwf Hrun.
  set (dyn := s_dyn sc) in *.
  set (D0 := filter (fact_dyn dyn) (stored st)).
  set (S := filter (fun f => negb (fact_dyn dyn f)) (stored st)).
  assert (HwfS : forall f, In f S -> wf_fact arities f = true).
  { intros f Hf. apply filter_In in Hf as [Hf _]. apply Hwf. apply Hsr. exact Hf. }
  assert (HS_R0 : incl S (rows st)).
  { intros f Hf. apply filter_In in Hf as [Hf _]. apply Hsr. exact Hf. }
  assert (HD0 : forall f, In f D0 <-> In f (rows st) /\ fact_dyn dyn f = true).
  { intros f. unfold D0. rewrite filter_In, Hsr. reflexivity. }
  pose proof (inv_init I arities P sc (rows st) D0 Hwf HD0) as Hinit.
  assert (HX : exists X, Inv' I arities P sc (rows st) X R).
  { unfold run_scc_t in Hrun. fold dyn in Hrun. fold D0 in Hrun. fold S in Hrun. destruct (s_loop sc).
    - destruct (scc_loop_t I swap deadline fuel sc S [] D0 (rows st) k) as [[[[T R1] k1] | R1]|] eqn:Hl;
        try discriminate. injection Hrun as <-.
      apply (scc_loop_t_out I swap Hspec deadline arities P Hfun Hna sc Hok S (rows st) HwfS HS_R0
               fuel [] D0 (rows st) k R1 Hinit Hl).
    - destruct (scc_iteration I swap sc S [] D0 (rows st)) as [N R1] eqn:Hit.
      destruct (deadline k); [|discriminate]. injection Hrun as <-. exists (([] ++ D0) ++ N).
      apply (step_inv I swap Hspec arities P Hfun Hna sc Hok S (rows st) HwfS HS_R0 [] D0 (rows st) N R1 Hinit Hit). }
  destruct HX as [X HX]. apply (inv_rows I arities P sc Hok (rows st) X R Hwf HX).
Qed.

(* ---------- across SCCs: the sound / prefix part of the invariant J ---------- *)
Section RunT.
Variable I : interp.
Variable swap : list tuple -> list tuple -> bool.
Hypothesis Hspec : eval_variant_spec_stmt I swap.
Variable deadline : nat -> bool.
Variable arities : list (rel * nat).
Variable P : list rule.
Hypothesis Hfun : arities_functional arities.
Hypothesis Hnoagg : no_agg P = true.
Variable F0 : list fact.

Definition Jr (R : list fact) : Prop :=
  (forall f, In f R -> wf_fact arities f = true)
  /\ (exists A, R = F0 ++ A /\ NoDup A /\ forall f, In f A -> ~ In f F0)
  /\ (forall M, closed I P M -> incl F0 M -> incl R M).

Lemma Jr_extend : forall R R1,
  Jr R ->
  (forall f, In f R1 -> wf_fact arities f = true) ->
  (exists A1, R1 = R ++ A1 /\ NoDup A1 /\ forall f, In f A1 -> ~ In f R) ->
  (forall M, closed I P M -> incl R M -> incl R1 M) ->
  Jr R1.
Proof.
  intros R R1 [_ [[A [HR [HndA HA]]] Hsnd]] Hwf1 [A1 [HR1 [HndA1 HA1]]] Hsnd1. split; [exact Hwf1|]. split.
  - exists (A ++ A1). split; [rewrite HR1, HR, app_assoc; reflexivity|]. split.
    + apply NoDup_app_intro; [exact HndA | exact HndA1 |]. intros f Hf Hf1. apply (HA1 f Hf1).
      rewrite HR. apply in_or_app. right. exact Hf.
    + intros f Hf. apply in_app_or in Hf as [Hf | Hf]; [apply HA; exact Hf|].
      intro Hin. apply (HA1 f Hf). rewrite HR. apply in_or_app. left. exact Hin.
  - intros M Hcl HM. apply Hsnd1; [exact Hcl|]. apply Hsnd; assumption.
Qed.

Lemma run_sccs_t_sound : forall fuel rest st k b st',
  forallb (scc_ok arities P) rest = true ->
  (forall f, In f (stored st) <-> In f (rows st)) -> Jr (rows st) ->
  run_sccs_t I swap deadline fuel rest st k = Some (b, st') -> Jr (rows st').
Proof.
  intros fuel. induction rest as [|sc rest IH]; intros st k b st' Hoks Hsr HJ Hrun.
  - cbn [run_sccs_t] in Hrun. injection Hrun as _ <-. exact HJ.
  - cbn [run_sccs_t] in Hrun. cbn [forallb] in Hoks. apply andb_true_iff in Hoks as [Hok Hoks].
    pose proof HJ as [Hwf _].
    destruct (run_scc_t I swap deadline fuel sc st k) as [st1 k1 | R |] eqn:H1; [| |discriminate].
    + apply run_scc_t_done in H1.
      destruct (run_scc_spec I swap arities P sc fuel st st1 Hspec Hfun Hnoagg Hok Hsr Hwf H1)
        as [Hsr1 [Hwf1 [[A1 [HR1 [Hnd1 HA1]]] [Hsnd1 _]]]].
      apply (IH st1 k1 b st' Hoks Hsr1); [|exact Hrun].
      apply (Jr_extend (rows st) (rows st1) HJ Hwf1); [|exact Hsnd1].
      exists A1. split; [exact HR1|]. split; [exact Hnd1|]. intros f Hf. apply HA1. exact Hf.
    + injection Hrun as _ <-. cbn [rows].
      destruct (run_scc_t_out I swap deadline arities P sc fuel st k R Hspec Hfun Hnoagg Hok Hsr Hwf H1)
        as [Hwf1 [HA1 Hsnd1]].
      apply (Jr_extend (rows st) R HJ Hwf1 HA1 Hsnd1).
Qed.
End RunT.

Theorem run_timeout_correct : forall I swap, eval_variant_spec_stmt I swap -> run_timeout_correct_stmt I swap.
Proof.
  intros I swap Hspec deadline arities P pl fuel F0 b st Hfun HwfF0 Hna Hval Hrun.
  unfold run_timeout in Hrun.
  assert (Hoks : forallb (scc_ok arities P) pl = true).
  { unfold validate in Hval. apply andb_true_iff in Hval as [H _]. exact H. }
  assert (HJ0 : Jr I arities P F0 (rows (update_indices (init_state F0)))).
  { cbn [update_indices init_state rows]. split; [apply wf_facts_forall; exact HwfF0|]. split.
    - exists []. rewrite app_nil_r. split; [reflexivity|]. split; [constructor | intros f []].
    - intros M _ HM. exact HM. }
  assert (Hsr0 : forall f, In f (stored (update_indices (init_state F0))) <-> In f (rows (update_indices (init_state F0)))).
  { intros f. cbn. reflexivity. }
  destruct (run_sccs_t_sound I swap Hspec deadline arities P Hfun Hna F0 fuel pl _ 0 b st Hoks Hsr0 HJ0 Hrun)
    as [Hwf [HA Hsnd]].
  split; [intros M HM Hcl; apply Hsnd; assumption|]. split; [exact HA|]. split; [apply wf_facts_forall; exact Hwf|].
  intros ->. apply run_sccs_t_true in Hrun.
  destruct (run_plan_correct I swap Hspec arities P pl fuel F0 st Hfun HwfF0 Hna Hval Hrun) as [Hlm _]. exact Hlm.
Qed.

Print Assumptions run_timeout_correct.
Print Assumptions run_timeout_never.
