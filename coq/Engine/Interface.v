(* Shared statements between the two halves of the engine proof:
   EvalSpec.v proves [eval_variant_spec_stmt]; SemiNaive.v assumes it (as a
   Section hypothesis) and derives the stratum / program theorems; Main.v
   instantiates. *)
From Coq Require Import List ZArith Bool Arith.
From AV Require Import Engine.Core Engine.Sem Engine.Eval Engine.Validate Engine.Naive.
Import ListNotations.

(* the part of Validate.variant_ok that does not depend on the program *)
Definition variant_wf (arities : list (rel * nat)) (dyn : list rel) (v : variant) : bool :=
  static_total dyn (v_items v)
  && forallb no_agg_item (map item_of (v_items v))
  && match check_from arities [] (v_items v) (v_sj v) (v_reord v) with
     | Some B => heads_ok arities B (v_heads v)
     | None => false
     end.

(* what a variant means: naive evaluation of its body with its version vector, heads instantiated *)
Definition derive_variant (I : interp) (cont : rel -> version -> list tuple) (dyn : list rel) (v : variant) : list fact :=
  flat_map (fun e => filter_map (eval_head I e) (v_heads v))
           (all_envs_a I cont dyn (dyn_versions dyn (v_items v)) (map item_of (v_items v)) []).

Definition eval_variant_spec_stmt (I : interp) (swap : list tuple -> list tuple -> bool) : Prop :=
  forall arities S T D dyn v,
    arities_functional arities ->
    wf_facts arities S = true -> wf_facts arities T = true -> wf_facts arities D = true ->
    variant_wf arities dyn v = true ->
    forall f, In f (eval_variant I swap (contents S T D dyn) v) <-> In f (derive_variant I (contents S T D dyn) dyn v).

(* the final statement of C01 / C05 (serial) about the model *)
Definition run_plan_correct_stmt (I : interp) (swap : list tuple -> list tuple -> bool) : Prop :=
  forall arities P pl fuel F0 st,
    arities_functional arities -> wf_facts arities F0 = true -> no_agg P = true ->
    validate arities P pl = true ->
    run_plan I swap fuel pl (init_state F0) = Some st ->
    least_model I P F0 (rows st)
    /\ exists added, rows st = F0 ++ added /\ NoDup added /\ (forall f, In f added -> ~ In f F0).
