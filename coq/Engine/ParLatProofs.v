(* C02 / C05, lattice half - proofs about the parallel lattice head update (model: Engine/ParLat.v).

   For an arbitrary key type with decidable equality, an arbitrary value type with an order [le] and a join_mut
   [jm] satisfying LatSem.lat_laws (partial order on its domain, jm = least upper bound, a false changed-flag
   implies argument <= receiver; proved for every shipped lattice type in LatEngine/LatC16.v), an arbitrary
   assignment [mx] of keys to key mutexes (collisions allowed), both orders [kfirst] of the index insertions,
   arbitrary frozen delta / total key indices, EVERY distribution [work] of the contributions over any number of
   workers and EVERY schedule (list of worker numbers), from an initial state satisfying [init_ok] (one row per
   key; new / delta / total key indices sound and complete for the rows; new's indices only filled together with
   the flag; all values lattice elements - [fresh_init_ok]: in particular new empty, flag false):

   (a) parlat_one_row_per_key   NoDup (map fst rows) in every reachable state (finished or not).
       parlat_rows_in_place     input rows keep their position and key and are only raised.
   (b) parlat_values_lub        after every finishing schedule, the row of key k holds THE least upper bound of
                                {initial value of k} + {all contributions for k}; a key has a row iff that set is
                                non-empty ([lubrows]).
       parlat_values            = the value map of the serial head-update fold [ser_run] over concat work.
       parlat_keys_untouched    keys without contributions keep their value (and no row appears for them).
       parlat_distribution_schedule_independent   two distributions of the same set of contributions, two
                                finishing schedules: equal value maps.
   (c) parlat_changed           finishing schedule, initial flag false (then new is empty by init_ok), final flag
                                false  ->  rows = initial rows and new's key index is empty.  (The converse
                                "flag true -> something changed" needs an EXACT changed-flag of join_mut, which
                                lat_laws does not demand; it is not needed for correctness and is not proved.)
   (d) parlat_reindexed         after every finishing schedule each row either is literally the input row or
                                has its number in new's key index AND in the other indices - membership only:
       parlat_reindexed_once    the other indices are SET-backed in parallel mode since /repo d5edf35 (CLatIndex, like the
                                serial macro's HashSet per key): for every schedule the other indices list a row
                                number once (NoDup), so an aggregate over the relation sees each row once.
       parlat_reindexed_once_before_fix_refuted   with the VEC-backed indices of the code before that repair
                                (CRelIndex / CRelNoIndex; [setidx] = false) two workers that both read
                                new_has_ind = false for an existing row both insert its number: closed witness
                                (2 workers, row (7,0), contributions (7,1) and (7,2), schedule [dup_sched]):
                                the row number is in new's other indices twice.
   (e) parlat_progress          every reachable unfinished state has an enabled worker;
       parlat_blocked_holder_enabled   a worker blocked at a key mutex: another worker holds it and is enabled;
       enabled_step_decreases / disabled_step   an enabled step decreases [measure] (<= 9 per contribution), a
                                non-enabled step is the identity;
       parlat_can_finish        every reachable state can be completed to a finished one.
   Proof method: four invariants (inv1 structure + mutual exclusion, inv2 values, inv3 flag, inv4 re-indexing),
   each with one generic lemma [mk_inv*] that does the reasoning about the other workers once, and one case
   split over the 11 program counters. *)
From Coq Require Import List ZArith Bool Arith Lia.
From AV Require Import Engine.ParLat.
From AV Require Import LatEngine.LatSem.
Import ListNotations.
Local Open Scope nat_scope.

(* ---------- lists ---------- *)
Lemma nth_error_upd_nth : forall (A : Type) i (x : A) l j,
  nth_error (upd_nth i x l) j =
  if Nat.eqb j i then match nth_error l i with Some _ => Some x | None => None end else nth_error l j.
Proof.
  intros A. induction i as [|i IH]; intros x l j; destruct l as [|a l]; cbn [upd_nth].
  - destruct j; reflexivity.
  - destruct j; reflexivity.
  - destruct j; cbn; try reflexivity. destruct (Nat.eqb j i); reflexivity.
  - destruct j; cbn [nth_error]; [reflexivity|]. rewrite IH. reflexivity.
Qed.

Lemma upd_nth_length : forall (A : Type) i (x : A) l, length (upd_nth i x l) = length l.
Proof. intros A. induction i; intros x [|a l]; cbn; auto. Qed.

Lemma upd_nth_same : forall (A : Type) i (x : A) l, nth_error l i = Some x -> upd_nth i x l = l.
Proof.
  intros A. induction i; intros x [|a l] H; cbn in *; try discriminate; auto.
  - injection H as ->. reflexivity.
  - f_equal. auto.
Qed.

Lemma nth_error_snoc : forall (A : Type) (l : list A) x j y,
  nth_error (l ++ [x]) j = Some y -> nth_error l j = Some y \/ (j = length l /\ y = x).
Proof.
  intros A l x j y H. destruct (Nat.ltb_spec j (length l)) as [Hlt|Hge].
  - rewrite nth_error_app1 in H by exact Hlt. left. exact H.
  - rewrite nth_error_app2 in H by exact Hge. destruct (j - length l) as [|d] eqn:Hd.
    + cbn in H. injection H as <-. right. split; [lia | reflexivity].
    + cbn in H. destruct d; discriminate.
Qed.

Lemma nth_error_snoc_old : forall (A : Type) (l : list A) x j y,
  nth_error l j = Some y -> nth_error (l ++ [x]) j = Some y.
Proof. intros A l x j y H. rewrite nth_error_app1; [exact H|]. apply nth_error_Some. congruence. Qed.

Lemma nth_error_snoc_new : forall (A : Type) (l : list A) x, nth_error (l ++ [x]) (length l) = Some x.
Proof. intros. rewrite nth_error_app2 by lia. rewrite Nat.sub_diag. reflexivity. Qed.
Section Proofs.
Context {K V : Type}.
Variable keqb : K -> K -> bool.
Hypothesis keqb_spec : forall a b, keqb a b = true <-> a = b.
Variable le : V -> V -> Prop.
Variable jm : V -> V -> V * bool.
Hypothesis Hlaws : lat_laws le jm.
Variable mx : K -> nat.
Variable kfirst : bool.
Variable setidx : bool.
Variables dl tt : K -> option nat.

Notation pstate := (@pstate K V).
Notation worker := (@worker K V).
Notation lpc := (@lpc K V).
Notation stepf := (step keqb jm mx kfirst setidx dl tt).
Notation klk := (klook keqb).

Definition fz (k : K) : option nat := orelse (dl k) (tt k).
Definition hasrow (R : list (K * V)) (i : nat) (k : K) : Prop := exists v, nth_error R i = Some (k, v).
Definition uniq (R : list (K * V)) : Prop := forall i i' k, hasrow R i k -> hasrow R i' k -> i = i'.

Lemma keqb_refl : forall k, keqb k k = true.
Proof. intros k. apply keqb_spec. reflexivity. Qed.
Lemma keqb_neq : forall a b, a <> b -> keqb a b = false.
Proof. intros a b H. destruct (keqb a b) eqn:E; [|reflexivity]. apply keqb_spec in E. contradiction. Qed.
Lemma keqb_dec : forall a b : K, a = b \/ a <> b.
Proof. intros a b. destruct (keqb a b) eqn:E; [left; apply keqb_spec; exact E | right; intros ->; rewrite keqb_refl in E; discriminate]. Qed.

Lemma klk_cons : forall k k' i nk, klk k ((k', i) :: nk) = if keqb k k' then Some i else klk k nk.
Proof. reflexivity. Qed.

(* ---------- workers ---------- *)
Lemma ws_upd_inv : forall (ws : list worker) j w w' j' w'',
  nth_error ws j = Some w -> nth_error (upd_nth j w' ws) j' = Some w'' ->
  (j' = j /\ w'' = w') \/ (j' <> j /\ nth_error ws j' = Some w'').
Proof.
  intros ws j w w' j' w'' Hw H. rewrite nth_error_upd_nth in H. destruct (Nat.eqb_spec j' j) as [->|Hne].
  - rewrite Hw in H. injection H as <-. left. auto.
  - right. auto.
Qed.
Lemma ws_upd_same : forall (ws : list worker) j w w', nth_error ws j = Some w -> nth_error (upd_nth j w' ws) j = Some w'.
Proof. intros. rewrite nth_error_upd_nth, Nat.eqb_refl, H. reflexivity. Qed.
Lemma ws_upd_other : forall (ws : list worker) j w' j' w'', j' <> j -> nth_error ws j' = Some w'' -> nth_error (upd_nth j w' ws) j' = Some w''.
Proof. intros. rewrite nth_error_upd_nth. destruct (Nat.eqb_spec j' j); [contradiction|assumption]. Qed.

(* ---------- the structural invariant (one row per key, mutual exclusion) ---------- *)
Definition pushing (p : lpc) (k : K) (i : nat) : Prop :=
  match p with
  | PIns1 k' i' true => k' = k /\ i' = i
  | PIns2 k' i' true => kfirst = false /\ k' = k /\ i' = i
  | _ => False
  end.

Definition holding (p : lpc) : option nat :=
  match p with
  | PRecheck k _ | PJoinM k _ _ | PPush k _ | PUnlock k => Some (mx k)
  | PIns1 k _ true | PIns2 k _ true | PFlag k true => Some (mx k)
  | _ => None
  end.

Definition wlocal (R : list (K * V)) (nk : list (K * nat)) (p : lpc) : Prop :=
  match p with
  | PLook k v r => forall i, r = Some i -> hasrow R i k /\ klk k nk = Some i
  | PJoin k v i nh => hasrow R i k /\ (nh = true -> klk k nk = Some i)
  | PIns1 k i m | PIns2 k i m => hasrow R i k
  | PLock k v | PRecheck k v => fz k = None
  | PJoinM k v i => hasrow R i k /\ klk k nk = Some i
  | PPush k v => forall i, ~ hasrow R i k
  | _ => True
  end.

Record inv1 (s : pstate) : Prop := {
  i_uniq : uniq (lrows s);
  i_ks : forall k i, klk k (lnkey s) = Some i -> hasrow (lrows s) i k;
  i_fs : forall k i, fz k = Some i -> hasrow (lrows s) i k;
  i_cp : forall i k, hasrow (lrows s) i k ->
         klk k (lnkey s) = Some i \/ fz k = Some i \/
         exists j w, nth_error (lws s) j = Some w /\ pushing (wpc w) k i;
  i_loc : forall j w, nth_error (lws s) j = Some w -> wlocal (lrows s) (lnkey s) (wpc w);
  i_mx1 : forall j w m, nth_error (lws s) j = Some w -> holding (wpc w) = Some m -> In m (lheld s);
  i_mx2 : forall j1 j2 w1 w2 m, nth_error (lws s) j1 = Some w1 -> nth_error (lws s) j2 = Some w2 ->
          holding (wpc w1) = Some m -> holding (wpc w2) = Some m -> j1 = j2;
  i_mx3 : forall m, In m (lheld s) -> exists j w, nth_error (lws s) j = Some w /\ holding (wpc w) = Some m
}.

Definition mxcase (hd hd' : list nat) (p p' : lpc) : Prop :=
  (hd' = hd /\ holding p' = holding p) \/
  (exists m, holding p = None /\ holding p' = Some m /\ ~ In m hd /\ hd' = m :: hd) \/
  (exists m, holding p = Some m /\ holding p' = None /\ hd' = release m hd).

Lemma in_release : forall x m hd, In x (release m hd) <-> In x hd /\ x <> m.
Proof.
  intros x m hd. unfold release. rewrite filter_In. split; intros [H1 H2]; split; auto.
  - intros ->. rewrite Nat.eqb_refl in H2. discriminate.
  - destruct (Nat.eqb_spec x m); [contradiction|reflexivity].
Qed.

Lemma pushing_holding : forall p k i, pushing p k i -> holding p = Some (mx k).
Proof.
  intros p kk ii H. destruct p; cbn in *; try contradiction; destruct m; try contradiction; cbn.
  - destruct H as [-> _]. reflexivity.
  - destruct H as [_ [-> _]]. reflexivity.
Qed.

Lemma wlocal_mono : forall R nk R' nk' p,
  wlocal R nk p ->
  (forall i k, hasrow R i k -> hasrow R' i k) ->
  (forall k i, klk k nk = Some i -> klk k nk' = Some i) ->
  (forall k v, p = PPush k v -> forall i, ~ hasrow R' i k) ->
  wlocal R' nk' p.
Proof.
  intros R nk R' nk' p H Ha He Hp. destruct p; cbn in *; auto.
  - intros i Hi. destruct (H i Hi). auto.
  - destruct H. split; auto.
  - destruct H. split; auto.
  - eapply Hp. reflexivity.
Qed.

Lemma mk_inv1 : forall s j w R' nk' ot' hd' ch' td' p',
  inv1 s -> nth_error (lws s) j = Some w ->
  (forall i k, hasrow (lrows s) i k -> hasrow R' i k) ->
  uniq R' ->
  (forall i k, hasrow R' i k -> hasrow (lrows s) i k \/ ((exists v, wpc w = PPush k v) /\ pushing p' k i)) ->
  (forall k i, klk k nk' = Some i -> hasrow R' i k) ->
  (forall k i, klk k (lnkey s) = Some i -> klk k nk' = Some i) ->
  (forall k i, pushing (wpc w) k i -> pushing p' k i \/ klk k nk' = Some i) ->
  wlocal R' nk' p' ->
  mxcase (lheld s) hd' (wpc w) p' ->
  inv1 (mk R' nk' ot' hd' ch' s j td' p').
Proof.
  intros s j w R' nk' ot' hd' ch' td' p' I Hw Ha Hb Hc Hd He Hf Hg Hm.
  constructor; cbn [mk lrows lnkey lother lheld lchg lws].
  - exact Hb.
  - exact Hd.
  - intros k i H. apply Ha. apply (i_fs _ I). exact H.
  - intros i k H. destruct (Hc i k H) as [H0 | [_ H0]].
    + destruct (i_cp _ I i k H0) as [H1 | [H1 | [j0 [w0 [H1 H2]]]]]; auto.
      destruct (Nat.eq_dec j0 j) as [->|Hne].
      * rewrite Hw in H1. injection H1 as <-. destruct (Hf k i H2) as [H3|H3]; auto.
        right. right. exists j, {| todo := td'; wpc := p' |}. split; [eapply ws_upd_same; eauto | exact H3].
      * right. right. exists j0, w0. split; [apply ws_upd_other; auto | exact H2].
    + right. right. exists j, {| todo := td'; wpc := p' |}. split; [eapply ws_upd_same; eauto | exact H0].
  - intros j' w' H. destruct (ws_upd_inv _ _ _ _ _ _ Hw H) as [[-> ->] | [Hne H0]]; [exact Hg|].
    eapply wlocal_mono; [apply (i_loc _ I _ _ H0) | exact Ha | exact He |].
    intros k v Hp i Hi. destruct (Hc i k Hi) as [H1 | [[v1 H1] _]].
    + pose proof (i_loc _ I _ _ H0) as L. rewrite Hp in L. cbn in L. exact (L i H1).
    + apply Hne. apply (i_mx2 _ I j' j w' w (mx k)); auto; [rewrite Hp | rewrite H1]; reflexivity.
  - intros j' w' m H Hh. destruct (ws_upd_inv _ _ _ _ _ _ Hw H) as [[-> ->] | [Hne H0]].
    + cbn in Hh. destruct Hm as [[-> Hm] | [[m0 [Hm1 [Hm2 [Hm3 ->]]]] | [m0 [Hm1 [Hm2 ->]]]]].
      * rewrite Hm in Hh. eapply (i_mx1 _ I); eauto.
      * rewrite Hm2 in Hh. injection Hh as <-. left. reflexivity.
      * rewrite Hm2 in Hh. discriminate.
    + pose proof (i_mx1 _ I _ _ _ H0 Hh) as Hin.
      destruct Hm as [[-> Hm] | [[m0 [Hm1 [Hm2 [Hm3 ->]]]] | [m0 [Hm1 [Hm2 ->]]]]]; auto.
      * right. exact Hin.
      * apply in_release. split; [exact Hin|]. intros ->. apply Hne. eapply (i_mx2 _ I); eauto.
  - intros j1 j2 w1 w2 m H1 H2 Hh1 Hh2.
    destruct (ws_upd_inv _ _ _ _ _ _ Hw H1) as [[-> ->] | [Hne1 H01]];
    destruct (ws_upd_inv _ _ _ _ _ _ Hw H2) as [[-> ->] | [Hne2 H02]]; auto.
    + exfalso. cbn in Hh1. destruct Hm as [[-> Hm] | [[m0 [Hm1 [Hm2 [Hm3 ->]]]] | [m0 [Hm1 [Hm2 ->]]]]].
      * rewrite Hm in Hh1. apply Hne2. eapply (i_mx2 _ I); eauto.
      * rewrite Hm2 in Hh1. injection Hh1 as <-. apply Hm3. eapply (i_mx1 _ I); eauto.
      * rewrite Hm2 in Hh1. discriminate.
    + exfalso. cbn in Hh2. destruct Hm as [[-> Hm] | [[m0 [Hm1 [Hm2 [Hm3 ->]]]] | [m0 [Hm1 [Hm2 ->]]]]].
      * rewrite Hm in Hh2. apply Hne1. eapply (i_mx2 _ I); eauto.
      * rewrite Hm2 in Hh2. injection Hh2 as <-. apply Hm3. eapply (i_mx1 _ I); eauto.
      * rewrite Hm2 in Hh2. discriminate.
    + eapply (i_mx2 _ I); eauto.
  - intros m Hin. destruct Hm as [[-> Hm] | [[m0 [Hm1 [Hm2 [Hm3 ->]]]] | [m0 [Hm1 [Hm2 ->]]]]].
    + destruct (i_mx3 _ I m Hin) as [j0 [w0 [H1 H2]]]. destruct (Nat.eq_dec j0 j) as [->|Hne].
      * rewrite Hw in H1. injection H1 as <-. exists j, {| todo := td'; wpc := p' |}.
        split; [eapply ws_upd_same; eauto | cbn; rewrite Hm; exact H2].
      * exists j0, w0. split; [apply ws_upd_other; auto | exact H2].
    + destruct Hin as [<- | Hin].
      * exists j, {| todo := td'; wpc := p' |}. split; [eapply ws_upd_same; eauto | exact Hm2].
      * destruct (i_mx3 _ I m Hin) as [j0 [w0 [H1 H2]]]. destruct (Nat.eq_dec j0 j) as [->|Hne].
        -- rewrite Hw in H1. injection H1 as <-. rewrite Hm1 in H2. discriminate.
        -- exists j0, w0. split; [apply ws_upd_other; auto | exact H2].
    + apply in_release in Hin. destruct Hin as [Hin Hneq].
      destruct (i_mx3 _ I m Hin) as [j0 [w0 [H1 H2]]]. destruct (Nat.eq_dec j0 j) as [->|Hne].
      * rewrite Hw in H1. injection H1 as <-. rewrite Hm1 in H2. injection H2 as ->. contradiction.
      * exists j0, w0. split; [apply ws_upd_other; auto | exact H2].
Qed.

Lemma join_row_keys : forall R i v i' k, hasrow (fst (join_row jm R i v)) i' k <-> hasrow R i' k.
Proof.
  intros R i v i' k. unfold join_row. destruct (nth_error R i) as [[k0 c]|] eqn:E; cbn [fst]; [|tauto].
  unfold hasrow. split; intros [x H].
  - rewrite nth_error_upd_nth in H. destruct (Nat.eqb_spec i' i) as [->|Hne]; [|eauto].
    rewrite E in H. injection H as <- <-. eauto.
  - rewrite nth_error_upd_nth. destruct (Nat.eqb_spec i' i) as [->|Hne]; [|eauto].
    rewrite E in *. injection H as -> ->. eauto.
Qed.

Lemma uniq_keys : forall R R', uniq R -> (forall i k, hasrow R' i k -> hasrow R i k) -> uniq R'.
Proof. intros R R' U H i i' k H1 H2. apply (U i i' k); auto. Qed.

Lemma hasrow_snoc : forall R k v i k', hasrow (R ++ [(k, v)]) i k' -> hasrow R i k' \/ (i = length R /\ k' = k).
Proof.
  intros R k v i k' [x H]. apply nth_error_snoc in H. destruct H as [H | [-> H]]; [left; exists x; exact H|].
  injection H as -> _. right. auto.
Qed.

Lemma hasrow_lt : forall R i k, hasrow R i k -> i < length R.
Proof. intros R i k [v H]. apply nth_error_Some. congruence. Qed.

Lemma klk_ins_sound : forall R nk k i, (forall k0 i0, klk k0 nk = Some i0 -> hasrow R i0 k0) -> hasrow R i k ->
  forall k0 i0, klk k0 ((k, i) :: nk) = Some i0 -> hasrow R i0 k0.
Proof.
  intros R nk k i KS H k0 i0 H0. rewrite klk_cons in H0. destruct (keqb k0 k) eqn:E; [|auto].
  apply keqb_spec in E. subst k0. injection H0 as <-. exact H.
Qed.

Lemma klk_ins_stable : forall R nk k i, uniq R -> (forall k0 i0, klk k0 nk = Some i0 -> hasrow R i0 k0) -> hasrow R i k ->
  forall k0 i0, klk k0 nk = Some i0 -> klk k0 ((k, i) :: nk) = Some i0.
Proof.
  intros R nk k i U KS H k0 i0 H0. rewrite klk_cons. destruct (keqb k0 k) eqn:E; [|auto].
  apply keqb_spec in E. subst k0. f_equal. apply (U i i0 k); auto.
Qed.

Ltac inv1_easy I :=
  cbn [wpc todo holding pushing] in *;
  first [ exact (i_uniq _ I) | exact (i_ks _ I)
        | solve [intros; auto] | solve [intros; left; auto] | solve [left; split; reflexivity]
        | solve [intros; contradiction] | solve [cbn; auto] ].

Lemma step_inv1 : forall s j, inv1 s -> inv1 (stepf s j).
Proof.
  intros s j I. unfold step. destruct (nth_error (lws s) j) as [w|] eqn:Hw; [|exact I].
  pose proof (i_loc _ I _ _ Hw) as L. destruct w as [td p]. cbn [todo wpc] in *.
  destruct p; cbn [wlocal] in L.
  - (* 1 *) destruct td as [|[k v] rest]; [exact I|]. unfold goto.
    eapply mk_inv1; [exact I | exact Hw | ..]; try inv1_easy I.
    cbn. intros i Hi. split; [apply (i_ks _ I); exact Hi | exact Hi].
  - (* 2 *) destruct (orelse r (orelse (dl k) (tt k))) as [i|] eqn:E; unfold goto;
    (eapply mk_inv1; [exact I | exact Hw | ..]; try inv1_easy I).
    + cbn. destruct r as [i0|]; cbn in E.
      * injection E as ->. destruct (L i eq_refl) as [L1 L2]. split; auto.
      * split; [apply (i_fs _ I); exact E | discriminate].
    + cbn. destruct r; [discriminate | exact E].
  - (* 3a *) destruct (join_row jm (lrows s) i v) as [R' ch] eqn:E.
    assert (HR : R' = fst (join_row jm (lrows s) i v)) by (rewrite E; reflexivity).
    assert (Hk : forall i0 k0, hasrow R' i0 k0 <-> hasrow (lrows s) i0 k0) by (intros; rewrite HR; apply join_row_keys).
    destruct L as [L1 L2].
    eapply mk_inv1; [exact I | exact Hw | ..]; try inv1_easy I.
    + intros i0 k0 H. apply Hk. exact H.
    + eapply uniq_keys; [apply (i_uniq _ I) | intros; apply Hk; assumption].
    + intros i0 k0 H. left. apply Hk. exact H.
    + intros k0 i0 H. apply Hk. apply (i_ks _ I). exact H.
    + destruct (ch && negb nh); cbn; [apply Hk; exact L1 | exact Logic.I].
    + left. split; [reflexivity|]. destruct (ch && negb nh); reflexivity.
  - (* ins 1 *) destruct kfirst eqn:Ekf; (eapply mk_inv1; [exact I | exact Hw | ..]; try inv1_easy I).
    + eapply klk_ins_sound; [apply (i_ks _ I) | exact L].
    + eapply klk_ins_stable; [apply (i_uniq _ I) | apply (i_ks _ I) | exact L].
    + intros k0 i0 H. right. destruct m; [|contradiction]. destruct H as [-> ->]. rewrite klk_cons, keqb_refl. reflexivity.
    + intros k0 i0 H. left. destruct m; [|contradiction]. destruct H as [-> ->]. cbn. auto.
  - (* ins 2 *) destruct kfirst eqn:Ekf; (eapply mk_inv1; [exact I | exact Hw | ..]; try inv1_easy I).
    + intros k0 i0 H. destruct m; [|contradiction]. destruct H as [H _]. congruence.
    + eapply klk_ins_sound; [apply (i_ks _ I) | exact L].
    + eapply klk_ins_stable; [apply (i_uniq _ I) | apply (i_ks _ I) | exact L].
    + intros k0 i0 H. right. destruct m; [|contradiction]. destruct H as [_ [-> ->]]. rewrite klk_cons, keqb_refl. reflexivity.
  - (* flag *) eapply mk_inv1; [exact I | exact Hw | ..]; try inv1_easy I.
    + destruct m; exact Logic.I.
    + left. split; [reflexivity|]. destruct m; reflexivity.
  - (* 4 *) destruct (nmem (mx k) (lheld s)) eqn:E; [exact I|].
    eapply mk_inv1; [exact I | exact Hw | ..]; try inv1_easy I.
    right. left. exists (mx k). cbn. repeat split; auto.
    intros Hin. unfold nmem in E. assert (existsb (Nat.eqb (mx k)) (lheld s) = true); [|congruence].
    apply existsb_exists. exists (mx k). split; [exact Hin | apply Nat.eqb_refl].
  - (* 5 *) destruct (klk k (lnkey s)) as [i|] eqn:E; unfold goto; (eapply mk_inv1; [exact I | exact Hw | ..]; try inv1_easy I).
    + cbn. split; [apply (i_ks _ I); exact E | exact E].
    + cbn. intros i Hi. destruct (i_cp _ I i k Hi) as [H | [H | [j0 [w0 [H1 H2]]]]]; try congruence.
      assert (j0 = j).
      { apply (i_mx2 _ I j0 j w0 _ (mx k) H1 Hw); [eapply pushing_holding; eauto | reflexivity]. }
      subst j0. rewrite Hw in H1. injection H1 as <-. cbn in H2. exact H2.
  - (* 6a *) destruct L as [L1 L2].
    assert (Hk : forall i0 k0, hasrow (fst (join_row jm (lrows s) i v)) i0 k0 <-> hasrow (lrows s) i0 k0) by (intros; apply join_row_keys).
    eapply mk_inv1; [exact I | exact Hw | ..]; try inv1_easy I.
    + intros i0 k0 H. apply Hk. exact H.
    + eapply uniq_keys; [apply (i_uniq _ I) | intros; apply Hk; assumption].
    + intros i0 k0 H. left. apply Hk. exact H.
    + intros k0 i0 H. apply Hk. apply (i_ks _ I). exact H.
  - (* 6b *) eapply mk_inv1; [exact I | exact Hw | ..]; try inv1_easy I.
    + intros i k0 [x H]. exists x. apply nth_error_snoc_old. exact H.
    + intros i i' k0 H1 H2. apply hasrow_snoc in H1. apply hasrow_snoc in H2.
      destruct H1 as [H1 | [-> ->]]; destruct H2 as [H2 | [-> H2']]; auto.
      * apply (i_uniq _ I i i' k0); auto.
      * subst k0. exfalso. exact (L _ H1).
      * exfalso. exact (L _ H2).
    + intros i k0 H. apply hasrow_snoc in H. destruct H as [H | [-> ->]]; [left; exact H|].
      right. split; [exists v; reflexivity | cbn; auto].
    + intros k0 i H. destruct (i_ks _ I _ _ H) as [x Hx]. exists x. apply nth_error_snoc_old. exact Hx.
    + cbn. exists v. apply nth_error_snoc_new.
  - (* 7 *) eapply mk_inv1; [exact I | exact Hw | ..]; try inv1_easy I.
    right. right. exists (mx k). cbn. auto.
Qed.

Lemma run_inv1 : forall sched s, inv1 s -> inv1 (run_sched keqb jm mx kfirst setidx dl tt s sched).
Proof. induction sched as [|j sched IH]; intros s I; cbn; [exact I | apply IH, step_inv1, I]. Qed.

Lemma uniq_NoDup : forall R, uniq R <-> NoDup (map fst R).
Proof.
  intros R. split.
  - intros U. apply NoDup_nth_error. intros i j Hi H. rewrite map_length in Hi.
    rewrite !nth_error_map in H. destruct (nth_error R i) as [[k v]|] eqn:E1.
    + destruct (nth_error R j) as [[k' v']|] eqn:E2; cbn in H; [|discriminate]. injection H as <-.
      apply (U i j k); eexists; eauto.
    + apply nth_error_None in E1. lia.
  - intros N i i' k [v H1] [v' H2]. rewrite NoDup_nth_error in N. apply N.
    + rewrite map_length. apply nth_error_Some. congruence.
    + rewrite !nth_error_map, H1, H2. reflexivity.
Qed.

(* ---------- progress ---------- *)
Lemma not_finished : forall ws : list worker, forallb wdone ws = false -> exists j w, nth_error ws j = Some w /\ wdone w = false.
Proof.
  induction ws as [|w ws IH]; cbn; [discriminate|]. intros H. destruct (wdone w) eqn:E.
  - cbn in H. destruct (IH H) as [j [w' [H1 H2]]]. exists (S j), w'. auto.
  - exists 0, w. auto.
Qed.

Lemma holding_enabled : forall s j w m, nth_error (lws s) j = Some w -> holding (wpc w) = Some m -> enabled mx s j = true.
Proof.
  intros s j w m Hw Hh. unfold enabled. rewrite Hw. destruct (wpc w); cbn in Hh; try discriminate; reflexivity.
Qed.

Lemma progress1 : forall s, inv1 s -> finished s = false -> exists j, enabled mx s j = true.
Proof.
  intros s I F. unfold finished in F. destruct (not_finished _ F) as [j [w [Hw Hd]]].
  destruct (enabled mx s j) eqn:E; [exists j; exact E|].
  unfold enabled in E. rewrite Hw in E. unfold wdone in Hd.
  destruct (wpc w) eqn:Ep; try discriminate.
  - destruct (todo w); discriminate.
  - apply negb_false_iff in E. unfold nmem in E. apply existsb_exists in E. destruct E as [m [Hin Hm]].
    apply Nat.eqb_eq in Hm. subst m. destruct (i_mx3 _ I _ Hin) as [j' [w' [H1 H2]]].
    exists j'. eapply holding_enabled; eauto.
Qed.

Lemma disabled_step : forall s j, enabled mx s j = false -> stepf s j = s.
Proof.
  intros s j E. unfold enabled in E. unfold step. destruct (nth_error (lws s) j) as [w|]; [|reflexivity].
  destruct (wpc w); try discriminate.
  - destruct (todo w); [reflexivity | discriminate].
  - apply negb_false_iff in E. rewrite E. reflexivity.
Qed.

Lemma measure_upd : forall (ws : list worker) j w w', nth_error ws j = Some w ->
  fold_right (fun w n => wweight w + n) 0 (upd_nth j w' ws) + wweight w = fold_right (fun w n => wweight w + n) 0 ws + wweight w'.
Proof.
  induction ws as [|a ws IH]; intros j w w' H; destruct j; cbn in *; try discriminate.
  - injection H as ->. lia.
  - specialize (IH _ _ w' H). lia.
Qed.

Lemma measure_mk : forall (s : pstate) j w R nk ot hd ch td p, nth_error (lws s) j = Some w ->
  wweight {| todo := td; wpc := p |} < wweight w -> measure (mk R nk ot hd ch s j td p) < measure s.
Proof.
  intros s j w R nk ot hd ch td p Hw Hlt. unfold measure. cbn [mk lws].
  pose proof (measure_upd _ _ _ {| todo := td; wpc := p |} Hw). lia.
Qed.

Lemma enabled_step_decreases : forall s j, enabled mx s j = true -> measure (stepf s j) < measure s.
Proof.
  intros s j E. unfold enabled in E. unfold step. destruct (nth_error (lws s) j) as [w|] eqn:Hw; [|discriminate].
  destruct w as [td p]. cbn [todo wpc] in *. destruct p.
  - destruct td as [|[k v] rest]; [discriminate|]. unfold goto. eapply measure_mk; [exact Hw|]. unfold wweight. cbn. lia.
  - destruct (orelse r (orelse (dl k) (tt k))); unfold goto; (eapply measure_mk; [exact Hw|]); unfold wweight; cbn; lia.
  - destruct (join_row jm (lrows s) i v) as [R' ch]. eapply measure_mk; [exact Hw|]. unfold wweight. destruct (ch && negb nh); cbn; lia.
  - destruct kfirst; (eapply measure_mk; [exact Hw|]); unfold wweight; cbn; lia.
  - destruct kfirst; (eapply measure_mk; [exact Hw|]); unfold wweight; cbn; lia.
  - eapply measure_mk; [exact Hw|]. unfold wweight. destruct m; cbn; lia.
  - apply negb_true_iff in E. rewrite E. eapply measure_mk; [exact Hw|]. unfold wweight. cbn. lia.
  - destruct (klk k (lnkey s)); unfold goto; (eapply measure_mk; [exact Hw|]); unfold wweight; cbn; lia.
  - eapply measure_mk; [exact Hw|]. unfold wweight. cbn. lia.
  - eapply measure_mk; [exact Hw|]. unfold wweight. cbn. lia.
  - eapply measure_mk; [exact Hw|]. unfold wweight. cbn. lia.
Qed.

Lemma can_finish : forall n s, measure s < n -> inv1 s -> exists sched, finished (run_sched keqb jm mx kfirst setidx dl tt s sched) = true.
Proof.
  induction n as [|n IH]; intros s Hm I; [lia|].
  destruct (finished s) eqn:F; [exists []; exact F|].
  destruct (progress1 s I F) as [j E]. pose proof (enabled_step_decreases s j E) as Hd.
  destruct (IH (stepf s j)) as [sched Hs]; [lia | apply step_inv1; exact I|].
  exists (j :: sched). exact Hs.
Qed.

(* ---------- values ---------- *)
Lemma le_refl_l : forall a b, le a b -> le a a.
Proof. intros a b H. apply (ll_dom _ _ Hlaws) in H. tauto. Qed.
Lemma le_refl_r : forall a b, le a b -> le b b.
Proof. intros a b H. apply (ll_dom _ _ Hlaws) in H. tauto. Qed.

Lemma join_unchanged : forall a b, le a a -> le b b -> snd (jm a b) = false -> fst (jm a b) = a.
Proof.
  intros a b Ha Hb H. apply (ll_antisym _ _ Hlaws).
  - apply (ll_least _ _ Hlaws); [exact Ha | apply (ll_flag _ _ Hlaws); auto].
  - apply (ll_ub_l _ _ Hlaws); auto.
Qed.

Inductive gen (S : V -> Prop) : V -> Prop :=
| gen_in : forall x, S x -> gen S x
| gen_j : forall a b, gen S a -> gen S b -> gen S (fst (jm a b)).

Lemma gen_dom : forall (S : V -> Prop), (forall x, S x -> le x x) -> forall c, gen S c -> le c c.
Proof.
  intros S HS c G. induction G as [x Hx | a b _ IHa _ IHb]; [auto|].
  eapply le_refl_r. apply (ll_ub_l _ _ Hlaws); eauto.
Qed.
Lemma gen_least : forall (S : V -> Prop) u, (forall x, S x -> le x u) -> forall c, gen S c -> le c u.
Proof. intros S u HS c G. induction G; [auto | apply (ll_least _ _ Hlaws); auto]. Qed.
Lemma gen_nonempty : forall (S : V -> Prop) c, gen S c -> exists x, S x.
Proof. intros S c G. induction G; eauto. Qed.

Definition is_lub (S : V -> Prop) (c : V) : Prop := (forall x, S x -> le x c) /\ (forall u, (forall x, S x -> le x u) -> le c u).
Lemma is_lub_unique : forall (S : V -> Prop) c1 c2, is_lub S c1 -> is_lub S c2 -> c1 = c2.
Proof. intros S c1 c2 [U1 L1] [U2 L2]. apply (ll_antisym _ _ Hlaws); auto. Qed.

Definition rle (R R' : list (K * V)) : Prop :=
  forall i k c, nth_error R i = Some (k, c) -> exists c', nth_error R' i = Some (k, c') /\ le c c'.

Lemma join_row_nth : forall (R : list (K * V)) i v k c, nth_error R i = Some (k, c) ->
  forall i', nth_error (fst (join_row jm R i v)) i' = if Nat.eqb i' i then Some (k, fst (jm c v)) else nth_error R i'.
Proof. intros R i v k c H i'. unfold join_row. rewrite H. cbn [fst]. rewrite nth_error_upd_nth, H. reflexivity. Qed.

Lemma join_row_rle : forall (R : list (K * V)) i v k c, nth_error R i = Some (k, c) -> le v v ->
  (forall i k c, nth_error R i = Some (k, c) -> le c c) -> rle R (fst (join_row jm R i v)).
Proof.
  intros R i v k c H Hv D i' k' c' H'. rewrite (join_row_nth _ _ _ _ _ H). destruct (Nat.eqb_spec i' i) as [->|Hne].
  - rewrite H in H'. injection H' as <- <-. eexists. split; [reflexivity|]. apply (ll_ub_l _ _ Hlaws); eauto.
  - exists c'. split; [exact H' | eauto].
Qed.

Lemma snoc_rle : forall R x, (forall i k c, nth_error R i = Some (k, c) -> le c c) -> rle R (R ++ [x]).
Proof. intros R x D i k c H. exists c. split; [apply nth_error_snoc_old; exact H | eauto]. Qed.

Lemma rle_refl : forall R, (forall i k c, nth_error R i = Some (k, c) -> le c c) -> rle R R.
Proof. intros R D i k c H. exists c. split; eauto. Qed.

Section Run.
Variable R0 : list (K * V).
Variable work : list (list (K * V)).
Hypothesis dom_rows0 : forall i k c, nth_error R0 i = Some (k, c) -> le c c.
Hypothesis dom_work : forall k v, In (k, v) (concat work) -> le v v.

Definition S0 (k : K) (x : V) : Prop := (exists i, nth_error R0 i = Some (k, x)) \/ In (k, x) (concat work).

Lemma S0_dom : forall k x, S0 k x -> le x x.
Proof. intros k x [[i H] | H]; eauto. Qed.

Definition inflight (p : lpc) : list (K * V) :=
  match p with
  | PLook k v _ | PJoin k v _ _ | PLock k v | PRecheck k v | PJoinM k v _ | PPush k v => [(k, v)]
  | _ => []
  end.
Definition wpend (w : worker) : list (K * V) := inflight (wpc w) ++ todo w.

Definition absorbed (R : list (K * V)) (k : K) (v : V) : Prop := exists i c, nth_error R i = Some (k, c) /\ le v c.

Record inv2 (s : pstate) : Prop := {
  v_mono : rle R0 (lrows s);
  v_abs : forall k v, In (k, v) (concat work) ->
          absorbed (lrows s) k v \/ exists j w, nth_error (lws s) j = Some w /\ In (k, v) (wpend w);
  v_gen : forall i k c, nth_error (lrows s) i = Some (k, c) -> gen (S0 k) c;
  v_pw : forall j w, nth_error (lws s) j = Some w -> forall k v, In (k, v) (wpend w) -> In (k, v) (concat work)
}.

Lemma inv2_dom : forall s, inv2 s -> forall i k c, nth_error (lrows s) i = Some (k, c) -> le c c.
Proof. intros s I i k c H. eapply gen_dom; [apply S0_dom | eapply (v_gen _ I); eauto]. Qed.

Lemma rle_trans : forall R1 R2 R3, rle R1 R2 -> rle R2 R3 -> rle R1 R3.
Proof.
  intros R1 R2 R3 H1 H2 i k c H. destruct (H1 _ _ _ H) as [c' [H' L']]. destruct (H2 _ _ _ H') as [c'' [H'' L'']].
  exists c''. split; [exact H'' | eapply (ll_trans _ _ Hlaws); eauto].
Qed.

Lemma absorbed_rle : forall R R' k v, rle R R' -> absorbed R k v -> absorbed R' k v.
Proof.
  intros R R' k v H [i [c [H1 H2]]]. destruct (H _ _ _ H1) as [c' [H' L']]. exists i, c'. split; [exact H' | eapply (ll_trans _ _ Hlaws); eauto].
Qed.

Lemma mk_inv2 : forall s j w R' nk' ot' hd' ch' td' p',
  inv2 s -> nth_error (lws s) j = Some w ->
  rle (lrows s) R' ->
  (forall k v, In (k, v) (wpend w) -> In (k, v) (wpend {| todo := td'; wpc := p' |}) \/ absorbed R' k v) ->
  (forall i k c, nth_error R' i = Some (k, c) -> gen (S0 k) c) ->
  (forall k v, In (k, v) (wpend {| todo := td'; wpc := p' |}) -> In (k, v) (wpend w)) ->
  inv2 (mk R' nk' ot' hd' ch' s j td' p').
Proof.
  intros s j w R' nk' ot' hd' ch' td' p' I Hw Ha Hb Hc Hd.
  constructor; cbn [mk lrows lnkey lother lheld lchg lws].
  - eapply rle_trans; [apply (v_mono _ I) | exact Ha].
  - intros k v Hin. destruct (v_abs _ I k v Hin) as [H | [j0 [w0 [H1 H2]]]].
    + left. eapply absorbed_rle; eauto.
    + destruct (Nat.eq_dec j0 j) as [->|Hne].
      * rewrite Hw in H1. injection H1 as <-. destruct (Hb _ _ H2) as [H3|H3]; [|left; exact H3].
        right. exists j, {| todo := td'; wpc := p' |}. split; [eapply ws_upd_same; eauto | exact H3].
      * right. exists j0, w0. split; [apply ws_upd_other; auto | exact H2].
  - exact Hc.
  - intros j' w' H k v Hin. destruct (ws_upd_inv _ _ _ _ _ _ Hw H) as [[-> ->] | [Hne H0]].
    + eapply (v_pw _ I); [exact Hw | apply Hd; exact Hin].
    + eapply (v_pw _ I); eauto.
Qed.

Lemma join_inv2 : forall s j td k v i p0 p' nk ot hd ch,
  inv2 s -> nth_error (lws s) j = Some {| todo := td; wpc := p0 |} -> inflight p0 = [(k, v)] -> inflight p' = [] ->
  hasrow (lrows s) i k ->
  inv2 (mk (fst (join_row jm (lrows s) i v)) nk ot hd ch s j td p').
Proof.
  intros s j td k v i p0 p' nk ot hd ch I Hw Hp0 Hp' [c Hc].
  pose proof (v_pw _ I _ _ Hw) as PW. unfold wpend in PW. cbn [todo wpc] in PW. rewrite Hp0 in PW.
  pose proof (inv2_dom _ I) as D.
  assert (Hv : le v v) by (apply (dom_work k); apply PW; left; reflexivity).
  eapply mk_inv2; [exact I | exact Hw | eapply join_row_rle; eauto | | | ]; unfold wpend; cbn [todo wpc]; rewrite ?Hp0, ?Hp'.
  - intros k0 v0 [H | H]; [|left; exact H]. injection H as <- <-. right.
    exists i, (fst (jm c v)). split; [rewrite (join_row_nth _ _ _ _ _ Hc), Nat.eqb_refl; reflexivity|].
    apply (ll_ub_r _ _ Hlaws); eauto.
  - intros i' k' c' H. rewrite (join_row_nth _ _ _ _ _ Hc) in H. destruct (Nat.eqb_spec i' i) as [->|Hne].
    + injection H as <- <-. apply gen_j; [eapply (v_gen _ I); eauto|]. apply gen_in. right. apply PW. left. reflexivity.
    + eapply (v_gen _ I); eauto.
  - intros k0 v0 H. right. exact H.
Qed.

Lemma step_inv2 : forall s j, inv1 s -> inv2 s -> inv2 (stepf s j).
Proof.
  intros s j I1 I. unfold step. destruct (nth_error (lws s) j) as [w|] eqn:Hw; [|exact I].
  pose proof (i_loc _ I1 _ _ Hw) as L. pose proof (v_pw _ I _ _ Hw) as PW. pose proof (inv2_dom _ I) as D.
  destruct w as [td p]. unfold wpend in PW. cbn [todo wpc] in *.
  destruct p; cbn [wlocal inflight] in L, PW.
  - destruct td as [|[k v] rest]; [exact I|]. unfold goto.
    eapply mk_inv2; [exact I | exact Hw | apply rle_refl; exact D | | apply (v_gen _ I) | ]; unfold wpend; cbn; auto.
  - destruct (orelse r (orelse (dl k) (tt k))); unfold goto;
    (eapply mk_inv2; [exact I | exact Hw | apply rle_refl; exact D | | apply (v_gen _ I) | ]; unfold wpend; cbn; auto).
  - destruct (join_row jm (lrows s) i v) as [R' ch] eqn:E.
    assert (HR : R' = fst (join_row jm (lrows s) i v)) by (rewrite E; reflexivity). rewrite HR.
    eapply join_inv2; [exact I | exact Hw | reflexivity | destruct (ch && negb nh); reflexivity | apply L].
  - destruct kfirst; (eapply mk_inv2; [exact I | exact Hw | apply rle_refl; exact D | | apply (v_gen _ I) | ]; unfold wpend; cbn; auto).
  - destruct kfirst; (eapply mk_inv2; [exact I | exact Hw | apply rle_refl; exact D | | apply (v_gen _ I) | ]; unfold wpend; cbn; auto).
  - eapply mk_inv2; [exact I | exact Hw | apply rle_refl; exact D | | apply (v_gen _ I) | ]; unfold wpend; destruct m; cbn; auto.
  - destruct (nmem (mx k) (lheld s)); [exact I|].
    eapply mk_inv2; [exact I | exact Hw | apply rle_refl; exact D | | apply (v_gen _ I) | ]; unfold wpend; cbn; auto.
  - destruct (klk k (lnkey s)); unfold goto;
    (eapply mk_inv2; [exact I | exact Hw | apply rle_refl; exact D | | apply (v_gen _ I) | ]; unfold wpend; cbn; auto).
  - eapply join_inv2; [exact I | exact Hw | reflexivity | reflexivity | apply L].
  - assert (Hv : le v v) by (apply (dom_work k); apply PW; left; reflexivity).
    eapply mk_inv2; [exact I | exact Hw | apply snoc_rle; exact D | | | ]; unfold wpend; cbn [todo wpc inflight app].
    + intros k0 v0 [H | H]; [|left; exact H]. injection H as <- <-. right.
      exists (length (lrows s)), v. split; [apply nth_error_snoc_new | exact Hv].
    + intros i k0 c H. apply nth_error_snoc in H. destruct H as [H | [_ H]]; [eapply (v_gen _ I); eauto|].
      injection H as <- <-. apply gen_in. right. apply PW. left. reflexivity.
    + intros k0 v0 H. right. exact H.
  - eapply mk_inv2; [exact I | exact Hw | apply rle_refl; exact D | | apply (v_gen _ I) | ]; unfold wpend; cbn; auto.
Qed.


(* ----- the result as a function of the set of contributions: per key the least upper bound ----- *)
Definition lubrows (R : list (K * V)) : Prop :=
  uniq R /\ (forall i k c, nth_error R i = Some (k, c) -> is_lub (S0 k) c) /\
  (forall k x, S0 k x -> exists i, hasrow R i k) /\ (forall i k, hasrow R i k -> exists x, S0 k x).

Lemma kfind_some : forall k (R : list (K * V)) i, kfind keqb k R = Some i -> hasrow R i k.
Proof.
  intros k. induction R as [|[k' v'] R IH]; intros i H; cbn in H; [discriminate|].
  destruct (keqb k k') eqn:E.
  - injection H as <-. apply keqb_spec in E. subst k'. exists v'. reflexivity.
  - destruct (kfind keqb k R) as [i'|]; [|discriminate]. injection H as <-. destruct (IH i' eq_refl) as [x Hx]. exists x. exact Hx.
Qed.
Lemma kfind_none : forall k (R : list (K * V)), kfind keqb k R = None -> forall i, ~ hasrow R i k.
Proof.
  intros k. induction R as [|[k' v'] R IH]; intros H i [x Hx]; [destruct i; discriminate|]. cbn in H.
  destruct (keqb k k') eqn:E; [discriminate|]. destruct (kfind keqb k R) eqn:E2; [discriminate|].
  destruct i; cbn in Hx.
  - injection Hx as -> _. rewrite keqb_refl in E. discriminate.
  - apply (IH eq_refl i). exists x. exact Hx.
Qed.
Lemma valof_some : forall (R : list (K * V)) k c, valof keqb R k = Some c -> exists i, nth_error R i = Some (k, c).
Proof.
  intros R k c H. unfold valof in H. destruct (kfind keqb k R) as [i|] eqn:E; [|discriminate].
  destruct (kfind_some _ _ _ E) as [x Hx]. rewrite Hx in H. cbn in H. injection H as ->. eauto.
Qed.
Lemma valof_none : forall (R : list (K * V)) k, valof keqb R k = None -> forall i, ~ hasrow R i k.
Proof.
  intros R k H. unfold valof in H. destruct (kfind keqb k R) as [i|] eqn:E; [|apply kfind_none; exact E].
  destruct (kfind_some _ _ _ E) as [x Hx]. rewrite Hx in H. discriminate.
Qed.

Lemma lubrows_valof : forall R1 R2, lubrows R1 -> lubrows R2 -> forall k, valof keqb R1 k = valof keqb R2 k.
Proof.
  intros R1 R2 [U1 [L1 [E1 N1]]] [U2 [L2 [E2 N2]]] k.
  destruct (valof keqb R1 k) as [c1|] eqn:V1; destruct (valof keqb R2 k) as [c2|] eqn:V2; auto.
  - destruct (valof_some _ _ _ V1) as [i1 H1]. destruct (valof_some _ _ _ V2) as [i2 H2].
    f_equal. eapply is_lub_unique; eauto.
  - exfalso. destruct (valof_some _ _ _ V1) as [i1 H1]. destruct (N1 i1 k) as [x Hx]; [eexists; eauto|].
    destruct (E2 _ _ Hx) as [i Hi]. exact (valof_none _ _ V2 i Hi).
  - exfalso. destruct (valof_some _ _ _ V2) as [i2 H2]. destruct (N2 i2 k) as [x Hx]; [eexists; eauto|].
    destruct (E1 _ _ Hx) as [i Hi]. exact (valof_none _ _ V1 i Hi).
Qed.

(* a state of the rows together with the contributions not yet joined *)
Definition sinv (R rest : list (K * V)) : Prop :=
  uniq R /\ rle R0 R /\ (forall k v, In (k, v) (concat work) -> absorbed R k v \/ In (k, v) rest) /\
  (forall i k c, nth_error R i = Some (k, c) -> gen (S0 k) c) /\ incl rest (concat work).

Lemma sinv_lubrows : forall R, sinv R [] -> lubrows R.
Proof.
  intros R [U [M [A [G _]]]]. split; [exact U|]. split; [|split].
  - intros i k c H. split.
    + intros x [[i0 H0] | H0].
      * destruct (M _ _ _ H0) as [c' [H1 H2]]. assert (i0 = i) by (apply (U i0 i k); eexists; eauto). subst i0.
        rewrite H in H1. injection H1 as <-. exact H2.
      * destruct (A _ _ H0) as [[i1 [c1 [H1 H2]]] | []]. assert (i1 = i) by (apply (U i1 i k); eexists; eauto). subst i1.
        rewrite H in H1. injection H1 as <-. exact H2.
    + intros u Hu. eapply gen_least; eauto.
  - intros k x [[i0 H0] | H0].
    + destruct (M _ _ _ H0) as [c' [H1 _]]. exists i0, c'. exact H1.
    + destruct (A _ _ H0) as [[i1 [c1 [H1 _]]] | []]. exists i1, c1. exact H1.
  - intros i k [c H]. eapply gen_nonempty. eapply G. eauto.
Qed.

Lemma ser_update_sinv : forall R k v rest, sinv R ((k, v) :: rest) -> sinv (ser_update keqb jm R (k, v)) rest.
Proof.
  intros R k v rest [U [M [A [G Hi]]]].
  assert (D : forall i k c, nth_error R i = Some (k, c) -> le c c) by (intros; eapply gen_dom; [apply S0_dom | eauto]).
  assert (Hin : In (k, v) (concat work)) by (apply Hi; left; reflexivity).
  assert (Hv : le v v) by (eapply dom_work; eauto).
  unfold ser_update. cbn [fst snd]. destruct (kfind keqb k R) as [i|] eqn:E.
  - destruct (kfind_some _ _ _ E) as [c Hc].
    assert (Hr : rle R (fst (join_row jm R i v))) by (eapply join_row_rle; eauto).
    split; [|split; [|split; [|split]]].
    + eapply uniq_keys; [exact U | intros; eapply join_row_keys; eauto].
    + eapply rle_trans; eauto.
    + intros k0 v0 H0. destruct (A _ _ H0) as [H1 | [H1 | H1]].
      * left. eapply absorbed_rle; eauto.
      * injection H1 as <- <-. left. exists i, (fst (jm c v)). split; [rewrite (join_row_nth _ _ _ _ _ Hc), Nat.eqb_refl; reflexivity|].
        apply (ll_ub_r _ _ Hlaws); eauto.
      * right. exact H1.
    + intros i' k' c' H. rewrite (join_row_nth _ _ _ _ _ Hc) in H. destruct (Nat.eqb_spec i' i) as [->|Hne]; [|eauto].
      injection H as <- <-. apply gen_j; [eauto|]. apply gen_in. right. exact Hin.
    + intros x Hx. apply Hi. right. exact Hx.
  - pose proof (kfind_none _ _ E) as Hn.
    split; [|split; [|split; [|split]]].
    + intros i i' k0 H1 H2. apply hasrow_snoc in H1. apply hasrow_snoc in H2.
      destruct H1 as [H1 | [-> ->]]; destruct H2 as [H2 | [-> H2']]; auto.
      * apply (U i i' k0); auto.
      * subst k0. exfalso. exact (Hn _ H1).
      * exfalso. exact (Hn _ H2).
    + eapply rle_trans; [exact M | apply snoc_rle; exact D].
    + intros k0 v0 H0. destruct (A _ _ H0) as [H1 | [H1 | H1]].
      * left. eapply absorbed_rle; [apply snoc_rle; exact D | exact H1].
      * injection H1 as <- <-. left. exists (length R), v. split; [apply nth_error_snoc_new | exact Hv].
      * right. exact H1.
    + intros i k0 c H. apply nth_error_snoc in H. destruct H as [H | [_ H]]; [eauto|].
      injection H as <- <-. apply gen_in. right. exact Hin.
    + intros x Hx. apply Hi. right. exact Hx.
Qed.

Lemma ser_run_sinv : forall cs R, sinv R cs -> sinv (ser_run keqb jm R cs) [].
Proof.
  induction cs as [|[k v] cs IH]; intros R H; cbn; [exact H|]. apply IH. apply ser_update_sinv. exact H.
Qed.

Lemma sinv_init : uniq R0 -> sinv R0 (concat work).
Proof.
  intros U. split; [exact U|]. split; [apply rle_refl; exact dom_rows0|]. split; [auto|]. split; [|apply incl_refl].
  intros i k c H. apply gen_in. left. eauto.
Qed.

Theorem serial_lubrows : uniq R0 -> lubrows (ser_run keqb jm R0 (concat work)).
Proof. intros U. apply sinv_lubrows, ser_run_sinv, sinv_init, U. Qed.

Lemma finished_wpend : forall (s : pstate) j w, finished s = true -> nth_error (lws s) j = Some w -> todo w = [] /\ wpc w = PIdle.
Proof.
  intros s j w F H. unfold finished in F. rewrite forallb_forall in F. specialize (F w (nth_error_In _ _ H)).
  unfold wdone in F. destruct (todo w); [|discriminate]. destruct (wpc w); try discriminate. auto.
Qed.

Lemma finished_lubrows : forall s, inv1 s -> inv2 s -> finished s = true -> lubrows (lrows s).
Proof.
  intros s I1 I2 F. apply sinv_lubrows. split; [apply (i_uniq _ I1)|]. split; [apply (v_mono _ I2)|].
  split; [|split; [apply (v_gen _ I2) | intros x []]].
  intros k v H. destruct (v_abs _ I2 k v H) as [H1 | [j [w [H1 H2]]]]; [left; exact H1|].
  destruct (finished_wpend _ _ _ F H1) as [Ht Hp]. unfold wpend in H2. rewrite Ht, Hp in H2. destruct H2.
Qed.

(* ---------- the flag ---------- *)
Definition pendflag (p : lpc) : Prop :=
  match p with PIns1 _ _ _ | PIns2 _ _ _ | PFlag _ _ => True | _ => False end.

Definition inv3 (s : pstate) : Prop :=
  lchg s = true \/ (exists j w, nth_error (lws s) j = Some w /\ pendflag (wpc w)) \/ (lrows s = R0 /\ lnkey s = []).

Lemma mk_inv3 : forall s j w R' nk' ot' hd' ch' td' p',
  inv3 s -> nth_error (lws s) j = Some w ->
  (lchg s = true -> ch' = true) ->
  (pendflag (wpc w) -> pendflag p' \/ ch' = true) ->
  (lrows s = R0 -> lnkey s = [] -> ch' = true \/ pendflag p' \/ (R' = R0 /\ nk' = [])) ->
  inv3 (mk R' nk' ot' hd' ch' s j td' p').
Proof.
  intros s j w R' nk' ot' hd' ch' td' p' I Hw H1 H2 H3. unfold inv3. cbn [mk lrows lnkey lchg lws].
  destruct I as [I | [[j0 [w0 [I1 I2]]] | [I1 I2]]].
  - left. auto.
  - destruct (Nat.eq_dec j0 j) as [->|Hne].
    + rewrite Hw in I1. injection I1 as <-. destruct (H2 I2) as [H|H]; [|left; exact H].
      right. left. exists j, {| todo := td'; wpc := p' |}. split; [eapply ws_upd_same; eauto | exact H].
    + right. left. exists j0, w0. split; [apply ws_upd_other; auto | exact I2].
  - destruct (H3 I1 I2) as [H | [H | H]]; auto.
    right. left. exists j, {| todo := td'; wpc := p' |}. split; [eapply ws_upd_same; eauto | exact H].
Qed.

Lemma join_row_unchanged : forall (R : list (K * V)) i v k c, nth_error R i = Some (k, c) -> le c c -> le v v ->
  snd (join_row jm R i v) = false -> fst (join_row jm R i v) = R.
Proof.
  intros R i v k c H Hc Hv Hf. unfold join_row in *. rewrite H in *. cbn [fst snd] in *.
  rewrite (join_unchanged _ _ Hc Hv Hf). apply upd_nth_same. exact H.
Qed.

Lemma step_inv3 : forall s j, inv1 s -> inv2 s -> inv3 s -> inv3 (stepf s j).
Proof.
  intros s j I1 I2 I. unfold step. destruct (nth_error (lws s) j) as [w|] eqn:Hw; [|exact I].
  pose proof (i_loc _ I1 _ _ Hw) as L. pose proof (v_pw _ I2 _ _ Hw) as PW. pose proof (inv2_dom _ I2) as D.
  destruct w as [td p]. unfold wpend in PW. cbn [todo wpc] in *.
  destruct p; cbn [wlocal inflight] in L, PW.
  - destruct td as [|[k v] rest]; [exact I|]. unfold goto. eapply mk_inv3; [exact I | exact Hw | ..]; cbn; auto.
  - destruct (orelse r (orelse (dl k) (tt k))); unfold goto; (eapply mk_inv3; [exact I | exact Hw | ..]; cbn; auto).
  - destruct (join_row jm (lrows s) i v) as [R' ch] eqn:E. destruct L as [[c Hc] L2].
    eapply mk_inv3; [exact I | exact Hw | ..]; cbn [wpc pendflag]; auto; try contradiction.
    intros HR Hn. destruct nh; [rewrite Hn in L2; specialize (L2 eq_refl); discriminate|].
    destruct ch; cbn; auto. right. right. split; [|exact Hn]. rewrite <- HR.
    assert (R' = fst (join_row jm (lrows s) i v)) as -> by (rewrite E; reflexivity).
    eapply join_row_unchanged; eauto.
    + apply (dom_work k). apply PW. left. reflexivity.
    + rewrite E. reflexivity.
  - destruct kfirst; (eapply mk_inv3; [exact I | exact Hw | ..]; cbn; auto).
  - destruct kfirst; (eapply mk_inv3; [exact I | exact Hw | ..]; cbn; auto).
  - eapply mk_inv3; [exact I | exact Hw | ..]; cbn; auto.
  - destruct (nmem (mx k) (lheld s)); [exact I|]. eapply mk_inv3; [exact I | exact Hw | ..]; cbn; auto.
  - destruct (klk k (lnkey s)); unfold goto; (eapply mk_inv3; [exact I | exact Hw | ..]; cbn; auto).
  - eapply mk_inv3; [exact I | exact Hw | ..]; cbn; auto; try contradiction.
    intros _ Hn. destruct L as [_ L]. rewrite Hn in L. discriminate.
  - eapply mk_inv3; [exact I | exact Hw | ..]; cbn; auto.
  - eapply mk_inv3; [exact I | exact Hw | ..]; cbn; auto.
Qed.

(* ---------- re-indexing ---------- *)
Definition pend_key (p : lpc) (k : K) (i : nat) : Prop :=
  match p with
  | PIns1 k' i' _ => k' = k /\ i' = i
  | PIns2 k' i' _ => kfirst = false /\ k' = k /\ i' = i
  | _ => False
  end.
Definition pend_other (p : lpc) (i : nat) : Prop :=
  match p with
  | PIns1 _ i' _ => i' = i
  | PIns2 _ i' _ => kfirst = true /\ i' = i
  | _ => False
  end.
Definition keyok (s : pstate) (k : K) (i : nat) : Prop :=
  klk k (lnkey s) = Some i \/ exists j w, nth_error (lws s) j = Some w /\ pend_key (wpc w) k i.
Definition otherok (s : pstate) (i : nat) : Prop :=
  In i (lother s) \/ exists j w, nth_error (lws s) j = Some w /\ pend_other (wpc w) i.
Definition wl4 (ot : list nat) (p : lpc) : Prop :=
  match p with PIns2 _ i _ => kfirst = false -> In i ot | _ => True end.

Record inv4 (s : pstate) : Prop := {
  r_rows : forall i k c, nth_error (lrows s) i = Some (k, c) -> nth_error R0 i = Some (k, c) \/ (keyok s k i /\ otherok s i);
  r_key : forall k i, klk k (lnkey s) = Some i -> otherok s i;
  r_loc : forall j w, nth_error (lws s) j = Some w -> wl4 (lother s) (wpc w)
}.

Lemma mk_inv4 : forall s j w R' nk' ot' hd' ch' td' p',
  inv4 s -> nth_error (lws s) j = Some w ->
  (forall k i, klk k (lnkey s) = Some i -> klk k nk' = Some i) ->
  (forall k i, pend_key (wpc w) k i -> pend_key p' k i \/ klk k nk' = Some i) ->
  (forall i, In i (lother s) -> In i ot') ->
  (forall i, pend_other (wpc w) i -> pend_other p' i \/ In i ot') ->
  (forall i k c, nth_error R' i = Some (k, c) ->
     nth_error (lrows s) i = Some (k, c) \/ (pend_key p' k i /\ pend_other p' i) \/ klk k (lnkey s) = Some i) ->
  (forall k i, klk k nk' = Some i -> klk k (lnkey s) = Some i \/ In i ot' \/ pend_other p' i) ->
  wl4 ot' p' ->
  inv4 (mk R' nk' ot' hd' ch' s j td' p').
Proof.
  intros s j w R' nk' ot' hd' ch' td' p' I Hw K1 K2 O1 O2 R1 KN L'.
  set (s' := mk R' nk' ot' hd' ch' s j td' p').
  assert (Hme : nth_error (lws s') j = Some {| todo := td'; wpc := p' |}) by (eapply ws_upd_same; eauto).
  assert (TK : forall k i, keyok s k i -> keyok s' k i).
  { intros k i [H | [j0 [w0 [H1 H2]]]]; [left; apply K1; exact H|].
    destruct (Nat.eq_dec j0 j) as [->|Hne].
    - rewrite Hw in H1. injection H1 as <-. destruct (K2 _ _ H2) as [H|H]; [right; eauto | left; exact H].
    - right. exists j0, w0. split; [apply ws_upd_other; auto | exact H2]. }
  assert (TO : forall i, otherok s i -> otherok s' i).
  { intros i [H | [j0 [w0 [H1 H2]]]]; [left; apply O1; exact H|].
    destruct (Nat.eq_dec j0 j) as [->|Hne].
    - rewrite Hw in H1. injection H1 as <-. destruct (O2 _ H2) as [H|H]; [right; eauto | left; exact H].
    - right. exists j0, w0. split; [apply ws_upd_other; auto | exact H2]. }
  constructor.
  - intros i k c H. cbn [s' mk lrows] in H. destruct (R1 _ _ _ H) as [H0 | [[H1 H2] | H0]].
    + destruct (r_rows _ I _ _ _ H0) as [H1 | [H1 H2]]; [left; exact H1 | right; split; auto].
    + right. split; right; eauto.
    + right. split; [apply TK; left; exact H0 | apply TO; eapply (r_key _ I); eauto].
  - intros k i H. cbn [s' mk lnkey] in H. destruct (KN _ _ H) as [H0 | [H0 | H0]].
    + apply TO. eapply (r_key _ I); eauto.
    + left. exact H0.
    + right. eauto.
  - intros j' w' H. cbn [s' mk lws lother] in *. destruct (ws_upd_inv _ _ _ _ _ _ Hw H) as [[-> ->] | [Hne H0]]; [exact L'|].
    pose proof (r_loc _ I _ _ H0) as L0. destruct (wpc w'); cbn in *; auto.
Qed.

Lemma klk_cons_inv : forall k0 i0 k i nk, klk k0 ((k, i) :: nk) = Some i0 -> klk k0 nk = Some i0 \/ (k0 = k /\ i0 = i).
Proof.
  intros k0 i0 k i nk H. rewrite klk_cons in H. destruct (keqb k0 k) eqn:E; [|left; exact H].
  apply keqb_spec in E. injection H as <-. right. auto.
Qed.

Lemma nmem_In : forall i l, nmem i l = true <-> In i l.
Proof.
  intros i l. unfold nmem. rewrite existsb_exists. split.
  - intros [x [H1 H2]]. apply Nat.eqb_eq in H2. subst x. exact H1.
  - intros H. exists i. split; [exact H | apply Nat.eqb_refl].
Qed.
Lemma oins_in : forall i ot i0, In i0 (oins setidx i ot) <-> i0 = i \/ In i0 ot.
Proof.
  intros i ot i0. unfold oins. destruct (setidx && nmem i ot) eqn:E.
  - apply andb_true_iff in E. destruct E as [_ E]. apply nmem_In in E. split; [auto | intros [-> | H]; auto].
  - cbn. split; intros [H | H]; auto.
Qed.
Lemma oins_old : forall i ot i0, In i0 ot -> In i0 (oins setidx i ot).
Proof. intros. apply oins_in. auto. Qed.
Lemma oins_new : forall i ot, In i (oins setidx i ot).
Proof. intros. apply oins_in. auto. Qed.
Local Hint Resolve oins_old oins_new : core.

Lemma step_inv4 : forall s j, inv1 s -> inv2 s -> inv4 s -> inv4 (stepf s j).
Proof.
  intros s j I1 I2 I. unfold step. destruct (nth_error (lws s) j) as [w|] eqn:Hw; [|exact I].
  pose proof (i_loc _ I1 _ _ Hw) as L. pose proof (r_loc _ I _ _ Hw) as L4.
  pose proof (v_pw _ I2 _ _ Hw) as PW. pose proof (inv2_dom _ I2) as D.
  destruct w as [td p]. unfold wpend in PW. cbn [todo wpc] in *.
  destruct p; cbn [wlocal wl4 inflight] in L, L4, PW.
  - destruct td as [|[k v] rest]; [exact I|]. unfold goto. eapply mk_inv4; [exact I | exact Hw | ..]; cbn; auto.
  - destruct (orelse r (orelse (dl k) (tt k))); unfold goto; (eapply mk_inv4; [exact I | exact Hw | ..]; cbn; auto).
  - destruct (join_row jm (lrows s) i v) as [R' ch] eqn:E. destruct L as [[c Hc] L2].
    assert (HR : R' = fst (join_row jm (lrows s) i v)) by (rewrite E; reflexivity).
    assert (Hch : ch = snd (join_row jm (lrows s) i v)) by (rewrite E; reflexivity).
    eapply mk_inv4; [exact I | exact Hw | ..]; cbn [wpc pend_key pend_other]; auto; try solve [intros; contradiction].
    + intros i' k' c' H. destruct (ch && negb nh) eqn:Eb.
      * rewrite HR, (join_row_nth _ _ _ _ _ Hc) in H. destruct (Nat.eqb_spec i' i) as [->|Hne]; [|left; exact H].
        injection H as <- <-. right. left. cbn. auto.
      * destruct nh.
        -- rewrite HR, (join_row_nth _ _ _ _ _ Hc) in H. destruct (Nat.eqb_spec i' i) as [->|Hne]; [|left; exact H].
           injection H as <- <-. right. right. auto.
        -- rewrite andb_true_r in Eb. subst ch. left. rewrite HR in H.
           rewrite (join_row_unchanged _ _ _ _ _ Hc) in H; eauto.
           apply (dom_work k). apply PW. left. reflexivity.
    + destruct (ch && negb nh); cbn; auto.
  - destruct kfirst eqn:Ekf; (eapply mk_inv4; [exact I | exact Hw | ..]; cbn [wpc pend_key pend_other wl4]; auto).
    + eapply klk_ins_stable; [apply (i_uniq _ I1) | apply (i_ks _ I1) | exact L].
    + intros k0 i0 [-> ->]. right. rewrite klk_cons, keqb_refl. reflexivity.
    + intros k0 i0 H. apply klk_cons_inv in H. destruct H as [H | [_ ->]]; auto.
    + congruence.
    + intros i0 <-. right. auto.
  - destruct kfirst eqn:Ekf; (eapply mk_inv4; [exact I | exact Hw | ..]; cbn [wpc pend_key pend_other wl4]; auto).
    + intros k0 i0 [H _]. congruence.
    + intros i0 [_ <-]. right. auto.
    + eapply klk_ins_stable; [apply (i_uniq _ I1) | apply (i_ks _ I1) | exact L].
    + intros k0 i0 [_ [-> ->]]. right. rewrite klk_cons, keqb_refl. reflexivity.
    + intros i0 [H _]. congruence.
    + intros k0 i0 H. apply klk_cons_inv in H. destruct H as [H | [_ ->]]; auto.
  - eapply mk_inv4; [exact I | exact Hw | ..]; cbn; auto; try solve [intros; contradiction]. destruct m; exact Logic.I.
  - destruct (nmem (mx k) (lheld s)); [exact I|]. eapply mk_inv4; [exact I | exact Hw | ..]; cbn; auto.
  - destruct (klk k (lnkey s)); unfold goto; (eapply mk_inv4; [exact I | exact Hw | ..]; cbn; auto).
  - destruct L as [[c Hc] L2].
    eapply mk_inv4; [exact I | exact Hw | ..]; cbn [wpc pend_key pend_other wl4]; auto; try solve [intros; contradiction].
    intros i' k' c' H. rewrite (join_row_nth _ _ _ _ _ Hc) in H. destruct (Nat.eqb_spec i' i) as [->|Hne]; [|left; exact H].
    injection H as <- <-. right. right. exact L2.
  - eapply mk_inv4; [exact I | exact Hw | ..]; cbn [wpc pend_key pend_other wl4]; auto; try solve [intros; contradiction].
    intros i k0 c H. apply nth_error_snoc in H. destruct H as [H | [-> H]]; [left; exact H|].
    injection H as <- <-. right. left. auto.
  - eapply mk_inv4; [exact I | exact Hw | ..]; cbn; auto.
Qed.
End Run.

(* ---------- initial states ---------- *)
Record init_ok (R0 : list (K * V)) (nk0 : list (K * nat)) (ot0 : list nat) (ch0 : bool) (work : list (list (K * V))) : Prop := {
  io_uniq : NoDup (map fst R0);                                              (* one row per key *)
  io_ks : forall k i, klk k nk0 = Some i -> hasrow R0 i k;                     (* new's key index points at rows of that key *)
  io_fs : forall k i, fz k = Some i -> hasrow R0 i k;                          (* so do delta / total *)
  io_cp : forall i k, hasrow R0 i k -> klk k nk0 = Some i \/ fz k = Some i;    (* every row is indexed *)
  io_flag : ch0 = true \/ nk0 = [];                                            (* new is only filled together with the flag *)
  io_other : forall k i, klk k nk0 = Some i -> In i ot0;                       (* new's indices agree *)
  io_dom_rows : forall i k c, nth_error R0 i = Some (k, c) -> le c c;          (* values are lattice elements *)
  io_dom_work : forall k v, In (k, v) (concat work) -> le v v
}.

Section Reach.
Variable R0 : list (K * V).
Variable nk0 : list (K * nat).
Variable ot0 : list nat.
Variable ch0 : bool.
Variable work : list (list (K * V)).
Hypothesis OK : init_ok R0 nk0 ot0 ch0 work.

Notation st0 := (par_init R0 nk0 ot0 ch0 work).
Notation run := (run_sched keqb jm mx kfirst setidx dl tt st0).

Lemma init_worker : forall j w, nth_error (lws st0) j = Some w -> wpc w = PIdle /\ nth_error work j = Some (todo w).
Proof.
  intros j w H. cbn [par_init lws] in H. rewrite nth_error_map in H. destruct (nth_error work j) as [l|]; [|discriminate].
  cbn in H. injection H as <-. cbn. auto.
Qed.

Lemma init_inv1 : inv1 st0.
Proof.
  constructor; cbn [par_init lrows lnkey lheld].
  - apply uniq_NoDup. apply (io_uniq _ _ _ _ _ OK).
  - apply (io_ks _ _ _ _ _ OK).
  - apply (io_fs _ _ _ _ _ OK).
  - intros i k H. destruct (io_cp _ _ _ _ _ OK i k H); auto.
  - intros j w H. destruct (init_worker _ _ H) as [-> _]. exact Logic.I.
  - intros j w m H Hh. destruct (init_worker _ _ H) as [Hp _]. rewrite Hp in Hh. discriminate.
  - intros j1 j2 w1 w2 m H1 _ Hh _. destruct (init_worker _ _ H1) as [Hp _]. rewrite Hp in Hh. discriminate.
  - intros m [].
Qed.

Lemma init_inv2 : inv2 R0 work st0.
Proof.
  constructor; cbn [par_init lrows].
  - apply rle_refl. apply (io_dom_rows _ _ _ _ _ OK).
  - intros k v H. right. apply in_concat in H. destruct H as [l [Hl Hin]]. apply In_nth_error in Hl. destruct Hl as [j Hj].
    exists j, {| todo := l; wpc := PIdle |}. split; [cbn [par_init lws]; rewrite nth_error_map, Hj; reflexivity | exact Hin].
  - intros i k c H. apply gen_in. left. eauto.
  - intros j w H k v Hin. destruct (init_worker _ _ H) as [Hp Ht]. unfold wpend in Hin. rewrite Hp in Hin. cbn in Hin.
    apply in_concat. exists (todo w). split; [eapply nth_error_In; eauto | exact Hin].
Qed.

Lemma init_inv3 : inv3 R0 st0.
Proof. unfold inv3. cbn. destruct (io_flag _ _ _ _ _ OK) as [H|H]; auto. Qed.

Lemma init_inv4 : inv4 R0 st0.
Proof.
  constructor; cbn [par_init lrows lnkey lother].
  - intros i k c H. left. exact H.
  - intros k i H. left. eapply (io_other _ _ _ _ _ OK); eauto.
  - intros j w H. destruct (init_worker _ _ H) as [-> _]. exact Logic.I.
Qed.

Definition allinv (s : pstate) : Prop := inv1 s /\ inv2 R0 work s /\ inv3 R0 s /\ inv4 R0 s.

Lemma step_allinv : forall s j, allinv s -> allinv (stepf s j).
Proof.
  intros s j [I1 [I2 [I3 I4]]].
  pose proof (io_dom_rows _ _ _ _ _ OK) as D1. pose proof (io_dom_work _ _ _ _ _ OK) as D2.
  split; [apply step_inv1; exact I1|]. split; [eapply step_inv2; eauto|]. split; [eapply step_inv3; eauto | eapply step_inv4; eauto].
Qed.

Lemma run_allinv : forall sched s, allinv s -> allinv (run_sched keqb jm mx kfirst setidx dl tt s sched).
Proof. induction sched as [|j sched IH]; intros s I; cbn; [exact I | apply IH, step_allinv, I]. Qed.

Lemma reach_inv : forall sched, allinv (run sched).
Proof.
  intros sched. apply run_allinv. split; [apply init_inv1|]. split; [apply init_inv2|]. split; [apply init_inv3 | apply init_inv4].
Qed.

(* (a) one row per key, in every reachable state *)
Theorem parlat_one_row_per_key : forall sched, NoDup (map fst (lrows (run sched))).
Proof. intros sched. apply uniq_NoDup. apply (i_uniq _ (proj1 (reach_inv sched))). Qed.

(* input rows stay where they are and are only raised *)
Theorem parlat_rows_in_place : forall sched i k v0, nth_error R0 i = Some (k, v0) ->
  exists c, nth_error (lrows (run sched)) i = Some (k, c) /\ le v0 c.
Proof. intros sched. destruct (reach_inv sched) as [_ [I2 _]]. apply (v_mono _ _ _ I2). Qed.

(* (b) the values *)
Theorem parlat_values_lub : forall sched, finished (run sched) = true -> lubrows R0 work (lrows (run sched)).
Proof.
  intros sched F. destruct (reach_inv sched) as [I1 [I2 _]].
  eapply finished_lubrows; eauto; first [apply (io_dom_rows _ _ _ _ _ OK) | apply (io_dom_work _ _ _ _ _ OK)].
Qed.

Theorem parlat_values : forall sched, finished (run sched) = true ->
  forall k, valof keqb (lrows (run sched)) k = valof keqb (ser_run keqb jm R0 (concat work)) k.
Proof.
  intros sched F. apply (lubrows_valof R0 work); [apply parlat_values_lub; exact F|].
  apply serial_lubrows; [apply (io_dom_rows _ _ _ _ _ OK) | apply (io_dom_work _ _ _ _ _ OK) | apply uniq_NoDup, (io_uniq _ _ _ _ _ OK)].
Qed.

Theorem parlat_keys_untouched : forall sched, finished (run sched) = true ->
  forall k, (forall v, ~ In (k, v) (concat work)) -> valof keqb (lrows (run sched)) k = valof keqb R0 k.
Proof.
  intros sched F k Hk. destruct (parlat_values_lub sched F) as [U [L [E N]]].
  destruct (valof keqb R0 k) as [c0|] eqn:V0.
  - destruct (valof_some _ _ _ V0) as [i0 H0]. destruct (parlat_rows_in_place sched _ _ _ H0) as [c [Hc Hle]].
    assert (c = c0).
    { apply (ll_antisym _ _ Hlaws); [|exact Hle]. apply (proj2 (L _ _ _ Hc)). intros x [[i1 H1] | H1]; [|destruct (Hk _ H1)].
      assert (i1 = i0) by (apply (proj2 (uniq_NoDup R0) (io_uniq _ _ _ _ _ OK) i1 i0 k); eexists; eauto). subst i1.
      rewrite H0 in H1. injection H1 as <-. eapply le_refl_l; eauto. }
    subst c. destruct (valof keqb (lrows (run sched)) k) as [c1|] eqn:V1.
    + destruct (valof_some _ _ _ V1) as [i1 H1]. assert (i1 = i0) by (apply (U i1 i0 k); eexists; eauto). subst i1. congruence.
    + exfalso. apply (valof_none _ _ V1 i0). eexists; eauto.
  - destruct (valof keqb (lrows (run sched)) k) as [c1|] eqn:V1; [|reflexivity]. exfalso.
    destruct (valof_some _ _ _ V1) as [i1 H1]. destruct (N i1 k) as [x [[i0 H0] | H0]]; [eexists; eauto | |exact (Hk _ H0)].
    apply (valof_none _ _ V0 i0). eexists; eauto.
Qed.

(* (c) the flag: when it is still false after the iteration, nothing was raised, created or re-indexed *)
Theorem parlat_changed : forall sched, finished (run sched) = true -> lchg (run sched) = false ->
  lrows (run sched) = R0 /\ lnkey (run sched) = [].
Proof.
  intros sched F Hc. destruct (reach_inv sched) as [_ [_ [I3 _]]]. destruct I3 as [H | [[j [w [H1 H2]]] | H]]; [congruence | | exact H].
  destruct (finished_wpend _ _ _ F H1) as [_ Hp]. rewrite Hp in H2. destruct H2.
Qed.

(* (d) every row raised or created in this iteration is in new's indices afterwards *)
Theorem parlat_reindexed : forall sched, finished (run sched) = true ->
  forall i k c, nth_error (lrows (run sched)) i = Some (k, c) ->
  nth_error R0 i = Some (k, c) \/ (klk k (lnkey (run sched)) = Some i /\ In i (lother (run sched))).
Proof.
  intros sched F i k c H. destruct (reach_inv sched) as [_ [_ [_ I4]]].
  destruct (r_rows _ _ I4 _ _ _ H) as [H0 | [H1 H2]]; [left; exact H0|]. right. split.
  - destruct H1 as [H1 | [j [w [H4 H3]]]]; [exact H1|]. destruct (finished_wpend _ _ _ F H4) as [_ Hp]. rewrite Hp in H3. destruct H3.
  - destruct H2 as [H2 | [j [w [H4 H3]]]]; [exact H2|]. destruct (finished_wpend _ _ _ F H4) as [_ Hp]. rewrite Hp in H3. destruct H3.
Qed.

(* (d') with set-backed indices (the code since d5edf35) a row number is listed ONCE, whatever the schedule: two workers that both
   read new_has_ind = false for an existing row insert its number twice, the second insertion changes nothing *)
Lemma step_lother : forall s j, lother (stepf s j) = lother s \/ exists i, lother (stepf s j) = oins setidx i (lother s).
Proof.
  intros s j. unfold step. destruct (nth_error (lws s) j) as [w|]; [|left; reflexivity].
  destruct (wpc w); cbn [goto mk lother].
  - destruct (todo w) as [|[k v] rest]; left; reflexivity.
  - destruct (orelse r (orelse (dl k) (tt k))); left; reflexivity.
  - destruct (join_row jm (lrows s) i v); left; reflexivity.
  - destruct kfirst; cbn [mk lother]; [left; reflexivity | right; eauto].
  - destruct kfirst; cbn [mk lother]; [right; eauto | left; reflexivity].
  - left; reflexivity.
  - destruct (nmem (mx k) (lheld s)); left; reflexivity.
  - destruct (klk k (lnkey s)); left; reflexivity.
  - left; reflexivity.
  - left; reflexivity.
  - left; reflexivity.
Qed.

Lemma oins_NoDup : setidx = true -> forall i ot, NoDup ot -> NoDup (oins setidx i ot).
Proof.
  intros -> i ot H. unfold oins. cbn [andb]. destruct (nmem i ot) eqn:E; [exact H|].
  constructor; [|exact H]. intros Hin. apply nmem_In in Hin. congruence.
Qed.

Theorem parlat_reindexed_once : setidx = true -> NoDup ot0 -> forall sched, NoDup (lother (run sched)).
Proof.
  intros Hs H0 sched. unfold run_sched.
  assert (G : forall sched s, NoDup (lother s) -> NoDup (lother (fold_left stepf sched s))).
  { induction sched0 as [|j sched0 IH]; intros s H; cbn [fold_left]; [exact H|]. apply IH.
    destruct (step_lother s j) as [-> | [i ->]]; [exact H | apply oins_NoDup; assumption]. }
  apply G. exact H0.
Qed.

(* (e) no deadlock *)
Theorem parlat_progress : forall sched, finished (run sched) = false -> exists j, enabled mx (run sched) j = true.
Proof. intros sched F. apply progress1; [apply (proj1 (reach_inv sched)) | exact F]. Qed.

Theorem parlat_blocked_holder_enabled : forall sched j w k v,
  nth_error (lws (run sched)) j = Some w -> wpc w = PLock k v -> enabled mx (run sched) j = false ->
  exists j' w', j' <> j /\ nth_error (lws (run sched)) j' = Some w' /\ holding (wpc w') = Some (mx k) /\ enabled mx (run sched) j' = true.
Proof.
  intros sched j w k v Hw Hp E. destruct (reach_inv sched) as [I1 _].
  unfold enabled in E. rewrite Hw, Hp in E. apply negb_false_iff in E. unfold nmem in E. apply existsb_exists in E.
  destruct E as [m [Hin Hm]]. apply Nat.eqb_eq in Hm. subst m. destruct (i_mx3 _ I1 _ Hin) as [j' [w' [H1 H2]]].
  exists j', w'. split; [|split; [exact H1 | split; [exact H2 | eapply holding_enabled; eauto]]].
  intros ->. rewrite Hw in H1. injection H1 as <-. rewrite Hp in H2. discriminate.
Qed.

Theorem parlat_can_finish : forall sched, exists sched', finished (run (sched ++ sched')) = true.
Proof.
  intros sched. destruct (can_finish (S (measure (run sched))) (run sched)) as [sched' H]; [lia | apply (proj1 (reach_inv sched))|].
  exists sched'. unfold run_sched in *. rewrite fold_left_app. exact H.
Qed.
End Reach.

(* the result does not depend on how the contributions are distributed over the workers, nor on the schedule *)
Lemma lubrows_ext : forall R0 work work' R, (forall kv, In kv (concat work) <-> In kv (concat work')) ->
  lubrows R0 work R -> lubrows R0 work' R.
Proof.
  intros R0 work work' R Hw [U [L [E N]]].
  assert (HS : forall k x, S0 R0 work k x <-> S0 R0 work' k x).
  { intros k x. unfold S0. rewrite (Hw (k, x)). tauto. }
  split; [exact U|]. split; [|split].
  - intros i k c H. destruct (L _ _ _ H) as [L1 L2]. split.
    + intros x Hx. apply L1. apply HS. exact Hx.
    + intros u Hu. apply L2. intros x Hx. apply Hu. apply HS. exact Hx.
  - intros k x Hx. apply (E k x). apply HS. exact Hx.
  - intros i k H. destruct (N i k H) as [x Hx]. exists x. apply HS. exact Hx.
Qed.

Theorem parlat_distribution_schedule_independent :
  forall R0 nk0 ot0 ch0 work nk0' ot0' ch0' work' sched sched',
  init_ok R0 nk0 ot0 ch0 work -> init_ok R0 nk0' ot0' ch0' work' ->
  (forall kv, In kv (concat work) <-> In kv (concat work')) ->
  let s1 := run_sched keqb jm mx kfirst setidx dl tt (par_init R0 nk0 ot0 ch0 work) sched in
  let s2 := run_sched keqb jm mx kfirst setidx dl tt (par_init R0 nk0' ot0' ch0' work') sched' in
  finished s1 = true -> finished s2 = true ->
  forall k, valof keqb (lrows s1) k = valof keqb (lrows s2) k.
Proof.
  intros R0 nk0 ot0 ch0 work nk0' ot0' ch0' work' sched sched' OK OK' Hw s1 s2 F1 F2.
  apply (lubrows_valof R0 work').
  - eapply lubrows_ext; [exact Hw|]. eapply parlat_values_lub; eauto.
  - eapply parlat_values_lub; eauto.
Qed.

(* the usual start of an iteration: new is empty, the flag is false *)
Lemma fresh_init_ok : forall R0 work,
  NoDup (map fst R0) ->
  (forall k i, fz k = Some i <-> hasrow R0 i k) ->
  (forall i k c, nth_error R0 i = Some (k, c) -> le c c) ->
  (forall k v, In (k, v) (concat work) -> le v v) ->
  init_ok R0 [] [] false work.
Proof.
  intros R0 work N F D1 D2. constructor; [exact N | | | | | | exact D1 | exact D2].
  - intros k i H. discriminate.
  - intros k i H. apply F. exact H.
  - intros i k H. right. apply F. exact H.
  - right. reflexivity.
  - intros k i H. discriminate.
Qed.
End Proofs.

(* ---------- closed instances: Z keys, Z values under max ---------- *)
Definition zjm (a b : Z) : Z * bool := (Z.max a b, Z.ltb a b).
Lemma zjm_laws : lat_laws Z.le zjm.
Proof.
  constructor; unfold zjm; cbn [fst snd]; intros; lia.
Qed.

Definition zdl (k : Z) : option nat := if Z.eqb k 7 then Some 0 else None.
Definition znone (k : Z) : option nat := None.
Definition zmx (k : Z) : nat := 0.       (* all keys share one mutex: the worst case for blocking *)
Definition zrun_gen (kfirst setidx : bool) R0 work sched :=
  run_sched Z.eqb zjm zmx kfirst setidx zdl znone (par_init R0 [] [] false work) sched.
Definition zrun (kfirst : bool) := zrun_gen kfirst true.            (* the code as it is now: set-backed *)

(* the hypotheses are satisfiable: row 0 = (7, 0) is indexed by delta *)
Example ex_init_ok : forall work, init_ok Z.eqb Z.le zdl znone [(7, 0)%Z] [] [] false work.
Proof.
  intros work. apply fresh_init_ok.
  - repeat constructor. intros [].
  - intros k i. unfold fz, zdl, znone, hasrow. destruct (Z.eqb_spec k 7) as [->|Hne]; cbn.
    + split; [intros H; injection H as <-; exists 0%Z; reflexivity|]. intros [v H]. destruct i as [|[|i]]; cbn in H; [reflexivity | discriminate | discriminate].
    + split; [discriminate|]. intros [v H]. destruct i as [|[|i]]; cbn in H; try discriminate. injection H as <- _. contradiction.
  - intros; apply Z.le_refl.
  - intros; apply Z.le_refl.
Qed.

(* two workers raise the existing row 0 of key 7 (0 -> 1 -> 2); both read new's key index before either inserts,
   so both see new_has_ind = false, both joins report a change, and both insert row number 0 into new's other indices.
   BEFORE /repo d5edf35 those were vec-backed and the row was in them TWICE (for both insertion orders); an aggregate over
   the relation then counted the row twice (known_findings: par_lattice_index_lists_row_per_raise).  Set-backed: once. *)
Definition dup_sched : list nat := [0; 1; 0; 1; 0; 1; 0; 0; 0; 1; 1; 1].

Theorem parlat_reindexed_once_before_fix_refuted : forall kfirst,
  let s := zrun_gen kfirst false [(7, 0)%Z] [[(7, 1)%Z]; [(7, 2)%Z]] dup_sched in
  finished s = true /\ lrows s = [(7, 2)%Z] /\ lother s = [0; 0] /\ lchg s = true.
Proof. intros [|]; vm_compute; repeat split. Qed.

Example ex_reindexed_once_same_schedule : forall kfirst,
  let s := zrun kfirst [(7, 0)%Z] [[(7, 1)%Z]; [(7, 2)%Z]] dup_sched in
  finished s = true /\ lrows s = [(7, 2)%Z] /\ lother s = [0] /\ lchg s = true.
Proof. intros [|]; vm_compute; repeat split. Qed.

(* the same contributions on one worker (or in the serial macro): the row number is inserted once *)
Example ex_single_worker : forall kfirst,
  let s := zrun kfirst [(7, 0)%Z] [[(7, 1)%Z; (7, 2)%Z]] (repeat 0 20) in
  finished s = true /\ lrows s = [(7, 2)%Z] /\ lother s = [0].
Proof. intros [|]; vm_compute; repeat split. Qed.

(* two workers derive the same new key 5: the second one blocks on the key mutex (its steps are no-ops while the
   first holds it), finds the row in the re-check and joins: one row, value = max, indexed once *)
Example ex_push_race : forall kfirst,
  let s := zrun kfirst [(7, 0)%Z] [[(5, 1)%Z]; [(5, 2)%Z]] [0; 1; 0; 1; 0; 1; 1; 0; 1; 0; 0; 0; 0; 1; 0; 1; 1; 1; 1] in
  finished s = true /\ lrows s = [(7, 0); (5, 2)]%Z /\ lother s = [1] /\ lheld s = [] /\ lchg s = true.
Proof. intros [|]; vm_compute; repeat split. Qed.

Print Assumptions parlat_one_row_per_key.
Print Assumptions parlat_rows_in_place.
Print Assumptions parlat_values_lub.
Print Assumptions parlat_values.
Print Assumptions parlat_keys_untouched.
Print Assumptions parlat_distribution_schedule_independent.
Print Assumptions parlat_changed.
Print Assumptions parlat_reindexed.
Print Assumptions parlat_reindexed_once.
Print Assumptions parlat_reindexed_once_before_fix_refuted.
Print Assumptions ex_reindexed_once_same_schedule.
Print Assumptions parlat_progress.
Print Assumptions parlat_blocked_holder_enabled.
Print Assumptions enabled_step_decreases.
Print Assumptions disabled_step.
Print Assumptions parlat_can_finish.
Print Assumptions serial_lubrows.
Print Assumptions fresh_init_ok.
Print Assumptions zjm_laws.
Print Assumptions ex_init_ok.
Print Assumptions ex_single_worker.
Print Assumptions ex_push_race.
