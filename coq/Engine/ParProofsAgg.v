(* C02 with aggregation / negation: every parallel run (any distribution of the work, any
   interleaving, in every iteration of every SCC) of a validated plan on duplicate-free
   input computes the stratified model (StratFixed.strat_model_fixed), keeps the input rows
   as a prefix and the rows duplicate free; hence the same members as the serial run.
   StrataAgg.v re-run over ParProofs.IterSpec / the inductive par_loop, par_run_sccs. *)
From Coq Require Import List ZArith Bool Arith Lia Permutation.
From AV Require Import Engine.Core Engine.Sem Engine.Eval Engine.Validate Engine.Naive Engine.Interface Engine.Strat.
From AV Require Import Engine.InterfaceAgg Engine.StratFixed Engine.ParStep Engine.InterfacePar.
From AV Require Import Engine.NaiveLemmas Engine.Strata Engine.SemiNaive Engine.AggLemmas Engine.StrataAgg.
From AV Require Import Engine.SemiNaiveAgg Engine.StratFixedLemmas Engine.ParSched Engine.ParProofs.
Import ListNotations.
Local Open Scope nat_scope.

Definition par_run_strat_correct_stmt (I : interp) (swap : list tuple -> list tuple -> bool) : Prop :=
  forall arities P pl F0 st,
    arities_functional arities -> wf_facts arities F0 = true -> NoDup F0 -> agg_perm_invariant I ->
    validate arities P pl = true ->
    par_run_plan I swap pl (init_state F0) st ->
    stratified (plan_strata P pl) = true
    /\ (forall r, In r P <-> In r (concat (plan_strata P pl)))
    /\ strat_model_fixed I (plan_strata P pl) F0 (rows st)
    /\ NoDup (rows st)
    /\ exists added, rows st = F0 ++ added.

Section SccPA.
Variable I : interp.
Variable swap : list tuple -> list tuple -> bool.
Hypothesis Hspec : eval_variant_spec_agg_stmt I swap.
Hypothesis Hperm : agg_perm_invariant I.
Variable arities : list (rel * nat).
Variable P : list rule.
Hypothesis Hfun : arities_functional arities.
Variable sc : pscc.
Hypothesis Hok : scc_ok arities P sc = true.
Variable S : list fact.
Variable R0 : list fact.
Hypothesis HwfS : forall f, In f S -> wf_fact arities f = true.
Hypothesis HndS : NoDup S.
Hypothesis HS_R0 : incl S R0.
Hypothesis HR0_static : forall f, In f R0 -> fact_dyn (s_dyn sc) f = false -> In f S.

Let dyn := s_dyn sc.
Let hr := scc_head_rels P sc.
Let stratum := stratum_of P sc.
Let aggs := stratum_agg_rels stratum.

Lemma step_inv_agg_g : forall T D R N R',
  InvA I arities P sc R0 (T ++ D) R -> IterSpec I swap sc S T D R N R' ->
  InvA I arities P sc R0 ((T ++ D) ++ N) R'.
Proof.
  intros T D R N R' Hinv Hit. unfold InvA in Hinv. cbv zeta in Hinv.
  fold dyn in Hinv. fold hr in Hinv. fold stratum in Hinv. fold aggs in Hinv.
  destruct Hinv as [Hwf [HndX [Hidx [[A [HR [HndA HA]]] Hsnd]]]].
  destruct Hit as [HndN [[A1 [HR' Hp1]] [HN _]]]. fold dyn in HN.
  assert (HA1N : forall f, In f A1 <-> In f N).
  { intros f. split; [apply (Permutation_in f Hp1) | apply (Permutation_in f (Permutation_sym Hp1))]. }
  assert (HndA1 : NoDup A1) by (apply (Permutation_NoDup (Permutation_sym Hp1) HndN)).
  assert (HNp : forall f, In f N -> In (fst f) hr /\ wf_fact arities f = true
                 /\ forall M, closed I stratum M -> incl R0 M -> agree_on aggs R0 M -> In f M).
  { intros f Hf. destruct (HN f Hf) as [[v [Hv Hev]] _].
    apply (eval_in_derive_agg I swap Hspec arities P Hfun sc Hok S HwfS HndS T D v f Hwf Hv) in Hev.
    destruct (variant_fact_props_agg I arities P sc Hok S T D v f Hv Hev) as [H1 H2].
    split; [exact H1|]. split; [exact H2|].
    intros M Hcl HM Hagr. assert (HRM : incl R M) by (apply Hsnd; assumption).
    assert (HX : incl (T ++ D) M). { intros g Hg. apply HRM. apply Hidx. exact Hg. }
    apply (variant_fact_sound_agg I Hperm arities P sc Hok S T D v f M Hv Hcl).
    - intros g Hg. apply HM. apply HS_R0. exact Hg.
    - intros g Hg. apply HX. apply in_or_app. left. exact Hg.
    - intros g Hg. apply HX. apply in_or_app. right. exact Hg.
    - intros g Hga Hg. apply HR0_static; [apply (Hagr g Hga); exact Hg|].
      unfold fact_dyn. apply (aggs_static arities P sc Hok). exact Hga.
    - exact Hev. }
  assert (HNnot : forall f, In f N -> ~ In f (T ++ D)).
  { intros f Hf Hin. destruct (HN f Hf) as [_ [H1 H2]]. apply in_app_or in Hin as [Hin | Hin]; auto. }
  assert (Hdynhr : forall f, In (fst f) hr -> fact_dyn dyn f = true).
  { intros f Hf. unfold fact_dyn. apply (hr_dyn_agg arities P sc Hok). exact Hf. }
  unfold InvA. cbv zeta. fold dyn. fold hr. fold stratum. fold aggs.
  split; [|split; [|split; [|split]]].
  - intros f Hf. apply in_app_or in Hf as [Hf | Hf]; [apply Hwf; exact Hf | apply HNp; exact Hf].
  - apply NoDup_app_intro; [exact HndX | exact HndN |]. intros f HfX HfN. exact (HNnot f HfN HfX).
  - intros f. rewrite HR'. split.
    + intros Hf. apply in_app_or in Hf as [Hf | Hf].
      * apply Hidx in Hf as [H1 H2]. split; [apply in_or_app; left; exact H1 | exact H2].
      * split; [apply in_or_app; right; apply HA1N; exact Hf|]. apply Hdynhr. apply HNp. exact Hf.
    + intros [Hf Hd]. apply in_app_or in Hf as [Hf | Hf]; apply in_or_app.
      * left. apply Hidx. split; assumption.
      * right. apply HA1N. exact Hf.
  - exists (A ++ A1). split; [rewrite HR', HR, app_assoc; reflexivity|]. split.
    + apply NoDup_app_intro; [exact HndA | exact HndA1 |].
      intros f HfA HfA1. apply HA1N in HfA1. apply (HNnot f HfA1). apply Hidx. split.
      * rewrite HR. apply in_or_app. right. exact HfA.
      * apply Hdynhr. apply HA. exact HfA.
    + intros f Hf. apply in_app_or in Hf as [Hf | Hf]; [apply HA; exact Hf|]. apply HA1N in Hf.
      split; [|apply HNp; exact Hf].
      intro Hin. apply (HNnot f Hf). apply Hidx. split.
      * rewrite HR. apply in_or_app. left. exact Hin.
      * apply Hdynhr. apply HNp. exact Hf.
  - intros M Hcl HM Hagr. rewrite HR'. apply incl_app; [apply Hsnd; assumption|].
    intros f Hf. apply HA1N in Hf. apply HNp; assumption.
Qed.

Lemma step_sn_agg_g : forall T D R N R',
  (forall g, In g (T ++ D) -> wf_fact arities g = true) ->
  SNA I P sc S T D -> IterSpec I swap sc S T D R N R' -> FullClosedA I P sc S (T ++ D) ((T ++ D) ++ N).
Proof.
  intros T D R N R' Hwf Hsn Hit. unfold FullClosedA. cbv zeta. fold dyn. intros j r f Hj Hr Hf.
  destruct Hit as [_ [_ [_ Hcov]]]. fold dyn in Hcov.
  pose proof (rule_aggs_static arities P sc Hok j r) as Hst. specialize (fun q => Hst q Hj Hr). fold dyn in Hst.
  unfold derive_rule in Hf. apply in_heads_of_envs in Hf as [e [h [He [Hh Hev]]]].
  destruct (extract_assignment_agg I S T D dyn (body r) [] e Hst He) as [a [Hlen Ha]].
  assert (Hcase : (has_delta a = true \/ ndyn_items dyn (body r) = 0)
                  \/ (has_delta a = false /\ ndyn_items dyn (body r) <> 0)).
  { destruct (has_delta a); [left; left; reflexivity|].
    destruct (Nat.eq_dec (ndyn_items dyn (body r)) 0) as [Hz | Hz]; [left; right; exact Hz | right; auto]. }
  destruct Hcase as [Hc | [Hnd Hnz]].
  - destruct (cover_variant_agg arities P sc Hok j r a Hj Hr Hlen Hc) as [v [Hv [Hvj Hadm]]].
    destruct (variant_ok_unpack_agg arities P sc v (scc_ok_variant_agg arities P sc Hok v Hv))
      as [r' [Hr' [Hitm [Hhd _]]]].
    rewrite Hvj, Hr in Hr'. injection Hr' as <-.
    assert (Hdv : In f (derive_variant I (contents S T D dyn) dyn v)).
    { unfold derive_variant. rewrite Hitm, Hhd. apply in_heads_of_envs. exists e, h.
      split; [|split; assumption]. revert Ha. apply admits_incl_agg; assumption. }
    apply (eval_in_derive_agg I swap Hspec arities P Hfun sc Hok S HwfS HndS T D v f Hwf Hv) in Hdv.
    destruct (Hcov v f Hv Hdv) as [Hc' | [Hc' | Hc']]; apply in_or_app.
    + left. apply in_or_app. left. exact Hc'.
    + left. apply in_or_app. right. exact Hc'.
    + right. exact Hc'.
  - apply in_or_app. left. apply (Hsn j r f Hj Hr Hnz). unfold derive_rule. apply in_heads_of_envs.
    exists e, h. split; [|split; assumption]. revert Ha. apply no_delta_reads_total_agg; assumption.
Qed.

Lemma inv_wf : forall X R, InvA I arities P sc R0 X R -> forall g, In g X -> wf_fact arities g = true.
Proof. intros X R H. unfold InvA in H. cbv zeta in H. apply H. Qed.

Lemma par_loop_post_agg : forall T D R T' R',
  par_loop I swap sc S T D R T' R' ->
  InvA I arities P sc R0 (T ++ D) R -> SNA I P sc S T D -> PostA I arities P sc S R0 T' R'.
Proof.
  intros T D R T' R' H. induction H as [T D R N R' Hit | T D R N R' Tf Rf Hit _ IH]; intros Hinv Hsn.
  - apply par_iteration_spec in Hit as [Hit Hb]. apply nil_of_is_nil in Hb. subst N.
    pose proof (step_inv_agg_g _ _ _ _ _ Hinv Hit) as Hi2.
    pose proof (step_sn_agg_g _ _ _ _ _ (inv_wf _ _ Hinv) Hsn Hit) as Hfc. rewrite app_nil_r in Hi2, Hfc.
    unfold PostA. cbv zeta. split; assumption.
  - apply par_iteration_spec in Hit as [Hit _].
    apply IH; [eapply step_inv_agg_g; eassumption|].
    unfold SNA. cbv zeta. intros j r f Hj Hr _ Hf.
    exact (step_sn_agg_g _ _ _ _ _ (inv_wf _ _ Hinv) Hsn Hit j r f Hj Hr Hf).
Qed.

Lemma par_once_post_agg : forall D R N R',
  s_loop sc = false -> InvA I arities P sc R0 ([] ++ D) R -> IterSpec I swap sc S [] D R N R' ->
  PostA I arities P sc S R0 (D ++ N) R'.
Proof.
  intros D R N R' Hl Hinv Hit. pose proof (step_inv_agg_g _ _ _ _ _ Hinv Hit) as Hi2.
  pose proof (step_sn_agg_g _ _ _ _ _ (inv_wf _ _ Hinv) (sn_init_agg I P sc S D) Hit) as Hfc. cbn [app] in Hi2, Hfc.
  unfold PostA. cbv zeta. split; [exact Hi2|].
  unfold FullClosedA in *. cbv zeta in *. fold dyn in Hfc. fold dyn.
  intros j r f Hj Hr Hf. apply (Hfc j r f Hj Hr).
  destruct (scc_ok_rule_agg arities P sc Hok j Hj) as [r' [Hr' [_ [Hz Hst]]]]. rewrite Hr in Hr'. injection Hr' as <-.
  destruct Hz as [Hz | Hz]; [congruence|]. fold dyn in Hz, Hst.
  revert Hf. apply derive_rule_mono_agg; [exact Hperm | |].
  - intros q Hq t. rewrite body_agg_rels_eq in Hq. unfold sdb. rewrite (Hst q Hq). reflexivity.
  - intros q Hq. rewrite body_clause_rels_eq in Hq. unfold sdb. rewrite (ndyn_zero_static dyn _ q Hz Hq).
    apply incl_refl.
Qed.
End SccPA.

(* the conclusion of StrataAgg.run_scc_spec_agg *)
Definition scc_result_agg (I : interp) (arities : list (rel * nat)) (P : list rule) (sc : pscc) (st st' : state) : Prop :=
  (forall f, In f (stored st') <-> In f (rows st'))
  /\ (forall f, In f (rows st') -> wf_fact arities f = true)
  /\ NoDup (stored st')
  /\ (exists A, rows st' = rows st ++ A /\ NoDup A /\ forall f, In f A -> ~ In f (rows st))
  /\ least_model_fixed I (stratum_of P sc) (rows st) (rows st').

Theorem par_run_scc_spec_agg : forall I swap arities P sc st st',
  eval_variant_spec_agg_stmt I swap -> agg_perm_invariant I -> arities_functional arities ->
  scc_ok arities P sc = true ->
  (forall f, In f (stored st) <-> In f (rows st)) ->
  (forall f, In f (rows st) -> wf_fact arities f = true) ->
  NoDup (stored st) ->
  par_run_scc I swap sc st st' -> scc_result_agg I arities P sc st st'.
Proof.
  intros I swap arities P sc st st' Hspec Hperm Hfun Hok Hsr Hwf Hnds Hrun.
  set (dyn := s_dyn sc) in *.
  set (D0 := filter (fact_dyn dyn) (stored st)).
  set (S := filter (fun f => negb (fact_dyn dyn f)) (stored st)).
  assert (HwfS : forall f, In f S -> wf_fact arities f = true).
  { intros f Hf. apply filter_In in Hf as [Hf _]. apply Hwf. apply Hsr. exact Hf. }
  assert (HndS : NoDup S) by (apply NoDup_filter; exact Hnds).
  assert (HndD0 : NoDup D0) by (apply NoDup_filter; exact Hnds).
  assert (HS_R0 : incl S (rows st)).
  { intros f Hf. apply filter_In in Hf as [Hf _]. apply Hsr. exact Hf. }
  assert (HS_static : forall f, In f S -> fact_dyn dyn f = false).
  { intros f Hf. apply filter_In in Hf as [_ Hf]. apply negb_true_iff in Hf. exact Hf. }
  assert (HR0_static : forall f, In f (rows st) -> fact_dyn dyn f = false -> In f S).
  { intros f Hf Hd. apply filter_In. split; [apply Hsr; exact Hf | rewrite Hd; reflexivity]. }
  assert (HD0 : forall f, In f D0 <-> In f (rows st) /\ fact_dyn dyn f = true).
  { intros f. unfold D0. rewrite filter_In, Hsr. reflexivity. }
  pose proof (inv_init_agg I arities P sc (rows st) D0 Hwf HndD0 HD0) as Hinit.
  assert (HPost : exists T', stored st' = S ++ T' /\ PostA I arities P sc S (rows st) T' (rows st')).
  { unfold par_run_scc in Hrun. cbv zeta in Hrun. fold dyn in Hrun. fold D0 in Hrun. fold S in Hrun.
    destruct (s_loop sc) eqn:Hl.
    - destruct Hrun as [T' [R' [Hloop ->]]]. exists T'. split; [reflexivity|]. cbn [rows].
      apply (par_loop_post_agg I swap Hspec Hperm arities P Hfun sc Hok S (rows st) HwfS HndS HS_R0 HR0_static
               [] D0 (rows st) T' R' Hloop Hinit). apply sn_init_agg.
    - destruct Hrun as [N [R' [b [Hit ->]]]]. exists (D0 ++ N). split; [reflexivity|]. cbn [rows].
      apply par_iteration_spec in Hit as [Hit _].
      apply (par_once_post_agg I swap Hspec Hperm arities P Hfun sc Hok S (rows st) HwfS HndS HS_R0 HR0_static
               D0 (rows st) N R' Hl Hinit Hit). }
  destruct HPost as [T' [Hst' HP]].
  split; [|split; [|split; [|split]]].
  - intros f. rewrite Hst'. apply (post_stored_agg I arities P sc Hok S (rows st) HS_R0 HR0_static T' (rows st') HP).
  - apply (post_wf_agg I arities P sc Hok S (rows st) T' (rows st') Hwf HP).
  - rewrite Hst'. apply (post_stored_nodup I arities P sc S (rows st) HndS HS_static T' (rows st') HP).
  - unfold PostA, InvA in HP. cbv zeta in HP. destruct HP as [[_ [_ [_ [[A [HR [Hnd HA]]] _]]]] _].
    exists A. split; [exact HR|]. split; [exact Hnd|]. intros f Hf. apply HA. exact Hf.
  - split; [|split; [|split]].
    + pose proof HP as HP'. unfold PostA, InvA in HP'. cbv zeta in HP'. destruct HP' as [[_ [_ [_ [[A [HR _]] _]]]] _].
      rewrite HR. apply incl_appl. apply incl_refl.
    + apply (post_agree I arities P sc Hok S (rows st) T' (rows st') HP).
    + apply (post_closed_agg I Hperm arities P sc Hok S (rows st) HS_R0 HR0_static T' (rows st') HP).
    + intros M HM Hagr Hcl. unfold PostA, InvA in HP. cbv zeta in HP. destruct HP as [[_ [_ [_ [_ Hsnd]]]] _].
      apply Hsnd; assumption.
Qed.

Lemma par_run_sccs_strat : forall I swap arities P,
  eval_variant_spec_agg_stmt I swap -> agg_perm_invariant I -> arities_functional arities ->
  forall rest st st', par_run_sccs I swap rest st st' ->
  forallb (scc_ok arities P) rest = true -> K arities st ->
  strat_model_fixed I (plan_strata P rest) (rows st) (rows st')
  /\ NoDup (rows st') /\ exists A, rows st' = rows st ++ A.
Proof.
  intros I swap arities P Hspec Hperm Hfun rest st st' H.
  induction H as [st | sc rest st st1 st2 H1 _ IH]; intros Hok [Hsr [Hwf [Hnds Hndr]]].
  - split; [|split].
    + cbn [plan_strata map strat_model_fixed]. split; apply incl_refl.
    + exact Hndr.
    + exists []. rewrite app_nil_r. reflexivity.
  - cbn [forallb] in Hok. apply andb_true_iff in Hok as [Hsc Hok].
    destruct (par_run_scc_spec_agg I swap arities P sc st st1 Hspec Hperm Hfun Hsc Hsr Hwf Hnds H1)
      as [Hsr1 [Hwf1 [Hnds1 [[A [HR [HndA HA]]] Hlm]]]].
    assert (Hndr1 : NoDup (rows st1)).
    { rewrite HR. apply NoDup_app_intro; [exact Hndr | exact HndA |]. intros f Hf HfA. exact (HA f HfA Hf). }
    destruct (IH Hok (conj Hsr1 (conj Hwf1 (conj Hnds1 Hndr1)))) as [Hsm [Hnd' [A' HR']]].
    split; [|split].
    + rewrite plan_strata_eq. cbn [map strat_model_fixed]. rewrite <- plan_strata_eq.
      exists (rows st1). split; [exact Hlm | exact Hsm].
    + exact Hnd'.
    + exists (A ++ A'). rewrite HR', HR, app_assoc. reflexivity.
Qed.

Theorem par_run_strat_correct : forall I swap,
  eval_variant_spec_agg_stmt I swap -> par_run_strat_correct_stmt I swap.
Proof.
  intros I swap Hspec arities P pl F0 st Hfun HwfF0 HndF0 Hperm Hval Hrun.
  split; [apply (plan_stratified arities P pl Hval)|]. split; [apply (plan_covers arities P pl Hval)|].
  unfold par_run_plan in Hrun.
  assert (HK : K arities (update_indices (init_state F0))).
  { unfold K, update_indices, init_state. cbn [rows stored app]. split; [intros f; reflexivity|].
    split; [apply wf_facts_forall; exact HwfF0|]. split; exact HndF0. }
  assert (Hoks : forallb (scc_ok arities P) pl = true).
  { unfold validate in Hval. apply andb_true_iff in Hval as [H _]. exact H. }
  destruct (par_run_sccs_strat I swap arities P Hspec Hperm Hfun pl _ st Hrun Hoks HK) as [Hsm [Hnd [A HR]]].
  cbn [update_indices init_state rows] in Hsm, HR. split; [exact Hsm|]. split; [exact Hnd|]. exists A. exact HR.
Qed.

(* parallel = serial, as sets of facts *)
Corollary par_run_same_as_serial : forall I swap arities P pl fuel F0 st_par st_ser,
  eval_variant_spec_agg_stmt I swap ->
  arities_functional arities -> wf_facts arities F0 = true -> NoDup F0 -> agg_perm_invariant I ->
  validate arities P pl = true ->
  par_run_plan I swap pl (init_state F0) st_par ->
  run_plan I swap fuel pl (init_state F0) = Some st_ser ->
  forall f, In f (rows st_par) <-> In f (rows st_ser).
Proof.
  intros I swap arities P pl fuel F0 st_par st_ser Hspec Hfun Hwf Hnd Hperm Hval Hpar Hser.
  destruct (par_run_strat_correct I swap Hspec arities P pl F0 st_par Hfun Hwf Hnd Hperm Hval Hpar) as [_ [_ [H1 _]]].
  destruct (run_plan_strat_correct_fixed I swap Hspec arities P pl fuel F0 st_ser Hfun Hwf Hnd Hperm Hval Hser) as [_ [_ [H2 _]]].
  exact (strat_model_fixed_unique I (plan_strata P pl) F0 F0 (rows st_par) (rows st_ser) (fun f => iff_refl _) H1 H2).
Qed.

Print Assumptions par_run_strat_correct.
Print Assumptions par_run_same_as_serial.
