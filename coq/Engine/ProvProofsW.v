(* ProvProofs.v under the weaker ProvLaws.engine_laws: the engine theorem for a
   provider-backed relation from laws over guarded histories with the weak form of P3;
   prun_plan_correct (provider_ok) is the corollary through engine_laws_of_provider_ok. *)
From Coq Require Import List ZArith Bool Arith Lia.
From AV Require Import Engine.Core Engine.Sem Engine.Eval Engine.Validate Engine.Naive Engine.Interface.
From AV Require Import Byods.Provider Engine.EvalProv Engine.InterfaceProv.
From AV Require Import Engine.NaiveLemmas Engine.Strata Engine.SemiNaive Engine.ProvLemmas Engine.ProvStrata.
From AV Require Import Engine.ProvLaws Engine.ProvLemmasW Engine.ProvStrataW.
Import ListNotations.
Local Open Scope nat_scope.

Section ProgramProvW.
Variable I : interp.
Variable swap : list tuple -> list tuple -> bool.
Variable PV : provider tuple.
Variable cl : list tuple -> list tuple.
Variable r0 : rel.
Variable n0 : nat.
Variable arities : list (rel * nat).
Variable P : list rule.
Variable pl : plan.
Hypothesis Hcl : closure_op tuple cl.
Hypothesis HL : engine_laws PV cl.
Hypothesis Har : cl_arity cl n0.
Hypothesis Hr0 : In (r0, n0) arities.
Hypothesis Hfun : arities_functional arities.
Hypothesis Hnoagg : no_agg P = true.
Hypothesis Hval : validate arities P pl = true.
Variable F0 : list fact.

Definition JP (k : nat) (st : pstate PV) (h : hist) : Prop :=
  GI PV r0 n0 arities st h
  /\ incl F0 (prows PV st)
  /\ (forall M, incl F0 M -> closed I P M -> cl_closed cl r0 M ->
        incl (prows PV st) M /\ forall t, In t (g_td tuple (gh h)) -> In (r0, t) M)
  /\ (forall j r i, nth_error P j = Some r -> rule_scc pl j i -> i < k ->
        forall f, In f (derive_rule I (db_of (pfacts PV r0 st)) r) -> In f (pfacts PV r0 st)).

Lemma in_pfacts : forall st f,
  In f (pfacts PV r0 st) <-> In f (prows PV st) \/ (fst f = r0 /\ In (snd f) (p_read tuple PV (pps PV st) Provider.VTotal)).
Proof.
  intros st f. unfold pfacts. rewrite in_app_iff. change (map (fun t => (r0, t)) ?l) with (pairs r0 l).
  rewrite in_pairs. reflexivity.
Qed.

Lemma JP_step : forall fuel k sc st st' h,
  nth_error pl k = Some sc -> JP k st h -> prun_scc I swap PV r0 fuel sc st = Some st' ->
  exists h', JP (S k) st' h'.
Proof.
  intros fuel k sc st st' h Hn [HG [HF0 [Hsnd Hcl']]] Hrun.
  pose proof (val_scc_ok arities P pl Hval k sc Hn) as Hsc.
  destruct (prun_scc_spec I swap PV cl r0 n0 arities P Hcl HL Har Hr0 Hfun Hnoagg sc Hsc fuel st st' h HG Hrun)
    as [hX [HG' [[Hrows Hnewrows] [[Htot Hsame] [Hsnd' Hclk]]]]].
  pose proof HG as [Hpps _]. pose proof HG' as [Hpps' _].
  assert (Hmono : forall f, In f (pfacts PV r0 st) -> In f (pfacts PV r0 st')).
  { intros f Hf. apply in_pfacts in Hf as [Hf | [He Hin]]; apply in_pfacts; [left; apply Hrows; exact Hf|].
    right. split; [exact He|]. rewrite Hpps'. apply Htot. unfold rd. rewrite <- Hpps. exact Hin. }
  exists hX. split; [exact HG'|]. split; [eapply incl_tran; eassumption|]. split.
  - intros M HM Hc Hclc. destruct (Hsnd M HM Hc Hclc) as [H1 H2]. apply (Hsnd' M Hc Hclc H1 H2).
  - intros j r i Hr Hi Hlt f Hf. destruct (Nat.eq_dec i k) as [-> | Hne].
    + destruct Hi as [sc' [Hn' Hin]]. rewrite Hn in Hn'. injection Hn' as <-. apply (Hclk j r f Hin Hr Hf).
    + assert (Hik : i < k) by lia. apply Hmono. apply (Hcl' j r i Hr Hi Hik).
      revert Hf. apply derive_rule_mono.
      * unfold no_agg in Hnoagg. rewrite forallb_forall in Hnoagg. apply Hnoagg. eapply nth_error_In. exact Hr.
      * intros q Hq t Ht. apply in_db_of in Ht. apply in_db_of.
        assert (Hcontra : In q (scc_head_rels P sc) -> False).
        { intros Hh. unfold scc_head_rels in Hh. apply in_flat_map in Hh as [j' [Hj' Hh]].
          destruct (nth_error P j') as [r'|] eqn:Hr'; [|destruct Hh].
          assert (Hk' : rule_scc pl j' k) by (exists sc; split; assumption).
          pose proof (strat_order arities P pl Hval j r j' r' i k q Hr Hr' Hi Hk' Hq Hh). lia. }
        apply in_pfacts in Ht as [Ht | [He Hin]]; apply in_pfacts.
        -- destruct (Hnewrows _ Ht) as [H | H]; [left; exact H | exfalso; exact (Hcontra H)].
        -- cbn [fst snd] in He, Hin. subst q. right. split; [reflexivity|]. cbn [snd].
           destruct (is_dyn (s_dyn sc) r0) eqn:Hd.
           ++ exfalso. apply Hcontra. apply (dyn_hr arities P sc Hsc). exact Hd.
           ++ rewrite Hpps. rewrite <- (Hsame eq_refl). rewrite <- Hpps'. exact Hin.
Qed.

Lemma prun_sccs_JP : forall fuel rest pre st h st',
  pl = pre ++ rest -> JP (length pre) st h -> prun_sccs I swap PV r0 fuel rest st = Some st' ->
  exists h', JP (length pl) st' h'.
Proof.
  intros fuel. induction rest as [|sc rest IH]; intros pre st h st' Hpl HJ Hrun.
  - cbn [prun_sccs] in Hrun. injection Hrun as <-. exists h.
    assert (Hlen : length pl = length pre) by (rewrite Hpl, app_nil_r; reflexivity). rewrite Hlen. exact HJ.
  - cbn [prun_sccs] in Hrun. destruct (prun_scc I swap PV r0 fuel sc st) as [st1|] eqn:H1; [|discriminate].
    assert (Hn : nth_error pl (length pre) = Some sc).
    { rewrite Hpl, nth_error_app2, Nat.sub_diag; [reflexivity | lia]. }
    destruct (JP_step fuel (length pre) sc st st1 h Hn HJ H1) as [h1 HJ1].
    apply (IH (pre ++ [sc]) st1 h1 st').
    + rewrite <- app_assoc. exact Hpl.
    + rewrite app_length. cbn [length]. replace (length pre + 1) with (S (length pre)) by lia. exact HJ1.
    + exact Hrun.
Qed.
End ProgramProvW.

Theorem prun_plan_correct_w : forall I swap, prun_plan_correct_w_stmt I swap.
Proof.
  intros I swap PV cl r0 n0 arities P pl fuel F0 st Hcl HL Har Hr0 Hfun HwfF0 Hna Hfree Hval Hrun.
  unfold prun_plan in Hrun.
  assert (HJ0 : JP I PV cl r0 n0 arities P pl F0 (length (@nil pscc))
                  {| prows := F0; pstored := F0; pps := p_init tuple PV |} []).
  { split; [|split; [apply incl_refl | split]].
    - unfold GI. cbn [pps pstored prows]. split; [reflexivity|]. split; [split; [apply guarded_nil | reflexivity]|].
      split; [intros u []|]. split; [intros f; reflexivity|]. split.
      + intros f Hf. split; [apply (proj1 (wf_facts_forall arities F0) HwfF0 f Hf) | apply Hfree; exact Hf].
      + intros t Ht. exfalso. exact (srv_nil_w PV cl Hcl HL t Ht).
    - intros M HM _ _. cbn [prows]. split; [exact HM | intros t []].
    - intros j r i _ _ Hlt. cbn [length] in Hlt. lia. }
  destruct (prun_sccs_JP I swap PV cl r0 n0 arities P pl Hcl HL Har Hr0 Hfun Hna Hval F0 fuel pl [] _ [] st eq_refl HJ0 Hrun)
    as [h [HG [HF0 [Hsnd Hclo]]]].
  pose proof HG as [Hpps [[Hgd _] [_ [_ [Hrows Hq]]]]].
  assert (Hdb : forall t, In t (db_of (pfacts PV r0 st) r0) <-> In t (rd PV h Provider.VTotal)).
  { intros t. rewrite in_db_of, (in_pfacts PV r0). cbn [fst snd]. rewrite Hpps. split.
    - intros [Hin | [_ Hin]]; [exfalso; exact (proj2 (Hrows _ Hin) eq_refl) | exact Hin].
    - intros Hin. right. split; [reflexivity | exact Hin]. }
  split; [|split; [|split]].
  - intros f Hf. apply (in_pfacts PV r0). left. apply HF0. exact Hf.
  - intros f [r [Hr Hf]]. apply In_nth_error in Hr as [j Hj].
    assert (Hlt : j < length P) by (apply nth_error_Some; congruence).
    destruct (val_rule_scc arities P pl Hval j Hlt) as [k Hk].
    assert (Hk' : k < length pl). { destruct Hk as [sc [Hn _]]. apply nth_error_Some. congruence. }
    apply (Hclo j r k Hj Hk Hk' f Hf).
  - (* at a stratum boundary total = served = cl (g_td) *)
    intros t Ht. apply Hdb. apply Hq. apply (srv_iff_w PV cl HL h t Hgd). apply (cl_idem tuple cl Hcl).
    revert Ht. apply (cl_mono tuple cl Hcl). intros u Hu. apply (srv_iff_w PV cl HL h u Hgd).
    apply total_in_srv. apply Hdb. exact Hu.
  - intros M HM Hc Hclc. destruct (Hsnd M HM Hc Hclc) as [H1 H2]. intros f Hf.
    apply (in_pfacts PV r0) in Hf as [Hf | [He Hin]]; [apply H1; exact Hf|].
    rewrite (fact_eta f r0 He). apply (cl_in_M cl r0 Hcl _ M _ H2 Hclc).
    apply (srv_iff_w PV cl HL h _ Hgd). apply total_in_srv. rewrite Hpps in Hin. exact Hin.
Qed.

(* the theorem under the full laws of Byods/Provider.v, as a corollary *)
Corollary prun_plan_correct_from_w : forall I swap, prun_plan_correct_stmt I swap.
Proof.
  intros I swap PV cl r0 n0 arities P pl fuel F0 st Hcl Hok. 
  apply (prun_plan_correct_w I swap PV cl r0 n0 arities P pl fuel F0 st Hcl (engine_laws_of_provider_ok PV cl Hcl Hok)).
Qed.

Print Assumptions prun_plan_correct_w.
Print Assumptions prun_plan_correct_from_w.
