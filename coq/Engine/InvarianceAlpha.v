(* C06, specification level: renaming the variables of a rule by an injective map.
   Environments are positional, so a renaming moves values to other positions: the two evaluations are
   related by  R e e' := forall x, lookup e' (s x) = lookup e x;  every primitive preserves R, so the
   two lists of satisfying environments are related pointwise (Forall2 R) and the derived facts are EQUAL lists. *)
From Coq Require Import List ZArith Bool Arith Lia.
From AV Require Import Engine.Core.
From AV Require Import Engine.Sem.
From AV Require Import Engine.EnvLemmas.
From AV Require Import Engine.InterfaceInvariance.
From AV Require Import Engine.InvarianceBase.
Import ListNotations.
Local Open Scope Z_scope.

Lemma Forall2_flat_map : forall (A B C : Type) (R : B -> C -> Prop) (g : A -> list B) (g' : A -> list C) l,
  (forall a, In a l -> Forall2 R (g a) (g' a)) -> Forall2 R (flat_map g l) (flat_map g' l).
Proof.
  intros A B C R g g' l H. induction l as [|a l IH]; cbn [flat_map]; [constructor|].
  apply Forall2_app; [apply H; left; reflexivity | apply IH; intros b Hb; apply H; right; exact Hb].
Qed.

Section Alpha.
Variable I : interp.
Variable s : var -> var.
Hypothesis s_inj : forall x y, s x = s y -> x = y.

Definition renv (e e' : env) : Prop := forall x, lookup e' (s x) = lookup e x.

Definition ropt (o o' : option env) : Prop :=
  match o, o' with Some e, Some e' => renv e e' | None, None => True | _, _ => False end.

Lemma s_eqb : forall x y, Nat.eqb (s x) (s y) = Nat.eqb x y.
Proof.
  intros x y. destruct (Nat.eqb x y) eqn:E.
  - apply Nat.eqb_eq in E. subst. apply Nat.eqb_refl.
  - apply Nat.eqb_neq. intros H. apply s_inj in H. apply Nat.eqb_neq in E. contradiction.
Qed.

Lemma renv_nil : renv [] [].
Proof. intros x. rewrite !lookup_nil. reflexivity. Qed.

Lemma renv_bind : forall e e' x v, renv e e' -> renv (bind x v e) (bind (s x) v e').
Proof.
  intros e e' x v H y. destruct (Nat.eq_dec x y) as [->|Hne].
  - rewrite !lookup_bind_eq. reflexivity.
  - rewrite !lookup_bind_neq; [apply H | exact Hne | intros Heq; apply s_inj in Heq; contradiction].
Qed.

Lemma eval_vars_renv : forall e e' xs, renv e e' -> eval_vars e' (map s xs) = eval_vars e xs.
Proof.
  intros e e' xs H. induction xs as [|x xs IH]; [reflexivity|]. cbn [map eval_vars]. rewrite H, IH. reflexivity.
Qed.

Lemma eval_term_renv : forall e e' t, renv e e' -> eval_term I e' (rename_term s t) = eval_term I e t.
Proof.
  intros e e' t H. destruct t as [x|c|g xs]; cbn [rename_term eval_term]; [apply H | reflexivity|].
  rewrite (eval_vars_renv e e' xs H). reflexivity.
Qed.

Lemma eval_terms_renv : forall e e' ts, renv e e' -> eval_terms I e' (map (rename_term s) ts) = eval_terms I e ts.
Proof.
  intros e e' ts H. induction ts as [|t ts IH]; [reflexivity|]. cbn [map eval_terms].
  rewrite (eval_term_renv e e' t H), IH. reflexivity.
Qed.

Lemma sat_cond_renv : forall e e' c, renv e e' -> ropt (sat_cond I e c) (sat_cond I e' (rename_cond s c)).
Proof.
  intros e e' c H. destruct c as [p xs|x g xs]; cbn [rename_cond sat_cond]; rewrite (eval_vars_renv e e' xs H);
    destruct (eval_vars e xs) as [vs|]; cbn [ropt]; try exact Logic.I.
  - destruct (pint I p vs); cbn [ropt]; [exact H | exact Logic.I].
  - destruct (bint I g vs) as [v|]; cbn [ropt]; [apply renv_bind; exact H | exact Logic.I].
Qed.

Lemma sat_conds_renv : forall cs e e', renv e e' -> ropt (sat_conds I e cs) (sat_conds I e' (map (rename_cond s) cs)).
Proof.
  induction cs as [|c cs IH]; intros e e' H; cbn [map sat_conds]; [exact H|].
  pose proof (sat_cond_renv e e' c H) as Hc.
  destruct (sat_cond I e c) as [e1|], (sat_cond I e' (rename_cond s c)) as [e1'|]; cbn [ropt] in Hc; try contradiction.
  - apply IH. exact Hc.
  - exact Logic.I.
Qed.

Lemma match_args_renv : forall args e e' tup, renv e e' ->
  ropt (match_args I e args tup) (match_args I e' (map (rename_term s) args) tup).
Proof.
  induction args as [|a args IH]; intros e e' tup H.
  - destruct tup; cbn [map match_args ropt]; [exact H | exact Logic.I].
  - destruct tup as [|v tup]; [cbn [map match_args ropt]; exact Logic.I|].
    destruct a as [x|c|g xs]; cbn [map rename_term match_args].
    + rewrite H. destruct (lookup e x) as [w|].
      * destruct (Z.eqb w v); [apply IH; exact H | exact Logic.I].
      * apply IH. apply renv_bind. exact H.
    + cbn [eval_term]. destruct (Z.eqb c v); [apply IH; exact H | exact Logic.I].
    + pose proof (eval_term_renv e e' (TFun g xs) H) as Ht. cbn [rename_term] in Ht. rewrite Ht.
      destruct (eval_term I e (TFun g xs)) as [w|]; [|exact Logic.I].
      destruct (Z.eqb w v); [apply IH; exact H | exact Logic.I].
Qed.

Lemma agg_match_renv : forall args e e' tup, renv e e' ->
  agg_match I e' (map (rename_aarg s) args) tup = agg_match I e args tup.
Proof.
  induction args as [|a args IH]; intros e e' tup H.
  - destruct tup; reflexivity.
  - destruct tup as [|v tup]; [reflexivity|].
    destruct a as [|x|t]; cbn [map rename_aarg agg_match]; try (apply IH; exact H).
    rewrite (eval_term_renv e e' t H). destruct (eval_term I e t) as [w|]; [|reflexivity].
    rewrite (IH e e' tup H). reflexivity.
Qed.

Lemma agg_col_rename : forall x args tup, agg_col (s x) (map (rename_aarg s) args) tup = agg_col x args tup.
Proof.
  intros x args. induction args as [|a args IH]; intros tup; [reflexivity|].
  destruct tup as [|v tup]; [destruct a; reflexivity|].
  destruct a as [|y|t]; cbn [map rename_aarg agg_col]; try apply IH.
  rewrite s_eqb. destruct (Nat.eqb x y); [reflexivity | apply IH].
Qed.

Lemma agg_input_rename : forall bound args tup,
  agg_input (map s bound) (map (rename_aarg s) args) tup = agg_input bound args tup.
Proof.
  intros bound args tup. unfold agg_input. rewrite filter_map_map. apply filter_map_ext.
  intros x _. apply agg_col_rename.
Qed.

Lemma all_envs_renv : forall db items e e', renv e e' ->
  Forall2 renv (all_envs I db items e) (all_envs I db (map (rename_bitem s) items) e').
Proof.
  intros db items. induction items as [|b items IH]; intros e e' H.
  - cbn. constructor; [exact H | constructor].
  - destruct b as [r args cs|c|x g xs|out a bound r args]; cbn [map rename_bitem all_envs].
    + apply Forall2_flat_map. intros tup _.
      pose proof (match_args_renv args e e' tup H) as Hm.
      destruct (match_args I e args tup) as [e1|], (match_args I e' (map (rename_term s) args) tup) as [e1'|];
        cbn [ropt] in Hm; try contradiction; [|constructor].
      pose proof (sat_conds_renv cs e1 e1' Hm) as Hc.
      destruct (sat_conds I e1 cs) as [e2|], (sat_conds I e1' (map (rename_cond s) cs)) as [e2'|];
        cbn [ropt] in Hc; try contradiction; [|constructor].
      apply IH. exact Hc.
    + pose proof (sat_cond_renv e e' c H) as Hc.
      destruct (sat_cond I e c) as [e1|], (sat_cond I e' (rename_cond s c)) as [e1'|];
        cbn [ropt] in Hc; try contradiction; [|constructor].
      apply IH. exact Hc.
    + rewrite (eval_vars_renv e e' xs H). destruct (eval_vars e xs) as [vs|]; [|constructor].
      apply Forall2_flat_map. intros v _. apply IH. apply renv_bind. exact H.
    + rewrite (filter_ext _ _ (fun tup => agg_match_renv args e e' tup H)).
      rewrite (map_ext _ _ (agg_input_rename bound args)).
      apply Forall2_flat_map. intros v _. apply IH.
      destruct out as [x|]; cbn [option_map bind_out]; [apply renv_bind|]; exact H.
Qed.

Lemma eval_head_renv : forall e e' h, renv e e' ->
  eval_head I e' (fst h, map (rename_term s) (snd h)) = eval_head I e h.
Proof.
  intros e e' h H. unfold eval_head. cbn [fst snd]. rewrite (eval_terms_renv e e' (snd h) H). reflexivity.
Qed.

Theorem derive_rule_alpha : forall db r, derive_rule I db (rename_rule s r) = derive_rule I db r.
Proof.
  intros db r. unfold derive_rule. cbn [heads body rename_rule].
  pose proof (all_envs_renv db (body r) [] [] renv_nil) as HF.
  induction HF as [|e e' l l' He _ IH]; [reflexivity|].
  cbn [flat_map]. rewrite IH. f_equal.
  rewrite filter_map_map. apply filter_map_ext. intros h _. apply eval_head_renv. exact He.
Qed.
End Alpha.

Theorem alpha_proof : alpha_stmt.
Proof. intros I db r s Hs f. rewrite (derive_rule_alpha I s Hs db r). reflexivity. Qed.
