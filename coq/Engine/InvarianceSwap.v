(* C06, specification level: swapping two adjacent body items that share no variable.
   Each item is described by a one-step relation  step b e e1  ("e1 is one of the environments item b produces
   from e"); a step only changes variables the item mentions (frame) and only depends on them (respect), so
   two independent steps commute up to pointwise equality of lookups, which is equality for canonical
   environments (no trailing None) — and every environment reachable from [] is canonical. *)
From Coq Require Import List ZArith Bool Arith Lia.
From AV Require Import Engine.Core.
From AV Require Import Engine.Sem.
From AV Require Import Engine.EnvLemmas.
From AV Require Import Engine.NaiveLemmas.
From AV Require Import Engine.InterfaceInvariance.
From AV Require Import Engine.InvarianceBase.
Import ListNotations.
Local Open Scope Z_scope.

Section Swap.
Variable I : interp.
Variable db : rel -> list tuple.

Definition step (b : bitem) (e e1 : env) : Prop :=
  match b with
  | BClause r args cs => exists tup em, In tup (db r) /\ match_args I e args tup = Some em /\ sat_conds I em cs = Some e1
  | BCond c => sat_cond I e c = Some e1
  | BGen x g xs => exists vs v, eval_vars e xs = Some vs /\ In v (gint I g vs) /\ e1 = bind x v e
  | BAgg out a bound r args =>
      exists v, In v (aint I a (map (agg_input bound args) (dedup_tuples (filter (agg_match I e args) (db r)))))
                /\ e1 = bind_out out v e
  end.

Lemma in_all_envs_cons : forall b rest e e',
  In e' (all_envs I db (b :: rest) e) <-> exists e1, step b e e1 /\ In e' (all_envs I db rest e1).
Proof.
  intros b rest e e'. destruct b as [r args cs|c|x g xs|out a bound r args]; cbn [all_envs step].
  - rewrite in_flat_map. split.
    + intros [tup [Ht Hin]]. destruct (match_args I e args tup) as [em|] eqn:Em; [|destruct Hin].
      destruct (sat_conds I em cs) as [e1|] eqn:Ec; [|destruct Hin].
      exists e1. split; [exists tup, em; auto | exact Hin].
    + intros [e1 [[tup [em [Ht [Em Ec]]]] Hin]]. exists tup. split; [exact Ht|]. rewrite Em, Ec. exact Hin.
  - split.
    + intros Hin. destruct (sat_cond I e c) as [e1|]; [|destruct Hin]. exists e1. auto.
    + intros [e1 [Hc Hin]]. rewrite Hc. exact Hin.
  - split.
    + intros Hin. destruct (eval_vars e xs) as [vs|]; [|destruct Hin].
      apply in_flat_map in Hin as [v [Hv Hin]]. exists (bind x v e). split; [exists vs, v; auto | exact Hin].
    + intros [e1 [[vs [v [Hvs [Hv ->]]]] Hin]]. rewrite Hvs. apply in_flat_map. exists v. auto.
  - rewrite in_flat_map. split.
    + intros [v [Hv Hin]]. exists (bind_out out v e). split; [exists v; auto | exact Hin].
    + intros [e1 [[v [Hv ->]] Hin]]. exists v. auto.
Qed.

Lemma in_all_envs_app : forall pre rest e e',
  In e' (all_envs I db (pre ++ rest) e) <-> exists e1, In e1 (all_envs I db pre e) /\ In e' (all_envs I db rest e1).
Proof.
  induction pre as [|b pre IH]; intros rest e e'.
  - cbn [app all_envs]. split.
    + intros H. exists e. split; [left; reflexivity | exact H].
    + intros [e1 [[<-|[]] H]]. exact H.
  - cbn [app]. rewrite in_all_envs_cons. split.
    + intros [e1 [Hs Hin]]. apply IH in Hin as [e2 [H2 Hin]]. exists e2. split; [|exact Hin].
      apply in_all_envs_cons. exists e1. auto.
    + intros [e2 [H2 Hin]]. apply in_all_envs_cons in H2 as [e1 [Hs H2]]. exists e1. split; [exact Hs|].
      apply IH. exists e2. auto.
Qed.

(* ---------- canonical environments are preserved ---------- *)
Lemma sat_cond_canon : forall e c e1, canon e -> sat_cond I e c = Some e1 -> canon e1.
Proof.
  intros e c e1 Hc H. destruct c as [p xs|x g xs]; cbn [sat_cond] in H; destruct (eval_vars e xs) as [vs|]; try discriminate.
  - destruct (pint I p vs); inversion H; subst; exact Hc.
  - destruct (bint I g vs) as [v|]; inversion H; subst. apply canon_bind. exact Hc.
Qed.

Lemma sat_conds_canon : forall cs e e1, canon e -> sat_conds I e cs = Some e1 -> canon e1.
Proof.
  induction cs as [|c cs IH]; intros e e1 Hc H; cbn [sat_conds] in H.
  - inversion H; subst; exact Hc.
  - destruct (sat_cond I e c) as [e0|] eqn:E; [|discriminate]. eapply IH; [|exact H]. eapply sat_cond_canon; eauto.
Qed.

Lemma match_args_canon : forall args e tup e1, canon e -> match_args I e args tup = Some e1 -> canon e1.
Proof.
  induction args as [|a args IH]; intros e tup e1 Hc H; destruct tup as [|v tup]; cbn [match_args] in H; try discriminate.
  - inversion H; subst; exact Hc.
  - destruct a as [x|c|g xs].
    + destruct (lookup e x) as [w|].
      * destruct (Z.eqb w v); [|discriminate]. eapply IH; eauto.
      * eapply IH; [|exact H]. apply canon_bind. exact Hc.
    + destruct (eval_term I e (TConst c)) as [w|]; [|discriminate]. destruct (Z.eqb w v); [|discriminate]. eapply IH; eauto.
    + destruct (eval_term I e (TFun g xs)) as [w|]; [|discriminate]. destruct (Z.eqb w v); [|discriminate]. eapply IH; eauto.
Qed.

Lemma step_canon : forall b e e1, canon e -> step b e e1 -> canon e1.
Proof.
  intros b e e1 Hc H. destruct b as [r args cs|c|x g xs|out a bound r args]; cbn [step] in H.
  - destruct H as [tup [em [_ [Em Ec]]]]. eapply sat_conds_canon; [|exact Ec]. eapply match_args_canon; eauto.
  - eapply sat_cond_canon; eauto.
  - destruct H as [vs [v [_ [_ ->]]]]. apply canon_bind. exact Hc.
  - destruct H as [v [_ ->]]. destruct out; cbn [bind_out]; [apply canon_bind|]; exact Hc.
Qed.

Lemma all_envs_canon : forall items e e', canon e -> In e' (all_envs I db items e) -> canon e'.
Proof.
  induction items as [|b items IH]; intros e e' Hc H.
  - cbn in H. destruct H as [<-|[]]. exact Hc.
  - apply in_all_envs_cons in H as [e1 [Hs H]]. eapply IH; [|exact H]. eapply step_canon; eauto.
Qed.

(* ---------- agreement on a set of variables ---------- *)
Definition agree (P : var -> Prop) (e e' : env) : Prop := forall x, P x -> lookup e x = lookup e' x.

Lemma agree_bind : forall (P : var -> Prop) e e' x v, agree P e e' -> agree P (bind x v e) (bind x v e').
Proof.
  intros P e e' x v H y Hy. destruct (Nat.eq_dec x y) as [->|Hne].
  - rewrite !lookup_bind_eq. reflexivity.
  - rewrite !lookup_bind_neq by exact Hne. apply H. exact Hy.
Qed.

Lemma eval_vars_agree' : forall (P : var -> Prop) e e' xs, (forall x, In x xs -> P x) -> agree P e e' -> eval_vars e xs = eval_vars e' xs.
Proof.
  intros P e e' xs HP H. apply eval_vars_agree. intros x Hx. apply H. apply HP. exact Hx.
Qed.

Lemma eval_term_agree' : forall (P : var -> Prop) e e' t, (forall x, In x (term_uses t) -> P x) -> agree P e e' ->
  eval_term I e t = eval_term I e' t.
Proof.
  intros P e e' t HP H. destruct t as [x|c|g xs]; cbn [eval_term term_uses] in *.
  - apply H. apply HP. left. reflexivity.
  - reflexivity.
  - rewrite (eval_vars_agree' P e e' xs HP H). reflexivity.
Qed.

(* ---------- frame: a step only changes variables the item mentions ---------- *)
Lemma sat_cond_frame : forall e c e1 x, sat_cond I e c = Some e1 -> ~ In x (cond_uses c) -> lookup e1 x = lookup e x.
Proof.
  intros e c e1 x H Hx. destruct c as [p xs|y g xs]; cbn [sat_cond cond_uses] in *; destruct (eval_vars e xs) as [vs|]; try discriminate.
  - destruct (pint I p vs); inversion H; subst; reflexivity.
  - destruct (bint I g vs) as [v|]; inversion H; subst. apply lookup_bind_neq. intros ->. apply Hx. left. reflexivity.
Qed.

Lemma sat_conds_frame : forall cs e e1 x, sat_conds I e cs = Some e1 -> ~ In x (flat_map cond_uses cs) -> lookup e1 x = lookup e x.
Proof.
  induction cs as [|c cs IH]; intros e e1 x H Hx; cbn [sat_conds flat_map] in *.
  - inversion H; subst; reflexivity.
  - destruct (sat_cond I e c) as [e0|] eqn:E; [|discriminate].
    rewrite (IH e0 e1 x H) by (intros Hin; apply Hx; apply in_or_app; right; exact Hin).
    apply (sat_cond_frame e c e0 x E). intros Hin; apply Hx; apply in_or_app; left; exact Hin.
Qed.

Lemma match_args_frame : forall args e tup e1 x,
  match_args I e args tup = Some e1 -> ~ In x (flat_map term_uses args) -> lookup e1 x = lookup e x.
Proof.
  induction args as [|a args IH]; intros e tup e1 x H Hx; destruct tup as [|v tup]; cbn [match_args] in H; try discriminate.
  - inversion H; subst; reflexivity.
  - cbn [flat_map] in Hx.
    assert (Hx2 : ~ In x (flat_map term_uses args)) by (intros Hin; apply Hx; apply in_or_app; right; exact Hin).
    destruct a as [y|c|g xs].
    + destruct (lookup e y) as [w|].
      * destruct (Z.eqb w v); [|discriminate]. eapply IH; eauto.
      * rewrite (IH _ _ _ x H Hx2). apply lookup_bind_neq. intros ->. apply Hx. apply in_or_app. left. left. reflexivity.
    + destruct (eval_term I e (TConst c)) as [w|]; [|discriminate]. destruct (Z.eqb w v); [|discriminate]. eapply IH; eauto.
    + destruct (eval_term I e (TFun g xs)) as [w|]; [|discriminate]. destruct (Z.eqb w v); [|discriminate]. eapply IH; eauto.
Qed.

Lemma step_frame : forall b e e1 x, step b e e1 -> ~ In x (bitem_uses b) -> lookup e1 x = lookup e x.
Proof.
  intros b e e1 x H Hx. destruct b as [r args cs|c|y g xs|out a bound r args]; cbn [step bitem_uses] in *.
  - destruct H as [tup [em [_ [Em Ec]]]].
    rewrite (sat_conds_frame cs em e1 x Ec) by (intros Hin; apply Hx; apply in_or_app; right; exact Hin).
    apply (match_args_frame args e tup em x Em). intros Hin; apply Hx; apply in_or_app; left; exact Hin.
  - eapply sat_cond_frame; eauto.
  - destruct H as [vs [v [_ [_ ->]]]]. apply lookup_bind_neq. intros ->. apply Hx. left. reflexivity.
  - destruct H as [v [_ ->]]. destruct out as [y|]; cbn [bind_out]; [|reflexivity].
    apply lookup_bind_neq. intros ->. apply Hx. apply in_or_app. left. left. reflexivity.
Qed.

(* ---------- respect: a step only depends on variables the item mentions ---------- *)
Lemma sat_cond_respect : forall (P : var -> Prop) e e' c e1,
  (forall x, In x (cond_uses c) -> P x) -> agree P e e' -> sat_cond I e c = Some e1 ->
  exists e1', sat_cond I e' c = Some e1' /\ agree P e1 e1'.
Proof.
  intros P e e' c e1 HP H Hs. destruct c as [p xs|y g xs]; cbn [sat_cond cond_uses] in *.
  - rewrite <- (eval_vars_agree' P e e' xs HP H). destruct (eval_vars e xs) as [vs|]; [|discriminate].
    destruct (pint I p vs); inversion Hs; subst. exists e'. auto.
  - rewrite <- (eval_vars_agree' P e e' xs (fun x Hx => HP x (or_intror Hx)) H). destruct (eval_vars e xs) as [vs|]; [|discriminate].
    destruct (bint I g vs) as [v|]; inversion Hs; subst. exists (bind y v e'). split; [reflexivity | apply agree_bind; exact H].
Qed.

Lemma sat_conds_respect : forall (P : var -> Prop) cs e e' e1,
  (forall x, In x (flat_map cond_uses cs) -> P x) -> agree P e e' -> sat_conds I e cs = Some e1 ->
  exists e1', sat_conds I e' cs = Some e1' /\ agree P e1 e1'.
Proof.
  intros P. induction cs as [|c cs IH]; intros e e' e1 HP H Hs; cbn [sat_conds flat_map] in *.
  - inversion Hs; subst. exists e'. auto.
  - destruct (sat_cond I e c) as [e0|] eqn:E; [|discriminate].
    destruct (sat_cond_respect P e e' c e0 (fun x Hx => HP x (in_or_app _ _ _ (or_introl Hx))) H E) as [e0' [E' H0]].
    rewrite E'. apply (IH e0 e0' e1 (fun x Hx => HP x (in_or_app _ _ _ (or_intror Hx))) H0 Hs).
Qed.

Lemma match_args_respect : forall (P : var -> Prop) args e e' tup e1,
  (forall x, In x (flat_map term_uses args) -> P x) -> agree P e e' -> match_args I e args tup = Some e1 ->
  exists e1', match_args I e' args tup = Some e1' /\ agree P e1 e1'.
Proof.
  intros P. induction args as [|a args IH]; intros e e' tup e1 HP H Hm; destruct tup as [|v tup]; cbn [match_args] in *; try discriminate.
  - inversion Hm; subst. exists e'. auto.
  - cbn [flat_map] in HP.
    assert (HP1 : forall x, In x (term_uses a) -> P x) by (intros x Hx; apply HP; apply in_or_app; left; exact Hx).
    assert (HP2 : forall x, In x (flat_map term_uses args) -> P x) by (intros x Hx; apply HP; apply in_or_app; right; exact Hx).
    destruct a as [y|c|g xs].
    + rewrite <- (H y (HP1 y (or_introl eq_refl))). destruct (lookup e y) as [w|].
      * destruct (Z.eqb w v); [|discriminate]. apply (IH e e' tup e1 HP2 H Hm).
      * apply (IH _ _ tup e1 HP2 (agree_bind P e e' y v H) Hm).
    + cbn [eval_term] in *. destruct (Z.eqb c v); [|discriminate]. apply (IH e e' tup e1 HP2 H Hm).
    + rewrite <- (eval_term_agree' P e e' (TFun g xs) HP1 H). destruct (eval_term I e (TFun g xs)) as [w|]; [|discriminate].
      destruct (Z.eqb w v); [|discriminate]. apply (IH e e' tup e1 HP2 H Hm).
Qed.

Definition aarg_uses (a : aarg) : list var := match a with AKey t => term_uses t | ABound x => [x] | AWild => [] end.

Lemma agg_match_agree : forall (P : var -> Prop) args e e' tup,
  (forall x, In x (flat_map aarg_uses args) -> P x) -> agree P e e' -> agg_match I e args tup = agg_match I e' args tup.
Proof.
  intros P. induction args as [|a args IH]; intros e e' tup HP H; destruct tup as [|v tup]; cbn [agg_match]; try reflexivity.
  cbn [flat_map] in HP.
  assert (HP2 : forall x, In x (flat_map aarg_uses args) -> P x) by (intros x Hx; apply HP; apply in_or_app; right; exact Hx).
  destruct a as [|y|t]; try (apply IH; assumption).
  rewrite <- (eval_term_agree' P e e' t (fun x Hx => HP x (in_or_app _ _ _ (or_introl Hx))) H).
  destruct (eval_term I e t) as [w|]; [|reflexivity]. rewrite (IH e e' tup HP2 H). reflexivity.
Qed.

Lemma step_respect : forall (P : var -> Prop) b e e' e1,
  (forall x, In x (bitem_uses b) -> P x) -> agree P e e' -> step b e e1 ->
  exists e1', step b e' e1' /\ agree P e1 e1'.
Proof.
  intros P b e e' e1 HP H Hs. destruct b as [r args cs|c|y g xs|out a bound r args]; cbn [step bitem_uses] in *.
  - destruct Hs as [tup [em [Ht [Em Ec]]]].
    destruct (match_args_respect P args e e' tup em (fun x Hx => HP x (in_or_app _ _ _ (or_introl Hx))) H Em) as [em' [Em' Hm]].
    destruct (sat_conds_respect P cs em em' e1 (fun x Hx => HP x (in_or_app _ _ _ (or_intror Hx))) Hm Ec) as [e1' [Ec' H1]].
    exists e1'. split; [exists tup, em'; auto | exact H1].
  - eapply sat_cond_respect; eauto.
  - destruct Hs as [vs [v [Hvs [Hv ->]]]]. exists (bind y v e'). split; [|apply agree_bind; exact H].
    exists vs, v. rewrite <- (eval_vars_agree' P e e' xs (fun x Hx => HP x (or_intror Hx)) H). auto.
  - destruct Hs as [v [Hv ->]]. exists (bind_out out v e'). split.
    + exists v. split; [|reflexivity].
      rewrite <- (filter_ext _ _ (fun tup => agg_match_agree P args e e' tup (fun x Hx => HP x (in_or_app _ _ _ (or_intror Hx))) H)).
      exact Hv.
    + destruct out; cbn [bind_out]; [apply agree_bind|]; exact H.
Qed.

(* ---------- two independent steps commute ---------- *)
Lemma steps_commute : forall b1 b2 e e1 e12, independent b1 b2 -> canon e ->
  step b1 e e1 -> step b2 e1 e12 -> exists e2, step b2 e e2 /\ step b1 e2 e12.
Proof.
  intros b1 b2 e e1 e12 Hind Hc H1 H12.
  set (U1 := bitem_uses b1) in *. set (U2 := bitem_uses b2) in *.
  assert (Hdis : forall x, In x U2 -> ~ In x U1) by (intros x H2 H1'; exact (Hind x H1' H2)).
  (* b2 from e *)
  destruct (step_respect (fun x => In x U2) b2 e1 e e12 (fun x Hx => Hx)) as [e2 [H2 Ha2]]; [|exact H12|].
  { intros x Hx. apply (step_frame b1 e e1 x H1). apply Hdis. exact Hx. }
  (* b1 from e2 *)
  destruct (step_respect (fun x => In x U1) b1 e e2 e1 (fun x Hx => Hx)) as [e21 [H21 Ha1]]; [|exact H1|].
  { intros x Hx. symmetry. apply (step_frame b2 e e2 x H2). apply Hind. exact Hx. }
  exists e2. split; [exact H2|].
  assert (Heq : e21 = e12).
  { apply canon_ext.
    - eapply step_canon; [|exact H21]. eapply step_canon; eauto.
    - eapply step_canon; [|exact H12]. eapply step_canon; eauto.
    - intros x. destruct (in_dec Nat.eq_dec x U1) as [Hx1|Hx1]; [|destruct (in_dec Nat.eq_dec x U2) as [Hx2|Hx2]].
      + rewrite <- (Ha1 x Hx1). symmetry. apply (step_frame b2 e1 e12 x H12). apply Hind. exact Hx1.
      + rewrite (step_frame b1 e2 e21 x H21 Hx1). symmetry. apply Ha2. exact Hx2.
      + rewrite (step_frame b1 e2 e21 x H21 Hx1), (step_frame b2 e e2 x H2 Hx2).
        rewrite (step_frame b2 e1 e12 x H12 Hx2), (step_frame b1 e e1 x H1 Hx1). reflexivity. }
  rewrite <- Heq. exact H21.
Qed.

Lemma independent_sym : forall b1 b2, independent b1 b2 -> independent b2 b1.
Proof. intros b1 b2 H x H2 H1. exact (H x H1 H2). Qed.

Lemma all_envs_swap_incl : forall b1 b2 post e e', independent b1 b2 -> canon e ->
  In e' (all_envs I db (b1 :: b2 :: post) e) -> In e' (all_envs I db (b2 :: b1 :: post) e).
Proof.
  intros b1 b2 post e e' Hind Hc H.
  apply in_all_envs_cons in H as [e1 [H1 H]]. apply in_all_envs_cons in H as [e12 [H12 H]].
  destruct (steps_commute b1 b2 e e1 e12 Hind Hc H1 H12) as [e2 [H2 H21]].
  apply in_all_envs_cons. exists e2. split; [exact H2|]. apply in_all_envs_cons. exists e12. auto.
Qed.

Lemma derive_swap_incl : forall hs pre b1 b2 post f, independent b1 b2 ->
  In f (derive_rule I db {| heads := hs; body := pre ++ b1 :: b2 :: post |}) ->
  In f (derive_rule I db {| heads := hs; body := pre ++ b2 :: b1 :: post |}).
Proof.
  intros hs pre b1 b2 post f Hind H. unfold derive_rule in *. cbn [heads body] in *.
  apply in_heads_of_envs in H as [e' [h [He' [Hh Hev]]]]. apply in_heads_of_envs. exists e', h. split; [|auto].
  apply in_all_envs_app in He' as [e [He He']]. apply in_all_envs_app. exists e. split; [exact He|].
  apply all_envs_swap_incl; [exact Hind | | exact He'].
  eapply all_envs_canon; [|exact He]. exact Logic.I.
Qed.
End Swap.

Theorem body_swap_proof : body_swap_stmt.
Proof.
  intros I db hs pre b1 b2 post Hind f. split; apply derive_swap_incl; [exact Hind | apply independent_sym; exact Hind].
Qed.
