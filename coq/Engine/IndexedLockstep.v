(* Per-index engine state, part 4: the lock-step invariant for ARBITRARY inputs.  IndexedRefine.v relates the indexed
   model to Engine/Eval.v and for that needs duplicate-free input rows; the property "every index of a relation
   receives the same insertions" does not depend on what the rule bodies read, and is proved here directly on
   IndexedEval.run_plan_idx, duplicate rows included: after update_indices, at every loop head (g_iteration: one pass
   of rule evaluation + per-index merge preserves GS), and after run() (indexed_run_indices_agree_any_input) every
   index of a relation holds exactly what inserting one common sequence of rows gives (for the full index: its support). *)
From Coq Require Import List ZArith Bool Arith Lia.
From AV Require Import Engine.Core Engine.Sem Engine.Eval Engine.NaiveLemmas Engine.IndexedEval Engine.IndexedBase Engine.IndexedSim Engine.IndexedRefine.
Import ListNotations.
Open Scope Z_scope.

(* ---------- build_index under one more insertion / a merge, duplicates allowed ---------- *)
Lemma build_from_app : forall a c L1 L2 es, build_from a c (L1 ++ L2) es = build_from a c L2 (build_from a c L1 es).
Proof. intros. unfold build_from. apply fold_left_app. Qed.

Lemma build_index_snoc : forall a c L t, build_index a c (L ++ [t]) = ix_insert (is_full a c) (proj c t) t (build_index a c L).
Proof. intros. unfold build_index. rewrite build_from_app. reflexivity. Qed.

Lemma build_from_cons : forall a c t L es, build_from a c (t :: L) es = build_from a c L (ix_insert (is_full a c) (proj c t) t es).
Proof. reflexivity. Qed.

Lemma build_hash : forall a c L es, is_full a c = false -> build_from a c L es = es ++ map (fun t => (proj c t, t)) L.
Proof.
  intros a c L. induction L as [|t L IH]; intros es Hf; [rewrite app_nil_r; reflexivity|].
  rewrite build_from_cons, (IH _ Hf), Hf. unfold ix_insert. cbn [map]. rewrite <- app_assoc. reflexivity.
Qed.

Definition selfkey (c : list nat) (L : list tuple) : Prop := forall t, In t L -> proj c t = t.

Lemma has_insert_full : forall k u es, ix_has k (ix_insert true u u es) = ix_has k es || zlist_eqb u k.
Proof.
  intros k u es. unfold ix_insert. destruct (ix_has u es) eqn:E.
  - destruct (zlist_eqb u k) eqn:Ek; [|rewrite orb_false_r; reflexivity]. apply zlist_eqb_eq in Ek. subst. rewrite E. reflexivity.
  - unfold ix_has. rewrite existsb_app. cbn [existsb]. unfold key_eqb at 2. cbn [fst]. rewrite orb_false_r. reflexivity.
Qed.

Lemma has_build_full : forall a c k L es, is_full a c = true -> selfkey c L ->
  ix_has k (build_from a c L es) = ix_has k es || mem_tuple k L.
Proof.
  intros a c k L. induction L as [|t L IH]; intros es Hf Hs; [cbn; rewrite orb_false_r; reflexivity|].
  rewrite build_from_cons, Hf, (Hs t (or_introl eq_refl)).
  rewrite IH; [|exact Hf|intros u Hu; apply Hs; right; exact Hu]. rewrite has_insert_full. unfold mem_tuple. cbn [existsb].
  rewrite <- orb_assoc. f_equal. f_equal. destruct (zlist_eqb t k) eqn:E1; destruct (zlist_eqb k t) eqn:E2; try reflexivity.
  - apply zlist_eqb_eq in E1. subst. rewrite zlist_eqb_refl in E2. discriminate.
  - apply zlist_eqb_eq in E2. subst. rewrite zlist_eqb_refl in E1. discriminate.
Qed.

Lemma insert_full_idem : forall u es, ix_has u es = true -> ix_insert true u u es = es.
Proof. intros u es H. unfold ix_insert. rewrite H. reflexivity. Qed.

(* moving the entries of a full index built from D into any full index = inserting D itself *)
Lemma move_build_full : forall a c D K, is_full a c = true -> selfkey c D ->
  fold_left (fun acc e => ix_insert true (fst e) (snd e) acc) (build_index a c D) K = build_from a c D K.
Proof.
  intros a c D. induction D as [|x D IH] using rev_ind; intros K Hf Hs; [reflexivity|].
  assert (HsD : selfkey c D) by (intros u Hu; apply Hs; apply in_or_app; left; exact Hu).
  assert (Hx : proj c x = x) by (apply Hs; apply in_or_app; right; left; reflexivity).
  rewrite build_index_snoc, build_from_app, Hf, Hx. rewrite build_from_cons, Hf, Hx. change (build_from a c [] ?z) with z.
  unfold ix_insert at 2. destruct (ix_has x (build_index a c D)) eqn:E.
  - rewrite (IH K Hf HsD). symmetry. apply insert_full_idem.
    unfold build_index in E. rewrite (has_build_full a c x D [] Hf HsD) in E. cbn [ix_has existsb orb] in E.
    rewrite (has_build_full a c x D K Hf HsD), E. apply orb_true_r.
  - rewrite fold_left_app. cbn [fold_left fst snd]. rewrite (IH K Hf HsD). reflexivity.
Qed.

Lemma build_move : forall a c T D, (is_full a c = true -> selfkey c D) ->
  ix_move (is_full a c) (build_index a c D) (build_index a c T) = build_index a c (T ++ D).
Proof.
  intros a c T D Hs. unfold build_index at 3. rewrite build_from_app. fold (build_index a c T). unfold ix_move. destruct (is_full a c) eqn:Hf.
  - apply move_build_full; [exact Hf|apply Hs; reflexivity].
  - unfold build_index. rewrite !(build_hash a c _ _ Hf). reflexivity.
Qed.

(* ---------- the lock-step invariant for ARBITRARY inputs (duplicate rows allowed) ---------- *)
Section Ghost.
Variable I : interp.
Variable swap : list tuple -> list tuple -> bool.
Variable decls : list idecl.
Hypothesis Hdecls : forallb (decl_ok decls) decls = true.

Lemma selfkey_db : forall r a c X, In (r, a, c) decls -> is_full a c = true -> (forall f, In f X -> fok decls f) -> selfkey c (db_of X r).
Proof.
  intros r a c X Hin Hf Hok t Ht. apply in_db_of in Ht. rewrite (decl_full_cols decls Hdecls r a c Hin Hf). apply proj_seq.
  apply (fok_length decls Hdecls r t a c (Hok _ Ht) Hin).
Qed.

Definition glagree (dyn : list rel) (S T D N : list fact) (l : lidx) : Prop :=
  if is_dyn dyn (l_rel l) then
    l_tot l = build_index (l_arity l) (l_cols l) (db_of T (l_rel l))
    /\ l_del l = build_index (l_arity l) (l_cols l) (db_of D (l_rel l))
    /\ l_new l = build_index (l_arity l) (l_cols l) (db_of N (l_rel l))
  else l_tot l = build_index (l_arity l) (l_cols l) (db_of S (l_rel l)).

Definition G (dyn : list rel) (S T D N : list fact) (store : list lidx) : Prop :=
  shape store = decls /\ (forall l, In l store -> glagree dyn S T D N l)
  /\ (forall f, In f S -> fok decls f /\ is_dyn dyn (fst f) = false)
  /\ (forall f, In f (T ++ D ++ N) -> fok decls f /\ is_dyn dyn (fst f) = true).

Lemma g_head : forall dyn S T D N store R ch f, G dyn S T D N store -> fok decls f -> is_dyn dyn (fst f) = true ->
  exists N', G dyn S T D N' (fst (fst (head_update_i no_faults (store, R, ch) f))).
Proof.
  intros dyn S T D N store R ch [r t] HG Hf Hdyn. unfold head_update_i. cbn [fst snd].
  destruct (full_of store r) as [lf|]; [|exists N; exact HG].
  destruct (ix_has t (l_tot lf) || ix_has t (l_del lf)); [exists N; exact HG|].
  destruct (ix_has t (l_new lf)); [exists N; exact HG|]. cbn [fst snd].
  destruct HG as [Hsh [Hag [HS HT]]]. exists (N ++ [(r, t)]). split; [|split; [|split; [exact HS|]]].
  - rewrite <- Hsh. unfold shape. rewrite map_map. apply map_ext. intros l.
    destruct (Nat.eqb (l_rel l) r && negb (f_skip no_faults (l_rel l) (l_cols l))); reflexivity.
  - intros l' Hl'. apply in_map_iff in Hl' as [l [<- Hl]]. pose proof (Hag l Hl) as Hla. unfold glagree in *.
    cbn [f_skip no_faults negb]. rewrite andb_true_r. destruct (Nat.eqb (l_rel l) r) eqn:Er.
    + apply Nat.eqb_eq in Er. cbn [insert_new l_rel l_arity l_cols l_tot l_del l_new]. rewrite Er in *. cbn [fst] in Hdyn. rewrite Hdyn in *.
      destruct Hla as [H1 [H2 H3]]. split; [exact H1|split; [exact H2|]]. rewrite H3, db_of_snoc_same, build_index_snoc. f_equal.
      unfold new_key. destruct (is_full (l_arity l) (l_cols l)) eqn:Hfull; [|reflexivity]. symmetry.
      pose proof (store_decl decls store l Hsh Hl) as Hdl. rewrite Er in Hdl.
      rewrite (decl_full_cols decls Hdecls r _ _ Hdl Hfull). apply proj_seq. apply (fok_length decls Hdecls r t _ _ Hf Hdl).
    + apply Nat.eqb_neq in Er. destruct (is_dyn dyn (l_rel l)); [|exact Hla].
      destruct Hla as [H1 [H2 H3]]. split; [exact H1|split; [exact H2|]]. rewrite db_of_snoc_other by congruence. exact H3.
  - intros g Hg. rewrite !app_assoc in Hg. apply in_app_or in Hg as [Hg|[<-|[]]]; [|split; assumption].
    apply HT. rewrite !app_assoc. exact Hg.
Qed.

Lemma g_fold : forall dyn S T D fs, (forall f, In f fs -> fok decls f /\ is_dyn dyn (fst f) = true) ->
  forall N acc, G dyn S T D N (fst (fst acc)) -> exists N', G dyn S T D N' (fst (fst (fold_left (head_update_i no_faults) fs acc))).
Proof.
  intros dyn S T D fs. induction fs as [|f fs IH]; intros Hfs N acc HG; [exists N; exact HG|]. cbn [fold_left].
  destruct acc as [[store R] ch]. cbn [fst] in HG. destruct (Hfs f (or_introl eq_refl)) as [Hf Hd].
  destruct (g_head dyn S T D N store R ch f HG Hf Hd) as [N1 H1]. apply (IH (fun g Hg => Hfs g (or_intror Hg)) N1 _ H1).
Qed.

Lemma variant_facts_ok_i : forall store dyn v f, variant_idx_ok decls dyn v = true -> In f (eval_variant_i I swap store dyn v) ->
  fok decls f /\ is_dyn dyn (fst f) = true.
Proof.
  intros store dyn v f Hok Hin. unfold variant_idx_ok in Hok. apply andb_true_iff in Hok as [_ Hh]. rewrite forallb_forall in Hh.
  unfold eval_variant_i in Hin. match type of Hin with In _ (if ?b then _ else _) => destruct b end; [destruct Hin|].
  apply in_heads_of_envs in Hin as [e [h [_ [Hhin He]]]]. specialize (Hh h Hhin). unfold head_ok in Hh.
  apply andb_true_iff in Hh as [H1 H2]. apply eval_head_shape in He as [E1 E2]. split.
  - unfold fok, fact_idx_ok. rewrite E1, E2. exact H2.
  - rewrite E1. exact H1.
Qed.

Lemma g_iter : forall dyn S T D vars, (forall v, In v vars -> variant_idx_ok decls dyn v = true) ->
  forall N acc, G dyn S T D N (fst (fst acc)) ->
  exists N', G dyn S T D N' (fst (fst (fold_left (fun a v => fold_left (head_update_i no_faults) (eval_variant_i I swap (fst (fst a)) dyn v) a) vars acc))).
Proof.
  intros dyn S T D vars. induction vars as [|v vars IH]; intros Hv N acc HG; [exists N; exact HG|]. cbn [fold_left].
  destruct (g_fold dyn S T D (eval_variant_i I swap (fst (fst acc)) dyn v)
              (fun f Hf => variant_facts_ok_i _ dyn v f (Hv v (or_introl eq_refl)) Hf) N acc HG) as [N1 H1].
  apply (IH (fun v' Hv' => Hv v' (or_intror Hv')) N1 _ H1).
Qed.

Lemma g_merge : forall dyn S T D N store, G dyn S T D N store -> G dyn S (T ++ D) N [] (map (merge_l dyn) store).
Proof.
  intros dyn S T D N store [Hsh [Hag [HS HT]]]. split; [|split; [|split; [exact HS|]]].
  - rewrite <- Hsh. unfold shape. rewrite map_map. apply map_ext. intros l. unfold merge_l. destruct (is_dyn dyn (l_rel l)); reflexivity.
  - intros l' Hl'. apply in_map_iff in Hl' as [l [<- Hl]]. pose proof (Hag l Hl) as Hla. unfold glagree, merge_l in *.
    destruct (is_dyn dyn (l_rel l)) eqn:Ed; cbn [l_rel l_arity l_cols l_tot l_del l_new]; rewrite Ed; [|exact Hla].
    destruct Hla as [H1 [H2 H3]]. split; [|split; [exact H3|reflexivity]].
    rewrite H1, H2, db_of_app. apply build_move. intros Hfull.
    apply (selfkey_db (l_rel l) (l_arity l)); [apply (store_decl decls store l Hsh Hl)|exact Hfull|].
    intros f Hf. apply HT. apply in_or_app. right. apply in_or_app. left. exact Hf.
  - intros f Hf. apply HT. rewrite app_nil_r in Hf. rewrite <- app_assoc in Hf. exact Hf.
Qed.

Definition GS (dyn : list rel) (S : list fact) (store : list lidx) : Prop := exists T D N, G dyn S T D N store.

Lemma g_iteration : forall sc S store R, (forall v, In v (s_vars sc) -> variant_idx_ok decls (s_dyn sc) v = true) ->
  GS (s_dyn sc) S store -> GS (s_dyn sc) S (map (merge_l (s_dyn sc)) (fst (fst (scc_iteration_i I swap no_faults sc store R)))).
Proof.
  intros sc S store R Hv [T [D [N HG]]]. unfold scc_iteration_i.
  destruct (g_iter (s_dyn sc) S T D (s_vars sc) Hv N (store, R, false) HG) as [N1 H1].
  exists (T ++ D), N1, []. apply g_merge. exact H1.
Qed.

Lemma g_loop : forall fuel sc S store R storef Rf, (forall v, In v (s_vars sc) -> variant_idx_ok decls (s_dyn sc) v = true) ->
  GS (s_dyn sc) S store -> scc_loop_i I swap no_faults fuel sc store R = Some (storef, Rf) -> GS (s_dyn sc) S storef.
Proof.
  induction fuel as [|n IH]; intros sc S store R storef Rf Hv HG Hrun; [discriminate|]. cbn [scc_loop_i] in Hrun.
  pose proof (g_iteration sc S store R Hv HG) as H1.
  destruct (scc_iteration_i I swap no_faults sc store R) as [[store1 R1] ch]. cbn [fst] in H1. destruct ch.
  - apply (IH sc S _ R1 storef Rf Hv H1 Hrun).
  - injection Hrun as <- <-. exact H1.
Qed.

Definition PV (c : istate) : Prop :=
  pshape (istored c) = decls
  /\ exists X, (forall p, In p (istored c) -> p_ents p = build_index (p_arity p) (p_cols p) (db_of X (p_rel p))) /\ (forall f, In f X -> fok decls f).

Lemma g_enter : forall dyn c, PV c -> exists S, GS dyn S (map (enter_scc dyn) (istored c)).
Proof.
  intros dyn c [Hsh [X [Hag Hok]]]. exists (filter (fun f => negb (fact_dyn dyn f)) X), [], (filter (fact_dyn dyn) X), []. split; [|split; [|split]].
  - rewrite <- Hsh. unfold shape, pshape. rewrite map_map. apply map_ext. intros p. unfold enter_scc. destruct (is_dyn dyn (p_rel p)); reflexivity.
  - intros l' Hl'. apply in_map_iff in Hl' as [p [<- Hp]]. pose proof (Hag p Hp) as He. unfold glagree, enter_scc.
    destruct (is_dyn dyn (p_rel p)) eqn:Ed; cbn [l_rel l_arity l_cols l_tot l_del l_new]; rewrite Ed.
    + split; [reflexivity|]. split; [|reflexivity]. rewrite (db_of_filter_dyn dyn _ _ Ed). exact He.
    + rewrite (db_of_filter_static dyn _ _ Ed). exact He.
  - intros f Hf. apply filter_In in Hf as [Hf Hd]. split; [apply Hok; exact Hf|]. unfold fact_dyn in Hd. apply negb_true_iff in Hd. exact Hd.
  - cbn [app]. rewrite app_nil_r. intros f Hf. apply filter_In in Hf as [Hf Hd]. split; [apply Hok; exact Hf|exact Hd].
Qed.

Lemma g_leave : forall dyn S R store, GS dyn S store -> PV {| irows := R; istored := map leave_scc store |}.
Proof.
  intros dyn S R store [T [D [N [Hsh [Hag [HS HT]]]]]]. split; cbn [istored].
  - rewrite <- Hsh. unfold shape, pshape. rewrite map_map. apply map_ext. intros l. reflexivity.
  - exists (S ++ T). split.
    + intros p Hp. apply in_map_iff in Hp as [l [<- Hl]]. cbn [leave_scc p_ents p_arity p_cols p_rel].
      pose proof (Hag l Hl) as Hla. unfold glagree in Hla. rewrite db_of_app. destruct (is_dyn dyn (l_rel l)) eqn:Ed.
      * destruct Hla as [H1 _]. rewrite H1. rewrite (db_of_none S); [reflexivity|]. intros f Hf E. destruct (HS f Hf) as [_ Hd]. rewrite E, Ed in Hd. discriminate.
      * rewrite Hla. rewrite (db_of_none T); [rewrite app_nil_r; reflexivity|]. intros f Hf E.
        destruct (HT f (in_or_app _ _ _ (or_introl Hf))) as [_ Hd]. rewrite E, Ed in Hd. discriminate.
    + intros f Hf. apply in_app_or in Hf as [Hf|Hf]; [apply HS; exact Hf|apply HT; apply in_or_app; left; exact Hf].
Qed.

Lemma g_scc : forall fuel sc c c', (forall v, In v (s_vars sc) -> variant_idx_ok decls (s_dyn sc) v = true) ->
  PV c -> run_scc_i I swap no_faults fuel sc c = Some c' -> PV c'.
Proof.
  intros fuel sc c c' Hv HP Hrun. destruct (g_enter (s_dyn sc) c HP) as [S HG]. unfold run_scc_i in Hrun. destruct (s_loop sc).
  - destruct (scc_loop_i I swap no_faults fuel sc _ (irows c)) as [[storef Rf]|] eqn:El; [|discriminate]. injection Hrun as <-.
    apply (g_leave (s_dyn sc) S). apply (g_loop fuel sc S _ (irows c) storef Rf Hv HG El).
  - pose proof (g_iteration sc S _ (irows c) Hv HG) as H1.
    destruct (scc_iteration_i I swap no_faults sc _ (irows c)) as [[store1 R1] ch]. cbn [fst] in H1. injection Hrun as <-.
    apply (g_leave (s_dyn sc) S). destruct H1 as [T [D [N H1]]]. exists (T ++ D), N, []. apply g_merge. exact H1.
Qed.

Lemma g_sccs : forall fuel pl c c', forallb (fun sc => forallb (variant_idx_ok decls (s_dyn sc)) (s_vars sc)) pl = true ->
  PV c -> run_sccs_i I swap no_faults fuel pl c = Some c' -> PV c'.
Proof.
  intros fuel pl. induction pl as [|sc pl IH]; intros c c' Hok HP Hrun; [injection Hrun as <-; exact HP|].
  cbn [forallb] in Hok. apply andb_true_iff in Hok as [Hsc Hok]. rewrite forallb_forall in Hsc. cbn [run_sccs_i] in Hrun.
  destruct (run_scc_i I swap no_faults fuel sc c) as [c1|] eqn:E1; [|discriminate].
  apply (IH c1 c' Hok (g_scc fuel sc c c1 Hsc HP E1) Hrun).
Qed.
End Ghost.

(* after run() all indices of every relation agree — for every input, duplicate rows included, and without reference to
   the abstract model: this is the lock-step property itself *)
Theorem indexed_run_indices_agree_any_input : forall I swap decls fuel pl c c', plan_idx_ok decls pl = true ->
  pshape (istored c) = decls -> (forall f, In f (irows c) -> fact_idx_ok decls f = true) ->
  run_plan_idx I swap fuel pl c = Some c' -> indices_agree (istored c') /\ pshape (istored c') = decls.
Proof.
  intros I swap decls fuel pl c c' Hp Hsh Hok Hrun. pose proof (plan_ok_decls decls pl Hp) as Hd.
  unfold plan_idx_ok in Hp. apply andb_true_iff in Hp as [_ Hp]. unfold run_plan_idx, run_plan_i in Hrun.
  assert (HP : PV decls (update_indices_i no_faults c)).
  { split.
    - rewrite <- Hsh. unfold update_indices_i, pshape. cbn [istored]. rewrite map_map. apply map_ext. intros p. reflexivity.
    - exists (irows c). split; [|exact Hok]. intros p Hp'. unfold update_indices_i in Hp'. cbn [istored] in Hp'.
      apply in_map_iff in Hp' as [p0 [<- _]]. reflexivity. }
  destruct (g_sccs I swap decls Hd fuel pl _ c' Hp HP Hrun) as [Hsh' [X [Hag _]]]. split; [exists X; exact Hag|exact Hsh'].
Qed.
Print Assumptions indexed_run_indices_agree_any_input.
