(* The engine of Engine/IndexedEval.v re-instantiated on the CONCRETE index types of ascent/src/internal.rs as modelled
   for C19 in Index/IndexModel.v: every physical index of the program value / of an SCC is a VALUE of a C19 model type and
   every step of the generated code calls the C19 model operation the real code calls (serial `ascent!`, default data
   structure provider, plain relations):

     <rel>_indices_<cols>, |cols| < arity   rel_ind!(.., ser, ..) = ToRelIndexType<K, V> = RelIndexType1<K, V> = HashMap<K, Vec<V>>
                                            model IndexModel.hvec; K = tuple of the index columns, V = tuple of the OTHER columns
                                            (IrRelation::new: IndexValType::Direct(columns not in the index), ascending)
     <rel>_indices_<all columns>            rel_full_ind!(.., ser, ..) = RelFullIndexType<K, ()> = hashbrown map
                                            model IndexModel.fmap; K = the row, V = ()
     <rel>_indices_none  (cols = [])        in SERIAL mode rel_ind! gives the same ToRelIndexType<(), V>: a RelIndexType1 with
                                            the unit key (ascent/src/rel.rs).  RelNoIndexType = Vec<usize> (IndexModel.ni_insert, ni_move) is NOT
                                            used by serial generated code with the default provider (only CRelNoIndex in parallel
                                            mode, out of scope here), so no index is a value of that model.

   Keys and values of the C19 models are Z (the Rust types are generic in K, V): a key / value tuple is encoded by an
   arbitrary [enc : list Z -> Z] with a left inverse [dec] (Section variables; ConcreteRefine.v assumes dec (enc l) = l;
   [enc_list] / [dec_list] below are one such pair, used when the model is evaluated).  The unit value is 0.

     compile_update_indices_function_body   field := Default; per row: index_insert(key columns, other columns) =
                                            hv_insert / fm_insert (HashMap::insert)
     compile_mir_scc                        delta := take(field) / total := take(field); per index of a dynamic relation
                                            merge_delta_to_total_new_to_delta = merge3 (hv_move sh) / merge3 (fm_move sh)
                                            (move_index_contents with its swap on size and the swap of the longer Vec per key,
                                            drain order = the oracle [sh]); field := total
     head_update_code                       fm_contains on the full index total, delta; fm_insert_if_not_present on the full
                                            index new; push; hv_insert into the other indices of new; changed := true
     compile_mir_rule_inner                 index_get = hv_get / fm_index_get, iter_all = hv_iter_all sh / fm_iter_all sh,
                                            is_empty, len_estimate; RelIndexCombined(total, delta) = comb_get / comb_iter_all /
                                            comb_is_empty / comb_len; the row is put together again from key and value
                                            (clause_var_assignments: key columns from the key, other columns from __val)

   The choice `rel1.len_estimate() <= rel2.len_estimate()` of a reorderable simple join is [swap_dec len1 len2 rows1 rows2]:
   the generated code is the instance [real_swap_dec] (reads only the two estimates, computed by hv_len / fm_len / comb_len);
   [oracle_dec swap] is the oracle parametrisation of Engine/Eval.v and IndexedEval.v (reads only the rows) - the instance
   ConcreteRefine.v relates to IndexedEval.run_plan_idx.  No proofs in this file. *)
From Coq Require Import List ZArith Bool Arith.
From AV Require Import Index.IndexModel.
From AV Require Import Engine.Core Engine.Sem Engine.Eval Engine.IndexedEval.
Import ListNotations.
Open Scope Z_scope.

(* ---------- columns of key and value ---------- *)
(* IndexValType::Direct: the columns that are not in the index, ascending *)
Definition ocols (arity : nat) (cols : list nat) : list nat :=
  filter (fun i => negb (existsb (Nat.eqb i) cols)) (seq 0 arity).
Fixpoint pos_of (i : nat) (l : list nat) : option nat :=
  match l with [] => None | x :: r => if Nat.eqb x i then Some O else option_map S (pos_of i r) end.

(* ---------- one physical index: a value of a C19 model type ---------- *)
Inductive cix := CHash (m : hvec) | CFull (m : fmap).
(* the three variables <ir_name>_total / _delta / _new of an index inside an SCC: all three of the index's type *)
Inductive cix3 := H3 (tot del new : hvec) | F3 (tot del new : fmap).
Record cpidx := { cp_rel : rel; cp_arity : nat; cp_cols : list nat; cp_ix : cix }.
Record clidx := { cl_rel : rel; cl_arity : nat; cl_cols : list nat; cl_ix : cix3 }.
Record cstate := { crows : list fact; cstored : list cpidx }.
(* expr_for_rel: a plain index, or RelIndexCombined(total, delta) *)
Inductive cview := VH (m : hvec) | VF (m : fmap) | VHC (t d : hvec) | VFC (t d : fmap).

(* ---------- the rule evaluator of IndexedEval.v over arbitrary read functions ---------- *)
Section GItems.
Variable I : interp.
Variable rget : rel -> list nat -> version -> list Z -> list tuple.     (* index_get, rows rebuilt *)
Variable rall : rel -> list nat -> version -> list tuple.               (* iter_all, flattened *)
Variable rempty : rel -> list nat -> version -> bool.                   (* is_empty *)
Variable rswap : rel -> list nat -> version -> rel -> list nat -> version -> bool.   (* true = keep the order *)

Definition eval_clause_idx_g (k : env -> list env) (e : env) r args cs idx ver : list env :=
  match eval_key I e args idx with
  | None => []
  | Some key =>
      flat_map (fun tup => match sat_conds I (bind_new e args tup) cs with Some e2 => k e2 | None => [] end)
               (rget r idx ver key)
  end.

Definition eval_clause_all_g (k : env -> list env) (e : env) r args cs idx ver : list env :=
  flat_map (fun tup => match sat_conds I (bind_new e args tup) cs with Some e2 => k e2 | None => [] end)
           (rall r idx ver).

Fixpoint eval_items_g (items : list pitem) (e : env) : list env :=
  match items with
  | [] => [e]
  | PClause r args cs idx ver :: rest => eval_clause_idx_g (eval_items_g rest) e r args cs idx ver
  | PCond c :: rest => match sat_cond I e c with Some e' => eval_items_g rest e' | None => [] end
  | PGen x g xs :: rest =>
      match eval_vars e xs with
      | Some vs => flat_map (fun v => eval_items_g rest (Core.bind x v e)) (gint I g vs)
      | None => [] end
  | PAgg out a bound r args idx :: rest =>
      match agg_key I e args idx with
      | None => []
      | Some key =>
          let matching := rget r idx VTotal key in
          flat_map (fun v => eval_items_g rest (bind_out out v e)) (aint I a (map (Sem.agg_input bound args) matching))
      end
  end.

Definition eval_simple_join_g (items : list pitem) (reord : bool) (e : env) : list env :=
  match items with
  | PClause r1 a1 c1 i1 v1 :: PClause r2 a2 c2 i2 v2 :: rest =>
      if reord && negb (rswap r1 i1 v1 r2 i2 v2) then
        eval_clause_all_g (fun e1 => eval_clause_idx_g (eval_items_g rest) e1 r1 a1 c1 i1 v1) e r2 a2 c2 i2 v2
      else
        eval_clause_all_g (fun e1 => eval_clause_idx_g (eval_items_g rest) e1 r2 a2 c2 i2 v2) e r1 a1 c1 i1 v1
  | _ => eval_items_g items e
  end.

Fixpoint eval_from_g (items : list pitem) (sj : option nat) (reord : bool) (e : env) : list env :=
  match sj with
  | None => eval_items_g items e
  | Some O => eval_simple_join_g items reord e
  | Some (S n) =>
      match items with
      | [] => [e]
      | PCond c :: rest => match sat_cond I e c with Some e' => eval_from_g rest (Some n) reord e' | None => [] end
      | PGen x g xs :: rest =>
          match eval_vars e xs with
          | Some vs => flat_map (fun v => eval_from_g rest (Some n) reord (Core.bind x v e)) (gint I g vs)
          | None => [] end
      | PAgg out a bound r args idx :: rest =>
          match agg_key I e args idx with
          | None => []
          | Some key =>
              let matching := rget r idx VTotal key in
              flat_map (fun v => eval_from_g rest (Some n) reord (bind_out out v e))
                       (aint I a (map (Sem.agg_input bound args) matching))
          end
      | PClause r args cs idx ver :: rest =>
          eval_clause_idx_g (eval_from_g rest (Some n) reord) e r args cs idx ver
      end
  end.

Definition clause_empty_g (p : pitem) : bool :=
  match p with PClause r _ _ idx ver => rempty r idx ver | _ => false end.

Definition eval_variant_g (v : variant) : list fact :=
  let ncl := length (filter is_clause (v_items v)) in
  let can_help := Nat.ltb 1 ncl && negb (match v_sj v with Some _ => Nat.eqb ncl 2 | None => false end) in
  if can_help && existsb clause_empty_g (v_items v) then []
  else flat_map (fun e => filter_map (eval_head I e) (v_heads v)) (eval_from_g (v_items v) (v_sj v) (v_reord v) []).
End GItems.

Definition real_swap_dec (len1 len2 : Z) (_ _ : list tuple) : bool := len1 <=? len2.
Definition oracle_dec (swap : list tuple -> list tuple -> bool) (_ _ : Z) (a b : list tuple) : bool := swap a b.

Section CEval.
Variable sh : forall A : Type, list A -> list A.      (* iteration / drain order of the hash maps (C19 oracle) *)
Variable enc : list Z -> Z.
Variable dec : Z -> list Z.
Variable I : interp.
Variable swap_dec : Z -> Z -> list tuple -> list tuple -> bool.

Definition ckey (cols : list nat) (t : tuple) : Z := enc (proj cols t).
Definition cval (arity : nat) (cols : list nat) (t : tuple) : Z := enc (proj (ocols arity cols) t).
(* the row of a hash index entry: key columns from the key, the others from the value *)
Definition rebuild (arity : nat) (cols : list nat) (k v : Z) : tuple :=
  map (fun i => match pos_of i cols with
                | Some j => nth j (dec k) 0
                | None => match pos_of i (ocols arity cols) with Some j => nth j (dec v) 0 | None => 0 end
                end) (seq 0 arity).

(* ---------- reads ---------- *)
Definition v_get (arity : nat) (cols : list nat) (key : list Z) (w : cview) : list tuple :=
  let k := enc key in
  match w with
  | VH m => map (rebuild arity cols k) (flat_opt (hv_get k m))
  | VF m => map (fun _ => dec k) (flat_opt (fm_index_get k m))
  | VHC t d => map (rebuild arity cols k) (flat_opt (comb_get (hv_get k t) (hv_get k d)))
  | VFC t d => map (fun _ => dec k) (flat_opt (comb_get (fm_index_get k t) (fm_index_get k d)))
  end.
Definition flat_all (arity : nat) (cols : list nat) (full : bool) (l : list (Z * list Z)) : list tuple :=
  flat_map (fun kv => map (fun v => if full then dec (fst kv) else rebuild arity cols (fst kv) v) (snd kv)) l.
Definition v_all (arity : nat) (cols : list nat) (w : cview) : list tuple :=
  match w with
  | VH m => flat_all arity cols false (hv_iter_all sh m)
  | VF m => flat_all arity cols true (fm_iter_all sh m)
  | VHC t d => flat_all arity cols false (comb_iter_all (hv_iter_all sh t) (hv_iter_all sh d))
  | VFC t d => flat_all arity cols true (comb_iter_all (fm_iter_all sh t) (fm_iter_all sh d))
  end.
Definition v_empty (w : cview) : bool :=
  match w with
  | VH m => hv_is_empty m
  | VF m => fm_is_empty m
  | VHC t d => comb_is_empty (hv_is_empty t) (hv_is_empty d)
  | VFC t d => comb_is_empty (fm_is_empty t) (fm_is_empty d)
  end.
Definition v_len (w : cview) : Z :=
  match w with
  | VH m => hv_len m
  | VF m => fm_len m
  | VHC t d => comb_len (hv_len t) (hv_len d)
  | VFC t d => comb_len (fm_len t) (fm_len d)
  end.

Definition cl_is (r : rel) (cols : list nat) (l : clidx) : bool := Nat.eqb (cl_rel l) r && cols_eqb (cl_cols l) cols.
Definition c_find (store : list clidx) (r : rel) (cols : list nat) : option clidx := find (cl_is r cols) store.
Definition c_view (dyn : list rel) (l : clidx) (v : version) : cview :=
  match cl_ix l with
  | H3 t d _ => if is_dyn dyn (cl_rel l) then match v with VTotal => VH t | VDelta => VH d | VTotalDelta => VHC t d end else VH t
  | F3 t d _ => if is_dyn dyn (cl_rel l) then match v with VTotal => VF t | VDelta => VF d | VTotalDelta => VFC t d end else VF t
  end.

Section Items.
Variable store : list clidx.
Variable dyn : list rel.
Definition c_get (r : rel) (idx : list nat) (ver : version) (key : list Z) : list tuple :=
  match c_find store r idx with Some l => v_get (cl_arity l) (cl_cols l) key (c_view dyn l ver) | None => [] end.
Definition c_all (r : rel) (idx : list nat) (ver : version) : list tuple :=
  match c_find store r idx with Some l => v_all (cl_arity l) (cl_cols l) (c_view dyn l ver) | None => [] end.
Definition c_empty (r : rel) (idx : list nat) (ver : version) : bool :=
  match c_find store r idx with Some l => v_empty (c_view dyn l ver) | None => true end.
Definition c_len (r : rel) (idx : list nat) (ver : version) : Z :=
  match c_find store r idx with Some l => v_len (c_view dyn l ver) | None => 0 end.
Definition c_swap r1 i1 v1 r2 i2 v2 : bool := swap_dec (c_len r1 i1 v1) (c_len r2 i2 v2) (c_all r1 i1 v1) (c_all r2 i2 v2).
Definition eval_variant_c (v : variant) : list fact := eval_variant_g I c_get c_all c_empty c_swap v.
End Items.

(* ---------- writes ---------- *)
Definition with_ix (l : clidx) (x : cix3) : clidx :=
  {| cl_rel := cl_rel l; cl_arity := cl_arity l; cl_cols := cl_cols l; cl_ix := x |}.
(* the new row enters an index of `new`: insert_if_not_present(&__new_row, ()) on the full index,
   index_insert((__new_row.i for i in the index), (the other columns)) on the others *)
Definition c_insert_new (l : clidx) (t : tuple) : clidx :=
  with_ix l match cl_ix l with
            | H3 to de ne => H3 to de (hv_insert (ckey (cl_cols l) t) (cval (cl_arity l) (cl_cols l) t) ne)
            | F3 to de ne => F3 to de (fst (fm_insert_if_not_present (enc t) 0 ne))
            end.
Definition c_full_of (store : list clidx) (r : rel) : option clidx :=
  find (fun l => Nat.eqb (cl_rel l) r && is_full (cl_arity l) (cl_cols l)) store.

Definition c_head_update (acc : list clidx * list fact * bool) (f : fact) : list clidx * list fact * bool :=
  let '(store, R, ch) := acc in
  match c_full_of store (fst f) with
  | None => acc
  | Some lf =>
      match cl_ix lf with
      | F3 to de ne =>
          let k := enc (snd f) in
          if fm_contains k to || fm_contains k de then acc
          else if snd (fm_insert_if_not_present k 0 ne) then
            (map (fun l => if Nat.eqb (cl_rel l) (fst f) then c_insert_new l (snd f) else l) store, R ++ [f], true)
          else acc
      | H3 _ _ _ => acc       (* the full index of a relation is a RelFullIndexType: unreachable *)
      end
  end.

Definition c_iteration (sc : pscc) (store : list clidx) (R : list fact) : list clidx * list fact * bool :=
  fold_left (fun acc v => fold_left c_head_update (eval_variant_c (fst (fst acc)) (s_dyn sc) v) acc)
            (s_vars sc) (store, R, false).

(* RelIndexMerge::merge_delta_to_total_new_to_delta(&mut new, &mut delta, &mut total) *)
Definition c_merge_l (dyn : list rel) (l : clidx) : clidx :=
  if is_dyn dyn (cl_rel l) then
    with_ix l match cl_ix l with
              | H3 t d n => let '(n', d', t') := merge3 (hv_move sh) n d t in H3 t' d' n'
              | F3 t d n => let '(n', d', t') := merge3 (fm_move sh) n d t in F3 t' d' n'
              end
  else l.

Fixpoint c_loop (fuel : nat) (sc : pscc) (store : list clidx) (R : list fact) : option (list clidx * list fact) :=
  match fuel with
  | O => None
  | S n => let '(store1, R1, ch) := c_iteration sc store R in
           let store2 := map (c_merge_l (s_dyn sc)) store1 in
           if ch then c_loop n sc store2 R1 else Some (store2, R1)
  end.

Definition c_enter (dyn : list rel) (p : cpidx) : clidx :=
  {| cl_rel := cp_rel p; cl_arity := cp_arity p; cl_cols := cp_cols p;
     cl_ix := match cp_ix p with
              | CHash m => if is_dyn dyn (cp_rel p) then H3 [] m [] else H3 m [] []
              | CFull m => if is_dyn dyn (cp_rel p) then F3 [] m [] else F3 m [] []
              end |}.
Definition c_leave (l : clidx) : cpidx :=
  {| cp_rel := cl_rel l; cp_arity := cl_arity l; cp_cols := cl_cols l;
     cp_ix := match cl_ix l with H3 t _ _ => CHash t | F3 t _ _ => CFull t end |}.

Definition c_run_scc (fuel : nat) (sc : pscc) (st : cstate) : option cstate :=
  let store0 := map (c_enter (s_dyn sc)) (cstored st) in
  if s_loop sc then
    match c_loop fuel sc store0 (crows st) with
    | Some (store, R) => Some {| crows := R; cstored := map c_leave store |}
    | None => None
    end
  else
    let '(store1, R, _) := c_iteration sc store0 (crows st) in
    let store2 := map (c_merge_l (s_dyn sc)) (map (c_merge_l (s_dyn sc)) store1) in
    Some {| crows := R; cstored := map c_leave store2 |}.

Fixpoint c_run_sccs (fuel : nat) (pl : plan) (st : cstate) : option cstate :=
  match pl with
  | [] => Some st
  | sc :: pl' => match c_run_scc fuel sc st with Some st' => c_run_sccs fuel pl' st' | None => None end
  end.

(* update_indices_priv: field := Default::default(); then RelIndexWrite::index_insert of every row *)
Definition c_default (arity : nat) (cols : list nat) : cix := if is_full arity cols then CFull [] else CHash [].
Definition c_index_insert (arity : nat) (cols : list nat) (x : cix) (t : tuple) : cix :=
  match x with
  | CHash m => CHash (hv_insert (ckey cols t) (cval arity cols t) m)
  | CFull m => CFull (fm_insert (ckey cols t) 0 m)
  end.
Definition c_build (arity : nat) (cols : list nat) (ts : list tuple) : cix :=
  fold_left (c_index_insert arity cols) ts (c_default arity cols).
Definition c_update_indices (st : cstate) : cstate :=
  {| crows := crows st;
     cstored := map (fun p => {| cp_rel := cp_rel p; cp_arity := cp_arity p; cp_cols := cp_cols p;
                                 cp_ix := c_build (cp_arity p) (cp_cols p) (db_of (crows st) (cp_rel p)) |})
                    (cstored st) |}.

Definition run_plan_c (fuel : nat) (pl : plan) (st : cstate) : option cstate := c_run_sccs fuel pl (c_update_indices st).

(* ---------- the content of a stored index as (key, row) entries (what the tie reads through iter_all) ---------- *)
Definition cix_entries (arity : nat) (cols : list nat) (x : cix) : ients :=
  match x with
  | CHash m => flat_map (fun kv => map (fun v => (dec (fst kv), rebuild arity cols (fst kv) v)) (snd kv)) (hv_iter_all sh m)
  | CFull m => flat_map (fun kv => map (fun _ => (dec (fst kv), dec (fst kv))) (snd kv)) (fm_iter_all sh m)
  end.
Definition cix_len (x : cix) : Z := match x with CHash m => hv_len m | CFull m => fm_len m end.
Definition c_dump_stored (st : cstate) : list (rel * list nat * ients) :=
  map (fun p => (cp_rel p, cp_cols p, cix_entries (cp_arity p) (cp_cols p) (cp_ix p))) (cstored st).
Definition c_dump_lens (st : cstate) : list (rel * list nat * Z) :=
  map (fun p => (cp_rel p, cp_cols p, cix_len (cp_ix p))) (cstored st).
End CEval.

Definition c_init_state (decls : list idecl) (F0 : list fact) : cstate :=
  {| crows := F0;
     cstored := map (fun d => {| cp_rel := fst (fst d); cp_arity := snd (fst d); cp_cols := snd d;
                                 cp_ix := c_default (snd (fst d)) (snd d) |}) decls |}.
Definition c_push_facts (fs : list fact) (st : cstate) : cstate := {| crows := crows st ++ fs; cstored := cstored st |}.

(* the model related to IndexedEval.run_plan_idx, and the model with the decision of the generated code *)
Definition run_plan_concrete (sh : forall A : Type, list A -> list A) (enc : list Z -> Z) (dec : Z -> list Z) (I : interp)
    (swap : list tuple -> list tuple -> bool) (fuel : nat) (pl : plan) (st : cstate) : option cstate :=
  run_plan_c sh enc dec I (oracle_dec swap) fuel pl st.
Definition run_plan_concrete_real (sh : forall A : Type, list A -> list A) (enc : list Z -> Z) (dec : Z -> list Z) (I : interp)
    (fuel : nat) (pl : plan) (st : cstate) : option cstate :=
  run_plan_c sh enc dec I real_swap_dec fuel pl st.

(* ---------- one encoding of tuples as Z (for evaluation; any enc with a left inverse will do) ----------
   z2n folds Z into the naturals; a tuple x :: r is the positive whose binary digits are those of enc r, a 1, and z2n x zeros *)
Definition z2n (z : Z) : nat := Z.to_nat (if z <? 0 then - 2 * z - 1 else 2 * z).
Definition n2z (n : nat) : Z := let z := Z.of_nat n in if Z.even z then z / 2 else - ((z + 1) / 2).
Fixpoint shiftp (n : nat) (p : positive) : positive := match n with O => p | S k => xO (shiftp k p) end.
Fixpoint enc_list (l : list Z) : Z :=
  match l with
  | [] => 0
  | x :: r => Zpos (shiftp (z2n x) (match enc_list r with Zpos q => xI q | _ => xH end))
  end.
Fixpoint dec_pos (p : positive) (zeros : nat) : list Z :=
  match p with
  | xO p' => dec_pos p' (S zeros)
  | xI p' => n2z zeros :: dec_pos p' O
  | xH => [n2z zeros]
  end.
Definition dec_list (n : Z) : list Z := match n with Zpos p => dec_pos p O | _ => [] end.

Inductive cstep := CRun | CPush (fs : list fact).
Fixpoint run_script_c (sh : forall A : Type, list A -> list A) (I : interp) (dcs : Z -> Z -> list tuple -> list tuple -> bool)
         (fuel : nat) (pl : plan) (steps : list cstep) (st : cstate)
         : option (list (list fact * list (rel * list nat * ients) * list (rel * list nat * Z))) :=
  match steps with
  | [] => Some []
  | CPush fs :: rest => run_script_c sh I dcs fuel pl rest (c_push_facts fs st)
  | CRun :: rest =>
      match run_plan_c sh enc_list dec_list I dcs fuel pl st with
      | Some st' => option_map (cons (crows st', c_dump_stored sh dec_list st', c_dump_lens st'))
                               (run_script_c sh I dcs fuel pl rest st')
      | None => None
      end
  end.
