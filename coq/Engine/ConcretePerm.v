(* Concrete index types under the per-index engine, part 2: the head updates of IndexedEval.v do not depend on the ORDER in
   which the facts of one rule evaluation arrive, up to a permutation of the entries of every index and of the rows
   (acc_eq): head_update_i respects acc_eq and two head updates commute up to acc_eq, so the fold over a permuted list of
   facts gives acc_eq results (heads_perm).  This is the statement about IndexedEval.v alone that lets a concrete engine
   which enumerates a hash map in another order be compared with it. *)
From Coq Require Import List ZArith Bool Arith Lia Permutation.
From AV Require Import Engine.Core Engine.Sem Engine.Eval Engine.NaiveLemmas Engine.IndexedEval Engine.IndexedBase Engine.IndexedSim.
From AV Require Import Engine.ConcreteEval Engine.ConcreteBase.
Import ListNotations.
Open Scope Z_scope.

Definition lidx_eq (l l' : lidx) : Prop :=
  l_rel l = l_rel l' /\ l_arity l = l_arity l' /\ l_cols l = l_cols l'
  /\ Permutation (l_tot l) (l_tot l') /\ Permutation (l_del l) (l_del l') /\ Permutation (l_new l) (l_new l').
Definition store_eq : list lidx -> list lidx -> Prop := Forall2 lidx_eq.
Definition acc_eq (a a' : list lidx * list fact * bool) : Prop :=
  store_eq (fst (fst a)) (fst (fst a')) /\ Permutation (snd (fst a)) (snd (fst a')) /\ snd a = snd a'.

Lemma lidx_eq_refl l : lidx_eq l l.
Proof. repeat split; reflexivity. Qed.
Lemma lidx_eq_trans a b c : lidx_eq a b -> lidx_eq b c -> lidx_eq a c.
Proof.
  intros [A1 [A2 [A3 [A4 [A5 A6]]]]] [B1 [B2 [B3 [B4 [B5 B6]]]]].
  repeat split; try congruence; eapply Permutation_trans; eassumption.
Qed.
Lemma store_eq_refl s : store_eq s s.
Proof. induction s; constructor; [apply lidx_eq_refl|assumption]. Qed.
Lemma store_eq_trans a b c : store_eq a b -> store_eq b c -> store_eq a c.
Proof.
  intros H. revert c. induction H as [|x y a b Hxy H IH]; intros c Hc; inversion Hc; subst; constructor.
  - eapply lidx_eq_trans; eassumption.
  - now apply IH.
Qed.
Lemma acc_eq_refl a : acc_eq a a.
Proof. split; [apply store_eq_refl|]. split; reflexivity. Qed.
Lemma acc_eq_trans a b c : acc_eq a b -> acc_eq b c -> acc_eq a c.
Proof.
  intros [A1 [A2 A3]] [B1 [B2 B3]]. split; [eapply store_eq_trans; eassumption|]. split; [eapply Permutation_trans; eassumption|congruence].
Qed.
Lemma store_eq_shape s s' : store_eq s s' -> shape s = shape s'.
Proof. intros H. induction H as [|x y a b [H1 [H2 [H3 _]]] H IH]; [reflexivity|]. cbn [shape map]. fold (shape a). fold (shape b). now rewrite H1, H2, H3, IH. Qed.

(* ---------- head_update_i as test + update ---------- *)
Definition insx (f : fact) (l : lidx) : lidx := if Nat.eqb (l_rel l) (fst f) then insert_new l (snd f) else l.
Definition hu_test (store : list lidx) (f : fact) : bool :=
  match full_of store (fst f) with
  | None => false
  | Some lf => negb (ix_has (snd f) (l_tot lf) || ix_has (snd f) (l_del lf)) && negb (ix_has (snd f) (l_new lf))
  end.
Definition hu_upd (acc : list lidx * list fact * bool) (f : fact) : list lidx * list fact * bool :=
  (map (insx f) (fst (fst acc)), snd (fst acc) ++ [f], true).

Lemma hu_unfold acc f : head_update_i no_faults acc f = if hu_test (fst (fst acc)) f then hu_upd acc f else acc.
Proof.
  destruct acc as [[s R] ch]. unfold head_update_i, hu_test, hu_upd. cbn [fst snd].
  destruct (full_of s (fst f)) as [lf|]; [|reflexivity].
  destruct (ix_has (snd f) (l_tot lf) || ix_has (snd f) (l_del lf)); cbn [negb andb]; [reflexivity|].
  destruct (ix_has (snd f) (l_new lf)); cbn [negb]; [reflexivity|]. f_equal. f_equal. apply map_ext. intros l.
  unfold insx. cbn [f_skip no_faults negb]. now rewrite andb_true_r.
Qed.

Lemma insx_shape f l : l_rel (insx f l) = l_rel l /\ l_arity (insx f l) = l_arity l /\ l_cols (insx f l) = l_cols l
  /\ l_tot (insx f l) = l_tot l /\ l_del (insx f l) = l_del l.
Proof. unfold insx. destruct (Nat.eqb (l_rel l) (fst f)); repeat split; reflexivity. Qed.

Lemma insx_resp f l l' : lidx_eq l l' -> lidx_eq (insx f l) (insx f l').
Proof.
  intros [H1 [H2 [H3 [H4 [H5 H6]]]]]. unfold insx. rewrite <- H1. destruct (Nat.eqb (l_rel l) (fst f)); [|repeat split; assumption].
  unfold insert_new, new_key. cbn [l_rel l_arity l_cols l_tot l_del l_new]. repeat split; try assumption.
  rewrite <- H2, <- H3. now apply ix_insert_resp.
Qed.

Lemma insx_comm x y l : lidx_eq (insx y (insx x l)) (insx x (insx y l)).
Proof.
  unfold insx. destruct (Nat.eqb (l_rel l) (fst x)) eqn:Ex, (Nat.eqb (l_rel l) (fst y)) eqn:Ey;
    cbn [insert_new l_rel]; rewrite ?Ex, ?Ey; try apply lidx_eq_refl.
  unfold insert_new, new_key. cbn [l_rel l_arity l_cols l_tot l_del l_new]. repeat split; try reflexivity. apply ix_insert_comm.
Qed.

Lemma find_map_pres {A} (p : A -> bool) (f : A -> A) l : (forall a, p (f a) = p a) -> find p (map f l) = option_map f (find p l).
Proof. intros H. induction l as [|a l IH]; [reflexivity|]. cbn [map find]. rewrite H. destruct (p a); [reflexivity|exact IH]. Qed.

Lemma full_of_insx y s r : full_of (map (insx y) s) r = option_map (insx y) (full_of s r).
Proof.
  unfold full_of. apply find_map_pres. intros l. destruct (insx_shape y l) as [H1 [H2 [H3 _]]]. now rewrite H1, H2, H3.
Qed.

Lemma ix_has_insert_other k k' t es : k <> k' -> ix_has k (ix_insert true k' t es) = ix_has k es.
Proof.
  intros N. unfold ix_insert. destruct (ix_has k' es); [reflexivity|]. rewrite ix_has_app. cbn [ix_has existsb]. unfold key_eqb. cbn [fst].
  destruct (zlist_eqb k' k) eqn:E; [apply zlist_eqb_eq in E; congruence|]. now rewrite !orb_false_r.
Qed.

Lemma hu_test_stable s x y : x <> y -> hu_test (map (insx y) s) x = hu_test s x.
Proof.
  intros N. unfold hu_test. rewrite full_of_insx. destruct (full_of s (fst x)) as [lf|] eqn:Ef; [|reflexivity]. cbn [option_map].
  destruct (insx_shape y lf) as [_ [_ [_ [Ht Hd]]]]. rewrite Ht, Hd. f_equal. f_equal.
  unfold full_of in Ef. apply find_some in Ef as [_ Ef]. apply andb_true_iff in Ef as [Er Efull]. apply Nat.eqb_eq in Er.
  unfold insx. destruct (Nat.eqb (l_rel lf) (fst y)) eqn:Ey; [|reflexivity]. apply Nat.eqb_eq in Ey.
  unfold insert_new, new_key. cbn [l_new]. rewrite Efull. apply ix_has_insert_other.
  intros E. apply N. destruct x as [rx tx], y as [ry ty]. cbn [fst snd] in *. congruence.
Qed.

Lemma hu_test_resp s s' x : store_eq s s' -> hu_test s x = hu_test s' x.
Proof.
  intros H. unfold hu_test, full_of.
  pose proof (find_Forall2 lidx_eq (fun l => Nat.eqb (l_rel l) (fst x) && is_full (l_arity l) (l_cols l))
                (fun l => Nat.eqb (l_rel l) (fst x) && is_full (l_arity l) (l_cols l)) s s' H) as F.
  match type of F with ?P -> _ => assert (G : P) end.
  { intros a b [H1 [H2 [H3 _]]]. now rewrite H1, H2, H3. }
  specialize (F G). destruct (find _ s) as [lf|], (find _ s') as [lf'|]; try contradiction; [|reflexivity].
  destruct F as [[_ [_ [_ [P1 [P2 P3]]]]] _]. now rewrite (ix_has_perm _ _ _ P1), (ix_has_perm _ _ _ P2), (ix_has_perm _ _ _ P3).
Qed.

Lemma hu_upd_resp a a' x : acc_eq a a' -> acc_eq (hu_upd a x) (hu_upd a' x).
Proof.
  intros [H1 [H2 H3]]. unfold hu_upd. split; [|split; [|reflexivity]]; cbn [fst snd].
  - apply Forall2_map_both; [exact H1|]. intros l l'. apply insx_resp.
  - now apply Permutation_app_tail.
Qed.

Lemma hu_resp a a' x : acc_eq a a' -> acc_eq (head_update_i no_faults a x) (head_update_i no_faults a' x).
Proof.
  intros H. rewrite !hu_unfold. rewrite (hu_test_resp _ _ x (proj1 H)). destruct (hu_test (fst (fst a')) x); [now apply hu_upd_resp|exact H].
Qed.

Lemma fact_eq_dec (x y : fact) : {x = y} + {x <> y}.
Proof. decide equality; [apply (list_eq_dec Z.eq_dec)|apply Nat.eq_dec]. Qed.

Lemma hu_after_upd a x y : x <> y ->
  head_update_i no_faults (hu_upd a x) y = if hu_test (fst (fst a)) y then hu_upd (hu_upd a x) y else hu_upd a x.
Proof.
  intros N. rewrite hu_unfold. change (fst (fst (hu_upd a x))) with (map (insx x) (fst (fst a))).
  rewrite hu_test_stable by congruence. reflexivity.
Qed.

Lemma hu_comm a x y :
  acc_eq (head_update_i no_faults (head_update_i no_faults a x) y) (head_update_i no_faults (head_update_i no_faults a y) x).
Proof.
  destruct (fact_eq_dec x y) as [->|N]; [apply acc_eq_refl|].
  assert (N' : y <> x) by congruence.
  rewrite (hu_unfold a x), (hu_unfold a y).
  destruct (hu_test (fst (fst a)) x) eqn:Tx, (hu_test (fst (fst a)) y) eqn:Ty.
  - rewrite (hu_after_upd a x y N), (hu_after_upd a y x N'), Tx, Ty.
    unfold hu_upd. cbn [fst snd]. split; [|split; [|reflexivity]]; cbn [fst snd].
    + rewrite !map_map. clear Tx Ty. induction (fst (fst a)) as [|l s IH]; [constructor|]. cbn [map]. constructor; [apply insx_comm|exact IH].
    + rewrite <- !app_assoc. apply Permutation_app_head. apply perm_swap.
  - rewrite (hu_after_upd a x y N), Ty, hu_unfold, Tx. apply acc_eq_refl.
  - rewrite (hu_after_upd a y x N'), Tx, hu_unfold, Ty. apply acc_eq_refl.
  - rewrite !hu_unfold, Tx, Ty. apply acc_eq_refl.
Qed.

(* the head updates of one rule evaluation, in any order *)
Theorem heads_perm fs fs' a : Permutation fs fs' ->
  acc_eq (fold_left (head_update_i no_faults) fs a) (fold_left (head_update_i no_faults) fs' a).
Proof.
  intros P. apply (fold_perm _ _ acc_eq (head_update_i no_faults)); try exact P.
  - apply acc_eq_refl.
  - apply acc_eq_trans.
  - intros x y f H. now apply hu_resp.
  - intros x f g. apply hu_comm.
Qed.

Lemma heads_resp fs a a' : acc_eq a a' ->
  acc_eq (fold_left (head_update_i no_faults) fs a) (fold_left (head_update_i no_faults) fs a').
Proof. apply (fold_resp _ _ acc_eq (head_update_i no_faults)). intros x y f H. now apply hu_resp. Qed.

Lemma hu_shape a x : shape (fst (fst (head_update_i no_faults a x))) = shape (fst (fst a)).
Proof.
  rewrite hu_unfold. destruct (hu_test (fst (fst a)) x); [|reflexivity]. unfold hu_upd. cbn [fst]. unfold shape. rewrite map_map.
  apply map_ext. intros l. destruct (insx_shape x l) as [H1 [H2 [H3 _]]]. now rewrite H1, H2, H3.
Qed.
