(* Specification semantics of the core language: naive evaluation with full
   matching against whole relations (no indices, no versions), closedness and
   least model.  This is what "the least model of the rules" means in C01. *)
From Coq Require Import List ZArith Bool Arith.
From AV Require Import Engine.Core.
Import ListNotations.
Open Scope Z_scope.

Section Sem.
Variable I : interp.

(* match the arguments of a body clause against a tuple: the first occurrence of
   a variable binds it, a bound variable / constant / expression tests equality *)
Fixpoint match_args (e : env) (args : list term) (tup : tuple) : option env :=
  match args, tup with
  | [], [] => Some e
  | a :: args', v :: tup' =>
      match a with
      | TVar x => match lookup e x with
                  | Some w => if Z.eqb w v then match_args e args' tup' else None
                  | None => match_args (bind x v e) args' tup'
                  end
      | _ => match eval_term I e a with
             | Some w => if Z.eqb w v then match_args e args' tup' else None
             | None => None
             end
      end
  | _, _ => None
  end.

(* aggregated relation arguments: keys test equality, wildcards and bound columns match anything;
   returns the bound-column values in the order of the clause's [bound] list *)
Fixpoint agg_match (e : env) (args : list aarg) (tup : tuple) : bool :=
  match args, tup with
  | [], [] => true
  | a :: args', v :: tup' =>
      match a with
      | AKey t => match eval_term I e t with Some w => Z.eqb w v && agg_match e args' tup' | None => false end
      | _ => agg_match e args' tup'
      end
  | _, _ => false
  end.

Fixpoint agg_col (x : var) (args : list aarg) (tup : tuple) : option Z :=
  match args, tup with
  | ABound y :: args', v :: tup' => if Nat.eqb x y then Some v else agg_col x args' tup'
  | _ :: args', _ :: tup' => agg_col x args' tup'
  | _, _ => None
  end.
Definition agg_input (bound : list var) (args : list aarg) (tup : tuple) : list Z :=
  filter_map (fun x => agg_col x args tup) bound.

Definition bind_out (out : option var) (v : Z) (e : env) : env :=
  match out with Some x => bind x v e | None => e end.

(* all environments satisfying a body, given the relation contents *)
Fixpoint all_envs (db : rel -> list tuple) (items : list bitem) (e : env) : list env :=
  match items with
  | [] => [e]
  | BClause r args cs :: rest =>
      flat_map (fun tup => match match_args e args tup with
                           | Some e1 => match sat_conds I e1 cs with Some e2 => all_envs db rest e2 | None => [] end
                           | None => [] end) (db r)
  | BCond c :: rest => match sat_cond I e c with Some e' => all_envs db rest e' | None => [] end
  | BGen x g xs :: rest =>
      match eval_vars e xs with
      | Some vs => flat_map (fun v => all_envs db rest (bind x v e)) (gint I g vs)
      | None => [] end
  | BAgg out a bound r args :: rest =>
      let matching := dedup_tuples (filter (agg_match e args) (db r)) in
      flat_map (fun v => all_envs db rest (bind_out out v e)) (aint I a (map (agg_input bound args) matching))
  end.

Definition derive_rule (db : rel -> list tuple) (r : rule) : list fact :=
  flat_map (fun e => filter_map (eval_head I e) (heads r)) (all_envs db (body r) []).

Definition derives (P : list rule) (F : list fact) (f : fact) : Prop :=
  exists r, In r P /\ In f (derive_rule (db_of F) r).

Definition closed (P : list rule) (F : list fact) : Prop := forall f, derives P F f -> In f F.

Definition least_model (P : list rule) (F0 M : list fact) : Prop :=
  incl F0 M /\ closed P M /\ forall M', incl F0 M' -> closed P M' -> incl M M'.

(* executable naive fix-point (oracle for the tie; also used in examples) *)
Fixpoint add_new (fs : list fact) (F : list fact) : list fact :=
  match fs with [] => F | f :: fs' => if mem_fact f F then add_new fs' F else add_new fs' (F ++ [f]) end.
Definition naive_step (P : list rule) (F : list fact) : list fact :=
  add_new (flat_map (derive_rule (db_of F)) P) F.
Fixpoint naive_fix (fuel : nat) (P : list rule) (F : list fact) : option (list fact) :=
  match fuel with
  | O => None
  | S n => let F' := naive_step P F in if Nat.eqb (length F') (length F) then Some F else naive_fix n P F'
  end.
End Sem.
