(* C18, TrRelUnionFind: the second loop of merge_multiple ([mm_collapse]) never fails on a state
   satisfying [sinv] when every collapsed id is a live class different from [from]; it preserves
   [sinv], moves the members of the collapsed classes into sets[from], redirects their subsumption
   chains to [from] and removes their keys from both connection maps. *)
From Coq Require Import List Arith Bool Lia Permutation.
From AV Require Import UF.UfBase.
From AV Require Import UF.TrUfModel.
From AV Require Import UF.TrUfInv.
From AV Require Import UF.TrUfLemmas.
From AV Require Import UF.TrUfQueries.
From AV Require Import UF.TrUfCore.
From AV Require Import UF.TrUfNode.
Import ListNotations.

(* ---- generic facts *)
Lemma existsb_eqb_in : forall k l, existsb (Nat.eqb k) l = true <-> In k l.
Proof. intros k l. exact (smem_in k l). Qed.

Lemma existsb_eqb_false : forall k l, existsb (Nat.eqb k) l = false <-> ~ In k l.
Proof. intros k l. exact (smem_false k l). Qed.

Lemma gdom_S : forall f subs t,
  gdom (S f) subs t = match aget t subs with Some d => gdom f subs d | None => Ok t end.
Proof. reflexivity. Qed.

(* a vector of sets has a duplicate-free concatenation iff every row is duplicate-free and
   different rows are disjoint *)
Lemma concat_nodup_iff : forall (L : list (list nat)),
  NoDup (concat L) <->
  (forall i li, nth_error L i = Some li -> NoDup li) /\
  (forall i j li lj x, nth_error L i = Some li -> nth_error L j = Some lj -> In x li -> In x lj -> i = j).
Proof.
  intros L; split.
  - intros H; split.
    + intros i li Hi. eapply concat_nodup_nth; eassumption.
    + intros i j li lj x Hi Hj Hxi Hxj. eapply concat_nodup_disj; eassumption.
  - induction L as [|h L IH]; intros [Hrow Hdis]; cbn; [constructor|].
    apply nodup_app.
    + apply (Hrow 0 h); reflexivity.
    + apply IH; split.
      * intros i li Hi. apply (Hrow (S i) li); exact Hi.
      * intros i j li lj x Hi Hj Hxi Hxj.
        assert (E : S i = S j) by (apply (Hdis (S i) (S j) li lj x); assumption).
        congruence.
    + intros x Hx Hc. apply in_concat in Hc. destruct Hc as [lx [Hlx Hxl]].
      apply In_nth_error in Hlx. destruct Hlx as [j Hj].
      assert (E : 0 = S j) by (apply (Hdis 0 (S j) h lx x); [reflexivity|exact Hj|assumption|assumption]).
      discriminate.
Qed.

(* ---- consequences of sinv *)
Lemma sinv_mem_disj : forall st, sinv st -> forall a b x, mem_of st a x -> mem_of st b x -> a = b.
Proof.
  intros st H a b x [la [Ha Hxa]] [lb [Hb Hxb]].
  eapply concat_nodup_disj; try eassumption. apply (s_sets_nodup st H).
Qed.

Lemma dominant_row : forall st d, dominant st d -> exists l, nth_error (t_sets st) d = Some l.
Proof. intros st d [Hlt _]. apply nth_error_lt. exact Hlt. Qed.

(* ---- the key fact on chains: a new binding s -> from at the end of chains *)
Lemma gdom_aset_end : forall subs s from, aget s subs = None -> aget from subs = None -> from <> s ->
  forall f t d, gdom f subs t = Ok d ->
    gdom (S f) (aset s from subs) t = Ok (if Nat.eqb d s then from else d).
Proof.
  intros subs s from Hs Hf Hne.
  assert (Hfrom : forall f, gdom (S f) (aset s from subs) from = Ok from).
  { intros f. rewrite gdom_S. rewrite aget_aset_ne by assumption. rewrite Hf. reflexivity. }
  induction f as [|f IH]; intros t d H; [discriminate|].
  rewrite gdom_S in H. rewrite gdom_S. rewrite aget_aset.
  destruct (Nat.eqb_spec t s) as [->|Hts].
  - rewrite Hs in H. inversion H; subst d. rewrite Nat.eqb_refl. apply Hfrom.
  - destruct (aget t subs) as [p|] eqn:Ht.
    + apply IH. exact H.
    + inversion H; subst d. destruct (Nat.eqb_spec t s) as [|_]; [contradiction|]. reflexivity.
Qed.

(* ---- one iteration of the loop *)
Definition cstep (st : truf) (from s : nat) (taken fs : list nat) : truf :=
  mkTr (set_nth (set_nth (t_sets st) s []) from (sunion fs taken))
       (t_ids st) (aset s from (t_subs st)) (arem s (t_conn st)) (arem s (t_rev st)).

Lemma mm_collapse_cons : forall st from s rest taken fs,
  s <> from -> nth_error (t_sets st) s = Some taken -> nth_error (t_sets st) from = Some fs ->
  mm_collapse from (s :: rest) st = mm_collapse from rest (cstep st from s taken fs).
Proof.
  intros st from s rest taken fs Hne Htk Hfs. cbn [mm_collapse].
  destruct (Nat.eqb_spec from s) as [E|_]; [congruence|]. cbn [negb dbgt bind].
  rewrite Htk. cbn [of_opt bind].
  rewrite nth_set_nth_ne by assumption. rewrite Hfs. cbn [of_opt bind]. reflexivity.
Qed.

(* the premises of one iteration *)
Definition step_pre (st : truf) (from s : nat) (taken fs : list nat) : Prop :=
  sinv st /\ dominant st from /\ dominant st s /\ s <> from /\
  nth_error (t_sets st) s = Some taken /\ nth_error (t_sets st) from = Some fs.

Ltac step_intro :=
  let P := fresh "P" in
  intros st from s taken fs P; pose proof P as [Hinv [Hf [Hs [Hne [Htk Hfs]]]]].

Lemma st1_nsets : forall st from s taken fs, step_pre st from s taken fs -> nsets (cstep st from s taken fs) = nsets st.
Proof. step_intro. unfold nsets, cstep; cbn [t_sets]. rewrite !length_set_nth. reflexivity. Qed.

Lemma st1_row : forall st from s taken fs, step_pre st from s taken fs -> forall i,
  nth_error (t_sets (cstep st from s taken fs)) i =
  if Nat.eqb i from then Some (sunion fs taken)
  else if Nat.eqb i s then Some [] else nth_error (t_sets st) i.
Proof.
  step_intro.
  intros i. unfold cstep; cbn [t_sets].
  destruct (Nat.eqb_spec i from) as [->|Hif].
  - apply nth_set_nth_eq. rewrite length_set_nth. apply Hf.
  - rewrite nth_set_nth_ne by congruence.
    destruct (Nat.eqb_spec i s) as [->|His].
    + apply nth_set_nth_eq. apply Hs.
    + apply nth_set_nth_ne. congruence.
Qed.

Lemma st1_mem : forall st from s taken fs, step_pre st from s taken fs -> forall i u,
  mem_of (cstep st from s taken fs) i u <->
  (i = from /\ (mem_of st from u \/ mem_of st s u)) \/ (i <> from /\ i <> s /\ mem_of st i u).
Proof.
  step_intro.
  intros i u. unfold mem_of at 1. split.
  - intros [l [Hl Hu]]. rewrite (st1_row _ _ _ _ _ P) in Hl.
    destruct (Nat.eqb_spec i from) as [->|Hif].
    + inversion Hl; subst l. apply in_sunion in Hu. left; split; [reflexivity|].
      destruct Hu as [Hu|Hu]; [left; exists fs|right; exists taken]; auto.
    + destruct (Nat.eqb_spec i s) as [->|His].
      * inversion Hl; subst l. destruct Hu.
      * right. split; [assumption|]. split; [assumption|]. exists l; auto.
  - intros [[-> H]|[Hif [His [l [Hl Hu]]]]].
    + exists (sunion fs taken). split; [rewrite (st1_row _ _ _ _ _ P), Nat.eqb_refl; reflexivity|].
      apply in_sunion. destruct H as [[l [Hl Hu]]|[l [Hl Hu]]].
      * rewrite Hfs in Hl; inversion Hl; subst l. left; assumption.
      * rewrite Htk in Hl; inversion Hl; subst l. right; assumption.
    + exists l. split; [|assumption]. rewrite (st1_row _ _ _ _ _ P).
      destruct (Nat.eqb_spec i from); [contradiction|].
      destruct (Nat.eqb_spec i s); [contradiction|]. assumption.
Qed.

Lemma st1_dominant : forall st from s taken fs, step_pre st from s taken fs -> forall d, dominant (cstep st from s taken fs) d <-> dominant st d /\ d <> s.
Proof.
  step_intro.
  intros d. unfold dominant. rewrite (st1_nsets _ _ _ _ _ P). unfold cstep; cbn [t_subs]. rewrite aget_aset.
  destruct (Nat.eqb_spec d s) as [->|Hds].
  - split; [intros [_ E]; discriminate|intros [_ E]; congruence].
  - tauto.
Qed.

Lemma st1_dom_to : forall st from s taken fs, step_pre st from s taken fs -> forall t d, dom_to st t d -> dom_to (cstep st from s taken fs) t (if Nat.eqb d s then from else d).
Proof.
  step_intro.
  intros t d [Hg [Hlt Hn]]. unfold dom_to. rewrite (st1_nsets _ _ _ _ _ P). unfold cstep; cbn [t_subs].
  destruct Hs as [Hslt Hsn]. destruct Hf as [Hflt Hfn].
  rewrite length_aset. rewrite Hsn.
  split; [|split].
  - apply gdom_aset_end; try assumption. congruence.
  - destruct (Nat.eqb d s); assumption.
  - destruct (Nat.eqb_spec d s) as [->|Hds].
    + rewrite aget_aset_ne by congruence. assumption.
    + rewrite aget_aset_ne by assumption. assumption.
Qed.

Lemma st1_mem_target : forall st from s taken fs, step_pre st from s taken fs -> forall d x, dominant st d -> mem_of st d x ->
  mem_of (cstep st from s taken fs) (if Nat.eqb d s then from else d) x.
Proof.
  step_intro.
  intros d x Hd Hm. apply (st1_mem _ _ _ _ _ P).
  destruct (Nat.eqb_spec d s) as [->|Hds].
  - left; split; [reflexivity|right; assumption].
  - destruct (Nat.eq_dec d from) as [->|Hdf].
    + left; split; [reflexivity|left; assumption].
    + right; auto.
Qed.

Lemma st1_mem_old : forall st from s taken fs, step_pre st from s taken fs -> forall i u, mem_of (cstep st from s taken fs) i u -> exists j, mem_of st j u.
Proof.
  step_intro.
  intros i u H. apply (st1_mem _ _ _ _ _ P) in H.
  destruct H as [[_ [H|H]]|[_ [_ H]]]; eauto.
Qed.

Lemma st1_sinv : forall st from s taken fs, step_pre st from s taken fs -> sinv (cstep st from s taken fs).
Proof.
  step_intro.
  constructor.
  - intros k f. unfold cstep at 1; cbn [t_subs]. rewrite aget_aset. rewrite (st1_nsets _ _ _ _ _ P).
    destruct (Nat.eqb_spec k s) as [->|Hks].
    + intros E; inversion E; subst f. split; [apply Hs|apply Hf].
    + apply (s_subs_range st Hinv).
  - unfold cstep; cbn [t_subs]. apply nodup_keys_aset, (s_subs_keys st Hinv).
  - intros t Ht. rewrite (st1_nsets _ _ _ _ _ P) in Ht. destruct (s_subs_dom st Hinv t Ht) as [d Hd].
    eexists. apply (st1_dom_to _ _ _ _ _ P). exact Hd.
  - apply concat_nodup_iff. split.
    + intros i li Hi. rewrite (st1_row _ _ _ _ _ P) in Hi.
      destruct (Nat.eqb i from).
      * inversion Hi; subst li. apply nodup_sunion.
        -- eapply concat_nodup_nth; [apply (s_sets_nodup st Hinv)|exact Hfs].
        -- eapply concat_nodup_nth; [apply (s_sets_nodup st Hinv)|exact Htk].
      * destruct (Nat.eqb i s).
        -- inversion Hi; subst li. constructor.
        -- eapply concat_nodup_nth; [apply (s_sets_nodup st Hinv)|exact Hi].
    + intros i j li lj x Hi Hj Hxi Hxj.
      assert (Mi : mem_of (cstep st from s taken fs) i x) by (exists li; auto).
      assert (Mj : mem_of (cstep st from s taken fs) j x) by (exists lj; auto).
      apply (st1_mem _ _ _ _ _ P) in Mi. apply (st1_mem _ _ _ _ _ P) in Mj.
      pose proof (sinv_mem_disj st Hinv) as Hd.
      destruct Mi as [[-> Mi]|[Hif [His Mi]]], Mj as [[-> Mj]|[Hjf [Hjs Mj]]].
      * reflexivity.
      * exfalso. destruct Mi as [Mi|Mi].
        -- apply Hjf. symmetry. eapply Hd; eassumption.
        -- apply Hjs. symmetry. eapply Hd; eassumption.
      * exfalso. destruct Mj as [Mj|Mj].
        -- apply Hif. symmetry. eapply Hd; eassumption.
        -- apply His. symmetry. eapply Hd; eassumption.
      * eapply Hd; eassumption.
  - intros k f. unfold cstep at 1; cbn [t_subs]. rewrite aget_aset. rewrite (st1_row _ _ _ _ _ P).
    destruct (Nat.eqb_spec k s) as [->|Hks].
    + intros _. destruct (Nat.eqb_spec s from); [contradiction|reflexivity].
    + intros Hk. destruct (Nat.eqb_spec k from) as [->|Hkf].
      * destruct Hf as [_ Hfn]. congruence.
      * apply (s_subsumed_empty st Hinv k f Hk).
  - intros x i Hi. change (t_ids (cstep st from s taken fs)) with (t_ids st) in Hi. rewrite (st1_nsets _ _ _ _ _ P).
    destruct (s_ids_mem st Hinv x i Hi) as [Hlt [d [Hd Hm]]]. split; [assumption|].
    exists (if Nat.eqb d s then from else d). split.
    + apply (st1_dom_to _ _ _ _ _ P); assumption.
    + apply (st1_mem_target _ _ _ _ _ P); [eapply dom_to_dominant; eassumption|assumption].
  - intros i x Hm. change (t_ids (cstep st from s taken fs)) with (t_ids st).
    destruct (st1_mem_old _ _ _ _ _ P i x Hm) as [j Hj]. apply (s_mem_ids st Hinv j x Hj).
  - change (t_ids (cstep st from s taken fs)) with (t_ids st). apply (s_ids_keys st Hinv).
  - intros d Hd. apply (st1_dominant _ _ _ _ _ P) in Hd. destruct Hd as [Hd Hds].
    destruct (s_nonempty st Hinv d Hd) as [x Hx]. exists x.
    pose proof (st1_mem_target _ _ _ _ _ P d x Hd Hx) as H.
    destruct (Nat.eqb_spec d s); [contradiction|exact H].
Qed.

(* ---- the loop *)
Theorem mm_collapse_spec : mm_collapse_stmt.
Proof.
  unfold mm_collapse_stmt. intros st from l. revert st.
  induction l as [|s l IH]; intros st Hinv Hf Hnd Hl.
  - exists st. cbn [mm_collapse existsb].
    split; [reflexivity|]. split; [assumption|]. split; [reflexivity|]. split; [reflexivity|].
    split; [reflexivity|]. split; [reflexivity|]. split; [auto|]. split; [auto|].
    split; [|split].
    + intros d; cbn [In]; tauto.
    + intros i u; cbn [In]. split.
      * intros H. destruct (Nat.eq_dec i from) as [->|Hif]; [left; auto|right; auto].
      * intros [[-> [H|[z [[] _]]]]|[_ [_ H]]]; assumption.
    + intros t d H; exact H.
  - inversion Hnd as [|? ? Hsl Hnd']; subst.
    destruct (Hl s (or_introl eq_refl)) as [Hs Hne].
    destruct (dominant_row st s Hs) as [taken Htk].
    destruct (dominant_row st from Hf) as [fs Hfs].
    rewrite (mm_collapse_cons st from s l taken fs Hne Htk Hfs).
    set (st1 := cstep st from s taken fs).
    assert (P : step_pre st from s taken fs) by exact (conj Hinv (conj Hf (conj Hs (conj Hne (conj Htk Hfs))))).
    pose proof (st1_sinv _ _ _ _ _ P) as Hinv1.
    pose proof (st1_nsets _ _ _ _ _ P) as Hn1.
    pose proof (st1_mem _ _ _ _ _ P) as Hmem1.
    pose proof (st1_dominant _ _ _ _ _ P) as Hdom1.
    pose proof (st1_dom_to _ _ _ _ _ P) as Hdt1.
    fold st1 in Hinv1, Hn1, Hmem1, Hdom1, Hdt1.
    assert (Hf1 : dominant st1 from) by (apply Hdom1; split; [assumption|congruence]).
    assert (Hl1 : forall z, In z l -> dominant st1 z /\ z <> from).
    { intros z Hz. destruct (Hl z (or_intror Hz)) as [Hzd Hzf]. split; [|assumption].
      apply Hdom1. split; [assumption|]. intros ->; contradiction. }
    destruct (IH st1 Hinv1 Hf1 Hnd' Hl1)
      as [st' [Hrun [Hinv' [Hids [Hns [Hconn [Hrev [Hck [Hrk [Hdom [Hmem Hdt]]]]]]]]]]].
    assert (Hfl : ~ In from l) by (intros Hc; destruct (Hl1 from Hc) as [_ E]; congruence).
    exists st'.
    split; [exact Hrun|]. split; [exact Hinv'|].
    split; [rewrite Hids; reflexivity|]. split; [rewrite Hns; exact Hn1|].
    split; [|split; [|split; [|split; [|split; [|split]]]]].
    + intros k. rewrite Hconn. change (t_conn st1) with (arem s (t_conn st)). rewrite aget_arem.
      cbn [existsb]. destruct (Nat.eqb k s); cbn [orb]; [|reflexivity].
      destruct (existsb (Nat.eqb k) l); reflexivity.
    + intros k. rewrite Hrev. change (t_rev st1) with (arem s (t_rev st)). rewrite aget_arem.
      cbn [existsb]. destruct (Nat.eqb k s); cbn [orb]; [|reflexivity].
      destruct (existsb (Nat.eqb k) l); reflexivity.
    + intros H. apply Hck. change (t_conn st1) with (arem s (t_conn st)). apply nodup_keys_arem; exact H.
    + intros H. apply Hrk. change (t_rev st1) with (arem s (t_rev st)). apply nodup_keys_arem; exact H.
    + intros d. rewrite Hdom, Hdom1. cbn [In]. split.
      * intros [[Hd Hds] Hdl]. split; [assumption|]. intros [E|E]; [congruence|contradiction].
      * intros [Hd Hdl]. split; [split; [assumption|]|]; intros E; apply Hdl; [left; congruence|right; assumption].
    + intros i u. rewrite Hmem. split.
      * intros [[-> H]|[Hif [Hil H]]].
        -- left; split; [reflexivity|]. destruct H as [H|[z [Hz H]]].
           ++ apply Hmem1 in H. destruct H as [[_ [H|H]]|[E _]]; [left; assumption| |congruence].
              right; exists s; split; [now left|assumption].
           ++ apply Hmem1 in H. destruct H as [[E _]|[_ [_ H]]].
              ** exfalso; apply Hfl; subst z; assumption.
              ** right; exists z; split; [now right|assumption].
        -- apply Hmem1 in H. destruct H as [[E _]|[_ [His H]]]; [congruence|].
           right. split; [assumption|]. split; [|assumption].
           intros [E|E]; [congruence|contradiction].
      * intros [[-> H]|[Hif [Hil H]]].
        -- left; split; [reflexivity|]. destruct H as [H|[z [[<-|Hz] H]]].
           ++ left. apply Hmem1. left; split; [reflexivity|left; assumption].
           ++ left. apply Hmem1. left; split; [reflexivity|right; assumption].
           ++ right. exists z; split; [assumption|]. apply Hmem1. right.
              split; [apply (Hl1 z Hz)|]. split; [intros ->; contradiction|assumption].
        -- right. split; [assumption|]. split; [intros E; apply Hil; now right|].
           apply Hmem1. right. split; [assumption|]. split; [|assumption].
           intros ->; apply Hil; now left.
    + intros t d H. apply Hdt1 in H. apply Hdt in H. cbn [existsb]. revert H.
      destruct (Nat.eqb_spec d s) as [Eds|Hds]; cbn [orb]; intros H.
      * assert (E : existsb (Nat.eqb from) l = false) by (apply existsb_eqb_false; assumption).
        rewrite E in H. exact H.
      * exact H.
Qed.

Print Assumptions mm_collapse_spec.
