(* Machine-checked proofs about the executable model UfModel.v of byods/ascent-byods-rels/src/uf.rs.
   Main results: uf_run_total, uf_run_values, uf_find_item_spec, uf_run_ok.  No axioms. *)
From Coq Require Import List Arith Bool Lia Permutation PeanoNat.
From AV Require Import UF.UfBase.
From AV Require Import UF.UfModel.
From AV Require Import UF.UfLemmas.
Import ListNotations.

(* ---- reference definitions *)
(* values present after a history, in order of first insertion, starting from l *)
Definition ins (x : nat) (l : list nat) : list nat := if existsb (Nat.eqb x) l then l else l ++ [x].
Fixpoint added (l : list nat) (ops : list op) : list nat :=
  match ops with
  | [] => l
  | OAdd x :: r => added (ins x l) r
  | OUnionAdd x y :: r => added (ins y (ins x l)) r
  | _ :: r => added l r
  end.
(* the unions performed *)
Fixpoint upairs (l : list nat) (ops : list op) : list (nat * nat) :=
  match ops with
  | [] => []
  | OAdd x :: r => upairs (ins x l) r
  | OUnionAdd x y :: r => (x, y) :: upairs (ins y (ins x l)) r
  | OUnionId x y :: r => if existsb (Nat.eqb x) l && existsb (Nat.eqb y) l then (x, y) :: upairs l r else upairs l r
  | _ :: r => upairs l r
  end.
(* connected by the unions performed: the equivalence closure *)
Inductive connected (E : list (nat * nat)) : nat -> nat -> Prop :=
| c_refl x : connected E x x
| c_edge x y : In (x, y) E -> connected E x y
| c_sym x y : connected E x y -> connected E y x
| c_trans x y z : connected E x y -> connected E y z -> connected E x z.

(* ---- the invariant.
   R is a ghost "root of" function.  n = number of elements = length of the value list l. *)

(* the part that talks about the parent vector p (the only thing `find` changes) *)
Record pinv (R : nat -> nat) (rk : list nat) (n : nat) (p : list nat) : Prop := mkPinv {
  pi_len : length p = n;
  pi_lt : forall i, i < n -> nth i p 0 < n;
  pi_rank : forall i, i < n -> nth i p 0 <> i -> nth i rk 0 < nth (nth i p 0) rk 0;
  pi_root : forall i, i < n -> nth i p 0 = i -> R i = i;
  pi_par : forall i, i < n -> R (nth i p 0) = R i;
  pi_Rroot : forall i, i < n -> nth (R i) p 0 = R i;
  pi_Rlt : forall i, i < n -> R i < n;
  pi_rkR : forall i, i < n -> nth i rk 0 <= nth (R i) rk 0
}.

(* r :: c is the circular `next` list of the class with root r *)
Definition iscyc (R : nat -> nat) (nx : list nat) (n r : nat) (c : list nat) : Prop :=
  chain (fun i => nth i nx 0) r c r /\ NoDup (r :: c) /\ (forall i, In i (r :: c) <-> i < n /\ R i = r).

Definition cinv (R : nat -> nat) (rk nx : list nat) (n : nat) : Prop :=
  forall r, r < n -> R r = r -> exists c, iscyc R nx n r c /\ nth r rk 0 + 1 <= length (r :: c).

(* structural invariant *)
Record sinv (R : nat -> nat) (l : list nat) (st : uf) : Prop := mkSinv {
  si_p : pinv R (u_rank st) (length l) (u_parent st);
  si_lrk : length (u_rank st) = length l;
  si_lnx : length (u_next st) = length l;
  si_val : u_value st = l;
  si_cyc : cinv R (u_rank st) (u_next st) (length l);
  si_keys : map fst (u_items st) = l;
  si_items : forall x c, aget x (u_items st) = Some c ->
      c < length l /\ exists i, i < length l /\ nth i l 0 = x /\ R c = R i
}.

(* tie to the reference: same root <-> connected by the unions performed *)
Record tinv (R : nat -> nat) (l : list nat) (E : list (nat * nat)) : Prop := mkTinv {
  ti_tie : forall i j, i < length l -> j < length l -> (R i = R j <-> connected E (nth i l 0) (nth j l 0));
  ti_edges : forall a b, In (a, b) E -> In a l /\ In b l
}.

Definition uf_inv (l : list nat) (E : list (nat * nat)) (st : uf) : Prop :=
  exists R, sinv R l st /\ tinv R l E.

Lemma uf_inv_empty : uf_inv [] [] uf_empty.
Proof.
  exists (fun i => i). split.
  - constructor; simpl; auto; try (intros; lia).
    + constructor; simpl; auto; intros; lia.
    + intros r Hr; lia.
    + intros x c H; discriminate.
  - constructor; simpl; intros; lia.
Qed.

(* ---- find *)
Lemma pinv_halve R rk n p id :
  pinv R rk n p -> id < n -> nth id p 0 <> id -> nth (nth id p 0) p 0 <> nth id p 0 ->
  pinv R rk n (set_nth p id (nth (nth id p 0) p 0)).
Proof.
  intros [Hlen Hlt Hrank Hroot Hpar HRroot HRlt HrkR] Hid H1 H2.
  assert (Hpid : nth id p 0 < n) by auto.
  assert (Hr1 := Hrank id Hid H1). assert (Hr2 := Hrank _ Hpid H2).
  constructor; auto.
  - rewrite set_nth_length; auto.
  - intros i Hi. rewrite nth_set_nth by lia. destruct (Nat.eqb_spec i id); auto.
  - intros i Hi. rewrite nth_set_nth by lia. destruct (Nat.eqb_spec i id) as [E|E].
    + subst. intros _. lia.
    + auto.
  - intros i Hi. rewrite nth_set_nth by lia. destruct (Nat.eqb_spec i id) as [E|E].
    + subst. intros Hc. rewrite Hc in Hr2. lia.
    + auto.
  - intros i Hi. rewrite nth_set_nth by lia. destruct (Nat.eqb_spec i id) as [E|E].
    + subst. rewrite Hpar by auto. auto.
    + auto.
  - intros i Hi. rewrite nth_set_nth by lia. destruct (Nat.eqb_spec (R i) id) as [E|E].
    + exfalso. apply H1. rewrite <- E. auto.
    + auto.
Qed.

Lemma find_fuel_ok R rk n : forall fuel p id,
  pinv R rk n p -> id < n -> nth (R id) rk 0 < fuel + nth id rk 0 ->
  exists p', find_fuel fuel p id = Ok (p', R id) /\ pinv R rk n p'.
Proof.
  induction fuel as [|f IH]; intros p id Hp Hid Hf.
  - exfalso. pose proof (pi_rkR _ _ _ _ Hp id Hid). lia.
  - pose proof Hp as [Hlen Hlt Hrank Hroot Hpar HRroot HRlt HrkR].
    simpl. rewrite nth_error_nth0 by lia.
    destruct (Nat.eqb_spec id (nth id p 0)) as [E|E].
    + exists p. rewrite (Hroot id) by auto. auto.
    + assert (Hpid : nth id p 0 < n) by auto.
      rewrite nth_error_nth0 by lia.
      destruct (Nat.eqb_spec (nth (nth id p 0) p 0) (nth id p 0)) as [E2|E2].
      * exists p. rewrite <- (Hpar id Hid). rewrite (Hroot _ Hpid E2). auto.
      * assert (Hr1 : nth id rk 0 < nth (nth id p 0) rk 0) by (apply Hrank; auto).
        assert (Hr2 := Hrank _ Hpid E2).
        assert (Hg : nth (nth id p 0) p 0 < n) by auto.
        destruct (IH (set_nth p id (nth (nth id p 0) p 0)) (nth (nth id p 0) p 0)) as [p' [F1 F2]].
        -- apply pinv_halve; auto.
        -- auto.
        -- rewrite !Hpar by auto. lia.
        -- exists p'. rewrite F1. rewrite !Hpar by auto. auto.
Qed.

(* ---- derived facts *)
Lemma pinv_RR R rk n p i : pinv R rk n p -> i < n -> R (R i) = R i.
Proof. intros Hp Hi. apply (pi_root _ _ _ _ Hp); [apply (pi_Rlt _ _ _ _ Hp)|apply (pi_Rroot _ _ _ _ Hp)]; auto. Qed.

Lemma iscyc_length R nx n r c : iscyc R nx n r c -> length (r :: c) <= n.
Proof.
  intros [_ [Hnd Hin]]. apply NoDup_lt_length; auto. intros x Hx. apply Hin in Hx. tauto.
Qed.

Lemma rank_lt R rk nx n p i : pinv R rk n p -> cinv R rk nx n -> i < n -> nth i rk 0 < n.
Proof.
  intros Hp Hc Hi.
  pose proof (pi_rkR _ _ _ _ Hp i Hi) as H1.
  pose proof (pi_Rlt _ _ _ _ Hp i Hi) as H2.
  destruct (Hc (R i) H2 (pinv_RR _ _ _ _ _ Hp Hi)) as [c [Hcy Hlen]].
  apply iscyc_length in Hcy. lia.
Qed.

Lemma sinv_ok_cheap R l st : sinv R l st -> ok_cheap st = true.
Proof.
  intros Hs. unfold ok_cheap, uf_len. apply Nat.eqb_eq.
  rewrite (pi_len _ _ _ _ (si_p _ _ _ Hs)). rewrite <- (si_keys _ _ _ Hs) at 1. apply map_length.
Qed.

Lemma sinv_with_parent R l st p' :
  sinv R l st -> pinv R (u_rank st) (length l) p' -> sinv R l (with_parent st p').
Proof. intros [] Hp. constructor; simpl; auto. Qed.

Lemma elems_find_ok R l st id : sinv R l st -> id < length l ->
  exists st', elems_find st id = Ok (st', R id) /\ sinv R l st'.
Proof.
  intros Hs Hid. unfold elems_find, uf_len.
  pose proof (si_p _ _ _ Hs) as Hp.
  destruct (find_fuel_ok R (u_rank st) (length l) (length (u_parent st)) (u_parent st) id) as [p' [F1 F2]]; auto.
  - rewrite (pi_len _ _ _ _ Hp).
    pose proof (rank_lt _ _ _ _ _ (R id) Hp (si_cyc _ _ _ Hs) (pi_Rlt _ _ _ _ Hp id Hid)). lia.
  - rewrite F1. simpl. eexists; split; eauto. apply sinv_with_parent; auto.
Qed.

Lemma sinv_set_item R l st x c :
  sinv R l st -> c < length l -> (exists i, i < length l /\ nth i l 0 = x /\ R c = R i) ->
  sinv R l (with_items st (aset x c (u_items st))).
Proof.
  intros Hs Hc Hex. pose proof Hs as [H1 H2 H3 H4 H5 H6 H7].
  constructor; simpl; auto.
  - rewrite map_fst_aset_in; auto. rewrite aget_None_iff, H6.
    destruct Hex as [i [Hi [Hx _]]]. intros Hn. apply Hn. subst x. apply nth_In; auto.
  - intros y d. rewrite aget_aset. destruct (Nat.eqb_spec y x) as [E|E].
    + intros Hd; inversion Hd; subst. auto.
    + apply H7.
Qed.

Lemma find_item_ok R l st x : sinv R l st ->
  exists st' r, find_item st x = Ok (st', r) /\ sinv R l st' /\
    (r = None <-> ~ In x l) /\
    (forall c, r = Some c -> c < length l /\ exists i, i < length l /\ nth i l 0 = x /\ c = R i).
Proof.
  intros Hs. unfold find_item. destruct (aget x (u_items st)) as [id|] eqn:G.
  - destruct (si_items _ _ _ Hs x id G) as [Hid [i [Hi [Hx HR]]]].
    destruct (elems_find_ok R l st id Hs Hid) as [st1 [F1 F2]].
    rewrite F1. cbn [bind].
    pose proof (si_p _ _ _ F2) as Hp.
    assert (HRR : R (R id) = R i) by (rewrite (pinv_RR _ _ _ _ _ Hp Hid); auto).
    eexists; eexists; split; [reflexivity|]. split; [|split].
    + apply sinv_set_item; auto. apply (pi_Rlt _ _ _ _ Hp); auto. eauto.
    + split; [discriminate|]. intros Hn. exfalso. apply Hn. subst x. apply nth_In; auto.
    + intros c Hc. inversion Hc; subst c. split; [apply (pi_Rlt _ _ _ _ Hp); auto|].
      exists i. repeat split; auto.
  - exists st, None. split; [reflexivity|]. split; [auto|]. split.
    + split; auto. intros _. rewrite <- (si_keys _ _ _ Hs). apply aget_None_iff; auto.
    + discriminate.
Qed.

(* ---- connected *)
Lemma connected_mono E E' a b : (forall e, In e E -> In e E') -> connected E a b -> connected E' a b.
Proof.
  intros H Hc. induction Hc.
  - apply c_refl.
  - apply c_edge; auto.
  - apply c_sym; auto.
  - eapply c_trans; eauto.
Qed.

Lemma connected_dom E l a b :
  (forall a b, In (a, b) E -> In a l /\ In b l) -> connected E a b -> a = b \/ (In a l /\ In b l).
Proof.
  intros H Hc. induction Hc.
  - auto.
  - right. auto.
  - destruct IHHc as [E1|[H1 H2]]; auto.
  - destruct IHHc1 as [E1|[H1 H2]]; destruct IHHc2 as [E2|[H3 H4]]; subst; auto.
Qed.

Lemma connected_redundant E x y a b : connected E x y -> connected (E ++ [(x, y)]) a b -> connected E a b.
Proof.
  intros Hxy Hc. induction Hc.
  - apply c_refl.
  - apply in_app_or in H. destruct H as [H|[H|[]]].
    + apply c_edge; auto.
    + inversion H; subst; auto.
  - apply c_sym; auto.
  - eapply c_trans; eauto.
Qed.

Lemma tinv_redundant R l E x y :
  tinv R l E -> connected E x y -> In x l -> In y l -> tinv R l (E ++ [(x, y)]).
Proof.
  intros [Ht He] Hxy Hx Hy. constructor.
  - intros i j Hi Hj. rewrite (Ht i j Hi Hj). split.
    + apply connected_mono. intros e He'. apply in_or_app; auto.
    + apply connected_redundant; auto.
  - intros a b Hab. apply in_app_or in Hab. destruct Hab as [Hab|[Hab|[]]]; auto.
    inversion Hab; subst; auto.
Qed.

(* ---- push *)
Lemma push_ok R l E st x : sinv R l st -> tinv R l E -> ~ In x l ->
  exists st' R', push st x = Ok (st', length l) /\ sinv R' (l ++ [x]) st' /\ tinv R' (l ++ [x]) E.
Proof.
  intros Hs Ht Hx. unfold push. rewrite (sinv_ok_cheap _ _ _ Hs). cbn [dbg bind].
  destruct st as [p rk nx val items].
  destruct Hs as [Hp Hlrk Hlnx Hval Hcyc Hkeys Hitems]. simpl in *.
  pose proof Hp as [Hlen Hlt Hrank Hroot Hpar HRroot HRlt HrkR].
  unfold uf_len; simpl. rewrite Hlen.
  set (n := length l) in *.
  set (R' := fun i => if i =? n then n else R i).
  assert (HR1 : forall i, i < n -> R' i = R i).
  { intros i Hi. unfold R'. destruct (Nat.eqb_spec i n); [lia|reflexivity]. }
  assert (HR2 : R' n = n) by (unfold R'; rewrite Nat.eqb_refl; reflexivity).
  assert (HP1 : forall i, i < n -> nth i (p ++ [n]) 0 = nth i p 0) by (intros; apply app_nth1; lia).
  assert (HP2 : nth n (p ++ [n]) 0 = n) by (rewrite nth_snoc, Hlen, Nat.ltb_irrefl, Nat.eqb_refl; reflexivity).
  assert (HK1 : forall i, i < n -> nth i (rk ++ [0]) 0 = nth i rk 0) by (intros; apply app_nth1; lia).
  assert (HK2 : nth n (rk ++ [0]) 0 = 0) by (rewrite nth_snoc, Hlrk, Nat.ltb_irrefl, Nat.eqb_refl; reflexivity).
  assert (HN1 : forall i, i < n -> nth i (nx ++ [n]) 0 = nth i nx 0) by (intros; apply app_nth1; lia).
  assert (HN2 : nth n (nx ++ [n]) 0 = n) by (rewrite nth_snoc, Hlnx, Nat.ltb_irrefl, Nat.eqb_refl; reflexivity).
  assert (HV1 : forall i, i < n -> nth i (l ++ [x]) 0 = nth i l 0) by (intros; apply app_nth1; lia).
  assert (HV2 : nth n (l ++ [x]) 0 = x) by (rewrite nth_snoc; fold n; rewrite Nat.ltb_irrefl, Nat.eqb_refl; reflexivity).
  assert (Hn1 : length (l ++ [x]) = S n) by (rewrite app_length; simpl; lia).
  assert (Hcase : forall i, i < S n -> i < n \/ i = n) by (intros; lia).
  exists (mkUf (p ++ [n]) (rk ++ [0]) (nx ++ [n]) (val ++ [x]) (aset x n items)), R'.
  split; [reflexivity|]. split.
  - constructor; simpl; rewrite ?Hn1.
    + constructor.
      * rewrite app_length; simpl; lia.
      * intros i Hi. destruct (Hcase i Hi) as [H|H]; [rewrite HP1 by auto; specialize (Hlt i H); lia|subst; rewrite HP2; lia].
      * intros i Hi. destruct (Hcase i Hi) as [H|H].
        -- rewrite HP1 by auto. rewrite !HK1 by auto. auto.
        -- subst. rewrite HP2. congruence.
      * intros i Hi. destruct (Hcase i Hi) as [H|H].
        -- rewrite HP1, HR1 by auto. auto.
        -- subst. auto.
      * intros i Hi. destruct (Hcase i Hi) as [H|H].
        -- rewrite HP1, !HR1 by auto. auto.
        -- subst. rewrite HP2. auto.
      * intros i Hi. destruct (Hcase i Hi) as [H|H].
        -- rewrite HR1, HP1 by auto. auto.
        -- subst. rewrite HR2. auto.
      * intros i Hi. destruct (Hcase i Hi) as [H|H].
        -- rewrite HR1 by auto. specialize (HRlt i H). lia.
        -- subst. rewrite HR2. lia.
      * intros i Hi. destruct (Hcase i Hi) as [H|H].
        -- rewrite HR1, !HK1 by auto. auto.
        -- subst. rewrite HR2. lia.
    + rewrite app_length; simpl; lia.
    + rewrite app_length; simpl; lia.
    + congruence.
    + intros r Hr HRr. destruct (Hcase r Hr) as [H|H].
      * rewrite HR1 in HRr by auto. destruct (Hcyc r H HRr) as [c [[Hc1 [Hc2 Hc3]] Hc4]].
        assert (Hcl : forall y, In y (r :: c) -> y < n) by (intros y Hy; apply Hc3 in Hy; tauto).
        exists c. split; [split; [|split]|].
        -- apply chain_ext with (f := fun i => nth i nx 0); auto.
        -- auto.
        -- intros i. rewrite Hc3. split.
           ++ intros [A1 A2]. split; [lia|]. rewrite HR1; auto.
           ++ intros [A1 A2]. destruct (Hcase i A1) as [H'|H'].
              ** rewrite HR1 in A2 by auto. auto.
              ** subst i. rewrite HR2 in A2. lia.
        -- rewrite HK1 by auto. auto.
      * subst r. exists []. split; [split; [|split]|].
        -- simpl. auto.
        -- constructor; [simpl; tauto|constructor].
        -- intros i. simpl. split.
           ++ intros [A|[]]. subst. split; auto.
           ++ intros [A1 A2]. destruct (Hcase i A1) as [H'|H']; auto.
              rewrite HR1 in A2 by auto. specialize (HRlt i H'). lia.
        -- rewrite HK2. simpl. lia.
    + rewrite map_fst_aset_notin; [congruence|]. apply aget_None_iff. congruence.
    + intros y c. rewrite aget_aset. destruct (Nat.eqb_spec y x) as [Eyx|Eyx].
      * intros Hc; inversion Hc; subst. split; [lia|]. exists n. repeat split; auto.
      * intros Hc. destruct (Hitems y c Hc) as [B1 [i [B2 [B3 B4]]]]. split; [lia|].
        exists i. split; [lia|]. split; [rewrite HV1; auto|]. rewrite !HR1; auto.
  - destruct Ht as [Ht He]. constructor; rewrite ?Hn1.
    + intros i j Hi Hj. destruct (Hcase i Hi) as [H|H]; destruct (Hcase j Hj) as [H'|H'].
      * rewrite !HR1, !HV1 by auto. auto.
      * subst j. rewrite (HR1 i), HR2, (HV1 i), HV2 by auto. split.
        -- intros A. specialize (HRlt i H). lia.
        -- intros A. exfalso. destruct (connected_dom _ _ _ _ He A) as [A1|[_ A2]]; auto.
           apply Hx. rewrite <- A1. apply nth_In; auto.
      * subst i. rewrite (HR1 j), HR2, (HV1 j), HV2 by auto. split.
        -- intros A. specialize (HRlt j H'). lia.
        -- intros A. exfalso. destruct (connected_dom _ _ _ _ He A) as [A1|[A2 _]]; auto.
           apply Hx. rewrite A1. apply nth_In; auto.
      * subst. split; intros; [apply c_refl|reflexivity].
    + intros a b Hab. destruct (He a b Hab). split; apply in_or_app; auto.
Qed.

(* ---- add *)
Lemma ins_in x l : In x l -> ins x l = l.
Proof. intros H. unfold ins. apply existsb_eqb_In in H. rewrite H. reflexivity. Qed.

Lemma ins_notin x l : ~ In x l -> ins x l = l ++ [x].
Proof. intros H. unfold ins. apply existsb_eqb_notIn in H. rewrite H. reflexivity. Qed.

Lemma ins_keeps x l a : In a l -> In a (ins x l).
Proof. unfold ins. destruct (existsb (Nat.eqb x) l); auto. intros; apply in_or_app; auto. Qed.

Lemma ins_nth x l i : i < length l -> nth i (ins x l) 0 = nth i l 0.
Proof. unfold ins. destruct (existsb (Nat.eqb x) l); auto. intros; apply app_nth1; auto. Qed.

Lemma ins_length x l : length l <= length (ins x l).
Proof. unfold ins. destruct (existsb (Nat.eqb x) l); auto. rewrite app_length; lia. Qed.

Lemma ins_has x l : In x (ins x l).
Proof.
  unfold ins. destruct (existsb (Nat.eqb x) l) eqn:K.
  - apply existsb_eqb_In; auto.
  - apply in_or_app; simpl; auto.
Qed.

Lemma uf_add_ok l E st x : uf_inv l E st ->
  exists st' b id, uf_add st x = Ok (st', (b, id)) /\ uf_inv (ins x l) E st' /\
     id < length (ins x l) /\ connected E (nth id (ins x l) 0) x.
Proof.
  intros [R [Hs Ht]]. unfold uf_add. rewrite (sinv_ok_cheap _ _ _ Hs). cbn [dbg bind].
  destruct (find_item_ok R l st x Hs) as [st1 [r [F1 [F2 [F3 F4]]]]].
  rewrite F1. cbn [bind]. destruct r as [c|].
  - destruct (F4 c eq_refl) as [Hc [i [Hi [Hx HR]]]].
    assert (Hin : In x l) by (subst x; apply nth_In; auto).
    rewrite (ins_in _ _ Hin).
    exists st1, false, c. split; [reflexivity|]. split; [exists R; auto|]. split; auto.
    rewrite <- Hx. apply (ti_tie _ _ _ Ht); auto. subst c.
    apply (pinv_RR _ _ _ _ _ (si_p _ _ _ F2)); auto.
  - assert (Hnin : ~ In x l) by (apply F3; auto).
    rewrite (ins_notin _ _ Hnin).
    destruct (push_ok R l E st1 x F2 Ht Hnin) as [st2 [R' [P1 [P2 P3]]]].
    rewrite P1. cbn [bind].
    exists st2, true, (length l). split; [reflexivity|]. split; [exists R'; auto|]. split.
    + rewrite app_length; simpl; lia.
    + rewrite nth_snoc, Nat.ltb_irrefl, Nat.eqb_refl. apply c_refl.
Qed.

(* ---- Elem::union *)
Lemma elem_union_ok R l st s o :
  sinv R l st -> s < length l -> o < length l -> R s = s -> R o = o -> s <> o ->
  nth o (u_rank st) 0 <= nth s (u_rank st) 0 ->
  exists st', elem_union st s o = Ok st' /\
    sinv (fun i => if R i =? o then s else R i) l st' /\ nth s (u_parent st') 0 = s.
Proof.
  intros Hs Hsn Hon HRs HRo Hso Hrk.
  destruct st as [p rk nx val items].
  destruct Hs as [Hp Hlrk Hlnx Hval Hcyc Hkeys Hitems]. simpl in *.
  pose proof Hp as [Hlen Hlt Hrank Hroot Hpar HRroot HRlt HrkR].
  set (n := length l) in *.
  assert (Hps : nth s p 0 = s) by (rewrite <- HRs at 1; rewrite HRroot; auto).
  assert (Hpo : nth o p 0 = o) by (rewrite <- HRo at 1; rewrite HRroot; auto).
  unfold elem_union; simpl.
  rewrite (nth_error_nth0 p s), (nth_error_nth0 p o) by lia. cbn [of_opt bind].
  rewrite Hps, Hpo. destruct (Nat.eqb_spec s o) as [|_]; [contradiction|]. cbn [negb dbg bind].
  rewrite (nth_error_nth0 rk s), (nth_error_nth0 rk o) by lia. cbn [of_opt bind].
  destruct (Nat.leb_spec (nth o rk 0) (nth s rk 0)) as [_|]; [|lia]. cbn [dbg bind].
  rewrite (nth_error_nth0 nx s), (nth_error_nth0 nx o) by lia. cbn [of_opt bind].
  eexists; split; [reflexivity|].
  set (R' := fun i => if R i =? o then s else R i).
  assert (HR'o : forall i, R i = o -> R' i = s).
  { intros i Hi. unfold R'. rewrite Hi, Nat.eqb_refl. reflexivity. }
  assert (HR'n : forall i, R i <> o -> R' i = R i).
  { intros i Hi. unfold R'. destruct (Nat.eqb_spec (R i) o); [contradiction|reflexivity]. }
  assert (HP' : forall i, nth i (set_nth p o s) 0 = if i =? o then s else nth i p 0).
  { intros i. apply nth_set_nth. lia. }
  assert (HK' : forall i, nth i (set_nth rk s (nth s rk 0 + 1)) 0 = if i =? s then nth s rk 0 + 1 else nth i rk 0).
  { intros i. apply nth_set_nth. lia. }
  assert (HN' : forall i, nth i (set_nth (set_nth nx s (nth o nx 0)) o (nth s nx 0)) 0 =
                if i =? o then nth s nx 0 else if i =? s then nth o nx 0 else nth i nx 0).
  { intros i. rewrite nth_set_nth by (rewrite set_nth_length; lia). rewrite nth_set_nth by lia. reflexivity. }
  assert (HKle : forall i, nth i rk 0 <= nth i (set_nth rk s (nth s rk 0 + 1)) 0).
  { intros i. rewrite HK'. destruct (Nat.eqb_spec i s); subst; lia. }
  split; [|simpl; rewrite HP'; destruct (Nat.eqb_spec s o); [contradiction|auto]].
  constructor; simpl; fold n.
  - constructor.
    + rewrite set_nth_length; auto.
    + intros i Hi. rewrite HP'. destruct (Nat.eqb_spec i o); auto.
    + intros i Hi. rewrite HP'. destruct (Nat.eqb_spec i o) as [Eo|Eo].
      * subst i. intros _. rewrite !HK'. rewrite Nat.eqb_refl.
        destruct (Nat.eqb_spec o s); [congruence|]. lia.
      * intros Hne. specialize (Hrank i Hi Hne). rewrite (HK' i).
        destruct (Nat.eqb_spec i s) as [Es|Es]; [subst i; contradiction|].
        pose proof (HKle (nth i p 0)). lia.
    + intros i Hi. rewrite HP'. destruct (Nat.eqb_spec i o) as [Eo|Eo].
      * intros; subst; congruence.
      * intros Hpi. pose proof (Hroot i Hi Hpi) as HRi. rewrite HR'n; congruence.
    + intros i Hi. rewrite HP'. destruct (Nat.eqb_spec i o) as [Eo|Eo].
      * subst i. rewrite (HR'o o), (HR'n s) by congruence. auto.
      * unfold R'. rewrite Hpar; auto.
    + intros i Hi. rewrite HP'. destruct (Nat.eqb_spec (R i) o) as [Eo|Eo].
      * rewrite (HR'o i Eo). destruct (Nat.eqb_spec s o); [contradiction|]. auto.
      * rewrite (HR'n i Eo). destruct (Nat.eqb_spec (R i) o); [contradiction|]. auto.
    + intros i Hi. unfold R'. destruct (Nat.eqb_spec (R i) o); auto.
    + intros i Hi. destruct (Nat.eqb_spec (R i) o) as [Eo|Eo].
      * rewrite (HR'o i Eo). rewrite !HK'. rewrite Nat.eqb_refl.
        destruct (Nat.eqb_spec i s) as [Es|Es]; [subst i; congruence|].
        pose proof (HrkR i Hi) as A. rewrite Eo in A. lia.
      * rewrite (HR'n i Eo). rewrite (HK' i). destruct (Nat.eqb_spec i s) as [Es|Es].
        -- subst i. rewrite HRs. rewrite HK', Nat.eqb_refl. lia.
        -- pose proof (HrkR i Hi). pose proof (HKle (R i)). lia.
  - rewrite set_nth_length; auto.
  - rewrite !set_nth_length; auto.
  - auto.
  - (* the circular lists *)
    intros r Hr HRr.
    destruct (Hcyc s Hsn HRs) as [A [[HA1 [HA2 HA3]] HA4]].
    destruct (Hcyc o Hon HRo) as [B [[HB1 [HB2 HB3]] HB4]].
    destruct (Nat.eq_dec r s) as [Ers|Ers].
    + subst r. exists (B ++ o :: A).
      assert (HAs : forall y, In y A -> R y = s /\ y <> s /\ y <> o).
      { intros y Hy. assert (Hy' : In y (s :: A)) by (right; auto). apply HA3 in Hy'.
        inversion HA2; subst. split; [tauto|]. split; [intros ->; contradiction|intros ->; destruct Hy'; congruence]. }
      assert (HBs : forall y, In y B -> R y = o /\ y <> s /\ y <> o).
      { intros y Hy. assert (Hy' : In y (o :: B)) by (right; auto). apply HB3 in Hy'.
        inversion HB2; subst. split; [tauto|]. split; [intros ->; destruct Hy'; congruence|intros ->; contradiction]. }
      split; [split; [|split]|].
      * apply chain_app. split.
        -- apply chain_head with (f := fun i => nth i nx 0) (a := o); auto.
           ++ rewrite HN'. destruct (Nat.eqb_spec s o); [contradiction|]. rewrite Nat.eqb_refl. auto.
           ++ intros y Hy. destruct (HBs y Hy) as [_ [B1 B2]]. rewrite HN'.
              destruct (Nat.eqb_spec y o); [contradiction|]. destruct (Nat.eqb_spec y s); [contradiction|]. auto.
        -- apply chain_head with (f := fun i => nth i nx 0) (a := s); auto.
           ++ rewrite HN'. rewrite Nat.eqb_refl. auto.
           ++ intros y Hy. destruct (HAs y Hy) as [_ [B1 B2]]. rewrite HN'.
              destruct (Nat.eqb_spec y o); [contradiction|]. destruct (Nat.eqb_spec y s); [contradiction|]. auto.
      * inversion HA2; subst. inversion HB2; subst. constructor.
        -- rewrite in_app_iff. simpl. intros [C|[C|C]].
           ++ apply HBs in C. destruct C as [_ [C _]]; auto.
           ++ auto.
           ++ contradiction.
        -- apply NoDup_app_intro; auto.
           ++ constructor; auto. intros C. apply HAs in C. destruct C as [_ [_ C]]; auto.
           ++ intros y Hy [C|C].
              ** apply HBs in Hy. destruct Hy as [_ [_ Hy]]; auto.
              ** apply HBs in Hy. apply HAs in C. destruct Hy, C. congruence.
      * intros i. split.
        -- intros Hi. assert (Hi' : In i (s :: A) \/ In i (o :: B)).
           { simpl in Hi. rewrite in_app_iff in Hi. simpl in Hi. simpl. tauto. }
           destruct Hi' as [Hi'|Hi'].
           ++ apply HA3 in Hi'. destruct Hi' as [C1 C2]. split; auto. rewrite HR'n; congruence.
           ++ apply HB3 in Hi'. destruct Hi' as [C1 C2]. split; auto.
        -- intros [C1 C2]. destruct (Nat.eqb_spec (R i) o) as [Eo|Eo].
           ++ assert (Hi' : In i (o :: B)) by (apply HB3; auto).
              simpl. rewrite in_app_iff. simpl. simpl in Hi'. tauto.
           ++ rewrite (HR'n i Eo) in C2. assert (Hi' : In i (s :: A)) by (apply HA3; auto).
              simpl. rewrite in_app_iff. simpl. simpl in Hi'. tauto.
      * rewrite HK', Nat.eqb_refl. simpl. rewrite app_length. simpl. simpl in HA4. lia.
    + assert (HRr' : R r = r).
      { destruct (Nat.eqb_spec (R r) o) as [Eo|Eo]; [rewrite (HR'o r Eo) in HRr; congruence|].
        rewrite (HR'n r Eo) in HRr. auto. }
      assert (Hro : r <> o).
      { intros ->. rewrite (HR'o o HRo) in HRr. congruence. }
      destruct (Hcyc r Hr HRr') as [c [[Hc1 [Hc2 Hc3]] Hc4]].
      exists c. split; [split; [|split]|]; auto.
      * apply chain_ext with (f := fun i => nth i nx 0); auto.
        intros y Hy. apply Hc3 in Hy. destruct Hy as [_ Hy]. rewrite HN'.
        destruct (Nat.eqb_spec y o); [congruence|]. destruct (Nat.eqb_spec y s); [congruence|]. auto.
      * intros i. rewrite Hc3. split; intros [C1 C2]; split; auto.
        -- rewrite HR'n; congruence.
        -- destruct (Nat.eqb_spec (R i) o) as [Eo|Eo]; [rewrite (HR'o i Eo) in C2; congruence|].
           rewrite (HR'n i Eo) in C2. auto.
      * rewrite HK'. destruct (Nat.eqb_spec r s); [contradiction|]. auto.
  - auto.
  - intros x c Hc. destruct (Hitems x c Hc) as [C1 [i [C2 [C3 C4]]]]. split; auto.
    exists i. repeat split; auto. unfold R'. rewrite C4. reflexivity.
Qed.

(* ---- union_by_rank *)
Definition merged (R R' : nat -> nat) (n a b : nat) : Prop :=
  forall i j, i < n -> j < n ->
    (R' i = R' j <-> (R i = R j \/ ((R i = a \/ R i = b) /\ (R j = a \/ R j = b)))).

Lemma merged_intro R n s o : s <> o ->
  merged R (fun i => if R i =? o then s else R i) n s o /\
  merged R (fun i => if R i =? o then s else R i) n o s.
Proof.
  intros Hso. split; intros i j Hi Hj;
  destruct (Nat.eqb_spec (R i) o); destruct (Nat.eqb_spec (R j) o); split; intros H; try lia.
Qed.

Lemma union_by_rank_ok R l st a b :
  sinv R l st -> a < length l -> b < length l -> R a = a -> R b = b -> a <> b ->
  exists st' r R', union_by_rank st a b = Ok (st', r) /\
    ((r = a /\ r <> b) \/ (r = b /\ r <> a)) /\ sinv R' l st' /\ merged R R' (length l) a b.
Proof.
  intros Hs Ha Hb HRa HRb Hab.
  pose proof (si_p _ _ _ Hs) as Hp.
  assert (Hpa : nth a (u_parent st) 0 = a) by (rewrite <- HRa at 1; rewrite (pi_Rroot _ _ _ _ Hp); auto).
  assert (Hpb : nth b (u_parent st) 0 = b) by (rewrite <- HRb at 1; rewrite (pi_Rroot _ _ _ _ Hp); auto).
  pose proof (pi_len _ _ _ _ Hp) as Hlen. pose proof (si_lrk _ _ _ Hs) as Hlrk.
  unfold union_by_rank.
  rewrite (nth_error_nth0 (u_parent st) a), (nth_error_nth0 (u_parent st) b) by lia. cbn [of_opt bind].
  rewrite Hpa, Hpb. destruct (Nat.eqb_spec a b) as [|_]; [contradiction|]. cbn [negb dbg bind].
  rewrite (nth_error_nth0 (u_rank st) a), (nth_error_nth0 (u_rank st) b) by lia. cbn [of_opt bind].
  destruct (Nat.leb_spec (nth b (u_rank st) 0) (nth a (u_rank st) 0)) as [Hle|Hlt].
  - destruct (elem_union_ok R l st a b Hs Ha Hb HRa HRb Hab Hle) as [st' [U1 [U2 U3]]].
    rewrite U1. cbn [bind].
    pose proof (pi_len _ _ _ _ (si_p _ _ _ U2)) as Hlen'.
    rewrite (nth_error_nth0 (u_parent st') a) by lia. cbn [of_opt bind]. rewrite U3.
    eexists; eexists; eexists. split; [reflexivity|]. split; [left; auto|]. split; [exact U2|].
    apply merged_intro; auto.
  - assert (Hle : nth a (u_rank st) 0 <= nth b (u_rank st) 0) by lia.
    assert (Hba : b <> a) by auto.
    destruct (elem_union_ok R l st b a Hs Hb Ha HRb HRa Hba Hle) as [st' [U1 [U2 U3]]].
    rewrite U1. cbn [bind].
    pose proof (pi_len _ _ _ _ (si_p _ _ _ U2)) as Hlen'.
    rewrite (nth_error_nth0 (u_parent st') b) by lia. cbn [of_opt bind]. rewrite U3.
    eexists; eexists; eexists. split; [reflexivity|]. split; [right; auto|]. split; [exact U2|].
    apply merged_intro; auto.
Qed.

(* ---- the reference tie across a union *)
Lemma tinv_union R R' l E xi yi x y :
  tinv R l E -> merged R R' (length l) (R xi) (R yi) ->
  xi < length l -> yi < length l ->
  connected E (nth xi l 0) x -> connected E (nth yi l 0) y -> In x l -> In y l ->
  tinv R' l (E ++ [(x, y)]).
Proof.
  intros [Ht He] Hm Hxi Hyi Hcx Hcy Hx Hy.
  assert (Hmono : forall a b, connected E a b -> connected (E ++ [(x, y)]) a b).
  { intros a b. apply connected_mono. intros e He'. apply in_or_app; auto. }
  assert (Hxy : connected (E ++ [(x, y)]) x y).
  { apply c_edge. apply in_or_app. right. simpl. auto. }
  assert (He' : forall a b, In (a, b) (E ++ [(x, y)]) -> In a l /\ In b l).
  { intros a b Hab. apply in_app_or in Hab. destruct Hab as [Hab|[Hab|[]]]; auto.
    inversion Hab; subst; auto. }
  constructor; auto.
  intros i j Hi Hj. split.
  - intros HR. apply (Hm i j Hi Hj) in HR. destruct HR as [HR|[Hi' Hj']].
    + apply Hmono. apply Ht; auto.
    + assert (Hside : forall k, k < length l -> R k = R xi \/ R k = R yi ->
                connected (E ++ [(x, y)]) (nth k l 0) x).
      { intros k Hk [Hk'|Hk'].
        - apply Hmono. eapply c_trans; [|exact Hcx]. apply Ht; auto.
        - eapply c_trans; [|apply c_sym; exact Hxy]. apply Hmono.
          eapply c_trans; [|exact Hcy]. apply Ht; auto. }
      eapply c_trans; [apply Hside; auto|]. apply c_sym. apply Hside; auto.
  - intros Hc.
    assert (Hgen : forall a b, connected (E ++ [(x, y)]) a b ->
              forall i j, i < length l -> j < length l -> nth i l 0 = a -> nth j l 0 = b -> R' i = R' j).
    { clear i j Hi Hj Hc. intros a b Hc. induction Hc as [a|a b Hab|a b Hc IH|a b c Hc1 IH1 Hc2 IH2]; intros i j Hi Hj Hia Hjb.
      - apply (Hm i j Hi Hj). left. apply Ht; auto. rewrite Hia, Hjb. apply c_refl.
      - apply in_app_or in Hab. destruct Hab as [Hab|[Hab|[]]].
        + apply (Hm i j Hi Hj). left. apply Ht; auto. rewrite Hia, Hjb. apply c_edge; auto.
        + injection Hab as Ea Eb. rewrite <- Ea in Hia. rewrite <- Eb in Hjb.
          apply (Hm i j Hi Hj). right. split.
          * left. apply Ht; auto. rewrite Hia. apply c_sym; auto.
          * right. apply Ht; auto. rewrite Hjb. apply c_sym; auto.
      - symmetry. apply IH; auto.
      - destruct (connected_dom _ _ _ _ He' Hc1) as [Eab|[_ Hbl]].
        + subst b. apply IH2; auto.
        + destruct (In_nth _ _ 0 Hbl) as [k [Hk Hkb]].
          rewrite (IH1 i k Hi Hk Hia Hkb). apply IH2; auto. }
    apply (Hgen _ _ Hc i j); auto.
Qed.

(* ---- union *)
Lemma uf_union_ok l E st xi yi x y : uf_inv l E st -> xi < length l -> yi < length l ->
  connected E (nth xi l 0) x -> connected E (nth yi l 0) y -> In x l -> In y l ->
  exists st' r, uf_union st xi yi = Ok (st', r) /\ uf_inv l (E ++ [(x, y)]) st'.
Proof.
  intros [R [Hs Ht]] Hxi Hyi Hcx Hcy Hx Hy.
  pose proof (pi_len _ _ _ _ (si_p _ _ _ Hs)) as Hlen.
  unfold uf_union, uf_len. rewrite Hlen.
  destruct (Nat.ltb_spec xi (length l)) as [_|]; [|lia].
  destruct (Nat.ltb_spec yi (length l)) as [_|]; [|lia]. cbn [andb negb].
  destruct (Nat.eqb_spec xi yi) as [Exy|Exy].
  - subst yi. destruct (elems_find_ok R l st xi Hs Hxi) as [st1 [F1 F2]].
    exists st1, (R xi). split; auto. exists R. split; auto.
    apply tinv_redundant; auto. eapply c_trans; [apply c_sym; exact Hcx|exact Hcy].
  - destruct (elems_find_ok R l st xi Hs Hxi) as [st1 [F1 F2]]. rewrite F1. cbn [bind].
    destruct (elems_find_ok R l st1 yi F2 Hyi) as [st2 [G1 G2]]. rewrite G1. cbn [bind].
    pose proof (si_p _ _ _ G2) as Hp2.
    destruct (Nat.eqb_spec (R xi) (R yi)) as [ER|ER].
    + exists st2, (R xi). split; auto. exists R. split; auto.
      apply tinv_redundant; auto.
      eapply c_trans; [apply c_sym; exact Hcx|]. eapply c_trans; [|exact Hcy].
      apply (ti_tie _ _ _ Ht); auto.
    + destruct (union_by_rank_ok R l st2 (R xi) (R yi) G2) as [st3 [r [R' [U1 [U2 [U3 U4]]]]]]; auto.
      * apply (pi_Rlt _ _ _ _ Hp2); auto.
      * apply (pi_Rlt _ _ _ _ Hp2); auto.
      * apply (pinv_RR _ _ _ _ _ Hp2); auto.
      * apply (pinv_RR _ _ _ _ _ Hp2); auto.
      * rewrite U1. cbn [bind].
        assert (Hinv : uf_inv l (E ++ [(x, y)]) st3).
        { exists R'. split; auto. eapply tinv_union; eauto. }
        destruct U2 as [[U2 U2']|[U2 U2']]; subst r.
        -- rewrite Nat.eqb_refl. eauto.
        -- destruct (Nat.eqb_spec (R yi) (R xi)); [congruence|]. rewrite Nat.eqb_refl. cbn [dbg bind]. eauto.
Qed.

(* ---- union_add *)
Lemma uf_union_add_ok l E st x y : uf_inv l E st ->
  exists st' r, uf_union_add st x y = Ok (st', r) /\ uf_inv (ins y (ins x l)) (E ++ [(x, y)]) st'.
Proof.
  intros Hinv. unfold uf_union_add.
  destruct (uf_add_ok l E st x Hinv) as [st1 [b1 [xi [A1 [A2 [A3 A4]]]]]].
  rewrite A1. cbn [bind].
  destruct (uf_add_ok (ins x l) E st1 y A2) as [st2 [b2 [yi [B1 [B2 [B3 B4]]]]]].
  rewrite B1. cbn [bind].
  apply uf_union_ok; auto.
  - pose proof (ins_length y (ins x l)). lia.
  - rewrite ins_nth; auto.
  - apply ins_keeps. apply ins_has.
  - apply ins_has.
Qed.

(* ---- one operation *)
Lemma uf_step_inv : forall st o l E, uf_inv l E st ->
  exists st' out, uf_step st o = Ok (st', out) /\ uf_inv (added l [o]) (E ++ upairs l [o]) st'.
Proof.
  intros st o l E Hinv. destruct o as [x|x|x y|x|x y]; simpl.
  - destruct (uf_add_ok l E st x Hinv) as [st1 [b1 [xi [A1 [A2 _]]]]].
    rewrite A1. cbn [bind]. rewrite app_nil_r. eauto.
  - destruct Hinv as [R [Hs Ht]].
    destruct (find_item_ok R l st x Hs) as [st1 [r [F1 [F2 _]]]].
    rewrite F1. cbn [bind]. rewrite app_nil_r. eexists; eexists; split; [reflexivity|]. exists R; auto.
  - destruct (uf_union_add_ok l E st x y Hinv) as [st1 [r [A1 A2]]].
    rewrite A1. cbn [bind]. eauto.
  - rewrite app_nil_r. pose proof Hinv as [R [Hs Ht]]. rewrite (si_val _ _ _ Hs).
    destruct (index_of x l) as [i|] eqn:K; [|eauto].
    apply index_of_Some in K. destruct K as [K1 K2].
    unfold uf_find, uf_len. rewrite (pi_len _ _ _ _ (si_p _ _ _ Hs)).
    destruct (Nat.ltb_spec i (length l)) as [_|]; [|lia].
    destruct (elems_find_ok R l st i Hs K1) as [st1 [F1 F2]]. rewrite F1. cbn [bind].
    eexists; eexists; split; [reflexivity|]. exists R; auto.
  - pose proof Hinv as [R [Hs Ht]]. rewrite (si_val _ _ _ Hs).
    rewrite (index_of_existsb x l), (index_of_existsb y l).
    destruct (index_of x l) as [i|] eqn:Kx; [|simpl; rewrite app_nil_r; eauto].
    destruct (index_of y l) as [j|] eqn:Ky; [|simpl; rewrite app_nil_r; eauto].
    simpl. apply index_of_Some in Kx. apply index_of_Some in Ky.
    destruct Kx as [Kx1 Kx2]. destruct Ky as [Ky1 Ky2].
    destruct (uf_union_ok l E st i j x y Hinv Kx1 Ky1) as [st1 [r [U1 U2]]].
    + rewrite Kx2. apply c_refl.
    + rewrite Ky2. apply c_refl.
    + subst x. apply nth_In; auto.
    + subst y. apply nth_In; auto.
    + rewrite U1. cbn [bind]. eauto.
Qed.

Lemma added_cons l o r : added l (o :: r) = added (added l [o]) r.
Proof. destruct o; reflexivity. Qed.

Lemma upairs_cons l o r : upairs l (o :: r) = upairs l [o] ++ upairs (added l [o]) r.
Proof.
  destruct o as [x|x|x y|x|x y]; simpl; auto.
  destruct (existsb (Nat.eqb x) l && existsb (Nat.eqb y) l); reflexivity.
Qed.

Lemma uf_run_inv : forall ops st l E, uf_inv l E st ->
  exists st', uf_run st ops = Ok st' /\ uf_inv (added l ops) (E ++ upairs l ops) st'.
Proof.
  induction ops as [|o r IH]; intros st l E Hinv.
  - simpl. rewrite app_nil_r. eauto.
  - destruct (uf_step_inv st o l E Hinv) as [st1 [out [S1 S2]]].
    destruct (IH st1 _ _ S2) as [st2 [R1 R2]].
    exists st2. split.
    + cbn [uf_run]. rewrite S1. cbn [bind]. exact R1.
    + rewrite added_cons, upairs_cons, app_assoc. exact R2.
Qed.

Lemma uf_run_reach ops st : uf_run uf_empty ops = Ok st -> uf_inv (added [] ops) (upairs [] ops) st.
Proof.
  intros H. destruct (uf_run_inv ops uf_empty [] [] uf_inv_empty) as [st' [H1 H2]].
  rewrite H in H1. inversion H1; subst. exact H2.
Qed.

(* ---- main theorems 1-3 *)
Theorem uf_run_total : forall ops, exists st, uf_run uf_empty ops = Ok st.
Proof.
  intros ops. destruct (uf_run_inv ops uf_empty [] [] uf_inv_empty) as [st' [H1 _]]. eauto.
Qed.

Theorem uf_run_values : forall ops st, uf_run uf_empty ops = Ok st -> u_value st = added [] ops.
Proof.
  intros ops st H. destruct (uf_run_reach ops st H) as [R [Hs _]]. apply (si_val _ _ _ Hs).
Qed.

Theorem uf_find_item_spec : forall ops st, uf_run uf_empty ops = Ok st -> forall x y,
  exists st1 rx st2 ry,
    find_item st x = Ok (st1, rx) /\ find_item st1 y = Ok (st2, ry) /\
    (rx = None <-> ~ In x (added [] ops)) /\ (ry = None <-> ~ In y (added [] ops)) /\
    (In x (added [] ops) -> In y (added [] ops) -> (rx = ry <-> connected (upairs [] ops) x y)).
Proof.
  intros ops st H x y. destruct (uf_run_reach ops st H) as [R [Hs Ht]].
  destruct (find_item_ok R _ st x Hs) as [st1 [rx [F1 [F2 [F3 F4]]]]].
  destruct (find_item_ok R _ st1 y F2) as [st2 [ry [G1 [G2 [G3 G4]]]]].
  exists st1, rx, st2, ry. repeat (split; [assumption|]).
  intros Hx Hy. destruct rx as [cx|]; [|exfalso; apply F3; auto].
  destruct ry as [cy|]; [|exfalso; apply G3; auto].
  destruct (F4 cx eq_refl) as [_ [i [Hi [Hxi Hci]]]].
  destruct (G4 cy eq_refl) as [_ [j [Hj [Hyj Hcj]]]].
  subst cx cy. rewrite <- Hxi, <- Hyj. rewrite <- (ti_tie _ _ _ Ht i j Hi Hj).
  split; [intros A; inversion A; auto|intros A; rewrite A; auto].
Qed.

(* ---- the structure's own consistency check (Elems::ok / UnionFind::ok) *)
Lemma ok_walk_ok R rk n p : pinv R rk n p -> length rk = n ->
  forall fuel prev id, id < n -> nth (R id) rk 0 < fuel + nth id rk 0 ->
  (forall x, In x prev -> nth x rk 0 < nth id rk 0) ->
  ok_walk fuel p rk prev id = Ok (Some (R id)).
Proof.
  intros Hp Hlrk. pose proof Hp as [Hlen Hlt Hrank Hroot Hpar HRroot HRlt HrkR].
  induction fuel as [|f IH]; intros prev id Hid Hf Hprev.
  - exfalso. pose proof (HrkR id Hid). lia.
  - simpl. rewrite nth_error_nth0 by lia. cbn [of_opt bind].
    destruct (Nat.eqb_spec (nth id p 0) id) as [E|E].
    + rewrite (Hroot id Hid E). reflexivity.
    + destruct (smem id prev) eqn:K.
      * apply smem_In in K. apply Hprev in K. lia.
      * pose proof (Hlt id Hid) as Hpid. pose proof (Hrank id Hid E) as Hr.
        rewrite (nth_error_nth0 rk id), (nth_error_nth0 rk (nth id p 0)) by lia. cbn [of_opt bind].
        destruct (Nat.ltb_spec (nth (nth id p 0) rk 0) (nth id rk 0)) as [|_]; [lia|].
        rewrite <- (Hpar id Hid). apply IH; auto.
        -- rewrite (Hpar id Hid). lia.
        -- intros x [Hx|Hx]; [subst; auto|]. specialize (Hprev x Hx). lia.
Qed.

Lemma ok_class_ok R rk nx n r : cinv R rk nx n -> length nx = n -> r < n ->
  forall c2 fuel p cur d, pinv R rk n p -> cur < n -> chain (fun i => nth i nx 0) cur c2 r ->
  (forall x, In x c2 -> x < n /\ R x = r /\ x <> r) -> d + length c2 < n -> length c2 < fuel ->
  exists p', ok_class fuel p nx n r cur d = Ok (p', true) /\ pinv R rk n p'.
Proof.
  intros Hc Hlnx Hr.
  induction c2 as [|x c2 IH]; intros fuel p cur d Hp Hcur Hch Hin Hd Hfuel;
    (destruct fuel as [|f]; [simpl in Hfuel; lia|]); simpl in Hch.
  - simpl. rewrite nth_error_nth0 by lia. cbn [of_opt bind]. rewrite Hch, Nat.eqb_refl. eauto.
  - destruct Hch as [Hch1 Hch2].
    destruct (Hin x (or_introl eq_refl)) as [Hx1 [Hx2 Hx3]].
    simpl. rewrite nth_error_nth0 by lia. cbn [of_opt bind]. rewrite Hch1.
    destruct (Nat.eqb_spec x r) as [|_]; [contradiction|].
    rewrite nth_error_nth0 by lia. cbn [of_opt bind].
    rewrite (pi_len _ _ _ _ Hp).
    destruct (find_fuel_ok R rk n n p x Hp Hx1) as [p1 [F1 F2]].
    + pose proof (rank_lt _ _ _ _ _ (R x) Hp Hc (pi_Rlt _ _ _ _ Hp x Hx1)). lia.
    + rewrite F1. cbn [bind]. rewrite Hx2, Nat.eqb_refl. cbn [negb].
      simpl in Hd. destruct (Nat.eqb_spec d n) as [|_]; [lia|].
      apply IH; auto.
      * intros y Hy. apply Hin. right. auto.
      * lia.
      * simpl in Hfuel. lia.
Qed.

Lemma ok_elem_ok R rk nx n p id : cinv R rk nx n -> length rk = n -> length nx = n ->
  pinv R rk n p -> id < n ->
  exists p', ok_elem p rk nx id = Ok (p', true) /\ pinv R rk n p'.
Proof.
  intros Hc Hlrk Hlnx Hp Hid.
  pose proof Hp as [Hlen Hlt Hrank Hroot Hpar HRroot HRlt HrkR].
  pose proof (HRlt id Hid) as Hr.
  destruct (Hc (R id) Hr (pinv_RR _ _ _ _ _ Hp Hid)) as [c [Hcy Hcl]].
  pose proof (iscyc_length _ _ _ _ _ Hcy) as Hcn.
  destruct Hcy as [Hc1 [Hc2 Hc3]].
  assert (Hnx : nth id nx 0 < n).
  { assert (A : In id (R id :: c)) by (apply Hc3; auto).
    apply (cycle_next_in _ _ _ _ Hc1) in A. apply Hc3 in A. tauto. }
  unfold ok_elem. rewrite Hlen.
  rewrite (nth_error_nth0 nx id), (nth_error_nth0 p id), (nth_error_nth0 rk id) by lia. cbn [of_opt bind].
  destruct (Nat.ltb_spec (nth id nx 0) n) as [_|]; [|lia]. cbn [negb].
  destruct (Nat.ltb_spec (nth id p 0) n) as [_|A]; [|specialize (Hlt id Hid); lia]. cbn [negb].
  pose proof (rank_lt _ _ _ _ _ id Hp Hc Hid) as Hrk1.
  pose proof (rank_lt _ _ _ _ _ (R id) Hp Hc Hr) as Hrk2.
  destruct (Nat.ltb_spec n (nth id rk 0)) as [|_]; [lia|].
  rewrite (ok_walk_ok R rk n p Hp Hlrk (S n) [] id Hid); [|lia|intros x []]. cbn [bind].
  pose proof (proj1 (NoDup_cons_iff _ _) Hc2) as [Hnd1 Hnd2].
  apply (ok_class_ok R rk nx n (R id) Hc Hlnx Hr c); auto; try (simpl in Hcn; lia).
  intros x Hx. assert (A : In x (R id :: c)) by (right; auto). apply Hc3 in A.
    destruct A. repeat split; auto. intros ->. contradiction.
Qed.

Lemma ok_elems_ok R rk nx n : cinv R rk nx n -> length rk = n -> length nx = n ->
  forall ids p, pinv R rk n p -> (forall i, In i ids -> i < n) ->
  exists p', ok_elems p rk nx ids = Ok (p', true) /\ pinv R rk n p'.
Proof.
  intros Hc Hlrk Hlnx. induction ids as [|id rest IH]; intros p Hp Hids.
  - simpl. eauto.
  - destruct (ok_elem_ok R rk nx n p id Hc Hlrk Hlnx Hp) as [p1 [E1 E2]].
    + apply Hids. left; auto.
    + cbn [ok_elems]. rewrite E1. cbn [bind]. apply IH; auto. intros i Hi. apply Hids. right; auto.
Qed.

Lemma class_count_ok nx n r : length nx = n ->
  forall c2 fuel cur, cur < n -> chain (fun i => nth i nx 0) cur c2 r ->
  (forall x, In x c2 -> x < n /\ x <> r) -> length c2 < fuel ->
  class_count fuel nx r cur = Ok (length c2).
Proof.
  intros Hlnx. induction c2 as [|x c2 IH]; intros fuel cur Hcur Hch Hin Hfuel;
    (destruct fuel as [|f]; [simpl in Hfuel; lia|]); simpl in Hch.
  - simpl. rewrite nth_error_nth0 by lia. cbn [of_opt bind]. rewrite Hch, Nat.eqb_refl. reflexivity.
  - destruct Hch as [Hch1 Hch2]. destruct (Hin x (or_introl eq_refl)) as [Hx1 Hx2].
    simpl. rewrite nth_error_nth0 by lia. cbn [of_opt bind]. rewrite Hch1.
    destruct (Nat.eqb_spec x r) as [|_]; [contradiction|].
    rewrite nth_error_nth0 by lia. cbn [of_opt bind].
    rewrite (IH f x); auto.
    + intros y Hy. apply Hin. right; auto.
    + simpl in Hfuel. lia.
Qed.

(* the classes already counted: each root in [seen] with its full circular list *)
Definition counted (R : nat -> nat) (nx : list nat) (n : nat) (seen : list nat) (cs : list (list nat)) : Prop :=
  Forall2 (fun r full => exists c, full = r :: c /\ r < n /\ iscyc R nx n r c) seen cs.

Lemma counted_in R nx n seen cs : counted R nx n seen cs ->
  forall i, In i (concat cs) <-> (i < n /\ In (R i) seen).
Proof.
  intros H. induction H as [|r full seen cs [c [Hf [Hr [H1 [H2 H3]]]]] Hrest IH]; intros i; simpl.
  - tauto.
  - rewrite in_app_iff, IH. subst full. rewrite H3. split.
    + intros [[A B]|[A B]]; auto.
    + intros [A [B|B]]; auto.
Qed.

Lemma counted_NoDup R nx n seen cs : counted R nx n seen cs -> NoDup seen -> NoDup (concat cs).
Proof.
  intros H. induction H as [|r full seen cs [c [Hf [Hr [H1 [H2 H3]]]]] Hrest IH]; intros Hnd; simpl.
  - constructor.
  - inversion Hnd; subst. apply NoDup_app_intro; auto.
    intros x Hx Hx'. apply H3 in Hx. apply (counted_in _ _ _ _ _ Hrest) in Hx'.
    destruct Hx as [_ Hx]. destruct Hx' as [_ Hx']. rewrite Hx in Hx'. contradiction.
Qed.

Lemma ok_classes_ok R rk nx n : cinv R rk nx n -> length nx = n ->
  forall ids p seen acc cs, pinv R rk n p -> (forall i, In i ids -> i < n) ->
  counted R nx n seen cs -> NoDup seen -> acc = length (concat cs) ->
  exists p' seen' cs', ok_classes p nx seen ids acc = Ok (p', length (concat cs')) /\
    counted R nx n seen' cs' /\ NoDup seen' /\
    (forall r, In r seen -> In r seen') /\ (forall i, In i ids -> In (R i) seen').
Proof.
  intros Hc Hlnx. induction ids as [|id rest IH]; intros p seen acc cs Hp Hids Hcnt Hnd Hacc.
  - simpl. subst acc. exists p, seen, cs. repeat split; auto. intros i [].
  - assert (Hid : id < n) by (apply Hids; left; auto).
    assert (Hrest : forall i, In i rest -> i < n) by (intros i Hi; apply Hids; right; auto).
    pose proof Hp as [Hlen Hlt Hrank Hroot Hpar HRroot HRlt HrkR].
    cbn [ok_classes]. rewrite nth_error_nth0 by lia. cbn [of_opt bind]. rewrite Hlen.
    pose proof (Hlt id Hid) as Hpid.
    destruct (find_fuel_ok R rk n n p (nth id p 0) Hp Hpid) as [p1 [F1 F2]].
    + pose proof (rank_lt _ _ _ _ _ (R (nth id p 0)) Hp Hc (HRlt _ Hpid)). lia.
    + rewrite F1. cbn [bind]. rewrite (Hpar id Hid).
      destruct (smem (R id) seen) eqn:K.
      * apply smem_In in K.
        destruct (IH p1 seen acc cs F2 Hrest Hcnt Hnd Hacc) as [p' [seen' [cs' [I1 [I2 [I3 [I4 I5]]]]]]].
        exists p', seen', cs'. repeat split; auto.
        intros i [Hi|Hi]; [subst; auto|auto].
      * apply smem_notIn in K.
        pose proof (HRlt id Hid) as Hr.
        destruct (Hc (R id) Hr (pinv_RR _ _ _ _ _ Hp Hid)) as [c [Hcy Hcl]].
        pose proof (iscyc_length _ _ _ _ _ Hcy) as Hcn.
        pose proof Hcy as [Hc1 [Hc2 Hc3]].
        rewrite (class_count_ok nx n (R id) Hlnx c (S n) (R id)); auto; try (simpl in Hcn; lia).
        -- cbn [bind].
           destruct (IH p1 (R id :: seen) (acc + 1 + length c) ((R id :: c) :: cs) F2 Hrest)
             as [p' [seen' [cs' [I1 [I2 [I3 [I4 I5]]]]]]].
           ++ constructor; auto. exists c. auto.
           ++ constructor; auto.
           ++ simpl. rewrite app_length. lia.
           ++ exists p', seen', cs'. repeat split; auto.
              ** intros r Hr'. apply I4. right; auto.
              ** intros i [Hi|Hi]; [subst; apply I4; left; auto|auto].
        -- pose proof (proj1 (NoDup_cons_iff _ _) Hc2) as [Hnd1 Hnd2]. intros x Hx. assert (A : In x (R id :: c)) by (right; auto).
           apply Hc3 in A. split; [tauto|]. intros ->. contradiction.
Qed.

Lemma elems_ok_true R l st : sinv R l st -> elems_ok st = Ok true.
Proof.
  intros Hs. pose proof Hs as [Hp Hlrk Hlnx Hval Hcyc Hkeys Hitems].
  unfold elems_ok, uf_len. rewrite (pi_len _ _ _ _ Hp).
  set (n := length l) in *.
  assert (Hids : forall i, In i (seq 0 n) -> i < n) by (intros i Hi; apply in_seq in Hi; lia).
  destruct (ok_elems_ok R (u_rank st) (u_next st) n Hcyc Hlrk Hlnx (seq 0 n) (u_parent st) Hp Hids) as [p1 [E1 E2]].
  rewrite E1. cbn [bind negb].
  destruct (ok_classes_ok R (u_rank st) (u_next st) n Hcyc Hlnx (seq 0 n) p1 [] 0 [] E2 Hids)
    as [p' [seen' [cs' [I1 [I2 [I3 [I4 I5]]]]]]].
  - constructor.
  - constructor.
  - reflexivity.
  - rewrite I1. cbn [bind].
    assert (Hn : length (concat cs') = n).
    { apply NoDup_all_length.
      - eapply counted_NoDup; eauto.
      - intros x. rewrite (counted_in _ _ _ _ _ I2). split; [tauto|].
        intros Hx. split; auto. apply I5. apply in_seq. lia. }
    rewrite Hn, Nat.eqb_refl. reflexivity.
Qed.

Lemma uf_ok_true l E st : uf_inv l E st -> uf_ok st = Ok true.
Proof.
  intros [R [Hs _]]. unfold uf_ok. rewrite (sinv_ok_cheap _ _ _ Hs). cbn [negb].
  unfold uf_len. rewrite (pi_len _ _ _ _ (si_p _ _ _ Hs)), (si_lrk _ _ _ Hs), (si_lnx _ _ _ Hs), (si_val _ _ _ Hs).
  rewrite Nat.eqb_refl. cbn [andb negb]. eapply elems_ok_true; eauto.
Qed.

(* ---- main theorem 4 *)
Theorem uf_run_ok : forall ops st, uf_run uf_empty ops = Ok st -> uf_ok st = Ok true.
Proof.
  intros ops st H. eapply uf_ok_true. apply uf_run_reach; eauto.
Qed.
