(* Shared definitions for the C18 models (no proofs here): result type with explicit
   error cases, vectors as lists with positional update, finite maps as association
   lists, finite sets as duplicate-free lists.  Ids, ranks and element values are
   small natural numbers (the element type T of the Rust code is generic: only
   equality is used). *)
From Coq Require Import List Arith Bool ZArith.
From Coq Require Uint63.
Import ListNotations.

(* every way the Rust code can fail is a constructor:
   Oob         index out of bounds (Vec index / get_unchecked precondition / debug_assert!(has(id)))
   NoFuel      recursion / loop budget exhausted (would be non-termination or stack overflow)
   AssertFail  assert! / debug_assert! / assert_ne! failed
   UnwrapNone  Option::unwrap on None or HashMap index on a missing key *)
Inductive err : Type := Oob | NoFuel | AssertFail | UnwrapNone.
Inductive res (A : Type) : Type := Ok (a : A) | Err (e : err).
Arguments Ok {A} a.
Arguments Err {A} e.

Definition bind {A B} (r : res A) (f : A -> res B) : res B :=
  match r with Ok a => f a | Err e => Err e end.
Notation "'do' x <- r ; k" := (bind r (fun x => k)) (at level 200, x pattern, r at level 100, k at level 200, right associativity).

Definition of_opt {A} (e : err) (o : option A) : res A :=
  match o with Some a => Ok a | None => Err e end.

(* ---- vectors *)
Fixpoint set_nth {A} (l : list A) (i : nat) (v : A) : list A :=
  match l, i with
  | [], _ => []
  | _ :: t, O => v :: t
  | h :: t, S j => h :: set_nth t j v
  end.

(* ---- finite maps nat -> V as association lists: the first binding of a key counts,
   [aset] replaces the first binding or appends, [arem] drops every binding *)
Fixpoint aget {V} (k : nat) (m : list (nat * V)) : option V :=
  match m with
  | [] => None
  | (k', v) :: t => if Nat.eqb k k' then Some v else aget k t
  end.
Fixpoint aset {V} (k : nat) (v : V) (m : list (nat * V)) : list (nat * V) :=
  match m with
  | [] => [(k, v)]
  | (k', v') :: t => if Nat.eqb k k' then (k, v) :: t else (k', v') :: aset k v t
  end.
Fixpoint arem {V} (k : nat) (m : list (nat * V)) : list (nat * V) :=
  match m with
  | [] => []
  | (k', v') :: t => if Nat.eqb k k' then arem k t else (k', v') :: arem k t
  end.
Definition ahas {V} (k : nat) (m : list (nat * V)) : bool :=
  match aget k m with Some _ => true | None => false end.

(* ---- finite sets of nat as duplicate-free lists *)
Definition smem (x : nat) (s : list nat) : bool := existsb (Nat.eqb x) s.
Definition sadd (x : nat) (s : list nat) : list nat := if smem x s then s else s ++ [x].
Definition srem (x : nat) (s : list nat) : list nat := filter (fun y => negb (Nat.eqb x y)) s.
Definition sdiff (a b : list nat) : list nat := filter (fun y => negb (smem y b)) a.
Definition sinter (a b : list nat) : list nat := filter (fun y => smem y b) a.
Definition sunion (a b : list nat) : list nat := a ++ sdiff b a.

(* map of sets: HashMap<usize, HashSet<usize>>;  entry(k).or_default() *)
Definition mset := list (nat * list nat).
Definition eget (k : nat) (m : mset) : list nat := match aget k m with Some s => s | None => [] end.
Definition ensure (k : nat) (m : mset) : mset := match aget k m with Some _ => m | None => aset k [] m end.

(* ---- traces for the tie: one flat list of integers per operation; fingerprints of them *)
Inductive ztrace : Type := ZOk (steps : list (list Z)) | ZErr (steps : list (list Z)) (at_op : nat) (e : err).
(* polynomial fingerprint modulo 2^63 on primitive integers (native in the VM); used by the tie only *)
Definition fp_mul : Uint63.int := Eval vm_compute in Uint63.of_Z 131105.
Definition fp_one : Uint63.int := Eval vm_compute in Uint63.of_Z 1.
Definition fp_init : Uint63.int := Eval vm_compute in Uint63.of_Z 7.
Definition fp (l : list Z) : Uint63.int :=
  fold_left (fun h v => Uint63.add (Uint63.add (Uint63.mul h fp_mul) (Uint63.of_Z v)) fp_one) l fp_init.
Definition fp_trace (t : ztrace) : ztrace :=
  match t with
  | ZOk s => ZOk (map (fun l => [Uint63.to_Z (fp l)]) s)
  | ZErr s i e => ZErr (map (fun l => [Uint63.to_Z (fp l)]) s) i e
  end.
(* one fingerprint for a whole history: the fingerprint of the list of its step fingerprints *)
Definition fp_hist (t : ztrace) : ztrace :=
  match fp_trace t with
  | ZOk s => ZOk [[Uint63.to_Z (fp (concat s))]]
  | ZErr s i e => ZErr [[Uint63.to_Z (fp (concat s))]] i e
  end.
