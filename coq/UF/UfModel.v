(* Executable model of byods/ascent-byods-rels/src/uf.rs (UnionFind<T>), C18.
   The Vec<Elem<T>> is modelled as four parallel vectors (parent / rank / next / value cells,
   index = Id), the HashMap<T, Cell<Id>> `items` as an association list value -> id cell.
   Every access the Rust code performs unchecked (get_unchecked, guarded only by
   debug_assert!(has(id))) is a checked access here that returns [Err Oob]; the recursion
   of `find` runs on fuel = number of elements and returns [Err NoFuel] when it runs out;
   debug_assert!/assert! are [Err AssertFail].  No proofs in this file (UfProofs.v). *)
From Coq Require Import List Arith Bool ZArith.
From AV Require Import UF.UfBase.
Import ListNotations.

Record uf : Type := mkUf {
  u_parent : list nat;        (* Elem::parent *)
  u_rank : list nat;          (* Elem::rank *)
  u_next : list nat;          (* Elem::next : circular list of the class *)
  u_value : list nat;         (* Elem::value *)
  u_items : list (nat * nat)  (* items : value -> Cell<Id> *)
}.
Definition uf_empty : uf := mkUf [] [] [] [] [].
Definition uf_len (st : uf) : nat := length (u_parent st).
Definition with_parent (st : uf) (p : list nat) : uf := mkUf p (u_rank st) (u_next st) (u_value st) (u_items st).
Definition with_items (st : uf) (it : list (nat * nat)) : uf := mkUf (u_parent st) (u_rank st) (u_next st) (u_value st) it.

(* Elems::find (uf.rs:138-153): path halving.  Only parent cells change. *)
Fixpoint find_fuel (fuel : nat) (p : list nat) (id : nat) : res (list nat * nat) :=
  match fuel with
  | O => Err NoFuel
  | S f =>
    match nth_error p id with                 (* get_unchecked(id) *)
    | None => Err Oob
    | Some pid =>
      if Nat.eqb id pid then Ok (p, id)
      else match nth_error p pid with         (* get_unchecked(parent_id) *)
           | None => Err Oob
           | Some gid =>
             if Nat.eqb gid pid then Ok (p, pid)
             else find_fuel f (set_nth p id gid) gid     (* elem.parent.set(grandparent_id); self.find(grandparent_id) *)
           end
    end
  end.

Definition elems_find (st : uf) (id : nat) : res (uf * nat) :=
  do (p, r) <- find_fuel (uf_len st) (u_parent st) id; Ok (with_parent st p, r).

(* UnionFind::ok_cheap *)
Definition ok_cheap (st : uf) : bool := Nat.eqb (uf_len st) (length (u_items st)).
Definition dbg (b : bool) : res unit := if b then Ok tt else Err AssertFail.

(* UnionFind::find_item / find_item_internal: find from the item's cell, store the root back *)
Definition find_item (st : uf) (x : nat) : res (uf * option nat) :=
  match aget x (u_items st) with
  | None => Ok (st, None)
  | Some id => do (st1, r) <- elems_find st id; Ok (with_items st1 (aset x r (u_items st1)), Some r)
  end.

(* UnionFind::push + Elems::push *)
Definition push (st : uf) (x : nat) : res (uf * nat) :=
  do _ <- dbg (ok_cheap st);
  let id := uf_len st in
  Ok (mkUf (u_parent st ++ [id]) (u_rank st ++ [0]) (u_next st ++ [id]) (u_value st ++ [x]) (aset x id (u_items st)), id).

(* UnionFind::add *)
Definition uf_add (st : uf) (x : nat) : res (uf * (bool * nat)) :=
  do _ <- dbg (ok_cheap st);
  do (st1, r) <- find_item st x;
  match r with
  | Some id => Ok (st1, (false, id))
  | None => do (st2, id) <- push st1 x; Ok (st2, (true, id))
  end.

(* UnionFind::find (unsafe; debug_assert!(has(id))) *)
Definition uf_find (st : uf) (id : nat) : res (uf * nat) :=
  if Nat.ltb id (uf_len st) then elems_find st id else Err Oob.

(* Elem::union: self = s (winner), other = o; cells are read and written in program order *)
Definition elem_union (st : uf) (s o : nat) : res uf :=
  do ps <- of_opt Oob (nth_error (u_parent st) s);
  do po <- of_opt Oob (nth_error (u_parent st) o);
  do _ <- dbg (negb (Nat.eqb ps po));
  do rs <- of_opt Oob (nth_error (u_rank st) s);
  do ro <- of_opt Oob (nth_error (u_rank st) o);
  do _ <- dbg (Nat.leb ro rs);
  do sn <- of_opt Oob (nth_error (u_next st) s);
  do on <- of_opt Oob (nth_error (u_next st) o);
  let next1 := set_nth (u_next st) s on in        (* self.next.replace(other.next.get()) *)
  let rank1 := set_nth (u_rank st) s (rs + 1) in  (* self.rank.set(self.rank.get() + 1) *)
  let next2 := set_nth next1 o sn in              (* other.next.set(self_next) *)
  let parent1 := set_nth (u_parent st) o ps in    (* other.parent.set(self.parent.get()) *)
  Ok (mkUf parent1 rank1 next2 (u_value st) (u_items st)).

(* Elem::union_by_rank: returns the new root's parent cell *)
Definition union_by_rank (st : uf) (s o : nat) : res (uf * nat) :=
  do ps <- of_opt Oob (nth_error (u_parent st) s);
  do po <- of_opt Oob (nth_error (u_parent st) o);
  do _ <- dbg (negb (Nat.eqb ps po));
  do rs <- of_opt Oob (nth_error (u_rank st) s);
  do ro <- of_opt Oob (nth_error (u_rank st) o);
  if Nat.leb ro rs
  then do st1 <- elem_union st s o; do r <- of_opt Oob (nth_error (u_parent st1) s); Ok (st1, r)
  else do st1 <- elem_union st o s; do r <- of_opt Oob (nth_error (u_parent st1) o); Ok (st1, r).

(* UnionFind::union_internal / union (unsafe; debug_assert!(has(x)), has(y)) *)
Definition uf_union (st : uf) (x y : nat) : res (uf * nat) :=
  if negb (Nat.ltb x (uf_len st) && Nat.ltb y (uf_len st)) then Err Oob else
  if Nat.eqb x y then elems_find st x else
  do (st1, rx) <- elems_find st x;
  do (st2, ry) <- elems_find st1 y;
  if Nat.eqb rx ry then Ok (st2, rx) else
  do (st3, root) <- union_by_rank st2 rx ry;
  if Nat.eqb root rx then Ok (st3, rx)
  else do _ <- dbg (Nat.eqb root ry); Ok (st3, ry).

(* UnionFind::union_add *)
Definition uf_union_add (st : uf) (x y : nat) : res (uf * nat) :=
  do (st1, (_, xi)) <- uf_add st x;
  do (st2, (_, yi)) <- uf_add st1 y;
  uf_union st2 xi yi.

(* ---- operation histories *)
Inductive op : Type :=
| OAdd (x : nat)            (* add(x) *)
| OFindItem (x : nat)       (* find_item(&x) *)
| OUnionAdd (x y : nat)     (* union_add(x, y) *)
| OFindId (x : nat)         (* unsafe find(id) with id = the Id returned when x was first added; no-op if x is absent *)
| OUnionId (x y : nat).     (* unsafe union(idx, idy) with the Ids returned at first add; no-op if x or y is absent *)

Fixpoint index_of (x : nat) (l : list nat) : option nat :=
  match l with
  | [] => None
  | h :: t => if Nat.eqb x h then Some 0 else option_map S (index_of x t)
  end.

(* the op's return value, flattened to a list of numbers *)
Definition uf_step (st : uf) (o : op) : res (uf * list nat) :=
  match o with
  | OAdd x => do (st1, (b, id)) <- uf_add st x; Ok (st1, [if b then 1 else 0; id])
  | OFindItem x => do (st1, r) <- find_item st x; Ok (st1, match r with Some id => [id] | None => [] end)
  | OUnionAdd x y => do (st1, id) <- uf_union_add st x y; Ok (st1, [id])
  | OFindId x =>
      match index_of x (u_value st) with
      | Some i => do (st1, r) <- uf_find st i; Ok (st1, [r])
      | None => Ok (st, [])
      end
  | OUnionId x y =>
      match index_of x (u_value st), index_of y (u_value st) with
      | Some i, Some j => do (st1, r) <- uf_union st i j; Ok (st1, [r])
      | _, _ => Ok (st, [])
      end
  end.

Fixpoint uf_run (st : uf) (ops : list op) : res uf :=
  match ops with
  | [] => Ok st
  | o :: rest => do (st1, _) <- uf_step st o; uf_run st1 rest
  end.

(* ---- Elems::ok (uf.rs:214-281), the structure's own O(n^2) consistency check, step by step.
   It calls find (which halves paths), so the parent vector is threaded through; the caller
   (a test) sees only the boolean.  Loops run on fuel len + 1. *)

(* the "no cycles" walk: while n.parent != id { if prev.contains(id) -> false; prev.insert(id);
   parent = self[n.parent] (checked index); if n.rank > parent.rank -> false; id = n.parent } *)
Fixpoint ok_walk (fuel : nat) (p rk : list nat) (prev : list nat) (id : nat) : res (option nat) :=
  match fuel with
  | O => Err NoFuel
  | S f =>
    do pid <- of_opt Oob (nth_error p id);
    if Nat.eqb pid id then Ok (Some id)
    else if smem id prev then Ok None
    else
      do r <- of_opt Oob (nth_error rk id);
      do rp <- of_opt UnwrapNone (nth_error rk pid);     (* &self[n.parent.get()] : get(..).unwrap() *)
      if Nat.ltb rp r then Ok None
      else ok_walk f p rk (id :: prev) pid
  end.

(* for (distance, (node_id, _)) in iter_class_unchecked(root).enumerate():
   root != find(node_id) -> false;  distance == len -> false.   cur = the iterator's current cell *)
Fixpoint ok_class (fuel : nat) (p nx : list nat) (len root cur distance : nat) : res (list nat * bool) :=
  match fuel with
  | O => Err NoFuel
  | S f =>
    do nid <- of_opt Oob (nth_error nx cur);
    if Nat.eqb nid root then Ok (p, true)
    else
      do _ <- of_opt Oob (nth_error nx nid);             (* get_unchecked(next_id) *)
      do (p1, r) <- find_fuel (length p) p nid;
      if negb (Nat.eqb root r) then Ok (p1, false)
      else if Nat.eqb distance len then Ok (p1, false)
      else ok_class f p1 nx len root nid (S distance)
  end.

(* the per-element part of the loop *)
Definition ok_elem (p rk nx : list nat) (id : nat) : res (list nat * bool) :=
  let len := length p in
  do n <- of_opt Oob (nth_error nx id);
  do pa <- of_opt Oob (nth_error p id);
  do r <- of_opt Oob (nth_error rk id);
  if negb (Nat.ltb n len) then Ok (p, false) else
  if negb (Nat.ltb pa len) then Ok (p, false) else
  if Nat.ltb len r then Ok (p, false) else
  do w <- ok_walk (S len) p rk [] id;
  match w with
  | None => Ok (p, false)
  | Some root => ok_class (S (S len)) p nx len root root 0
  end.

Fixpoint ok_elems (p rk nx : list nat) (ids : list nat) : res (list nat * bool) :=
  match ids with
  | [] => Ok (p, true)
  | id :: rest =>
    do (p1, b) <- ok_elem p rk nx id;
    if b then ok_elems p1 rk nx rest else Ok (p1, false)
  end.

(* Class::count() from the root: number of cells after the root until the list returns to it *)
Fixpoint class_count (fuel : nat) (nx : list nat) (root cur : nat) : res nat :=
  match fuel with
  | O => Err NoFuel
  | S f =>
    do nid <- of_opt Oob (nth_error nx cur);
    if Nat.eqb nid root then Ok 0
    else do _ <- of_opt Oob (nth_error nx nid); do c <- class_count f nx root nid; Ok (S c)
  end.

(* iter_classes().map(|i| i.count()).sum(): every element in order, root = find(elem.parent),
   classes whose root was seen are skipped *)
Fixpoint ok_classes (p nx : list nat) (seen : list nat) (ids : list nat) (acc : nat) : res (list nat * nat) :=
  match ids with
  | [] => Ok (p, acc)
  | id :: rest =>
    do pa <- of_opt Oob (nth_error p id);
    do (p1, r) <- find_fuel (length p) p pa;
    if smem r seen then ok_classes p1 nx seen rest acc
    else do c <- class_count (S (length p)) nx r r; ok_classes p1 nx (r :: seen) rest (acc + 1 + c)
  end.

Definition elems_ok (st : uf) : res bool :=
  let len := uf_len st in
  let ids := seq 0 len in
  do (p1, b) <- ok_elems (u_parent st) (u_rank st) (u_next st) ids;
  if negb b then Ok false else
  do (_, cbc) <- ok_classes p1 (u_next st) [] ids 0;
  Ok (Nat.eqb len cbc).      (* count == self.len() holds by construction of the loop *)

(* UnionFind::ok *)
Definition uf_ok (st : uf) : res bool :=
  if negb (ok_cheap st) then Ok false else
  if negb (Nat.eqb (length (u_rank st)) (uf_len st) && Nat.eqb (length (u_next st)) (uf_len st) && Nat.eqb (length (u_value st)) (uf_len st))
  then Err Oob     (* the four vectors are one Vec<Elem> in the code *)
  else elems_ok st.

(* ---- observation after every operation, flattened to numbers for the tie:
   [ret..] ++ [len] ++ parent ++ rank ++ next ++ value ++ (item cell of v, +1, 0 = absent, for v < dom) ++ [#items; ok] *)
Definition obs_state (dom : nat) (st : uf) : list nat :=
  [uf_len st] ++ u_parent st ++ u_rank st ++ u_next st ++ u_value st
  ++ map (fun v => match aget v (u_items st) with Some i => S i | None => 0 end) (seq 0 dom)
  ++ [length (u_items st); match uf_ok st with Ok true => 1 | Ok false => 0 | Err _ => 2 end].

Fixpoint uf_trace (dom : nat) (st : uf) (ops : list op) (i : nat) (acc : list (list Z)) : ztrace :=
  match ops with
  | [] => ZOk (rev acc)
  | o :: rest =>
    match uf_step st o with
    | Ok (st1, out) => uf_trace dom st1 rest (S i) (map Z.of_nat (length out :: out ++ obs_state dom st1) :: acc)
    | Err e => ZErr (rev acc) i e
    end
  end.
