(* C18, TrRelUnionFind: the "back edge" branch of add (collapse of a cycle of classes via
   merge_multiple). *)
From Coq Require Import List Arith Bool Lia.
From AV Require Import UF.UfBase.
From AV Require Import UF.TrUfModel.
From AV Require Import UF.TrUfInv.
From AV Require Import UF.TrUfLemmas.
From AV Require Import UF.TrUfQueries.
From AV Require Import UF.TrUfCore.
From AV Require Import UF.TrUfGraph.
From AV Require Import UF.TrUfNode.
From AV Require Import UF.TrUfStep.
From AV Require Import UF.TrUfMerge.
Import ListNotations.

(* ---- the two inner loops of merge_multiple as folds *)
Lemma fixr_fold : forall ib from to L (R : mset) z w,
  has (fold_left (mm_fix_rev ib from to) L R) z w <->
  (In z L /\ (w = from \/ (has R z w /\ ~ In w ib /\ w <> to))) \/ (~ In z L /\ has R z w).
Proof.
  induction L as [|h t IH]; cbn [fold_left]; intros R z w.
  - cbn; tauto.
  - rewrite IH. unfold mm_fix_rev. rewrite !has_aset, !in_sadd, !in_srem, !in_sdiff. cbn [In].
    destruct (Nat.eq_dec z h) as [Hzh|Hzh]; destruct (in_dec Nat.eq_dec z t) as [Hzt|Hzt];
      intuition (subst; try congruence; auto).
Qed.

Lemma fixc_fold : forall ib from to L (C : mset) z w,
  has (fold_left (mm_fix_conn ib from to) L C) z w <->
  (In z L /\ ((w = from \/ (has C z w /\ ~ In w ib)) /\ w <> to)) \/ (~ In z L /\ has C z w).
Proof.
  induction L as [|h t IH]; cbn [fold_left]; intros C z w.
  - cbn; tauto.
  - rewrite IH. unfold mm_fix_conn. rewrite !has_aset, !in_srem, !in_sadd, !in_sdiff. cbn [In].
    destruct (Nat.eq_dec z h) as [Hzh|Hzh]; destruct (in_dec Nat.eq_dec z t) as [Hzt|Hzt];
      intuition (subst; try congruence; auto).
Qed.

Lemma fixr_fold_ahas : forall ib from to L (R : mset) k,
  ahas k (fold_left (mm_fix_rev ib from to) L R) = true <-> ahas k R = true \/ In k L.
Proof.
  induction L as [|h t IH]; cbn [fold_left]; intros R k; [cbn; tauto|].
  rewrite IH. unfold mm_fix_rev. rewrite ahas_aset, orb_true_iff, Nat.eqb_eq. cbn [In]. intuition.
Qed.
Lemma fixc_fold_ahas : forall ib from to L (C : mset) k,
  ahas k (fold_left (mm_fix_conn ib from to) L C) = true <-> ahas k C = true \/ In k L.
Proof.
  induction L as [|h t IH]; cbn [fold_left]; intros C k; [cbn; tauto|].
  rewrite IH. unfold mm_fix_conn. rewrite ahas_aset, orb_true_iff, Nat.eqb_eq. cbn [In]. intuition.
Qed.

Lemma fixr_fold_good : forall V ib from to L (R : mset), mgood V R -> V from -> (forall z, In z L -> V z) ->
  mgood V (fold_left (mm_fix_rev ib from to) L R).
Proof.
  induction L as [|h t IH]; cbn [fold_left]; intros R HR Hf HL; [assumption|].
  apply IH; [|assumption|intros z Hz; apply HL; now right].
  destruct (mgood_eget V R h HR) as [Hn Hv]. unfold mm_fix_rev.
  apply mgood_aset; [assumption|apply HL; now left|apply nodup_sadd, nodup_srem, nodup_sdiff; assumption|].
  intros j Hj. rewrite in_sadd, in_srem, in_sdiff in Hj. destruct Hj as [->|[_ [Hj _]]]; auto.
Qed.
Lemma fixc_fold_good : forall V ib from to L (C : mset), mgood V C -> V from -> (forall z, In z L -> V z) ->
  mgood V (fold_left (mm_fix_conn ib from to) L C).
Proof.
  induction L as [|h t IH]; cbn [fold_left]; intros C HC Hf HL; [assumption|].
  apply IH; [|assumption|intros z Hz; apply HL; now right].
  destruct (mgood_eget V C h HC) as [Hn Hv]. unfold mm_fix_conn.
  apply mgood_aset; [assumption|apply HL; now left|apply nodup_srem, nodup_sadd, nodup_sdiff; assumption|].
  intros j Hj. rewrite in_srem, in_sadd, in_sdiff in Hj. destruct Hj as [_ [->|[Hj _]]]; auto.
Qed.

Lemma mm_side_eq : forall ib from to C R s,
  mm_side ib from to (C, R) s =
  (fold_left (mm_fix_conn ib from to) (sdiff (eget s (fold_left (mm_fix_rev ib from to) (sdiff (eget s C) ib) R)) ib) C,
   fold_left (mm_fix_rev ib from to) (sdiff (eget s C) ib) R).
Proof.
  intros. unfold mm_side.
  assert (E1 : match aget s C with Some sc => fold_left (mm_fix_rev ib from to) (sdiff sc ib) R | None => R end
               = fold_left (mm_fix_rev ib from to) (sdiff (eget s C) ib) R).
  { unfold eget; destruct (aget s C); reflexivity. }
  rewrite E1. set (R1 := fold_left (mm_fix_rev ib from to) (sdiff (eget s C) ib) R).
  assert (E2 : match aget s R1 with Some sr => fold_left (mm_fix_conn ib from to) (sdiff sr ib) C | None => C end
               = fold_left (mm_fix_conn ib from to) (sdiff (eget s R1) ib) C).
  { unfold eget; destruct (aget s R1); reflexivity. }
  rewrite E2. reflexivity.
Qed.

Section Collapse.
  Variable P : nat -> Prop.
  Variables (E : list (nat * nat)) (st : truf) (x y xs ys : nat).
  Let E' := E ++ [(x, y)].
  Hypothesis Hc : cinv E' st.
  Hypothesis Hp : pres P st.
  Hypothesis Hcm : compl E st.
  Hypothesis Hids : forall z, mentioned E' z -> aget z (t_ids st) <> None.
  Hypothesis Hdx : dominant st xs.
  Hypothesis Hdy : dominant st ys.
  Hypothesis Hne : xs <> ys.
  Hypothesis Hmx : mem_of st xs x.
  Hypothesis Hmy : mem_of st ys y.
  Hypothesis Hback : cn st ys xs.

  Let C := t_conn st.
  Let R := t_rev st.
  Let cy := eget ys C.
  Let rx := eget xs R.
  Let tbm := sadd ys (srem xs (sinter cy rx)).
  Let M' := srem ys tbm.
  Let Ct := aset ys (srem xs (sdiff cy tbm)) (aset ys (sdiff cy tbm) C).
  Let Rt := aset xs (srem ys (sdiff rx tbm)) (aset xs (sdiff rx tbm) R).
  Let W := fun d => dominant st d /\ ~ In d M'.

  (* facts about the closed graph of st *)
  Lemma cC_dom : forall a b, cn st a b -> dominant st a /\ dominant st b.
  Proof. apply (wf_cn_dom E' st Hc). Qed.
  Lemma cR_dom : forall a b, rv st a b -> dominant st a /\ dominant st b.
  Proof. apply (wf_rv_dom E' st Hc). Qed.
  Lemma cconv : forall a b, a <> b -> (cn st a b <-> rv st b a).
  Proof. apply (c_conv E' st Hc). Qed.
  Lemma ctrans : forall a b c, cn st a b -> cn st b c -> a <> c -> cn st a c.
  Proof. apply (c_trans E' st Hc). Qed.
  Lemma canti : forall a b, a <> b -> cn st a b -> ~ cn st b a.
  Proof. apply (c_antisym E' st Hc). Qed.

  Lemma in_tbm : forall z, In z tbm <-> z = ys \/ (cn st ys z /\ cn st z xs /\ z <> xs).
  Proof.
    intros z. unfold tbm. rewrite in_sadd, in_srem, in_sinter. unfold cy, rx, C, R.
    split.
    - intros [?|[Hzx [H1 H2]]]; [auto|right]. split; [exact H1|]. split; [|assumption]. apply cconv; assumption.
    - intros [?|[H1 [H2 Hzx]]]; [auto|right]. split; [assumption|]. split; [exact H1|]. apply cconv; assumption.
  Qed.
  Lemma in_M' : forall z, In z M' <-> cn st ys z /\ cn st z xs /\ z <> xs /\ z <> ys.
  Proof. intros z. unfold M'. rewrite in_srem, in_tbm. intuition congruence. Qed.

  Lemma M'_dom : forall z, In z M' -> dominant st z.
  Proof. intros z Hz. apply in_M' in Hz. apply (cC_dom ys z); tauto. Qed.
  Lemma xs_notM : ~ In xs M'.
  Proof. rewrite in_M'. tauto. Qed.
  Lemma ys_notM : ~ In ys M'.
  Proof. rewrite in_M'. tauto. Qed.
  Lemma Wxs : W xs. Proof. split; [exact Hdx|exact xs_notM]. Qed.
  Lemma Wys : W ys. Proof. split; [exact Hdy|exact ys_notM]. Qed.

  Lemma has_Ct : forall a b,
    has Ct a b <-> (a = ys /\ cn st ys b /\ ~ In b M' /\ b <> ys /\ b <> xs) \/ (a <> ys /\ cn st a b).
  Proof.
    intros a b. unfold Ct. rewrite !has_aset, in_srem, in_sdiff, in_tbm, in_M'. unfold cy, C, cn.
    destruct (Nat.eq_dec a ys) as [->|Hay]; intuition (try congruence; auto).
  Qed.
  Lemma has_Rt : forall b a,
    has Rt b a <-> (b = xs /\ rv st xs a /\ ~ In a M' /\ a <> ys) \/ (b <> xs /\ rv st b a).
  Proof.
    intros b a. unfold Rt. rewrite !has_aset, in_srem, in_sdiff, in_tbm, in_M'. unfold rx, R, rv.
    destruct (Nat.eq_dec b xs) as [->|Hbx].
    - split; [|intuition (try congruence; auto)].
      intros [[_ [Hay [Hr Hn]]]|[? _]]; [|congruence]. left. split; [reflexivity|]. split; [exact Hr|].
      split; [|auto]. intros [H1 [H2 [H3 H4]]]. apply Hn. right. auto.
    - intuition (try congruence; auto).
  Qed.

  (* the window hypotheses of add_set_connection on the trimmed maps *)
  Lemma win_conv : forall a b, W a -> W b -> a <> b -> (has Ct a b <-> has Rt b a).
  Proof.
    intros a b [Da Ma] [Db Mb] Hab. rewrite has_Ct, has_Rt.
    destruct (Nat.eq_dec a ys) as [->|Hay]; destruct (Nat.eq_dec b xs) as [->|Hbx].
    - split; [intros [[_ [_ [_ [_ F]]]]|[F _]]; congruence|intros [[_ [_ [_ F]]]|[F _]]; congruence].
    - split.
      + intros [[_ [H1 _]]|[F _]]; [|congruence]. right; split; [assumption|]. apply cconv; [congruence|exact H1].
      + intros [[F _]|[_ H1]]; [congruence|]. left. split; [reflexivity|]. split; [apply cconv; [congruence|exact H1]|].
        split; [assumption|]. split; congruence.
    - split.
      + intros [[F _]|[_ H1]]; [congruence|]. left; split; [reflexivity|]. split; [apply cconv; assumption|]. split; assumption.
      + intros [[_ [H1 _]]|[F _]]; [|congruence]. right; split; [assumption|]. apply cconv; assumption.
    - split.
      + intros [[F _]|[_ H1]]; [congruence|]. right; split; [assumption|]. apply cconv; assumption.
      + intros [[F _]|[_ H1]]; [congruence|]. right; split; [assumption|]. apply cconv; assumption.
  Qed.

  Lemma Ct_sub : forall a b, has Ct a b -> cn st a b.
  Proof. intros a b H. apply has_Ct in H. destruct H as [[-> [H _]]|[_ H]]; exact H. Qed.

  Lemma win_trans : forall a b c, W a -> W b -> W c -> has Ct a b -> has Ct b c -> a <> c -> has Ct a c.
  Proof.
    intros a b c [Da Ma] [Db Mb] [Dc Mc] Hab Hbc Hac.
    assert (Hac' : cn st a c) by (apply (ctrans a b c); [apply Ct_sub; assumption|apply Ct_sub; assumption|assumption]).
    apply has_Ct. destruct (Nat.eq_dec a ys) as [->|Hay]; [left|right; split; assumption].
    split; [reflexivity|]. split; [assumption|]. split; [assumption|]. split; [congruence|].
    intros ->. apply has_Ct in Hab. destruct Hab as [[_ [H1 [_ [Hby Hbx]]]]|[F _]]; [|congruence].
    apply Mb. apply in_M'. split; [assumption|]. split; [apply Ct_sub; assumption|]. split; assumption.
  Qed.

  Lemma win_anti : forall a b, W a -> W b -> a <> b -> has Ct a b -> ~ has Ct b a.
  Proof. intros a b _ _ Hab H1 H2. apply (canti a b Hab); apply Ct_sub; assumption. Qed.

  Lemma win_HRf : forall a, has Rt xs a -> W a.
  Proof.
    intros a H. apply has_Rt in H. destruct H as [[_ [H1 [H2 _]]]|[F _]]; [|congruence].
    split; [apply (cR_dom xs a H1)|assumption].
  Qed.
  Lemma win_HCt : forall b, has Ct ys b -> W b.
  Proof.
    intros b H. apply has_Ct in H. destruct H as [[_ [H1 [H2 _]]]|[F _]]; [|congruence].
    split; [apply (cC_dom ys b H1)|assumption].
  Qed.
  Lemma win_nb : ~ has Ct ys xs.
  Proof. rewrite has_Ct. intros [[_ [_ [_ [_ F]]]]|[F _]]; congruence. Qed.
  Lemma win_nf : ~ has Ct xs ys.
  Proof. intros H. apply Ct_sub in H. apply (canti ys xs); [congruence|exact Hback|exact H]. Qed.

  (* ---- after add_set_connection(xs, ys) on the trimmed maps *)
  Ltac wtac := first [exact Hne | exact Wxs | exact Wys | exact win_conv | exact win_trans | exact win_anti | exact win_HRf | exact win_HCt | exact win_nb | exact win_nf | assumption].
  Let C6 := fst (asc_maps Ct Rt xs ys).
  Let R6 := snd (asc_maps Ct Rt xs ys).

  Lemma K1 : forall a b, W a ->
    (has C6 a b <-> has Ct a b \/ ((a = xs \/ has Ct a xs) /\ (b = ys \/ has Ct ys b))).
  Proof.
    intros a b Wa. apply (asc_K1 W Ct Rt xs ys); wtac.
  Qed.
  Lemma K2 : forall a b, ~ W a -> (has C6 a b <-> has Ct a b).
  Proof. intros a b Wa. apply (asc_K2 W Ct Rt xs ys); wtac. Qed.
  Lemma K3 : forall a b, W a -> W b -> a <> b -> (has C6 a b <-> has R6 b a).
  Proof.
    intros a b Wa Wb Hab. apply (asc_K3 W Ct Rt xs ys); wtac.
  Qed.
  Lemma K4 : forall b a, ~ W b -> (has R6 b a <-> has Rt b a).
  Proof. intros b a Wb. apply (asc_K4 W Ct Rt xs ys); wtac. Qed.
  Lemma K5 : forall b a, ~ W a -> (has R6 b a <-> has Rt b a).
  Proof. intros b a Wa. apply (asc_K5 W Ct Rt xs ys); wtac. Qed.

  Definition ina (a : nat) : Prop := a = xs \/ cn st a xs.
  Definition outb (b : nat) : Prop := b = xs \/ cn st ys b.
  Let D' := fun d => dominant st d /\ ~ In d M' /\ d <> ys.

  Lemma D'_W : forall a, D' a -> W a.
  Proof. intros a [H1 [H2 _]]; split; assumption. Qed.
  Lemma D'xs : D' xs.
  Proof. split; [exact Hdx|]. split; [exact xs_notM|exact Hne]. Qed.

  Lemma Ct_ne : forall a b, a <> ys -> (has Ct a b <-> cn st a b).
  Proof. intros a b Hay. rewrite has_Ct. intuition congruence. Qed.

  Lemma succ_char : forall b,
    (b = ys \/ has Ct ys b) <-> (b = ys \/ (cn st ys b /\ ~ In b M' /\ b <> ys /\ b <> xs)).
  Proof. intros b. rewrite has_Ct. intuition congruence. Qed.

  Lemma C6_D' : forall a b, D' a ->
    (has C6 a b <-> cn st a b \/ (ina a /\ (b = ys \/ (cn st ys b /\ ~ In b M' /\ b <> ys /\ b <> xs)))).
  Proof.
    intros a b Da. pose proof (D'_W a Da) as Wa. destruct Da as [Da [Ma Hay]].
    rewrite (K1 a b Wa), succ_char, !(Ct_ne a) by assumption. unfold ina. reflexivity.
  Qed.

  Lemma C6_ys : forall b, has C6 ys b <-> has Ct ys b.
  Proof.
    intros b. rewrite (K1 ys b Wys). split; [|auto].
    intros [H|[[F|F] _]]; [exact H|congruence|]. exfalso; apply win_nb; exact F.
  Qed.

  Lemma C6_xs_ys : has C6 xs ys.
  Proof. apply (K1 xs ys Wxs). right. auto. Qed.

  Lemma ina_of_ys : forall a, a <> ys -> cn st a ys -> ina a.
  Proof.
    intros a Hay H. destruct (Nat.eq_dec a xs) as [->|Hax]; [left; reflexivity|right].
    apply (ctrans a ys xs); assumption.
  Qed.

  Lemma R6_ys : forall a, D' a -> (has R6 ys a <-> ina a).
  Proof.
    intros a Da. pose proof (D'_W a Da) as Wa. pose proof Da as [Da1 [Ma Hay]].
    rewrite <- (K3 a ys Wa Wys Hay), (C6_D' a ys Da). split.
    - intros [H|[H _]]; [apply ina_of_ys; assumption|exact H].
    - intros H. right. split; [exact H|left; reflexivity].
  Qed.

  Lemma R6_xs : forall a, D' a -> a <> xs -> (has R6 xs a <-> cn st a xs).
  Proof.
    intros a Da Hax. pose proof (D'_W a Da) as Wa.
    rewrite <- (K3 a xs Wa Wxs Hax), (C6_D' a xs Da). split; [|auto].
    intros [H|[_ [F|[_ [_ [_ F]]]]]]; [exact H|congruence|congruence].
  Qed.

  Lemma R6_xs_ys : ~ has R6 xs ys.
  Proof.
    intros H. apply (K3 ys xs Wys Wxs) in H; [|congruence]. apply C6_ys in H. apply win_nb; exact H.
  Qed.

  (* ---- the first loop of merge_multiple(xs, ys, M'): for s in [xs, ys] *)
  Let fr := mm_fix_rev M' xs ys.
  Let fc := mm_fix_conn M' xs ys.
  Let L1 := sdiff (eget xs C6) M'.
  Let r7 := fold_left fr L1 R6.
  Let L2 := sdiff (eget xs r7) M'.
  Let c7 := fold_left fc L2 C6.
  Let L3 := sdiff (eget ys c7) M'.
  Let r8 := fold_left fr L3 r7.
  Let L4 := sdiff (eget ys r8) M'.
  Let c8 := fold_left fc L4 c7.

  Lemma sides_eq : fold_left (mm_side M' xs ys) [xs; ys] (C6, R6) = (c8, r8).
  Proof. cbn [fold_left]. rewrite mm_side_eq. fold fr fc L1 r7 L2 c7. rewrite mm_side_eq. reflexivity. Qed.

  Lemma r7_char : forall z w, has r7 z w <->
    (In z L1 /\ (w = xs \/ (has R6 z w /\ ~ In w M' /\ w <> ys))) \/ (~ In z L1 /\ has R6 z w).
  Proof. intros; apply fixr_fold. Qed.
  Lemma c7_char : forall z w, has c7 z w <->
    (In z L2 /\ ((w = xs \/ (has C6 z w /\ ~ In w M')) /\ w <> ys)) \/ (~ In z L2 /\ has C6 z w).
  Proof. intros; apply fixc_fold. Qed.
  Lemma r8_char : forall z w, has r8 z w <->
    (In z L3 /\ (w = xs \/ (has r7 z w /\ ~ In w M' /\ w <> ys))) \/ (~ In z L3 /\ has r7 z w).
  Proof. intros; apply fixr_fold. Qed.
  Lemma c8_char : forall z w, has c8 z w <->
    (In z L4 /\ ((w = xs \/ (has c7 z w /\ ~ In w M')) /\ w <> ys)) \/ (~ In z L4 /\ has c7 z w).
  Proof. intros; apply fixc_fold. Qed.

  Lemma ldec : forall z (L : list nat), {In z L} + {~ In z L}.
  Proof. intros; apply in_dec, Nat.eq_dec. Qed.

  Lemma ys_L1 : In ys L1.
  Proof. unfold L1. rewrite in_sdiff. split; [exact C6_xs_ys|exact ys_notM]. Qed.

  Lemma r7_ys : forall w, has r7 ys w <-> w = xs \/ (has R6 ys w /\ ~ In w M' /\ w <> ys).
  Proof. intros w. rewrite r7_char. pose proof ys_L1. tauto. Qed.

  Lemma ys_notL2 : ~ In ys L2.
  Proof.
    unfold L2. rewrite in_sdiff, r7_char. pose proof R6_xs_ys.
    intros [[[_ [F|[_ [_ F]]]]|[_ F]] _]; congruence || tauto.
  Qed.

  Lemma c7_ys : forall w, has c7 ys w <-> has C6 ys w.
  Proof. intros w. rewrite c7_char. pose proof ys_notL2. tauto. Qed.

  Lemma r8_ys : forall w, has r8 ys w <-> w = xs \/ (has R6 ys w /\ ~ In w M' /\ w <> ys).
  Proof. intros w. rewrite r8_char, r7_ys. destruct (ldec ys L3); tauto. Qed.

  Lemma L4_char : forall a, D' a -> (In a L4 <-> ina a).
  Proof.
    intros a Da. pose proof Da as [_ [Ma Hay]]. unfold L4. rewrite in_sdiff, r8_ys, (R6_ys a Da).
    unfold ina. tauto.
  Qed.

  Lemma L2_ina : forall a, D' a -> In a L2 -> ina a.
  Proof.
    intros a Da. unfold L2. rewrite in_sdiff, r7_char.
    destruct (Nat.eq_dec a xs) as [->|Hax]; [left; reflexivity|].
    pose proof (R6_xs a Da Hax). unfold ina. tauto.
  Qed.

  Lemma c8_D' : forall a b, D' a ->
    (ina a -> (has c8 a b <-> (b = xs \/ (has C6 a b /\ ~ In b M')) /\ b <> ys)) /\
    (~ ina a -> (has c8 a b <-> has C6 a b)).
  Proof.
    intros a b Da. rewrite c8_char, c7_char. pose proof (L4_char a Da) as H4. pose proof (L2_ina a Da) as H2.
    destruct (ldec a L2); destruct (ldec a L4); tauto.
  Qed.

  (* the rev side *)
  Lemma cn_ys_of_xs : forall z, z <> ys -> cn st xs z -> cn st ys z.
  Proof. intros z Hz H. apply (ctrans ys xs z); assumption || congruence. Qed.

  Lemma L1_char : forall z, D' z -> z <> xs -> (In z L1 <-> cn st ys z).
  Proof.
    intros z Dz Hzx. pose proof Dz as [_ [Mz Hzy]]. unfold L1. rewrite in_sdiff, (C6_D' xs z D'xs).
    split.
    - intros [[H|[_ [F|[H _]]]] _]; [apply cn_ys_of_xs; assumption|congruence|exact H].
    - intros H. split; [|exact Mz]. right. split; [left; reflexivity|]. right. auto.
  Qed.

  Lemma L3_char : forall z, In z L3 <-> has Ct ys z /\ ~ In z M'.
  Proof. intros z. unfold L3. rewrite in_sdiff, c7_ys, C6_ys. reflexivity. Qed.

  Lemma L3_D' : forall z, D' z -> z <> xs -> (In z L3 <-> cn st ys z).
  Proof.
    intros z Dz Hzx. pose proof Dz as [_ [Mz Hzy]]. rewrite L3_char, has_Ct. intuition congruence.
  Qed.
  Lemma xs_notL3 : ~ In xs L3.
  Proof. rewrite L3_char. intros [F _]. apply win_nb; exact F. Qed.

  Lemma r8_D' : forall z w, D' z -> z <> xs ->
    (cn st ys z -> (has r8 z w <-> w = xs \/ (has R6 z w /\ ~ In w M' /\ w <> ys))) /\
    (~ cn st ys z -> (has r8 z w <-> has R6 z w)).
  Proof.
    intros z w Dz Hzx. rewrite r8_char, r7_char.
    pose proof (L1_char z Dz Hzx) as H1. pose proof (L3_D' z Dz Hzx) as H3.
    destruct (ldec z L1); destruct (ldec z L3); tauto.
  Qed.

  Lemma r8_xs : forall w, w <> xs -> (has r8 xs w /\ w <> ys /\ ~ In w M' <-> has R6 xs w /\ w <> ys /\ ~ In w M').
  Proof.
    intros w Hwx. rewrite r8_char, r7_char. pose proof xs_notL3. destruct (ldec xs L1); tauto.
  Qed.

  (* ---- the new class graph on the surviving ids *)
  Lemma ina_notM_out : forall b, D' b -> b <> xs -> cn st ys b -> ~ cn st b xs.
  Proof.
    intros b [_ [Mb Hby]] Hbx H1 H2. apply Mb. apply in_M'. auto.
  Qed.

  Theorem Cf_char : forall a b, D' a -> D' b -> a <> b ->
    (has c8 a b <-> cn st a b \/ (ina a /\ outb b)).
  Proof.
    intros a b Da Db Hab. pose proof Db as [_ [Mb Hby]]. destruct (c8_D' a b Da) as [Hi Hn].
    assert (Dec : ina a \/ ~ ina a).
    { unfold ina. destruct (Nat.eq_dec a xs); [auto|]. destruct (hdec (t_conn st) a xs); [left; right; assumption|right; tauto]. }
    destruct Dec as [Ia|Na].
    - rewrite (Hi Ia), (C6_D' a b Da). unfold outb. split.
      + intros [[->|[[H|[_ [F|[H _]]]] _]] _]; [right; auto|left; exact H|congruence|right; auto].
      + intros [H|[_ [->|H]]]; (split; [|exact Hby]).
        * right. split; [left; exact H|exact Mb].
        * left; reflexivity.
        * destruct (Nat.eq_dec b xs) as [->|Hbx]; [left; reflexivity|right]. split; [|exact Mb].
          right. split; [exact Ia|]. right. auto.
    - rewrite (Hn Na), (C6_D' a b Da). tauto.
  Qed.

  Theorem Cf_range : forall a b, D' a -> has c8 a b -> D' b.
  Proof.
    intros a b Da. destruct (c8_D' a b Da) as [Hi Hn].
    assert (Dec : ina a \/ ~ ina a).
    { unfold ina. destruct (Nat.eq_dec a xs); [auto|]. destruct (hdec (t_conn st) a xs); [left; right; assumption|right; tauto]. }
    destruct Dec as [Ia|Na].
    - rewrite (Hi Ia), (C6_D' a b Da). intros [[->|[Hh Mb]] Hby]; [exact D'xs|].
      split; [|split; assumption]. destruct Hh as [H|[_ [F|[H _]]]]; [apply (cC_dom a b H)|congruence|apply (cC_dom ys b H)].
    - rewrite (Hn Na), (C6_D' a b Da). intros [H|[F _]]; [|contradiction].
      pose proof Da as [_ [_ Hay]].
      split; [apply (cC_dom a b H)|]. split.
      + intros Mb. apply in_M' in Mb. apply Na. destruct (Nat.eq_dec a xs); [left; assumption|right].
        apply (ctrans a b xs); tauto.
      + intros ->. apply Na. apply ina_of_ys; assumption.
  Qed.

  (* ---- well-formedness of all intermediate maps (ids are live classes of st, no duplicates) *)
  Let V := dominant st.
  Lemma goodC : mgood V C.
  Proof. apply mset_wf_good, (c_conn E' st Hc). Qed.
  Lemma goodR : mgood V R.
  Proof. apply mset_wf_good, (c_rev E' st Hc). Qed.
  Lemma goodCt : mgood V Ct.
  Proof.
    destruct (mgood_eget V C ys goodC) as [Hn Hv]. fold cy in Hn, Hv. unfold Ct.
    apply mgood_aset; [apply mgood_aset; [exact goodC|exact Hdy|apply nodup_sdiff; exact Hn|]|exact Hdy|apply nodup_srem, nodup_sdiff; exact Hn|].
    - intros j Hj. apply in_sdiff in Hj. apply Hv; tauto.
    - intros j Hj. apply in_srem in Hj. destruct Hj as [_ Hj]. apply in_sdiff in Hj. apply Hv; tauto.
  Qed.
  Lemma goodRt : mgood V Rt.
  Proof.
    destruct (mgood_eget V R xs goodR) as [Hn Hv]. fold rx in Hn, Hv. unfold Rt.
    apply mgood_aset; [apply mgood_aset; [exact goodR|exact Hdx|apply nodup_sdiff; exact Hn|]|exact Hdx|apply nodup_srem, nodup_sdiff; exact Hn|].
    - intros j Hj. apply in_sdiff in Hj. apply Hv; tauto.
    - intros j Hj. apply in_srem in Hj. destruct Hj as [_ Hj]. apply in_sdiff in Hj. apply Hv; tauto.
  Qed.
  Lemma good6 : mgood V C6 /\ mgood V R6.
  Proof. apply asc_good; [exact goodCt|exact goodRt|exact Hdx|exact Hdy]. Qed.
  Lemma good_r7 : mgood V r7.
  Proof.
    destruct good6 as [G1 G2]. apply fixr_fold_good; [exact G2|exact Hdx|].
    intros z Hz. unfold L1 in Hz. apply in_sdiff in Hz. apply (mgood_eget V C6 xs G1); tauto.
  Qed.
  Lemma good_c7 : mgood V c7.
  Proof.
    destruct good6 as [G1 G2]. apply fixc_fold_good; [exact G1|exact Hdx|].
    intros z Hz. unfold L2 in Hz. apply in_sdiff in Hz. apply (mgood_eget V r7 xs good_r7); tauto.
  Qed.
  Lemma good_r8 : mgood V r8.
  Proof.
    apply fixr_fold_good; [exact good_r7|exact Hdx|].
    intros z Hz. unfold L3 in Hz. apply in_sdiff in Hz. apply (mgood_eget V c7 ys good_c7); tauto.
  Qed.
  Lemma good_c8 : mgood V c8.
  Proof.
    apply fixc_fold_good; [exact good_c7|exact Hdx|].
    intros z Hz. unfold L4 in Hz. apply in_sdiff in Hz. apply (mgood_eget V r8 ys good_r8); tauto.
  Qed.

  Lemma W_dec : forall d, W d \/ ~ W d.
  Proof.
    intros d. unfold W, dominant. destruct (lt_dec d (nsets st)); [|tauto].
    destruct (aget d (t_subs st)) eqn:Ea; [right; intros [[_ F] _]; discriminate|].
    destruct (ldec d M'); tauto.
  Qed.

  Theorem Rf_char : forall z w, D' z -> D' w -> z <> w ->
    (has r8 z w <-> cn st w z \/ (ina w /\ outb z)).
  Proof.
    intros z w Dz Dw Hzw. pose proof Dw as [_ [Mw Hwy]]. pose proof (D'_W z Dz) as Wz. pose proof (D'_W w Dw) as Ww.
    destruct (Nat.eq_dec z xs) as [->|Hzx].
    - assert (Hwx : w <> xs) by congruence.
      pose proof (r8_xs w Hwx) as H8. pose proof (R6_xs w Dw Hwx) as H6. unfold ina, outb. tauto.
    - destruct (r8_D' z w Dz Hzx) as [Hy Hn].
      assert (H6 : has R6 z w <-> cn st w z \/ (ina w /\ cn st ys z)).
      { rewrite <- (K3 w z Ww Wz) by congruence. rewrite (C6_D' w z Dw).
        destruct Dz as [_ [Mz Hzy]]. intuition congruence. }
      destruct (hdec (t_conn st) ys z) as [Hyz|Hnyz].
      + rewrite (Hy Hyz), H6. unfold ina, outb. intuition congruence.
      + rewrite (Hn Hnyz), H6. unfold outb. intuition congruence.
  Qed.

  Theorem Rf_range : forall z w, D' z -> has r8 z w -> (z = xs -> w <> ys /\ ~ In w M') -> D' w.
  Proof.
    intros z w Dz Hh Hx.
    assert (Dw : dominant st w) by (apply (mgood_eget V r8 z good_r8); exact Hh).
    split; [exact Dw|].
    destruct (Nat.eq_dec z xs) as [->|Hzx]; [destruct (Hx eq_refl); split; assumption|].
    destruct (r8_D' z w Dz Hzx) as [Hy Hn]. pose proof Dz as [_ [Mz Hzy]].
    destruct (hdec (t_conn st) ys z) as [Hyz|Hnyz].
    - apply (Hy Hyz) in Hh. destruct Hh as [->|[_ [H1 H2]]]; [split; [exact xs_notM|exact Hne]|split; assumption].
    - apply (Hn Hnyz) in Hh. pose proof (D'_W z Dz) as Wz. split.
      + intros Mw. assert (Ww : ~ W w) by (intros [_ F]; contradiction).
        apply (K5 z w Ww) in Hh. apply has_Rt in Hh. destruct Hh as [[F _]|[_ Hh]]; [congruence|].
        apply in_M' in Mw. destruct Mw as [M1 [M2 [M3 M4]]].
        assert (Hwz : w <> z) by (intros ->; contradiction).
        apply (cconv w z Hwz) in Hh. apply Hnyz. apply (ctrans ys w z); congruence || assumption.
      + intros ->. apply (K3 ys z Wys Wz) in Hh; [|congruence]. apply C6_ys in Hh. apply Ct_sub in Hh. contradiction.
  Qed.

  (* ---- running the branch *)
  Hypothesis Hmc : mm_collapse_stmt.
  Let l := M' ++ [ys].
  Let st5 := with_cr st c8 r8.

  Lemma nodup_M' : NoDup M'.
  Proof.
    unfold M', tbm. apply nodup_srem, nodup_sadd, nodup_srem, nodup_sinter.
    apply (mgood_eget V C ys goodC).
  Qed.
  Lemma nodup_l : NoDup l.
  Proof.
    unfold l. apply nodup_app; [exact nodup_M'|constructor; [intros []|constructor]|].
    intros z Hz [<-|[]]. apply ys_notM; exact Hz.
  Qed.
  Lemma in_l : forall z, In z l <-> In z M' \/ z = ys.
  Proof. intros z. unfold l. rewrite in_app_iff. cbn. intuition. Qed.
  Lemma l_dom : forall s, In s l -> dominant st5 s /\ s <> xs.
  Proof.
    intros s Hs. apply in_l in Hs. destruct Hs as [Hs| ->].
    - split; [exact (M'_dom s Hs)|]. intros ->. apply xs_notM; exact Hs.
    - split; [exact Hdy|congruence].
  Qed.

  (* the two unwraps at the head of the branch are guarded by the back edge itself *)
  Lemma ahas_nonempty : forall (m : mset) k v, In v (eget k m) -> ahas k m = true.
  Proof. intros m k v H. unfold ahas, eget in *. destruct (aget k m); [reflexivity|destruct H]. Qed.
  Lemma key_ys : ahas ys C = true.
  Proof. apply (ahas_nonempty C ys xs). exact Hback. Qed.
  Lemma key_xs : ahas xs R = true.
  Proof. apply (ahas_nonempty R xs ys). apply (cconv ys xs); [congruence|exact Hback]. Qed.

  Lemma ahas_Ct : forall d, ahas d C = true -> ahas d Ct = true.
  Proof. intros d H. unfold Ct. rewrite !ahas_aset, H, !orb_true_r. reflexivity. Qed.
  Lemma ahas_Rt : forall d, ahas d R = true -> ahas d Rt = true.
  Proof. intros d H. unfold Rt. rewrite !ahas_aset, H, !orb_true_r. reflexivity. Qed.
  Lemma ahas_c8 : forall d, ahas d C = true \/ d = xs -> ahas d c8 = true.
  Proof.
    intros d Hd.
    apply fixc_fold_ahas; left. apply fixc_fold_ahas; left.
    apply (asc_present Ct Rt xs ys Hne d). destruct Hd as [H1| ->]; [left; apply ahas_Ct; exact H1|right; left; reflexivity].
  Qed.
  Lemma ahas_r8 : forall d, ahas d R = true \/ d = xs -> ahas d r8 = true.
  Proof.
    intros d Hd.
    apply fixr_fold_ahas; left. apply fixr_fold_ahas; left.
    apply (asc_present Ct Rt xs ys Hne d). destruct Hd as [H1| ->]; [left; apply ahas_Rt; exact H1|right; left; reflexivity].
  Qed.

  Definition final (st6 : truf) : truf :=
    mkTr (t_sets st6) (aset y xs (aset x xs (t_ids st6))) (t_subs st6)
         (aset xs (sdiff (srem ys (eget xs (t_conn st6))) M') (t_conn st6))
         (aset xs (sdiff (srem ys (eget xs (t_rev st6))) M') (t_rev st6)).

  Lemma aget_eget : forall k (m : mset), ahas k m = true -> aget k m = Some (eget k m).
  Proof. intros k m H. unfold ahas, eget in *. destruct (aget k m); [reflexivity|discriminate]. Qed.

  Lemma existsb_in : forall k (L : list nat), existsb (Nat.eqb k) L = true <-> In k L.
  Proof. intros k L. apply smem_in. Qed.

  Lemma collapse_run : exists st6,
    collapse_branch st x y xs ys = Ok (final st6, true) /\
    sinv st6 /\ t_ids st6 = t_ids st /\ nsets st6 = nsets st /\
    (forall k, aget k (t_conn st6) = if existsb (Nat.eqb k) l then None else aget k c8) /\
    (forall k, aget k (t_rev st6) = if existsb (Nat.eqb k) l then None else aget k r8) /\
    NoDup (map fst (t_conn st6)) /\ NoDup (map fst (t_rev st6)) /\
    (forall d, dominant st6 d <-> dominant st d /\ ~ In d l) /\
    (forall s u, mem_of st6 s u <->
       (s = xs /\ (mem_of st xs u \/ exists z, In z l /\ mem_of st z u)) \/
       (s <> xs /\ ~ In s l /\ mem_of st s u)) /\
    (forall t d, dom_to st t d -> dom_to st6 t (if existsb (Nat.eqb d) l then xs else d)).
  Proof.
    destruct (Hmc st5 xs l) as [st6 [Hrun [Hs6 [Hids6 [Hn6 [Hc6 [Hr6 [Hkc [Hkr [Hd6 [Hm6 Hdt6]]]]]]]]]]].
    { pose proof (cinv_sinv E' st Hc) as Hs. destruct Hs. constructor; assumption. }
    { exact Hdx. }
    { exact nodup_l. }
    { exact l_dom. }
    change (t_conn st5) with c8 in *. change (t_rev st5) with r8 in *.
    exists st6.
    assert (Hxl : existsb (Nat.eqb xs) l = false).
    { destruct (existsb (Nat.eqb xs) l) eqn:Ex; [|reflexivity]. apply existsb_in in Ex.
      destruct (l_dom xs Ex) as [_ F]. congruence. }
    split; [|split; [exact Hs6|split; [exact Hids6|split; [exact Hn6|split; [exact Hc6|split; [exact Hr6|
             split; [apply Hkc; apply good_c8|split; [apply Hkr; apply good_r8|split; [exact Hd6|split; [exact Hm6|exact Hdt6]]]]]]]]]].
    unfold collapse_branch.
    pose proof key_ys as Hky. pose proof key_xs as Hkx.
    rewrite (aget_eget ys (t_conn st) Hky), (aget_eget xs (t_rev st) Hkx). cbn [of_opt bind].
    fold C R cy rx tbm. rewrite !aget_aset_eq. cbn [of_opt bind]. fold Ct Rt.
    assert (Hm : smem ys (eget xs (t_conn (with_cr st Ct Rt))) = false).
    { cbn [t_conn with_cr]. apply smem_false. exact win_nf. }
    rewrite (asc_eq (with_cr st Ct Rt) xs ys Hm). cbn [bind t_conn t_rev with_cr]. fold C6 R6. fold M'.
    unfold merge_multiple. cbn [t_conn t_rev with_cr]. rewrite sides_eq.
    change (with_cr (with_cr (with_cr st Ct Rt) C6 R6) c8 r8) with st5. fold l. rewrite Hrun. cbn [bind].
    rewrite (Hc6 xs), (Hr6 xs), Hxl.
    rewrite (aget_eget xs c8 (ahas_c8 xs (or_intror eq_refl))), (aget_eget xs r8 (ahas_r8 xs (or_intror eq_refl))). cbn [of_opt bind].
    set (st7 := with_cr st6 _ _).
    assert (Hdj : disjoint_ok st7 = true).
    { unfold disjoint_ok, st7; cbn [t_sets with_cr]. apply disjoint_from_ok; [apply (s_sets_nodup st6 Hs6)|intros ? ? []]. }
    rewrite Hdj. cbn [dbgt bind].
    assert (Hx : aget x (t_ids st7) <> None).
    { unfold st7; cbn [t_ids with_cr]. rewrite Hids6. apply (c_mem_ids E' st Hc xs x Hmx). }
    destruct (aget x (t_ids st7)) eqn:Ex; [|congruence]. cbn [of_opt bind].
    assert (Hy : aget y (aset x xs (t_ids st7)) <> None).
    { rewrite aget_aset. destruct (Nat.eqb y x); [discriminate|]. unfold st7; cbn [t_ids with_cr]. rewrite Hids6.
      apply (c_mem_ids E' st Hc ys y Hmy). }
    destruct (aget y (aset x xs (t_ids st7))) eqn:Ey; [|congruence]. cbn [of_opt bind].
    unfold final, st7. cbn [t_sets t_ids t_subs t_conn t_rev with_cr].
    assert (E1 : eget xs (t_conn st6) = eget xs c8) by (unfold eget; rewrite (Hc6 xs), Hxl; reflexivity).
    assert (E2 : eget xs (t_rev st6) = eget xs r8) by (unfold eget; rewrite (Hr6 xs), Hxl; reflexivity).
    rewrite E1, E2. reflexivity.
  Qed.

  (* ---- the new class graph is closed again *)
  Definition rel (a b : nat) : Prop := cn st a b \/ (ina a /\ outb b).

  Lemma ina_back : forall a b, cn st a b -> ina b -> ina a.
  Proof.
    intros a b Hab [->|Hb]; [right; exact Hab|].
    destruct (Nat.eq_dec a xs) as [->|Hax]; [left; reflexivity|right]. apply (ctrans a b xs); assumption.
  Qed.
  Lemma outb_fwd : forall b c, c <> ys -> outb b -> cn st b c -> outb c.
  Proof.
    intros b c Hcy [->|Hb] Hbc; right; [apply cn_ys_of_xs; assumption|apply (ctrans ys b c); congruence || assumption].
  Qed.
  Lemma in_out_absurd : forall a, D' a -> a <> xs -> ina a -> outb a -> False.
  Proof.
    intros a [_ [Ma Hay]] Hax [F|H1] [F'|H2]; try congruence. apply Ma, in_M'. auto.
  Qed.

  Lemma rel_trans : forall a b c, D' c -> rel a b -> rel b c -> a <> c -> rel a c.
  Proof.
    intros a b c [_ [_ Hcy]] [Hab|[Ia Ob]] [Hbc|[Ib Oc]] Hac.
    - left; apply (ctrans a b c); assumption.
    - right; split; [apply (ina_back a b); assumption|exact Oc].
    - right; split; [exact Ia|apply (outb_fwd b c); assumption].
    - right; split; assumption.
  Qed.

  Lemma rel_antisym : forall a b, D' a -> D' b -> a <> b -> rel a b -> rel b a -> False.
  Proof.
    intros a b Da Db Hab [H1|[Ia Ob]] [H2|[Ib Oa]].
    - apply (canti a b Hab H1 H2).
    - pose proof (ina_back a b H1 Ib) as Ia.
      destruct (Nat.eq_dec a xs) as [->|Hax]; [|apply (in_out_absurd a Da Hax Ia Oa)].
      destruct Ib as [F|Hb]; [congruence|]. apply (canti xs b Hab H1 Hb).
    - pose proof (ina_back b a H2 Ia) as Ib.
      destruct (Nat.eq_dec b xs) as [->|Hbx]; [|apply (in_out_absurd b Db Hbx Ib Ob)].
      destruct Ia as [F|Ha]; [congruence|]. apply (canti xs a); [congruence|exact H2|exact Ha].
    - destruct (Nat.eq_dec a xs) as [->|Hax]; [|apply (in_out_absurd a Da Hax Ia Oa)].
      apply (in_out_absurd b Db); [congruence|exact Ib|exact Ob].
  Qed.

  (* ---- the final state *)
  Section Final.
    Variable st6 : truf.
    Hypothesis Hs6 : sinv st6.
    Hypothesis Hids6 : t_ids st6 = t_ids st.
    Hypothesis Hn6 : nsets st6 = nsets st.
    Hypothesis Hc6 : forall k, aget k (t_conn st6) = if existsb (Nat.eqb k) l then None else aget k c8.
    Hypothesis Hr6 : forall k, aget k (t_rev st6) = if existsb (Nat.eqb k) l then None else aget k r8.
    Hypothesis Hkc : NoDup (map fst (t_conn st6)).
    Hypothesis Hkr : NoDup (map fst (t_rev st6)).
    Hypothesis Hd6 : forall d, dominant st6 d <-> dominant st d /\ ~ In d l.
    Hypothesis Hm6 : forall s u, mem_of st6 s u <->
       (s = xs /\ (mem_of st xs u \/ exists z, In z l /\ mem_of st z u)) \/
       (s <> xs /\ ~ In s l /\ mem_of st s u).
    Hypothesis Hdt6 : forall t d, dom_to st t d -> dom_to st6 t (if existsb (Nat.eqb d) l then xs else d).
    Let Fn := final st6.

    Lemma domF : forall d, dominant Fn d <-> D' d.
    Proof.
      intros d. change (dominant Fn d) with (dominant st6 d). rewrite Hd6, in_l. unfold D'. tauto.
    Qed.
    Lemma xs_notl : ~ In xs l.
    Proof. rewrite in_l. intros [H|H]; [apply xs_notM; exact H|congruence]. Qed.
    Lemma lk : forall k, existsb (Nat.eqb k) l = true <-> In k l.
    Proof. intros; apply existsb_in. Qed.

    Lemma eget6c : forall a, eget a (t_conn st6) = if existsb (Nat.eqb a) l then [] else eget a c8.
    Proof. intros a. unfold eget. rewrite Hc6. destruct (existsb (Nat.eqb a) l); reflexivity. Qed.
    Lemma eget6r : forall a, eget a (t_rev st6) = if existsb (Nat.eqb a) l then [] else eget a r8.
    Proof. intros a. unfold eget. rewrite Hr6. destruct (existsb (Nat.eqb a) l); reflexivity. Qed.

    Lemma cnF_iff : forall a b, cn Fn a b <->
      (a = xs /\ has c8 xs b /\ b <> ys /\ ~ In b M') \/ (a <> xs /\ ~ In a l /\ has c8 a b).
    Proof.
      intros a b. unfold cn, Fn, final; cbn [t_conn]. rewrite has_aset, in_sdiff, in_srem, !eget6c.
      pose proof xs_notl as Hx. destruct (existsb (Nat.eqb xs) l) eqn:Ex; [apply lk in Ex; contradiction|].
      destruct (existsb (Nat.eqb a) l) eqn:Ea.
      - apply lk in Ea. cbn. intuition congruence.
      - assert (~ In a l) by (intros Hi; apply lk in Hi; congruence). intuition congruence.
    Qed.
    Lemma rvF_iff : forall a b, rv Fn a b <->
      (a = xs /\ has r8 xs b /\ b <> ys /\ ~ In b M') \/ (a <> xs /\ ~ In a l /\ has r8 a b).
    Proof.
      intros a b. unfold rv, Fn, final; cbn [t_rev]. rewrite has_aset, in_sdiff, in_srem, !eget6r.
      pose proof xs_notl as Hx. destruct (existsb (Nat.eqb xs) l) eqn:Ex; [apply lk in Ex; contradiction|].
      destruct (existsb (Nat.eqb a) l) eqn:Ea.
      - apply lk in Ea. cbn. intuition congruence.
      - assert (~ In a l) by (intros Hi; apply lk in Hi; congruence). intuition congruence.
    Qed.

    Lemma key_V : forall (m : mset) a b, mgood V m -> has m a b -> V a.
    Proof. intros m a b G H. apply (mrange_has V m a b); [apply G|exact H]. Qed.

    Lemma cnF_D' : forall a b, cn Fn a b -> D' a /\ D' b.
    Proof.
      intros a b H. apply cnF_iff in H. destruct H as [[-> [H _]]|[Hax [Hal H]]].
      - split; [exact D'xs|apply (Cf_range xs b D'xs H)].
      - assert (Da : D' a).
        { rewrite in_l in Hal. split; [apply (key_V c8 a b good_c8 H)|]. split; tauto. }
        split; [exact Da|apply (Cf_range a b Da H)].
    Qed.
    Lemma rvF_D' : forall a b, rv Fn a b -> D' a /\ D' b.
    Proof.
      intros a b H. apply rvF_iff in H. destruct H as [[-> [H [H1 H2]]]|[Hax [Hal H]]].
      - split; [exact D'xs|apply (Rf_range xs b D'xs H); intros _; split; assumption].
      - assert (Da : D' a).
        { rewrite in_l in Hal. split; [apply (key_V r8 a b good_r8 H)|]. split; tauto. }
        split; [exact Da|apply (Rf_range a b Da H); intros ->; congruence].
    Qed.

    Lemma cnF_rel : forall a b, a <> b -> (cn Fn a b <-> D' a /\ D' b /\ rel a b).
    Proof.
      intros a b Hab. split.
      - intros H. destruct (cnF_D' a b H) as [Da Db]. split; [exact Da|]. split; [exact Db|].
        apply cnF_iff in H. apply (Cf_char a b Da Db Hab). destruct H as [[-> [H _]]|[_ [_ H]]]; exact H.
      - intros [Da [Db H]]. apply (Cf_char a b Da Db Hab) in H. apply cnF_iff.
        pose proof Db as [_ [Mb Hby]]. pose proof Da as [_ [Ma Hay]].
        destruct (Nat.eq_dec a xs) as [->|Hax]; [left; auto|right]. split; [exact Hax|]. split; [|exact H].
        rewrite in_l. tauto.
    Qed.
    Lemma rvF_rel : forall a b, a <> b -> (rv Fn b a <-> D' a /\ D' b /\ rel a b).
    Proof.
      intros a b Hab. assert (Hba : b <> a) by congruence. split.
      - intros H. destruct (rvF_D' b a H) as [Db Da]. split; [exact Da|]. split; [exact Db|].
        apply rvF_iff in H. apply (Rf_char b a Db Da Hba). destruct H as [[-> [H _]]|[_ [_ H]]]; exact H.
      - intros [Da [Db H]]. apply (Rf_char b a Db Da Hba) in H. apply rvF_iff.
        pose proof Db as [_ [Mb Hby]]. pose proof Da as [_ [Ma Hay]].
        destruct (Nat.eq_dec b xs) as [->|Hbx]; [left; auto|right]. split; [exact Hbx|]. split; [|exact H].
        rewrite in_l. tauto.
    Qed.

    (* ---- meaning of the final state *)
    Lemma mem_dominant : forall a u, mem_of st a u -> dominant st a.
    Proof.
      intros a u H. split; [apply (mem_of_lt st a u H)|].
      destruct (aget a (t_subs st)) eqn:Ea; [|reflexivity].
      pose proof (c_subsumed_empty E' st Hc a n Ea) as He. destruct H as [la [Hl Hi]].
      rewrite He in Hl. inversion Hl; subst. destruct Hi.
    Qed.

    Lemma oldc : forall a u, mem_of st6 a u -> exists a0, mem_of st a0 u /\ dominant st a0 /\
      ((a0 = a /\ a <> xs /\ ~ In a l) \/ (a = xs /\ (a0 = xs \/ In a0 l))).
    Proof.
      intros a u H. apply Hm6 in H. destruct H as [[-> [H|[z [Hz H]]]]|[Hax [Hal H]]].
      - exists xs. split; [exact H|]. split; [exact Hdx|]. right; auto.
      - exists z. split; [exact H|]. split; [apply (mem_dominant z u H)|]. right; auto.
      - exists a. split; [exact H|]. split; [apply (mem_dominant a u H)|]. left; auto.
    Qed.

    Lemma l_cases : forall z, In z l -> (z = ys \/ In z M').
    Proof. intros z H. apply in_l in H. tauto. Qed.

    Lemma merged_equiv : forall z u, (z = xs \/ In z l) -> mem_of st z u -> rtc E' u x /\ rtc E' x u.
    Proof.
      intros z u Hz Hu.
      assert (Hxy : rtc E' x y) by (apply rtc_e; unfold E'; apply in_app_iff; right; now left).
      destruct Hz as [->|Hz].
      - split; apply (c_class E' st Hc xs); assumption.
      - destruct (l_cases z Hz) as [->|Mz].
        + assert (Huy : rtc E' u y) by (apply (c_class E' st Hc ys); assumption).
          assert (Hyu : rtc E' y u) by (apply (c_class E' st Hc ys); assumption).
          split; [|eapply rtc_t; eassumption].
          eapply rtc_t; [exact Huy|]. apply (c_conn_sound E' st Hc ys xs y x Hback Hmy Hmx).
        + apply in_M' in Mz. destruct Mz as [M1 [M2 _]]. split.
          * apply (c_conn_sound E' st Hc z xs u x M2 Hu Hmx).
          * eapply rtc_t; [exact Hxy|]. apply (c_conn_sound E' st Hc ys z y u M1 Hmy Hu).
    Qed.

    (* every member of a final class is equivalent to a member of the old class with the same id *)
    Lemma rep : forall a u, D' a -> mem_of st6 a u -> exists u0, mem_of st a u0 /\ rtc E' u u0 /\ rtc E' u0 u.
    Proof.
      intros a u Da H. destruct (oldc a u H) as [a0 [Hm0 [_ [[-> _]|[-> Hz]]]]].
      - exists u. split; [exact Hm0|]. split; apply (c_class E' st Hc a); assumption.
      - exists x. split; [exact Hmx|]. apply (merged_equiv a0 u Hz Hm0).
    Qed.

    Lemma class_sound : forall s u v, mem_of st6 s u -> mem_of st6 s v -> rtc E' u v.
    Proof.
      intros s u v Hu Hv. destruct (oldc s u Hu) as [a0 [Hm0 [_ [[-> [Hsx Hsl]]|[-> Hz]]]]].
      - apply Hm6 in Hv. destruct Hv as [[F _]|[_ [_ Hv]]]; [congruence|]. apply (c_class E' st Hc s); assumption.
      - destruct (oldc xs v Hv) as [b0 [Hmb [_ [[_ [F _]]|[_ Hzb]]]]]; [congruence|].
        destruct (merged_equiv a0 u Hz Hm0) as [H1 _]. destruct (merged_equiv b0 v Hzb Hmb) as [_ H2].
        eapply rtc_t; eassumption.
    Qed.

    Lemma rel_sound : forall a b u0 v0, rel a b -> mem_of st a u0 -> mem_of st b v0 -> rtc E' u0 v0.
    Proof.
      intros a b u0 v0 [H|[Ia Ob]] Hu Hv; [apply (c_conn_sound E' st Hc a b); assumption|].
      assert (Hxy : rtc E' x y) by (apply rtc_e; unfold E'; apply in_app_iff; right; now left).
      assert (H1 : rtc E' u0 x).
      { destruct Ia as [->|Ia]; [apply (c_class E' st Hc xs); assumption|apply (c_conn_sound E' st Hc a xs); assumption]. }
      assert (H2 : rtc E' y v0).
      { destruct Ob as [->|Ob]; [apply (c_conn_sound E' st Hc ys xs); assumption|apply (c_conn_sound E' st Hc ys b); assumption]. }
      eapply rtc_t; [exact H1|]. eapply rtc_t; eassumption.
    Qed.

    Lemma conn_sound : forall a b u v, cn Fn a b -> mem_of st6 a u -> mem_of st6 b v -> rtc E' u v.
    Proof.
      intros a b u v H Hu Hv. destruct (Nat.eq_dec a b) as [->|Hab]; [apply (class_sound b); assumption|].
      apply (cnF_rel a b Hab) in H. destruct H as [Da [Db Hr]].
      destruct (rep a u Da Hu) as [u0 [Hu0 [H1 _]]]. destruct (rep b v Db Hv) as [v0 [Hv0 [_ H2]]].
      eapply rtc_t; [exact H1|]. eapply rtc_t; [|exact H2]. apply (rel_sound a b); assumption.
    Qed.

    (* completeness *)
    Lemma proj_in : forall a a0 u, D' a -> mem_of st a0 u -> dominant st a0 ->
      ((a0 = a /\ a <> xs /\ ~ In a l) \/ (a = xs /\ (a0 = xs \/ In a0 l))) ->
      (a0 = xs \/ cn st a0 xs) -> ina a.
    Proof.
      intros a a0 u Da Hm Hd [[-> _]|[-> _]] H; [exact H|left; reflexivity].
    Qed.

    Lemma to_ina : forall a a0, ((a0 = a /\ a <> xs /\ ~ In a l) \/ (a = xs /\ (a0 = xs \/ In a0 l))) ->
      (a0 = xs \/ cn st a0 xs) -> ina a.
    Proof. intros a a0 [[-> _]|[-> _]] H; [exact H|left; reflexivity]. Qed.
    Lemma to_outb : forall b b0, ((b0 = b /\ b <> xs /\ ~ In b l) \/ (b = xs /\ (b0 = xs \/ In b0 l))) ->
      (b0 = ys \/ cn st ys b0) -> outb b.
    Proof.
      intros b b0 [[-> [_ Hbl]]|[-> _]] H; [|left; reflexivity].
      destruct H as [->|H]; [exfalso; apply Hbl, in_l; auto|right; exact H].
    Qed.

    Lemma old_edge_rel : forall a b a0 b0, D' a -> D' b -> a <> b ->
      ((a0 = a /\ a <> xs /\ ~ In a l) \/ (a = xs /\ (a0 = xs \/ In a0 l))) ->
      ((b0 = b /\ b <> xs /\ ~ In b l) \/ (b = xs /\ (b0 = xs \/ In b0 l))) ->
      cn st a0 b0 -> rel a b.
    Proof.
      intros a b a0 b0 Da Db Hab Ha Hb H.
      pose proof Da as [_ [Ma Hay]]. pose proof Db as [_ [Mb Hby]].
      destruct Ha as [[-> [Hax Hal]]|[-> Ha]]; destruct Hb as [[-> [Hbx Hbl]]|[-> Hb]].
      - left; exact H.
      - destruct Hb as [->|Hb]; [left; exact H|]. right. split; [|left; reflexivity].
        destruct (l_cases b0 Hb) as [->|Mb0]; [apply ina_of_ys; assumption|].
        apply in_M' in Mb0. right. apply (ctrans a b0 xs); tauto.
      - destruct Ha as [->|Ha]; [left; exact H|]. right. split; [left; reflexivity|]. right.
        destruct (l_cases a0 Ha) as [->|Ma0]; [exact H|].
        apply in_M' in Ma0. apply (ctrans ys a0 b); [tauto|exact H|congruence].
      - congruence.
    Qed.

    Lemma complete_Fn : forall a b u v, D' a -> D' b -> mem_of st6 a u -> mem_of st6 b v ->
      rtc E' u v -> a = b \/ cn Fn a b.
    Proof.
      intros a b u v Da Db Hu Hv Hr.
      destruct (Nat.eq_dec a b) as [Hab|Hab]; [left; exact Hab|right].
      destruct (oldc a u Hu) as [a0 [Hma [Hda Ha]]]. destruct (oldc b v Hv) as [b0 [Hmb [Hdb Hb]]].
      apply (cnF_rel a b Hab). split; [exact Da|]. split; [exact Db|].
      apply rtc_snoc_inv in Hr. destruct Hr as [Hr|[[Hux Hyv]|[-> _]]].
      - destruct (Hcm a0 b0 u v Hda Hdb Hma Hmb Hr) as [Heq|He].
        + exfalso. apply Hab.
          destruct Ha as [[Ha1 [Ha2 Ha3]]|[Ha1 Ha2]]; destruct Hb as [[Hb1 [Hb2 Hb3]]|[Hb1 Hb2]]; try congruence.
          * exfalso. destruct Hb2 as [Hb2|Hb2]; [congruence|]. apply Ha3. congruence.
          * exfalso. destruct Ha2 as [Ha2|Ha2]; [congruence|]. apply Hb3. congruence.
        + apply (old_edge_rel a b a0 b0); assumption.
      - right. split.
        + apply (to_ina a a0 Ha). destruct Hux as [->|Hux].
          * left. apply (cmem_disj E' st Hc a0 xs x); assumption.
          * apply (Hcm a0 xs u x Hda Hdx Hma Hmx Hux).
        + apply (to_outb b b0 Hb). destruct Hyv as [->|Hyv].
          * left. apply (cmem_disj E' st Hc b0 ys y); assumption.
          * destruct (Hcm ys b0 y v Hdy Hdb Hmy Hmb Hyv) as [<-|He]; [left; reflexivity|right; exact He].
      - exfalso. apply Hab. apply (sinv_mem_disj st6 Hs6 a b v); assumption.
    Qed.

    Lemma aset_keeps : forall (m : list (nat * nat)) k v z, aget z m <> None -> aget z (aset k v m) <> None.
    Proof. intros m k v z H. rewrite aget_aset. destruct (Nat.eqb z k); [discriminate|exact H]. Qed.

    Lemma dom_xs6 : dom_to st6 xs xs.
    Proof.
      pose proof (Hdt6 xs xs (dominant_dom_to st xs Hdx)) as H.
      destruct (existsb (Nat.eqb xs) l) eqn:Ex; [apply lk in Ex; exfalso; apply xs_notl; exact Ex|exact H].
    Qed.

    Lemma wfF : forall (m6 m8 : mset), mgood V m8 -> NoDup (map fst m6) ->
      (forall k, aget k m6 = if existsb (Nat.eqb k) l then None else aget k m8) ->
      (forall a b, In b (eget a (aset xs (sdiff (srem ys (eget xs m6)) M') m6)) -> D' a /\ D' b) ->
      mset_wf Fn (aset xs (sdiff (srem ys (eget xs m6)) M') m6).
    Proof.
      intros m6 m8 G Hk Hg Hrange. split; [apply nodup_keys_aset; exact Hk|].
      intros k c Hkcc.
      assert (Hc' : eget k (aset xs (sdiff (srem ys (eget xs m6)) M') m6) = c) by (apply eget_some; exact Hkcc).
      assert (Hn : NoDup c /\ D' k).
      { rewrite aget_aset in Hkcc. destruct (Nat.eqb_spec k xs) as [->|Hkx].
        - inversion Hkcc; subst. split; [|exact D'xs]. apply nodup_sdiff, nodup_srem.
          unfold eget. rewrite Hg. destruct (existsb (Nat.eqb xs) l); [constructor|].
          apply (mgood_eget V m8 xs G).
        - rewrite Hg in Hkcc. destruct (existsb (Nat.eqb k) l) eqn:Ek; [discriminate|].
          destruct G as [[_ Gn] Gr]. split; [apply (Gn k c Hkcc)|].
          assert (~ In k l) by (intros Hi; apply lk in Hi; congruence). rewrite in_l in H.
          split; [apply (proj1 (Gr k c Hkcc))|tauto]. }
      destruct Hn as [Hn Dk]. split; [apply domF; exact Dk|]. split; [exact Hn|].
      intros j Hj. apply domF. rewrite <- Hc' in Hj. apply (Hrange k j Hj).
    Qed.

    Theorem final_inv : tinvP P E' Fn.
    Proof.
      constructor.
      - exact (s_subs_range st6 Hs6).
      - exact (s_subs_keys st6 Hs6).
      - exact (s_subs_dom st6 Hs6).
      - exact (s_sets_nodup st6 Hs6).
      - exact (s_subsumed_empty st6 Hs6).
      - (* ids *)
        intros z i Hz. unfold Fn, final in Hz; cbn [t_ids] in Hz. rewrite !aget_aset in Hz.
        destruct (Nat.eqb_spec z y) as [->|Hzy].
        + inversion Hz; subst. split; [change (xs < nsets st6); rewrite Hn6; apply Hdx|].
          exists xs. split; [exact dom_xs6|]. apply Hm6. left. split; [reflexivity|]. right. exists ys. split; [apply in_l; auto|exact Hmy].
        + destruct (Nat.eqb_spec z x) as [->|Hzx].
          * inversion Hz; subst. split; [change (xs < nsets st6); rewrite Hn6; apply Hdx|].
            exists xs. split; [exact dom_xs6|]. apply Hm6. left. auto.
          * exact (s_ids_mem st6 Hs6 z i Hz).
      - intros s u Hu. unfold Fn, final; cbn [t_ids]. apply aset_keeps, aset_keeps. exact (s_mem_ids st6 Hs6 s u Hu).
      - unfold Fn, final; cbn [t_ids]. apply nodup_keys_aset, nodup_keys_aset. exact (s_ids_keys st6 Hs6).
      - apply (wfF (t_conn st6) c8 good_c8 Hkc Hc6). intros a b H. apply (cnF_D' a b H).
      - apply (wfF (t_rev st6) r8 good_r8 Hkr Hr6). intros a b H. apply (rvF_D' a b H).
      - intros d Hd. apply domF in Hd. unfold Fn, final; cbn [t_conn t_rev]. rewrite !ahas_aset.
        destruct (Nat.eqb_spec d xs) as [->|Hdxs]; [right; split; reflexivity|]. cbn [orb].
        pose proof Hd as [Hd1 [Hd2 Hd3]].
        assert (Hl : existsb (Nat.eqb d) l = false).
        { destruct (existsb (Nat.eqb d) l) eqn:Ed; [|reflexivity]. apply lk, in_l in Ed. tauto. }
        destruct (Hp d Hd1) as [Hpd|[K1 K2]]; [left; exact Hpd|right].
        unfold ahas. rewrite Hc6, Hr6, Hl. split; [apply (ahas_c8 d (or_introl K1))|apply (ahas_r8 d (or_introl K2))].
      - exact (s_nonempty st6 Hs6).
      - intros a b Hab. rewrite (cnF_rel a b Hab), (rvF_rel a b Hab). reflexivity.
      - intros a b c Hab Hbc Hac.
        destruct (Nat.eq_dec a b) as [->|Nab]; [exact Hbc|]. destruct (Nat.eq_dec b c) as [<-|Nbc]; [exact Hab|].
        apply (cnF_rel a b Nab) in Hab. apply (cnF_rel b c Nbc) in Hbc. apply (cnF_rel a c Hac).
        destruct Hab as [Da [Db Rab]]. destruct Hbc as [_ [Dc Rbc]]. split; [exact Da|]. split; [exact Dc|].
        apply (rel_trans a b c); assumption.
      - intros a b Hab H1 H2. apply (cnF_rel a b Hab) in H1. assert (Hba : b <> a) by congruence.
        apply (cnF_rel b a Hba) in H2. destruct H1 as [Da [Db R1]]. destruct H2 as [_ [_ R2]].
        apply (rel_antisym a b); assumption.
      - (* m_ids *)
        intros z. unfold Fn, final; cbn [t_ids]. split.
        + rewrite !aget_aset. destruct (Nat.eqb_spec z y) as [->|Hzy]; [intros _; apply mentioned_snoc; auto|].
          destruct (Nat.eqb_spec z x) as [->|Hzx]; [intros _; apply mentioned_snoc; auto|].
          rewrite Hids6. apply (c_ids_ment E' st Hc).
        + intros Hz. apply aset_keeps, aset_keeps. rewrite Hids6. apply Hids; exact Hz.
      - exact class_sound.
      - exact conn_sound.
      - intros a b u v Ha Hb. apply domF in Ha. apply domF in Hb. apply complete_Fn; assumption.
    Qed.
  End Final.

  Theorem collapse_main : exists st', collapse_branch st x y xs ys = Ok (st', true) /\ tinvP P E' st'.
  Proof.
    destruct collapse_run as [st6 [Hrun [Hs6 [Hids6 [Hn6 [Hc6 [Hr6 [Hkc [Hkr [Hd6 [Hm6 Hdt6]]]]]]]]]]].
    exists (final st6). split; [exact Hrun|]. apply final_inv; assumption.
  Qed.
End Collapse.

Theorem collapse_spec : forall {P : nat -> Prop}, mm_collapse_stmt -> collapse_ok_stmt P.
Proof.
  intros P Hmc E st x y xs ys Hc Hp Hcm Hids Hdx Hdy Hne Hmx Hmy Hback.
  apply (collapse_main P E st x y xs ys); assumption.
Qed.
