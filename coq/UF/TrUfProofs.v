(* C18, TrRelUnionFind: the theorems over all histories of add operations.
   tinv (TrUfInv.v) holds on the empty structure (TrUfCases.v), is preserved by every add
   (TrUfCases.v for the branches without collapse, TrUfCollapse.v + TrUfMerge.v for the collapse
   through merge_multiple, TrUfNode.v for add_node_new, TrUfGraph.v / TrUfStep.v for
   add_set_connection), and determines every query (TrUfQueries.v). *)
From Coq Require Import List Arith Bool Lia Relations.
From AV Require Import UF.UfBase.
From AV Require Import UF.TrUfModel.
From AV Require Import UF.TrUfInv.
From AV Require Import UF.TrUfQueries.
From AV Require Import UF.TrUfCore.
From AV Require Import UF.TrUfNode.
From AV Require Import UF.TrUfMerge.
From AV Require Import UF.TrUfCases.
From AV Require Import UF.TrUfCollapse.
Import ListNotations.

Theorem tr_add_inv : forall E st x y, tinv E st ->
  exists st' b, tr_add st x y = Ok (st', b) /\ tinv (E ++ [(x, y)]) st'.
Proof. exact (tr_add_inv_gen (collapse_spec mm_collapse_spec)). Qed.

Theorem tr_run_inv : forall adds E st, tinv E st ->
  exists st', tr_run st adds = Ok st' /\ tinv (E ++ adds) st'.
Proof.
  induction adds as [|[x y] rest IH]; intros E st H.
  - exists st. split; [reflexivity|]. rewrite app_nil_r; exact H.
  - destruct (tr_add_inv E st x y H) as [st1 [b [Ha H1]]].
    destruct (IH _ _ H1) as [st' [Hr H']]. exists st'. split.
    + cbn [tr_run]. rewrite Ha. cbn [bind]. exact Hr.
    + rewrite <- app_assoc in H'. exact H'.
Qed.

(* every history runs without error and ends in a state satisfying the invariant for exactly the pairs added *)
Theorem tr_reach : forall adds, exists st, tr_run tr_empty adds = Ok st /\ tinv adds st.
Proof. intros adds. exact (tr_run_inv adds [] tr_empty tr_empty_inv). Qed.

Lemma tr_reach_inv : forall adds st, tr_run tr_empty adds = Ok st -> tinv adds st.
Proof.
  intros adds st H. destruct (tr_reach adds) as [st' [H1 H2]]. rewrite H in H1. inversion H1; subst. exact H2.
Qed.

(* ---- the statements of the property *)
Theorem truf_total : forall adds, exists st, tr_run tr_empty adds = Ok st.
Proof. intros adds. destruct (tr_reach adds) as [st [H _]]. exists st; exact H. Qed.

Theorem truf_asserts : forall adds st, tr_run tr_empty adds = Ok st ->
  disjoint_ok st = true /\ dominant_ok st = true.
Proof. intros adds st H. exact (q_asserts adds st (tr_reach_inv adds st H)). Qed.

Theorem truf_contains : forall adds st, tr_run tr_empty adds = Ok st -> forall x y,
  exists b, tr_contains st x y = Ok b /\ (b = true <-> rtc adds x y).
Proof. intros adds st H. exact (q_contains adds st (tr_reach_inv adds st H)). Qed.

Theorem truf_set_of : forall adds st, tr_run tr_empty adds = Ok st -> forall x,
  exists o, tr_set_of st x = Ok o /\ (o = None <-> ~ mentioned adds x) /\
            forall l, o = Some l -> NoDup l /\ forall y, In y l <-> rtc adds x y.
Proof. intros adds st H. exact (q_set_of adds st (tr_reach_inv adds st H)). Qed.

Theorem truf_rev_set_of : forall adds st, tr_run tr_empty adds = Ok st -> forall x,
  exists o, tr_rev_set_of st x = Ok o /\ (o = None <-> ~ mentioned adds x) /\
            forall l, o = Some l -> NoDup l /\ forall y, In y l <-> rtc adds y x.
Proof. intros adds st H. exact (q_rev_set_of adds st (tr_reach_inv adds st H)). Qed.

Theorem truf_iter_all : forall adds st, tr_run tr_empty adds = Ok st ->
  exists l, tr_iter_all st = Ok l /\ NoDup l /\ forall x y, In (x, y) l <-> rtc adds x y.
Proof. intros adds st H. exact (q_iter_all adds st (tr_reach_inv adds st H)). Qed.

Theorem truf_count_exact : forall adds st, tr_run tr_empty adds = Ok st ->
  exists l, NoDup l /\ (forall x y, In (x, y) l <-> rtc adds x y) /\ tr_count_exact st = Ok (length l).
Proof. intros adds st H. exact (q_count_exact adds st (tr_reach_inv adds st H)). Qed.

Theorem truf_is_empty : forall adds st, tr_run tr_empty adds = Ok st -> (tr_is_empty st = true <-> adds = []).
Proof. intros adds st H. exact (q_is_empty adds st (tr_reach_inv adds st H)). Qed.

(* the specification relation is the textbook one: the transitive closure of the added pairs,
   plus the diagonal on the mentioned elements *)
Theorem rtc_char : forall E x y,
  rtc E x y <-> (x = y /\ mentioned E x) \/ clos_trans nat (fun a b => In (a, b) E) x y.
Proof.
  intros E x y; split.
  - intros H; induction H as [x y Hi|y x Hi|x y Hi|x w y H1 IH1 H2 IH2].
    + left; split; [reflexivity|exists y; now left].
    + left; split; [reflexivity|exists y; now right].
    + right; apply t_step; exact Hi.
    + destruct IH1 as [[-> _]|T1]; [exact IH2|]. destruct IH2 as [[<- _]|T2]; [right; exact T1|].
      right; eapply t_trans; eassumption.
  - intros [[<- Hm]|T]; [apply mentioned_rtc; exact Hm|].
    induction T as [a b Hi|a b c _ IH1 _ IH2]; [apply rtc_e; exact Hi|eapply rtc_t; eassumption].
Qed.

Print Assumptions tr_reach.
Print Assumptions truf_count_exact.
