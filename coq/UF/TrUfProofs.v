(* C18, TrRelUnionFind: the theorems over all histories of add operations.
   tinv (TrUfInv.v) holds on the empty structure (TrUfCases.v), is preserved by every add
   (TrUfCases.v for the branches without collapse, TrUfCollapse.v + TrUfMerge.v for the collapse
   through merge_multiple, TrUfNode.v for add_node_new, TrUfGraph.v / TrUfStep.v for
   add_set_connection), and determines every query (TrUfQueries.v). *)
From Coq Require Import List Arith Bool Lia Relations.
From AV Require Import UF.UfBase.
From AV Require Import UF.TrUfModel.
From AV Require Import UF.TrUfInv.
From AV Require Import UF.TrUfLemmas.
From AV Require Import UF.TrUfQueries.
From AV Require Import UF.TrUfCore.
From AV Require Import UF.TrUfNode.
From AV Require Import UF.TrUfMerge.
From AV Require Import UF.TrUfCases.
From AV Require Import UF.TrUfCollapse.
From AV Require Import UF.TrUfStep.
Import ListNotations.

(* The invariant is parametric in the set P of live classes that may lack entries in the connection maps
   (TrUfInv.v): tinv = tinvP (fun _ => False), tinv_weak = tinvP (fun _ => True). *)
Theorem tr_add_inv : forall {P : nat -> Prop} E st x y, tinvP P E st ->
  exists st' b, tr_add st x y = Ok (st', b) /\ tinvP P (E ++ [(x, y)]) st'.
Proof. intros P. exact (tr_add_inv_gen (collapse_spec mm_collapse_spec)). Qed.

Theorem tr_run_inv : forall {P : nat -> Prop} adds E st, tinvP P E st ->
  exists st', tr_run st adds = Ok st' /\ tinvP P (E ++ adds) st'.
Proof.
  intros P. induction adds as [|[x y] rest IH]; intros E st H.
  - exists st. split; [reflexivity|]. rewrite app_nil_r; exact H.
  - destruct (tr_add_inv E st x y H) as [st1 [b [Ha H1]]].
    destruct (IH _ _ H1) as [st' [Hr H']]. exists st'. split.
    + cbn [tr_run]. rewrite Ha. cbn [bind]. exact Hr.
    + rewrite <- app_assoc in H'. exact H'.
Qed.

(* every history runs without error and ends in a state satisfying the invariant for exactly the pairs added *)
Theorem tr_reach : forall adds, exists st, tr_run tr_empty adds = Ok st /\ tinv adds st.
Proof. intros adds. exact (tr_run_inv adds [] tr_empty tr_empty_inv). Qed.

Lemma tr_reach_inv : forall adds st, tr_run tr_empty adds = Ok st -> tinv adds st.
Proof.
  intros adds st H. destruct (tr_reach adds) as [st' [H1 H2]]. rewrite H in H1. inversion H1; subst. exact H2.
Qed.

(* ---- add_node_new: the weak invariant (classes may lack map entries) is preserved, the generating
   pair list grows by (x, x), i.e. x becomes mentioned *)
Lemma rtc_self_snoc : forall E x u v, rtc (E ++ [(x, x)]) u v -> rtc E u v \/ (u = v /\ u = x).
Proof.
  intros E x u v H. apply rtc_snoc_inv in H. destruct H as [H|[[A B]|[Huv Hx]]]; [left; exact H| |right; tauto].
  destruct A as [->|A]; destruct B as [->|B]; [right; auto|left; exact B|left; exact A|left; eapply rtc_t; eassumption].
Qed.

Theorem ann_weak : forall E st x, tinv_weak E st ->
  exists st' id fr, add_node_new st x = Ok (st', id, fr) /\ tinv_weak (E ++ [(x, x)]) st' /\
    dominant st' id /\ mem_of st' id x /\ t_conn st' = t_conn st /\ t_rev st' = t_rev st /\
    nsets st <= nsets st' /\ (forall s, s < nsets st -> nth_error (t_sets st') s = nth_error (t_sets st) s).
Proof.
  intros E st x Ht.
  pose proof (proj1 (tinv_split E st) Ht) as [Hc [_ [Hcm Hid]]].
  assert (Hc0 : cinv (E ++ [(x, x)]) st) by (eapply cinv_mono; [apply in_snoc|exact Hc]).
  assert (Mx : mentioned (E ++ [(x, x)]) x) by (apply mentioned_snoc; auto).
  destruct (ann_spec _ st x Hc0 Mx) as [st' [id [fr [He [Hc' [Hd [Hm [HC [HR [Hi [Hf Hn]]]]]]]]]]].
  exists st', id, fr. split; [exact He|].
  assert (Hold : forall a u, dominant st' a -> mem_of st' a u -> u <> x \/ fr = false -> dominant st a /\ mem_of st a u).
  { intros a u Da Mu Hux. destruct fr.
    - destruct (Hn eq_refl) as [_ [Hid' [_ [_ [Hdm Hmm]]]]]. apply Hmm in Mu. destruct Mu as [Mu|[-> ->]].
      + split; [|exact Mu]. apply Hdm in Da. destruct Da as [Da|Da]; [exact Da|].
        exfalso. subst a. pose proof (mem_of_lt st _ u Mu). subst id. lia.
      + destruct Hux as [F|F]; [congruence|discriminate].
    - destruct (Hf eq_refl) as [_ [_ [Hs Hdm]]]. split; [apply Hdm; exact Da|apply (mem_of_sets st st' Hs); exact Mu]. }
  assert (Hxnew : fr = true -> ~ mentioned E x).
  { intros Hfr Hmx. destruct (Hn Hfr) as [Hnone _]. apply (Hid x Hmx). exact Hnone. }
  split; [|split; [exact Hd|split; [exact Hm|split; [exact HC|split; [exact HR|]]]]].
  - apply tinv_split. split; [exact Hc'|]. split; [intros d _; left; exact I|]. split.
    + intros a b u v Da Db Ma Mb R. apply rtc_self_snoc in R. destruct R as [R|[-> ->]].
      * destruct (rtc_mentioned E u v R) as [Mu Mv].
        assert (Hu : u <> x \/ fr = false) by (destruct fr; [left; intros ->; apply (Hxnew eq_refl Mu)|right; reflexivity]).
        assert (Hv : v <> x \/ fr = false) by (destruct fr; [left; intros ->; apply (Hxnew eq_refl Mv)|right; reflexivity]).
        destruct (Hold a u Da Ma Hu) as [Da' Ma']. destruct (Hold b v Db Mb Hv) as [Db' Mb'].
        destruct (Hcm a b u v Da' Db' Ma' Mb' R) as [H|H]; [left; exact H|right].
        unfold cn in *. rewrite HC. exact H.
      * left. eapply (cmem_disj _ st' Hc'); eassumption.
    + intros z Hz. apply mentioned_snoc in Hz. apply Hi. destruct Hz as [Hz|[->| ->]]; [left; apply Hid; exact Hz|right; reflexivity|right; reflexivity].
  - destruct fr.
    + destruct (Hn eq_refl) as [_ [_ [Hs _]]]. unfold nsets. rewrite Hs, app_length. split; [lia|].
      intros s Hlt. rewrite nth_error_app1 by exact Hlt. reflexivity.
    + destruct (Hf eq_refl) as [_ [Hns [Hs _]]]. split; [lia|]. intros s _. rewrite Hs. reflexivity.
Qed.

(* ---- histories mixing add and add_node_new *)
Theorem tr_step_weak : forall E st o, tinv_weak E st ->
  exists st' out, tr_step st o = Ok (st', out) /\ tinv_weak (E ++ pairs_of [o]) st'.
Proof.
  intros E st o H. destruct o as [x y|x]; cbn [tr_step pairs_of map].
  - destruct (tr_add_inv E st x y H) as [st' [b [Ha H']]]. rewrite Ha. cbn [bind]. eauto.
  - destruct (ann_weak E st x H) as [st' [id [fr [Ha [H' _]]]]]. rewrite Ha. cbn [bind]. eauto.
Qed.

Theorem tr_run_ops_weak : forall ops E st, tinv_weak E st ->
  exists st', tr_run_ops st ops = Ok st' /\ tinv_weak (E ++ pairs_of ops) st'.
Proof.
  induction ops as [|o rest IH]; intros E st H.
  - exists st. split; [reflexivity|]. cbn. rewrite app_nil_r; exact H.
  - destruct (tr_step_weak E st o H) as [st1 [out [Ha H1]]].
    destruct (IH _ _ H1) as [st' [Hr H']]. exists st'. split.
    + cbn [tr_run_ops]. rewrite Ha. cbn [bind]. exact Hr.
    + rewrite <- app_assoc in H'. exact H'.
Qed.

Theorem tr_reach_ops : forall ops, exists st, tr_run_ops tr_empty ops = Ok st /\ tinv_weak (pairs_of ops) st.
Proof. intros ops. exact (tr_run_ops_weak ops [] tr_empty tr_empty_inv). Qed.

Lemma tr_reach_ops_inv : forall ops st, tr_run_ops tr_empty ops = Ok st -> tinv_weak (pairs_of ops) st.
Proof.
  intros ops st H. destruct (tr_reach_ops ops) as [st' [H1 H2]]. rewrite H in H1. inversion H1; subst. exact H2.
Qed.

(* ---- the statements of the property *)
Theorem truf_total : forall adds, exists st, tr_run tr_empty adds = Ok st.
Proof. intros adds. destruct (tr_reach adds) as [st [H _]]. exists st; exact H. Qed.

Theorem truf_asserts : forall adds st, tr_run tr_empty adds = Ok st ->
  disjoint_ok st = true /\ dominant_ok st = true.
Proof. intros adds st H. exact (q_asserts adds st (tr_reach_inv adds st H)). Qed.

Theorem truf_contains : forall adds st, tr_run tr_empty adds = Ok st -> forall x y,
  exists b, tr_contains st x y = Ok b /\ (b = true <-> rtc adds x y).
Proof. intros adds st H. exact (q_contains adds st (tr_reach_inv adds st H)). Qed.

Theorem truf_set_of : forall adds st, tr_run tr_empty adds = Ok st -> forall x,
  exists o, tr_set_of st x = Ok o /\ (o = None <-> ~ mentioned adds x) /\
            forall l, o = Some l -> NoDup l /\ forall y, In y l <-> rtc adds x y.
Proof. intros adds st H. exact (q_set_of adds st (tr_reach_inv adds st H)). Qed.

Theorem truf_rev_set_of : forall adds st, tr_run tr_empty adds = Ok st -> forall x,
  exists o, tr_rev_set_of st x = Ok o /\ (o = None <-> ~ mentioned adds x) /\
            forall l, o = Some l -> NoDup l /\ forall y, In y l <-> rtc adds y x.
Proof. intros adds st H. exact (q_rev_set_of adds st (tr_reach_inv adds st H)). Qed.

Theorem truf_iter_all : forall adds st, tr_run tr_empty adds = Ok st ->
  exists l, tr_iter_all st = Ok l /\ NoDup l /\ forall x y, In (x, y) l <-> rtc adds x y.
Proof. intros adds st H. exact (q_iter_all adds st (tr_reach_inv adds st H)). Qed.

Theorem truf_count_exact : forall adds st, tr_run tr_empty adds = Ok st ->
  exists l, NoDup l /\ (forall x y, In (x, y) l <-> rtc adds x y) /\ tr_count_exact st = Ok (length l).
Proof. intros adds st H. exact (q_count_exact adds st (tr_reach_inv adds st H)). Qed.

Theorem truf_is_empty : forall adds st, tr_run tr_empty adds = Ok st -> (tr_is_empty st = true <-> adds = []).
Proof. intros adds st H. exact (q_is_empty adds st (tr_reach_inv adds st H)). Qed.

(* ---- the same statements for histories that also call add_node_new *)
Theorem truf_ops_total : forall ops, exists st, tr_run_ops tr_empty ops = Ok st.
Proof. intros ops. destruct (tr_reach_ops ops) as [st [H _]]. exists st; exact H. Qed.
Theorem truf_ops_asserts : forall ops st, tr_run_ops tr_empty ops = Ok st ->
  disjoint_ok st = true /\ dominant_ok st = true.
Proof. intros ops st H. exact (q_asserts _ st (tr_reach_ops_inv ops st H)). Qed.
Theorem truf_ops_contains : forall ops st, tr_run_ops tr_empty ops = Ok st -> forall x y,
  exists b, tr_contains st x y = Ok b /\ (b = true <-> rtc (pairs_of ops) x y).
Proof. intros ops st H. exact (q_contains _ st (tr_reach_ops_inv ops st H)). Qed.
Theorem truf_ops_set_of : forall ops st, tr_run_ops tr_empty ops = Ok st -> forall x,
  exists o, tr_set_of st x = Ok o /\ (o = None <-> ~ mentioned (pairs_of ops) x) /\
            forall l, o = Some l -> NoDup l /\ forall y, In y l <-> rtc (pairs_of ops) x y.
Proof. intros ops st H. exact (q_set_of _ st (tr_reach_ops_inv ops st H)). Qed.
Theorem truf_ops_rev_set_of : forall ops st, tr_run_ops tr_empty ops = Ok st -> forall x,
  exists o, tr_rev_set_of st x = Ok o /\ (o = None <-> ~ mentioned (pairs_of ops) x) /\
            forall l, o = Some l -> NoDup l /\ forall y, In y l <-> rtc (pairs_of ops) y x.
Proof. intros ops st H. exact (q_rev_set_of _ st (tr_reach_ops_inv ops st H)). Qed.
Theorem truf_ops_iter_all : forall ops st, tr_run_ops tr_empty ops = Ok st ->
  exists l, tr_iter_all st = Ok l /\ NoDup l /\ forall x y, In (x, y) l <-> rtc (pairs_of ops) x y.
Proof. intros ops st H. exact (q_iter_all _ st (tr_reach_ops_inv ops st H)). Qed.
Theorem truf_ops_count_exact : forall ops st, tr_run_ops tr_empty ops = Ok st ->
  exists l, NoDup l /\ (forall x y, In (x, y) l <-> rtc (pairs_of ops) x y) /\ tr_count_exact st = Ok (length l).
Proof. intros ops st H. exact (q_count_exact _ st (tr_reach_ops_inv ops st H)). Qed.
(* a history of adds only is the special case *)
Lemma tr_run_ops_adds : forall adds st, tr_run_ops st (map (fun p => TAdd (fst p) (snd p)) adds) = tr_run st adds.
Proof.
  induction adds as [|[x y] rest IH]; intros st; [reflexivity|]. cbn [map tr_run_ops tr_step tr_run fst snd].
  destruct (tr_add st x y) as [[st1 b]|e]; cbn [bind]; [apply IH|reflexivity].
Qed.

(* ---- the facts about a state that the trrel_uf provider proof (C12, truf_iface) consumes, for every exempt set P
   (in particular for tinv_weak): listed connections join non-empty classes whose members are related *)
Lemma listed_nonempty : forall {P : nat -> Prop} E st (H : tinvP P E st) m a s b, mset_wf st m -> In (a, s) m -> In b s ->
  aget a m = Some s /\ (exists x, mem_of st a x) /\ (exists y, mem_of st b y).
Proof.
  intros P E st H m a s b Hw Hin Hb. pose proof Hw as [Hnd Hwf].
  pose proof (in_aget _ _ _ _ Hnd Hin) as Hag. destruct (Hwf _ _ Hag) as [Ha [_ Hj]].
  split; [exact Hag|]. split; [apply (w_nonempty _ _ H); exact Ha|apply (w_nonempty _ _ H), Hj; exact Hb].
Qed.
Theorem weak_conn_good : forall {P : nat -> Prop} E st a s b, tinvP P E st -> In (a, s) (t_conn st) -> In b s ->
  (exists x, mem_of st a x) /\ (exists y, mem_of st b y) /\ forall x y, mem_of st a x -> mem_of st b y -> rtc E x y.
Proof.
  intros P E st a s b H Hin Hb. destruct (listed_nonempty E st H _ a s b (w_conn _ _ H) Hin Hb) as [Hag [Hx Hy]].
  split; [exact Hx|]. split; [exact Hy|]. intros x y Mx My. apply (m_conn _ _ H a b); try assumption.
  unfold cn, eget. rewrite Hag. exact Hb.
Qed.
Theorem weak_rev_good : forall {P : nat -> Prop} E st a s b, tinvP P E st -> In (a, s) (t_rev st) -> In b s ->
  (exists x, mem_of st b x) /\ (exists y, mem_of st a y) /\ forall x y, mem_of st b x -> mem_of st a y -> rtc E x y.
Proof.
  intros P E st a s b H Hin Hb. destruct (listed_nonempty E st H _ a s b (w_rev _ _ H) Hin Hb) as [Hag [Hx Hy]].
  split; [exact Hy|]. split; [exact Hx|]. intros x y Mx My.
  destruct (Nat.eq_dec b a) as [->|Hneq]; [eapply (m_class _ _ H); eassumption|].
  apply (m_conn _ _ H b a); try assumption. apply (g_conv _ _ H b a Hneq). unfold rv, eget. rewrite Hag. exact Hb.
Qed.
Theorem weak_class : forall {P : nat -> Prop} E st s x y, tinvP P E st -> mem_of st s x -> mem_of st s y -> rtc E x y.
Proof. intros P E st s x y H. apply (m_class _ _ H). Qed.
Theorem weak_elem : forall {P : nat -> Prop} E st x, tinvP P E st ->
  exists o, elem_set st x = Ok o /\ forall s, o = Some s -> mem_of st s x.
Proof.
  intros P E st x H. destruct (elem_set_cases E st H x) as [[He _]|[d [He [_ [Hm _]]]]]; rewrite He; eexists; (split; [reflexivity|]).
  - discriminate.
  - intros s Hs. inversion Hs; subst. exact Hm.
Qed.

(* the specification relation is the textbook one: the transitive closure of the added pairs,
   plus the diagonal on the mentioned elements *)
Theorem rtc_char : forall E x y,
  rtc E x y <-> (x = y /\ mentioned E x) \/ clos_trans nat (fun a b => In (a, b) E) x y.
Proof.
  intros E x y; split.
  - intros H; induction H as [x y Hi|y x Hi|x y Hi|x w y H1 IH1 H2 IH2].
    + left; split; [reflexivity|exists y; now left].
    + left; split; [reflexivity|exists y; now right].
    + right; apply t_step; exact Hi.
    + destruct IH1 as [[-> _]|T1]; [exact IH2|]. destruct IH2 as [[<- _]|T2]; [right; exact T1|].
      right; eapply t_trans; eassumption.
  - intros [[<- Hm]|T]; [apply mentioned_rtc; exact Hm|].
    induction T as [a b Hi|a b c _ IH1 _ IH2]; [apply rtc_e; exact Hi|eapply rtc_t; eassumption].
Qed.

Print Assumptions tr_reach.
Print Assumptions tr_reach_ops.
Print Assumptions ann_weak.
Print Assumptions truf_count_exact.
