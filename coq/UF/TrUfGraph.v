(* C18, TrRelUnionFind: graph-level analysis of add_set_connection (set_connections /
   reverse_set_connections as relations on class ids). *)
From Coq Require Import List Arith Bool Lia.
From AV Require Import UF.UfBase.
From AV Require Import UF.TrUfModel.
From AV Require Import UF.TrUfLemmas.
Import ListNotations.

(* b is listed under a *)
Notation has m a b := (In b (eget a m)) (only parsing).

Lemma has_aset : forall m k v a b, has (aset k v m) a b <-> (a = k /\ In b v) \/ (a <> k /\ has m a b).
Proof.
  intros; rewrite eget_aset. destruct (Nat.eqb_spec a k); intuition.
Qed.
Lemma has_ensure : forall m k a b, has (ensure k m) a b <-> has m a b.
Proof. intros; rewrite eget_ensure; reflexivity. Qed.
Lemma has_arem : forall m k a b, has (arem k m) a b <-> a <> k /\ has m a b.
Proof. intros; rewrite eget_arem. destruct (Nat.eqb_spec a k); cbn; intuition. Qed.

(* values are duplicate-free lists, keys are distinct *)
Definition mnodup (m : mset) : Prop := NoDup (map fst m) /\ forall k c, aget k m = Some c -> NoDup c.
Lemma mnodup_aset : forall m k v, mnodup m -> NoDup v -> mnodup (aset k v m).
Proof.
  intros m k v [Hk Hv] Hn; split; [apply nodup_keys_aset; assumption|].
  intros k' c; rewrite aget_aset. destruct (Nat.eqb_spec k' k); [intros E; inversion E; subst; assumption|apply Hv].
Qed.
Lemma mnodup_ensure : forall m k, mnodup m -> mnodup (ensure k m).
Proof. intros; unfold ensure; destruct (aget k m); [assumption|apply mnodup_aset; [assumption|constructor]]. Qed.
Lemma mnodup_arem : forall m k, mnodup m -> mnodup (arem k m).
Proof.
  intros m k [Hk Hv]; split; [apply nodup_keys_arem; assumption|].
  intros k' c; rewrite aget_arem. destruct (Nat.eqb k' k); [discriminate|apply Hv].
Qed.
Lemma mnodup_eget : forall m k, mnodup m -> NoDup (eget k m).
Proof. intros m k [_ Hv]; unfold eget; destruct (aget k m) eqn:E; [eapply Hv; eassumption|constructor]. Qed.

(* every key and every listed id satisfies V *)
Definition mrange (V : nat -> Prop) (m : mset) : Prop :=
  forall k c, aget k m = Some c -> V k /\ forall j, In j c -> V j.
Lemma mrange_aset : forall V m k v, mrange V m -> V k -> (forall j, In j v -> V j) -> mrange V (aset k v m).
Proof.
  intros V m k v H Hk Hv k' c; rewrite aget_aset.
  destruct (Nat.eqb_spec k' k); [intros E; inversion E; subst; split; assumption|apply H].
Qed.
Lemma mrange_ensure : forall V m k, mrange V m -> V k -> mrange V (ensure k m).
Proof. intros; unfold ensure; destruct (aget k m); [assumption|apply mrange_aset; [assumption|assumption|intros j []]]. Qed.
Lemma mrange_has : forall V m a b, mrange V m -> has m a b -> V a /\ V b.
Proof.
  intros V m a b H Hh; unfold eget in Hh. destruct (aget a m) eqn:E; [|destruct Hh].
  destruct (H _ _ E) as [Ha Hj]; split; [assumption|apply Hj; assumption].
Qed.
Lemma mrange_eget : forall V m a b, mrange V m -> In b (eget a m) -> V b.
Proof. intros V m a b H Hi; eapply (mrange_has V m a b H); exact Hi. Qed.

(* ---- add_one_connection folds *)
Ltac mintu := intuition (subst; try congruence; auto).

Lemma aoc_inner : forall x' ys C R C' R',
  fold_left (fun cr y' => add_one_connection cr x' y') ys (C, R) = (C', R') ->
  (forall a b, has C' a b <-> has C a b \/ (a = x' /\ In b ys)) /\
  (forall b a, has R' b a -> has R b a \/ (a = x' /\ In b ys)) /\
  (forall b a, has R b a -> has R' b a) /\
  (forall b, In b ys -> has R' b x' \/ has C x' b) /\
  (forall k, ahas k C = true -> ahas k C' = true) /\ (forall k, ahas k R = true -> ahas k R' = true).
Proof.
  induction ys as [|y ys IH]; cbn [fold_left]; intros C R C' R' H.
  - inversion H; subst. split; [|split; [|split; [|split; [|split]]]]; try (intros; assumption).
    + intros a b; cbn; tauto.
    + intros b a; cbn; tauto.
    + intros b [].
  - unfold add_one_connection at 2 in H. destruct (smem y (eget x' C)) eqn:Em.
    + apply smem_in in Em. destruct (IH _ _ _ _ H) as [HC [HR1 [HR2 [HR3 [HkC HkR]]]]].
      split; [|split; [|split; [|split; [|split]]]].
      * intros a b; rewrite HC, has_ensure; cbn [In]. mintu.
      * intros b a Hh; apply HR1 in Hh; cbn [In]. mintu.
      * assumption.
      * intros b [<-|Hi]; [right; exact Em|]. destruct (HR3 _ Hi) as [?|Hh]; [now left|right].
        rewrite has_ensure in Hh; exact Hh.
      * intros k Hk; apply HkC; rewrite ahas_ensure, Hk; apply orb_true_r.
      * assumption.
    + apply smem_false in Em. destruct (IH _ _ _ _ H) as [HC [HR1 [HR2 [HR3 [HkC HkR]]]]].
      split; [|split; [|split; [|split; [|split]]]].
      * intros a b; rewrite HC, has_aset, in_sadd; cbn [In].
        destruct (Nat.eq_dec a x'); mintu.
      * intros b a Hh; apply HR1 in Hh; rewrite has_aset, in_sadd in Hh; cbn [In]. mintu.
      * intros b a Hh; apply HR2; rewrite has_aset, in_sadd.
        destruct (Nat.eq_dec b y); mintu.
      * intros b [<-|Hi].
        -- left; apply HR2; rewrite has_aset, in_sadd; left; split; [reflexivity|now left].
        -- destruct (HR3 _ Hi) as [?|Hh]; [now left|]. rewrite has_aset, in_sadd in Hh.
           destruct Hh as [[_ [Hy|Hh]]|[Hne _]]; [subst b|now right|congruence].
           left; apply HR2; rewrite has_aset, in_sadd; left; split; [reflexivity|now left].
      * intros k Hk; apply HkC; rewrite ahas_aset, Hk; apply orb_true_r.
      * intros k Hk; apply HkR; rewrite ahas_aset, Hk; apply orb_true_r.
Qed.

Lemma aoc_outer : forall ys xs C R C' R',
  fold_left (fun cr x' => fold_left (fun cr y' => add_one_connection cr x' y') ys cr) xs (C, R) = (C', R') ->
  (forall a b, has C' a b <-> has C a b \/ (In a xs /\ In b ys)) /\
  (forall b a, has R' b a -> has R b a \/ (In a xs /\ In b ys)) /\
  (forall b a, has R b a -> has R' b a) /\
  (forall a b, In a xs -> In b ys -> has R' b a \/ has C a b) /\
  (forall k, ahas k C = true -> ahas k C' = true) /\ (forall k, ahas k R = true -> ahas k R' = true).
Proof.
  induction xs as [|x xs IH]; cbn [fold_left]; intros C R C' R' H.
  - inversion H; subst. split; [|split; [|split; [|split; [|split]]]]; try (intros; assumption).
    + intros a b; cbn; tauto.
    + intros b a; cbn; tauto.
    + intros a b [].
  - destruct (fold_left (fun cr y' => add_one_connection cr x y') ys (C, R)) as [C1 R1] eqn:E1.
    destruct (aoc_inner _ _ _ _ _ _ E1) as [IC [IR1 [IR2 [IR3 [IkC IkR]]]]].
    destruct (IH _ _ _ _ H) as [HC [HR1 [HR2 [HR3 [HkC HkR]]]]].
    split; [|split; [|split; [|split; [|split]]]].
    + intros a b; rewrite HC, IC; cbn [In]. mintu.
    + intros b a Hh; apply HR1 in Hh; cbn [In]. destruct Hh as [Hh|Hh]; [apply IR1 in Hh|]; mintu.
    + intros b a Hh; apply HR2, IR2, Hh.
    + intros a b [<-|Ha] Hb.
      * destruct (IR3 _ Hb) as [Hh|Hh]; [left; apply HR2, Hh|right; exact Hh].
      * destruct (HR3 _ _ Ha Hb) as [Hh|Hh]; [left; exact Hh|]. apply IC in Hh.
        destruct Hh as [Hh|[-> _]]; [right; exact Hh|].
        destruct (IR3 _ Hb) as [Hh|Hh]; [left; apply HR2, Hh|right; exact Hh].
    + intros k Hk; apply HkC, IkC, Hk.
    + intros k Hk; apply HkR, IkR, Hk.
Qed.

(* adding one id to the entries of a list of keys *)
Lemma fold_add_has : forall v xs (m : mset) a b,
  has (fold_left (fun c x' => aset x' (sadd v (eget x' c)) c) xs m) a b <-> has m a b \/ (In a xs /\ b = v).
Proof.
  induction xs as [|x xs IH]; cbn [fold_left]; intros m a b.
  - cbn; tauto.
  - rewrite IH, has_aset, in_sadd; cbn [In]. destruct (Nat.eq_dec a x); mintu.
Qed.
Lemma fold_add_ahas : forall v xs (m : mset) k,
  ahas k m = true -> ahas k (fold_left (fun c x' => aset x' (sadd v (eget x' c)) c) xs m) = true.
Proof.
  induction xs as [|x xs IH]; cbn [fold_left]; intros m k H; [assumption|].
  apply IH; rewrite ahas_aset, H; apply orb_true_r.
Qed.

(* ---- add_set_connection on the two maps *)
Definition asc_maps (conn0 rev0 : mset) (from to : nat) : mset * mset :=
  let cf := eget from conn0 in
  let conn1 := aset from (sadd to cf) conn0 in
  let rev1 := aset to (sadd from (eget to rev0)) rev0 in
  let frc := eget from rev1 in
  let rev2 := aset from [] rev1 in
  let tc := eget to conn1 in
  let conn2 := aset to [] conn1 in
  let new_tc := sdiff tc (eget from conn2) in
  let new_frc := sdiff frc (eget to rev2) in
  let '(conn3, rev3) :=
    fold_left (fun cr x' => fold_left (fun cr y' => add_one_connection cr x' y') new_tc cr) new_frc (conn2, rev2) in
  let conn4 := fold_left (fun c x' => aset x' (sadd to (eget x' c)) c) new_frc conn3 in
  let rev4 := fold_left (fun r y' => aset y' (sadd from (eget y' r)) r) new_tc rev3 in
  let rev5 := aset to (sunion (eget to rev4) frc) rev4 in
  let conn5 := aset from (sunion (eget from conn4) tc) conn4 in
  let rev6 := aset from frc rev5 in
  let conn6 := aset to tc conn5 in
  (conn6, rev6).

Lemma asc_eq : forall st from to, smem to (eget from (t_conn st)) = false ->
  add_set_connection st from to =
  Ok (with_cr st (fst (asc_maps (t_conn st) (t_rev st) from to)) (snd (asc_maps (t_conn st) (t_rev st) from to)), true).
Proof.
  intros st from to Hm. unfold add_set_connection, asc_maps. rewrite Hm.
  set (conn1 := aset from _ (t_conn st)). set (rev1 := aset to _ (t_rev st)).
  assert (E1 : aget from (aset to [] conn1) = Some (eget from (aset to [] conn1))).
  { unfold eget. rewrite aget_aset. destruct (Nat.eqb_spec from to); [reflexivity|].
    unfold conn1; rewrite aget_aset_eq; reflexivity. }
  assert (E2 : aget to (aset from [] rev1) = Some (eget to (aset from [] rev1))).
  { unfold eget. rewrite aget_aset. destruct (Nat.eqb_spec to from); [reflexivity|].
    unfold rev1; rewrite aget_aset_eq; reflexivity. }
  rewrite E1, E2. cbn [of_opt bind].
  destruct (fold_left _ _ _) as [c3 r3]. reflexivity.
Qed.

Section AscChar.
  Variables (C0 R0 : mset) (from to : nat).
  Hypothesis Hft : from <> to.
  Let nT := sdiff (eget to C0) (sadd to (eget from C0)).
  Let nF := sdiff (eget from R0) (sadd from (eget to R0)).
  Let C6 := fst (asc_maps C0 R0 from to).
  Let R6 := snd (asc_maps C0 R0 from to).

  Lemma asc_unfold : exists C3 R3,
    fold_left (fun cr x' => fold_left (fun cr y' => add_one_connection cr x' y') nT cr) nF
      (aset to [] (aset from (sadd to (eget from C0)) C0), aset from [] (aset to (sadd from (eget to R0)) R0)) = (C3, R3) /\
    C6 = aset to (eget to C0)
           (aset from (sunion (eget from (fold_left (fun c x' => aset x' (sadd to (eget x' c)) c) nF C3)) (eget to C0))
              (fold_left (fun c x' => aset x' (sadd to (eget x' c)) c) nF C3)) /\
    R6 = aset from (eget from R0)
           (aset to (sunion (eget to (fold_left (fun r y' => aset y' (sadd from (eget y' r)) r) nT R3)) (eget from R0))
              (fold_left (fun r y' => aset y' (sadd from (eget y' r)) r) nT R3)).
  Proof.
    unfold C6, R6, asc_maps.
    assert (E1 : eget from (aset to (sadd from (eget to R0)) R0) = eget from R0) by (apply eget_aset_ne; assumption).
    assert (E2 : eget to (aset from (sadd to (eget from C0)) C0) = eget to C0) by (apply eget_aset_ne; congruence).
    assert (E3 : eget from (aset to [] (aset from (sadd to (eget from C0)) C0)) = sadd to (eget from C0)).
    { rewrite eget_aset_ne by assumption. apply eget_aset_eq. }
    assert (E4 : eget to (aset from [] (aset to (sadd from (eget to R0)) R0)) = sadd from (eget to R0)).
    { rewrite eget_aset_ne by congruence. apply eget_aset_eq. }
    rewrite E1, E2, E3, E4. fold nT nF.
    destruct (fold_left _ nF _) as [C3 R3] eqn:E. exists C3, R3. cbn [fst snd]. auto.
  Qed.

  Lemma nF_not_from : ~ In from nF.
  Proof. unfold nF; rewrite in_sdiff, in_sadd; intuition. Qed.
  Lemma nT_not_to : ~ In to nT.
  Proof. unfold nT; rewrite in_sdiff, in_sadd; intuition. Qed.

  Lemma asc_conn_char : forall a b,
    has C6 a b <-> (a = to /\ has C0 to b)
                \/ (a = from /\ (b = to \/ has C0 from b \/ has C0 to b))
                \/ (a <> to /\ a <> from /\ (has C0 a b \/ (In a nF /\ (In b nT \/ b = to)))).
  Proof.
    intros a b. destruct asc_unfold as [C3 [R3 [E [EC _]]]]. rewrite EC.
    destruct (aoc_outer _ _ _ _ _ _ E) as [HC _].
    pose proof nF_not_from as Hnf.
    rewrite has_aset. destruct (Nat.eq_dec a to) as [->|Hat]; [intuition congruence|].
    rewrite has_aset, in_sunion.
    rewrite !fold_add_has, !HC, !has_aset, ?in_sadd. cbn [In].
    destruct (Nat.eq_dec a from) as [->|Haf]; intuition (try congruence; auto).
  Qed.

  Lemma asc_rev_upper : forall b a,
    has R6 b a -> (b = from /\ has R0 from a)
               \/ (b = to /\ (a = from \/ has R0 to a \/ has R0 from a))
               \/ (b <> from /\ b <> to /\ (has R0 b a \/ (In b nT /\ (In a nF \/ a = from)))).
  Proof.
    intros b a. destruct asc_unfold as [C3 [R3 [E [_ ER]]]]. rewrite ER.
    destruct (aoc_outer _ _ _ _ _ _ E) as [_ [HR1 _]].
    pose proof nT_not_to as Hnt.
    rewrite has_aset. destruct (Nat.eq_dec b from) as [->|Hbf]; [intuition congruence|].
    rewrite has_aset, in_sunion.
    rewrite !fold_add_has. intros Hh.
    assert (Hcases : (has R3 b a \/ (In b nT /\ a = from)) \/ (b = to /\ In a (eget from R0))).
    { destruct (Nat.eq_dec b to) as [->|Hbt]; intuition. }
    clear Hh. destruct Hcases as [[Hh|Hh]|Hh].
    - apply HR1 in Hh. rewrite !has_aset, in_sadd in Hh. cbn [In] in Hh.
      destruct (Nat.eq_dec b to) as [->|Hbt]; intuition (try congruence; auto).
    - destruct Hh as [Hi ->]. destruct (Nat.eq_dec b to) as [->|Hbt]; [contradiction|]. right; right. auto 6.
    - destruct Hh as [-> Hi]. right; left. auto.
  Qed.

  Lemma asc_rev_lower : forall b a,
    ((b = from /\ has R0 from a)
     \/ (b = to /\ (a = from \/ has R0 to a \/ has R0 from a))
     \/ (b <> from /\ b <> to /\ (has R0 b a \/ (In b nT /\ a = from)))) -> has R6 b a.
  Proof.
    intros b a. destruct asc_unfold as [C3 [R3 [E [_ ER]]]]. rewrite ER.
    destruct (aoc_outer _ _ _ _ _ _ E) as [_ [_ [HR2 _]]].
    assert (Hto : a = from \/ has R0 to a -> has R3 to a).
    { intros Hh. apply HR2. rewrite has_aset; right; split; [congruence|]. rewrite has_aset, in_sadd; left; tauto. }
    assert (Hoth : b <> from -> b <> to -> has R0 b a -> has R3 b a).
    { intros Hbf Hbt Hh. apply HR2. rewrite !has_aset. right; split; [assumption|]. right; split; assumption. }
    rewrite has_aset. destruct (Nat.eq_dec b from) as [->|Hbf]; [intuition congruence|].
    rewrite has_aset, in_sunion, !fold_add_has.
    destruct (Nat.eq_dec b to) as [->|Hbt]; intuition (try congruence; auto).
  Qed.

  Lemma asc_rev_pairs : forall b a, In b nT -> In a nF -> has R6 b a \/ (a <> to /\ has C0 a b).
  Proof.
    intros b a Hb Ha. destruct asc_unfold as [C3 [R3 [E [_ ER]]]]. rewrite ER.
    destruct (aoc_outer _ _ _ _ _ _ E) as [_ [_ [_ [HR3 _]]]].
    pose proof nT_not_to as Hnt. pose proof nF_not_from as Hnf.
    assert (Hbt : b <> to) by congruence. assert (Haf : a <> from) by congruence.
    assert (Hbf : b <> from -> has (aset from (eget from R0)
           (aset to (sunion (eget to (fold_left (fun r y' => aset y' (sadd from (eget y' r)) r) nT R3)) (eget from R0))
              (fold_left (fun r y' => aset y' (sadd from (eget y' r)) r) nT R3))) b a <->
            has (fold_left (fun r y' => aset y' (sadd from (eget y' r)) r) nT R3) b a).
    { intros Hbf. rewrite !has_aset. intuition. }
    destruct (HR3 _ _ Ha Hb) as [Hh|Hh].
    - destruct (Nat.eq_dec b from) as [->|Hbf'].
      + (* b = from: rev6(from) = R0(from), and a is in nF, a subset of R0(from) *)
        left. rewrite has_aset. left; split; [reflexivity|]. unfold nF in Ha. rewrite in_sdiff in Ha. tauto.
      + left. rewrite Hbf by assumption. rewrite fold_add_has. left; exact Hh.
    - rewrite !has_aset, in_sadd in Hh. cbn [In] in Hh. right. intuition congruence.
  Qed.

  Lemma asc_present : forall k,
    (ahas k C0 = true \/ k = from \/ k = to -> ahas k C6 = true) /\
    (ahas k R0 = true \/ k = from \/ k = to -> ahas k R6 = true).
  Proof.
    intros k. destruct asc_unfold as [C3 [R3 [E [EC ER]]]]. rewrite EC, ER.
    destruct (aoc_outer _ _ _ _ _ _ E) as [_ [_ [_ [_ [HkC HkR]]]]].
    rewrite !ahas_aset. split; intros [H|[-> | ->]]; rewrite ?Nat.eqb_refl, ?orb_true_r; try reflexivity.
    - rewrite fold_add_ahas; [rewrite !orb_true_r; reflexivity|]. apply HkC. rewrite !ahas_aset, H, !orb_true_r; reflexivity.
    - rewrite fold_add_ahas; [rewrite !orb_true_r; reflexivity|]. apply HkR. rewrite !ahas_aset, H, !orb_true_r; reflexivity.
  Qed.
End AscChar.

(* ---- add_set_connection on a window W of the class graph on which the graph is closed
   (rev is the converse of conn, conn is transitive and antisymmetric), with no edge between
   from and to: the result is the transitive closure after adding from -> to. *)
Section AscWindow.
  Variables (W : nat -> Prop) (C0 R0 : mset) (from to : nat).
  Hypothesis Hft : from <> to.
  Hypothesis HWf : W from.
  Hypothesis HWt : W to.
  Hypothesis Hconv : forall a b, W a -> W b -> a <> b -> (has C0 a b <-> has R0 b a).
  Hypothesis Htrans : forall a b c, W a -> W b -> W c -> has C0 a b -> has C0 b c -> a <> c -> has C0 a c.
  Hypothesis Hanti : forall a b, W a -> W b -> a <> b -> has C0 a b -> ~ has C0 b a.
  Hypothesis HRf : forall a, has R0 from a -> W a.
  Hypothesis HCt : forall b, has C0 to b -> W b.
  Hypothesis Hnb : ~ has C0 to from.
  Hypothesis Hnf : ~ has C0 from to.
  Let C6 := fst (asc_maps C0 R0 from to).
  Let R6 := snd (asc_maps C0 R0 from to).
  Let nT := sdiff (eget to C0) (sadd to (eget from C0)).
  Let nF := sdiff (eget from R0) (sadd from (eget to R0)).
  Definition wpred (a : nat) : Prop := a = from \/ has C0 a from.
  Definition wsucc (b : nat) : Prop := b = to \/ has C0 to b.

  Lemma hdec : forall (m : mset) a b, {has m a b} + {~ has m a b}.
  Proof. intros; apply in_dec, Nat.eq_dec. Qed.

  Lemma wsucc_W : forall b, wsucc b -> W b.
  Proof. intros b [->|H]; [assumption|apply HCt; assumption]. Qed.

  Lemma pred_succ_absurd : forall a, W a -> wpred a -> wsucc a -> False.
  Proof.
    intros a Wa [->|Hp] [Hs|Hs]; try congruence; try (subst a; congruence).
    destruct (Nat.eq_dec a from) as [->|Haf]; [apply Hnb; assumption|].
    apply Hnb. apply (Htrans to a from); auto.
  Qed.

  Lemma pred_back : forall a b, W a -> W b -> has C0 a b -> wpred b -> wpred a.
  Proof.
    intros a b Wa Wb Hab [->|Hp]; [right; assumption|].
    destruct (Nat.eq_dec a from) as [->|Haf]; [left; reflexivity|]. right. apply (Htrans a b from); auto.
  Qed.
  Lemma succ_fwd : forall b c, W b -> W c -> has C0 b c -> wsucc b -> wsucc c.
  Proof.
    intros b c Wb Wc Hbc [->|Hs]; [right; assumption|].
    destruct (Nat.eq_dec c to) as [->|Hct]; [left; reflexivity|]. right. apply (Htrans to b c); auto.
  Qed.

  Lemma in_nF : forall a, In a nF <-> has R0 from a /\ a <> from /\ ~ has R0 to a.
  Proof. intros a; unfold nF; rewrite in_sdiff, in_sadd. intuition congruence. Qed.
  Lemma in_nT : forall b, In b nT <-> has C0 to b /\ b <> to /\ ~ has C0 from b.
  Proof. intros b; unfold nT; rewrite in_sdiff, in_sadd. intuition congruence. Qed.

  (* a reaches from, b is reached from to, a does not reach b yet: both are in the "new" lists *)
  Lemma new_lists : forall a b, W a -> a <> from -> a <> to -> has C0 a from -> wsucc b -> ~ has C0 a b ->
    In a nF /\ (In b nT \/ b = to).
  Proof.
    intros a b Wa Haf Hat Hp Hs Hnab. pose proof (wsucc_W _ Hs) as Wb.
    assert (Hne : a <> b).
    { intros <-. apply (pred_succ_absurd a); [assumption|right; assumption|assumption]. }
    split.
    - apply in_nF. split; [apply Hconv; auto|]. split; [assumption|].
      intros Hr. apply Hconv in Hr; auto. apply Hnab.
      destruct Hs as [->|Hs]; [assumption|]. apply (Htrans a to b); auto.
    - destruct Hs as [->|Hs]; [right; reflexivity|].
      destruct (Nat.eq_dec b to) as [->|Hbt]; [right; reflexivity|left].
      apply in_nT. split; [assumption|]. split; [assumption|].
      intros Hfb. apply Hnab. apply (Htrans a from b); auto.
  Qed.

  Theorem asc_K1 : forall a b, W a -> (has C6 a b <-> has C0 a b \/ (wpred a /\ wsucc b)).
  Proof.
    intros a b Wa. unfold C6. rewrite (asc_conn_char C0 R0 from to Hft). fold nT nF. unfold wpred, wsucc.
    destruct (Nat.eq_dec a to) as [->|Hat].
    - split; [intuition congruence|]. intros [H|[[H|H] _]]; [auto|congruence|contradiction].
    - destruct (Nat.eq_dec a from) as [->|Haf].
      + split; [intuition congruence|]. intros [H|[_ [H|H]]]; right; left; auto.
      + split.
        * intros [[? _]|[[? _]|[_ [_ [H|[Ha Hb]]]]]]; try congruence; [auto|].
          apply in_nF in Ha. right. split.
          -- right. apply Hconv; tauto.
          -- destruct Hb as [Hb| ->]; [apply in_nT in Hb; tauto|auto].
        * intros [H|[[H|Hp] Hs]]; [right; right; auto|congruence|].
          destruct (hdec C0 a b) as [Hab|Hnab]; [right; right; auto|].
          right; right. split; [assumption|]. split; [assumption|]. right.
          apply new_lists; assumption.
  Qed.

  Theorem asc_K2 : forall a b, ~ W a -> (has C6 a b <-> has C0 a b).
  Proof.
    intros a b Wa. unfold C6. rewrite (asc_conn_char C0 R0 from to Hft). fold nT nF.
    assert (a <> to) by congruence. assert (a <> from) by congruence.
    assert (F1 : In a nF -> False) by (rewrite in_nF; intros [Hr _]; apply Wa, HRf, Hr).
    intuition congruence.
  Qed.

  Theorem asc_K3 : forall a b, W a -> W b -> a <> b -> (has C6 a b <-> has R6 b a).
  Proof.
    intros a b Wa Wb Hab. rewrite asc_K1 by assumption. split.
    - intros Hh. unfold R6.
      destruct (Nat.eq_dec b from) as [->|Hbf].
      { apply (asc_rev_lower C0 R0 from to Hft). left; split; [reflexivity|].
        destruct Hh as [Hh|[_ [Hs|Hs]]]; [apply Hconv; auto|congruence|contradiction]. }
      destruct (Nat.eq_dec b to) as [->|Hbt].
      { apply (asc_rev_lower C0 R0 from to Hft). right; left; split; [reflexivity|].
        destruct Hh as [Hh|[[Hp|Hp] _]]; [right; left; apply Hconv; auto|left; assumption|].
        destruct (Nat.eq_dec a from) as [->|Haf]; [left; reflexivity|right; right; apply Hconv; auto]. }
      destruct (hdec C0 a b) as [Hcab|Hncab].
      { apply (asc_rev_lower C0 R0 from to Hft). right; right. split; [assumption|]. split; [assumption|].
        left; apply Hconv; auto. }
      destruct Hh as [Hh|[Hp Hs]]; [contradiction|].
      destruct (Nat.eq_dec a from) as [->|Haf].
      { apply (asc_rev_lower C0 R0 from to Hft). right; right. split; [assumption|]. split; [assumption|].
        right; split; [|reflexivity]. apply in_nT. destruct Hs as [->|Hs]; [congruence|tauto]. }
      destruct Hp as [Hp|Hp]; [congruence|].
      destruct (Nat.eq_dec a to) as [->|Hat]; [contradiction|].
      destruct (new_lists a b Wa Haf Hat Hp Hs Hncab) as [Ha Hb].
      destruct Hb as [Hb|Hb]; [|congruence].
      destruct (asc_rev_pairs C0 R0 from to Hft b a Hb Ha) as [Hr|[_ Hr]]; [exact Hr|contradiction].
    - intros Hh. unfold R6 in Hh. apply (asc_rev_upper C0 R0 from to Hft) in Hh. fold nT nF in Hh.
      destruct Hh as [[-> Hh]|[[-> Hh]|[Hbf [Hbt Hh]]]].
      + left. apply Hconv; auto.
      + destruct Hh as [->|[Hh|Hh]].
        * right; split; [left; reflexivity|left; reflexivity].
        * left. apply Hconv; auto.
        * right; split; [|left; reflexivity].
          destruct (Nat.eq_dec a from) as [->|Haf]; [left; reflexivity|right; apply Hconv; auto].
      + destruct Hh as [Hh|[Hb Ha]]; [left; apply Hconv; auto|].
        apply in_nT in Hb. right; split; [|right; tauto].
        destruct Ha as [Ha| ->]; [|left; reflexivity]. apply in_nF in Ha. right. apply Hconv; tauto.
  Qed.

  Theorem asc_K4 : forall b a, ~ W b -> (has R6 b a <-> has R0 b a).
  Proof.
    intros b a Wb. assert (b <> to) by congruence. assert (b <> from) by congruence. unfold R6. split.
    - intros Hh. apply (asc_rev_upper C0 R0 from to Hft) in Hh. fold nT nF in Hh.
      assert (F1 : In b nT -> False) by (rewrite in_nT; intros [Hr _]; apply Wb, HCt, Hr).
      intuition congruence.
    - intros Hh. apply (asc_rev_lower C0 R0 from to Hft). right; right; auto.
  Qed.

  Theorem asc_K5 : forall b a, ~ W a -> (has R6 b a <-> has R0 b a).
  Proof.
    intros b a Wa. assert (a <> from) by congruence. unfold R6. split.
    - intros Hh. apply (asc_rev_upper C0 R0 from to Hft) in Hh. fold nT nF in Hh.
      assert (F1 : In a nF -> False) by (rewrite in_nF; intros [Hr _]; apply Wa, HRf, Hr).
      assert (F2 : has R0 from a -> False) by (intros Hr; apply Wa, HRf, Hr).
      destruct Hh as [[-> Hh]|[[-> Hh]|[Hbf [Hbt Hh]]]]; intuition congruence.
    - intros Hh. apply (asc_rev_lower C0 R0 from to Hft).
      destruct (Nat.eq_dec b from) as [->|Hbf]; [left; auto|].
      destruct (Nat.eq_dec b to) as [->|Hbt]; [right; left; auto|right; right; auto].
  Qed.

  (* the new graph is again transitive and antisymmetric on W *)
  Theorem asc_trans : forall a b c, W a -> W b -> W c -> has C6 a b -> has C6 b c -> a <> c -> has C6 a c.
  Proof.
    intros a b c Wa Wb Wc Hab Hbc Hac. rewrite asc_K1 in * by assumption.
    destruct Hab as [Hab|[Hpa Hsb]]; destruct Hbc as [Hbc|[Hpb Hsc]].
    - left; apply (Htrans a b c); auto.
    - right; split; [apply (pred_back a b); auto|assumption].
    - right; split; [assumption|apply (succ_fwd b c); auto].
    - right; split; assumption.
  Qed.

  Theorem asc_antisym : forall a b, W a -> W b -> a <> b -> has C6 a b -> ~ has C6 b a.
  Proof.
    intros a b Wa Wb Hne Hab Hba. rewrite asc_K1 in * by assumption.
    destruct Hab as [Hab|[Hpa Hsb]]; destruct Hba as [Hba|[Hpb Hsa]].
    - apply (Hanti a b); auto.
    - apply (pred_succ_absurd a); [assumption|apply (pred_back a b); auto|assumption].
    - apply (pred_succ_absurd b); [assumption|apply (pred_back b a); auto|assumption].
    - apply (pred_succ_absurd a); assumption.
  Qed.
End AscWindow.

(* ---- well-formedness (distinct keys, duplicate-free values, all ids in V) through add_set_connection *)
Definition mgood (V : nat -> Prop) (m : mset) : Prop := mnodup m /\ mrange V m.

Lemma mgood_aset : forall V m k v, mgood V m -> V k -> NoDup v -> (forall j, In j v -> V j) -> mgood V (aset k v m).
Proof. intros V m k v [Hn Hr] Hk Hv Hj; split; [apply mnodup_aset; assumption|apply mrange_aset; assumption]. Qed.
Lemma mgood_ensure : forall V m k, mgood V m -> V k -> mgood V (ensure k m).
Proof. intros V m k [Hn Hr] Hk; split; [apply mnodup_ensure; assumption|apply mrange_ensure; assumption]. Qed.
Lemma mgood_arem : forall V m k, mgood V m -> mgood V (arem k m).
Proof.
  intros V m k [Hn Hr]; split; [apply mnodup_arem; assumption|].
  intros k' c; rewrite aget_arem. destruct (Nat.eqb k' k); [discriminate|apply Hr].
Qed.
Lemma mgood_eget : forall V m k, mgood V m -> NoDup (eget k m) /\ forall j, In j (eget k m) -> V j.
Proof. intros V m k [Hn Hr]; split; [apply mnodup_eget; assumption|intros j; apply mrange_eget; assumption]. Qed.

Lemma aoc_good : forall V cr x' y', mgood V (fst cr) -> mgood V (snd cr) -> V x' -> V y' ->
  mgood V (fst (add_one_connection cr x' y')) /\ mgood V (snd (add_one_connection cr x' y')).
Proof.
  intros V [C R] x' y' HC HR Hx Hy; cbn [fst snd] in *. unfold add_one_connection.
  destruct (smem y' (eget x' C)) eqn:Em; cbn [fst snd].
  - split; [apply mgood_ensure; assumption|assumption].
  - destruct (mgood_eget V C x' HC) as [Hn Hv]. destruct (mgood_eget V R y' HR) as [Hn' Hv']. split.
    + apply mgood_aset; [assumption|assumption|apply nodup_sadd; assumption|].
      intros j Hj; apply in_sadd in Hj; destruct Hj as [->|Hj]; auto.
    + apply mgood_aset; [assumption|assumption|apply nodup_sadd; assumption|].
      intros j Hj; apply in_sadd in Hj; destruct Hj as [->|Hj]; auto.
Qed.

Lemma aoc_inner_good : forall V x' ys cr, mgood V (fst cr) -> mgood V (snd cr) -> V x' -> (forall y, In y ys -> V y) ->
  mgood V (fst (fold_left (fun cr y' => add_one_connection cr x' y') ys cr)) /\
  mgood V (snd (fold_left (fun cr y' => add_one_connection cr x' y') ys cr)).
Proof.
  induction ys as [|y ys IH]; cbn [fold_left]; intros cr HC HR Hx Hy; [split; assumption|].
  destruct (aoc_good V cr x' y HC HR Hx (Hy y (or_introl eq_refl))) as [HC' HR'].
  apply IH; [assumption|assumption|assumption|]. intros z Hz; apply Hy; now right.
Qed.

Lemma aoc_outer_good : forall V ys xs cr, mgood V (fst cr) -> mgood V (snd cr) ->
  (forall x, In x xs -> V x) -> (forall y, In y ys -> V y) ->
  mgood V (fst (fold_left (fun cr x' => fold_left (fun cr y' => add_one_connection cr x' y') ys cr) xs cr)) /\
  mgood V (snd (fold_left (fun cr x' => fold_left (fun cr y' => add_one_connection cr x' y') ys cr) xs cr)).
Proof.
  induction xs as [|x xs IH]; cbn [fold_left]; intros cr HC HR Hx Hy; [split; assumption|].
  destruct (aoc_inner_good V x ys cr HC HR (Hx x (or_introl eq_refl)) Hy) as [HC' HR'].
  apply IH; [assumption|assumption| |assumption]. intros z Hz; apply Hx; now right.
Qed.

Lemma fold_add_good : forall V v xs m, mgood V m -> V v -> (forall x, In x xs -> V x) ->
  mgood V (fold_left (fun c x' => aset x' (sadd v (eget x' c)) c) xs m).
Proof.
  induction xs as [|x xs IH]; cbn [fold_left]; intros m Hm Hv Hx; [assumption|].
  apply IH; [|assumption|intros z Hz; apply Hx; now right].
  destruct (mgood_eget V m x Hm) as [Hn Hj].
  apply mgood_aset; [assumption|apply Hx; now left|apply nodup_sadd; assumption|].
  intros j Hi; apply in_sadd in Hi; destruct Hi as [->|Hi]; auto.
Qed.

Lemma asc_good : forall V C0 R0 from to, mgood V C0 -> mgood V R0 -> V from -> V to ->
  mgood V (fst (asc_maps C0 R0 from to)) /\ mgood V (snd (asc_maps C0 R0 from to)).
Proof.
  intros V C0 R0 from to HC HR Hf Ht. unfold asc_maps.
  destruct (mgood_eget V C0 from HC) as [Hn1 Hv1]. destruct (mgood_eget V R0 to HR) as [Hn2 Hv2].
  set (conn1 := aset from (sadd to (eget from C0)) C0).
  set (rev1 := aset to (sadd from (eget to R0)) R0).
  assert (G1 : mgood V conn1).
  { apply mgood_aset; [assumption|assumption|apply nodup_sadd; assumption|].
    intros j Hj; apply in_sadd in Hj; destruct Hj as [->|Hj]; auto. }
  assert (G2 : mgood V rev1).
  { apply mgood_aset; [assumption|assumption|apply nodup_sadd; assumption|].
    intros j Hj; apply in_sadd in Hj; destruct Hj as [->|Hj]; auto. }
  destruct (mgood_eget V rev1 from G2) as [Hnf Hvf]. destruct (mgood_eget V conn1 to G1) as [Hnt Hvt].
  set (frc := eget from rev1) in *. set (tc := eget to conn1) in *.
  set (rev2 := aset from [] rev1). set (conn2 := aset to [] conn1).
  assert (G3 : mgood V rev2) by (apply mgood_aset; [assumption|assumption|constructor|intros j []]).
  assert (G4 : mgood V conn2) by (apply mgood_aset; [assumption|assumption|constructor|intros j []]).
  set (new_tc := sdiff tc (eget from conn2)). set (new_frc := sdiff frc (eget to rev2)).
  assert (Hxs : forall x, In x new_frc -> V x) by (intros x Hx; apply in_sdiff in Hx; apply Hvf; tauto).
  assert (Hys : forall y, In y new_tc -> V y) by (intros y Hy; apply in_sdiff in Hy; apply Hvt; tauto).
  pose proof (aoc_outer_good V new_tc new_frc (conn2, rev2) G4 G3 Hxs Hys) as [G5 G6].
  match goal with |- context [fold_left ?f new_frc (conn2, rev2)] =>
    destruct (fold_left f new_frc (conn2, rev2)) as [conn3 rev3] end. cbn [fst snd] in *.
  match goal with |- context [fold_left ?f new_frc conn3] => set (conn4 := fold_left f new_frc conn3) end.
  match goal with |- context [fold_left ?f new_tc rev3] => set (rev4 := fold_left f new_tc rev3) end.
  assert (G7 : mgood V conn4) by (apply fold_add_good; assumption).
  assert (G8 : mgood V rev4) by (apply fold_add_good; assumption).
  destruct (mgood_eget V rev4 to G8) as [Hn8 Hv8]. destruct (mgood_eget V conn4 from G7) as [Hn7 Hv7].
  assert (G9 : mgood V (aset to (sunion (eget to rev4) frc) rev4)).
  { apply mgood_aset; [assumption|assumption|apply nodup_sunion; assumption|].
    intros j Hj; apply in_sunion in Hj; destruct Hj; auto. }
  assert (G10 : mgood V (aset from (sunion (eget from conn4) tc) conn4)).
  { apply mgood_aset; [assumption|assumption|apply nodup_sunion; assumption|].
    intros j Hj; apply in_sunion in Hj; destruct Hj; auto. }
  split; apply mgood_aset; assumption.
Qed.
