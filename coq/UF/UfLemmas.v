(* Auxiliary lemmas for UfProofs.v: vectors (set_nth / nth / nth_error), association lists
   (aget / aset), membership tests, index_of, duplicate-free lists, chains of a successor
   function.  Plain stdlib, no axioms. *)
From Coq Require Import List Arith Bool Lia Permutation PeanoNat.
From AV Require Import UF.UfBase.
From AV Require Import UF.UfModel.
Import ListNotations.

(* ---- vectors *)
Lemma set_nth_length {A} (l : list A) i v : length (set_nth l i v) = length l.
Proof. revert i; induction l as [|h t IH]; intros [|i]; simpl; auto. Qed.

Lemma nth_set_nth {A} (l : list A) i v j d :
  i < length l -> nth j (set_nth l i v) d = if j =? i then v else nth j l d.
Proof.
  revert i j; induction l as [|h t IH]; intros [|i] [|j] H; simpl in *; try lia; auto.
  apply IH; lia.
Qed.

Lemma nth_error_nth0 (l : list nat) i : i < length l -> nth_error l i = Some (nth i l 0).
Proof. apply nth_error_nth'. Qed.

Lemma nth_snoc (l : list nat) x i :
  nth i (l ++ [x]) 0 = if i <? length l then nth i l 0 else if i =? length l then x else 0.
Proof.
  destruct (Nat.ltb_spec i (length l)) as [H|H].
  - apply app_nth1; auto.
  - rewrite app_nth2 by lia. destruct (Nat.eqb_spec i (length l)) as [E|E].
    + subst. rewrite Nat.sub_diag. reflexivity.
    + destruct (i - length l) as [|k] eqn:K; [lia|]. simpl. destruct k; reflexivity.
Qed.

(* ---- membership tests *)
Lemma existsb_eqb_In x l : existsb (Nat.eqb x) l = true <-> In x l.
Proof.
  rewrite existsb_exists. split.
  - intros [y [Hy E]]. apply Nat.eqb_eq in E. subst. auto.
  - intros H. exists x. split; auto. apply Nat.eqb_refl.
Qed.

Lemma existsb_eqb_notIn x l : existsb (Nat.eqb x) l = false <-> ~ In x l.
Proof.
  rewrite <- existsb_eqb_In. destruct (existsb (Nat.eqb x) l); split; intros; congruence.
Qed.

Lemma smem_In x l : smem x l = true <-> In x l.
Proof. apply existsb_eqb_In. Qed.

Lemma smem_notIn x l : smem x l = false <-> ~ In x l.
Proof. apply existsb_eqb_notIn. Qed.

(* ---- index_of *)
Lemma index_of_Some x l i : index_of x l = Some i -> i < length l /\ nth i l 0 = x.
Proof.
  revert i; induction l as [|h t IH]; simpl; intros i H; [discriminate|].
  destruct (Nat.eqb_spec x h) as [E|E].
  - inversion H; subst. split; [lia|reflexivity].
  - destruct (index_of x t) as [k|]; simpl in H; [|discriminate].
    inversion H; subst. destruct (IH k eq_refl) as [H1 H2]. split; [lia|exact H2].
Qed.

Lemma index_of_None x l : index_of x l = None <-> ~ In x l.
Proof.
  induction l as [|h t IH]; simpl.
  - split; auto.
  - destruct (Nat.eqb_spec x h) as [E|E].
    + split; [discriminate|]. intros H; exfalso; apply H; auto.
    + destruct (index_of x t) as [k|]; simpl.
      * split; [discriminate|]. intros H. exfalso.
        destruct (in_dec Nat.eq_dec x t) as [Hi|Hn]; [apply H; auto|apply IH in Hn; discriminate].
      * split; auto. intros _ [H|H]; [congruence|]. apply IH in H; auto.
Qed.

Lemma index_of_existsb x l : existsb (Nat.eqb x) l = match index_of x l with Some _ => true | None => false end.
Proof.
  destruct (index_of x l) as [k|] eqn:K.
  - apply existsb_eqb_In. apply index_of_Some in K. destruct K as [K1 K2]. subst. apply nth_In; auto.
  - apply existsb_eqb_notIn. apply index_of_None; auto.
Qed.

(* ---- association lists *)
Lemma aget_None_iff {V} x (m : list (nat * V)) : aget x m = None <-> ~ In x (map fst m).
Proof.
  induction m as [|[k v] t IH]; simpl.
  - split; auto.
  - destruct (Nat.eqb_spec x k) as [E|E].
    + split; [discriminate|]. intros H; exfalso; apply H; auto.
    + rewrite IH. split; [intros H [H1|H1]; [congruence|auto]|intros H H1; apply H; auto].
Qed.

Lemma aget_aset {V} x (v : V) m y : aget y (aset x v m) = if y =? x then Some v else aget y m.
Proof.
  induction m as [|[k w] t IH]; simpl.
  - destruct (y =? x); reflexivity.
  - destruct (Nat.eqb_spec x k) as [E|E]; simpl.
    + subst. destruct (Nat.eqb_spec y k); reflexivity.
    + rewrite IH. destruct (Nat.eqb_spec y k) as [E1|E1]; [|reflexivity].
      subst. destruct (Nat.eqb_spec k x); [congruence|reflexivity].
Qed.

Lemma map_fst_aset_in {V} x (v : V) m : aget x m <> None -> map fst (aset x v m) = map fst m.
Proof.
  induction m as [|[k w] t IH]; simpl; intros H; [congruence|].
  destruct (Nat.eqb_spec x k) as [E|E]; simpl.
  - subst; reflexivity.
  - rewrite IH; auto.
Qed.

Lemma map_fst_aset_notin {V} x (v : V) m : aget x m = None -> map fst (aset x v m) = map fst m ++ [x].
Proof.
  induction m as [|[k w] t IH]; simpl; intros H; [reflexivity|].
  destruct (Nat.eqb_spec x k) as [E|E]; simpl; [discriminate|].
  rewrite IH; auto.
Qed.

(* ---- duplicate-free lists *)
Lemma NoDup_app_intro {A} (l1 l2 : list A) :
  NoDup l1 -> NoDup l2 -> (forall x, In x l1 -> ~ In x l2) -> NoDup (l1 ++ l2).
Proof.
  induction l1 as [|a t IH]; simpl; intros H1 H2 H; auto.
  inversion H1; subst. constructor.
  - rewrite in_app_iff. intros [Hc|Hc]; [contradiction|]. apply (H a); auto.
  - apply IH; auto.
Qed.

Lemma NoDup_app_inv {A} (l1 l2 : list A) :
  NoDup (l1 ++ l2) -> NoDup l1 /\ NoDup l2 /\ (forall x, In x l1 -> ~ In x l2).
Proof.
  induction l1 as [|a t IH]; simpl; intros H.
  - repeat split; auto. constructor.
  - inversion H; subst. destruct (IH H3) as [A1 [A2 A3]]. repeat split; auto.
    + constructor; auto. intros Hc; apply H2; apply in_or_app; auto.
    + intros x [E|Hx] Hc; [subst; apply H2; apply in_or_app; auto|]. apply (A3 x); auto.
Qed.

Lemma NoDup_lt_length (l : list nat) n : NoDup l -> (forall x, In x l -> x < n) -> length l <= n.
Proof.
  intros H1 H2. rewrite <- (seq_length n 0). apply NoDup_incl_length; auto.
  intros x Hx. apply in_seq. specialize (H2 x Hx). lia.
Qed.

Lemma NoDup_all_length (l : list nat) n : NoDup l -> (forall x, In x l <-> x < n) -> length l = n.
Proof.
  intros H1 H2. rewrite <- (seq_length n 0). apply Permutation_length.
  apply NoDup_Permutation; auto. apply seq_NoDup.
  intros x. rewrite H2, in_seq. lia.
Qed.

(* ---- chains of a successor function f:  a -> c1 -> c2 -> ... -> ck -> b *)
Fixpoint chain (f : nat -> nat) (a : nat) (c : list nat) (b : nat) : Prop :=
  match c with
  | [] => f a = b
  | x :: c' => f a = x /\ chain f x c' b
  end.

Lemma chain_ext f g a c b : (forall x, In x (a :: c) -> g x = f x) -> chain f a c b -> chain g a c b.
Proof.
  revert a; induction c as [|x c IH]; simpl; intros a H Hc.
  - rewrite H; auto.
  - destruct Hc as [H1 H2]. split.
    + rewrite H; auto.
    + apply IH; auto.
Qed.

Lemma chain_head f g a a' c b :
  g a' = f a -> (forall x, In x c -> g x = f x) -> chain f a c b -> chain g a' c b.
Proof.
  intros H1 H2 Hc. destruct c as [|x c]; simpl in *.
  - congruence.
  - destruct Hc as [Hc1 Hc2]. split; [congruence|].
    apply chain_ext with (f := f); auto.
Qed.

Lemma chain_app f a c1 x c2 b : chain f a (c1 ++ x :: c2) b <-> chain f a c1 x /\ chain f x c2 b.
Proof.
  revert a; induction c1 as [|y c1 IH]; simpl; intros a.
  - reflexivity.
  - rewrite IH. tauto.
Qed.

Lemma chain_next_in f a c b i : chain f a c b -> In i (a :: c) -> In (f i) (c ++ [b]).
Proof.
  revert a; induction c as [|x c IH]; simpl; intros a Hc Hi.
  - destruct Hi as [E|[]]. subst. auto.
  - destruct Hc as [H1 H2]. destruct Hi as [E|Hi].
    + subst. auto.
    + right. apply (IH x); auto.
Qed.

Lemma cycle_next_in f r c i : chain f r c r -> In i (r :: c) -> In (f i) (r :: c).
Proof.
  intros Hc Hi. pose proof (chain_next_in _ _ _ _ _ Hc Hi) as H.
  apply in_app_or in H. destruct H as [H|[H|[]]]; [right; auto|left; auto].
Qed.
