(* C18, TrRelUnionFind: one [tr_add] preserves the invariant [tinv], in every branch except the
   collapse branch, which is taken as a hypothesis (collapse_ok_stmt, TrUfCore.v). *)
From Coq Require Import List Arith Bool Lia.
From AV Require Import UF.UfBase.
From AV Require Import UF.TrUfModel.
From AV Require Import UF.TrUfInv.
From AV Require Import UF.TrUfLemmas.
From AV Require Import UF.TrUfQueries.
From AV Require Import UF.TrUfCore.
From AV Require Import UF.TrUfGraph.
From AV Require Import UF.TrUfNode.
From AV Require Import UF.TrUfStep.
Import ListNotations.

(* ---- the empty state *)
Theorem tr_empty_inv : forall {P : nat -> Prop}, tinvP P [] tr_empty.
Proof.
  assert (Hm : forall s x, ~ mem_of tr_empty s x).
  { intros s x [l [Hl _]]. destruct s; discriminate. }
  assert (Hd : forall d, ~ dominant tr_empty d).
  { intros d [Hlt _]. unfold nsets in Hlt; cbn in Hlt; lia. }
  constructor.
  - intros s f H; discriminate.
  - constructor.
  - intros t Ht. unfold nsets in Ht; cbn in Ht; lia.
  - constructor.
  - intros s f H; discriminate.
  - intros x i H; discriminate.
  - intros s x H; exfalso; eapply Hm; eassumption.
  - constructor.
  - split; [constructor|intros k c H; discriminate].
  - split; [constructor|intros k c H; discriminate].
  - intros d H; exfalso; eapply Hd; eassumption.
  - intros d H; exfalso; eapply Hd; eassumption.
  - intros a b _; split; intros [].
  - intros a b c [].
  - intros a b _ [].
  - intros x; split; [intros H; exfalso; apply H; reflexivity|intros [y [[]|[]]]].
  - intros s x y H; exfalso; eapply Hm; eassumption.
  - intros a b x y [].
  - intros a b x y H; exfalso; eapply Hd; eassumption.
Qed.

(* ---- more pairs: soundness is monotone *)
Lemma mentioned_mono : forall E E' x, (forall p, In p E -> In p E') -> mentioned E x -> mentioned E' x.
Proof. intros E E' x Hi [w [H|H]]; exists w; [left|right]; apply Hi; assumption. Qed.

Lemma cinv_mono : forall E E' st, (forall p, In p E -> In p E') -> cinv E st -> cinv E' st.
Proof.
  intros E E' st Hi Hc. destruct Hc. constructor; try assumption.
  - intros z Hz. eapply mentioned_mono; [exact Hi|]. apply c_ids_ment; assumption.
  - intros s u v Hu Hv. eapply rtc_mono; [exact Hi|]. eapply c_class; eassumption.
  - intros a b u v Hab Hu Hv. eapply rtc_mono; [exact Hi|]. eapply c_conn_sound; eassumption.
Qed.

Lemma in_snoc : forall (E : list (nat * nat)) q p, In p E -> In p (E ++ [q]).
Proof. intros; apply in_app_iff; left; assumption. Qed.

(* a pair that is already derivable adds nothing *)
Lemma rtc_snoc_redundant : forall E x y u v, rtc E x y -> rtc (E ++ [(x, y)]) u v -> rtc E u v.
Proof.
  intros E x y u v Hxy H. apply rtc_snoc_inv in H.
  destruct (rtc_mentioned E x y Hxy) as [Mx My].
  destruct H as [H|[[A B]|[<- A]]]; [assumption| |].
  - assert (Hux : rtc E u y) by (destruct A as [->|A]; [assumption|eapply rtc_t; eassumption]).
    destruct B as [->|B]; [assumption|eapply rtc_t; eassumption].
  - destruct A as [->| ->]; apply mentioned_rtc; assumption.
Qed.

(* ---- one call of add_node_new, uniform in the flag *)
Lemma ann_sum : forall Es st x, cinv Es st -> mentioned Es x ->
  exists st' id fresh, add_node_new st x = Ok (st', id, fresh) /\
    cinv Es st' /\ dominant st' id /\ mem_of st' id x /\
    t_conn st' = t_conn st /\ t_rev st' = t_rev st /\
    (forall z, aget z (t_ids st') <> None <-> aget z (t_ids st) <> None \/ z = x) /\
    (forall s z, mem_of st' s z <-> mem_of st s z \/ (fresh = true /\ s = id /\ z = x)) /\
    (forall d, dominant st' d <-> dominant st d \/ (fresh = true /\ d = id)) /\
    (fresh = true -> id = nsets st /\ aget x (t_ids st) = None) /\
    (fresh = false -> aget x (t_ids st) <> None) /\
    nsets st' = (if fresh then S (nsets st) else nsets st).
Proof.
  intros Es st x Hc Hx.
  destruct (ann_spec Es st x Hc Hx) as [st' [id [fresh [He [Hc' [Hd [Hm [HC [HR [Hi [Hf Ht]]]]]]]]]]].
  exists st', id, fresh. repeat (split; [assumption|]).
  destruct fresh.
  - destruct (Ht eq_refl) as [Hn [-> [Hs [Hsub [Hdm Hmm]]]]]. clear Hf Ht.
    split; [|split; [|split; [|split]]].
    + intros s z. rewrite Hmm. intuition.
    + intros d. rewrite Hdm. intuition.
    + auto.
    + discriminate.
    + unfold nsets. rewrite Hs, app_length. cbn; lia.
  - destruct (Hf eq_refl) as [Hn [Hns [Hs Hdm]]]. clear Hf Ht.
    split; [|split; [|split; [|split]]].
    + intros s z. rewrite (mem_of_sets st st' Hs). intuition discriminate.
    + intros d. rewrite Hdm. intuition discriminate.
    + discriminate.
    + auto.
    + assumption.
Qed.

(* ---- the state after the two add_node_new calls of tr_add *)
Record mid (E : list (nat * nat)) (st : truf) (x y : nat) (st2 : truf) (xs ys : nat) (xn yn : bool) : Prop := mkMid {
  md_cinv : cinv (E ++ [(x, y)]) st2;
  md_dx : dominant st2 xs;
  md_dy : dominant st2 ys;
  md_mx : mem_of st2 xs x;
  md_my : mem_of st2 ys y;
  md_conn : t_conn st2 = t_conn st;
  md_rev : t_rev st2 = t_rev st;
  md_ids : forall z, mentioned (E ++ [(x, y)]) z -> aget z (t_ids st2) <> None;
  md_mem : forall s z, mem_of st2 s z <-> mem_of st s z \/ (xn = true /\ s = xs /\ z = x) \/ (yn = true /\ s = ys /\ z = y);
  md_dom : forall d, dominant st2 d <-> dominant st d \/ (xn = true /\ d = xs) \/ (yn = true /\ d = ys);
  md_fx : xn = true -> nsets st <= xs /\ aget x (t_ids st) = None;
  md_fy : yn = true -> nsets st <= ys /\ aget y (t_ids st) = None;
  md_fxy : xn = true -> yn = true -> xs <> ys;
  md_ox : xn = false -> aget x (t_ids st) <> None
}.

Section WithP.
Context {P : nat -> Prop}.
Local Notation tinv := (tinvP P).

Lemma mid_intro : forall E st x y, tinv E st ->
  exists st1 xs xn st2 ys yn,
    add_node_new st x = Ok (st1, xs, xn) /\ add_node_new st1 y = Ok (st2, ys, yn) /\
    mid E st x y st2 xs ys xn yn.
Proof.
  intros E st x y Ht.
  pose proof (proj1 (tinv_split E st) Ht) as [Hc [Hp [Hcm Hid]]].
  assert (Hc0 : cinv (E ++ [(x, y)]) st) by (eapply cinv_mono; [apply in_snoc|exact Hc]).
  assert (Mx : mentioned (E ++ [(x, y)]) x) by (apply mentioned_snoc; auto).
  assert (My : mentioned (E ++ [(x, y)]) y) by (apply mentioned_snoc; auto).
  destruct (ann_sum _ st x Hc0 Mx) as [st1 [xs [xn [E1 [Hc1 [Dx1 [Mx1 [C1 [R1 [I1 [Hm1 [Hd1 [Ft1 [Ff1 Hn1]]]]]]]]]]]]]].
  destruct (ann_sum _ st1 y Hc1 My) as [st2 [ys [yn [E2 [Hc2 [Dy2 [My2 [C2 [R2 [I2 [Hm2 [Hd2 [Ft2 [Ff2 Hn2]]]]]]]]]]]]]].
  exists st1, xs, xn, st2, ys, yn. split; [assumption|]. split; [assumption|].
  constructor.
  - assumption.
  - apply Hd2; left; assumption.
  - assumption.
  - apply Hm2; left; assumption.
  - assumption.
  - congruence.
  - congruence.
  - intros z Hz. apply mentioned_snoc in Hz. apply I2. destruct Hz as [Hz|[->| ->]]; [|left; apply I1; auto|auto].
    left; apply I1; left; apply Hid; assumption.
  - intros s z. rewrite Hm2, Hm1. tauto.
  - intros d. rewrite Hd2, Hd1. tauto.
  - intros Hx. destruct (Ft1 Hx) as [-> Hnx]. split; [lia|assumption].
  - intros Hy. destruct (Ft2 Hy) as [-> Hny]. split; [destruct xn; lia|].
    destruct (aget y (t_ids st)) eqn:Hg; [|reflexivity]. exfalso.
    assert (Hh : aget y (t_ids st1) <> None) by (apply I1; left; congruence). contradiction.
  - intros Hx Hy. destruct (Ft1 Hx) as [-> _]. destruct (Ft2 Hy) as [-> _]. subst xn. lia.
  - assumption.
Qed.

(* ---- consequences of [mid] *)
Lemma mid_cn : forall E st x y st2 xs ys xn yn, mid E st x y st2 xs ys xn yn ->
  forall a b, cn st2 a b <-> cn st a b.
Proof. intros E st x y st2 xs ys xn yn Hm a b; unfold cn; rewrite (md_conn _ _ _ _ _ _ _ _ _ Hm); reflexivity. Qed.
Lemma mid_rv : forall E st x y st2 xs ys xn yn, mid E st x y st2 xs ys xn yn ->
  forall a b, rv st2 a b <-> rv st a b.
Proof. intros E st x y st2 xs ys xn yn Hm a b; unfold rv; rewrite (md_rev _ _ _ _ _ _ _ _ _ Hm); reflexivity. Qed.

Lemma mid_cn_old : forall E st x y st2 xs ys xn yn, tinv E st -> mid E st x y st2 xs ys xn yn ->
  forall a b, cn st2 a b -> a < nsets st /\ b < nsets st.
Proof.
  intros E st x y st2 xs ys xn yn Ht Hm.
  intros a b H. apply (mid_cn _ _ _ _ _ _ _ _ _ Hm) in H.
  destruct (cn_dominant st a b (w_conn E st Ht) H) as [[Ha _] [Hb _]]. auto.
Qed.
Lemma mid_rv_old : forall E st x y st2 xs ys xn yn, tinv E st -> mid E st x y st2 xs ys xn yn ->
  forall a b, rv st2 a b -> a < nsets st /\ b < nsets st.
Proof.
  intros E st x y st2 xs ys xn yn Ht Hm.
  intros a b H. apply (mid_rv _ _ _ _ _ _ _ _ _ Hm) in H.
  pose proof (proj1 (tinv_split E st) Ht) as [Hc _].
  destruct (wf_rv_dom E st Hc a b H) as [[Ha _] [Hb _]]. auto.
Qed.
Lemma mid_conn_key : forall E st x y st2 xs ys xn yn, tinv E st -> mid E st x y st2 xs ys xn yn ->
  forall k, nsets st <= k -> aget k (t_conn st2) = None.
Proof.
  intros E st x y st2 xs ys xn yn Ht Hm.
  intros k Hk. rewrite (md_conn _ _ _ _ _ _ _ _ _ Hm).
  destruct (aget k (t_conn st)) as [c|] eqn:Hc; [|reflexivity].
  destruct (w_conn E st Ht) as [_ Hw]. destruct (Hw k c Hc) as [[Hlt _] _]. lia.
Qed.
Lemma mid_rev_key : forall E st x y st2 xs ys xn yn, tinv E st -> mid E st x y st2 xs ys xn yn ->
  forall k, nsets st <= k -> aget k (t_rev st2) = None.
Proof.
  intros E st x y st2 xs ys xn yn Ht Hm.
  intros k Hk. rewrite (md_rev _ _ _ _ _ _ _ _ _ Hm).
  destruct (aget k (t_rev st)) as [c|] eqn:Hc; [|reflexivity].
  destruct (w_rev E st Ht) as [_ Hw]. destruct (Hw k c Hc) as [[Hlt _] _]. lia.
Qed.

(* an element with an id in st is in the same class as before *)
Lemma mid_mem_old : forall E st x y st2 xs ys xn yn, mid E st x y st2 xs ys xn yn ->
  forall s z, mem_of st2 s z -> aget z (t_ids st) <> None -> mem_of st s z /\ s < nsets st.
Proof.
  intros E st x y st2 xs ys xn yn Hm.
  intros s z Hs Hz. apply (md_mem _ _ _ _ _ _ _ _ _ Hm) in Hs.
  destruct Hs as [Hs|[[Hx [_ ->]]|[Hy [_ ->]]]].
  - split; [assumption|eapply mem_of_lt; eassumption].
  - destruct (md_fx _ _ _ _ _ _ _ _ _ Hm Hx) as [_ Hn]. contradiction.
  - destruct (md_fy _ _ _ _ _ _ _ _ _ Hm Hy) as [_ Hn]. contradiction.
Qed.
Lemma mid_dom_old : forall E st x y st2 xs ys xn yn, mid E st x y st2 xs ys xn yn ->
  forall d, dominant st2 d -> d < nsets st -> dominant st d.
Proof.
  intros E st x y st2 xs ys xn yn Hm.
  intros d Hd Hlt. apply (md_dom _ _ _ _ _ _ _ _ _ Hm) in Hd.
  destruct Hd as [Hd|[[Hx ->]|[Hy ->]]]; [assumption| |].
  - destruct (md_fx _ _ _ _ _ _ _ _ _ Hm Hx) as [Hge _]. lia.
  - destruct (md_fy _ _ _ _ _ _ _ _ _ Hm Hy) as [Hge _]. lia.
Qed.

Lemma mid_compl : forall E st x y st2 xs ys xn yn, tinv E st -> mid E st x y st2 xs ys xn yn ->
  compl E st2.
Proof.
  intros E st x y st2 xs ys xn yn Ht Hm.
  intros a b u v Da Db Ma Mb R.
  destruct (rtc_mentioned E u v R) as [Mu Mv].
  apply (m_ids E st Ht) in Mu. apply (m_ids E st Ht) in Mv.
  destruct (mid_mem_old _ _ _ _ _ _ _ _ _ Hm a u Ma Mu) as [Ma' La]. destruct (mid_mem_old _ _ _ _ _ _ _ _ _ Hm b v Mb Mv) as [Mb' Lb].
  pose proof (mid_dom_old _ _ _ _ _ _ _ _ _ Hm a Da La) as Da'. pose proof (mid_dom_old _ _ _ _ _ _ _ _ _ Hm b Db Lb) as Db'.
  destruct (m_complete E st Ht a b u v Da' Db' Ma' Mb' R) as [H|H]; [left; assumption|right; apply (mid_cn _ _ _ _ _ _ _ _ _ Hm); assumption].
Qed.

(* presence of map keys, except for the fresh classes *)
Lemma mid_pres : forall E st x y st2 xs ys xn yn, tinv E st -> mid E st x y st2 xs ys xn yn ->
  forall d, dominant st2 d ->
  (xn = true /\ d = xs) \/ (yn = true /\ d = ys) \/ P d \/ (ahas d (t_conn st2) = true /\ ahas d (t_rev st2) = true).
Proof.
  intros E st x y st2 xs ys xn yn Ht Hm.
  intros d Hd. apply (md_dom _ _ _ _ _ _ _ _ _ Hm) in Hd. destruct Hd as [Hd|[Hd|Hd]]; [|auto|auto].
  right; right. rewrite (md_conn _ _ _ _ _ _ _ _ _ Hm), (md_rev _ _ _ _ _ _ _ _ _ Hm). apply (w_present E st Ht d Hd).
Qed.

(* both in one class and one of the two calls created a class: it was the first call *)
Lemma mid_fresh_ne : forall E st x y st2 xs ys xn yn, tinv E st -> mid E st x y st2 xs ys xn yn ->
  xn || yn = true -> xs = ys -> xn = true.
Proof.
  intros E st x y st2 xs ys xn yn Ht Hm Hf He. destruct xn; [reflexivity|]. cbn in Hf. exfalso.
  destruct (md_fy _ _ _ _ _ _ _ _ _ Hm Hf) as [Hge Hny].
  pose proof (md_ox _ _ _ _ _ _ _ _ _ Hm eq_refl) as Hox.
  pose proof (md_mx _ _ _ _ _ _ _ _ _ Hm) as Mx.
  destruct (mid_mem_old E st x y st2 xs ys false yn Hm xs x Mx Hox) as [_ Hlt]. lia.
Qed.

(* ---- completeness after add_set_connection *)
Lemma compl_after_asc : forall E st st' from to x0 y0,
  cinv (E ++ [(x0,y0)]) st -> compl E st -> dominant st from -> dominant st to ->
  mem_of st from x0 -> mem_of st to y0 -> t_sets st' = t_sets st -> t_subs st' = t_subs st ->
  (forall a b, dominant st a -> (cn st' a b <-> cn st a b \/ ((a = from \/ cn st a from) /\ (b = to \/ cn st to b)))) ->
  compl (E ++ [(x0,y0)]) st'.
Proof.
  intros E st st' from to x0 y0 Hc Hcm Df Dt Mf Mt Hs Hsub Hcn a b u v Da Db Ma Mb R.
  assert (Hdm : forall d, dominant st' d -> dominant st d).
  { intros d; unfold dominant, nsets; rewrite Hs, Hsub; auto. }
  apply Hdm in Da, Db. apply (mem_of_sets st st' Hs) in Ma, Mb.
  apply rtc_snoc_inv in R. destruct R as [R|[[A B]|[<- _]]].
  - destruct (Hcm a b u v Da Db Ma Mb R) as [H|H]; [left; assumption|right; apply Hcn; auto].
  - assert (Pa : a = from \/ cn st a from).
    { destruct A as [->|A]; [left; eapply cmem_disj; eassumption|apply (Hcm a from u x0); assumption]. }
    assert (Pb : b = to \/ cn st to b).
    { destruct B as [->|B]; [left; eapply cmem_disj; eassumption|].
      destruct (Hcm to b y0 v Dt Db Mt Mb B) as [H|H]; auto. }
    right; apply Hcn; auto.
  - left; eapply cmem_disj; eassumption.
Qed.

(* ---- from the description of the state after add_set_connection to the invariant *)
Lemma finish_asc : forall E st x y st2 xs ys xn yn st3,
  tinv E st -> mid E st x y st2 xs ys xn yn ->
  t_sets st3 = t_sets st2 -> t_ids st3 = t_ids st2 -> t_subs st3 = t_subs st2 ->
  cinv (E ++ [(x, y)]) st3 ->
  (forall a b, dominant st2 a -> (cn st3 a b <-> cn st2 a b \/ ((a = xs \/ cn st2 a xs) /\ (b = ys \/ cn st2 ys b)))) ->
  (forall d, ahas d (t_conn st2) = true \/ d = xs \/ d = ys -> ahas d (t_conn st3) = true) ->
  (forall d, ahas d (t_rev st2) = true \/ d = xs \/ d = ys -> ahas d (t_rev st3) = true) ->
  tinv (E ++ [(x, y)]) st3.
Proof.
  intros E st x y st2 xs ys xn yn st3 Ht Hm Hs Hi Hsub Hc3 Hcn HkC HkR.
  apply tinv_split. split; [assumption|]. split; [|split].
  - intros d Hd.
    assert (Hd2 : dominant st2 d) by (revert Hd; unfold dominant, nsets; rewrite Hs, Hsub; auto).
    destruct (mid_pres E st x y st2 xs ys xn yn Ht Hm d Hd2) as [[_ ->]|[[_ ->]|[Hpd|[H1 H2]]]];
      [right; split; auto|right; split; auto|left; exact Hpd|right; split; auto].
  - eapply compl_after_asc with (st := st2) (from := xs) (to := ys); try eassumption.
    + apply (md_cinv _ _ _ _ _ _ _ _ _ Hm).
    + eapply mid_compl; eassumption.
    + apply (md_dx _ _ _ _ _ _ _ _ _ Hm).
    + apply (md_dy _ _ _ _ _ _ _ _ _ Hm).
    + apply (md_mx _ _ _ _ _ _ _ _ _ Hm).
    + apply (md_my _ _ _ _ _ _ _ _ _ Hm).
  - intros z Hz. rewrite Hi. apply (md_ids _ _ _ _ _ _ _ _ _ Hm); assumption.
Qed.

Lemma asc_maps_self : forall C R n, aget n C = None -> aget n R = None ->
  (forall a, aget a (fst (asc_maps C R n n)) = if Nat.eqb a n then Some [n] else aget a C) /\
  (forall a, aget a (snd (asc_maps C R n n)) = if Nat.eqb a n then Some [n] else aget a R).
Proof.
  intros C R n HC HR.
  assert (EC : eget n C = []) by (unfold eget; rewrite HC; reflexivity).
  assert (ER : eget n R = []) by (unfold eget; rewrite HR; reflexivity).
  unfold asc_maps. rewrite EC, ER. cbn [sadd smem existsb app].
  rewrite !eget_aset_eq.
  cbn [sdiff filter smem existsb negb fold_left add_one_connection].
  rewrite !eget_aset_eq. cbn [smem existsb sadd app fst snd].
  split; intros a; rewrite !aget_aset; destruct (Nat.eqb a n); reflexivity.
Qed.

Lemma asc_self : forall Es st n,
  cinv Es st -> dominant st n -> aget n (t_conn st) = None -> aget n (t_rev st) = None ->
  (forall a, ~ cn st a n) -> (forall a, ~ rv st a n) ->
  exists st', add_set_connection st n n = Ok (st', true) /\
    t_sets st' = t_sets st /\ t_ids st' = t_ids st /\ t_subs st' = t_subs st /\
    cinv Es st' /\
    (forall a b, dominant st a ->
       (cn st' a b <-> cn st a b \/ ((a = n \/ cn st a n) /\ (b = n \/ cn st n b)))) /\
    (forall d, ahas d (t_conn st) = true \/ d = n \/ d = n -> ahas d (t_conn st') = true) /\
    (forall d, ahas d (t_rev st) = true \/ d = n \/ d = n -> ahas d (t_rev st') = true).
Proof.
  intros Es st n Hc Dn HC HR Hnc Hnr.
  assert (EC : eget n (t_conn st) = []) by (unfold eget; rewrite HC; reflexivity).
  assert (ER : eget n (t_rev st) = []) by (unfold eget; rewrite HR; reflexivity).
  assert (Hm : smem n (eget n (t_conn st)) = false) by (rewrite EC; reflexivity).
  rewrite (asc_eq st n n Hm).
  destruct (asc_maps_self (t_conn st) (t_rev st) n HC HR) as [AC AR].
  destruct (asc_good (dominant st) (t_conn st) (t_rev st) n n) as [GC GR];
    [apply mset_wf_good, (c_conn Es st Hc)|apply mset_wf_good, (c_rev Es st Hc)|exact Dn|exact Dn|].
  set (C6 := fst (asc_maps (t_conn st) (t_rev st) n n)) in *.
  set (R6 := snd (asc_maps (t_conn st) (t_rev st) n n)) in *.
  exists (with_cr st C6 R6). split; [reflexivity|]. split; [reflexivity|]. split; [reflexivity|]. split; [reflexivity|].
  assert (XC : forall a, eget a C6 = if Nat.eqb a n then [n] else eget a (t_conn st)).
  { intros a; unfold eget; rewrite AC; destruct (Nat.eqb a n); reflexivity. }
  assert (XR : forall a, eget a R6 = if Nat.eqb a n then [n] else eget a (t_rev st)).
  { intros a; unfold eget; rewrite AR; destruct (Nat.eqb a n); reflexivity. }
  assert (KC : forall a b, cn (with_cr st C6 R6) a b <-> cn st a b \/ (a = n /\ b = n)).
  { intros a b. unfold cn; cbn [t_conn with_cr]. rewrite XC. destruct (Nat.eqb_spec a n) as [->|Han].
    - rewrite EC. cbn. intuition.
    - intuition. }
  assert (KR : forall a b, rv (with_cr st C6 R6) a b <-> rv st a b \/ (a = n /\ b = n)).
  { intros a b. unfold rv; cbn [t_rev with_cr]. rewrite XR. destruct (Nat.eqb_spec a n) as [->|Han].
    - rewrite ER. cbn. intuition.
    - intuition. }
  assert (Hn0 : forall b, ~ cn st n b) by (intros b; unfold cn; rewrite EC; intros []).
  split; [|split; [|split]].
  - destruct Hc. constructor; try assumption.
    + apply mset_wf_good; exact GC.
    + apply mset_wf_good; exact GR.
    + intros a b Hab. rewrite KC, KR, (c_conv a b Hab). intuition congruence.
    + intros a b c Hab Hbc Hac. apply KC in Hab, Hbc. apply KC.
      destruct Hab as [Hab|[-> ->]]; destruct Hbc as [Hbc|[Hb ->]].
      * left; eapply c_trans; eassumption.
      * subst b. exfalso; eapply Hnc; eassumption.
      * exfalso; eapply Hn0; eassumption.
      * congruence.
    + intros a b Hne Hab Hba. apply KC in Hab, Hba.
      destruct Hab as [Hab|[-> ->]]; [|congruence]. destruct Hba as [Hba|[-> ->]]; [|congruence].
      eapply c_antisym; eassumption.
    + intros a b u v Hab Hu Hv. apply KC in Hab. destruct Hab as [Hab|[-> ->]].
      * eapply c_conn_sound; eassumption.
      * eapply c_class; eassumption.
  - intros a b _. rewrite KC. split.
    + intros [H|[-> ->]]; auto.
    + intros [H|[[->|H1] [->|H2]]]; auto; exfalso; first [eapply Hn0; eassumption|eapply Hnc; eassumption].
  - intros d Hd. cbn [t_conn with_cr]. unfold ahas. rewrite AC. destruct (Nat.eqb_spec d n) as [->|Hdn]; [reflexivity|].
    destruct Hd as [Hd|[Hd|Hd]]; [exact Hd|contradiction|contradiction].
  - intros d Hd. cbn [t_rev with_cr]. unfold ahas. rewrite AR. destruct (Nat.eqb_spec d n) as [->|Hdn]; [reflexivity|].
    destruct Hd as [Hd|[Hd|Hd]]; [exact Hd|contradiction|contradiction].
Qed.

Lemma asc_early : forall st from to, smem to (eget from (t_conn st)) = true ->
  add_set_connection st from to = Ok (with_cr st (ensure from (t_conn st)) (t_rev st), false).
Proof. intros st from to H. unfold add_set_connection. rewrite H. reflexivity. Qed.

(* ---- the branches of tr_add *)

(* a new edge between two different classes that are not connected in either direction *)
Lemma case_new_edge : forall E st x y st2 xs ys xn yn,
  tinv E st -> mid E st x y st2 xs ys xn yn -> xs <> ys -> ~ cn st2 ys xs -> ~ cn st2 xs ys ->
  exists st3, add_set_connection st2 xs ys = Ok (st3, true) /\ tinv (E ++ [(x, y)]) st3.
Proof.
  intros E st x y st2 xs ys xn yn Ht Hm Hne Hb Hf.
  destruct (asc_state (E ++ [(x, y)]) st2 xs ys x y
              (md_cinv _ _ _ _ _ _ _ _ _ Hm) (md_dx _ _ _ _ _ _ _ _ _ Hm) (md_dy _ _ _ _ _ _ _ _ _ Hm) Hne Hb Hf
              (md_mx _ _ _ _ _ _ _ _ _ Hm) (md_my _ _ _ _ _ _ _ _ _ Hm))
    as [st3 [Ea [Hs [Hi [Hsub [Hc3 [Hcn [HkC HkR]]]]]]]].
  { apply rtc_e. apply in_app_iff; right; now left. }
  exists st3; split; [assumption|]. eapply finish_asc; eassumption.
Qed.

(* add x x for a new x: the self loop of a fresh singleton class *)
Lemma case_self_fresh : forall E st x y st2 xs xn yn,
  tinv E st -> mid E st x y st2 xs xs xn yn -> xn = true ->
  exists st3, add_set_connection st2 xs xs = Ok (st3, true) /\ tinv (E ++ [(x, y)]) st3.
Proof.
  intros E st x y st2 xs xn yn Ht Hm Hx.
  destruct (md_fx _ _ _ _ _ _ _ _ _ Hm Hx) as [Hge _].
  destruct (asc_self (E ++ [(x, y)]) st2 xs
              (md_cinv _ _ _ _ _ _ _ _ _ Hm) (md_dx _ _ _ _ _ _ _ _ _ Hm)
              (mid_conn_key E st x y st2 xs xs xn yn Ht Hm xs Hge) (mid_rev_key E st x y st2 xs xs xn yn Ht Hm xs Hge))
    as [st3 [Ea [Hs [Hi [Hsub [Hc3 [Hcn [HkC HkR]]]]]]]].
  { intros a H. apply (mid_cn_old E st x y st2 xs xs xn yn Ht Hm) in H. lia. }
  { intros a H. apply (mid_rv_old E st x y st2 xs xs xn yn Ht Hm) in H. lia. }
  exists st3; split; [assumption|]. eapply finish_asc; eassumption.
Qed.

(* both elements old and already related: the state after the two lookups satisfies the invariant *)
Lemma case_old_related : forall E st x y st2 xs ys,
  tinv E st -> mid E st x y st2 xs ys false false -> rtc E x y -> tinv (E ++ [(x, y)]) st2.
Proof.
  intros E st x y st2 xs ys Ht Hm R. apply tinv_split.
  split; [apply (md_cinv _ _ _ _ _ _ _ _ _ Hm)|]. split; [|split].
  - intros d Hd.
    destruct (mid_pres E st x y st2 xs ys false false Ht Hm d Hd) as [[H _]|[[H _]|H]]; [discriminate|discriminate|exact H].
  - intros a b u v Da Db Ma Mb R'.
    apply (mid_compl E st x y st2 xs ys false false Ht Hm a b u v Da Db Ma Mb).
    eapply rtc_snoc_redundant; eassumption.
  - apply (md_ids _ _ _ _ _ _ _ _ _ Hm).
Qed.

Lemma mid_old_mem : forall E st x y st2 xs ys, mid E st x y st2 xs ys false false ->
  forall s z, mem_of st2 s z -> mem_of st s z.
Proof.
  intros E st x y st2 xs ys Hm s z H. apply (md_mem _ _ _ _ _ _ _ _ _ Hm) in H.
  destruct H as [H|[[H _]|[H _]]]; [assumption|discriminate|discriminate].
Qed.

Lemma with_cr_same : forall st, with_cr st (t_conn st) (t_rev st) = st.
Proof. intros []; reflexivity. Qed.

Theorem tr_add_cases : collapse_ok_stmt P -> forall E st x y, tinv E st ->
  exists st' b, tr_add st x y = Ok (st', b) /\ tinv (E ++ [(x, y)]) st'.
Proof.
  intros collapse_ok E st x y Ht.
  destruct (mid_intro E st x y Ht) as [st1 [xs [xn [st2 [ys [yn [H1 [H2 Hm]]]]]]]].
  unfold tr_add. rewrite H1. cbn [bind]. rewrite H2. cbn [bind].
  destruct (xn || yn) eqn:Hf.
  - (* A: a new element *)
    destruct (Nat.eq_dec xs ys) as [He|Hne].
    + subst ys. pose proof (mid_fresh_ne E st x y st2 xs xs xn yn Ht Hm Hf eq_refl) as Hx.
      destruct (case_self_fresh E st x y st2 xs xn yn Ht Hm Hx) as [st3 [Ea Ht3]].
      rewrite Ea. cbn [bind]. exists st3, true. auto.
    + assert (Hno : forall a b, cn st2 a b -> (a = xs \/ a = ys) -> (b = xs \/ b = ys) -> a <> b -> False).
      { intros a b Hab Ha Hb Hd.
        destruct (mid_cn_old E st x y st2 xs ys xn yn Ht Hm a b Hab) as [La Lb].
        apply orb_true_iff in Hf. destruct Hf as [Hx|Hy].
        - destruct (md_fx _ _ _ _ _ _ _ _ _ Hm Hx) as [Hge _]. destruct Ha as [->| ->], Hb as [->| ->]; try lia; congruence.
        - destruct (md_fy _ _ _ _ _ _ _ _ _ Hm Hy) as [Hge _]. destruct Ha as [->| ->], Hb as [->| ->]; try lia; congruence. }
      destruct (case_new_edge E st x y st2 xs ys xn yn Ht Hm Hne) as [st3 [Ea Ht3]].
      { intros H; apply (Hno ys xs H); auto. }
      { intros H; apply (Hno xs ys H); auto. }
      rewrite Ea. cbn [bind]. exists st3, true. auto.
  - apply orb_false_iff in Hf. destruct Hf as [-> ->].
    pose proof (md_mx _ _ _ _ _ _ _ _ _ Hm) as Mx2. pose proof (md_my _ _ _ _ _ _ _ _ _ Hm) as My2.
    pose proof (mid_old_mem _ _ _ _ _ _ _ Hm _ _ Mx2) as Mx. pose proof (mid_old_mem _ _ _ _ _ _ _ Hm _ _ My2) as My.
    destruct (Nat.eqb_spec xs ys) as [He|Hne].
    + (* B: same class *)
      subst ys. exists st2, false. split; [reflexivity|].
      eapply case_old_related; [exact Ht|exact Hm|]. eapply (m_class E st Ht); eassumption.
    + assert (Hback : match aget ys (t_conn st2) with Some c => smem xs c | None => false end
                      = smem xs (eget ys (t_conn st2))).
      { unfold eget. destruct (aget ys (t_conn st2)); reflexivity. }
      rewrite Hback. clear Hback.
      destruct (smem xs (eget ys (t_conn st2))) eqn:Hyx.
      * (* C: back edge, collapse *)
        apply smem_in in Hyx.
        destruct (collapse_ok E st2 x y xs ys) as [st' [Ec Ht']].
        -- apply (md_cinv _ _ _ _ _ _ _ _ _ Hm).
        -- intros d Hd.
           destruct (mid_pres E st x y st2 xs ys false false Ht Hm d Hd) as [[H _]|[[H _]|H]]; [discriminate|discriminate|exact H].
        -- eapply mid_compl; eassumption.
        -- apply (md_ids _ _ _ _ _ _ _ _ _ Hm).
        -- apply (md_dx _ _ _ _ _ _ _ _ _ Hm).
        -- apply (md_dy _ _ _ _ _ _ _ _ _ Hm).
        -- assumption.
        -- assumption.
        -- assumption.
        -- exact Hyx.
        -- exists st', true. auto.
      * apply smem_false in Hyx.
        destruct (smem ys (eget xs (t_conn st2))) eqn:Hxy.
        -- (* D1: the edge exists *)
           rewrite (asc_early st2 xs ys Hxy). cbn [bind].
           assert (Hsame : with_cr st2 (ensure xs (t_conn st2)) (t_rev st2) = st2).
           { unfold ensure. destruct (aget xs (t_conn st2)) eqn:Hk; [apply with_cr_same|]. exfalso.
             unfold eget in Hxy; rewrite Hk in Hxy; cbn in Hxy; discriminate. }
           rewrite Hsame. exists st2, true. split; [reflexivity|].
           eapply case_old_related; [exact Ht|exact Hm|].
           apply smem_in in Hxy.
           eapply (m_conn E st Ht xs ys); [|eassumption|eassumption].
           apply (mid_cn E st x y st2 xs ys false false Hm). exact Hxy.
        -- (* D2: a new edge *)
           apply smem_false in Hxy.
           destruct (case_new_edge E st x y st2 xs ys false false Ht Hm Hne Hyx Hxy) as [st3 [Ea Ht3]].
           rewrite Ea. cbn [bind]. exists st3, true. auto.
Qed.

Section Cases.
  Hypothesis collapse_ok : collapse_ok_stmt P.
  Theorem tr_add_inv_gen : forall E st x y, tinv E st ->
    exists st' b, tr_add st x y = Ok (st', b) /\ tinv (E ++ [(x, y)]) st'.
  Proof. exact (tr_add_cases collapse_ok). Qed.
End Cases.
End WithP.

Print Assumptions tr_empty_inv.
Print Assumptions tr_add_inv_gen.
