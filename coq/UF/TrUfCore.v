(* C18, TrRelUnionFind: the invariant [tinv] split into the parts that the sub-steps of [tr_add]
   preserve separately.  [cinv Es st]: everything except presence of map keys, completeness and the
   "mentioned -> has an id" direction; soundness is stated w.r.t. the pair list Es. *)
From Coq Require Import List Arith Bool Lia.
From AV Require Import UF.UfBase.
From AV Require Import UF.TrUfModel.
From AV Require Import UF.TrUfInv.
Import ListNotations.

Record cinv (Es : list (nat * nat)) (st : truf) : Prop := mkCinv {
  c_subs_range : forall s f, aget s (t_subs st) = Some f -> s < nsets st /\ f < nsets st;
  c_subs_keys : NoDup (map fst (t_subs st));
  c_subs_dom : forall t, t < nsets st -> exists d, dom_to st t d;
  c_sets_nodup : NoDup (concat (t_sets st));
  c_subsumed_empty : forall s f, aget s (t_subs st) = Some f -> nth_error (t_sets st) s = Some [];
  c_ids_mem : forall x i, aget x (t_ids st) = Some i -> i < nsets st /\ exists d, dom_to st i d /\ mem_of st d x;
  c_mem_ids : forall s x, mem_of st s x -> aget x (t_ids st) <> None;
  c_ids_keys : NoDup (map fst (t_ids st));
  c_conn : mset_wf st (t_conn st);
  c_rev : mset_wf st (t_rev st);
  c_nonempty : forall d, dominant st d -> exists x, mem_of st d x;
  c_conv : forall a b, a <> b -> (cn st a b <-> rv st b a);
  c_trans : forall a b c, cn st a b -> cn st b c -> a <> c -> cn st a c;
  c_antisym : forall a b, a <> b -> cn st a b -> ~ cn st b a;
  c_ids_ment : forall x, aget x (t_ids st) <> None -> mentioned Es x;
  c_class : forall s x y, mem_of st s x -> mem_of st s y -> rtc Es x y;
  c_conn_sound : forall a b x y, cn st a b -> mem_of st a x -> mem_of st b y -> rtc Es x y
}.

(* every live class id outside P has an entry in both maps *)
Definition pres (P : nat -> Prop) (st : truf) : Prop :=
  forall d, dominant st d -> P d \/ (ahas d (t_conn st) = true /\ ahas d (t_rev st) = true).

(* completeness w.r.t. the pair list Ec *)
Definition compl (Ec : list (nat * nat)) (st : truf) : Prop :=
  forall a b x y, dominant st a -> dominant st b -> mem_of st a x -> mem_of st b y -> rtc Ec x y -> a = b \/ cn st a b.

Lemma tinv_split : forall {P : nat -> Prop} E st,
  tinvP P E st <-> cinv E st /\ pres P st /\ compl E st /\ (forall x, mentioned E x -> aget x (t_ids st) <> None).
Proof.
  intros P E st; split.
  - intros H. split; [|split; [|split]].
    + destruct H. constructor; try assumption. intros x Hx; apply m_ids; assumption.
    + intros d Hd; apply (w_present E st H); assumption.
    + exact (m_complete E st H).
    + intros x Hx; apply (m_ids E st H); assumption.
  - intros [Hc [Hp [Hm Hi]]]. destruct Hc. constructor; try assumption.
    + intros x; split; [apply c_ids_ment0|apply Hi].
Qed.

(* ---- interfaces between the parts of the preservation proof *)

(* add_node_new (proved in TrUfNode.v as ann_spec) *)
Definition ann_ok_stmt : Prop := forall Es st x, cinv Es st -> mentioned Es x ->
  exists st' id fresh, add_node_new st x = Ok (st', id, fresh) /\
    cinv Es st' /\ dominant st' id /\ mem_of st' id x /\
    t_conn st' = t_conn st /\ t_rev st' = t_rev st /\
    (forall z, aget z (t_ids st') <> None <-> aget z (t_ids st) <> None \/ z = x) /\
    (fresh = false -> aget x (t_ids st) <> None /\ nsets st' = nsets st /\ t_sets st' = t_sets st /\
                      (forall d, dominant st' d <-> dominant st d)) /\
    (fresh = true -> aget x (t_ids st) = None /\ id = nsets st /\ t_sets st' = t_sets st ++ [[x]] /\
                     t_subs st' = t_subs st /\
                     (forall d, dominant st' d <-> dominant st d \/ d = id) /\
                     (forall s z, mem_of st' s z <-> mem_of st s z \/ (s = id /\ z = x))).

(* the collapse branch of add (proved in TrUfCollapse.v as collapse_spec) *)
Definition collapse_ok_stmt (P : nat -> Prop) : Prop := forall E st x y xs ys,
  cinv (E ++ [(x, y)]) st -> pres P st -> compl E st ->
  (forall z, mentioned (E ++ [(x, y)]) z -> aget z (t_ids st) <> None) ->
  dominant st xs -> dominant st ys -> xs <> ys -> mem_of st xs x -> mem_of st ys y -> cn st ys xs ->
  exists st', collapse_branch st x y xs ys = Ok (st', true) /\ tinvP P (E ++ [(x, y)]) st'.

(* ---- the part of the invariant that only concerns sets / elem_ids / set_subsumptions *)
Record sinv (st : truf) : Prop := mkSinv {
  s_subs_range : forall s f, aget s (t_subs st) = Some f -> s < nsets st /\ f < nsets st;
  s_subs_keys : NoDup (map fst (t_subs st));
  s_subs_dom : forall t, t < nsets st -> exists d, dom_to st t d;
  s_sets_nodup : NoDup (concat (t_sets st));
  s_subsumed_empty : forall s f, aget s (t_subs st) = Some f -> nth_error (t_sets st) s = Some [];
  s_ids_mem : forall x i, aget x (t_ids st) = Some i -> i < nsets st /\ exists d, dom_to st i d /\ mem_of st d x;
  s_mem_ids : forall s x, mem_of st s x -> aget x (t_ids st) <> None;
  s_ids_keys : NoDup (map fst (t_ids st));
  s_nonempty : forall d, dominant st d -> exists x, mem_of st d x
}.

Lemma cinv_sinv : forall Es st, cinv Es st -> sinv st.
Proof. intros Es st H; destruct H; constructor; assumption. Qed.

(* the second loop of merge_multiple (proved in TrUfMerge.v as mm_collapse_spec) *)
Definition mm_collapse_stmt : Prop := forall st from l,
  sinv st -> dominant st from -> NoDup l -> (forall s, In s l -> dominant st s /\ s <> from) ->
  exists st', mm_collapse from l st = Ok st' /\
    sinv st' /\
    t_ids st' = t_ids st /\ nsets st' = nsets st /\
    (forall k, aget k (t_conn st') = if existsb (Nat.eqb k) l then None else aget k (t_conn st)) /\
    (forall k, aget k (t_rev st') = if existsb (Nat.eqb k) l then None else aget k (t_rev st)) /\
    (NoDup (map fst (t_conn st)) -> NoDup (map fst (t_conn st'))) /\
    (NoDup (map fst (t_rev st)) -> NoDup (map fst (t_rev st'))) /\
    (forall d, dominant st' d <-> dominant st d /\ ~ In d l) /\
    (forall s u, mem_of st' s u <->
       (s = from /\ (mem_of st from u \/ exists z, In z l /\ mem_of st z u)) \/
       (s <> from /\ ~ In s l /\ mem_of st s u)) /\
    (forall t d, dom_to st t d -> dom_to st' t (if existsb (Nat.eqb d) l then from else d)).
