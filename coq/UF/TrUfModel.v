(* Executable model of byods/ascent-byods-rels/src/trrel_union_find.rs (TrRelUnionFind<T>), C18.
   Same five fields as the code: sets (Vec<HashSet<T>>) as a vector of duplicate-free lists,
   elem_ids / set_subsumptions (HashMap) as association lists, set_connections /
   reverse_set_connections (HashMap<usize, HashSet<usize>>) as association lists of duplicate-free
   lists; presence of a key (entry(..).or_default()) is part of the state.
   Vec indexing, HashMap indexing and unwrap are checked here and return [Err ..]; the recursive
   get_dominant_id runs on fuel = number of sets + 1.  The debug_assertions-only call of
   assert_disjoint_invariant in add_node_new / merge_multiple is part of the model (the harness
   is a debug build).  HashSet iteration order is not modelled: every loop over a set below
   performs insertions / removals on entries chosen by the loop variable, which commute.
   No proofs in this file (TrUfProofs.v). *)
From Coq Require Import List Arith Bool ZArith.
From AV Require Import UF.UfBase.
Import ListNotations.

Record truf : Type := mkTr {
  t_sets : list (list nat);       (* sets *)
  t_ids : list (nat * nat);       (* elem_ids *)
  t_subs : list (nat * nat);      (* set_subsumptions *)
  t_conn : mset;                  (* set_connections *)
  t_rev : mset                    (* reverse_set_connections *)
}.
Definition tr_empty : truf := mkTr [] [] [] [] [].
Definition dbgt (b : bool) : res unit := if b then Ok tt else Err AssertFail.
Definition with_cr (st : truf) (c r : mset) : truf := mkTr (t_sets st) (t_ids st) (t_subs st) c r.

(* get_dominant_id *)
Fixpoint gdom (fuel : nat) (subs : list (nat * nat)) (id : nat) : res nat :=
  match fuel with
  | O => Err NoFuel
  | S f => match aget id subs with Some d => gdom f subs d | None => Ok id end
  end.
Definition dfuel (st : truf) : nat := S (length (t_sets st)).
Definition dom_id (st : truf) (id : nat) : res nat := gdom (dfuel st) (t_subs st) id.

(* get_dominant_id_mut_with_depth: path compression (the depth only feeds statistics) *)
Fixpoint gdom_mut (fuel : nat) (subs : list (nat * nat)) (id : nat) : res (list (nat * nat) * nat) :=
  match fuel with
  | O => Err NoFuel
  | S f =>
    match aget id subs with
    | Some p =>
      do (subs1, d) <- gdom_mut f subs p;
      if Nat.eqb d p then Ok (subs1, d) else Ok (aset id d subs1, d)
    | None => Ok (subs, id)
    end
  end.

(* elem_set *)
Definition elem_set (st : truf) (x : nat) : res (option nat) :=
  match aget x (t_ids st) with
  | None => Ok None
  | Some id => do d <- dom_id st id; Ok (Some d)
  end.

(* elem_set_update *)
Definition elem_set_update (st : truf) (x : nat) : res (truf * option nat) :=
  match aget x (t_ids st) with
  | None => Ok (st, None)
  | Some id =>
    do (subs1, d) <- gdom_mut (dfuel st) (t_subs st) id;
    let ids1 := if Nat.eqb id d then t_ids st else aset x d (t_ids st) in
    Ok (mkTr (t_sets st) ids1 subs1 (t_conn st) (t_rev st), Some d)
  end.

(* assert_disjoint_invariant *)
Fixpoint disjoint_from (acc : list nat) (sets : list (list nat)) : bool :=
  match sets with
  | [] => true
  | s :: rest => negb (existsb (fun x => smem x acc) s) && disjoint_from (s ++ acc) rest
  end.
Definition disjoint_ok (st : truf) : bool := disjoint_from [] (t_sets st).

(* assert_set_connections_dominant_sets *)
Definition dominant_ok (st : truf) : bool :=
  let dominated := filter (fun s => ahas s (t_subs st)) (seq 0 (length (t_sets st))) in
  forallb (fun kv => match sinter (snd kv) dominated with [] => true | _ => false end) (t_conn st)
  && forallb (fun kv => match sinter (snd kv) dominated with [] => true | _ => false end) (t_rev st).

(* add_node_new *)
Definition add_node_new (st : truf) (x : nat) : res (truf * nat * bool) :=
  do (st1, r) <- elem_set_update st x;
  do (st2, id, fresh) <-
    match r with
    | Some set_id => Ok (st1, set_id, false)
    | None =>
      let id := length (t_sets st1) in
      Ok (mkTr (t_sets st1 ++ [[x]]) (aset x id (t_ids st1)) (t_subs st1) (t_conn st1) (t_rev st1), id, true)
    end;
  do _ <- dbgt (disjoint_ok st2);
  Ok (st2, id, fresh).

(* add_one_connection *)
Definition add_one_connection (cr : mset * mset) (x' y' : nat) : mset * mset :=
  let '(conn, rev) := cr in
  let cx := eget x' conn in
  if smem y' cx then (ensure x' conn, rev)
  else (aset x' (sadd y' cx) conn, aset y' (sadd x' (eget y' rev)) rev).

(* add_set_connection *)
Definition add_set_connection (st : truf) (from to : nat) : res (truf * bool) :=
  let conn0 := t_conn st in
  let rev0 := t_rev st in
  let cf := eget from conn0 in
  if smem to cf then Ok (with_cr st (ensure from conn0) rev0, false) else
  let conn1 := aset from (sadd to cf) conn0 in
  let rev1 := aset to (sadd from (eget to rev0)) rev0 in
  let frc := eget from rev1 in                 (* take(reverse_set_connections.entry(from).or_default()) *)
  let rev2 := aset from [] rev1 in
  let tc := eget to conn1 in                   (* take(set_connections.entry(to).or_default()) *)
  let conn2 := aset to [] conn1 in
  do cf2 <- of_opt UnwrapNone (aget from conn2);      (* self.set_connections[&from] *)
  do rt2 <- of_opt UnwrapNone (aget to rev2);         (* self.reverse_set_connections[&to] *)
  let new_tc := sdiff tc cf2 in
  let new_frc := sdiff frc rt2 in
  let '(conn3, rev3) :=
    fold_left (fun cr x' => fold_left (fun cr y' => add_one_connection cr x' y') new_tc cr) new_frc (conn2, rev2) in
  let conn4 := fold_left (fun c x' => aset x' (sadd to (eget x' c)) c) new_frc conn3 in
  let rev4 := fold_left (fun r y' => aset y' (sadd from (eget y' r)) r) new_tc rev3 in
  let rev5 := aset to (sunion (eget to rev4) frc) rev4 in
  let conn5 := aset from (sunion (eget from conn4) tc) conn4 in
  let rev6 := aset from frc rev5 in
  let conn6 := aset to tc conn5 in
  Ok (with_cr st conn6 rev6, true).

(* merge_multiple, first loop: for s in [from, to] *)
Definition mm_fix_rev (ib : list nat) (from to : nat) (rev : mset) (z : nat) : mset :=
  aset z (sadd from (srem to (sdiff (eget z rev) ib))) rev.
Definition mm_fix_conn (ib : list nat) (from to : nat) (conn : mset) (z : nat) : mset :=
  aset z (srem to (sadd from (sdiff (eget z conn) ib))) conn.
Definition mm_side (ib : list nat) (from to : nat) (cr : mset * mset) (s : nat) : mset * mset :=
  let '(conn, rev) := cr in
  let rev1 := match aget s conn with
              | Some sc => fold_left (mm_fix_rev ib from to) (sdiff sc ib) rev
              | None => rev end in
  let conn1 := match aget s rev1 with
               | Some sr => fold_left (mm_fix_conn ib from to) (sdiff sr ib) conn
               | None => conn end in
  (conn1, rev1).

(* merge_multiple, second loop: for s in in_between.chain([to]) *)
Fixpoint mm_collapse (from : nat) (l : list nat) (st : truf) : res truf :=
  match l with
  | [] => Ok st
  | s :: rest =>
    do _ <- dbgt (negb (Nat.eqb from s));                         (* assert!(from != s) *)
    let conn1 := arem s (t_conn st) in
    let rev1 := arem s (t_rev st) in
    do taken <- of_opt Oob (nth_error (t_sets st) s);             (* take(&mut self.sets[s]) *)
    let sets1 := set_nth (t_sets st) s [] in
    do fs <- of_opt Oob (nth_error sets1 from);                   (* &mut self.sets[from] *)
    let sets2 := set_nth sets1 from (sunion fs taken) in          (* merge_sets *)
    mm_collapse from rest (mkTr sets2 (t_ids st) (aset s from (t_subs st)) conn1 rev1)
  end.

Definition merge_multiple (st : truf) (from to : nat) (ib : list nat) : res (truf * nat) :=
  let '(conn1, rev1) := fold_left (mm_side ib from to) [from; to] (t_conn st, t_rev st) in
  do st2 <- mm_collapse from (ib ++ [to]) (with_cr st conn1 rev1);
  do fc <- of_opt UnwrapNone (aget from (t_conn st2));            (* get_mut(&from).unwrap() *)
  let conn3 := aset from (sdiff (srem to fc) ib) (t_conn st2) in
  do fr <- of_opt UnwrapNone (aget from (t_rev st2));
  let rev3 := aset from (sdiff (srem to fr) ib) (t_rev st2) in
  let st3 := with_cr st2 conn3 rev3 in
  do _ <- dbgt (disjoint_ok st3);
  Ok (st3, from).

(* add, the branch "there exists a back-edge, collapse for anti-symmetry" (trrel_union_find.rs:141-163):
   st2 is the state after the two add_node_new calls, xs / ys the (different, old) classes of x / y *)
Definition collapse_branch (st2 : truf) (x y xs ys : nat) : res (truf * bool) :=
  do cy <- of_opt UnwrapNone (aget ys (t_conn st2));            (* self.set_connections[&y_set] *)
  do rx <- of_opt UnwrapNone (aget xs (t_rev st2));             (* self.reverse_set_connections[&x_set] *)
  let tbm := sadd ys (srem xs (sinter cy rx)) in
  let rev1 := aset xs (sdiff rx tbm) (t_rev st2) in             (* keep_difference(rev[x_set], tbm) *)
  let conn1 := aset ys (sdiff cy tbm) (t_conn st2) in           (* keep_difference(conn[y_set], tbm) *)
  do cy1 <- of_opt UnwrapNone (aget ys conn1);
  let conn2 := aset ys (srem xs cy1) conn1 in
  do rx1 <- of_opt UnwrapNone (aget xs rev1);
  let rev2 := aset xs (srem ys rx1) rev1 in
  do (st3, _) <- add_set_connection (with_cr st2 conn2 rev2) xs ys;
  let tbm2 := srem ys tbm in
  do (st4, merged) <- merge_multiple st3 xs ys tbm2;
  do _ <- of_opt UnwrapNone (aget x (t_ids st4));               (* elem_ids.get_mut(&x).unwrap() *)
  let ids1 := aset x merged (t_ids st4) in
  do _ <- of_opt UnwrapNone (aget y ids1);
  let ids2 := aset y merged ids1 in
  Ok (mkTr (t_sets st4) ids2 (t_subs st4) (t_conn st4) (t_rev st4), true).

(* add *)
Definition tr_add (st : truf) (x y : nat) : res (truf * bool) :=
  do (st1, xs, xn) <- add_node_new st x;
  do (st2, ys, yn) <- add_node_new st1 y;
  if xn || yn then do (st3, _) <- add_set_connection st2 xs ys; Ok (st3, true)
  else if Nat.eqb xs ys then Ok (st2, false)
  else if (match aget ys (t_conn st2) with Some c => smem xs c | None => false end) then
    collapse_branch st2 x y xs ys
  else do (st3, _) <- add_set_connection st2 xs ys; Ok (st3, true).

Fixpoint tr_run (st : truf) (adds : list (nat * nat)) : res truf :=
  match adds with
  | [] => Ok st
  | (x, y) :: rest => do (st1, _) <- tr_add st x y; tr_run st1 rest
  end.

(* histories mixing add with add_node_new (trrel_union_find.rs:107, pub(crate): called by the trrel_uf provider on the
   elements of a Delta; creates a singleton class WITHOUT entries in the two connection maps) *)
Inductive trop : Type := TAdd (x y : nat) | TNodeNew (x : nat).

(* the op's return value, flattened: add -> [bool]; add_node_new -> [id; bool] *)
Definition tr_step (st : truf) (o : trop) : res (truf * list nat) :=
  match o with
  | TAdd x y => do (st1, b) <- tr_add st x y; Ok (st1, [if b then 1 else 0])
  | TNodeNew x => do (st1, id, fr) <- add_node_new st x; Ok (st1, [id; if fr then 1 else 0])
  end.

Fixpoint tr_run_ops (st : truf) (ops : list trop) : res truf :=
  match ops with
  | [] => Ok st
  | o :: rest => do (st1, _) <- tr_step st o; tr_run_ops st1 rest
  end.

(* the pairs whose closure a mixed history generates: add_node_new x mentions x *)
Definition pairs_of (ops : list trop) : list (nat * nat) :=
  map (fun o => match o with TAdd x y => (x, y) | TNodeNew x => (x, x) end) ops.

(* ---- queries *)
Fixpoint mapM {A B} (f : A -> res B) (l : list A) : res (list B) :=
  match l with
  | [] => Ok []
  | a :: t => do b <- f a; do bs <- mapM f t; Ok (b :: bs)
  end.

Definition sets_of (st : truf) (ids : list nat) : res (list nat) :=
  do ss <- mapM (fun s => of_opt Oob (nth_error (t_sets st) s)) ids; Ok (concat ss).

(* set_of_by_set_id / rev_set_of_by_set_id *)
Definition by_set_id (st : truf) (m : mset) (id : nat) : res (list nat) :=
  do d <- dom_id st id;
  sets_of st (filter (fun s => negb (Nat.eqb s d)) (eget d m) ++ [d]).

Definition tr_set_of (st : truf) (x : nat) : res (option (list nat)) :=
  do so <- elem_set st x;
  match so with None => Ok None | Some id => do l <- by_set_id st (t_conn st) id; Ok (Some l) end.
Definition tr_rev_set_of (st : truf) (x : nat) : res (option (list nat)) :=
  do so <- elem_set st x;
  match so with None => Ok None | Some id => do l <- by_set_id st (t_rev st) id; Ok (Some l) end.

(* iter_all *)
Definition tr_iter_all (st : truf) : res (list (nat * nat)) :=
  do ls <- mapM (fun kv => do l <- by_set_id st (t_conn st) (snd kv); Ok (map (fun y => (fst kv, y)) l)) (t_ids st);
  Ok (concat ls).

(* Itertools::dedup: drops consecutive duplicates *)
Fixpoint dedup (l : list nat) : list nat :=
  match l with
  | [] => []
  | a :: t => match t with [] => [a] | b :: _ => if Nat.eqb a b then dedup t else a :: dedup t end
  end.

(* get_set_connections *)
Definition get_set_connections (st : truf) (set : nat) : res (option (list nat)) :=
  match aget set (t_conn st) with
  | None => Ok None
  | Some c => do ds <- mapM (dom_id st) c; Ok (Some (dedup ds))
  end.

Fixpoint anyM {A} (f : A -> res bool) (l : list A) : res bool :=
  match l with
  | [] => Ok false
  | a :: t => do b <- f a; if b then Ok true else anyM f t
  end.

(* contains *)
Definition tr_contains (st : truf) (x y : nat) : res bool :=
  do so <- elem_set st x;
  match so with
  | None => Ok false
  | Some set =>
    do s <- of_opt Oob (nth_error (t_sets st) set);
    if smem y s then Ok true else
    do co <- get_set_connections st set;
    match co with
    | None => Ok false
    | Some cs => anyM (fun s2 => do ss <- of_opt Oob (nth_error (t_sets st) s2); Ok (smem y ss)) cs
    end
  end.

Definition nodup_nat (l : list nat) : list nat := fold_left (fun acc x => sadd x acc) l [].

(* count_exact *)
Definition tr_count_exact (st : truf) : res nat :=
  do ds <- mapM (dom_id st) (seq 0 (length (t_sets st)));
  let dominant := nodup_nat ds in
  do parts <- mapM (fun s =>
      do ss <- of_opt Oob (nth_error (t_sets st) s);
      let n := length ss in
      do co <- get_set_connections st s;
      do rest <- mapM (fun s2 => if Nat.eqb s s2 then Ok 0 else
                                 do ss2 <- of_opt Oob (nth_error (t_sets st) s2); Ok (n * length ss2))
                      (match co with Some cs => cs | None => [] end);
      Ok (n * n + fold_left Nat.add rest 0)) dominant;
  Ok (fold_left Nat.add parts 0).

Definition tr_is_empty (st : truf) : bool := match t_sets st with [] => true | _ => false end.

(* ---- observation after every add, flattened to integers for the tie (dom = element domain size).
   Sets are rendered as (length, bit mask): canonical without sorting, duplicates show in the length. *)
Local Open Scope Z_scope.
Definition mask (l : list nat) : Z := fold_left (fun a x => Z.lor a (Z.shiftl 1 (Z.of_nat x))) l 0.
Definition zlen {A} (l : list A) : Z := Z.of_nat (length l).
Definition enc_set (l : list nat) : list Z := [zlen l; mask l].
Definition enc_oset (o : option (list nat)) : list Z := match o with Some l => [zlen l + 1; mask l] | None => [0; 0] end.
Definition enc_onat (o : option nat) : Z := match o with Some i => Z.of_nat i + 1 | None => 0 end.
Definition zb (b : bool) : Z := if b then 1 else 0.

Definition obs_queries (dom : nat) (st : truf) : res (list Z) :=
  let els := seq 0 dom in
  do rows <- mapM (fun x => do bs <- mapM (fun y => do b <- tr_contains st x y; Ok (if b then [y] else [])) els;
                            Ok (mask (concat bs))) els;
  do ia <- tr_iter_all st;
  let ia_rows := map (fun x => mask (map snd (filter (fun p => Nat.eqb (fst p) x) ia))) els in
  do so <- mapM (fun x => do o <- tr_set_of st x; Ok (enc_oset o)) els;
  do ro <- mapM (fun x => do o <- tr_rev_set_of st x; Ok (enc_oset o)) els;
  do ce <- tr_count_exact st;
  Ok (rows ++ [zlen ia] ++ ia_rows ++ concat so ++ concat ro
      ++ [Z.of_nat ce; zb (disjoint_ok st); zb (dominant_ok st); zb (tr_is_empty st)]).

Definition enc_mset (n : nat) (m : mset) : list Z :=
  concat (map (fun k => enc_oset (aget k m)) (seq 0 n)) ++ [zlen m].

Definition obs_tr_state (dom : nat) (st : truf) : list Z :=
  let n := length (t_sets st) in
  [Z.of_nat n] ++ concat (map enc_set (t_sets st))
  ++ map (fun x => enc_onat (aget x (t_ids st))) (seq 0 dom) ++ [zlen (t_ids st)]
  ++ map (fun s => enc_onat (aget s (t_subs st))) (seq 0 n) ++ [zlen (t_subs st)]
  ++ enc_mset n (t_conn st) ++ enc_mset n (t_rev st).

Fixpoint tr_trace (dom : nat) (st : truf) (adds : list (nat * nat)) (i : nat) (acc : list (list Z)) : ztrace :=
  match adds with
  | [] => ZOk (rev acc)
  | (x, y) :: rest =>
    match tr_add st x y with
    | Ok (st1, b) =>
      match obs_queries dom st1 with
      | Ok q => tr_trace dom st1 rest (S i) ((zb b :: q ++ obs_tr_state dom st1) :: acc)
      | Err e => ZErr (rev acc) i e
      end
    | Err e => ZErr (rev acc) i e
    end
  end.

Fixpoint tr_trace_ops (dom : nat) (st : truf) (ops : list trop) (i : nat) (acc : list (list Z)) : ztrace :=
  match ops with
  | [] => ZOk (rev acc)
  | o :: rest =>
    match tr_step st o with
    | Ok (st1, out) =>
      match obs_queries dom st1 with
      | Ok q => tr_trace_ops dom st1 rest (S i) ((map Z.of_nat (length out :: out) ++ q ++ obs_tr_state dom st1) :: acc)
      | Err e => ZErr (rev acc) i e
      end
    | Err e => ZErr (rev acc) i e
    end
  end.

