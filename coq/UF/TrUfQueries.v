(* C18, TrRelUnionFind: the query functions of the model answer exactly like the reflexive
   transitive closure of the added pairs, on every state that satisfies the invariant [tinv]. *)
From Coq Require Import List Arith Bool Lia Permutation.
From AV Require Import UF.UfBase.
From AV Require Import UF.TrUfModel.
From AV Require Import UF.TrUfInv.
From AV Require Import UF.TrUfLemmas.
Import ListNotations.

(* ---- generic list facts *)
Lemma NoDup_app_gen : forall A (a b : list A),
  NoDup a -> NoDup b -> (forall x, In x a -> ~ In x b) -> NoDup (a ++ b).
Proof.
  induction a as [|h a IH]; cbn; intros b Ha Hb Hd; [assumption|].
  inversion Ha as [|? ? Hn Ha']; subst. constructor.
  - rewrite in_app_iff. intros [H|H]; [contradiction|]. apply (Hd h); [now left|assumption].
  - apply IH; [assumption|assumption|]. intros x Hx; apply Hd; now right.
Qed.

Lemma NoDup_concat_map : forall A B (f : A -> list B) l,
  NoDup l ->
  (forall a, In a l -> NoDup (f a)) ->
  (forall a b x, In a l -> In b l -> In x (f a) -> In x (f b) -> a = b) ->
  NoDup (concat (map f l)).
Proof.
  induction l as [|h l IH]; cbn; intros Hl Hf Hd; [constructor|].
  inversion Hl as [|? ? Hn Hl']; subst. apply NoDup_app_gen.
  - apply Hf; now left.
  - apply IH; [assumption| |].
    + intros a Ha; apply Hf; now right.
    + intros a b x Ha Hb; apply Hd; now right.
  - intros x Hx Hc. apply in_concat in Hc. destruct Hc as [lx [Hlx Hxl]].
    apply in_map_iff in Hlx. destruct Hlx as [b [<- Hb]].
    assert (h = b) as -> by (apply (Hd h b x); [now left|now right|assumption|assumption]).
    contradiction.
Qed.

Lemma NoDup_map_pair : forall A B (a : A) (l : list B), NoDup l -> NoDup (map (pair a) l).
Proof.
  induction l as [|h l IH]; cbn; intros H; [constructor|].
  inversion H as [|? ? Hn H']; subst. constructor; [|apply IH; assumption].
  intros Hc. apply in_map_iff in Hc. destruct Hc as [b [Hb Hi]]. inversion Hb; subst. contradiction.
Qed.

Lemma NoDup_list_prod_gen : forall A B (l : list A) (l' : list B),
  NoDup l -> NoDup l' -> NoDup (list_prod l l').
Proof.
  induction l as [|h l IH]; cbn; intros l' Hl Hl'; [constructor|].
  inversion Hl as [|? ? Hn Hl2]; subst. apply NoDup_app_gen.
  - apply NoDup_map_pair; assumption.
  - apply IH; assumption.
  - intros [x y] Hx Hc. apply in_map_iff in Hx. destruct Hx as [b [Hb _]]. inversion Hb; subst.
    apply in_prod_iff in Hc. destruct Hc as [Hc _]. contradiction.
Qed.

Lemma fold_left_add_sum : forall l a, fold_left Nat.add l a = a + list_sum l.
Proof.
  induction l as [|h l IH]; intros a; [cbn; lia|]. cbn [fold_left]. rewrite IH.
  change (list_sum (h :: l)) with (h + list_sum l). lia.
Qed.

Lemma length_concat_map : forall A B (f : A -> list B) l,
  length (concat (map f l)) = list_sum (map (fun a => length (f a)) l).
Proof.
  induction l as [|h l IH]; [reflexivity|]. cbn [map concat]. rewrite app_length, IH. reflexivity.
Qed.

Lemma filter_nil : forall A (f : A -> bool) l, (forall x, In x l -> f x = false) -> filter f l = [].
Proof.
  induction l as [|h l IH]; cbn; intros H; [reflexivity|].
  rewrite (H h) by now left. apply IH. intros x Hx; apply H; now right.
Qed.

(* ---- monadic traversals *)
Lemma mapM_ok : forall A B (f : A -> res B) (g : A -> B) l,
  (forall a, In a l -> f a = Ok (g a)) -> mapM f l = Ok (map g l).
Proof.
  induction l as [|h l IH]; cbn; intros H; [reflexivity|].
  rewrite (H h) by now left. cbn. rewrite IH; [reflexivity|]. intros a Ha; apply H; now right.
Qed.

Lemma anyM_ok : forall A (f : A -> res bool) (g : A -> bool) l,
  (forall a, In a l -> f a = Ok (g a)) -> anyM f l = Ok (existsb g l).
Proof.
  induction l as [|h l IH]; cbn; intros H; [reflexivity|].
  rewrite (H h) by now left. cbn. destruct (g h); [reflexivity|]. cbn. apply IH.
  intros a Ha; apply H; now right.
Qed.

Lemma dedup_cons2 : forall a b t,
  dedup (a :: b :: t) = if Nat.eqb a b then dedup (b :: t) else a :: dedup (b :: t).
Proof. reflexivity. Qed.

Lemma dedup_nodup : forall l, NoDup l -> dedup l = l.
Proof.
  induction l as [|a l IH]; intros H; [reflexivity|].
  inversion H as [|? ? Hn H']; subst. destruct l as [|b t]; [reflexivity|].
  rewrite dedup_cons2. destruct (Nat.eqb_spec a b) as [->|Hab].
  - exfalso; apply Hn; now left.
  - rewrite IH by assumption. reflexivity.
Qed.

(* nodup_nat *)
Lemma in_fold_sadd : forall l acc x,
  In x (fold_left (fun acc x => sadd x acc) l acc) <-> In x l \/ In x acc.
Proof.
  induction l as [|h l IH]; cbn; intros acc x; [tauto|].
  rewrite IH, in_sadd. intuition.
Qed.
Lemma nodup_fold_sadd : forall l acc, NoDup acc -> NoDup (fold_left (fun acc x => sadd x acc) l acc).
Proof.
  induction l as [|h l IH]; cbn; intros acc H; [assumption|]. apply IH, nodup_sadd; assumption.
Qed.
Lemma in_nodup_nat : forall l x, In x (nodup_nat l) <-> In x l.
Proof. intros; unfold nodup_nat; rewrite in_fold_sadd; cbn; tauto. Qed.
Lemma nodup_nodup_nat : forall l, NoDup (nodup_nat l).
Proof. intros; unfold nodup_nat; apply nodup_fold_sadd; constructor. Qed.

(* ---- concat of a duplicate-free vector of sets *)
Lemma nth_in_concat : forall (L : list (list nat)) b lb x,
  nth_error L b = Some lb -> In x lb -> In x (concat L).
Proof.
  intros L b lb x Hn Hx. apply in_concat. exists lb; split; [|assumption].
  eapply nth_error_In; eassumption.
Qed.

Lemma concat_nodup_nth : forall (L : list (list nat)) a l,
  NoDup (concat L) -> nth_error L a = Some l -> NoDup l.
Proof.
  induction L as [|h L IH]; intros a l Hd Hn; destruct a; cbn in *; try discriminate.
  - inversion Hn; subst. apply nodup_app_inv in Hd. tauto.
  - apply nodup_app_inv in Hd. eapply IH; [|eassumption]. tauto.
Qed.

Lemma concat_nodup_disj : forall (L : list (list nat)) a b la lb x,
  NoDup (concat L) -> nth_error L a = Some la -> nth_error L b = Some lb ->
  In x la -> In x lb -> a = b.
Proof.
  induction L as [|h L IH]; intros a b la lb x Hd Ha Hb Hxa Hxb;
    destruct a, b; cbn in *; try discriminate; try reflexivity;
    apply nodup_app_inv in Hd; destruct Hd as [Hh [HL Hdis]].
  - inversion Ha; subst. exfalso. apply (Hdis x Hxa). eapply nth_in_concat; eassumption.
  - inversion Hb; subst. exfalso. apply (Hdis x Hxb). eapply nth_in_concat; eassumption.
  - f_equal. eapply IH; eassumption.
Qed.

(* ---- specification facts *)
Lemma rtc_mentioned : forall E x y, rtc E x y -> mentioned E x /\ mentioned E y.
Proof.
  induction 1 as [x y H|x y H|x y H|x y z _ [Hx _] _ [_ Hz]].
  - split; exists y; now left.
  - split; exists x; now right.
  - split; [exists y; now left|exists x; now right].
  - split; assumption.
Qed.
Lemma mentioned_rtc : forall E x, mentioned E x -> rtc E x x.
Proof. intros E x [y [H|H]]; [eapply rtc_l|eapply rtc_r]; eassumption. Qed.

(* ---- dominant ids *)
Lemma gdom_mono : forall f subs t d, gdom f subs t = Ok d -> forall f', f <= f' -> gdom f' subs t = Ok d.
Proof.
  induction f as [|f IH]; cbn; intros subs t d H f' Hle; [discriminate|].
  destruct f' as [|f']; [lia|]. cbn. destruct (aget t subs) as [p|]; [|assumption].
  apply IH with (f' := f') in H; [assumption|lia].
Qed.

(* a total reading of dom_id and of sets[s] *)
Definition domf (st : truf) (i : nat) : nat := match dom_id st i with Ok d => d | Err _ => 0 end.
Definition gs (st : truf) (s : nat) : list nat := nth s (t_sets st) [].
(* the ids visited by set_of_by_set_id / rev_set_of_by_set_id and the list they produce *)
Definition bids (m : mset) (d : nat) : list nat := filter (fun s => negb (Nat.eqb s d)) (eget d m) ++ [d].
Definition bsl (st : truf) (m : mset) (d : nat) : list nat := concat (map (gs st) (bids m d)).
(* the live class ids, in the order count_exact visits them *)
Definition DL (st : truf) : list nat := nodup_nat (map (domf st) (seq 0 (nsets st))).

Lemma nth_gs : forall st s, s < nsets st -> nth_error (t_sets st) s = Some (gs st s).
Proof. intros; unfold gs; apply nth_error_nth'; assumption. Qed.

Lemma mem_of_gs : forall st s x, mem_of st s x <-> In x (gs st s).
Proof.
  intros st s x; unfold mem_of, gs; split.
  - intros [l [Hn Hi]]. apply nth_error_nth with (d := []) in Hn. rewrite Hn; assumption.
  - intros Hi. destruct (lt_dec s (nsets st)) as [Hlt|Hge].
    + exists (nth s (t_sets st) []); split; [apply nth_error_nth'|]; assumption.
    + rewrite nth_overflow in Hi by (unfold nsets in Hge; lia). destruct Hi.
Qed.

Lemma in_bids : forall m d s, In s (bids m d) <-> s = d \/ In s (eget d m).
Proof.
  intros; unfold bids; rewrite in_app_iff, filter_In; cbn.
  destruct (Nat.eqb_spec s d) as [->|Hne]; cbn; intuition congruence.
Qed.

Lemma nodup_bids : forall m d, NoDup (eget d m) -> NoDup (bids m d).
Proof.
  intros m d H; unfold bids. apply NoDup_app_gen.
  - apply NoDup_filter; assumption.
  - constructor; [intros []|constructor].
  - intros x Hx [<-|[]]. apply filter_In in Hx. destruct Hx as [_ Hx].
    rewrite Nat.eqb_refl in Hx; discriminate.
Qed.

Lemma in_bsl : forall st m d y,
  In y (bsl st m d) <-> exists s, (s = d \/ In s (eget d m)) /\ mem_of st s y.
Proof.
  intros; unfold bsl; rewrite in_concat; split.
  - intros [l [Hl Hy]]. apply in_map_iff in Hl. destruct Hl as [s [<- Hs]].
    exists s; split; [apply in_bids; assumption|apply mem_of_gs; assumption].
  - intros [s [Hs Hy]]. exists (gs st s); split; [|apply mem_of_gs; assumption].
    apply in_map, in_bids; assumption.
Qed.

Lemma length_bsl : forall st m d,
  length (bsl st m d) =
  length (concat (map (gs st) (filter (fun s => negb (Nat.eqb s d)) (eget d m)))) + length (gs st d).
Proof.
  intros; unfold bsl, bids. rewrite map_app, concat_app, app_length. cbn. rewrite app_nil_r. reflexivity.
Qed.

(* ---- consequences of the invariant (every lemma takes E st and the invariant, used or not) *)
Section WithP.
Context {P : nat -> Prop}.
Local Notation tinv := (tinvP P).

Lemma subs_len : forall E st (H : tinv E st), length (t_subs st) <= nsets st.
Proof.
  intros E st H.
  rewrite <- (map_length fst), <- (seq_length (nsets st) 0). apply NoDup_incl_length.
  - apply (w_subs_keys _ _ H).
  - intros k Hk. apply in_seq. apply aget_some_in_keys in Hk.
    destruct (aget k (t_subs st)) as [f|] eqn:Hf; [|congruence].
    apply (w_subs_range _ _ H) in Hf. lia.
Qed.

Lemma dom_to_dom_id : forall E st (H : tinv E st) t d, dom_to st t d -> dom_id st t = Ok d.
Proof.
  intros E st H t d [Hg _]. unfold dom_id, dfuel. eapply gdom_mono; [eassumption|].
  pose proof (subs_len E st H) as Hl. unfold nsets in Hl. lia.
Qed.

Lemma dom_to_dominant : forall st t d, dom_to st t d -> dominant st d.
Proof. intros st t d [_ Hd]; exact Hd. Qed.

Lemma dominant_dom_to : forall st d, dominant st d -> dom_to st d d.
Proof. intros st d [Hlt Hn]; unfold dom_to; cbn. rewrite Hn. auto. Qed.

Lemma dominant_dom_id : forall E st (H : tinv E st) d, dominant st d -> dom_id st d = Ok d.
Proof. intros E st H d Hd; apply (dom_to_dom_id E st H), dominant_dom_to; assumption. Qed.

Lemma dom_to_domf : forall E st (H : tinv E st) t d, dom_to st t d -> domf st t = d.
Proof. intros E st H t d Hd; unfold domf; rewrite (dom_to_dom_id E st H _ _ Hd); reflexivity. Qed.

Lemma mem_disj : forall E st (H : tinv E st) a b x, mem_of st a x -> mem_of st b x -> a = b.
Proof.
  intros E st H a b x [la [Ha Hxa]] [lb [Hb Hxb]].
  eapply concat_nodup_disj; try eassumption. apply (w_sets_nodup _ _ H).
Qed.

Lemma gs_nodup : forall E st (H : tinv E st) s, NoDup (gs st s).
Proof.
  intros E st H s. destruct (lt_dec s (nsets st)) as [Hlt|Hge].
  - eapply concat_nodup_nth; [apply (w_sets_nodup _ _ H)|apply nth_gs; assumption].
  - unfold gs. rewrite nth_overflow by (unfold nsets in Hge; lia). constructor.
Qed.

(* elem_ids *)
Lemma ids_some : forall E st (H : tinv E st) x i, aget x (t_ids st) = Some i ->
  exists d, dom_to st i d /\ dominant st d /\ mem_of st d x /\ domf st i = d /\ mentioned E x.
Proof.
  intros E st H x i Hi. destruct (w_ids_mem _ _ H _ _ Hi) as [_ [d [Hd Hm]]].
  exists d. repeat split; try assumption; try apply Hd.
  - apply (dom_to_domf E st H); assumption.
  - apply (m_ids _ _ H). congruence.
Qed.

Lemma elem_set_cases : forall E st (H : tinv E st) x,
  (elem_set st x = Ok None /\ ~ mentioned E x) \/
  (exists d, elem_set st x = Ok (Some d) /\ dominant st d /\ mem_of st d x /\ mentioned E x).
Proof.
  intros E st H x. unfold elem_set. destruct (aget x (t_ids st)) as [i|] eqn:Hi.
  - right. destruct (ids_some E st H _ _ Hi) as [d [Hd [Hdd [Hm [_ Hx]]]]].
    exists d. rewrite (dom_to_dom_id E st H _ _ Hd). cbn. auto.
  - left. split; [reflexivity|]. intros Hm. apply (m_ids _ _ H) in Hm. congruence.
Qed.

Lemma mentioned_class : forall E st (H : tinv E st) x,
  mentioned E x -> exists d, dominant st d /\ mem_of st d x.
Proof.
  intros E st H x Hx.
  destruct (elem_set_cases E st H x) as [[_ Hn]|[d [_ [Hd [Hm _]]]]]; [contradiction|eauto].
Qed.

(* connection maps *)
Lemma eget_wf : forall st m d, mset_wf st m ->
  NoDup (eget d m) /\ forall j, In j (eget d m) -> dominant st j.
Proof.
  intros st m d [_ Hw]. unfold eget. destruct (aget d m) as [c|] eqn:Hc.
  - destruct (Hw _ _ Hc) as [_ [Hn Hj]]. auto.
  - split; [constructor|intros j []].
Qed.

Lemma gsc_ok : forall E st (H : tinv E st) d, get_set_connections st d = Ok (aget d (t_conn st)).
Proof.
  intros E st H d. unfold get_set_connections.
  destruct (aget d (t_conn st)) as [c|] eqn:Hc; [|reflexivity].
  destruct (w_conn _ _ H) as [_ Hw]. destruct (Hw _ _ Hc) as [_ [Hn Hj]].
  rewrite (mapM_ok _ _ (dom_id st) (fun j => j) c).
  - cbn. rewrite map_id, dedup_nodup by assumption. reflexivity.
  - intros j Hjc. apply (dominant_dom_id E st H), Hj; assumption.
Qed.

Lemma sets_of_ok : forall st ids, (forall s, In s ids -> s < nsets st) ->
  sets_of st ids = Ok (concat (map (gs st) ids)).
Proof.
  intros st ids Hi. unfold sets_of.
  rewrite (mapM_ok _ _ (fun s => of_opt Oob (nth_error (t_sets st) s)) (gs st) ids); [reflexivity|].
  intros s Hs. rewrite nth_gs by (apply Hi; assumption). reflexivity.
Qed.

Lemma by_set_id_ok : forall E st (H : tinv E st) m i d,
  mset_wf st m -> dom_to st i d -> by_set_id st m i = Ok (bsl st m d).
Proof.
  intros E st H m i d Hm Hd. unfold by_set_id. rewrite (dom_to_dom_id E st H _ _ Hd). cbn [bind].
  apply sets_of_ok. intros s Hs. change (In s (bids m d)) in Hs. apply in_bids in Hs.
  destruct Hs as [->|Hs].
  - apply Hd.
  - apply (eget_wf st m d Hm) in Hs. apply Hs.
Qed.

Lemma nodup_bsl : forall E st (H : tinv E st) m d, mset_wf st m -> NoDup (bsl st m d).
Proof.
  intros E st H m d Hm. unfold bsl. apply NoDup_concat_map.
  - apply nodup_bids, (eget_wf st m d Hm).
  - intros a _; apply (gs_nodup E st H).
  - intros a b x _ _ Ha Hb. apply mem_of_gs in Ha, Hb. eapply (mem_disj E st H); eassumption.
Qed.

(* ---- meaning of the two traversals *)
Lemma set_sem : forall E st (H : tinv E st) d x, dominant st d -> mem_of st d x ->
  forall y, In y (bsl st (t_conn st) d) <-> rtc E x y.
Proof.
  intros E st H d x Hd Hx y. rewrite in_bsl. split.
  - intros [s [[->|Hs] Hy]].
    + eapply (m_class _ _ H); eassumption.
    + eapply (m_conn _ _ H); eassumption.
  - intros Hr. destruct (rtc_mentioned _ _ _ Hr) as [_ Hy].
    destruct (mentioned_class E st H _ Hy) as [b [Hb Hyb]]. exists b; split; [|assumption].
    destruct (m_complete _ _ H d b x y Hd Hb Hx Hyb Hr) as [->|Hc]; [now left|now right].
Qed.

Lemma rev_sem : forall E st (H : tinv E st) d x, dominant st d -> mem_of st d x ->
  forall y, In y (bsl st (t_rev st) d) <-> rtc E y x.
Proof.
  intros E st H d x Hd Hx y. rewrite in_bsl. split.
  - intros [s [[->|Hs] Hy]].
    + eapply (m_class _ _ H); eassumption.
    + destruct (Nat.eq_dec s d) as [->|Hne].
      * eapply (m_class _ _ H); eassumption.
      * apply (g_conv _ _ H s d Hne) in Hs. eapply (m_conn _ _ H); eassumption.
  - intros Hr. destruct (rtc_mentioned _ _ _ Hr) as [Hy _].
    destruct (mentioned_class E st H _ Hy) as [b [Hb Hyb]]. exists b; split; [|assumption].
    destruct (Nat.eq_dec b d) as [->|Hne]; [now left|right].
    destruct (m_complete _ _ H b d y x Hb Hd Hyb Hx Hr) as [->|Hc]; [congruence|].
    apply (g_conv _ _ H b d Hne); assumption.
Qed.

(* ---- live class ids *)
Lemma mapM_dom_seq : forall E st (H : tinv E st),
  mapM (dom_id st) (seq 0 (nsets st)) = Ok (map (domf st) (seq 0 (nsets st))).
Proof.
  intros E st H. apply mapM_ok. intros t Ht. apply in_seq in Ht.
  destruct (w_subs_dom _ _ H t) as [d Hd]; [lia|].
  rewrite (dom_to_domf E st H _ _ Hd). apply (dom_to_dom_id E st H); assumption.
Qed.

Lemma in_DL : forall E st (H : tinv E st) d, In d (DL st) <-> dominant st d.
Proof.
  intros E st H d. unfold DL. rewrite in_nodup_nat, in_map_iff. split.
  - intros [t [Ht Hi]]. apply in_seq in Hi.
    destruct (w_subs_dom _ _ H t) as [d' Hd]; [lia|].
    rewrite (dom_to_domf E st H _ _ Hd) in Ht. subst. eapply dom_to_dominant; eassumption.
  - intros Hd. exists d. split.
    + apply (dom_to_domf E st H), dominant_dom_to; assumption.
    + apply in_seq. destruct Hd; lia.
Qed.

Lemma nodup_DL : forall st, NoDup (DL st).
Proof. intros; apply nodup_nodup_nat. Qed.

(* ---- the two internal consistency checks *)
Lemma disjoint_from_ok : forall sets acc,
  NoDup (concat sets) -> (forall x, In x (concat sets) -> ~ In x acc) -> disjoint_from acc sets = true.
Proof.
  induction sets as [|s rest IH]; cbn; intros acc Hd Ha; [reflexivity|].
  apply nodup_app_inv in Hd. destruct Hd as [Hs [Hr Hdis]]. apply andb_true_iff; split.
  - apply negb_true_iff. destruct (existsb (fun x => smem x acc) s) eqn:Hex; [|reflexivity].
    apply existsb_exists in Hex. destruct Hex as [x [Hx Hm]]. apply smem_in in Hm.
    exfalso. apply (Ha x); [apply in_app_iff; now left|assumption].
  - apply IH; [assumption|]. intros x Hx Hc. apply in_app_iff in Hc. destruct Hc as [Hc|Hc].
    + apply (Hdis x Hc Hx).
    + apply (Ha x); [apply in_app_iff; now right|assumption].
Qed.

Lemma dominated_ok : forall E st, tinv E st -> forall m, mset_wf st m ->
  forallb (fun kv => match sinter (snd kv) (filter (fun s => ahas s (t_subs st)) (seq 0 (length (t_sets st)))) with
                     | [] => true | _ => false end) m = true.
Proof.
  intros E st H m [Hk Hw]. apply forallb_forall. intros [k c] Hkc. cbn [snd].
  apply in_aget in Hkc; [|assumption]. destruct (Hw _ _ Hkc) as [_ [_ Hj]].
  unfold sinter. rewrite filter_nil; [reflexivity|]. intros j Hjc. apply smem_false.
  intros Hf. apply filter_In in Hf. destruct Hf as [_ Hf]. apply ahas_true in Hf.
  destruct (Hj _ Hjc) as [_ Hn]. congruence.
Qed.

Theorem q_asserts : forall E st, tinv E st -> disjoint_ok st = true /\ dominant_ok st = true.
Proof.
  intros E st H. split.
  - unfold disjoint_ok. apply disjoint_from_ok; [apply (w_sets_nodup _ _ H)|intros x _ []].
  - unfold dominant_ok. apply andb_true_iff; split.
    + apply (dominated_ok E st H), (w_conn _ _ H).
    + apply (dominated_ok E st H), (w_rev _ _ H).
Qed.

(* ---- contains *)
Theorem q_contains : forall E st, tinv E st -> forall x y,
  exists b, tr_contains st x y = Ok b /\ (b = true <-> rtc E x y).
Proof.
  intros E st H x y. unfold tr_contains.
  destruct (elem_set_cases E st H x) as [[He Hm]|[d [He [Hd [Hx Hm]]]]]; rewrite He; cbn [bind].
  - exists false. split; [reflexivity|]. split; [discriminate|].
    intros Hr. apply rtc_mentioned in Hr. tauto.
  - rewrite (nth_gs st d) by apply Hd. cbn [of_opt bind].
    destruct (smem y (gs st d)) eqn:Hs.
    + exists true. split; [reflexivity|]. split; [|reflexivity]. intros _.
      apply smem_in, mem_of_gs in Hs. eapply (m_class _ _ H); eassumption.
    + apply smem_false in Hs. rewrite (gsc_ok E st H). cbn [bind].
      assert (Hsem : rtc E x y <-> exists s, (s = d \/ In s (eget d (t_conn st))) /\ mem_of st s y).
      { rewrite <- (set_sem E st H d x Hd Hx y), in_bsl. reflexivity. }
      unfold eget in Hsem.
      destruct (aget d (t_conn st)) as [c|] eqn:Hc.
      * rewrite (anyM_ok _ _ (fun s2 => smem y (gs st s2)) c).
        -- eexists; split; [reflexivity|]. rewrite Hsem, existsb_exists. split.
           ++ intros [s2 [Hin Hs2]]. exists s2. split; [now right|].
              apply mem_of_gs, smem_in; assumption.
           ++ intros [s [[->|Hin] Hy]].
              ** exfalso; apply Hs, mem_of_gs; assumption.
              ** exists s; split; [assumption|]. apply smem_in, mem_of_gs; assumption.
        -- intros a Ha. destruct (w_conn _ _ H) as [_ Hw]. destruct (Hw _ _ Hc) as [_ [_ Hj]].
           rewrite (nth_gs st a) by apply (Hj a Ha). reflexivity.
      * exists false. split; [reflexivity|]. split; [discriminate|]. rewrite Hsem.
        intros [s [[->|[]] Hy]]. exfalso; apply Hs, mem_of_gs; assumption.
Qed.

(* ---- set_of / rev_set_of *)
Theorem q_set_of : forall E st, tinv E st -> forall x,
  exists o, tr_set_of st x = Ok o /\ (o = None <-> ~ mentioned E x) /\
            forall l, o = Some l -> NoDup l /\ forall y, In y l <-> rtc E x y.
Proof.
  intros E st H x. unfold tr_set_of.
  destruct (elem_set_cases E st H x) as [[He Hm]|[d [He [Hd [Hx Hm]]]]]; rewrite He; cbn [bind].
  - exists None. split; [reflexivity|]. split; [tauto|discriminate].
  - rewrite (by_set_id_ok E st H (t_conn st) d d (w_conn _ _ H) (dominant_dom_to st d Hd)). cbn [bind].
    eexists; split; [reflexivity|]. split.
    + split; [discriminate|intros Hn; contradiction].
    + intros l Hl. inversion Hl; subst. split.
      * apply (nodup_bsl E st H), (w_conn _ _ H).
      * apply (set_sem E st H); assumption.
Qed.

Theorem q_rev_set_of : forall E st, tinv E st -> forall x,
  exists o, tr_rev_set_of st x = Ok o /\ (o = None <-> ~ mentioned E x) /\
            forall l, o = Some l -> NoDup l /\ forall y, In y l <-> rtc E y x.
Proof.
  intros E st H x. unfold tr_rev_set_of.
  destruct (elem_set_cases E st H x) as [[He Hm]|[d [He [Hd [Hx Hm]]]]]; rewrite He; cbn [bind].
  - exists None. split; [reflexivity|]. split; [tauto|discriminate].
  - rewrite (by_set_id_ok E st H (t_rev st) d d (w_rev _ _ H) (dominant_dom_to st d Hd)). cbn [bind].
    eexists; split; [reflexivity|]. split.
    + split; [discriminate|intros Hn; contradiction].
    + intros l Hl. inversion Hl; subst. split.
      * apply (nodup_bsl E st H), (w_rev _ _ H).
      * apply (rev_sem E st H); assumption.
Qed.

(* ---- iter_all *)
Definition ia_row (st : truf) (kv : nat * nat) : list (nat * nat) :=
  map (pair (fst kv)) (bsl st (t_conn st) (domf st (snd kv))).

Lemma iter_all_ok : forall E st, tinv E st -> tr_iter_all st = Ok (concat (map (ia_row st) (t_ids st))).
Proof.
  intros E st H. unfold tr_iter_all.
  rewrite (mapM_ok _ _ _ (ia_row st) (t_ids st)); [reflexivity|].
  intros [x i] Hin. cbn [fst snd]. apply in_aget in Hin; [|apply (w_ids_keys _ _ H)].
  destruct (ids_some E st H x i Hin) as [d [Hd [_ [_ [Hf _]]]]].
  rewrite (by_set_id_ok E st H (t_conn st) i d (w_conn _ _ H) Hd). cbn [bind].
  unfold ia_row. cbn [fst snd]. rewrite Hf. reflexivity.
Qed.

Lemma in_iter_all : forall E st, tinv E st -> forall x y,
  In (x, y) (concat (map (ia_row st) (t_ids st))) <-> rtc E x y.
Proof.
  intros E st H x y. rewrite in_concat. split.
  - intros [l [Hl Hxy]]. apply in_map_iff in Hl. destruct Hl as [[x' i] [<- Hin]].
    unfold ia_row in Hxy. cbn [fst snd] in Hxy. apply in_map_iff in Hxy.
    destruct Hxy as [y' [Heq Hy]]. inversion Heq; subst.
    apply in_aget in Hin; [|apply (w_ids_keys _ _ H)].
    destruct (ids_some E st H x i Hin) as [d [_ [Hdd [Hm [Hf _]]]]]. rewrite Hf in Hy.
    apply (set_sem E st H d x Hdd Hm); assumption.
  - intros Hr. destruct (rtc_mentioned _ _ _ Hr) as [Hx _]. apply (m_ids _ _ H) in Hx.
    destruct (aget x (t_ids st)) as [i|] eqn:Hi; [|congruence].
    destruct (ids_some E st H x i Hi) as [d [_ [Hdd [Hm [Hf _]]]]].
    exists (ia_row st (x, i)). split; [apply in_map, aget_in; assumption|].
    unfold ia_row. cbn [fst snd]. apply in_map. rewrite Hf.
    apply (set_sem E st H d x Hdd Hm); assumption.
Qed.

Lemma nodup_iter_all : forall E st, tinv E st -> NoDup (concat (map (ia_row st) (t_ids st))).
Proof.
  intros E st H. apply NoDup_concat_map.
  - eapply NoDup_map_inv, (w_ids_keys _ _ H).
  - intros a _. unfold ia_row. apply NoDup_map_pair, (nodup_bsl E st H), (w_conn _ _ H).
  - intros [x i] [x' i'] p Ha Hb Hpa Hpb. unfold ia_row in Hpa, Hpb. cbn [fst snd] in Hpa, Hpb.
    apply in_map_iff in Hpa, Hpb. destruct Hpa as [y [<- _]]. destruct Hpb as [y' [Heq _]].
    inversion Heq; subst. apply in_aget in Ha, Hb; try apply (w_ids_keys _ _ H). congruence.
Qed.

Theorem q_iter_all : forall E st, tinv E st ->
  exists l, tr_iter_all st = Ok l /\ NoDup l /\ forall x y, In (x, y) l <-> rtc E x y.
Proof.
  intros E st H. exists (concat (map (ia_row st) (t_ids st))). split; [|split].
  - apply (iter_all_ok E st H).
  - apply (nodup_iter_all E st H).
  - apply (in_iter_all E st H).
Qed.

(* ---- count_exact *)
Definition ce_row (st : truf) (s : nat) : list (nat * nat) := list_prod (gs st s) (bsl st (t_conn st) s).

Lemma ce_rest_sum : forall st s n c,
  list_sum (map (fun s2 => if Nat.eqb s s2 then 0 else n * length (gs st s2)) c) =
  n * length (concat (map (gs st) (filter (fun s2 => negb (Nat.eqb s2 s)) c))).
Proof.
  induction c as [|h c IH]; [cbn; lia|]. cbn [map filter].
  change (list_sum (?a :: ?l)) with (a + list_sum l). rewrite IH.
  rewrite (Nat.eqb_sym h s). destruct (Nat.eqb s h); cbn [negb map concat]; [lia|].
  rewrite app_length. lia.
Qed.

Lemma ce_part_ok : forall E st, tinv E st -> forall s, dominant st s ->
  (do ss <- of_opt Oob (nth_error (t_sets st) s);
   let n := length ss in
   do co <- get_set_connections st s;
   do rest <- mapM (fun s2 => if Nat.eqb s s2 then Ok 0 else
                              do ss2 <- of_opt Oob (nth_error (t_sets st) s2); Ok (n * length ss2))
                   (match co with Some cs => cs | None => [] end);
   Ok (n * n + fold_left Nat.add rest 0)) = Ok (length (ce_row st s)).
Proof.
  intros E st H s Hs. rewrite (nth_gs st s) by apply Hs. cbn [of_opt bind].
  rewrite (gsc_ok E st H). cbn [bind].
  change (match aget s (t_conn st) with Some cs => cs | None => [] end) with (eget s (t_conn st)).
  rewrite (mapM_ok _ _ _ (fun s2 => if Nat.eqb s s2 then 0 else length (gs st s) * length (gs st s2))
             (eget s (t_conn st))).
  - cbn [bind]. f_equal. rewrite fold_left_add_sum, ce_rest_sum. unfold ce_row.
    rewrite prod_length, length_bsl. lia.
  - intros a Ha. destruct (Nat.eqb s a); [reflexivity|].
    apply (eget_wf st (t_conn st) s (w_conn _ _ H)) in Ha. rewrite (nth_gs st a) by apply Ha. reflexivity.
Qed.

Theorem q_count_exact : forall E st, tinv E st ->
  exists l, NoDup l /\ (forall x y, In (x, y) l <-> rtc E x y) /\ tr_count_exact st = Ok (length l).
Proof.
  intros E st H. exists (concat (map (ce_row st) (DL st))). split; [|split].
  - apply NoDup_concat_map.
    + apply nodup_DL.
    + intros a _. unfold ce_row. apply NoDup_list_prod_gen; [apply (gs_nodup E st H)|].
      apply (nodup_bsl E st H), (w_conn _ _ H).
    + intros a b [x y] _ _ Ha Hb. unfold ce_row in Ha, Hb. apply in_prod_iff in Ha, Hb.
      destruct Ha as [Ha _], Hb as [Hb _]. apply mem_of_gs in Ha, Hb. eapply (mem_disj E st H); eassumption.
  - intros x y. rewrite in_concat. split.
    + intros [l [Hl Hxy]]. apply in_map_iff in Hl. destruct Hl as [s [<- Hs]].
      apply (in_DL E st H) in Hs. unfold ce_row in Hxy. apply in_prod_iff in Hxy.
      destruct Hxy as [Hx Hy]. apply mem_of_gs in Hx. apply (set_sem E st H s x Hs Hx); assumption.
    + intros Hr. destruct (rtc_mentioned _ _ _ Hr) as [Hx _].
      destruct (mentioned_class E st H x Hx) as [d [Hd Hm]].
      exists (ce_row st d). split; [apply in_map, (in_DL E st H); assumption|].
      unfold ce_row. apply in_prod_iff. split; [apply mem_of_gs; assumption|].
      apply (set_sem E st H d x Hd Hm); assumption.
  - unfold tr_count_exact. fold (nsets st). rewrite (mapM_dom_seq E st H). cbn [bind].
    fold (DL st).
    rewrite (mapM_ok _ _ _ (fun s => length (ce_row st s)) (DL st)).
    + cbn [bind]. f_equal. rewrite fold_left_add_sum, length_concat_map. reflexivity.
    + intros s Hs. apply (in_DL E st H) in Hs. apply (ce_part_ok E st H s Hs).
Qed.

(* ---- is_empty *)
Theorem q_is_empty : forall E st, tinv E st -> (tr_is_empty st = true <-> E = []).
Proof.
  intros E st H. unfold tr_is_empty. split.
  - intros He. destruct (t_sets st) as [|s0 rest] eqn:Hs; [|discriminate].
    destruct E as [|[x y] E']; [reflexivity|]. exfalso.
    assert (Hm : mentioned ((x, y) :: E') x) by (exists y; left; now left).
    apply (m_ids _ _ H) in Hm. destruct (aget x (t_ids st)) as [i|] eqn:Hi; [|congruence].
    destruct (w_ids_mem _ _ H _ _ Hi) as [Hlt _]. unfold nsets in Hlt. rewrite Hs in Hlt. cbn in Hlt. lia.
  - intros ->. destruct (t_sets st) as [|s0 rest] eqn:Hs; [reflexivity|]. exfalso.
    destruct (w_subs_dom _ _ H 0) as [d Hd]; [unfold nsets; rewrite Hs; cbn; lia|].
    destruct (w_nonempty _ _ H d (dom_to_dominant st 0 d Hd)) as [x Hx].
    apply (w_mem_ids _ _ H) in Hx. apply (m_ids _ _ H) in Hx. destruct Hx as [y [[]|[]]].
Qed.

End WithP.

Print Assumptions q_asserts.
Print Assumptions q_contains.
Print Assumptions q_set_of.
Print Assumptions q_rev_set_of.
Print Assumptions q_iter_all.
Print Assumptions q_count_exact.
Print Assumptions q_is_empty.
